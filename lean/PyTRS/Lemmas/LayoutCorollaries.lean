/-
Text-level corollaries of `C01_canonical_forward_all_layouts` (Lemmas/LayoutText3.lean) for C04 ("no description text is
silently dropped") and C09 ("every tract is well-formed and traceable to its source").  NO new lexical work: everything below
is derived from the all-layouts theorem and the provenance theorem `C05_tracts_follow_sections` (Lemmas/TractsOf.lean).

* `CanonRun L mc a sp g gs` : the hypotheses of `C01_canonical_forward_all_layouts`, bundled (so that the corollaries can be read).
* `C04_canonical_blocks_kept`      : every description block of the input is, verbatim, the description of a tract of the
                                     result (the tract of ITS Twp/Rge and section) — for all four layouts.
* `C04_canonical_words_kept`       : hence every infix (word) of every block is an infix of a tract description.
* `C04_canonical_no_unused_flag`   : no `unused_desc<…>` error flag (indeed no error flag at all).
* `C04_inert_word_kept`            : a foreign word `w` inserted in a block (`d = x ++ w ++ y`, still inert) is kept: it is an
                                     infix of the description of the tract of that line, which is `x ++ w ++ y`.
* `C09_canonical_tracts_wellformed`: the number of tracts is the number of section lines; every tract comes from a line of a
                                     group, its `trs` is `trs_to_dict` of the standard string `<t><ns><r><ew><nn>` and decomposes
                                     into exactly these parts, it is not an error Twp/Rge/Sec, its description is the block, its
                                     `orig_desc` is the input text, its `source` the parser's; `orig_index` = position.
-/
import PyTRS.Lemmas.LayoutText3
import PyTRS.Lemmas.TractsOf

namespace PyTRS
open PyTRS.Obj PyTRS.Plss PyTRS.Export PyTRS.Unpack

/-- the hypotheses of `C01_canonical_forward_all_layouts`: standard Twp/Rge groups with two-digit sections and inert blocks,
    legal default directions, no OCR scrubbing / segmenting / `sec_within`, layout deduced or given as `L`, a readable config -/
structure CanonRun (L : Lay) (mc : MC) (a : ParserArgs) (sp : Str) (g : Gp) (gs : List Gp) : Prop where
  sep : SepOk sp
  std : ∀ x ∈ g :: gs, StdGp x
  three : L = .trDescS → a.layout = none → 3 ≤ g.l.d.length
  mcNS : isLegal Gen.LEGAL_NS mc.ns = true
  mcEW : isLegal Gen.LEGAL_EW mc.ew = true
  defNS : isLegal Gen.LEGAL_NS (resolve a.defaultNS mc.ns) = true
  defEW : isLegal Gen.LEGAL_EW (resolve a.defaultEW mc.ew) = true
  noOcr : a.ocrScrub = false
  noSeg : a.segment = false
  noWithin : a.secWithin = false
  lay : a.layout = none ∨ a.layout = some L.str
  cfg : ∃ hd c, handedDownText a = .ok hd ∧ Config.ofText hd = .ok c

/-- the all-layouts theorem together with the provenance of the tracts, under the bundled hypotheses -/
theorem CanonRun.run {L : Lay} {mc : MC} {a : ParserArgs} {sp : Str} {g : Gp} {gs : List Gp} (H : CanonRun L mc a sp g gs)
    (uid0 : Nat) :
    ∃ out, plssParser mc uid0 (layText L sp g gs) a = .ok out ∧ out.layout = L.str ∧ out.fl.e = [] ∧
      out.tracts.map (fun t => (t.trs, t.desc)) = (docTracts (g :: gs)).map (fun p => (TRS.trsToDict (some p.1), p.2)) ∧
      (∀ t ∈ out.tracts, TRS.isError t.trs = false) ∧
      out.tracts.map (·.origIndex) = (List.range out.tracts.length).map (fun (i : Nat) => (i : Int)) ∧
      (∀ t ∈ out.tracts, t.origDesc = some (layText L sp g gs) ∧ t.source = a.source) := by
  obtain ⟨hd, c, hhd, hcfg⟩ := H.cfg
  obtain ⟨out, o1, o2, _, o4, o5, o6⟩ := C01_canonical_forward_all_layouts L mc uid0 a sp H.sep g gs H.std H.three H.mcNS H.mcEW
    H.defNS H.defEW H.noOcr H.noSeg H.noWithin H.lay hd c hhd hcfg
  obtain ⟨_, _, _, _, _, p4, p5⟩ := C05_tracts_follow_sections mc uid0 (layText L sp g gs) a TRS.trsToDict out o1
  exact ⟨out, o1, o2, o4, o5, o6, p4, p5⟩

/-! ## membership and counting in `docTracts` -/

theorem mem_docTracts {gs : List Gp} {grp : Gp} {ln : Ln} (hg : grp ∈ gs) (hl : ln ∈ grp.lines) :
    (grp.h.key ++ [ln.n1, ln.n2], ln.d) ∈ docTracts gs := by
  simp only [docTracts, docPairs, List.mem_map, List.mem_flatMap]
  exact ⟨(grp.h.key, ln), ⟨grp, hg, ln, hl, rfl⟩, rfl⟩

theorem of_mem_docTracts {gs : List Gp} {p : Str × Str} (hp : p ∈ docTracts gs) :
    ∃ grp ∈ gs, ∃ ln ∈ grp.lines, p = (grp.h.key ++ [ln.n1, ln.n2], ln.d) := by
  simp only [docTracts, docPairs, List.mem_map, List.mem_flatMap] at hp
  obtain ⟨q, ⟨grp, hg, ln, hl, rfl⟩, rfl⟩ := hp
  exact ⟨grp, hg, ln, hl, rfl⟩

theorem docTracts_length (gs : List Gp) : (docTracts gs).length = (gs.map (fun x => x.lines.length)).sum := by
  simp [docTracts, docPairs, List.length_flatMap]

/-! ## C04 — nothing of a description block is dropped -/

/-- **C04 on text, all four layouts: every description block is kept, verbatim, on the tract of its own Twp/Rge and section.**
    For every line (section + block) of every group of the abstract description, the result of `PLSSParser` on the rendering in
    layout `L` has a tract whose `trs` is the line's Twp/Rge/Sec and whose description is the line's block, character by
    character. -/
theorem C04_canonical_blocks_kept {L : Lay} {mc : MC} {a : ParserArgs} {sp : Str} {g : Gp} {gs : List Gp}
    (H : CanonRun L mc a sp g gs) (uid0 : Nat) :
    ∃ out, plssParser mc uid0 (layText L sp g gs) a = .ok out ∧
      ∀ grp ∈ g :: gs, ∀ ln ∈ grp.lines, ∃ t ∈ out.tracts,
        t.trs = TRS.trsToDict (some (grp.h.key ++ [ln.n1, ln.n2])) ∧ t.desc = ln.d := by
  obtain ⟨out, o1, _, _, o4, _⟩ := H.run uid0
  refine ⟨out, o1, ?_⟩
  intro grp hg ln hl
  have hm : (TRS.trsToDict (some (grp.h.key ++ [ln.n1, ln.n2])), ln.d) ∈
      (docTracts (g :: gs)).map (fun p => (TRS.trsToDict (some p.1), p.2)) :=
    List.mem_map.2 ⟨_, mem_docTracts hg hl, rfl⟩
  rw [← o4] at hm
  obtain ⟨t, ht, e⟩ := List.mem_map.1 hm
  simp only [Prod.mk.injEq] at e
  exact ⟨t, ht, e.1, e.2⟩

/-- **C04: every word of every block is in a tract description** ("no description text is silently dropped", on text, for all
    four layouts): every infix of every block of the input is an infix of the description of some tract of the result. -/
theorem C04_canonical_words_kept {L : Lay} {mc : MC} {a : ParserArgs} {sp : Str} {g : Gp} {gs : List Gp}
    (H : CanonRun L mc a sp g gs) (uid0 : Nat) :
    ∃ out, plssParser mc uid0 (layText L sp g gs) a = .ok out ∧
      ∀ grp ∈ g :: gs, ∀ ln ∈ grp.lines, ∀ w : Str, w <:+: ln.d → ∃ t ∈ out.tracts, w <:+: t.desc := by
  obtain ⟨out, o1, hk⟩ := C04_canonical_blocks_kept H uid0
  refine ⟨out, o1, ?_⟩
  intro grp hg ln hl w hw
  obtain ⟨t, ht, _, e⟩ := hk grp hg ln hl
  exact ⟨t, ht, e ▸ hw⟩

/-- **C04: no `unused_desc` error flag** on the canonical renderings (there is no error flag at all): nothing was left over
    that the library would report as unused description text. -/
theorem C04_canonical_no_unused_flag {L : Lay} {mc : MC} {a : ParserArgs} {sp : Str} {g : Gp} {gs : List Gp}
    (H : CanonRun L mc a sp g gs) (uid0 : Nat) :
    ∃ out, plssParser mc uid0 (layText L sp g gs) a = .ok out ∧ out.fl.e = [] ∧
      ∀ u : Str, PyVal.str (S "unused_desc<" ++ u ++ S ">") ∉ out.fl.e := by
  obtain ⟨out, o1, _, o3, _⟩ := H.run uid0
  refine ⟨out, o1, o3, ?_⟩
  intro u hu
  rw [o3] at hu
  cases hu

/-- **C04: a foreign word inserted in a block is kept.**  If the block of a line is `x ++ w ++ y` (inert as a whole — part of
    `CanonRun` — i.e. the inserted word `w` keeps it inert), then `w` is an infix of the description of the tract of that very
    line (its Twp/Rge/Sec), and that description is `x ++ w ++ y`: the word is neither dropped nor moved to another tract. -/
theorem C04_inert_word_kept {L : Lay} {mc : MC} {a : ParserArgs} {sp : Str} {g : Gp} {gs : List Gp}
    (H : CanonRun L mc a sp g gs) (uid0 : Nat) (grp : Gp) (hg : grp ∈ g :: gs) (ln : Ln) (hl : ln ∈ grp.lines)
    (x w y : Str) (hd : ln.d = x ++ w ++ y) :
    Inert (x ++ w ++ y) ∧
    ∃ out, plssParser mc uid0 (layText L sp g gs) a = .ok out ∧
      ∃ t ∈ out.tracts, t.trs = TRS.trsToDict (some (grp.h.key ++ [ln.n1, ln.n2])) ∧ t.desc = x ++ w ++ y ∧ w <:+: t.desc := by
  refine ⟨hd ▸ ((H.std grp hg).ok.ls ln hl).d, ?_⟩
  obtain ⟨out, o1, hk⟩ := C04_canonical_blocks_kept H uid0
  obtain ⟨t, ht, e1, e2⟩ := hk grp hg ln hl
  refine ⟨out, o1, t, ht, e1, e2.trans hd, ?_⟩
  rw [e2, hd]
  exact ⟨x, y, rfl⟩

/-! ## C09 — every tract is well-formed and traceable -/

/-- **C09 on text, all four layouts: the tracts are well-formed and traceable.**  The number of tracts is the number of section
    lines of the description; every tract comes from a line `ln` of a group `grp` with standard Twp/Rge `T<a><NS>-R<b><EW>`:
    its `trs` is `trs_to_dict` of the standard string `<a><ns><b><ew><nn>`, it decomposes into exactly that string, that Twp,
    that Rge and that section, it is not an error Twp/Rge/Sec, its description is the line's block, its `orig_desc` is the
    whole input text and its `source` the parser's; and `orig_index` is the position of the tract in the list. -/
theorem C09_canonical_tracts_wellformed {L : Lay} {mc : MC} {a : ParserArgs} {sp : Str} {g : Gp} {gs : List Gp}
    (H : CanonRun L mc a sp g gs) (uid0 : Nat) :
    ∃ out, plssParser mc uid0 (layText L sp g gs) a = .ok out ∧
      out.tracts.length = ((g :: gs).map (fun x => x.lines.length)).sum ∧
      out.tracts.map (·.origIndex) = (List.range out.tracts.length).map (fun (i : Nat) => (i : Int)) ∧
      ∀ t ∈ out.tracts, ∃ grp ∈ g :: gs, ∃ ln ∈ grp.lines, ∃ (ta rb : Nat) (ns ew : Char),
        ta < 1000 ∧ rb < 1000 ∧ (ns = 'n' ∨ ns = 's') ∧ (ew = 'e' ∨ ew = 'w') ∧ grp.h = stdHd ta rb ns ew ∧
        t.trs = TRS.trsToDict (some ((natToStr ta ++ [ns]) ++ (natToStr rb ++ [ew]) ++ [ln.n1, ln.n2])) ∧
        t.trs.trs = (natToStr ta ++ [ns]) ++ (natToStr rb ++ [ew]) ++ [ln.n1, ln.n2] ∧
        t.trs.twp = natToStr ta ++ [ns] ∧ t.trs.rge = natToStr rb ++ [ew] ∧ t.trs.sec = some [ln.n1, ln.n2] ∧
        TRS.isError t.trs = false ∧ t.desc = ln.d ∧
        t.origDesc = some (layText L sp g gs) ∧ t.source = a.source := by
  obtain ⟨out, o1, _, _, o4, _, o6, o7⟩ := H.run uid0
  refine ⟨out, o1, ?_, o6, ?_⟩
  · have := congrArg List.length o4
    simpa [docTracts_length] using this
  · intro t ht
    have hm : (t.trs, t.desc) ∈ out.tracts.map (fun t => (t.trs, t.desc)) := List.mem_map_of_mem ht
    rw [o4] at hm
    obtain ⟨p, hp, e⟩ := List.mem_map.1 hm
    obtain ⟨grp, hg, ln, hl, rfl⟩ := of_mem_docTracts hp
    simp only [Prod.mk.injEq] at e
    obtain ⟨ta, rb, ns, ew, h1, h2, hns, hew, hh⟩ := (H.std grp hg).std
    have hlk := (H.std grp hg).ok.ls ln hl
    have hk := stdHd_key ta rb ns ew h1 h2 hns hew
    have hs := std_trs_ok ta rb ns ew h1 h2 hns hew ln.n1 ln.n2 hlk.n1 hlk.n2
    simp only [] at hs
    rw [hh] at e
    rw [← e.1]
    rw [hk] at hs ⊢
    exact ⟨grp, hg, ln, hl, ta, rb, ns, ew, h1, h2, hns, hew, hh, rfl, hs.2.1, hs.2.2.1, hs.2.2.2.1, hs.2.2.2.2, hs.1, e.2.symm,
      o7 t ht⟩

/-! ## non-vacuity: concrete instances -/

namespace LayoutCorEx
open LayoutEx

/-- the concrete two-group description of `LayoutEx`, any layout, default arguments, a line break at the free position -/
theorem run0 (L : Lay) : CanonRun L {} {} ['\n'] g1 [g2] where
  sep := sepOk_nl
  std := all_std
  three := fun _ _ => by decide
  mcNS := by decide
  mcEW := by decide
  defNS := by decide
  defEW := by decide
  noOcr := rfl
  noSeg := rfl
  noWithin := rfl
  lay := Or.inl rfl
  cfg := ⟨hd0, cfg0, hd0_ok, cfg0_ok⟩

example (L : Lay) : ∃ out, plssParser {} 0 (layText L ['\n'] g1 [g2]) {} = .ok out ∧
    ∀ grp ∈ [g1, g2], ∀ ln ∈ grp.lines, ∃ t ∈ out.tracts,
      t.trs = TRS.trsToDict (some (grp.h.key ++ [ln.n1, ln.n2])) ∧ t.desc = ln.d :=
  C04_canonical_blocks_kept (run0 L) 0

example (L : Lay) : ∃ out, plssParser {} 0 (layText L ['\n'] g1 [g2]) {} = .ok out ∧
    ∀ grp ∈ [g1, g2], ∀ ln ∈ grp.lines, ∀ w : Str, w <:+: ln.d → ∃ t ∈ out.tracts, w <:+: t.desc :=
  C04_canonical_words_kept (run0 L) 0

example (L : Lay) : ∃ out, plssParser {} 0 (layText L ['\n'] g1 [g2]) {} = .ok out ∧ out.fl.e = [] ∧
    ∀ u : Str, PyVal.str (S "unused_desc<" ++ u ++ S ">") ∉ out.fl.e :=
  C04_canonical_no_unused_flag (run0 L) 0

/-- the foreign word "(brown well)" between "NE corner " and " & rhubarb field #" in the second line of the first group -/
example (L : Lay) : Inert (S "NE corner " ++ S "(brown well)" ++ S " & rhubarb field #") ∧
    ∃ out, plssParser {} 0 (layText L ['\n'] g1 [g2]) {} = .ok out ∧
      ∃ t ∈ out.tracts, t.trs = TRS.trsToDict (some (g1.h.key ++ ['1', '5'])) ∧
        t.desc = S "NE corner " ++ S "(brown well)" ++ S " & rhubarb field #" ∧ S "(brown well)" <:+: t.desc :=
  C04_inert_word_kept (run0 L) 0 g1 (by simp) ⟨'1', '5', S "NE corner (brown well) & rhubarb field #"⟩ (by simp [Gp.lines, g1])
    (S "NE corner ") (S "(brown well)") (S " & rhubarb field #") (by decide +kernel)

example (L : Lay) : ∃ out, plssParser {} 0 (layText L ['\n'] g1 [g2]) {} = .ok out ∧
    out.tracts.length = ([g1, g2].map (fun x => x.lines.length)).sum ∧
    out.tracts.map (·.origIndex) = (List.range out.tracts.length).map (fun (i : Nat) => (i : Int)) ∧
    ∀ t ∈ out.tracts, ∃ grp ∈ [g1, g2], ∃ ln ∈ grp.lines, ∃ (ta rb : Nat) (ns ew : Char),
      ta < 1000 ∧ rb < 1000 ∧ (ns = 'n' ∨ ns = 's') ∧ (ew = 'e' ∨ ew = 'w') ∧ grp.h = stdHd ta rb ns ew ∧
      t.trs = TRS.trsToDict (some ((natToStr ta ++ [ns]) ++ (natToStr rb ++ [ew]) ++ [ln.n1, ln.n2])) ∧
      t.trs.trs = (natToStr ta ++ [ns]) ++ (natToStr rb ++ [ew]) ++ [ln.n1, ln.n2] ∧
      t.trs.twp = natToStr ta ++ [ns] ∧ t.trs.rge = natToStr rb ++ [ew] ∧ t.trs.sec = some [ln.n1, ln.n2] ∧
      TRS.isError t.trs = false ∧ t.desc = ln.d ∧
      t.origDesc = some (layText L ['\n'] g1 [g2]) ∧ t.source = none :=
  C09_canonical_tracts_wellformed (run0 L) 0

example : ([g1, g2].map (fun x => x.lines.length)).sum = 3 := by decide

end LayoutCorEx

#print axioms C04_canonical_blocks_kept
#print axioms C04_canonical_words_kept
#print axioms C04_canonical_no_unused_flag
#print axioms C04_inert_word_kept
#print axioms C09_canonical_tracts_wellformed

end PyTRS
