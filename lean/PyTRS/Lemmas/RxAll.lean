/-
G4 — list-of-successes adequacy for the L0 matcher: `Rx.all r s` is the list of all states in which `r` can finish
when started in `s`, in backtracking priority order, and the CPS matcher `Rx.m` is exactly `List.findSome?` over it.
-/
import PyTRS.Rx
namespace PyTRS

/-- all ways the greedy loop can finish, in priority order (mirrors `repLoop` exactly, incl. `count`, `last`) -/
def repAll (body : St → List St) (lo : Nat) (hi : Option Nat) : Nat → Nat → Option Nat → St → List St
  | 0, _, _, _ => []
  | fuel+1, count, last, s =>
    if count < lo then
      (body s).flatMap (fun s' => repAll body lo hi fuel (count+1) last s')
    else if canMore hi count && last != some s.pos then
      (body s).flatMap (fun s' => repAll body lo hi fuel (count+1) (some s.pos) s') ++ [s]
    else [s]

/-- all ways `r` can match from `s`, in priority order -/
def Rx.all : Rx → St → List St
  | .eps, s => [s]
  | .fail, _ => []
  | .chr cs, s =>
    match s.rest with
    | c :: t => if cs.mem c then [{ prev := some c, rest := t, pos := s.pos + 1, caps := s.caps }] else []
    | [] => []
  | .seq a b, s => (a.all s).flatMap b.all
  | .alt a b, s => a.all s ++ b.all s
  | .rep r lo hi, s => repAll r.all lo hi (s.rest.length + lo + 2) 0 none s
  | .grp i r, s => (r.all s).map (fun s' => { s' with caps := (i, s.pos, s'.pos) :: s'.caps })
  | .ahead r, s =>
    match r.all s with
    | s' :: _ => [{ s with caps := s'.caps }]
    | [] => []
  | .nahead r, s =>
    match r.all s with
    | _ :: _ => []
    | [] => [s]
  | .behind cs, s =>
    match s.prev with
    | some c => if cs.mem c then [s] else []
    | none => []
  | .wordb w, s => if isWord w s.prev != isWord w s.rest.head? then [s] else []
  | .eos, s =>
    match s.rest with
    | [] => [s]
    | [c] => if c == '\n' then [s] else []
    | _ => []
  | .bos, s => if s.pos == 0 then [s] else []

/-! ### helpers -/

private theorem findSome?_flatMap' {α β γ : Type} (l : List α) (f : α → List β) (k : β → Option γ) :
    (l.flatMap f).findSome? k = l.findSome? (fun a => (f a).findSome? k) := by
  induction l with
  | nil => rfl
  | cons a t ih =>
    rw [List.flatMap_cons, List.findSome?_append, List.findSome?_cons, ih]
    cases (f a).findSome? k <;> rfl

private theorem findSome?_single {α β : Type} (a : α) (k : α → Option β) :
    [a].findSome? k = k a := by
  rw [List.findSome?_cons]
  cases k a <;> rfl

private theorem findSome?_some_eq_head? {α : Type} (l : List α) : l.findSome? some = l.head? := by
  cases l <;> rfl

/-! ### the loop -/

theorem repLoop_eq_findSome {R : Type} (body : St → (St → Option R) → Option R) (bodyAll : St → List St)
    (hb : ∀ s k, body s k = (bodyAll s).findSome? k) (lo : Nat) (hi : Option Nat) :
    ∀ (fuel count : Nat) (last : Option Nat) (s : St) (k : St → Option R),
      repLoop body lo hi fuel count last s k = (repAll bodyAll lo hi fuel count last s).findSome? k := by
  intro fuel
  induction fuel with
  | zero => intro count last s k; rfl
  | succ n ih =>
    intro count last s k
    rw [repLoop.eq_def, repAll.eq_def]
    simp only []
    by_cases h1 : count < lo
    · simp only [h1, if_true]
      rw [hb, findSome?_flatMap']
      congr 1
      funext s'
      exact ih _ _ _ _
    · simp only [h1, if_false]
      by_cases h2 : (canMore hi count && last != some s.pos) = true
      · simp only [h2, if_true]
        rw [List.findSome?_append, findSome?_single, findSome?_flatMap', ← hb]
        have : (fun s' => repLoop body lo hi n (count + 1) (some s.pos) s' k) =
            (fun a => List.findSome? k (repAll bodyAll lo hi n (count + 1) (some s.pos) a)) := by
          funext s'
          exact ih _ _ _ _
        rw [← this]
        cases body s (fun s' => repLoop body lo hi n (count + 1) (some s.pos) s' k) <;> rfl
      · simp only [h2]
        exact (findSome?_single s k).symm

/-! ### the main theorem -/

theorem Rx.m_eq_findSome (r : Rx) {R : Type} (s : St) (k : St → Option R) :
    r.m s k = (r.all s).findSome? k := by
  induction r generalizing R s k with
  | eps => simp only [Rx.m, Rx.all]; exact (findSome?_single s k).symm
  | fail => rfl
  | chr cs =>
    simp only [Rx.m, Rx.all]
    generalize s.rest = l
    rcases l with _ | ⟨c, t⟩
    · rfl
    · simp only []
      by_cases h : cs.mem c = true
      · simp only [h, if_true]; exact (findSome?_single _ k).symm
      · simp only [h]; rfl
  | seq a b iha ihb =>
    simp only [Rx.m, Rx.all]
    rw [iha, findSome?_flatMap']
    congr 1
    funext s'
    exact ihb s' k
  | alt a b iha ihb =>
    simp only [Rx.m, Rx.all]
    rw [List.findSome?_append, ← iha, ← ihb]
    cases a.m s k <;> rfl
  | rep r lo hi ih =>
    simp only [Rx.m, Rx.all]
    exact repLoop_eq_findSome r.m r.all (fun s k => ih s k) lo hi _ _ _ s k
  | grp i r ih =>
    simp only [Rx.m, Rx.all]
    rw [ih, List.findSome?_map]
    rfl
  | ahead r ih =>
    simp only [Rx.m, Rx.all]
    rw [ih, findSome?_some_eq_head?]
    cases r.all s with
    | nil => rfl
    | cons s' t => exact (findSome?_single _ k).symm
  | nahead r ih =>
    simp only [Rx.m, Rx.all]
    rw [ih, findSome?_some_eq_head?]
    cases r.all s with
    | nil => exact (findSome?_single _ k).symm
    | cons s' t => rfl
  | behind cs =>
    simp only [Rx.m, Rx.all]
    generalize s.prev = p
    rcases p with _ | c
    · rfl
    · simp only []
      by_cases h : cs.mem c = true
      · simp only [h, if_true]; exact (findSome?_single _ k).symm
      · simp only [h]; rfl
  | wordb w =>
    simp only [Rx.m, Rx.all]
    split
    · exact (findSome?_single s k).symm
    · rfl
  | eos =>
    simp only [Rx.m, Rx.all]
    generalize s.rest = l
    rcases l with _ | ⟨c, _ | ⟨d, t⟩⟩
    · exact (findSome?_single s k).symm
    · simp only []
      by_cases h : (c == '\n') = true
      · simp only [h, if_true]; exact (findSome?_single _ k).symm
      · simp only [h]; rfl
    · rfl
  | bos =>
    simp only [Rx.m, Rx.all]
    split
    · exact (findSome?_single s k).symm
    · rfl

/-! ### corollaries -/

theorem Rx.m_some_iff (r : Rx) {R : Type} (s : St) (k : St → Option R) :
    (r.m s k).isSome ↔ ∃ s' ∈ r.all s, (k s').isSome := by
  rw [Rx.m_eq_findSome, List.findSome?_isSome_iff]

theorem matchHere_eq (r : Rx) (s : St) (adv : Bool) :
    matchHere r s adv =
      (r.all s).findSome? (fun s' => if adv && s'.pos == s.pos then none else some ⟨s.pos, s'.pos, s'.caps⟩) := by
  unfold matchHere
  exact Rx.m_eq_findSome r s _

#print axioms repLoop_eq_findSome
#print axioms Rx.m_eq_findSome
#print axioms Rx.m_some_iff
#print axioms matchHere_eq

end PyTRS
