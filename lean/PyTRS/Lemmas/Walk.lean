/-
The chunk walk (`_parse_meaningful`): every text block is staged or reported (C04); a chunk arranged in the
TRS_desc layout yields exactly its tracts (C01).
-/
import PyTRS.Props.C04
import PyTRS.Props.C09
namespace PyTRS
open PyTRS.Obj PyTRS.Plss

/-! ## Part A (C04): the walk partitions the text blocks into staged descriptions and unused blocks -/

/-- marker `i` starts a block of plain text (not a Twp/Rge, not a section reference, not the end marker) -/
def isTextIdx (markers : List (Nat × Marker)) (i : Nat) : Bool :=
  match markers[i]? with
  | some (_, ty) => ty != .trStart && ty != .secStart && ty != .textEnd
  | none => false

def blockAt (txt : Str) (markers : List (Nat × Marker)) (i : Nat) : Str :=
  slice txt (markers[i]!).1 (markers[min (markers.length - 1) (i + 1)]!).1

/-- the walk's decision: is the text block starting at marker `i` the description of a tract? -/
def isTractIdx (layout : Str) (markers : List (Nat × Marker)) (i : Nat) : Bool :=
  (sDescLays layout && (markers[i]!).2 == .secEnd) ||
  (!sDescLays layout && (markers[min (markers.length - 1) (i + 1)]!).2 == .secStart)

instance : LawfulBEq Marker where
  rfl := by intro a; cases a <;> rfl
  eq_of_beq := by intro a b h; cases a <;> cases b <;> first | rfl | cases h

/-- one step of the walk on a non-text marker: neither `comps` nor `unused` changes -/
theorem walkStep_nontext (txt layout : Str) (markers : List (Nat × Marker)) (c : Chunk) (i : Nat)
    (hi : i < markers.length) (h : isTextIdx markers i = false) :
    (walkStep txt layout markers c i).comps = c.comps ∧ (walkStep txt layout markers c i).unused = c.unused := by
  unfold isTextIdx at h
  unfold walkStep
  rw [getElem!_pos markers i hi]
  rw [List.getElem?_eq_getElem hi] at h
  generalize markers[i] = m at h ⊢
  obtain ⟨pos, ty⟩ := m
  cases ty <;> simp_all

/-- one step of the walk on a text marker that is taken as a tract description -/
theorem walkStep_tract (txt layout : Str) (markers : List (Nat × Marker)) (c : Chunk) (i : Nat)
    (hi : i < markers.length) (h : isTextIdx markers i = true) (ht : isTractIdx layout markers i = true) :
    (walkStep txt layout markers c i).comps =
        c.comps ++ [{ desc := cleanupDesc (blockAt txt markers i), sec := c.workingSec, twprge := c.workingTR }] ∧
      (walkStep txt layout markers c i).unused = c.unused := by
  unfold isTextIdx at h
  unfold isTractIdx at ht
  unfold walkStep blockAt
  rw [getElem!_pos markers i hi] at ht ⊢
  rw [List.getElem?_eq_getElem hi] at h
  generalize markers[min (markers.length - 1) (i + 1)]! = n at ht ⊢
  generalize markers[i] = m at h ht ⊢
  obtain ⟨pos, ty⟩ := m
  obtain ⟨npos, nty⟩ := n
  cases ty <;> simp_all [stage]

/-- one step of the walk on a text marker that is not a tract description -/
theorem walkStep_unused (txt layout : Str) (markers : List (Nat × Marker)) (c : Chunk) (i : Nat)
    (hi : i < markers.length) (h : isTextIdx markers i = true) (ht : isTractIdx layout markers i = false) :
    (walkStep txt layout markers c i).comps = c.comps ∧
      (walkStep txt layout markers c i).unused = c.unused ++ [(c.comps.length, blockAt txt markers i)] := by
  unfold isTextIdx at h
  unfold isTractIdx at ht
  unfold walkStep blockAt
  rw [getElem!_pos markers i hi] at ht ⊢
  rw [List.getElem?_eq_getElem hi] at h
  generalize markers[min (markers.length - 1) (i + 1)]! = n at ht ⊢
  generalize markers[i] = m at h ht ⊢
  obtain ⟨pos, ty⟩ := m
  obtain ⟨npos, nty⟩ := n
  cases hs : sDescLays layout <;> cases ty <;> simp_all

theorem walk_partition_aux (txt layout : Str) (markers : List (Nat × Marker)) (l : List Nat)
    (hl : ∀ i ∈ l, i < markers.length) (c0 : Chunk) :
    let c := l.foldl (walkStep txt layout markers) c0
    let idx := l.filter (isTextIdx markers)
    c.comps.map (·.desc) = c0.comps.map (·.desc) ++
        ((idx.filter (isTractIdx layout markers)).map (fun i => cleanupDesc (blockAt txt markers i))) ∧
    c.unused.map (·.2) = c0.unused.map (·.2) ++
        ((idx.filter (fun i => !isTractIdx layout markers i)).map (blockAt txt markers)) := by
  induction l generalizing c0 with
  | nil => simp
  | cons i rest ih =>
    have hi : i < markers.length := hl i List.mem_cons_self
    have ih' := ih (fun j hj => hl j (List.mem_cons_of_mem _ hj)) (walkStep txt layout markers c0 i)
    simp only [List.foldl_cons] at ih' ⊢
    refine ⟨ih'.1.trans ?_, ih'.2.trans ?_⟩
    · cases h : isTextIdx markers i
      · rw [(walkStep_nontext txt layout markers c0 i hi h).1]
        simp [h]
      · cases ht : isTractIdx layout markers i
        · rw [(walkStep_unused txt layout markers c0 i hi h ht).1]
          simp [h, ht]
        · rw [(walkStep_tract txt layout markers c0 i hi h ht).1]
          simp [h, ht]
    · cases h : isTextIdx markers i
      · rw [(walkStep_nontext txt layout markers c0 i hi h).2]
        simp [h]
      · cases ht : isTractIdx layout markers i
        · rw [(walkStep_unused txt layout markers c0 i hi h ht).2]
          simp [h, ht]
        · rw [(walkStep_tract txt layout markers c0 i hi h ht).2]
          simp [h, ht]

/-- every text block is either staged (cleaned up) as a tract description, or kept as unused text — none is lost,
    none is duplicated, order is kept -/
theorem C04_walk_partition (txt layout : Str) (markers : List (Nat × Marker)) (c0 : Chunk) :
    let c := (List.range markers.length).foldl (walkStep txt layout markers) c0
    let idx := (List.range markers.length).filter (isTextIdx markers)
    c.comps.map (·.desc) = c0.comps.map (·.desc) ++
        ((idx.filter (isTractIdx layout markers)).map (fun i => cleanupDesc (blockAt txt markers i))) ∧
    c.unused.map (·.2) = c0.unused.map (·.2) ++
        ((idx.filter (fun i => !isTractIdx layout markers i)).map (blockAt txt markers)) :=
  walk_partition_aux txt layout markers _ (fun _ hi => List.mem_range.mp hi) c0

/-- `parse_chunk` never shortens what earlier chunks handed to the parent -/
theorem C04_chunkParser_monotone (mc : MC) (pc : ParserCfg) (text : Str) (copyAll : Bool) (layout : Str)
    (parent p : ParentSt) (h : chunkParser mc pc text copyAll layout parent = .ok p) :
    parent.comps <+: p.comps ∧ parent.unused <+: p.unused := by
  unfold chunkParser at h
  split at h
  · cases h
  · split at h
    · cases h
    · cases h
      exact ⟨List.prefix_append _ _, List.prefix_append _ _⟩

theorem examineUnused_append (fl : Tract.Flags) (a b : List (Nat × Str)) :
    examineUnused fl (a ++ b) = examineUnused (examineUnused fl a) b := by
  simp [examineUnused, List.foldl_append]

theorem examineUnused_prefix (fl : Tract.Flags) (unused : List (Nat × Str)) :
    fl.e <+: (examineUnused fl unused).e := by
  induction unused generalizing fl with
  | nil => simp [examineUnused]
  | cons u rest ih =>
    have : examineUnused fl (u :: rest) = examineUnused
        (if u.2.length ≥ Gen.MIN_REPORTABLE_UNUSED_LEN then addEFlag fl (S "unused_desc<" ++ u.2 ++ S ">") u.2 else fl)
        rest := by
      simp [examineUnused]
    rw [this]
    refine List.IsPrefix.trans ?_ (ih _)
    split
    · exact List.prefix_append _ _
    · exact List.prefix_refl _

/-- every unused block of reportable length is reported by an `unused_desc<…>` error flag, and no earlier flag is lost -/
theorem C04_examineUnused_flags (fl : Tract.Flags) (unused : List (Nat × Str)) :
    fl.e <+: (examineUnused fl unused).e ∧
    ∀ u ∈ unused, Gen.MIN_REPORTABLE_UNUSED_LEN ≤ u.2.length →
      PyVal.str (S "unused_desc<" ++ u.2 ++ S ">") ∈ (examineUnused fl unused).e := by
  refine ⟨examineUnused_prefix fl unused, ?_⟩
  intro u hu hlen
  obtain ⟨a, b, rfl⟩ := List.append_of_mem hu
  rw [examineUnused_append]
  have h1 : examineUnused (examineUnused fl a) (u :: b) =
      examineUnused (addEFlag (examineUnused fl a) (S "unused_desc<" ++ u.2 ++ S ">") u.2) b := by
    simp [examineUnused, hlen]
  rw [h1]
  exact (examineUnused_prefix _ b).subset (by simp [addEFlag])

/-- the descriptions of the tracts are exactly the staged descriptions (cleaned up when `clean_up`), one per section -/
theorem C04_tractSpecs_descs (cleanUp : Bool) (comps : List Component) (specs : List (Str × Str × Bool))
    (h : tractSpecs cleanUp comps = .ok specs) :
    specs.map (·.1) = comps.flatMap (fun c => (c.sec.getD []).map (fun _ => if cleanUp then cleanupDesc c.desc else c.desc)) := by
  induction comps generalizing specs with
  | nil => simp [tractSpecs] at h; subst h; rfl
  | cons c rest ih =>
    rw [tractSpecs] at h
    split at h
    · cases h
    · rename_i secs hs
      split at h
      · cases h
      · rename_i more hm
        cases h
        simp [ih _ hm, hs, Function.comp_def]

theorem buildTracts_descs (uid0 : Nat) (hd : Str) (pq : Bool) (src : OptStr) (text : Str)
    (look : Option Str → TRS.TrsDict) (specs : List (Str × Str × Bool)) (idx : Nat) (ts : List TractObj)
    (h : buildTracts uid0 hd pq src text look idx specs = .ok ts) :
    ts.map (·.desc) = specs.map (·.1) := by
  obtain ⟨hlen, hall⟩ := C09_provenance uid0 hd pq src text look specs idx ts h
  apply List.ext_getElem (by simp [hlen])
  intro i h1 h2
  simp only [List.length_map] at h1 h2
  simp only [List.getElem_map]
  exact (hall i h1 h2).2.2.2.2.1

theorem secWithinFlags_e (tracts : List TractObj) (is : List Nat) (fl fl' : Tract.Flags)
    (h : secWithinFlags tracts fl is = .ok fl') : fl'.e = fl.e := by
  induction is generalizing fl with
  | nil => simp [secWithinFlags] at h; subst h; rfl
  | cons i rest ih =>
    rw [secWithinFlags] at h
    split at h
    · exact (ih _ h).trans rfl
    · cases h

theorem errorTractFlag_prefix (fl : Tract.Flags) (tracts : List TractObj) :
    fl.e <+: (errorTractFlag fl tracts).e := by
  unfold errorTractFlag
  split
  · exact List.prefix_append _ _
  · exact List.prefix_refl _

/-- end to end: for the parent state the parser reached, every staged description is the description of a tract and every
    reportable unused block is in the description's error flags -/
theorem C04_parser_accounts (mc : MC) (uid0 : Nat) (text : Str) (a : ParserArgs) (look : Option Str → TRS.TrsDict)
    (out : ParserOut) (h : plssParser mc uid0 text a look = .ok out) :
    ∃ pp parent, plssPreprocess mc text a.defaultNS a.defaultEW a.ocrScrub = .ok pp ∧
      parseAllBlocks mc pp.text out.layout a (fixedFlags pp.fixed) = .ok parent ∧
      (out.tracts.map (·.desc) = parent.comps.flatMap (fun c => (c.sec.getD []).map (fun _ =>
          if (match a.cleanUp with | some b => b | none => out.layout != COPY_ALL) then cleanupDesc c.desc else c.desc))) ∧
      (∀ u ∈ parent.unused, Gen.MIN_REPORTABLE_UNUSED_LEN ≤ u.2.length →
          PyVal.str (S "unused_desc<" ++ u.2 ++ S ">") ∈ out.fl.e) := by
  unfold plssParser at h
  split at h
  · cases h
  · rename_i handedDown hhd
    split at h
    · cases h
    · rename_i pp hpp
      simp only [] at h
      split at h
      · cases h
      · rename_i parent hparent
        split at h
        · cases h
        · rename_i specs hspecs
          split at h
          · cases h
          · rename_i tracts htracts
            split at h
            · cases h
            · rename_i fl1 hfl1
              cases h
              refine ⟨pp, parent, hpp, hparent, ?_, ?_⟩
              · have h1 := buildTracts_descs _ _ _ _ _ _ _ _ _ htracts
                have h2 := C04_tractSpecs_descs _ _ _ hspecs
                have h0 : ∀ fl, (handDownFlags fl tracts).map (·.desc) = tracts.map (·.desc) := by
                  intro fl; simp [handDownFlags, Function.comp_def]
                show List.map _ (handDownFlags _ tracts) = _
                rw [h0, h1]
                exact h2
              · intro u hu hlen
                have h3 := (C04_examineUnused_flags parent.fl parent.unused).2 u hu hlen
                rw [← secWithinFlags_e _ _ _ _ hfl1] at h3
                exact (errorTractFlag_prefix fl1 tracts).subset h3

/-! ## Part B (C01): a chunk arranged in the TRS_desc layout yields exactly its tracts -/

/-- one section reference and the text block after it (positions in the text) -/
structure SecItem where
  sStart : Nat
  sEnd : Nat
  secs : List Str           -- the section numbers of this (multi-)section reference
/-- a Twp/Rge and the sections that follow it -/
structure TRGroup where
  tStart : Nat
  tEnd : Nat
  tr : Str
  items : List SecItem

def groupMarkers (g : TRGroup) : List (Nat × Marker) :=
  (g.tStart, .trStart) :: (g.tEnd, .trEnd) :: g.items.flatMap (fun s => [(s.sStart, .secStart), (s.sEnd, .secEnd)])

/-- marker list of a chunk "TR sec text sec text … TR sec text …" that starts with its first Twp/Rge; `endPos` = text length -/
def trsDescMarkers (groups : List TRGroup) (endPos : Nat) : List (Nat × Marker) :=
  groups.flatMap groupMarkers ++ [(endPos, .textEnd)]

/-- the position following item `j` of a flattened (position, marker) list -/
def nextPos (ms : List (Nat × Marker)) (i : Nat) : Nat := (ms[min (ms.length - 1) (i + 1)]!).1

/-- the expected components: one per section reference, in order, with its Twp/Rge and the cleaned-up text after it -/
def expectedComps (txt : Str) (groups : List TRGroup) (endPos : Nat) : List Component :=
  let ms := trsDescMarkers groups endPos
  -- the block after a section reference runs from its end to the next marker
  (List.range ms.length).filterMap (fun i =>
    match ms[i]? with
    | some (p, Marker.secEnd) => some (p, nextPos ms i)
    | _ => none)
  |>.zip (groups.flatMap (fun g => g.items.map (fun s => (g.tr, s.secs))))
  |>.map (fun x => { desc := cleanupDesc (slice txt x.1.1 x.1.2), sec := some x.2.2, twprge := some x.2.1 })

/-! ### from the index walk to a walk over (marker, next marker) pairs -/

/-- every element paired with its successor (the last one with itself) -/
def pairs {α : Type} : List α → List (α × α)
  | [] => []
  | m :: rest => (m, rest.head?.getD m) :: pairs rest

theorem pairs_range_aux {α : Type} [Inhabited α] (pre suf : List α) :
    (List.range' pre.length suf.length).map
      (fun i => ((pre ++ suf)[i]!, (pre ++ suf)[min ((pre ++ suf).length - 1) (i + 1)]!)) = pairs suf := by
  induction suf generalizing pre with
  | nil => simp [pairs]
  | cons m rest ih =>
    have h := ih (pre ++ [m])
    simp only [List.append_assoc, List.singleton_append, List.length_append, List.length_cons,
      List.length_nil] at h
    simp only [List.length_cons, List.range'_succ, List.map_cons, pairs]
    congr 1
    · congr 1
      · simp
      · cases rest with
        | nil => simp
        | cons n r =>
          have : min ((pre ++ m :: n :: r).length - 1) (pre.length + 1) = (pre ++ [m]).length := by
            simp only [List.length_append, List.length_cons, List.length_nil]; omega
          rw [this]
          have h2 : pre ++ m :: n :: r = (pre ++ [m]) ++ n :: r := by simp
          rw [h2]
          simp only [List.head?_cons, Option.getD_some]
          rw [getElem!_pos _ _ (by simp)]
          simp
    · simpa using h

theorem pairs_range {α : Type} [Inhabited α] (ms : List α) :
    (List.range ms.length).map (fun i => (ms[i]!, ms[min (ms.length - 1) (i + 1)]!)) = pairs ms := by
  simpa [List.range_eq_range'] using pairs_range_aux [] ms

/-- `walkStep` as a function of the current and the next marker -/
def stepP (txt layout : Str) (c : Chunk) (p : (Nat × Marker) × (Nat × Marker)) : Chunk :=
  let (pos, ty) := p.1
  let (npos, nty) := p.2
  if ty == .trStart then getNextTwprge c
  else if ty == .secStart then getNextSec c
  else if ty == .textEnd then c
  else
    let block := slice txt pos npos
    let isTract := (sDescLays layout && ty == .secEnd) || (!sDescLays layout && nty == .secStart)
    if isTract then
      let c1 := stage c (cleanupDesc block) c.workingSec c.workingTR
      { c1 with lastSecUsed := true, lastTRUsed := true, workingSec := some [ERR_SEC] }
    else { c with unused := c.unused ++ [(c.comps.length, block)] }

theorem walkStep_eq_stepP (txt layout : Str) (ms : List (Nat × Marker)) (c : Chunk) (i : Nat) :
    walkStep txt layout ms c i = stepP txt layout c (ms[i]!, ms[min (ms.length - 1) (i + 1)]!) := rfl

/-- the index walk of `_parse_meaningful` is a fold over the (marker, next marker) pairs -/
theorem walk_eq_pairs (txt layout : Str) (ms : List (Nat × Marker)) (c : Chunk) :
    (List.range ms.length).foldl (walkStep txt layout ms) c = (pairs ms).foldl (stepP txt layout) c := by
  rw [← pairs_range, List.foldl_map]
  rfl

/-! ### the single steps in the TRS_desc layout -/

theorem sDescLays_TRS_DESC : sDescLays TRS_DESC = true := by decide
theorem trFirstLays_TRS_DESC : trFirstLays TRS_DESC = true := by decide

theorem stepP_trStart (txt layout : Str) (c : Chunk) (p : Nat) (n : Nat × Marker) :
    stepP txt layout c ((p, .trStart), n) = getNextTwprge c := by simp [stepP]

theorem stepP_secStart (txt layout : Str) (c : Chunk) (p : Nat) (n : Nat × Marker) :
    stepP txt layout c ((p, .secStart), n) = getNextSec c := by simp [stepP]

theorem stepP_textEnd (txt layout : Str) (c : Chunk) (p : Nat) (n : Nat × Marker) :
    stepP txt layout c ((p, .textEnd), n) = c := by simp [stepP]

theorem stepP_trEnd (txt : Str) (c : Chunk) (p : Nat) (n : Nat × Marker) :
    stepP txt TRS_DESC c ((p, .trEnd), n) = { c with unused := c.unused ++ [(c.comps.length, slice txt p n.1)] } := by
  simp [stepP, sDescLays_TRS_DESC]

theorem stepP_secEnd (txt : Str) (c : Chunk) (p : Nat) (n : Nat × Marker) :
    stepP txt TRS_DESC c ((p, .secEnd), n) =
      { c with comps := c.comps ++ [{ desc := cleanupDesc (slice txt p n.1), sec := c.workingSec, twprge := c.workingTR }],
               lastSecUsed := true, lastTRUsed := true, workingSec := some [ERR_SEC] } := by
  simp [stepP, sDescLays_TRS_DESC, stage]

theorem getNextSec_ok (c : Chunk) (s : List Str) (rest : List (List Str))
    (hok : c.workingSec = none ∨ c.lastSecUsed = true) (hs : c.secList = s :: rest) :
    getNextSec c = { c with lastSecUsed := false, workingSec := some s, secList := rest } := by
  have h1 : flagUnusedSec c = c := by
    unfold flagUnusedSec
    rcases hok with h | h
    · simp [h]
    · split <;> simp [h]
  unfold getNextSec
  simp only [h1, hs]

theorem getNextTwprge_ok (c : Chunk) (t : Str) (rest : List Str)
    (hok : c.workingTR = none ∨ c.lastTRUsed = true) (hs : c.trList = t :: rest) :
    getNextTwprge c = { c with lastTRUsed := false, workingTR := some t, trList := rest } := by
  have h1 : flagUnusedTR c = c := by
    unfold flagUnusedTR
    rcases hok with h | h
    · simp [h]
    · split <;> simp [h]
  unfold getNextTwprge
  simp only [h1, hs]

/-- the two markers of a section reference: take the next section list, stage the block after it -/
theorem item_step (txt : Str) (c : Chunk) (tr : Str) (secs : List Str) (sl : List (List Str))
    (hTR : c.workingTR = some tr) (hsl : c.secList = secs :: sl)
    (hok : c.workingSec = none ∨ c.lastSecUsed = true) (p q : Nat) (n1 n2 : Nat × Marker) :
    let c2 := stepP txt TRS_DESC (stepP txt TRS_DESC c ((p, .secStart), n1)) ((q, .secEnd), n2)
    c2.comps = c.comps ++ [{ desc := cleanupDesc (slice txt q n2.1), sec := some secs, twprge := some tr }] ∧
      c2.trList = c.trList ∧ c2.secList = sl ∧ c2.fl = c.fl ∧ c2.workingTR = some tr ∧
      c2.lastSecUsed = true ∧ c2.lastTRUsed = true ∧ c2.unused = c.unused := by
  rw [stepP_secStart, getNextSec_ok c secs sl hok hsl, stepP_secEnd]
  simp [hTR]

/-- the two markers of a Twp/Rge: take the next Twp/Rge; the block after it is unused text -/
theorem group_step (txt : Str) (c : Chunk) (t : Str) (trl : List Str)
    (htl : c.trList = t :: trl) (hok : c.workingTR = none ∨ c.lastTRUsed = true) (p q : Nat) (n1 n2 : Nat × Marker) :
    let c2 := stepP txt TRS_DESC (stepP txt TRS_DESC c ((p, .trStart), n1)) ((q, .trEnd), n2)
    c2.comps = c.comps ∧ c2.trList = trl ∧ c2.secList = c.secList ∧ c2.fl = c.fl ∧ c2.workingTR = some t ∧
      c2.workingSec = c.workingSec ∧ c2.lastSecUsed = c.lastSecUsed := by
  rw [stepP_trStart, getNextTwprge_ok c t trl hok htl, stepP_trEnd]
  simp

/-! ### the walk over the items of one Twp/Rge, and over all groups -/

/-- the markers of the section references of one Twp/Rge -/
def imk (its : List SecItem) : List (Nat × Marker) :=
  its.flatMap (fun s => [(s.sStart, Marker.secStart), (s.sEnd, Marker.secEnd)])

theorem groupMarkers_eq (g : TRGroup) :
    groupMarkers g = (g.tStart, .trStart) :: (g.tEnd, .trEnd) :: imk g.items := rfl

/-- (start, end) of the text block after each section reference, when the markers `tl` follow -/
def itemBlocks : List SecItem → List (Nat × Marker) → List (Nat × Nat)
  | [], _ => []
  | s :: rest, tl => (s.sEnd, ((imk rest ++ tl).head?.getD (s.sEnd, Marker.secEnd)).1) :: itemBlocks rest tl

def groupBlocks : List TRGroup → List (Nat × Marker) → List (Nat × Nat)
  | [], _ => []
  | g :: gs, tl => itemBlocks g.items (gs.flatMap groupMarkers ++ tl) ++ groupBlocks gs tl

theorem itemBlocks_length (its : List SecItem) (tl : List (Nat × Marker)) : (itemBlocks its tl).length = its.length := by
  induction its with
  | nil => rfl
  | cons s rest ih => simp [itemBlocks, ih]

def mkComp (txt : Str) (x : (Nat × Nat) × (Str × List Str)) : Component :=
  { desc := cleanupDesc (slice txt x.1.1 x.1.2), sec := some x.2.2, twprge := some x.2.1 }

theorem walk_items (txt : Str) (tr : Str) (tl : List (Nat × Marker)) :
    ∀ (its : List SecItem) (sl : List (List Str)) (c : Chunk),
      c.workingTR = some tr → c.secList = its.map (·.secs) ++ sl →
      (c.workingSec = none ∨ c.lastSecUsed = true) →
      ∃ c', (pairs (imk its ++ tl)).foldl (stepP txt TRS_DESC) c = (pairs tl).foldl (stepP txt TRS_DESC) c' ∧
        c'.comps = c.comps ++ ((itemBlocks its tl).zip (its.map fun s => (tr, s.secs))).map (mkComp txt) ∧
        c'.trList = c.trList ∧ c'.secList = sl ∧ c'.fl = c.fl ∧ c'.workingTR = some tr ∧
        (c'.workingSec = none ∨ c'.lastSecUsed = true) ∧
        (c.lastTRUsed = true → c'.lastTRUsed = true) ∧ (c.lastSecUsed = true → c'.lastSecUsed = true) ∧
        (its ≠ [] → c'.lastTRUsed = true ∧ c'.lastSecUsed = true) := by
  intro its
  induction its with
  | nil =>
    intro sl c hTR hsl hok
    exact ⟨c, by simp [imk], by simp [itemBlocks], rfl, by simpa using hsl, rfl, hTR, hok, id, id, by simp⟩
  | cons s rest ih =>
    intro sl c hTR hsl hok
    have hm : imk (s :: rest) ++ tl = (s.sStart, .secStart) :: (s.sEnd, .secEnd) :: (imk rest ++ tl) := by
      simp [imk]
    rw [hm]
    simp only [pairs, List.foldl_cons]
    have hst := item_step txt c tr s.secs (rest.map (·.secs) ++ sl) hTR (by simpa using hsl) hok
      s.sStart s.sEnd (((s.sEnd, Marker.secEnd) :: (imk rest ++ tl)).head?.getD (s.sStart, .secStart))
      ((imk rest ++ tl).head?.getD (s.sEnd, .secEnd))
    simp only [] at hst
    generalize stepP txt TRS_DESC (stepP txt TRS_DESC c _) _ = c2 at hst ⊢
    obtain ⟨h1, h2, h3, h4, h5, h6, h7, _⟩ := hst
    obtain ⟨c', e1, e2, e3, e4, e5, e6, e7, e8, e9, _⟩ := ih sl c2 h5 h3 (Or.inr h6)
    refine ⟨c', e1, ?_, e3.trans h2, e4, e5.trans h4, e6, e7, fun _ => e8 h7, fun _ => e9 h6, fun _ => ⟨e8 h7, e9 h6⟩⟩
    rw [e2, h1]
    simp [itemBlocks, mkComp]

theorem walk_groups (txt : Str) (tl : List (Nat × Marker)) :
    ∀ (groups : List TRGroup) (trl : List Str) (sl : List (List Str)) (c : Chunk),
      (∀ g ∈ groups, g.items ≠ []) →
      c.trList = groups.map (·.tr) ++ trl →
      c.secList = groups.flatMap (fun g => g.items.map (·.secs)) ++ sl →
      (c.workingSec = none ∨ c.lastSecUsed = true) →
      (c.workingTR = none ∨ c.lastTRUsed = true) →
      ∃ c', (pairs (groups.flatMap groupMarkers ++ tl)).foldl (stepP txt TRS_DESC) c
            = (pairs tl).foldl (stepP txt TRS_DESC) c' ∧
        c'.comps = c.comps ++ ((groupBlocks groups tl).zip
            (groups.flatMap fun g => g.items.map fun s => (g.tr, s.secs))).map (mkComp txt) ∧
        c'.trList = trl ∧ c'.secList = sl ∧ c'.fl = c.fl ∧
        (c'.workingSec = none ∨ c'.lastSecUsed = true) ∧
        (c'.workingTR = none ∨ c'.lastTRUsed = true) ∧
        (c.lastTRUsed = true → c'.lastTRUsed = true) ∧ (c.lastSecUsed = true → c'.lastSecUsed = true) ∧
        (groups ≠ [] → c'.lastTRUsed = true ∧ c'.lastSecUsed = true) := by
  intro groups
  induction groups with
  | nil =>
    intro trl sl c _ htl hsl hs ht
    exact ⟨c, by simp, by simp [groupBlocks], by simpa using htl, by simpa using hsl, rfl, hs, ht, id, id, by simp⟩
  | cons g gs ih =>
    intro trl sl c hne htl hsl hs ht
    have hm : (g :: gs).flatMap groupMarkers ++ tl =
        (g.tStart, .trStart) :: (g.tEnd, .trEnd) :: (imk g.items ++ (gs.flatMap groupMarkers ++ tl)) := by
      simp [groupMarkers_eq]
    rw [hm]
    simp only [pairs, List.foldl_cons]
    have hst := group_step txt c g.tr (gs.map (·.tr) ++ trl) (by simpa using htl) ht g.tStart g.tEnd
      (((g.tEnd, Marker.trEnd) :: (imk g.items ++ (gs.flatMap groupMarkers ++ tl))).head?.getD (g.tStart, .trStart))
      ((imk g.items ++ (gs.flatMap groupMarkers ++ tl)).head?.getD (g.tEnd, .trEnd))
    simp only [] at hst
    generalize stepP txt TRS_DESC (stepP txt TRS_DESC c _) _ = c2 at hst ⊢
    obtain ⟨h1, h2, h3, h4, h5, h6, h7⟩ := hst
    have hs2 : c2.workingSec = none ∨ c2.lastSecUsed = true := by rw [h6, h7]; exact hs
    obtain ⟨c3, e1, e2, e3, e4, e5, e6, e7, _, _, e10⟩ :=
      walk_items txt g.tr (gs.flatMap groupMarkers ++ tl) g.items
        (gs.flatMap (fun g => g.items.map (·.secs)) ++ sl) c2 h5 (by rw [h3, hsl]; simp) hs2
    have hgi : g.items ≠ [] := hne g List.mem_cons_self
    obtain ⟨hu1, hu2⟩ := e10 hgi
    obtain ⟨c', f1, f2, f3, f4, f5, f6, f7, f8, f9, _⟩ :=
      ih trl sl c3 (fun g' hg' => hne g' (List.mem_cons_of_mem _ hg')) (e3.trans h2) e4 (Or.inr hu2) (Or.inr hu1)
    refine ⟨c', e1.trans f1, ?_, f3, f4, f5.trans (e5.trans h4), f6, f7, fun _ => f8 hu1, fun _ => f9 hu2,
      fun _ => ⟨f8 hu1, f9 hu2⟩⟩
    rw [f2, e2, h1]
    simp only [groupBlocks, List.flatMap_cons]
    rw [List.zip_append (by simp [itemBlocks_length])]
    simp

/-! ### the expected components, as a recursion over the marker list -/

/-- the block after a section reference, from a (marker, next marker) pair -/
def secBlockOf (p : (Nat × Marker) × (Nat × Marker)) : Option (Nat × Nat) :=
  match p.1 with
  | (q, Marker.secEnd) => some (q, p.2.1)
  | _ => none

theorem filterMap_congr_mem {α β : Type} {f g : α → Option β} :
    ∀ {l : List α}, (∀ a ∈ l, f a = g a) → l.filterMap f = l.filterMap g
  | [], _ => rfl
  | a :: l, h => by
    simp only [List.filterMap_cons, h a List.mem_cons_self,
      filterMap_congr_mem (l := l) (fun b hb => h b (List.mem_cons_of_mem _ hb))]

theorem secBlocks_range (ms : List (Nat × Marker)) :
    (List.range ms.length).filterMap (fun i =>
      match ms[i]? with
      | some (p, Marker.secEnd) => some (p, nextPos ms i)
      | _ => none) = (pairs ms).filterMap secBlockOf := by
  rw [← pairs_range, List.filterMap_map]
  apply filterMap_congr_mem
  intro i hi
  have hi' : i < ms.length := List.mem_range.mp hi
  simp only [Function.comp_apply, secBlockOf, nextPos]
  rw [getElem!_pos ms i hi', List.getElem?_eq_getElem hi']
  generalize ms[i] = m
  obtain ⟨q, ty⟩ := m
  cases ty <;> rfl

theorem secBlocks_items (tl : List (Nat × Marker)) (its : List SecItem) :
    (pairs (imk its ++ tl)).filterMap secBlockOf = itemBlocks its tl ++ (pairs tl).filterMap secBlockOf := by
  induction its with
  | nil => simp [imk, itemBlocks]
  | cons s rest ih =>
    have hm : imk (s :: rest) ++ tl = (s.sStart, .secStart) :: (s.sEnd, .secEnd) :: (imk rest ++ tl) := by
      simp [imk]
    rw [hm]
    simp only [pairs, List.filterMap_cons, ih]
    simp [secBlockOf, itemBlocks]

theorem secBlocks_groups (tl : List (Nat × Marker)) (groups : List TRGroup) :
    (pairs (groups.flatMap groupMarkers ++ tl)).filterMap secBlockOf
      = groupBlocks groups tl ++ (pairs tl).filterMap secBlockOf := by
  induction groups with
  | nil => simp [groupBlocks]
  | cons g gs ih =>
    have hm : (g :: gs).flatMap groupMarkers ++ tl =
        (g.tStart, .trStart) :: (g.tEnd, .trEnd) :: (imk g.items ++ (gs.flatMap groupMarkers ++ tl)) := by
      simp [groupMarkers_eq]
    rw [hm]
    simp only [pairs, List.filterMap_cons, secBlocks_items, ih]
    simp [secBlockOf, groupBlocks]

theorem expectedComps_eq (txt : Str) (groups : List TRGroup) (endPos : Nat) :
    expectedComps txt groups endPos =
      ((groupBlocks groups [(endPos, .textEnd)]).zip
        (groups.flatMap fun g => g.items.map fun s => (g.tr, s.secs))).map (mkComp txt) := by
  unfold expectedComps
  simp only []
  rw [secBlocks_range, trsDescMarkers, secBlocks_groups]
  have hte : (pairs [(endPos, Marker.textEnd)]).filterMap secBlockOf = [] := rfl
  rw [hte, List.append_nil]
  rfl

/-- C01 (TRS_desc): if every Twp/Rge is followed by at least one section reference, the walk over such a marker list, started
    with the Twp/Rge and section lists the finders produce for it, stages exactly the expected components, uses up both lists,
    and raises no error flag -/
theorem C01_walk_trs_desc (txt : Str) (groups : List TRGroup) (endPos : Nat)
    (hne : ∀ g ∈ groups, g.items ≠ []) (hg : groups ≠ []) :
    let c0 : Chunk := { trList := groups.map (·.tr), secList := groups.flatMap (fun g => g.items.map (·.secs)) }
    let c := parseMeaningful c0 txt TRS_DESC (trsDescMarkers groups endPos)
    c.comps = expectedComps txt groups endPos ∧ c.trList = [] ∧ c.secList = [] ∧ c.fl.e = [] ∧
    c.lastTRUsed = true ∧ c.lastSecUsed = true := by
  intro c0 c
  have hc : c = (pairs (trsDescMarkers groups endPos)).foldl (stepP txt TRS_DESC) c0 := by
    show parseMeaningful c0 txt TRS_DESC _ = _
    unfold parseMeaningful
    simp only [sDescLays_TRS_DESC, trFirstLays_TRS_DESC, Bool.not_true, Bool.false_eq_true, if_false]
    exact walk_eq_pairs _ _ _ _
  obtain ⟨c', f1, f2, f3, f4, f5, _, _, _, _, f8⟩ :=
    walk_groups txt [(endPos, .textEnd)] groups [] [] c0 hne (by simp [c0]) (by simp [c0])
      (Or.inl rfl) (Or.inl rfl)
  have hc' : c = c' := by
    rw [hc, trsDescMarkers, f1]
    simp [pairs, stepP_textEnd]
  rw [hc', expectedComps_eq]
  obtain ⟨g1, g2⟩ := f8 hg
  refine ⟨by simpa [c0] using f2, f3, f4, by rw [f5], g1, g2⟩

/-! ### `finishChunk` after a clean walk: nothing is re-queued, no flag is written -/

theorem finishChunk_clean (pc : ParserCfg) (c : Chunk) (htl : c.trList = []) (hsl : c.secList = [])
    (htr : c.lastTRUsed = true ∨ c.workingTR = some ERR_TWPRGE ∨ c.workingTR = none)
    (hsec : c.lastSecUsed = true ∨ c.workingSec = some [ERR_SEC] ∨ c.workingSec = none) :
    (finishChunk pc c).fl = c.fl ∧ (pc.secWithin = false → (finishChunk pc c).comps = c.comps ∧
      (finishChunk pc c).unused = c.unused) := by
  obtain ⟨wtr, wsec, trl, secl, ltu, lsu, comps, unused, fl⟩ := c
  simp only at htl hsl htr hsec
  subst htl hsl
  cases hp : pc.secWithin <;> rcases htr with h | h | h <;> rcases hsec with h' | h' | h' <;> cases wtr <;> cases wsec <;>
    simp_all [finishChunk]

/-- C01 (TRS_desc), after `parse_chunk`'s clean-up: still no error flag, and (without `sec_within`) the same components -/
theorem C01_walk_trs_desc_finish (pc : ParserCfg) (txt : Str) (groups : List TRGroup) (endPos : Nat)
    (hne : ∀ g ∈ groups, g.items ≠ []) (hg : groups ≠ []) :
    let c0 : Chunk := { trList := groups.map (·.tr), secList := groups.flatMap (fun g => g.items.map (·.secs)) }
    let c := finishChunk pc (parseMeaningful c0 txt TRS_DESC (trsDescMarkers groups endPos))
    c.fl.e = [] ∧ (pc.secWithin = false → c.comps = expectedComps txt groups endPos) := by
  intro c0 c
  obtain ⟨h1, h2, h3, h4, h5, h6⟩ := C01_walk_trs_desc txt groups endPos hne hg
  obtain ⟨f1, f2⟩ := finishChunk_clean pc _ h2 h3 (Or.inl h5) (Or.inl h6)
  exact ⟨by show (finishChunk pc _).fl.e = []; rw [f1]; exact h4, fun h => ((f2 h).1).trans h1⟩

/-! ## Part B' (C01): a chunk arranged in the desc_STR layout ("text sec TR") yields exactly its tracts -/

/-- one tract of a desc_STR chunk: the section reference and the Twp/Rge that follow its description -/
structure StrItem where
  sStart : Nat
  sEnd : Nat
  secs : List Str
  tStart : Nat
  tEnd : Nat
  tr : Str

def strMarkers (t : StrItem) : List (Nat × Marker) :=
  [(t.sStart, .secStart), (t.sEnd, .secEnd), (t.tStart, .trStart), (t.tEnd, .trEnd)]

/-- marker list of a chunk "text sec TR text sec TR …": the text starts at `p0`; `endPos` = text length -/
def descStrMarkers (p0 : Nat) (tracts : List StrItem) (endPos : Nat) : List (Nat × Marker) :=
  (p0, .textStart) :: tracts.flatMap strMarkers ++ [(endPos, .textEnd)]

/-- the expected components: one per tract; its description runs from the end of the previous Twp/Rge (or the start of the
    text) to its section reference -/
def expectedCompsStr (txt : Str) (p0 : Nat) (tracts : List StrItem) : List Component :=
  ((p0 :: tracts.map (·.tEnd)).zip tracts).map (fun x =>
    { desc := cleanupDesc (slice txt x.1 x.2.sStart), sec := some x.2.secs, twprge := some x.2.tr })

theorem sDescLays_DESC_STR : sDescLays DESC_STR = false := by decide
theorem trFirstLays_DESC_STR : trFirstLays DESC_STR = false := by decide

/-- a marker type that starts a text block -/
def texty (ty : Marker) : Prop := ty = .textStart ∨ ty = .trEnd ∨ ty = .secEnd

theorem stepP_str_tract (txt : Str) (c : Chunk) (p q : Nat) (ty : Marker) (h : texty ty) :
    stepP txt DESC_STR c ((p, ty), (q, .secStart)) =
      { c with comps := c.comps ++ [{ desc := cleanupDesc (slice txt p q), sec := c.workingSec, twprge := c.workingTR }],
               lastSecUsed := true, lastTRUsed := true, workingSec := some [ERR_SEC] } := by
  rcases h with rfl | rfl | rfl <;> simp [stepP, sDescLays_DESC_STR, stage]

theorem stepP_str_unused (txt : Str) (c : Chunk) (p : Nat) (ty : Marker) (h : texty ty) (n : Nat × Marker)
    (hn : n.2 ≠ .secStart) :
    stepP txt DESC_STR c ((p, ty), n) = { c with unused := c.unused ++ [(c.comps.length, slice txt p n.1)] } := by
  obtain ⟨q, nty⟩ := n
  rcases h with rfl | rfl | rfl <;> simp_all [stepP, sDescLays_DESC_STR]

theorem getNextSec_ok' (c : Chunk) (hok : c.workingSec = none ∨ c.lastSecUsed = true) :
    getNextSec c = { c with lastSecUsed := false, workingSec := some (c.secList.headD [ERR_SEC]),
                            secList := c.secList.tail } := by
  have h1 : flagUnusedSec c = c := by
    unfold flagUnusedSec
    rcases hok with h | h
    · simp [h]
    · split <;> simp [h]
  unfold getNextSec
  simp only [h1]
  cases c.secList <;> rfl

theorem getNextTwprge_ok' (c : Chunk) (hok : c.workingTR = none ∨ c.lastTRUsed = true) :
    getNextTwprge c = { c with lastTRUsed := false, workingTR := some (c.trList.headD ERR_TWPRGE),
                               trList := c.trList.tail } := by
  have h1 : flagUnusedTR c = c := by
    unfold flagUnusedTR
    rcases hok with h | h
    · simp [h]
    · split <;> simp [h]
  unfold getNextTwprge
  simp only [h1]
  cases c.trList <;> rfl

theorem fold_pairs_cons2 {α β : Type} (f : β → α × α → β) (c : β) (a b : α) (l : List α) :
    (pairs (a :: b :: l)).foldl f c = (pairs (b :: l)).foldl f (f c (a, b)) := by
  simp [pairs]

/-- the four steps from the text marker in front of a tract to the `trEnd` marker after it -/
theorem str_step (txt : Str) (c : Chunk) (prev sS sE tS : Nat) (ty : Marker) (hty : texty ty) (n1 n2 : Nat × Marker) :
    let c2 := stepP txt DESC_STR (stepP txt DESC_STR (stepP txt DESC_STR (stepP txt DESC_STR c
      ((prev, ty), (sS, .secStart))) ((sS, .secStart), n1)) ((sE, .secEnd), (tS, .trStart))) ((tS, .trStart), n2)
    c2.comps = c.comps ++ [{ desc := cleanupDesc (slice txt prev sS), sec := c.workingSec, twprge := c.workingTR }] ∧
      c2.workingSec = some (c.secList.headD [ERR_SEC]) ∧ c2.secList = c.secList.tail ∧
      c2.workingTR = some (c.trList.headD ERR_TWPRGE) ∧ c2.trList = c.trList.tail ∧ c2.fl = c.fl := by
  rw [stepP_str_tract txt c prev sS ty hty, stepP_secStart, getNextSec_ok' _ (Or.inr rfl),
    stepP_str_unused txt _ sE .secEnd (Or.inr (Or.inr rfl)) _ (by simp), stepP_trStart,
    getNextTwprge_ok' _ (Or.inr rfl)]
  simp

theorem walk_str (txt : Str) (tl : List (Nat × Marker)) :
    ∀ (tracts : List StrItem) (prev : Nat) (ty : Marker) (c : Chunk), texty ty →
      c.workingSec = some ((tracts.map (·.secs)).headD [ERR_SEC]) → c.secList = (tracts.map (·.secs)).tail →
      c.workingTR = some ((tracts.map (·.tr)).headD ERR_TWPRGE) → c.trList = (tracts.map (·.tr)).tail →
      ∃ c' m', (pairs ((prev, ty) :: tracts.flatMap strMarkers ++ tl)).foldl (stepP txt DESC_STR) c
            = (pairs (m' :: tl)).foldl (stepP txt DESC_STR) c' ∧ texty m'.2 ∧
        c'.comps = c.comps ++ ((prev :: tracts.map (·.tEnd)).zip tracts).map (fun x =>
          ({ desc := cleanupDesc (slice txt x.1 x.2.sStart), sec := some x.2.secs, twprge := some x.2.tr } : Component)) ∧
        c'.workingSec = some [ERR_SEC] ∧ c'.secList = [] ∧ c'.workingTR = some ERR_TWPRGE ∧ c'.trList = [] ∧
        c'.fl = c.fl := by
  intro tracts
  induction tracts with
  | nil =>
    intro prev ty c hty h1 h2 h3 h4
    exact ⟨c, (prev, ty), by simp, hty, by simp, by simpa using h1, by simpa using h2, by simpa using h3,
      by simpa using h4, rfl⟩
  | cons t rest ih =>
    intro prev ty c hty h1 h2 h3 h4
    have hm : (prev, ty) :: (t :: rest).flatMap strMarkers ++ tl =
        (prev, ty) :: (t.sStart, .secStart) :: (t.sEnd, .secEnd) :: (t.tStart, .trStart) ::
          ((t.tEnd, .trEnd) :: rest.flatMap strMarkers ++ tl) := by
      simp [strMarkers]
    rw [hm, fold_pairs_cons2, fold_pairs_cons2, fold_pairs_cons2, List.cons_append, fold_pairs_cons2]
    have hst := str_step txt c prev t.sStart t.sEnd t.tStart ty hty (t.sEnd, .secEnd) (t.tEnd, .trEnd)
    simp only [] at hst
    generalize stepP txt DESC_STR (stepP txt DESC_STR (stepP txt DESC_STR (stepP txt DESC_STR c _) _) _) _ = c2
      at hst ⊢
    obtain ⟨g1, g2, g3, g4, g5, g6⟩ := hst
    simp only [List.map_cons, List.headD_cons, List.tail_cons] at h1 h2 h3 h4
    rw [h2] at g2 g3
    rw [h4] at g4 g5
    obtain ⟨c', m', e1, e2, e3, e4, e5, e6, e7, e8⟩ := ih t.tEnd .trEnd c2 (Or.inr (Or.inl rfl)) g2 g3 g4 g5
    refine ⟨c', m', e1, e2, ?_, e4, e5, e6, e7, e8.trans g6⟩
    rw [e3, g1, h1, h3]
    simp

/-- C01 (desc_STR): the walk over a "text sec TR" marker list, started with the Twp/Rge and section lists the finders
    produce for it, stages exactly one component per tract — with its own section list and Twp/Rge and the cleaned-up text
    in front of its section reference —, uses up both lists, raises no error flag, and leaves only the error placeholders
    as working section / Twp/Rge (so that `parse_chunk` re-queues nothing) -/
theorem C01_walk_desc_str (txt : Str) (p0 : Nat) (tracts : List StrItem) (endPos : Nat) :
    let c0 : Chunk := { trList := tracts.map (·.tr), secList := tracts.map (·.secs) }
    let c := parseMeaningful c0 txt DESC_STR (descStrMarkers p0 tracts endPos)
    c.comps = expectedCompsStr txt p0 tracts ∧ c.trList = [] ∧ c.secList = [] ∧ c.fl.e = [] ∧
    c.workingTR = some ERR_TWPRGE ∧ c.workingSec = some [ERR_SEC] := by
  intro c0 c
  have hc : c = (pairs (descStrMarkers p0 tracts endPos)).foldl (stepP txt DESC_STR)
      (getNextTwprge (getNextSec c0)) := by
    show parseMeaningful c0 txt DESC_STR _ = _
    unfold parseMeaningful
    simp only [sDescLays_DESC_STR, trFirstLays_DESC_STR, Bool.not_false, if_true]
    exact walk_eq_pairs _ _ _ _
  have h01 : getNextTwprge (getNextSec c0) =
      { workingSec := some ((tracts.map (·.secs)).headD [ERR_SEC]), secList := (tracts.map (·.secs)).tail,
        workingTR := some ((tracts.map (·.tr)).headD ERR_TWPRGE), trList := (tracts.map (·.tr)).tail } := by
    rw [getNextSec_ok' c0 (Or.inl rfl), getNextTwprge_ok' _ (Or.inl rfl)]
  rw [h01] at hc
  obtain ⟨c', m', f1, f2, f3, f4, f5, f6, f7, f8⟩ :=
    walk_str txt [(endPos, .textEnd)] tracts p0 .textStart
      { workingSec := some ((tracts.map (·.secs)).headD [ERR_SEC]), secList := (tracts.map (·.secs)).tail,
        workingTR := some ((tracts.map (·.tr)).headD ERR_TWPRGE), trList := (tracts.map (·.tr)).tail }
      (Or.inl rfl) rfl rfl rfl rfl
  rw [descStrMarkers, f1] at hc
  simp only [pairs, List.foldl_cons, List.foldl_nil, List.head?_cons, Option.getD_some, List.head?_nil,
    Option.getD_none, stepP_textEnd] at hc
  rw [stepP_str_unused txt c' m'.1 m'.2 f2 _ (by simp)] at hc
  rw [hc]
  refine ⟨?_, f7, f5, ?_, f6, f4⟩
  · simpa [expectedCompsStr, c0] using f3
  · show c'.fl.e = []
    rw [f8]

/-- C01 (desc_STR), after `parse_chunk`'s clean-up: still no error flag, and (without `sec_within`) the same components -/
theorem C01_walk_desc_str_finish (pc : ParserCfg) (txt : Str) (p0 : Nat) (tracts : List StrItem) (endPos : Nat) :
    let c0 : Chunk := { trList := tracts.map (·.tr), secList := tracts.map (·.secs) }
    let c := finishChunk pc (parseMeaningful c0 txt DESC_STR (descStrMarkers p0 tracts endPos))
    c.fl.e = [] ∧ (pc.secWithin = false → c.comps = expectedCompsStr txt p0 tracts) := by
  intro c0 c
  obtain ⟨h1, h2, h3, h4, h5, h6⟩ := C01_walk_desc_str txt p0 tracts endPos
  obtain ⟨f1, f2⟩ := finishChunk_clean pc _ h2 h3 (Or.inr (Or.inl h5)) (Or.inr (Or.inl h6))
  exact ⟨by show (finishChunk pc _).fl.e = []; rw [f1]; exact h4, fun h => ((f2 h).1).trans h1⟩

#print axioms C04_walk_partition
#print axioms C04_chunkParser_monotone
#print axioms C04_examineUnused_flags
#print axioms C04_tractSpecs_descs
#print axioms C04_parser_accounts
#print axioms C01_walk_trs_desc
#print axioms C01_walk_trs_desc_finish
#print axioms C01_walk_desc_str
#print axioms C01_walk_desc_str_finish

end PyTRS
