/-
Arranged walks (C01) for the two remaining documented layouts of `_parse_meaningful`:
`S_desc_TR` ("Sec desc … Sec desc … TR") and `TR_desc_S` ("TR desc Sec, desc Sec, … TR …").
Same technique as in `Walk.lean`: the index walk is a fold over (marker, next marker) pairs.
-/
import PyTRS.Lemmas.Walk
namespace PyTRS
open PyTRS.Obj PyTRS.Plss

/-! ## Part C (C01): the S_desc_TR layout — "Sec desc, Sec desc, …, TR" -/

/-- the markers of one Twp/Rge group written as "Sec desc … Sec desc TR": the section references first, the Twp/Rge last -/
def sGroupMarkers (g : TRGroup) : List (Nat × Marker) :=
  imk g.items ++ [(g.tStart, .trStart), (g.tEnd, .trEnd)]

/-- marker list of a chunk "sec text sec text … TR sec text … TR"; `endPos` = text length -/
def sDescTrMarkers (groups : List TRGroup) (endPos : Nat) : List (Nat × Marker) :=
  groups.flatMap sGroupMarkers ++ [(endPos, .textEnd)]

/-- the components of the section references of one group: the block after a section reference runs from its end to the start
    of the next section reference, or (for the last one) to the start `nxt` of the group's Twp/Rge -/
def sItemComps (txt : Str) (tr : Str) (nxt : Nat) : List SecItem → List Component
  | [] => []
  | s :: rest =>
    { desc := cleanupDesc (slice txt s.sEnd ((rest.head?.map (·.sStart)).getD nxt)), sec := some s.secs, twprge := some tr }
      :: sItemComps txt tr nxt rest

/-- the expected components: one per section reference, in order, with the Twp/Rge of ITS group (written after it) -/
def expectedCompsSDescTr (txt : Str) (groups : List TRGroup) : List Component :=
  groups.flatMap (fun g => sItemComps txt g.tr g.tStart g.items)

theorem sDescLays_S_DESC_TR : sDescLays S_DESC_TR = true := by decide
theorem trFirstLays_S_DESC_TR : trFirstLays S_DESC_TR = false := by decide
theorem sDescLays_TR_DESC_S : sDescLays TR_DESC_S = false := by decide
theorem trFirstLays_TR_DESC_S : trFirstLays TR_DESC_S = true := by decide

/-- "the last tract used both working values": nothing is pending -/
def WalkUsed (c : Chunk) : Prop := c.lastTRUsed = true ∧ c.lastSecUsed = true ∧ c.workingSec = some [ERR_SEC]

theorem stepS_secEnd (txt : Str) (c : Chunk) (p : Nat) (n : Nat × Marker) :
    stepP txt S_DESC_TR c ((p, .secEnd), n) =
      { c with comps := c.comps ++ [{ desc := cleanupDesc (slice txt p n.1), sec := c.workingSec, twprge := c.workingTR }],
               lastSecUsed := true, lastTRUsed := true, workingSec := some [ERR_SEC] } := by
  simp [stepP, sDescLays_S_DESC_TR, stage]

theorem stepS_trEnd (txt : Str) (c : Chunk) (p : Nat) (n : Nat × Marker) :
    stepP txt S_DESC_TR c ((p, .trEnd), n) = { c with unused := c.unused ++ [(c.comps.length, slice txt p n.1)] } := by
  simp [stepP, sDescLays_S_DESC_TR]

/-- the two markers of a section reference: take the next section list, stage the block after it -/
theorem s_item_step (txt : Str) (c : Chunk) (tr : Str) (secs : List Str) (sl : List (List Str))
    (hTR : c.workingTR = some tr) (hsl : c.secList = secs :: sl)
    (hok : c.workingSec = none ∨ c.lastSecUsed = true) (p q : Nat) (n1 n2 : Nat × Marker) :
    let c2 := stepP txt S_DESC_TR (stepP txt S_DESC_TR c ((p, .secStart), n1)) ((q, .secEnd), n2)
    c2.comps = c.comps ++ [{ desc := cleanupDesc (slice txt q n2.1), sec := some secs, twprge := some tr }] ∧
      c2.trList = c.trList ∧ c2.secList = sl ∧ c2.fl = c.fl ∧ c2.workingTR = some tr ∧ WalkUsed c2 := by
  rw [stepP_secStart, getNextSec_ok c secs sl hok hsl, stepS_secEnd]
  simp [hTR, WalkUsed]

/-- the two markers of the Twp/Rge that closes a group: switch to the NEXT Twp/Rge (or the error placeholder); the block
    after it is unused text -/
theorem s_group_step (txt : Str) (c : Chunk) (hok : c.workingTR = none ∨ c.lastTRUsed = true)
    (p q : Nat) (n1 n2 : Nat × Marker) :
    let c2 := stepP txt S_DESC_TR (stepP txt S_DESC_TR c ((p, .trStart), n1)) ((q, .trEnd), n2)
    c2.comps = c.comps ∧ c2.trList = c.trList.tail ∧ c2.secList = c.secList ∧ c2.fl = c.fl ∧
      c2.workingTR = some (c.trList.headD ERR_TWPRGE) ∧ c2.lastTRUsed = false ∧
      c2.workingSec = c.workingSec ∧ c2.lastSecUsed = c.lastSecUsed := by
  rw [stepP_trStart, getNextTwprge_ok' c hok, stepS_trEnd]
  simp

theorem imk_cons (s : SecItem) (rest : List SecItem) (tl : List (Nat × Marker)) :
    imk (s :: rest) ++ tl = (s.sStart, .secStart) :: (s.sEnd, .secEnd) :: (imk rest ++ tl) := by
  simp [imk]

theorem imk_head (rest : List SecItem) (nxt : Nat) (m : Marker) (tl : List (Nat × Marker)) (d : Nat × Marker) :
    ((imk rest ++ (nxt, m) :: tl).head?.getD d).1 = (rest.head?.map (·.sStart)).getD nxt := by
  cases rest <;> simp [imk]

/-- the walk over the section references of one group (the group's Twp/Rge marker `(nxt, m)` follows) -/
theorem walk_s_items (txt : Str) (tr : Str) (nxt : Nat) (m : Marker) (tl : List (Nat × Marker)) :
    ∀ (its : List SecItem) (sl : List (List Str)) (c : Chunk),
      c.workingTR = some tr → c.secList = its.map (·.secs) ++ sl →
      (c.workingSec = none ∨ c.lastSecUsed = true) →
      ∃ c', (pairs (imk its ++ (nxt, m) :: tl)).foldl (stepP txt S_DESC_TR) c
            = (pairs ((nxt, m) :: tl)).foldl (stepP txt S_DESC_TR) c' ∧
        c'.comps = c.comps ++ sItemComps txt tr nxt its ∧
        c'.trList = c.trList ∧ c'.secList = sl ∧ c'.fl = c.fl ∧ c'.workingTR = some tr ∧
        (WalkUsed c → WalkUsed c') ∧ (its ≠ [] → WalkUsed c') ∧ (its = [] → c' = c) := by
  intro its
  induction its with
  | nil =>
    intro sl c hTR hsl _
    exact ⟨c, by simp [imk], by simp [sItemComps], rfl, by simpa using hsl, rfl, hTR, id, by simp, fun _ => rfl⟩
  | cons s rest ih =>
    intro sl c hTR hsl hok
    rw [imk_cons]
    simp only [pairs, List.foldl_cons]
    have hst := s_item_step txt c tr s.secs (rest.map (·.secs) ++ sl) hTR (by simpa using hsl) hok
      s.sStart s.sEnd (((s.sEnd, Marker.secEnd) :: (imk rest ++ (nxt, m) :: tl)).head?.getD (s.sStart, .secStart))
      ((imk rest ++ (nxt, m) :: tl).head?.getD (s.sEnd, .secEnd))
    simp only [] at hst
    generalize stepP txt S_DESC_TR (stepP txt S_DESC_TR c _) _ = c2 at hst ⊢
    obtain ⟨h1, h2, h3, h4, h5, h6⟩ := hst
    obtain ⟨c', e1, e2, e3, e4, e5, e6, e7, _, _⟩ := ih sl c2 h5 h3 (Or.inr h6.2.1)
    refine ⟨c', e1, ?_, e3.trans h2, e4, e5.trans h4, e6, fun _ => e7 h6, fun _ => e7 h6, by simp⟩
    rw [e2, h1, imk_head]
    simp [sItemComps]

/-- all section lists of the groups, in order -/
def allSecs (groups : List TRGroup) : List (List Str) := groups.flatMap (fun g => g.items.map (·.secs))

/-- the walk over all groups: the Twp/Rge of the first group is already staged (it was fetched before the walk), and every
    `.trStart` switches to the Twp/Rge of the NEXT group -/
theorem walk_s_groups (txt : Str) (tl : List (Nat × Marker)) (trl : List Str) (sl : List (List Str)) :
    ∀ (groups : List TRGroup) (c : Chunk),
      (∀ g ∈ groups, g.items ≠ []) →
      c.workingTR = some ((groups.map (·.tr) ++ trl).headD ERR_TWPRGE) →
      c.trList = (groups.map (·.tr) ++ trl).tail →
      c.secList = allSecs groups ++ sl →
      (c.workingSec = none ∨ c.lastSecUsed = true) →
      c.lastTRUsed = false →
      ∃ c', (pairs (groups.flatMap sGroupMarkers ++ tl)).foldl (stepP txt S_DESC_TR) c
            = (pairs tl).foldl (stepP txt S_DESC_TR) c' ∧
        c'.comps = c.comps ++ expectedCompsSDescTr txt groups ∧
        c'.workingTR = some (trl.headD ERR_TWPRGE) ∧ c'.trList = trl.tail ∧ c'.lastTRUsed = false ∧
        c'.secList = sl ∧ c'.fl = c.fl ∧
        (groups ≠ [] → c'.workingSec = some [ERR_SEC] ∧ c'.lastSecUsed = true) ∧ (groups = [] → c' = c) := by
  intro groups
  induction groups with
  | nil =>
    intro c _ hTR htl hsl _ hlu
    exact ⟨c, by simp, by simp [expectedCompsSDescTr], by simpa using hTR, by simpa using htl, hlu,
      by simpa [allSecs] using hsl, rfl, by simp, fun _ => rfl⟩
  | cons g gs ih =>
    intro c hne hTR htl hsl hs hlu
    have hm : (g :: gs).flatMap sGroupMarkers ++ tl =
        imk g.items ++ (g.tStart, .trStart) :: ((g.tEnd, .trEnd) :: (gs.flatMap sGroupMarkers ++ tl)) := by
      simp [sGroupMarkers]
    rw [hm]
    simp only [List.map_cons, List.cons_append, List.headD_cons, List.tail_cons] at hTR htl
    obtain ⟨c1, e1, e2, e3, e4, e5, e6, _, e8, _⟩ :=
      walk_s_items txt g.tr g.tStart .trStart ((g.tEnd, .trEnd) :: (gs.flatMap sGroupMarkers ++ tl)) g.items
        (allSecs gs ++ sl) c hTR (by rw [hsl]; simp [allSecs]) hs
    obtain ⟨u1, u2, u3⟩ := e8 (hne g List.mem_cons_self)
    rw [e1, fold_pairs_cons2]
    simp only [pairs, List.foldl_cons]
    have hst := s_group_step txt c1 (Or.inr u1) g.tStart g.tEnd (g.tEnd, .trEnd)
      ((gs.flatMap sGroupMarkers ++ tl).head?.getD (g.tEnd, .trEnd))
    simp only [] at hst
    generalize stepP txt S_DESC_TR (stepP txt S_DESC_TR c1 _) _ = c2 at hst ⊢
    obtain ⟨h1, h2, h3, h4, h5, h6, h7, h8⟩ := hst
    rw [e3, htl] at h2 h5
    obtain ⟨c', f1, f2, f3, f4, f5, f6, f7, f8, f9⟩ :=
      ih c2 (fun g' hg' => hne g' (List.mem_cons_of_mem _ hg')) h5 h2 (h3.trans e4) (Or.inr (h8.trans u2)) h6
    refine ⟨c', f1, ?_, f3, f4, f5, f6, f7.trans (h4.trans e5), fun _ => ?_, by simp⟩
    · rw [f2, h1, e2]
      simp [expectedCompsSDescTr]
    · by_cases hgs : gs = []
      · rw [f9 hgs, h7, h8]
        exact ⟨u3, u2⟩
      · exact f8 hgs

/-- C01 (S_desc_TR): if every Twp/Rge group has at least one section reference, the walk over such a marker list, started
    with the Twp/Rge and section lists the finders produce for it, stages exactly one component per section reference — with
    the Twp/Rge of its group (written AFTER it), its own section list and the cleaned-up text after it —, uses up both lists
    and raises no error flag.  The last `.trStart` pops from the empty Twp/Rge list: the error placeholder ends up as working
    Twp/Rge (unused); the working section is the error placeholder too (used), or `None` if there was no group at all. -/
theorem C01_walk_s_desc_tr (txt : Str) (groups : List TRGroup) (endPos : Nat)
    (hne : ∀ g ∈ groups, g.items ≠ []) :
    let c0 : Chunk := { trList := groups.map (·.tr), secList := groups.flatMap (fun g => g.items.map (·.secs)) }
    let c := parseMeaningful c0 txt S_DESC_TR (sDescTrMarkers groups endPos)
    c.comps = expectedCompsSDescTr txt groups ∧ c.trList = [] ∧ c.secList = [] ∧ c.fl.e = [] ∧
    c.workingTR = some ERR_TWPRGE ∧ c.lastTRUsed = false ∧
    (groups ≠ [] → c.workingSec = some [ERR_SEC] ∧ c.lastSecUsed = true) ∧
    (groups = [] → c.workingSec = none ∧ c.lastSecUsed = false) := by
  intro c0 c
  have hc : c = (pairs (sDescTrMarkers groups endPos)).foldl (stepP txt S_DESC_TR) (getNextTwprge c0) := by
    show parseMeaningful c0 txt S_DESC_TR _ = _
    unfold parseMeaningful
    simp only [sDescLays_S_DESC_TR, trFirstLays_S_DESC_TR, Bool.not_true, Bool.not_false, Bool.false_eq_true, if_false,
      if_true]
    exact walk_eq_pairs _ _ _ _
  have h01 : getNextTwprge c0 =
      { c0 with lastTRUsed := false, workingTR := some (c0.trList.headD ERR_TWPRGE), trList := c0.trList.tail } :=
    getNextTwprge_ok' c0 (Or.inl rfl)
  obtain ⟨c', f1, f2, f3, f4, f5, f6, f7, f8, f9⟩ :=
    walk_s_groups txt [(endPos, .textEnd)] [] [] groups (getNextTwprge c0) hne
      (by rw [h01]; simp [c0]) (by rw [h01]; simp [c0]) (by rw [h01]; simp [c0, allSecs]) (by rw [h01]; exact Or.inl rfl)
      (by rw [h01])
  have hc' : c = c' := by
    rw [hc, sDescTrMarkers, f1]
    simp [pairs, stepP_textEnd]
  rw [hc']
  refine ⟨?_, by simpa using f4, f6, ?_, by simpa using f3, f5, f8, fun hg => ?_⟩
  · rw [f2, h01]; simp [c0]
  · rw [f7, h01]
  · rw [f9 hg, h01]; exact ⟨rfl, rfl⟩

/-- C01 (S_desc_TR), after `parse_chunk`'s clean-up: the error placeholder staged by the last `.trStart` is neither re-queued
    nor flagged — still no error flag, and (without `sec_within`) the same components -/
theorem C01_walk_s_desc_tr_finish (pc : ParserCfg) (txt : Str) (groups : List TRGroup) (endPos : Nat)
    (hne : ∀ g ∈ groups, g.items ≠ []) :
    let c0 : Chunk := { trList := groups.map (·.tr), secList := groups.flatMap (fun g => g.items.map (·.secs)) }
    let c := finishChunk pc (parseMeaningful c0 txt S_DESC_TR (sDescTrMarkers groups endPos))
    c.fl.e = [] ∧ (pc.secWithin = false → c.comps = expectedCompsSDescTr txt groups) := by
  intro c0 c
  obtain ⟨h1, h2, h3, h4, h5, _, h7, h8⟩ := C01_walk_s_desc_tr txt groups endPos hne
  have hsec : ∀ d : Chunk, (groups ≠ [] → d.workingSec = some [ERR_SEC] ∧ d.lastSecUsed = true) →
      (groups = [] → d.workingSec = none ∧ d.lastSecUsed = false) →
      d.lastSecUsed = true ∨ d.workingSec = some [ERR_SEC] ∨ d.workingSec = none := by
    intro d a b
    by_cases hg : groups = []
    · exact Or.inr (Or.inr (b hg).1)
    · exact Or.inl (a hg).2
  obtain ⟨f1, f2⟩ := finishChunk_clean pc _ h2 h3 (Or.inr (Or.inl h5)) (hsec _ h7 h8)
  exact ⟨by show (finishChunk pc _).fl.e = []; rw [f1]; exact h4, fun h => ((f2 h).1).trans h1⟩

/-! ## Part D (C01): the TR_desc_S layout — "TR desc Sec, desc Sec, … TR …" -/

/-- marker list of a chunk "TR text sec text sec … TR text sec …" that starts with its first Twp/Rge; `endPos` = text length.
    (The same marker shapes as in the TRS_desc layout; but here the text block BEFORE a section reference is its description.) -/
def trDescSMarkers (groups : List TRGroup) (endPos : Nat) : List (Nat × Marker) :=
  groups.flatMap groupMarkers ++ [(endPos, .textEnd)]

/-- the components of the section references of one group: the description of a section reference runs from the previous
    marker `prev` (the end of the Twp/Rge, or the end of the previous section reference) to its start -/
def dItemComps (txt : Str) (tr : Str) : Nat → List SecItem → List Component
  | _, [] => []
  | prev, s :: rest =>
    { desc := cleanupDesc (slice txt prev s.sStart), sec := some s.secs, twprge := some tr } :: dItemComps txt tr s.sEnd rest

/-- the expected components: one per section reference, in order, with the Twp/Rge of its group -/
def expectedCompsTrDescS (txt : Str) (groups : List TRGroup) : List Component :=
  groups.flatMap (fun g => dItemComps txt g.tr g.tEnd g.items)

theorem stepD_tract (txt : Str) (c : Chunk) (p q : Nat) (ty : Marker) (h : texty ty) :
    stepP txt TR_DESC_S c ((p, ty), (q, .secStart)) =
      { c with comps := c.comps ++ [{ desc := cleanupDesc (slice txt p q), sec := c.workingSec, twprge := c.workingTR }],
               lastSecUsed := true, lastTRUsed := true, workingSec := some [ERR_SEC] } := by
  rcases h with rfl | rfl | rfl <;> simp [stepP, sDescLays_TR_DESC_S, stage]

theorem stepD_unused (txt : Str) (c : Chunk) (p : Nat) (ty : Marker) (h : texty ty) (n : Nat × Marker)
    (hn : n.2 ≠ .secStart) :
    stepP txt TR_DESC_S c ((p, ty), n) = { c with unused := c.unused ++ [(c.comps.length, slice txt p n.1)] } := by
  obtain ⟨q, nty⟩ := n
  rcases h with rfl | rfl | rfl <;> simp_all [stepP, sDescLays_TR_DESC_S]

/-- the two steps from the text marker in front of a section reference to its `.secEnd` marker: stage the block with the
    working section list, then fetch the next section list -/
theorem d_item_step (txt : Str) (c : Chunk) (prev sS : Nat) (ty : Marker) (hty : texty ty) (n : Nat × Marker) :
    let c2 := stepP txt TR_DESC_S (stepP txt TR_DESC_S c ((prev, ty), (sS, .secStart))) ((sS, .secStart), n)
    c2.comps = c.comps ++ [{ desc := cleanupDesc (slice txt prev sS), sec := c.workingSec, twprge := c.workingTR }] ∧
      c2.workingSec = some (c.secList.headD [ERR_SEC]) ∧ c2.secList = c.secList.tail ∧
      c2.workingTR = c.workingTR ∧ c2.trList = c.trList ∧ c2.fl = c.fl ∧
      c2.lastTRUsed = true ∧ c2.lastSecUsed = false := by
  rw [stepD_tract txt c prev sS ty hty, stepP_secStart, getNextSec_ok' _ (Or.inr rfl)]
  simp

/-- the walk over the section references of one group; `(prev, ty)` is the text marker in front of them -/
theorem walk_d_items (txt : Str) (tr : Str) (tl : List (Nat × Marker)) (sl : List (List Str)) :
    ∀ (its : List SecItem) (prev : Nat) (ty : Marker) (c : Chunk), texty ty →
      c.workingTR = some tr →
      c.workingSec = some ((its.map (·.secs) ++ sl).headD [ERR_SEC]) → c.secList = (its.map (·.secs) ++ sl).tail →
      ∃ c' m', (pairs ((prev, ty) :: (imk its ++ tl))).foldl (stepP txt TR_DESC_S) c
            = (pairs (m' :: tl)).foldl (stepP txt TR_DESC_S) c' ∧ texty m'.2 ∧
        c'.comps = c.comps ++ dItemComps txt tr prev its ∧
        c'.workingSec = some (sl.headD [ERR_SEC]) ∧ c'.secList = sl.tail ∧
        c'.workingTR = some tr ∧ c'.trList = c.trList ∧ c'.fl = c.fl ∧
        (its ≠ [] → c'.lastTRUsed = true ∧ c'.lastSecUsed = false) ∧ (its = [] → c' = c) := by
  intro its
  induction its with
  | nil =>
    intro prev ty c hty hTR h1 h2
    exact ⟨c, (prev, ty), by simp [imk], hty, by simp [dItemComps], by simpa using h1, by simpa using h2, hTR, rfl, rfl,
      by simp, fun _ => rfl⟩
  | cons s rest ih =>
    intro prev ty c hty hTR h1 h2
    rw [imk_cons, fold_pairs_cons2, fold_pairs_cons2]
    have hst := d_item_step txt c prev s.sStart ty hty (s.sEnd, .secEnd)
    simp only [] at hst
    generalize stepP txt TR_DESC_S (stepP txt TR_DESC_S c _) _ = c2 at hst ⊢
    obtain ⟨g1, g2, g3, g4, g5, g6, g7, g8⟩ := hst
    simp only [List.map_cons, List.cons_append, List.headD_cons, List.tail_cons] at h1 h2
    rw [h2] at g2 g3
    obtain ⟨c', m', e1, e2, e3, e4, e5, e6, e7, e8, e9, e10⟩ :=
      ih s.sEnd .secEnd c2 (Or.inr (Or.inr rfl)) (g4.trans hTR) g2 g3
    refine ⟨c', m', e1, e2, ?_, e4, e5, e6, e7.trans g5, e8.trans g6, fun _ => ?_, by simp⟩
    · rw [e3, g1, h1, hTR]
      simp [dItemComps]
    · by_cases hr : rest = []
      · rw [e10 hr]; exact ⟨g7, g8⟩
      · exact e9 hr

/-- what follows a group is the next group or the end marker — never a section reference -/
theorem d_next_not_sec (gs : List TRGroup) (endPos : Nat) :
    ∃ n rest, gs.flatMap groupMarkers ++ [(endPos, Marker.textEnd)] = n :: rest ∧ n.2 ≠ .secStart := by
  cases gs with
  | nil => exact ⟨_, _, rfl, by simp⟩
  | cons g gs =>
    exact ⟨(g.tStart, .trStart), (g.tEnd, .trEnd) :: (imk g.items ++ (gs.flatMap groupMarkers ++ [(endPos, .textEnd)])),
      by simp [groupMarkers_eq], by simp⟩

/-- the walk over all groups: the first section list is already staged (it was fetched before the walk), and every
    `.secStart` fetches the section list of the NEXT section reference -/
theorem walk_d_groups (txt : Str) (endPos : Nat) (trl : List Str) (sl : List (List Str)) :
    ∀ (groups : List TRGroup) (c : Chunk),
      (∀ g ∈ groups, g.items ≠ []) →
      c.trList = groups.map (·.tr) ++ trl →
      c.workingSec = some ((allSecs groups ++ sl).headD [ERR_SEC]) →
      c.secList = (allSecs groups ++ sl).tail →
      (c.workingTR = none ∨ c.lastTRUsed = true) →
      ∃ c', (pairs (groups.flatMap groupMarkers ++ [(endPos, .textEnd)])).foldl (stepP txt TR_DESC_S) c = c' ∧
        c'.comps = c.comps ++ expectedCompsTrDescS txt groups ∧
        c'.trList = trl ∧ c'.workingSec = some (sl.headD [ERR_SEC]) ∧ c'.secList = sl.tail ∧ c'.fl = c.fl ∧
        c'.workingTR = (groups.getLast?.map (·.tr)).or c.workingTR ∧
        (groups ≠ [] → c'.lastTRUsed = true ∧ c'.lastSecUsed = false) ∧ (groups = [] → c' = c) := by
  intro groups
  induction groups with
  | nil =>
    intro c _ htl h1 h2 _
    exact ⟨c, by simp [pairs, stepP_textEnd], by simp [expectedCompsTrDescS], by simpa using htl,
      by simpa [allSecs] using h1, by simpa [allSecs] using h2, rfl, by simp, by simp, fun _ => rfl⟩
  | cons g gs ih =>
    intro c hne htl h1 h2 ht
    have hm : (g :: gs).flatMap groupMarkers ++ [(endPos, Marker.textEnd)] =
        (g.tStart, .trStart) :: (g.tEnd, .trEnd) :: (imk g.items ++ (gs.flatMap groupMarkers ++ [(endPos, .textEnd)])) := by
      simp [groupMarkers_eq]
    rw [hm, fold_pairs_cons2, stepP_trStart, getNextTwprge_ok c g.tr (gs.map (·.tr) ++ trl) ht (by simpa using htl)]
    have hsec : allSecs (g :: gs) ++ sl = g.items.map (·.secs) ++ (allSecs gs ++ sl) := by simp [allSecs]
    rw [hsec] at h1 h2
    obtain ⟨c1, m', e1, e2, e3, e4, e5, e6, e7, e8, e9, _⟩ :=
      walk_d_items txt g.tr (gs.flatMap groupMarkers ++ [(endPos, .textEnd)]) (allSecs gs ++ sl) g.items g.tEnd .trEnd
        { c with lastTRUsed := false, workingTR := some g.tr, trList := gs.map (·.tr) ++ trl }
        (Or.inr (Or.inl rfl)) rfl h1 h2
    obtain ⟨u1, u2⟩ := e9 (hne g List.mem_cons_self)
    obtain ⟨n, rest, hn, hns⟩ := d_next_not_sec gs endPos
    rw [e1]
    have hcut : (pairs (m' :: (gs.flatMap groupMarkers ++ [(endPos, Marker.textEnd)]))).foldl (stepP txt TR_DESC_S) c1 =
        (pairs (gs.flatMap groupMarkers ++ [(endPos, Marker.textEnd)])).foldl (stepP txt TR_DESC_S)
          { c1 with unused := c1.unused ++ [(c1.comps.length, slice txt m'.1 n.1)] } := by
      rw [hn, fold_pairs_cons2, stepD_unused txt c1 m'.1 m'.2 e2 n hns]
    rw [hcut]
    obtain ⟨c', f1, f2, f3, f4, f5, f6, f7, f8, f9⟩ :=
      ih { c1 with unused := c1.unused ++ [(c1.comps.length, slice txt m'.1 n.1)] }
        (fun g' hg' => hne g' (List.mem_cons_of_mem _ hg')) e7 e4 e5 (Or.inr u1)
    refine ⟨c', f1, ?_, f3, f4, f5, f6.trans e8, ?_, fun _ => ?_, by simp⟩
    · rw [f2]
      show c1.comps ++ _ = _
      rw [e3]
      simp [expectedCompsTrDescS]
    · rw [f7]
      show (gs.getLast?.map (·.tr)).or c1.workingTR = _
      rw [e6, List.getLast?_cons]
      cases gs.getLast? <;> simp
    · by_cases hgs : gs = []
      · rw [f9 hgs]; exact ⟨u1, u2⟩
      · exact f8 hgs

/-- C01 (TR_desc_S): if every Twp/Rge is followed by at least one section reference, the walk over such a marker list, started
    with the Twp/Rge and section lists the finders produce for it, stages exactly one component per section reference — with
    the Twp/Rge of its group, its own section list and the cleaned-up text IN FRONT of it —, uses up both lists and raises no
    error flag.  The last `.secStart` pops from the empty section list: the error placeholder ends up as working section
    (unused); the working Twp/Rge is the last one (used), or `None` if there was no group at all. -/
theorem C01_walk_tr_desc_s (txt : Str) (groups : List TRGroup) (endPos : Nat)
    (hne : ∀ g ∈ groups, g.items ≠ []) :
    let c0 : Chunk := { trList := groups.map (·.tr), secList := groups.flatMap (fun g => g.items.map (·.secs)) }
    let c := parseMeaningful c0 txt TR_DESC_S (trDescSMarkers groups endPos)
    c.comps = expectedCompsTrDescS txt groups ∧ c.trList = [] ∧ c.secList = [] ∧ c.fl.e = [] ∧
    c.workingSec = some [ERR_SEC] ∧ c.lastSecUsed = false ∧
    c.workingTR = groups.getLast?.map (·.tr) ∧ (groups ≠ [] → c.lastTRUsed = true) := by
  intro c0 c
  have hc : c = (pairs (trDescSMarkers groups endPos)).foldl (stepP txt TR_DESC_S) (getNextSec c0) := by
    show parseMeaningful c0 txt TR_DESC_S _ = _
    unfold parseMeaningful
    simp only [sDescLays_TR_DESC_S, trFirstLays_TR_DESC_S, Bool.not_true, Bool.not_false, Bool.false_eq_true, if_false,
      if_true]
    exact walk_eq_pairs _ _ _ _
  have h01 : getNextSec c0 =
      { c0 with lastSecUsed := false, workingSec := some (c0.secList.headD [ERR_SEC]), secList := c0.secList.tail } :=
    getNextSec_ok' c0 (Or.inl rfl)
  obtain ⟨c', f1, f2, f3, f4, f5, f6, f7, f8, f9⟩ :=
    walk_d_groups txt endPos [] [] groups (getNextSec c0) hne
      (by rw [h01]; simp [c0]) (by rw [h01]; simp [c0, allSecs]) (by rw [h01]; simp [c0, allSecs])
      (by rw [h01]; exact Or.inl rfl)
  have hc' : c = c' := by rw [hc, trDescSMarkers, f1]
  rw [hc']
  refine ⟨?_, f3, by simpa using f5, ?_, by simpa using f4, ?_, ?_, fun hg => (f8 hg).1⟩
  · rw [f2, h01]; simp [c0]
  · rw [f6, h01]
  · by_cases hg : groups = []
    · rw [f9 hg, h01]
    · exact (f8 hg).2
  · rw [f7, h01]; simp [c0]

/-- C01 (TR_desc_S), after `parse_chunk`'s clean-up: the error placeholder staged by the last `.secStart` is neither
    re-queued nor flagged — still no error flag, and (without `sec_within`) the same components -/
theorem C01_walk_tr_desc_s_finish (pc : ParserCfg) (txt : Str) (groups : List TRGroup) (endPos : Nat)
    (hne : ∀ g ∈ groups, g.items ≠ []) :
    let c0 : Chunk := { trList := groups.map (·.tr), secList := groups.flatMap (fun g => g.items.map (·.secs)) }
    let c := finishChunk pc (parseMeaningful c0 txt TR_DESC_S (trDescSMarkers groups endPos))
    c.fl.e = [] ∧ (pc.secWithin = false → c.comps = expectedCompsTrDescS txt groups) := by
  intro c0 c
  obtain ⟨h1, h2, h3, h4, h5, _, h7, h8⟩ := C01_walk_tr_desc_s txt groups endPos hne
  have htr : ∀ d : Chunk, d.workingTR = groups.getLast?.map (·.tr) → (groups ≠ [] → d.lastTRUsed = true) →
      d.lastTRUsed = true ∨ d.workingTR = some ERR_TWPRGE ∨ d.workingTR = none := by
    intro d a b
    by_cases hg : groups = []
    · subst hg; exact Or.inr (Or.inr (by simpa using a))
    · exact Or.inl (b hg)
  obtain ⟨f1, f2⟩ := finishChunk_clean pc _ h2 h3 (htr _ h7 h8) (Or.inr (Or.inl h5))
  exact ⟨by show (finishChunk pc _).fl.e = []; rw [f1]; exact h4, fun h => ((f2 h).1).trans h1⟩

/-! ## Cross-checks: the expected components read off the marker lists, and concrete instances -/

theorem zip_flatMap_map {α β γ : Type} (f : α → List β) (h : α → List γ) (hl : ∀ a, (f a).length = (h a).length) :
    ∀ l : List α, (l.flatMap f).zip (l.flatMap h) = l.flatMap (fun a => (f a).zip (h a))
  | [] => rfl
  | a :: l => by
    simp only [List.flatMap_cons]
    rw [List.zip_append (hl a), zip_flatMap_map f h hl l]

/-- (start, end) of the text block after each section reference of a group whose Twp/Rge starts at `nxt` -/
def sItemBlocks (nxt : Nat) : List SecItem → List (Nat × Nat)
  | [] => []
  | s :: rest => (s.sEnd, (rest.head?.map (·.sStart)).getD nxt) :: sItemBlocks nxt rest

theorem sItemBlocks_length (nxt : Nat) (its : List SecItem) : (sItemBlocks nxt its).length = its.length := by
  induction its with
  | nil => rfl
  | cons s rest ih => simp [sItemBlocks, ih]

theorem sItemComps_eq (txt tr : Str) (nxt : Nat) (its : List SecItem) :
    sItemComps txt tr nxt its = ((sItemBlocks nxt its).zip (its.map fun s => (tr, s.secs))).map (mkComp txt) := by
  induction its with
  | nil => rfl
  | cons s rest ih => simp [sItemComps, sItemBlocks, ih, mkComp]

theorem secBlocks_s_items (nxt : Nat) (m : Marker) (tl : List (Nat × Marker)) (its : List SecItem) :
    (pairs (imk its ++ (nxt, m) :: tl)).filterMap secBlockOf
      = sItemBlocks nxt its ++ (pairs ((nxt, m) :: tl)).filterMap secBlockOf := by
  induction its with
  | nil => simp [imk, sItemBlocks]
  | cons s rest ih =>
    rw [imk_cons]
    simp only [pairs, List.filterMap_cons, ih]
    simp only [secBlockOf, imk_head, sItemBlocks, List.cons_append]

theorem secBlocks_s_groups (tl : List (Nat × Marker)) (groups : List TRGroup) :
    (pairs (groups.flatMap sGroupMarkers ++ tl)).filterMap secBlockOf
      = groups.flatMap (fun g => sItemBlocks g.tStart g.items) ++ (pairs tl).filterMap secBlockOf := by
  induction groups with
  | nil => simp
  | cons g gs ih =>
    have hm : (g :: gs).flatMap sGroupMarkers ++ tl =
        imk g.items ++ (g.tStart, .trStart) :: ((g.tEnd, .trEnd) :: (gs.flatMap sGroupMarkers ++ tl)) := by
      simp [sGroupMarkers]
    rw [hm, secBlocks_s_items]
    simp only [pairs, List.filterMap_cons, ih]
    simp [secBlockOf]

/-- the expected components of the S_desc_TR layout, read off the marker list as `expectedComps` of the TRS_desc layout is:
    the k-th block that starts at a `.secEnd` marker (and runs to the next marker), with the k-th section list and the
    Twp/Rge of its group -/
theorem expectedCompsSDescTr_eq (txt : Str) (groups : List TRGroup) (endPos : Nat) :
    expectedCompsSDescTr txt groups =
      let ms := sDescTrMarkers groups endPos
      ((List.range ms.length).filterMap (fun i => secBlockOf (ms[i]!, ms[min (ms.length - 1) (i + 1)]!))
        |>.zip (groups.flatMap (fun g => g.items.map (fun s => (g.tr, s.secs))))
        |>.map (mkComp txt)) := by
  simp only []
  have h := pairs_range (sDescTrMarkers groups endPos)
  have h2 : (List.range (sDescTrMarkers groups endPos).length).filterMap (fun i =>
      secBlockOf ((sDescTrMarkers groups endPos)[i]!,
        (sDescTrMarkers groups endPos)[min ((sDescTrMarkers groups endPos).length - 1) (i + 1)]!)) =
      (pairs (sDescTrMarkers groups endPos)).filterMap secBlockOf := by
    rw [← h, List.filterMap_map]; rfl
  rw [h2, sDescTrMarkers, secBlocks_s_groups]
  have hte : (pairs [(endPos, Marker.textEnd)]).filterMap secBlockOf = [] := rfl
  rw [hte, List.append_nil, zip_flatMap_map _ _ (by simp [sItemBlocks_length]), List.map_flatMap]
  simp only [expectedCompsSDescTr, sItemComps_eq]

/-- the block in front of a section reference, from a (marker, next marker) pair -/
def descBlockOf (p : (Nat × Marker) × (Nat × Marker)) : Option (Nat × Nat) :=
  match p.2 with
  | (q, Marker.secStart) => some (p.1.1, q)
  | _ => none

/-- (start, end) of the text block in front of each section reference of a group; `prev` = end of the Twp/Rge -/
def dItemBlocks : Nat → List SecItem → List (Nat × Nat)
  | _, [] => []
  | prev, s :: rest => (prev, s.sStart) :: dItemBlocks s.sEnd rest

theorem dItemBlocks_length (prev : Nat) (its : List SecItem) : (dItemBlocks prev its).length = its.length := by
  induction its generalizing prev with
  | nil => rfl
  | cons s rest ih => simp [dItemBlocks, ih]

theorem dItemComps_eq (txt tr : Str) (prev : Nat) (its : List SecItem) :
    dItemComps txt tr prev its = ((dItemBlocks prev its).zip (its.map fun s => (tr, s.secs))).map (mkComp txt) := by
  induction its generalizing prev with
  | nil => rfl
  | cons s rest ih => simp [dItemComps, dItemBlocks, ih, mkComp]

theorem pairs_cons2 {α : Type} (a b : α) (l : List α) : pairs (a :: b :: l) = (a, b) :: pairs (b :: l) := by
  simp [pairs]

theorem descBlocks_d_items (tl : List (Nat × Marker)) (its : List SecItem) (prev : Nat) (ty : Marker) :
    ∃ m', (pairs ((prev, ty) :: (imk its ++ tl))).filterMap descBlockOf
      = dItemBlocks prev its ++ (pairs (m' :: tl)).filterMap descBlockOf := by
  induction its generalizing prev ty with
  | nil => exact ⟨(prev, ty), by simp [imk, dItemBlocks]⟩
  | cons s rest ih =>
    obtain ⟨m', e1⟩ := ih s.sEnd .secEnd
    refine ⟨m', ?_⟩
    rw [imk_cons]
    simp only [pairs, List.filterMap_cons] at e1 ⊢
    rw [e1]
    simp [descBlockOf, dItemBlocks]

theorem descBlocks_d_groups (endPos : Nat) (groups : List TRGroup) :
    (pairs (groups.flatMap groupMarkers ++ [(endPos, .textEnd)])).filterMap descBlockOf
      = groups.flatMap (fun g => dItemBlocks g.tEnd g.items) := by
  induction groups with
  | nil => rfl
  | cons g gs ih =>
    have hm : (g :: gs).flatMap groupMarkers ++ [(endPos, Marker.textEnd)] =
        (g.tStart, .trStart) :: (g.tEnd, .trEnd) :: (imk g.items ++ (gs.flatMap groupMarkers ++ [(endPos, .textEnd)])) := by
      simp [groupMarkers_eq]
    obtain ⟨m', e1⟩ := descBlocks_d_items (gs.flatMap groupMarkers ++ [(endPos, .textEnd)]) g.items g.tEnd .trEnd
    obtain ⟨n, rest, hn, hns⟩ := d_next_not_sec gs endPos
    have hcut : (pairs (m' :: (gs.flatMap groupMarkers ++ [(endPos, Marker.textEnd)]))).filterMap descBlockOf =
        (pairs (gs.flatMap groupMarkers ++ [(endPos, Marker.textEnd)])).filterMap descBlockOf := by
      rw [hn]
      have hnone : descBlockOf (m', n) = none := by
        obtain ⟨q, nty⟩ := n
        cases nty <;> simp_all [descBlockOf]
      rw [pairs_cons2, List.filterMap_cons_none hnone]
    rw [hm, pairs_cons2, List.filterMap_cons_none (by rfl), e1, hcut, ih]
    simp

/-- the expected components of the TR_desc_S layout, read off the marker list: the k-th block whose NEXT marker is a
    `.secStart` (from the marker in front of it to that section reference), with the k-th section list and the Twp/Rge of
    its group -/
theorem expectedCompsTrDescS_eq (txt : Str) (groups : List TRGroup) (endPos : Nat) :
    expectedCompsTrDescS txt groups =
      let ms := trDescSMarkers groups endPos
      ((List.range ms.length).filterMap (fun i => descBlockOf (ms[i]!, ms[min (ms.length - 1) (i + 1)]!))
        |>.zip (groups.flatMap (fun g => g.items.map (fun s => (g.tr, s.secs))))
        |>.map (mkComp txt)) := by
  simp only []
  have h := pairs_range (trDescSMarkers groups endPos)
  have h2 : (List.range (trDescSMarkers groups endPos).length).filterMap (fun i =>
      descBlockOf ((trDescSMarkers groups endPos)[i]!,
        (trDescSMarkers groups endPos)[min ((trDescSMarkers groups endPos).length - 1) (i + 1)]!)) =
      (pairs (trDescSMarkers groups endPos)).filterMap descBlockOf := by
    rw [← h, List.filterMap_map]; rfl
  rw [h2, trDescSMarkers, descBlocks_d_groups, zip_flatMap_map _ _ (by simp [dItemBlocks_length]), List.map_flatMap]
  simp only [expectedCompsTrDescS, dItemComps_eq]

/-! ### concrete instances (one group with two items; two groups), checked by evaluation -/

section Instances
-- "Sec 14: NE/4, Sec 15: W/2, T154N-R97W"
private def txtS1 : Str := S "Sec 14: NE/4, Sec 15: W/2, T154N-R97W"
private def grS1 : List TRGroup := [{ tStart := 27, tEnd := 37, tr := S "154n97w", items := [{ sStart := 0, sEnd := 7, secs := [S "14"] }, { sStart := 14, sEnd := 21, secs := [S "15"] }] }]
private def txtS2 : Str := S "Sec 14: NE/4, T154N-R97W, Sec 1: W/2, Sec 2 - 3: All, T155N-R97W"
private def grS2 : List TRGroup := [
  { tStart := 14, tEnd := 24, tr := S "154n97w", items := [{ sStart := 0, sEnd := 7, secs := [S "14"] }] },
  { tStart := 54, tEnd := 64, tr := S "155n97w", items := [{ sStart := 26, sEnd := 32, secs := [S "01"] },
      { sStart := 38, sEnd := 48, secs := [S "02", S "03"] }] }]
-- "T154N-R97W NE/4 of Sec 14, W/2 of Sec 15"
private def txtD1 : Str := S "T154N-R97W NE/4 of Sec 14, W/2 of Sec 15"
private def grD1 : List TRGroup := [{ tStart := 0, tEnd := 10, tr := S "154n97w", items := [{ sStart := 19, sEnd := 25, secs := [S "14"] }, { sStart := 34, sEnd := 40, secs := [S "15"] }] }]
private def txtD2 : Str := S "T154N-R97W NE/4 of Sec 14, T155N-R97W W/2 of Sec 1, All of Sec 2 - 3"
private def grD2 : List TRGroup := [
  { tStart := 0, tEnd := 10, tr := S "154n97w", items := [{ sStart := 19, sEnd := 25, secs := [S "14"] }] },
  { tStart := 27, tEnd := 37, tr := S "155n97w", items := [{ sStart := 45, sEnd := 50, secs := [S "01"] },
      { sStart := 59, sEnd := 68, secs := [S "02", S "03"] }] }]

private def runWalk (layout txt : Str) (ms : List (Nat × Marker)) (groups : List TRGroup) : Chunk :=
  parseMeaningful { trList := groups.map (·.tr), secList := groups.flatMap (fun g => g.items.map (·.secs)) } txt layout ms

/-- the checked facts: components, both lists used up, no error flag, final working values -/
private def okS (txt : Str) (groups : List TRGroup) : Bool :=
  let c := runWalk S_DESC_TR txt (sDescTrMarkers groups txt.length) groups
  c.comps == expectedCompsSDescTr txt groups && c.trList == [] && c.secList == [] && c.fl.e.length == 0 &&
    c.workingTR == some ERR_TWPRGE && c.lastTRUsed == false && c.workingSec == some [ERR_SEC] && c.lastSecUsed == true
private def okD (txt : Str) (groups : List TRGroup) : Bool :=
  let c := runWalk TR_DESC_S txt (trDescSMarkers groups txt.length) groups
  c.comps == expectedCompsTrDescS txt groups && c.trList == [] && c.secList == [] && c.fl.e.length == 0 &&
    c.workingSec == some [ERR_SEC] && c.lastSecUsed == false && c.workingTR == groups.getLast?.map (·.tr) &&
    c.lastTRUsed == true

#guard okS txtS1 grS1
#guard okS txtS2 grS2
#guard okD txtD1 grD1
#guard okD txtD2 grD2
#guard (expectedCompsSDescTr txtS2 grS2).map (fun k => (k.desc, k.sec, k.twprge)) ==
  [(S "NE/4", some [S "14"], some (S "154n97w")), (S "W/2", some [S "01"], some (S "155n97w")),
   (S "All", some [S "02", S "03"], some (S "155n97w"))]
#guard (expectedCompsTrDescS txtD2 grD2).map (fun k => (k.desc, k.sec, k.twprge)) ==
  [(S "NE/4", some [S "14"], some (S "154n97w")), (S "W/2", some [S "01"], some (S "155n97w")),
   (S "All", some [S "02", S "03"], some (S "155n97w"))]
end Instances

#print axioms C01_walk_s_desc_tr
#print axioms C01_walk_s_desc_tr_finish
#print axioms C01_walk_tr_desc_s
#print axioms C01_walk_tr_desc_s_finish
#print axioms expectedCompsSDescTr_eq
#print axioms expectedCompsTrDescS_eq

end PyTRS
