/-
Slicing lemmas: consecutive slices of a text concatenate to the enclosing slice.
-/
import PyTRS.Rx
namespace PyTRS

theorem slice_append (t : List Char) (a b c : Nat) (hab : a ≤ b) (hbc : b ≤ c) :
    slice t a b ++ slice t b c = slice t a c := by
  unfold slice
  have h1 : List.take c t = List.take b t ++ List.drop b (List.take c t) := by
    have := (List.take_append_drop b (List.take c t)).symm
    rwa [List.take_take, Nat.min_eq_left hbc] at this
  by_cases hlen : a ≤ (List.take b t).length
  · have h2 : List.drop a (List.take c t) = List.drop a (List.take b t ++ List.drop b (List.take c t)) := by
      rw [← h1]
    rw [h2, List.drop_append_of_le_length hlen]
  · have hl : t.length < a := by
      simp only [List.length_take] at hlen
      omega
    have hb : t.length ≤ b := by omega
    have hc : t.length ≤ c := by omega
    rw [List.take_of_length_le hb, List.take_of_length_le hc]
    rw [List.drop_eq_nil_of_le (by omega : t.length ≤ b)]
    simp

theorem slice_full (t : List Char) : slice t 0 t.length = t := by
  unfold slice; simp

/-- consecutive blocks between sorted cut positions tile the span from the first to the last cut -/
theorem blocks_cover (t : List Char) : ∀ (a : Nat) (ps : List Nat),
    List.Pairwise (· ≤ ·) (a :: ps) →
    ((List.zip (a :: ps) ps).map (fun p => slice t p.1 p.2)).flatten = slice t a ((a :: ps).getLast (by simp)) := by
  intro a ps
  induction ps generalizing a with
  | nil => intro _; simp [slice]
  | cons b rest ih =>
    intro h
    have hab : a ≤ b := by
      have := List.rel_of_pairwise_cons h (List.mem_cons_self)
      exact this
    have hrest : List.Pairwise (· ≤ ·) (b :: rest) := (List.pairwise_cons.mp h).2
    have hlast : b ≤ (b :: rest).getLast (by simp) := by
      cases rest with
      | nil => simp
      | cons c r =>
        have hm : (b :: c :: r).getLast (by simp) ∈ c :: r := by
          rw [List.getLast_cons (by simp)]
          exact List.getLast_mem _
        exact List.rel_of_pairwise_cons hrest hm
    simp only [List.zip_cons_cons, List.map_cons, List.flatten_cons]
    rw [ih b hrest]
    have : (a :: b :: rest).getLast (by simp) = (b :: rest).getLast (by simp) := List.getLast_cons (by simp)
    rw [this]
    exact slice_append t a b _ hab hlast

end PyTRS
