/-
C08 — WHICH texts the regenerated `twprge_regex` recognises: the canonical spelling `T154N-R97W` (and the documented
variants) is recognised for EVERY number, preprocessing leaves it fixed, and the match ends where the Twp/Rge ends.

Part A is pattern-agnostic (by induction over `Rx`, on top of the list-of-successes semantics `Rx.all` of Lemmas/RxAll):
* `Leads r s s'` — the highest-priority complete path of `r` from `s` ends in `s'`; composition rules; the greedy run lemma;
* `Eats r seg tail f` — `r` leads across the segment `seg` (whatever comes before), adding the captures `f`;
* the "footprint" theorem `Rx.all_foot`: what any path of `r` consumes (only characters of its `chr` sets, at least one
  character of a set it cannot avoid (`Rx.mustHitP`), a first character from its first-sets, nothing only if nullable);
  consequences: a text without such a character has no match (`finditer_nil_of_noHit`), `finditer_single`.
Part B composes these rules on the regenerated patterns (decomposed by `rfl`; every fact about a character class is decided by
evaluation), with ARBITRARY digits, dead space and direction words:
* `Spelling` / `Spelling.Valid` / `C08_spelling_matchHere`, `C08_spelling_search`, `C08_spelling_finditer`, `C08_spelling_find`,
  `C08_spelling_preprocess` — a general sufficient condition for a written Twp/Rge to be read along the first path;
* item 1: `C08_canonical_recognised`, `C08_canonical_recognised_nat`, `C08_canonical_leading_zeros`, `C08_canonical_short`;
* item 2: `C08_canonical_preprocess_fixed`, `C08_canonical_preprocess_fixed_nat` (all six scrubbers + whitespace reduction);
* item 3: `C08_spelled_out_same`, `C08_bare_same`, `C08_lower_case_same`;
* item 4: `C08_canonical_right_context`, `C08_canonical_right_context_exact`, `C08_canonical_ends_iff`.
-/
import PyTRS.Lemmas.Scrub
import PyTRS.Lemmas.RxAll
import PyTRS.Lemmas.RxSplit
import PyTRS.Lemmas.IntRepr
import PyTRS.Lemmas.GlueFuel
set_option linter.unusedSimpArgs false
set_option linter.unusedVariables false
namespace PyTRS
open PyTRS.Plss PyTRS.Unpack

/-! ## Part A — a calculus for the first (highest-priority) path -/

/-- the highest-priority complete path of `r` from `s` ends in `s'` -/
def Leads (r : Rx) (s s' : St) : Prop := (r.all s).head? = some s'

/-- no path at all -/
def Fails (r : Rx) (s : St) : Prop := r.all s = []

theorem Leads.cons {r : Rx} {s s' : St} (h : Leads r s s') : ∃ tl, r.all s = s' :: tl := by
  unfold Leads at h
  cases hl : r.all s with
  | nil => rw [hl] at h; cases h
  | cons a tl =>
    rw [hl] at h
    simp only [List.head?_cons, Option.some.injEq] at h
    exact ⟨tl, by rw [h]⟩

theorem Leads.of_cons {r : Rx} {s s' : St} {tl : List St} (h : r.all s = s' :: tl) : Leads r s s' := by
  unfold Leads; rw [h]; rfl

theorem matchHere_of_leads {r : Rx} {s s' : St} (adv : Bool) (h : Leads r s s') (hp : adv = false ∨ s'.pos ≠ s.pos) :
    matchHere r s adv = some ⟨s.pos, s'.pos, s'.caps⟩ := by
  obtain ⟨tl, htl⟩ := h.cons
  rw [matchHere_eq, htl, List.findSome?_cons]
  rcases hp with h | h
  · simp [h]
  · simp [h]

theorem matchHere_of_fails {r : Rx} {s : St} (adv : Bool) (h : Fails r s) : matchHere r s adv = none := by
  rw [matchHere_eq, h]; rfl

theorem Leads.seq {a b : Rx} {s s1 s2 : St} (h1 : Leads a s s1) (h2 : Leads b s1 s2) : Leads (.seq a b) s s2 := by
  obtain ⟨t1, e1⟩ := h1.cons
  obtain ⟨t2, e2⟩ := h2.cons
  unfold Leads
  simp only [Rx.all, e1, List.flatMap_cons, e2, List.cons_append, List.head?_cons]

theorem Leads.alt_l {a b : Rx} {s s' : St} (h : Leads a s s') : Leads (.alt a b) s s' := by
  obtain ⟨t1, e1⟩ := h.cons
  unfold Leads
  simp only [Rx.all, e1, List.cons_append, List.head?_cons]

theorem Leads.alt_r {a b : Rx} {s s' : St} (hf : Fails a s) (h : Leads b s s') : Leads (.alt a b) s s' := by
  unfold Leads
  unfold Fails at hf
  simp only [Rx.all, hf, List.nil_append]
  exact h

theorem Leads.grp {r : Rx} {s s' : St} (i : Nat) (h : Leads r s s') :
    Leads (.grp i r) s { s' with caps := (i, s.pos, s'.pos) :: s'.caps } := by
  obtain ⟨t1, e1⟩ := h.cons
  unfold Leads
  simp only [Rx.all, e1, List.map_cons, List.head?_cons]

theorem Leads.eps (s : St) : Leads .eps s s := rfl

theorem Fails.seq_l {a b : Rx} {s : St} (h : Fails a s) : Fails (.seq a b) s := by
  unfold Fails at *
  simp only [Rx.all, h, List.flatMap_nil]

theorem Fails.seq_all {a b : Rx} {s : St} (h : ∀ s1 ∈ a.all s, Fails b s1) : Fails (.seq a b) s := by
  unfold Fails at *
  simp only [Rx.all, List.flatMap_eq_nil_iff]
  exact h

theorem Fails.alt {a b : Rx} {s : St} (h1 : Fails a s) (h2 : Fails b s) : Fails (.alt a b) s := by
  unfold Fails at *
  simp only [Rx.all, h1, h2, List.append_nil]

theorem Fails.grp {r : Rx} {s : St} (i : Nat) (h : Fails r s) : Fails (.grp i r) s := by
  unfold Fails at *
  simp only [Rx.all, h, List.map_nil]

/-- an optional group `(...)?` whose body leads somewhere -/
theorem Leads.opt_some {r : Rx} {s s' : St} (h : Leads r s s') : Leads (.rep r 0 (some 1)) s s' := by
  obtain ⟨t1, e1⟩ := h.cons
  unfold Leads
  have hf : s.rest.length + 0 + 2 = (s.rest.length + 1) + 1 := by omega
  simp only [Rx.all, hf, repAll, Nat.not_lt_zero, if_false, canMore, Nat.lt_irrefl, Nat.zero_lt_one, decide_true,
    Bool.true_and, e1, List.flatMap_cons, Nat.zero_add, Bool.false_and, Bool.false_eq_true, if_false, List.cons_append,
    bne_iff_ne, ne_eq, reduceCtorEq, not_false_eq_true, if_true, List.head?_cons]
  cases hn : s.rest.length with
  | zero => simp [repAll, canMore]
  | succ n => simp [repAll, canMore]

/-- an optional group `(...)?` whose body cannot match is skipped -/
theorem Leads.opt_none {r : Rx} {s : St} (h : Fails r s) : Leads (.rep r 0 (some 1)) s s := by
  unfold Fails at h
  unfold Leads
  have hf : s.rest.length + 0 + 2 = (s.rest.length + 1) + 1 := by omega
  simp [Rx.all, hf, repAll, canMore, h]

/-! ### the greedy run -/

/-- the character before the cursor after consuming `seg` -/
def lastOr (p : Option Char) : List Char → Option Char
  | [] => p
  | c :: t => lastOr (some c) t

theorem lastOr_append (p : Option Char) (a b : List Char) : lastOr p (a ++ b) = lastOr (lastOr p a) b := by
  induction a generalizing p with
  | nil => rfl
  | cons c t ih => exact ih (some c)

/-- the run stops here: the bound is reached, or the next character is not in the class -/
def StopAt (cs : CharSet) (tail : List Char) : Prop := ∀ c, tail.head? = some c → cs.mem c = false

theorem repAll_chr_run (cs : CharSet) (lo : Nat) (hi : Option Nat) :
    ∀ (run tail : List Char) (fuel count : Nat) (last : Option Nat) (prev : Option Char) (pos : Nat) (caps : List (Nat × Nat × Nat)),
      (∀ c ∈ run, cs.mem c = true) →
      (hi = some (count + run.length) ∨ StopAt cs tail) →
      lo ≤ count + run.length → (∀ h, hi = some h → count + run.length ≤ h) → run.length < fuel →
      (∀ l, last = some l → l < pos) →
      (repAll (Rx.chr cs).all lo hi fuel count last ⟨prev, run ++ tail, pos, caps⟩).head? =
        some ⟨lastOr prev run, tail, pos + run.length, caps⟩ := by
  intro run
  induction run with
  | nil =>
    intro tail fuel count last prev pos caps _ hstop hlo _ hfuel _
    obtain ⟨f, rfl⟩ : ∃ f, fuel = f + 1 := ⟨fuel - 1, by omega⟩
    have h1 : ¬ count < lo := by simp only [List.length_nil, Nat.add_zero] at hlo; omega
    rw [repAll]
    simp only [h1, if_false, List.nil_append, lastOr, List.length_nil, Nat.add_zero]
    rcases hstop with h | h
    · simp only [List.length_nil, Nat.add_zero] at h
      simp [h, canMore]
    · have hb : (Rx.chr cs).all ⟨prev, tail, pos, caps⟩ = [] := by
        simp only [Rx.all]
        cases tail with
        | nil => rfl
        | cons c t =>
          have := h c rfl
          simp [this]
      split
      · simp [hb]
      · rfl
  | cons c run ih =>
    intro tail fuel count last prev pos caps hall hstop hlo hhi hfuel hlast
    obtain ⟨f, rfl⟩ : ∃ f, fuel = f + 1 := ⟨fuel - 1, by omega⟩
    have hc : cs.mem c = true := hall c (by simp)
    have hb : (Rx.chr cs).all ⟨prev, (c :: run) ++ tail, pos, caps⟩ = [⟨some c, run ++ tail, pos + 1, caps⟩] := by
      simp [Rx.all, hc]
    have hlen : count + (c :: run).length = (count + 1) + run.length := by simp only [List.length_cons]; omega
    have hpos : pos + (c :: run).length = (pos + 1) + run.length := by simp only [List.length_cons]; omega
    rw [hlen] at hstop hlo hhi
    rw [hpos]
    rw [repAll]
    by_cases h1 : count < lo
    · simp only [h1, if_true, hb, List.flatMap_cons, List.flatMap_nil, List.append_nil]
      exact ih tail f (count + 1) last (some c) (pos + 1) caps (fun x hx => hall x (by simp [hx])) hstop hlo hhi
        (by simp only [List.length_cons] at hfuel; omega) (fun l hl => by have := hlast l hl; omega)
    · have hcm : canMore hi count = true := by
        cases hi with
        | none => rfl
        | some h => have := hhi h rfl; simp only [canMore, decide_eq_true_eq]; omega
      have hl : (last != some pos) = true := by
        cases last with
        | none => rfl
        | some l => have := hlast l rfl; simp only [bne_iff_ne, ne_eq, Option.some.injEq]; omega
      simp only [h1, if_false, hcm, hl, Bool.and_self, if_true, hb, List.flatMap_cons, List.flatMap_nil, List.append_nil]
      have := ih tail f (count + 1) (some pos) (some c) (pos + 1) caps (fun x hx => hall x (by simp [hx])) hstop hlo hhi
        (by simp only [List.length_cons] at hfuel; omega) (fun l hl => by cases hl; omega)
      rw [List.head?_append, this]
      rfl

/-- `[class]{lo,hi}` on a maximal run of the class: the first path takes the whole run -/
theorem Leads.run (cs : CharSet) (lo : Nat) (hi : Option Nat) (run tail : List Char) (prev : Option Char) (pos : Nat)
    (caps : List (Nat × Nat × Nat)) (hall : ∀ c ∈ run, cs.mem c = true) (hstop : hi = some run.length ∨ StopAt cs tail)
    (hlo : lo ≤ run.length) (hhi : ∀ h, hi = some h → run.length ≤ h) :
    Leads (.rep (.chr cs) lo hi) ⟨prev, run ++ tail, pos, caps⟩ ⟨lastOr prev run, tail, pos + run.length, caps⟩ := by
  unfold Leads
  simp only [Rx.all]
  exact repAll_chr_run cs lo hi run tail _ 0 none prev pos caps hall (by simpa using hstop) (by simpa using hlo)
    (by simpa using hhi) (by simp only [List.length_append]; omega) (fun l hl => by cases hl)

theorem Leads.chr (cs : CharSet) (c : Char) (tail : List Char) (prev : Option Char) (pos : Nat)
    (caps : List (Nat × Nat × Nat)) (hc : cs.mem c = true) :
    Leads (.chr cs) ⟨prev, c :: tail, pos, caps⟩ ⟨some c, tail, pos + 1, caps⟩ := by
  unfold Leads; simp [Rx.all, hc]

theorem Fails.chr (cs : CharSet) (s : St) (h : StopAt cs s.rest) : Fails (.chr cs) s := by
  unfold Fails
  simp only [Rx.all]
  cases hr : s.rest with
  | nil => rfl
  | cons c t =>
    have := h c (by rw [hr]; rfl)
    simp [this]

/-! ### `Eats`: leading across a segment of the text, whatever precedes it -/

abbrev Caps := List (Nat × Nat × Nat)

/-- from any state whose remaining text is `seg ++ tail`, the first path of `r` consumes exactly `seg`,
    and turns the capture list `caps` into `f pos caps` -/
def Eats (r : Rx) (seg tail : List Char) (f : Nat → Caps → Caps) : Prop :=
  ∀ (prev : Option Char) (pos : Nat) (caps : Caps),
    Leads r ⟨prev, seg ++ tail, pos, caps⟩ ⟨lastOr prev seg, tail, pos + seg.length, f pos caps⟩

/-- `r` has no path from any state whose remaining text is `tail` -/
def FailsOn (r : Rx) (tail : List Char) : Prop := ∀ (prev : Option Char) (pos : Nat) (caps : Caps), Fails r ⟨prev, tail, pos, caps⟩

theorem Eats.seq {a b : Rx} {s1 s2 tail : List Char} {f1 f2 : Nat → Caps → Caps}
    (h1 : Eats a s1 (s2 ++ tail) f1) (h2 : Eats b s2 tail f2) :
    Eats (.seq a b) (s1 ++ s2) tail (fun pos caps => f2 (pos + s1.length) (f1 pos caps)) := by
  intro prev pos caps
  have e1 := h1 prev pos caps
  have e2 := h2 (lastOr prev s1) (pos + s1.length) (f1 pos caps)
  have := Leads.seq e1 e2
  rw [List.append_assoc, lastOr_append, List.length_append, ← Nat.add_assoc]
  exact this

theorem Eats.alt_l {a b : Rx} {seg tail : List Char} {f : Nat → Caps → Caps} (h : Eats a seg tail f) :
    Eats (.alt a b) seg tail f := fun prev pos caps => Leads.alt_l (h prev pos caps)

theorem Eats.alt_r {a b : Rx} {seg tail : List Char} {f : Nat → Caps → Caps} (hf : FailsOn a (seg ++ tail))
    (h : Eats b seg tail f) : Eats (.alt a b) seg tail f :=
  fun prev pos caps => Leads.alt_r (hf prev pos caps) (h prev pos caps)

theorem Eats.grp {r : Rx} {seg tail : List Char} {f : Nat → Caps → Caps} (i : Nat) (h : Eats r seg tail f) :
    Eats (.grp i r) seg tail (fun pos caps => (i, pos, pos + seg.length) :: f pos caps) :=
  fun prev pos caps => Leads.grp i (h prev pos caps)

theorem Eats.opt_some {r : Rx} {seg tail : List Char} {f : Nat → Caps → Caps} (h : Eats r seg tail f) :
    Eats (.rep r 0 (some 1)) seg tail f := fun prev pos caps => Leads.opt_some (h prev pos caps)

theorem Eats.opt_none {r : Rx} {tail : List Char} (h : FailsOn r tail) :
    Eats (.rep r 0 (some 1)) [] tail (fun _ caps => caps) := by
  intro prev pos caps
  exact Leads.opt_none (h prev pos caps)

theorem Eats.run (cs : CharSet) (lo : Nat) (hi : Option Nat) (run tail : List Char)
    (hall : ∀ c ∈ run, cs.mem c = true) (hstop : hi = some run.length ∨ StopAt cs tail)
    (hlo : lo ≤ run.length) (hhi : ∀ h, hi = some h → run.length ≤ h) :
    Eats (.rep (.chr cs) lo hi) run tail (fun _ caps => caps) :=
  fun prev pos caps => Leads.run cs lo hi run tail prev pos caps hall hstop hlo hhi

theorem Eats.chr (cs : CharSet) (c : Char) (tail : List Char) (hc : cs.mem c = true) :
    Eats (.chr cs) [c] tail (fun _ caps => caps) :=
  fun prev pos caps => Leads.chr cs c tail prev pos caps hc

/-- change the presentation of the segment / capture function -/
theorem Eats.cast {r : Rx} {seg seg' tail : List Char} {f f' : Nat → Caps → Caps} (h : Eats r seg tail f)
    (hs : seg = seg') (hf : ∀ pos caps, f pos caps = f' pos caps) : Eats r seg' tail f' := by
  subst hs
  intro prev pos caps
  rw [← hf]
  exact h prev pos caps

theorem FailsOn.chr (cs : CharSet) (tail : List Char) (h : StopAt cs tail) : FailsOn (.chr cs) tail :=
  fun _ _ _ => Fails.chr cs _ h

theorem FailsOn.seq_l {a b : Rx} {tail : List Char} (h : FailsOn a tail) : FailsOn (.seq a b) tail :=
  fun prev pos caps => Fails.seq_l (h prev pos caps)

theorem FailsOn.alt {a b : Rx} {tail : List Char} (h1 : FailsOn a tail) (h2 : FailsOn b tail) : FailsOn (.alt a b) tail :=
  fun prev pos caps => Fails.alt (h1 prev pos caps) (h2 prev pos caps)

theorem FailsOn.grp {r : Rx} {tail : List Char} (i : Nat) (h : FailsOn r tail) : FailsOn (.grp i r) tail :=
  fun prev pos caps => Fails.grp i (h prev pos caps)

/-! ### the footprint of a pattern: what any path consumes -/

/-- may match the empty string (over-approximation; look-arounds count as nullable) -/
def Rx.nullable : Rx → Bool
  | .eps => true
  | .fail => false
  | .chr _ => false
  | .seq a b => a.nullable && b.nullable
  | .alt a b => a.nullable || b.nullable
  | .rep r lo _ => lo == 0 || r.nullable
  | .grp _ r => r.nullable
  | .ahead _ | .nahead _ | .behind _ | .wordb _ | .eos | .bos => true

/-- the classes that can consume the FIRST character of a match (over-approximation) -/
def Rx.firstSets : Rx → List CharSet
  | .chr cs => [cs]
  | .seq a b => a.firstSets ++ (if a.nullable then b.firstSets else [])
  | .alt a b => a.firstSets ++ b.firstSets
  | .rep r _ _ | .grp _ r => r.firstSets
  | .eps | .fail | .ahead _ | .nahead _ | .behind _ | .wordb _ | .eos | .bos => []

/-- the classes that can consume a character at all (look-arounds consume nothing) -/
def Rx.chrSets : Rx → List CharSet
  | .chr cs => [cs]
  | .seq a b | .alt a b => a.chrSets ++ b.chrSets
  | .rep r _ _ | .grp _ r => r.chrSets
  | .eps | .fail | .ahead _ | .nahead _ | .behind _ | .wordb _ | .eos | .bos => []

/-- every path consumes at least one character from a class satisfying `P` -/
def Rx.mustHitP (P : CharSet → Bool) : Rx → Bool
  | .chr cs => P cs
  | .seq a b => a.mustHitP P || b.mustHitP P
  | .alt a b => a.mustHitP P && b.mustHitP P
  | .rep r lo _ => decide (1 ≤ lo) && r.mustHitP P
  | .grp _ r => r.mustHitP P
  | .eps | .fail | .ahead _ | .nahead _ | .behind _ | .wordb _ | .eos | .bos => false

/-- `s'` is reached from `s` by consuming `seg`, and `seg` has the footprint of `r` -/
def Foot (r : Rx) (P : CharSet → Bool) (s s' : St) : Prop :=
  ∃ seg : List Char, s.rest = seg ++ s'.rest ∧
    (∀ c ∈ seg, ∃ cs ∈ r.chrSets, cs.mem c = true) ∧
    (r.mustHitP P = true → ∃ c ∈ seg, ∃ cs, P cs = true ∧ cs.mem c = true) ∧
    (seg = [] → r.nullable = true) ∧
    (∀ c t, seg = c :: t → ∃ cs ∈ r.firstSets, cs.mem c = true)

/-- the loop invariant for `repAll` -/
def FootLoop (r : Rx) (lo count : Nat) (P : CharSet → Bool) (s s' : St) : Prop :=
  ∃ seg : List Char, s.rest = seg ++ s'.rest ∧
    (∀ c ∈ seg, ∃ cs ∈ r.chrSets, cs.mem c = true) ∧
    (count < lo → r.mustHitP P = true → ∃ c ∈ seg, ∃ cs, P cs = true ∧ cs.mem c = true) ∧
    (seg = [] → count < lo → r.nullable = true) ∧
    (∀ c t, seg = c :: t → ∃ cs ∈ r.firstSets, cs.mem c = true)

theorem FootLoop.refl (r : Rx) (lo count : Nat) (P : CharSet → Bool) (s : St) (h : ¬ count < lo) : FootLoop r lo count P s s :=
  ⟨[], rfl, fun _ hc => (by cases hc), fun h' => absurd h' h, fun _ h' => absurd h' h, fun _ _ hc => (by cases hc)⟩

theorem FootLoop.step {r : Rx} {lo count : Nat} {P : CharSet → Bool} {s s1 s' : St}
    (h1 : Foot r P s s1) (h2 : FootLoop r lo (count + 1) P s1 s') : FootLoop r lo count P s s' := by
  obtain ⟨g1, e1, c1, m1, n1, f1⟩ := h1
  obtain ⟨g2, e2, c2, m2, n2, f2⟩ := h2
  refine ⟨g1 ++ g2, by rw [e1, e2, List.append_assoc], ?_, ?_, ?_, ?_⟩
  · intro c hc
    rcases List.mem_append.1 hc with h | h
    · exact c1 c h
    · exact c2 c h
  · intro _ hm
    obtain ⟨c, hc, hx⟩ := m1 hm
    exact ⟨c, List.mem_append_left _ hc, hx⟩
  · intro hnil _
    exact n1 (List.append_eq_nil_iff.1 hnil).1
  · intro c t hseg
    cases g1 with
    | nil => exact f2 c t (by simpa using hseg)
    | cons d u =>
      simp only [List.cons_append, List.cons.injEq] at hseg
      obtain ⟨rfl, _⟩ := hseg
      exact f1 d u rfl

theorem repAll_foot (r : Rx) (P : CharSet → Bool) (hb : ∀ s s', s' ∈ r.all s → Foot r P s s') (lo : Nat) (hi : Option Nat) :
    ∀ (fuel count : Nat) (last : Option Nat) (s s' : St),
      s' ∈ repAll r.all lo hi fuel count last s → FootLoop r lo count P s s' := by
  intro fuel
  induction fuel with
  | zero => intro count last s s' h; simp [repAll] at h
  | succ n ih =>
    intro count last s s' h
    rw [repAll] at h
    by_cases h1 : count < lo
    · simp only [h1, if_true, List.mem_flatMap] at h
      obtain ⟨s1, hs1, hs'⟩ := h
      exact FootLoop.step (hb s s1 hs1) (ih _ _ s1 s' hs')
    · simp only [h1, if_false] at h
      split at h
      · rcases List.mem_append.1 h with h | h
        · simp only [List.mem_flatMap] at h
          obtain ⟨s1, hs1, hs'⟩ := h
          have := FootLoop.step (count := count) (hb s s1 hs1) (ih _ _ s1 s' hs')
          exact this
        · simp only [List.mem_singleton] at h
          subst h
          exact FootLoop.refl r lo count P s' h1
      · simp only [List.mem_singleton] at h
        subst h
        exact FootLoop.refl r lo count P s' h1

theorem Foot.same {r : Rx} {P : CharSet → Bool} {s s' : St} (h : s.rest = s'.rest) (hm : r.mustHitP P = false)
    (hn : r.nullable = true) : Foot r P s s' :=
  ⟨[], (by simpa using h), fun _ hc => (by cases hc), fun h' => (by rw [hm] at h'; cases h'), fun _ => hn, fun _ _ hc => (by cases hc)⟩

/-- the footprint theorem -/
theorem Rx.all_foot (P : CharSet → Bool) (r : Rx) : ∀ (s s' : St), s' ∈ r.all s → Foot r P s s' := by
  induction r with
  | eps =>
    intro s s' h
    simp only [Rx.all, List.mem_singleton] at h
    subst h
    exact Foot.same rfl rfl rfl
  | fail => intro s s' h; simp [Rx.all] at h
  | chr cs =>
    intro s s' h
    simp only [Rx.all] at h
    cases hr : s.rest with
    | nil => rw [hr] at h; simp at h
    | cons c t =>
      rw [hr] at h
      simp only [] at h
      by_cases hc : cs.mem c = true
      · simp only [hc, if_true, List.mem_singleton] at h
        subst h
        refine ⟨[c], hr, ?_, ?_, ?_, ?_⟩
        · intro x hx
          simp only [List.mem_singleton] at hx
          subst hx
          exact ⟨cs, by simp [Rx.chrSets], hc⟩
        · intro hm
          exact ⟨c, by simp, cs, hm, hc⟩
        · intro hnil; cases hnil
        · intro x t' hx
          simp only [List.cons.injEq] at hx
          obtain ⟨rfl, _⟩ := hx
          exact ⟨cs, by simp [Rx.firstSets], hc⟩
      · simp [hc] at h
  | seq a b iha ihb =>
    intro s s' h
    simp only [Rx.all, List.mem_flatMap] at h
    obtain ⟨s1, hs1, hs'⟩ := h
    obtain ⟨g1, e1, c1, m1, n1, f1⟩ := iha s s1 hs1
    obtain ⟨g2, e2, c2, m2, n2, f2⟩ := ihb s1 s' hs'
    refine ⟨g1 ++ g2, by rw [e1, e2, List.append_assoc], ?_, ?_, ?_, ?_⟩
    · intro c hc
      rcases List.mem_append.1 hc with h | h
      · obtain ⟨cs, hcs, hm⟩ := c1 c h
        exact ⟨cs, by simp [Rx.chrSets, hcs], hm⟩
      · obtain ⟨cs, hcs, hm⟩ := c2 c h
        exact ⟨cs, by simp [Rx.chrSets, hcs], hm⟩
    · intro hm
      simp only [Rx.mustHitP, Bool.or_eq_true] at hm
      rcases hm with hm | hm
      · obtain ⟨c, hc, hx⟩ := m1 hm
        exact ⟨c, List.mem_append_left _ hc, hx⟩
      · obtain ⟨c, hc, hx⟩ := m2 hm
        exact ⟨c, List.mem_append_right _ hc, hx⟩
    · intro hnil
      have := List.append_eq_nil_iff.1 hnil
      simp only [Rx.nullable, n1 this.1, n2 this.2, Bool.and_self]
    · intro c t hseg
      cases g1 with
      | nil =>
        obtain ⟨cs, hcs, hm⟩ := f2 c t (by simpa using hseg)
        exact ⟨cs, by simp [Rx.firstSets, n1 rfl, hcs], hm⟩
      | cons d u =>
        simp only [List.cons_append, List.cons.injEq] at hseg
        obtain ⟨rfl, _⟩ := hseg
        obtain ⟨cs, hcs, hm⟩ := f1 d u rfl
        exact ⟨cs, by simp [Rx.firstSets, hcs], hm⟩
  | alt a b iha ihb =>
    intro s s' h
    simp only [Rx.all, List.mem_append] at h
    rcases h with h | h
    · obtain ⟨g, e, c1, m1, n1, f1⟩ := iha s s' h
      refine ⟨g, e, ?_, ?_, ?_, ?_⟩
      · intro c hc
        obtain ⟨cs, hcs, hm⟩ := c1 c hc
        exact ⟨cs, by simp [Rx.chrSets, hcs], hm⟩
      · intro hm
        simp only [Rx.mustHitP, Bool.and_eq_true] at hm
        exact m1 hm.1
      · intro hnil
        simp only [Rx.nullable, n1 hnil, Bool.true_or]
      · intro c t hseg
        obtain ⟨cs, hcs, hm⟩ := f1 c t hseg
        exact ⟨cs, by simp [Rx.firstSets, hcs], hm⟩
    · obtain ⟨g, e, c1, m1, n1, f1⟩ := ihb s s' h
      refine ⟨g, e, ?_, ?_, ?_, ?_⟩
      · intro c hc
        obtain ⟨cs, hcs, hm⟩ := c1 c hc
        exact ⟨cs, by simp [Rx.chrSets, hcs], hm⟩
      · intro hm
        simp only [Rx.mustHitP, Bool.and_eq_true] at hm
        exact m1 hm.2
      · intro hnil
        simp only [Rx.nullable, n1 hnil, Bool.or_true]
      · intro c t hseg
        obtain ⟨cs, hcs, hm⟩ := f1 c t hseg
        exact ⟨cs, by simp [Rx.firstSets, hcs], hm⟩
  | rep r lo hi ih =>
    intro s s' h
    simp only [Rx.all] at h
    obtain ⟨g, e, c1, m1, n1, f1⟩ := repAll_foot r P ih lo hi _ 0 none s s' h
    refine ⟨g, e, c1, ?_, ?_, f1⟩
    · intro hm
      simp only [Rx.mustHitP, Bool.and_eq_true, decide_eq_true_eq] at hm
      exact m1 (by omega) hm.2
    · intro hnil
      simp only [Rx.nullable, Bool.or_eq_true, beq_iff_eq]
      by_cases hlo : lo = 0
      · exact Or.inl hlo
      · exact Or.inr (n1 hnil (by omega))
  | grp i r ih =>
    intro s s' h
    simp only [Rx.all, List.mem_map] at h
    obtain ⟨s1, hs1, rfl⟩ := h
    exact ih s s1 hs1
  | ahead r ih =>
    intro s s' h
    simp only [Rx.all] at h
    split at h
    · simp only [List.mem_singleton] at h
      subst h
      exact Foot.same rfl rfl rfl
    · simp at h
  | nahead r ih =>
    intro s s' h
    simp only [Rx.all] at h
    split at h
    · simp at h
    · simp only [List.mem_singleton] at h
      subst h
      exact Foot.same rfl rfl rfl
  | behind cs =>
    intro s s' h
    simp only [Rx.all] at h
    split at h
    · split at h
      · simp only [List.mem_singleton] at h
        subst h
        exact Foot.same rfl rfl rfl
      · simp at h
    · simp at h
  | wordb w =>
    intro s s' h
    simp only [Rx.all] at h
    split at h
    · simp only [List.mem_singleton] at h
      subst h
      exact Foot.same rfl rfl rfl
    · simp at h
  | eos =>
    intro s s' h
    simp only [Rx.all] at h
    split at h
    · simp only [List.mem_singleton] at h
      subst h
      exact Foot.same rfl rfl rfl
    · split at h
      · simp only [List.mem_singleton] at h
        subst h
        exact Foot.same rfl rfl rfl
      · simp at h
    · simp at h
  | bos =>
    intro s s' h
    simp only [Rx.all] at h
    split at h
    · simp only [List.mem_singleton] at h
      subst h
      exact Foot.same rfl rfl rfl
    · simp at h

/-! ### consequences of the footprint theorem -/

/-- no character of the remaining text belongs to a class the pattern cannot avoid: no path -/
theorem Fails.of_noHit {r : Rx} {P : CharSet → Bool} {s : St} (hm : r.mustHitP P = true)
    (hno : ∀ c ∈ s.rest, ∀ cs, P cs = true → cs.mem c = false) : Fails r s := by
  unfold Fails
  rw [List.eq_nil_iff_forall_not_mem]
  intro s' hs'
  obtain ⟨seg, e, _, m1, _, _⟩ := Rx.all_foot P r s s' hs'
  obtain ⟨c, hc, cs, hP, hmem⟩ := m1 hm
  have := hno c (by rw [e]; exact List.mem_append_left _ hc) cs hP
  rw [this] at hmem
  cases hmem

/-- the pattern is not nullable and the next character (if any) is in none of its first-sets: no path -/
theorem FailsOn.of_first {r : Rx} {tail : List Char} (hn : r.nullable = false)
    (hf : ∀ c, tail.head? = some c → ∀ cs ∈ r.firstSets, cs.mem c = false) : FailsOn r tail := by
  intro prev pos caps
  unfold Fails
  rw [List.eq_nil_iff_forall_not_mem]
  intro s' hs'
  obtain ⟨seg, e, _, _, n1, f1⟩ := Rx.all_foot (fun _ => false) r _ s' hs'
  cases seg with
  | nil => rw [n1 rfl] at hn; cases hn
  | cons c t =>
    obtain ⟨cs, hcs, hmem⟩ := f1 c t rfl
    simp only [List.cons_append] at e
    have := hf c (by rw [e]; rfl) cs hcs
    rw [this] at hmem
    cases hmem

theorem scan_none_of_noHit {r : Rx} {P : CharSet → Bool} (hm : r.mustHitP P = true) :
    ∀ (rest : List Char) (prev : Option Char) (pos : Nat) (adv : Bool),
      (∀ c ∈ rest, ∀ cs, P cs = true → cs.mem c = false) → scan r prev rest pos adv = none := by
  intro rest
  induction rest with
  | nil =>
    intro prev pos adv hno
    rw [scan, matchHere_of_fails adv (Fails.of_noHit (s := ⟨prev, [], pos, []⟩) hm hno)]
  | cons c t ih =>
    intro prev pos adv hno
    rw [scan, matchHere_of_fails adv (Fails.of_noHit (s := ⟨prev, c :: t, pos, []⟩) hm hno)]
    exact ih (some c) (pos + 1) false (fun x hx => hno x (by simp [hx]))

/-- a text without any character of an unavoidable class has no match at all -/
theorem finditer_nil_of_noHit {r : Rx} {P : CharSet → Bool} (hm : r.mustHitP P = true) (text : List Char)
    (hno : ∀ c ∈ text, ∀ cs, P cs = true → cs.mem c = false) : r.finditer text = [] := by
  rw [finditer_default]
  exact finditerAux_none r _ none text 0 false (scan_none_of_noHit hm text none 0 false hno)

theorem sub_id_of_noHit {r : Rx} {P : CharSet → Bool} (hm : r.mustHitP P = true) (repl text : List Char)
    (hno : ∀ c ∈ text, ∀ cs, P cs = true → cs.mem c = false) : r.sub repl text = text := by
  unfold Rx.sub Rx.subWith
  simp only [finditer_nil_of_noHit hm text hno, Rx.subWith.go, List.nil_append, List.drop_zero]

/-- exactly one match: it is found at the cursor, and what follows it contains no character of an unavoidable class -/
theorem finditer_single {r : Rx} {P : CharSet → Bool} (hm : r.mustHitP P = true) (text : List Char) (m : Match)
    (h0 : matchHere r ⟨none, text, 0, []⟩ false = some m) (hne : m.stop ≠ m.start)
    (hno : ∀ c ∈ text.drop m.stop, ∀ cs, P cs = true → cs.mem c = false) : r.finditer text = [m] := by
  rw [finditer_default]
  have hs : scan r none text 0 false = some m := by
    cases text <;> simp [scan, h0]
  have h2 : 2 * text.length + 2 = (2 * text.length + 0 + 1) + 1 := by omega
  rw [h2]
  obtain ⟨p', hp'⟩ := finditerAux_some r (2 * text.length + 0 + 1) none text 0 false m hs
  rw [hp', Nat.sub_zero]
  rw [finditerAux_none r _ p' _ m.stop _ (scan_none_of_noHit hm _ p' m.stop _ hno)]

/-! ### character classes: decidable inclusion / disjointness of range lists -/

def CharSet.disj (a b : CharSet) : Bool := a.all (fun r => b.all (fun q => decide (r.2 < q.1) || decide (q.2 < r.1)))
def CharSet.sub (a b : CharSet) : Bool := a.all (fun r => b.any (fun q => decide (q.1 ≤ r.1) && decide (r.2 ≤ q.2)))

theorem CharSet.disj_mem {a b : CharSet} (h : a.disj b = true) {c : Char} (ha : a.mem c = true) : b.mem c = false := by
  cases hb : b.mem c with
  | false => rfl
  | true =>
    simp only [CharSet.mem, List.any_eq_true, Bool.and_eq_true, decide_eq_true_eq] at ha hb
    obtain ⟨r, hr, hr1, hr2⟩ := ha
    obtain ⟨q, hq, hq1, hq2⟩ := hb
    simp only [CharSet.disj, List.all_eq_true, Bool.or_eq_true, decide_eq_true_eq] at h
    have := h r hr q hq
    omega

theorem CharSet.sub_mem {a b : CharSet} (h : a.sub b = true) {c : Char} (ha : a.mem c = true) : b.mem c = true := by
  simp only [CharSet.mem, List.any_eq_true, Bool.and_eq_true, decide_eq_true_eq] at ha ⊢
  obtain ⟨r, hr, hr1, hr2⟩ := ha
  simp only [CharSet.sub, List.all_eq_true, List.any_eq_true, Bool.and_eq_true, decide_eq_true_eq] at h
  obtain ⟨q, hq, hq1, hq2⟩ := h r hr
  exact ⟨q, hq, by omega, by omega⟩

/-- the ten ASCII digits -/
def asciiDigits : CharSet := [(48, 57)]
/-- the ASCII digits other than `2` -/
def asciiNot2 : CharSet := [(48, 49), (51, 57)]

theorem isDigit_iff_mem (c : Char) : c.isDigit = true ↔ asciiDigits.mem c = true := by
  simp only [Char.isDigit, Bool.and_eq_true, decide_eq_true_eq, ge_iff_le, UInt32.le_iff_toNat_le, asciiDigits, CharSet.mem,
    List.any_cons, List.any_nil, Bool.or_false]
  exact Iff.rfl

theorem digit_cases (c : Char) (h : asciiDigits.mem c = true) : c = '2' ∨ asciiNot2.mem c = true := by
  simp only [asciiDigits, asciiNot2, CharSet.mem, List.any_cons, List.any_nil, Bool.or_false, Bool.and_eq_true,
    decide_eq_true_eq, Bool.or_eq_true] at h ⊢
  by_cases h2 : c.toNat = 50
  · left
    have : c = Char.ofNat c.toNat := (Char.ofNat_toNat c).symm
    rw [this, h2]
  · right; omega

theorem StopAt.of_forall {cs : CharSet} {tail : List Char} (h : ∀ c ∈ tail, cs.mem c = false) : StopAt cs tail := by
  intro c hc
  cases tail with
  | nil => cases hc
  | cons d t => simp only [List.head?_cons, Option.some.injEq] at hc; subst hc; exact h d (by simp)

theorem StopAt.nil (cs : CharSet) : StopAt cs [] := fun _ h => by cases h

theorem StopAt.cons {cs : CharSet} {c : Char} {t : List Char} (h : cs.mem c = false) : StopAt cs (c :: t) := by
  intro d hd; simp only [List.head?_cons, Option.some.injEq] at hd; subst hd; exact h

/-- the head of `a ++ b` is an element of `a`, or the head of `b` -/
theorem StopAt.append {cs : CharSet} {a b : List Char} (ha : ∀ c ∈ a, cs.mem c = false) (hb : StopAt cs b) : StopAt cs (a ++ b) := by
  cases a with
  | nil => exact hb
  | cons d t => exact StopAt.cons (ha d (by simp))

/-! ### generic component lemmas -/

/-- a "word": one character of class `c0` followed by at most `hi` characters of class `cs` -/
structure IsWordOf (c0 cs : CharSet) (hi : Nat) (w : List Char) : Prop where
  ne : w ≠ []
  head : ∀ c ∈ w.head?, c0.mem c = true
  tail : ∀ c ∈ w.tail, cs.mem c = true
  len : w.tail.length ≤ hi

theorem eats_word {c0 cs : CharSet} {hi : Nat} {w tail : List Char} (hw : IsWordOf c0 cs hi w)
    (hstop : w.tail.length = hi ∨ StopAt cs tail) :
    Eats (.seq (.chr c0) (.rep (.chr cs) 0 (some hi))) w tail (fun _ caps => caps) := by
  obtain ⟨hne, hh, ht, hl⟩ := hw
  cases w with
  | nil => exact absurd rfl hne
  | cons c run =>
    have h1 := Eats.chr c0 c (run ++ tail) (hh c (by simp))
    have h2 := Eats.run cs 0 (some hi) run tail ht (by
      rcases hstop with h | h
      · left; simp only [List.tail_cons] at h; rw [h]
      · right; exact h) (Nat.zero_le _) (fun h hh' => by cases hh'; exact hl)
    exact (Eats.seq h1 h2).cast rfl (fun _ _ => rfl)

/-- `[class]{2,..}` cannot match when only one character of the class is available -/
theorem failsOn_rep2 (cs : CharSet) (hi : Option Nat) (c : Char) (tail : List Char) (hc : cs.mem c = true) (hstop : StopAt cs tail) :
    FailsOn (.rep (.chr cs) 2 hi) (c :: tail) := by
  intro prev pos caps
  unfold Fails
  show repAll (Rx.chr cs).all 2 hi ((c :: tail).length + 2 + 2) 0 none ⟨prev, c :: tail, pos, caps⟩ = []
  have hf : (c :: tail).length + 2 + 2 = (tail.length + 3) + 1 + 1 := by simp only [List.length_cons]
  have hb1 : (Rx.chr cs).all ⟨prev, c :: tail, pos, caps⟩ = [⟨some c, tail, pos + 1, caps⟩] := by simp [Rx.all, hc]
  have hb : (Rx.chr cs).all ⟨some c, tail, pos + 1, caps⟩ = [] := Fails.chr cs _ hstop
  rw [hf, repAll]
  simp only [Nat.zero_lt_succ, if_true, hb1, List.flatMap_cons, List.flatMap_nil, List.append_nil]
  rw [repAll]
  simp only [Nat.zero_add, Nat.lt_add_one, if_true, hb, List.flatMap_nil]

/-- if `seg` avoids `c` (all its characters satisfy `Q`, `c` does not), a decomposition `seg ++ x = pre ++ c :: y` puts `seg` inside `pre` -/
theorem prefix_of_avoid {Q : Char → Prop} : ∀ (seg x pre : List Char) (c : Char) (y : List Char),
    seg ++ x = pre ++ c :: y → (∀ a ∈ seg, Q a) → ¬ Q c → ∃ mid, pre = seg ++ mid ∧ x = mid ++ c :: y := by
  intro seg
  induction seg with
  | nil => intro x pre c y h _ _; exact ⟨pre, rfl, by simpa using h⟩
  | cons a seg ih =>
    intro x pre c y h hall hc
    cases pre with
    | nil =>
      simp only [List.cons_append, List.nil_append, List.cons.injEq] at h
      exact absurd (h.1 ▸ hall a (by simp)) hc
    | cons b pre =>
      simp only [List.cons_append, List.cons.injEq] at h
      obtain ⟨rfl, h⟩ := h
      obtain ⟨mid, e1, e2⟩ := ih x pre c y h (fun z hz => hall z (by simp [hz])) hc
      exact ⟨mid, by rw [e1]; rfl, e2⟩

/-! ## Part B — the regenerated `twprge_regex`

The components of the pattern (checked against the regenerated term by `rfl`). -/

/-- `((?<=[,;:])|(?<=\b))` -/
def twG1 : Rx := .grp 1 (.alt (.behind Gen.cs_e9c838bb) (.wordb Gen.cs_14d6aa8a))
/-- `((T[ownship]{0,9})[\.\-–—,\s]*)?` -/
def twT : Rx := .rep (.grp 2 (.seq (.grp 3 (.seq (.chr Gen.cs_93b62202) (.rep (.chr Gen.cs_cbadb66d) 0 (some 9)))) (.rep (.chr Gen.cs_6862e64c) 0 none))) 0 (some 1)
/-- `(?P<twpnum>\d{1,3})` -/
def twN : Rx := .grp 4 (.rep (.chr Gen.cs_940665b9) 1 (some 3))
/-- `[\.\-–—,\s]*` -/
def twD : Rx := .rep (.chr Gen.cs_6862e64c) 0 none
/-- `(?P<ns>N[orth]{0,5}|S[outh]{0,5})` -/
def twNS : Rx := .grp 5 (.alt (.seq (.chr Gen.cs_38ea6e46) (.rep (.chr Gen.cs_69521832) 0 (some 5))) (.seq (.chr Gen.cs_faf00333) (.rep (.chr Gen.cs_0c0f8a50) 0 (some 5))))
/-- `[\.\-–—,;\|_~\s]*` -/
def twD3 : Rx := .rep (.chr Gen.cs_f3df237d) 0 none
/-- the optional word "Range" with its dead space -/
def twR8 : Rx := .rep (.grp 8 (.seq (.grp 9 (.seq (.chr Gen.cs_ecd0074f) (.rep (.chr Gen.cs_25709165) 0 (some 6)))) (.rep (.chr Gen.cs_6862e64c) 0 none))) 0 (some 1)
/-- `(?P<rgenum>\d{2,3}|[013-9])` -/
def twR10 : Rx := .grp 10 (.alt (.rep (.chr Gen.cs_940665b9) 2 (some 3)) (.chr Gen.cs_7ad5890e))
/-- range version 2: `(R[ange]{0,6})[\.\-–—,\s]*(?P<rgenum_edgecase_rge2>2)` -/
def twR11 : Rx := .grp 11 (.seq (.grp 12 (.seq (.chr Gen.cs_ecd0074f) (.rep (.chr Gen.cs_25709165) 0 (some 6)))) (.seq (.rep (.chr Gen.cs_6862e64c) 0 none) (.grp 13 (.chr Gen.cs_11a482f9))))
def twRG : Rx := .grp 6 (.alt (.grp 7 (.seq twR8 twR10)) twR11)
/-- `(?P<ew>W[est]{0,3}|E[ast]{0,3})` -/
def twEW : Rx := .grp 14 (.alt (.seq (.chr Gen.cs_ae876102) (.rep (.chr Gen.cs_ae3e3c7d) 0 (some 3))) (.seq (.chr Gen.cs_5f20f5ed) (.rep (.chr Gen.cs_68819f8e) 0 (some 3))))

/-- everything after the look-behind -/
def twBody : Rx := .seq twT (.seq twN (.seq twD (.seq twNS (.seq twD3 (.seq twRG (.seq twD twEW))))))

theorem twprge_decomp : Gen.twprge_regex = .seq twG1 twBody := rfl

/-! facts about the regenerated character classes, all decided by evaluation -/

theorem cs_digit_facts :
    asciiDigits.sub Gen.cs_940665b9 = true ∧ asciiDigits.sub Gen.cs_14d6aa8a = true ∧ asciiDigits.disj Gen.cs_cbadb66d = true ∧
    asciiDigits.disj Gen.cs_6862e64c = true ∧ asciiDigits.disj Gen.cs_93b62202 = true ∧ asciiDigits.disj Gen.cs_f3df237d = true ∧
    asciiDigits.disj Gen.cs_ecd0074f = true ∧ asciiDigits.disj Gen.cs_25709165 = true ∧ asciiNot2.sub Gen.cs_7ad5890e = true ∧
    Gen.cs_11a482f9.mem '2' = true ∧ Gen.cs_7ad5890e.mem '2' = false ∧ asciiDigits.disj Gen.cs_69521832 = true ∧ asciiDigits.disj Gen.cs_0c0f8a50 = true := by
  decide +kernel

theorem cs_dead_facts :
    Gen.cs_6862e64c.disj Gen.cs_cbadb66d = true ∧ Gen.cs_6862e64c.disj Gen.cs_940665b9 = true ∧ Gen.cs_6862e64c.disj Gen.cs_25709165 = true ∧ Gen.cs_6862e64c.disj Gen.cs_7ad5890e = true ∧
    Gen.cs_f3df237d.disj Gen.cs_69521832 = true ∧ Gen.cs_f3df237d.disj Gen.cs_0c0f8a50 = true ∧ Gen.cs_6862e64c.disj Gen.cs_38ea6e46 = true ∧ Gen.cs_6862e64c.disj Gen.cs_faf00333 = true ∧
    Gen.cs_6862e64c.disj Gen.cs_ae876102 = true ∧ Gen.cs_6862e64c.disj Gen.cs_5f20f5ed = true ∧ Gen.cs_f3df237d.disj Gen.cs_ecd0074f = true := by
  decide +kernel

theorem cs_letter_facts :
    Gen.cs_38ea6e46.disj Gen.cs_940665b9 = true ∧ Gen.cs_38ea6e46.disj Gen.cs_6862e64c = true ∧ Gen.cs_faf00333.disj Gen.cs_940665b9 = true ∧ Gen.cs_faf00333.disj Gen.cs_6862e64c = true ∧
    Gen.cs_faf00333.disj Gen.cs_38ea6e46 = true ∧ Gen.cs_ecd0074f.disj Gen.cs_f3df237d = true ∧ Gen.cs_ecd0074f.disj Gen.cs_940665b9 = true ∧ Gen.cs_ecd0074f.disj Gen.cs_7ad5890e = true ∧
    Gen.cs_25709165.disj Gen.cs_940665b9 = true ∧ Gen.cs_25709165.disj Gen.cs_7ad5890e = true ∧ Gen.cs_ae876102.disj Gen.cs_940665b9 = true ∧ Gen.cs_ae876102.disj Gen.cs_6862e64c = true ∧
    Gen.cs_5f20f5ed.disj Gen.cs_940665b9 = true ∧ Gen.cs_5f20f5ed.disj Gen.cs_6862e64c = true ∧ Gen.cs_5f20f5ed.disj Gen.cs_ae876102 = true ∧ Gen.cs_93b62202.sub Gen.cs_14d6aa8a = true ∧
    Gen.cs_ecd0074f.disj Gen.cs_11a482f9 = true ∧ Gen.cs_25709165.disj Gen.cs_11a482f9 = true ∧ Gen.cs_6862e64c.disj Gen.cs_11a482f9 = true := by
  decide +kernel

/-! ### the components on a spelling -/

/-- ASCII digits -/
def IsDigits (l : List Char) : Prop := ∀ c ∈ l, asciiDigits.mem c = true

theorem IsDigits.head_stop {l : List Char} {cs : CharSet} (hl : IsDigits l) (hne : l ≠ []) (tail : List Char)
    (hd : asciiDigits.disj cs = true) : StopAt cs (l ++ tail) := by
  cases l with
  | nil => exact absurd rfl hne
  | cons c t => exact StopAt.cons (CharSet.disj_mem hd (hl c (by simp)))

theorem IsWordOf.head_stop {c0 cs : CharSet} {hi : Nat} {w : List Char} {X : CharSet} (hw : IsWordOf c0 cs hi w) (tail : List Char)
    (hd : c0.disj X = true) : StopAt X (w ++ tail) := by
  obtain ⟨hne, hh, _, _⟩ := hw
  cases w with
  | nil => exact absurd rfl hne
  | cons c t => exact StopAt.cons (CharSet.disj_mem hd (hh c (by simp)))

theorem eats_twT (tw d1 tail : List Char) (htw : (tw = [] ∧ d1 = []) ∨ IsWordOf Gen.cs_93b62202 Gen.cs_cbadb66d 9 tw)
    (hd1 : ∀ c ∈ d1, Gen.cs_6862e64c.mem c = true) (htail : ∃ c t, tail = c :: t ∧ asciiDigits.mem c = true) :
    Eats twT (tw ++ d1) tail
      (fun pos caps => (if tw = [] then [] else [(2, pos, pos + (tw ++ d1).length), (3, pos, pos + tw.length)]) ++ caps) := by
  obtain ⟨c, t, rfl, hc⟩ := htail
  rcases htw with ⟨rfl, rfl⟩ | hw
  · refine (Eats.opt_none (FailsOn.of_first (r := .grp 2 _) rfl ?_)).cast rfl (fun _ _ => rfl)
    intro x hx cs hcs
    simp only [List.head?_cons, Option.some.injEq] at hx
    subst hx
    have hcs' : cs ∈ [Gen.cs_93b62202] := hcs
    simp only [List.mem_singleton] at hcs'
    subst hcs'
    exact CharSet.disj_mem (by decide +kernel) hc
  · have hne := hw.ne
    have h3 := Eats.grp 3 (eats_word (tail := d1 ++ c :: t) hw (Or.inr (StopAt.append
      (fun x hx => CharSet.disj_mem (by decide +kernel) (hd1 x hx)) (StopAt.cons (CharSet.disj_mem (by decide +kernel) hc)))))
    have hd := Eats.run Gen.cs_6862e64c 0 none d1 (c :: t) hd1 (Or.inr (StopAt.cons (CharSet.disj_mem (by decide +kernel) hc)))
      (Nat.zero_le _) (fun h hh => by cases hh)
    refine (Eats.opt_some (Eats.grp 2 (Eats.seq h3 hd))).cast rfl (fun pos caps => ?_)
    simp only [hne, if_false, List.cons_append, List.nil_append]

theorem eats_digits (i : Nat) (t tail : List Char) (hd : IsDigits t) (h1 : 1 ≤ t.length) (h3 : t.length ≤ 3)
    (hstop : StopAt Gen.cs_940665b9 tail) :
    Eats (.grp i (.rep (.chr Gen.cs_940665b9) 1 (some 3))) t tail (fun pos caps => (i, pos, pos + t.length) :: caps) :=
  Eats.grp i (Eats.run Gen.cs_940665b9 1 (some 3) t tail (fun c hc => CharSet.sub_mem (by decide +kernel) (hd c hc)) (Or.inr hstop) h1
    (fun h hh => by cases hh; exact h3))

theorem eats_dead (cs : CharSet) (d tail : List Char) (hd : ∀ c ∈ d, cs.mem c = true) (hstop : StopAt cs tail) :
    Eats (.rep (.chr cs) 0 none) d tail (fun _ caps => caps) :=
  Eats.run cs 0 none d tail hd (Or.inr hstop) (Nat.zero_le _) (fun h hh => by cases hh)

/-- a direction group `(?P<g>A[...]{0,hi}|B[...]{0,hi})` -/
theorem eats_dir (i : Nat) (a0 a b0 b : CharSet) (hi : Nat) (w tail : List Char) (hdisj : b0.disj a0 = true)
    (h : (IsWordOf a0 a hi w ∧ (w.tail.length = hi ∨ StopAt a tail)) ∨ (IsWordOf b0 b hi w ∧ (w.tail.length = hi ∨ StopAt b tail))) :
    Eats (.grp i (.alt (.seq (.chr a0) (.rep (.chr a) 0 (some hi))) (.seq (.chr b0) (.rep (.chr b) 0 (some hi))))) w tail
      (fun pos caps => (i, pos, pos + w.length) :: caps) := by
  rcases h with ⟨hw, hs⟩ | ⟨hw, hs⟩
  · exact Eats.grp i (Eats.alt_l (eats_word hw hs))
  · exact Eats.grp i (Eats.alt_r (FailsOn.seq_l (FailsOn.chr a0 _ (hw.head_stop tail hdisj))) (eats_word hw hs))

/-- `(?P<rgenum>\d{2,3}|[013-9])` on one to three digits other than a lone `2` -/
theorem eats_twR10 (r tail : List Char) (hd : IsDigits r) (h1 : 1 ≤ r.length) (h3 : r.length ≤ 3) (h2 : r ≠ ['2'])
    (hstop : StopAt Gen.cs_940665b9 tail) :
    Eats twR10 r tail (fun pos caps => (10, pos, pos + r.length) :: caps) := by
  by_cases hlen : r.length = 1
  · cases r with
    | nil => simp at hlen
    | cons c t =>
      cases t with
      | cons _ _ => simp at hlen
      | nil =>
        have hc := hd c (by simp)
        rcases digit_cases c hc with rfl | hn2
        · exact absurd rfl h2
        · exact Eats.grp 10 (Eats.alt_r (failsOn_rep2 Gen.cs_940665b9 (some 3) c tail (CharSet.sub_mem (by decide +kernel) hc) hstop)
            (Eats.chr Gen.cs_7ad5890e c tail (CharSet.sub_mem (by decide +kernel) hn2)))
  · exact Eats.grp 10 (Eats.alt_l (Eats.run Gen.cs_940665b9 2 (some 3) r tail (fun c hc => CharSet.sub_mem (by decide +kernel) (hd c hc))
      (Or.inr hstop) (by omega) (fun h hh => by cases hh; exact h3)))

/-- the captures of the range group, relative to its start -/
def capsRG (rw d4 r : List Char) (pos : Nat) : Caps :=
  (6, pos, pos + rw.length + d4.length + r.length) ::
    (if rw ≠ [] ∧ r = ['2'] then
      [(11, pos, pos + rw.length + d4.length + r.length), (13, pos + rw.length + d4.length, pos + rw.length + d4.length + r.length),
       (12, pos, pos + rw.length)]
     else (7, pos, pos + rw.length + d4.length + r.length) ::
       (10, pos + rw.length + d4.length, pos + rw.length + d4.length + r.length) ::
       (if rw ≠ [] then [(8, pos, pos + rw.length + d4.length), (9, pos, pos + rw.length)] else []))

theorem eats_twR8_some (rw d4 tail : List Char) (hw : IsWordOf Gen.cs_ecd0074f Gen.cs_25709165 6 rw) (hd4 : ∀ c ∈ d4, Gen.cs_6862e64c.mem c = true)
    (htail : ∃ c t, tail = c :: t ∧ asciiDigits.mem c = true) :
    Eats twR8 (rw ++ d4) tail (fun pos caps => (8, pos, pos + (rw ++ d4).length) :: (9, pos, pos + rw.length) :: caps) := by
  obtain ⟨c, t, rfl, hc⟩ := htail
  have h9 := Eats.grp 9 (eats_word (tail := d4 ++ c :: t) hw (Or.inr (StopAt.append
    (fun x hx => CharSet.disj_mem (by decide +kernel) (hd4 x hx)) (StopAt.cons (CharSet.disj_mem (by decide +kernel) hc)))))
  have hd := eats_dead Gen.cs_6862e64c d4 (c :: t) hd4 (StopAt.cons (CharSet.disj_mem (by decide +kernel) hc))
  exact (Eats.opt_some (Eats.grp 8 (Eats.seq h9 hd))).cast rfl (fun _ _ => rfl)

theorem IsWordOf.mem {c0 cs : CharSet} {hi : Nat} {w : List Char} (hw : IsWordOf c0 cs hi w) :
    ∀ x ∈ w, c0.mem x = true ∨ cs.mem x = true := by
  obtain ⟨_, hh, ht, _⟩ := hw
  intro x hx
  cases w with
  | nil => cases hx
  | cons c t =>
    rcases List.mem_cons.1 hx with rfl | hx
    · exact Or.inl (hh x (by simp))
    · exact Or.inr (ht x hx)

/-- range version 1 cannot match "Range 2": whatever part of the word "Range" the optional group takes, no range number follows -/
theorem failsOn_twR7_two (rw d4 tail : List Char) (hw : IsWordOf Gen.cs_ecd0074f Gen.cs_25709165 6 rw) (hd4 : ∀ c ∈ d4, Gen.cs_6862e64c.mem c = true)
    (hstop : StopAt Gen.cs_940665b9 tail) : FailsOn (.grp 7 (.seq twR8 twR10)) (rw ++ (d4 ++ '2' :: tail)) := by
  intro prev pos caps
  apply Fails.grp 7
  apply Fails.seq_all
  intro s1 hs1
  obtain ⟨seg, e, c1, _, _, _⟩ := Rx.all_foot (fun _ => false) twR8 _ s1 hs1
  have e' : seg ++ s1.rest = (rw ++ d4) ++ '2' :: tail := by rw [← e]; simp
  have hQ : ∀ a ∈ seg, (Gen.cs_ecd0074f.mem a = true ∨ Gen.cs_25709165.mem a = true ∨ Gen.cs_6862e64c.mem a = true) := by
    intro a ha
    obtain ⟨cs, hcs, hm⟩ := c1 a ha
    have hcs' : cs ∈ [Gen.cs_ecd0074f, Gen.cs_25709165, Gen.cs_6862e64c] := hcs
    simp only [List.mem_cons, List.not_mem_nil, or_false] at hcs'
    rcases hcs' with rfl | rfl | rfl
    · exact Or.inl hm
    · exact Or.inr (Or.inl hm)
    · exact Or.inr (Or.inr hm)
  have h2 : ¬ (Gen.cs_ecd0074f.mem '2' = true ∨ Gen.cs_25709165.mem '2' = true ∨ Gen.cs_6862e64c.mem '2' = true) := by decide
  obtain ⟨mid, e1, e2⟩ := prefix_of_avoid seg s1.rest (rw ++ d4) '2' tail e' hQ h2
  have hF : FailsOn twR10 (mid ++ '2' :: tail) := by
    cases mid with
    | nil =>
      exact FailsOn.grp 10 (FailsOn.alt (failsOn_rep2 Gen.cs_940665b9 (some 3) '2' tail (by decide) hstop)
        (FailsOn.chr Gen.cs_7ad5890e _ (StopAt.cons (by decide +kernel))))
    | cons m0 mt =>
      have hm0 : m0 ∈ rw ++ d4 := by rw [e1]; simp
      have hcl : Gen.cs_940665b9.mem m0 = false ∧ Gen.cs_7ad5890e.mem m0 = false := by
        rcases List.mem_append.1 hm0 with h | h
        · rcases hw.mem m0 h with h | h
          · exact ⟨CharSet.disj_mem (by decide +kernel) h, CharSet.disj_mem (by decide +kernel) h⟩
          · exact ⟨CharSet.disj_mem (by decide +kernel) h, CharSet.disj_mem (by decide +kernel) h⟩
        · exact ⟨CharSet.disj_mem (by decide +kernel) (hd4 m0 h), CharSet.disj_mem (by decide +kernel) (hd4 m0 h)⟩
      refine FailsOn.of_first (r := twR10) rfl ?_
      intro x hx cs hcs
      simp only [List.cons_append, List.head?_cons, Option.some.injEq] at hx
      subst hx
      have hcs' : cs ∈ [Gen.cs_940665b9, Gen.cs_7ad5890e] := hcs
      simp only [List.mem_cons, List.not_mem_nil, or_false] at hcs'
      rcases hcs' with rfl | rfl
      · exact hcl.1
      · exact hcl.2
  have := hF s1.prev s1.pos s1.caps
  rw [← e2] at this
  exact this

theorem eats_twRG (rw d4 r tail : List Char) (hrw : (rw = [] ∧ d4 = [] ∧ r ≠ ['2']) ∨ IsWordOf Gen.cs_ecd0074f Gen.cs_25709165 6 rw)
    (hd4 : ∀ c ∈ d4, Gen.cs_6862e64c.mem c = true) (hd : IsDigits r) (h1 : 1 ≤ r.length) (h3 : r.length ≤ 3)
    (hstop : StopAt Gen.cs_940665b9 tail) :
    Eats twRG (rw ++ (d4 ++ r)) tail (fun pos caps => capsRG rw d4 r pos ++ caps) := by
  have hrne : r ≠ [] := by intro h; rw [h] at h1; simp at h1
  have hrhead : ∃ c t, r ++ tail = c :: t ∧ asciiDigits.mem c = true := by
    cases r with
    | nil => exact absurd rfl hrne
    | cons c t => exact ⟨c, t ++ tail, rfl, hd c (by simp)⟩
  rcases hrw with ⟨rfl, rfl, h2⟩ | hw
  · have h8 : Eats twR8 [] (r ++ tail) (fun _ caps => caps) := by
      refine Eats.opt_none (FailsOn.of_first (r := .grp 8 _) rfl ?_)
      intro x hx cs hcs
      have hcs' : cs ∈ [Gen.cs_ecd0074f] := hcs
      simp only [List.mem_singleton] at hcs'
      subst hcs'
      obtain ⟨c, t, e, hc⟩ := hrhead
      rw [e] at hx
      simp only [List.head?_cons, Option.some.injEq] at hx
      subst hx
      exact CharSet.disj_mem (by decide +kernel) hc
    have h10 := eats_twR10 r tail hd h1 h3 h2 hstop
    refine (Eats.grp 6 (Eats.alt_l (Eats.grp 7 (Eats.seq h8 h10)))).cast (by simp) (fun pos caps => ?_)
    simp [capsRG, h2]
  · by_cases h2 : r = ['2']
    · subst h2
      have hne := hw.ne
      have key : (d4 ++ ['2']) ++ tail = d4 ++ ('2' :: tail) := by simp
      have key2 : (rw ++ (d4 ++ ['2'])) ++ tail = rw ++ (d4 ++ '2' :: tail) := by simp
      have hf : FailsOn (.grp 7 (.seq twR8 twR10)) ((rw ++ (d4 ++ ['2'])) ++ tail) := by
        rw [key2]; exact failsOn_twR7_two rw d4 tail hw hd4 hstop
      have h12 := Eats.grp 12 (eats_word (tail := (d4 ++ ['2']) ++ tail) hw (Or.inr (by
        rw [key]
        exact StopAt.append (fun x hx => CharSet.disj_mem (by decide +kernel) (hd4 x hx)) (StopAt.cons (by decide)))))
      have hdd := eats_dead Gen.cs_6862e64c d4 (['2'] ++ tail) hd4 (StopAt.cons (by decide))
      have h13 := Eats.grp 13 (Eats.chr Gen.cs_11a482f9 '2' tail (by decide))
      have h11 := Eats.grp 11 (Eats.seq h12 (Eats.seq hdd h13))
      refine (Eats.grp 6 (Eats.alt_r hf h11)).cast rfl (fun pos caps => ?_)
      simp [capsRG, hne, Nat.add_assoc]
    · have h8 := eats_twR8_some rw d4 (r ++ tail) hw hd4 hrhead
      have h10 := eats_twR10 r tail hd h1 h3 h2 hstop
      have hne := hw.ne
      refine (Eats.grp 6 (Eats.alt_l (Eats.grp 7 (Eats.seq h8 h10)))).cast (by simp) (fun pos caps => ?_)
      simp [capsRG, h2, hne, Nat.add_assoc]

/-! ### spellings of a Twp/Rge -/

/-- the pieces of one written Twp/Rge -/
structure Spelling where
  /-- the word or symbol for "Township" (`T`, `Township`, … in any case), or nothing -/
  tw : Str
  /-- dead space `[\.\-–—,\s]*` between it and the number -/
  d1 : Str
  /-- the township number -/
  t : Str
  d2 : Str
  /-- `N`, `North`, `S`, `South`, … -/
  nsw : Str
  /-- dead space `[\.\-–—,;\|_~\s]*` between Twp and Rge -/
  d3 : Str
  /-- the word or symbol for "Range", or nothing -/
  rw : Str
  d4 : Str
  /-- the range number -/
  r : Str
  d5 : Str
  /-- `W`, `West`, `E`, `East`, … -/
  eww : Str

def Spelling.text (sp : Spelling) : Str :=
  sp.tw ++ (sp.d1 ++ (sp.t ++ (sp.d2 ++ (sp.nsw ++ (sp.d3 ++ (sp.rw ++ (sp.d4 ++ (sp.r ++ (sp.d5 ++ sp.eww)))))))))

/-- what follows the N/S word -/
def Spelling.afterNS (sp : Spelling) (ctx : Str) : Str := sp.d3 ++ (sp.rw ++ (sp.d4 ++ (sp.r ++ (sp.d5 ++ (sp.eww ++ ctx)))))

/-- the spelling is one `twprge_regex` reads along its first path, when followed by `ctx` -/
structure Spelling.Valid (sp : Spelling) (ctx : Str) : Prop where
  tw : (sp.tw = [] ∧ sp.d1 = []) ∨ IsWordOf Gen.cs_93b62202 Gen.cs_cbadb66d 9 sp.tw
  d1 : ∀ c ∈ sp.d1, Gen.cs_6862e64c.mem c = true
  t_dig : IsDigits sp.t
  t_len : 1 ≤ sp.t.length ∧ sp.t.length ≤ 3
  d2 : ∀ c ∈ sp.d2, Gen.cs_6862e64c.mem c = true
  ns : (IsWordOf Gen.cs_38ea6e46 Gen.cs_69521832 5 sp.nsw ∧ (sp.nsw.tail.length = 5 ∨ StopAt Gen.cs_69521832 (sp.afterNS ctx))) ∨
       (IsWordOf Gen.cs_faf00333 Gen.cs_0c0f8a50 5 sp.nsw ∧ (sp.nsw.tail.length = 5 ∨ StopAt Gen.cs_0c0f8a50 (sp.afterNS ctx)))
  d3 : ∀ c ∈ sp.d3, Gen.cs_f3df237d.mem c = true
  rw : (sp.rw = [] ∧ sp.d4 = [] ∧ sp.r ≠ ['2']) ∨ IsWordOf Gen.cs_ecd0074f Gen.cs_25709165 6 sp.rw
  d4 : ∀ c ∈ sp.d4, Gen.cs_6862e64c.mem c = true
  r_dig : IsDigits sp.r
  r_len : 1 ≤ sp.r.length ∧ sp.r.length ≤ 3
  d5 : ∀ c ∈ sp.d5, Gen.cs_6862e64c.mem c = true
  ew : (IsWordOf Gen.cs_ae876102 Gen.cs_ae3e3c7d 3 sp.eww ∧ (sp.eww.tail.length = 3 ∨ StopAt Gen.cs_ae3e3c7d ctx)) ∨
       (IsWordOf Gen.cs_5f20f5ed Gen.cs_68819f8e 3 sp.eww ∧ (sp.eww.tail.length = 3 ∨ StopAt Gen.cs_68819f8e ctx))

/-- the capture list of the match of a spelling that starts at `pos` (newest first, as sre's mark array is read) -/
def Spelling.caps (sp : Spelling) (pos : Nat) : Caps :=
  let p1 := pos + sp.tw.length
  let p2 := p1 + sp.d1.length
  let p3 := p2 + sp.t.length
  let p4 := p3 + sp.d2.length
  let p5 := p4 + sp.nsw.length
  let p6 := p5 + sp.d3.length
  let p9 := p6 + sp.rw.length + sp.d4.length + sp.r.length
  let p10 := p9 + sp.d5.length
  let p11 := p10 + sp.eww.length
  (14, p10, p11) :: (capsRG sp.rw sp.d4 sp.r p6 ++
    ((5, p4, p5) :: (4, p2, p3) :: ((if sp.tw = [] then [] else [(2, pos, p2), (3, pos, p1)]) ++ [(1, pos, pos)])))

/-- the match object of a spelling that starts at `pos` -/
def Spelling.matchAt (sp : Spelling) (pos : Nat) : Match := ⟨pos, pos + sp.text.length, sp.caps pos⟩

theorem eats_twBody (sp : Spelling) (ctx : Str) (hv : sp.Valid ctx) :
    ∃ f, Eats twBody sp.text ctx f ∧ ∀ pos, f pos [(1, pos, pos)] = sp.caps pos := by
  have htne : sp.t ≠ [] := by intro h; have := hv.t_len.1; rw [h] at this; simp at this
  have hrne : sp.r ≠ [] := by intro h; have := hv.r_len.1; rw [h] at this; simp at this
  have hnsw : IsWordOf Gen.cs_38ea6e46 Gen.cs_69521832 5 sp.nsw ∨ IsWordOf Gen.cs_faf00333 Gen.cs_0c0f8a50 5 sp.nsw := by
    rcases hv.ns with h | h
    · exact Or.inl h.1
    · exact Or.inr h.1
  have heww : IsWordOf Gen.cs_ae876102 Gen.cs_ae3e3c7d 3 sp.eww ∨ IsWordOf Gen.cs_5f20f5ed Gen.cs_68819f8e 3 sp.eww := by
    rcases hv.ew with h | h
    · exact Or.inl h.1
    · exact Or.inr h.1
  -- re-association of the tails
  have a6 : (sp.d5 ++ sp.eww) ++ ctx = sp.d5 ++ (sp.eww ++ ctx) := List.append_assoc _ _ _
  have a5 : ((sp.rw ++ (sp.d4 ++ sp.r)) ++ (sp.d5 ++ sp.eww)) ++ ctx = (sp.rw ++ (sp.d4 ++ sp.r)) ++ ((sp.d5 ++ sp.eww) ++ ctx) := List.append_assoc _ _ _
  have a4 : (sp.d3 ++ ((sp.rw ++ (sp.d4 ++ sp.r)) ++ (sp.d5 ++ sp.eww))) ++ ctx = sp.d3 ++ (((sp.rw ++ (sp.d4 ++ sp.r)) ++ (sp.d5 ++ sp.eww)) ++ ctx) := List.append_assoc _ _ _
  have a3 : (sp.nsw ++ (sp.d3 ++ ((sp.rw ++ (sp.d4 ++ sp.r)) ++ (sp.d5 ++ sp.eww)))) ++ ctx = sp.nsw ++ ((sp.d3 ++ ((sp.rw ++ (sp.d4 ++ sp.r)) ++ (sp.d5 ++ sp.eww))) ++ ctx) := List.append_assoc _ _ _
  have a2 : (sp.d2 ++ (sp.nsw ++ (sp.d3 ++ ((sp.rw ++ (sp.d4 ++ sp.r)) ++ (sp.d5 ++ sp.eww))))) ++ ctx = sp.d2 ++ ((sp.nsw ++ (sp.d3 ++ ((sp.rw ++ (sp.d4 ++ sp.r)) ++ (sp.d5 ++ sp.eww)))) ++ ctx) := List.append_assoc _ _ _
  have a1 : (sp.t ++ (sp.d2 ++ (sp.nsw ++ (sp.d3 ++ ((sp.rw ++ (sp.d4 ++ sp.r)) ++ (sp.d5 ++ sp.eww)))))) ++ ctx = sp.t ++ ((sp.d2 ++ (sp.nsw ++ (sp.d3 ++ ((sp.rw ++ (sp.d4 ++ sp.r)) ++ (sp.d5 ++ sp.eww))))) ++ ctx) := List.append_assoc _ _ _
  -- stop conditions
  have s7_1 : StopAt Gen.cs_940665b9 (sp.eww ++ ctx) := by
    rcases heww with h | h
    · exact h.head_stop ctx (by decide +kernel)
    · exact h.head_stop ctx (by decide +kernel)
  have s7_56 : StopAt Gen.cs_6862e64c (sp.eww ++ ctx) := by
    rcases heww with h | h
    · exact h.head_stop ctx (by decide +kernel)
    · exact h.head_stop ctx (by decide +kernel)
  have s6_1 : StopAt Gen.cs_940665b9 ((sp.d5 ++ sp.eww) ++ ctx) := by
    rw [a6]; exact StopAt.append (fun c hc => CharSet.disj_mem (by decide +kernel) (hv.d5 c hc)) s7_1
  have s3_1 : StopAt Gen.cs_940665b9 ((sp.nsw ++ (sp.d3 ++ ((sp.rw ++ (sp.d4 ++ sp.r)) ++ (sp.d5 ++ sp.eww)))) ++ ctx) := by
    rw [a3]
    rcases hnsw with h | h
    · exact h.head_stop _ (by decide +kernel)
    · exact h.head_stop _ (by decide +kernel)
  have s3_56 : StopAt Gen.cs_6862e64c ((sp.nsw ++ (sp.d3 ++ ((sp.rw ++ (sp.d4 ++ sp.r)) ++ (sp.d5 ++ sp.eww)))) ++ ctx) := by
    rw [a3]
    rcases hnsw with h | h
    · exact h.head_stop _ (by decide +kernel)
    · exact h.head_stop _ (by decide +kernel)
  have s2_1 : StopAt Gen.cs_940665b9 ((sp.d2 ++ (sp.nsw ++ (sp.d3 ++ ((sp.rw ++ (sp.d4 ++ sp.r)) ++ (sp.d5 ++ sp.eww))))) ++ ctx) := by
    rw [a2]; exact StopAt.append (fun c hc => CharSet.disj_mem (by decide +kernel) (hv.d2 c hc)) s3_1
  have s5_59 : StopAt Gen.cs_f3df237d (((sp.rw ++ (sp.d4 ++ sp.r)) ++ (sp.d5 ++ sp.eww)) ++ ctx) := by
    rw [a5]
    rcases hv.rw with ⟨h1, h2, _⟩ | h
    · rw [h1, h2]
      exact hv.r_dig.head_stop hrne _ (by decide +kernel)
    · rw [List.append_assoc]
      exact h.head_stop _ (by decide +kernel)
  have e1 : ∃ c t, (sp.t ++ (sp.d2 ++ (sp.nsw ++ (sp.d3 ++ ((sp.rw ++ (sp.d4 ++ sp.r)) ++ (sp.d5 ++ sp.eww)))))) ++ ctx = c :: t ∧ asciiDigits.mem c = true := by
    rw [a1]
    cases ht : sp.t with
    | nil => exact absurd ht htne
    | cons c t => exact ⟨c, _, rfl, hv.t_dig c (by rw [ht]; simp)⟩
  have hns_after : (sp.d3 ++ ((sp.rw ++ (sp.d4 ++ sp.r)) ++ (sp.d5 ++ sp.eww))) ++ ctx = sp.afterNS ctx := by
    simp only [Spelling.afterNS, List.append_assoc]
  -- the components
  have cT := eats_twT sp.tw sp.d1 ((sp.t ++ (sp.d2 ++ (sp.nsw ++ (sp.d3 ++ ((sp.rw ++ (sp.d4 ++ sp.r)) ++ (sp.d5 ++ sp.eww)))))) ++ ctx) hv.tw hv.d1 e1
  have cN := eats_digits 4 sp.t ((sp.d2 ++ (sp.nsw ++ (sp.d3 ++ ((sp.rw ++ (sp.d4 ++ sp.r)) ++ (sp.d5 ++ sp.eww))))) ++ ctx) hv.t_dig hv.t_len.1 hv.t_len.2 s2_1
  have cD2 := eats_dead Gen.cs_6862e64c sp.d2 ((sp.nsw ++ (sp.d3 ++ ((sp.rw ++ (sp.d4 ++ sp.r)) ++ (sp.d5 ++ sp.eww)))) ++ ctx) hv.d2 s3_56
  have cNS := eats_dir 5 Gen.cs_38ea6e46 Gen.cs_69521832 Gen.cs_faf00333 Gen.cs_0c0f8a50 5 sp.nsw ((sp.d3 ++ ((sp.rw ++ (sp.d4 ++ sp.r)) ++ (sp.d5 ++ sp.eww))) ++ ctx) (by decide +kernel) (by rw [hns_after]; exact hv.ns)
  have cD3 := eats_dead Gen.cs_f3df237d sp.d3 (((sp.rw ++ (sp.d4 ++ sp.r)) ++ (sp.d5 ++ sp.eww)) ++ ctx) hv.d3 s5_59
  have cRG := eats_twRG sp.rw sp.d4 sp.r ((sp.d5 ++ sp.eww) ++ ctx) hv.rw hv.d4 hv.r_dig hv.r_len.1 hv.r_len.2 s6_1
  have cD5 := eats_dead Gen.cs_6862e64c sp.d5 (sp.eww ++ ctx) hv.d5 s7_56
  have cEW := eats_dir 14 Gen.cs_ae876102 Gen.cs_ae3e3c7d Gen.cs_5f20f5ed Gen.cs_68819f8e 3 sp.eww ctx (by decide +kernel) hv.ew
  have h7 := Eats.seq cD5 cEW
  have h6 := Eats.seq cRG h7
  have h5 := Eats.seq cD3 h6
  have h4 := Eats.seq cNS h5
  have h3 := Eats.seq cD2 h4
  have h2 := Eats.seq cN h3
  have h1 := Eats.seq cT h2
  have hseg : sp.tw ++ sp.d1 ++ (sp.t ++ (sp.d2 ++ (sp.nsw ++ (sp.d3 ++ ((sp.rw ++ (sp.d4 ++ sp.r)) ++ (sp.d5 ++ sp.eww)))))) = sp.text := by
    simp only [Spelling.text, List.append_assoc]
  refine ⟨_, h1.cast hseg (fun _ _ => rfl), fun pos => ?_⟩
  simp only [Spelling.caps, List.length_append, Nat.add_assoc, List.append_assoc, List.cons_append, List.nil_append]

/-! ### the whole pattern on a spelling -/

theorem leads_twG1 (prev : Option Char) (c : Char) (t : List Char) (pos : Nat) (caps : Caps)
    (hprev : isWord Gen.cs_14d6aa8a prev = false) (hc : Gen.cs_14d6aa8a.mem c = true) :
    Leads twG1 ⟨prev, c :: t, pos, caps⟩ ⟨prev, c :: t, pos, (1, pos, pos) :: caps⟩ := by
  unfold Leads
  cases prev with
  | none => simp [twG1, Rx.all, isWord, hc]
  | some p =>
    simp only [isWord] at hprev
    by_cases h47 : Gen.cs_e9c838bb.mem p = true
    · simp [twG1, Rx.all, isWord, hc, hprev, h47]
    · simp [twG1, Rx.all, isWord, hc, hprev, h47]

theorem Spelling.Valid.text_head {sp : Spelling} {ctx : Str} (hv : sp.Valid ctx) :
    ∃ c t, sp.text ++ ctx = c :: t ∧ Gen.cs_14d6aa8a.mem c = true := by
  rcases hv.tw with ⟨h1, h2⟩ | hw
  · have := hv.t_len.1
    cases ht : sp.t with
    | nil => rw [ht] at this; simp at this
    | cons c t =>
      refine ⟨c, _, by simp only [Spelling.text, h1, h2, ht, List.nil_append, List.cons_append]; rfl, ?_⟩
      exact CharSet.sub_mem (by decide +kernel) (hv.t_dig c (by rw [ht]; simp))
  · obtain ⟨hne, hh, _, _⟩ := hw
    cases htw : sp.tw with
    | nil => exact absurd htw hne
    | cons c t =>
      refine ⟨c, _, by simp only [Spelling.text, htw, List.cons_append]; rfl, ?_⟩
      exact CharSet.sub_mem (by decide +kernel) (hh c (by rw [htw]; simp))

theorem Spelling.Valid.text_pos {sp : Spelling} {ctx : Str} (hv : sp.Valid ctx) : 0 < sp.text.length := by
  have := hv.t_len.1
  simp only [Spelling.text, List.length_append]
  omega

/-- **the first path of `twprge_regex` on a valid spelling**: started anywhere after a non-word character (or at the
    beginning of the text), the pattern matches exactly the spelling, with the captures `sp.caps` -/
theorem C08_spelling_matchHere (sp : Spelling) (ctx : Str) (hv : sp.Valid ctx) (prev : Option Char)
    (hprev : isWord Gen.cs_14d6aa8a prev = false) (pos : Nat) (adv : Bool) :
    matchHere Gen.twprge_regex ⟨prev, sp.text ++ ctx, pos, []⟩ adv = some (sp.matchAt pos) := by
  obtain ⟨c, t, htext, hc⟩ := hv.text_head
  obtain ⟨f, hf, hcaps⟩ := eats_twBody sp ctx hv
  have h1 := leads_twG1 prev c t pos [] hprev hc
  rw [← htext] at h1
  have h2 := hf prev pos [(1, pos, pos)]
  have h := Leads.seq h1 h2
  rw [← twprge_decomp, hcaps] at h
  have := matchHere_of_leads adv h (Or.inr (by have := hv.text_pos; simp only []; omega))
  rw [this]
  rfl

theorem search_default (r : Rx) (text : List Char) : r.search text = scan r none text 0 false := by
  simp [Rx.search, cursorAt]

/-- the leftmost match of `twprge_regex` in a text that begins with a valid spelling is that spelling — whatever follows -/
theorem C08_spelling_search (sp : Spelling) (ctx : Str) (hv : sp.Valid ctx) :
    Gen.twprge_regex.search (sp.text ++ ctx) = some (sp.matchAt 0) := by
  rw [search_default]
  have h := C08_spelling_matchHere sp ctx hv none rfl 0 false
  cases htxt : sp.text ++ ctx <;> rw [htxt] at h <;> simp [scan, h]

/-- every match of `twprge_regex` contains a decimal digit -/
theorem twprge_mustHitP_digit : Gen.twprge_regex.mustHitP (fun cs => cs == Gen.cs_940665b9) = true := by decide +kernel

/-- `finditer` on a spelling followed by text without digits: exactly one match -/
theorem C08_spelling_finditer (sp : Spelling) (ctx : Str) (hv : sp.Valid ctx) (hctx : ∀ c ∈ ctx, Gen.cs_940665b9.mem c = false) :
    Gen.twprge_regex.finditer (sp.text ++ ctx) = [sp.matchAt 0] := by
  refine finditer_single twprge_mustHitP_digit _ _ (C08_spelling_matchHere sp ctx hv none rfl 0 false) ?_ ?_
  · have := hv.text_pos
    simp only [Spelling.matchAt]
    omega
  · intro c hc cs hcs
    simp only [beq_iff_eq] at hcs
    subst hcs
    simp only [Spelling.matchAt, Nat.zero_add, List.drop_left] at hc
    exact hctx c hc

/-! ### what the unpacker reads from the match of a spelling -/

theorem slice_at (text pre a post : List Char) (i j : Nat) (ht : text = pre ++ (a ++ post)) (hi : i = pre.length)
    (hj : j = pre.length + a.length) : slice text i j = a := by
  subst ht hi hj
  rw [← List.append_assoc]
  exact slice_mid pre a post

/-- the "Range 2" edge case: the number is captured by group 13 instead of group 10 -/
def Spelling.edge (sp : Spelling) : Prop := sp.rw ≠ [] ∧ sp.r = ['2']
instance (sp : Spelling) : Decidable sp.edge := inferInstanceAs (Decidable (_ ∧ _))

theorem Spelling.span_twpnum (sp : Spelling) (pos : Nat) :
    (sp.matchAt pos).span? 4 = some (pos + sp.tw.length + sp.d1.length, pos + sp.tw.length + sp.d1.length + sp.t.length) := by
  by_cases h1 : sp.rw = [] <;> by_cases h2 : sp.r = ['2'] <;> by_cases h3 : sp.tw = [] <;>
    simp [Spelling.matchAt, Spelling.caps, capsRG, Match.span?, List.find?, h1, h2, h3]

theorem Spelling.span_ns (sp : Spelling) (pos : Nat) :
    (sp.matchAt pos).span? 5 = some (pos + sp.tw.length + sp.d1.length + sp.t.length + sp.d2.length,
      pos + sp.tw.length + sp.d1.length + sp.t.length + sp.d2.length + sp.nsw.length) := by
  by_cases h1 : sp.rw = [] <;> by_cases h2 : sp.r = ['2'] <;> by_cases h3 : sp.tw = [] <;>
    simp [Spelling.matchAt, Spelling.caps, capsRG, Match.span?, List.find?, h1, h2, h3]

theorem Spelling.span_ew (sp : Spelling) (pos : Nat) :
    (sp.matchAt pos).span? 14 = some (pos + sp.tw.length + sp.d1.length + sp.t.length + sp.d2.length + sp.nsw.length + sp.d3.length
        + sp.rw.length + sp.d4.length + sp.r.length + sp.d5.length,
      pos + sp.tw.length + sp.d1.length + sp.t.length + sp.d2.length + sp.nsw.length + sp.d3.length
        + sp.rw.length + sp.d4.length + sp.r.length + sp.d5.length + sp.eww.length) := by
  simp [Spelling.matchAt, Spelling.caps, Match.span?, List.find?]

theorem Spelling.span_rgenum (sp : Spelling) (pos : Nat) :
    (sp.matchAt pos).span? 10 = if sp.edge then none else
      some (pos + sp.tw.length + sp.d1.length + sp.t.length + sp.d2.length + sp.nsw.length + sp.d3.length + sp.rw.length + sp.d4.length,
        pos + sp.tw.length + sp.d1.length + sp.t.length + sp.d2.length + sp.nsw.length + sp.d3.length + sp.rw.length + sp.d4.length + sp.r.length) := by
  by_cases h1 : sp.rw = [] <;> by_cases h2 : sp.r = ['2'] <;> by_cases h3 : sp.tw = [] <;>
    simp [Spelling.matchAt, Spelling.caps, capsRG, Match.span?, List.find?, Spelling.edge, h1, h2, h3]

theorem Spelling.span_rge2 (sp : Spelling) (pos : Nat) (he : sp.edge) :
    (sp.matchAt pos).span? 13 =
      some (pos + sp.tw.length + sp.d1.length + sp.t.length + sp.d2.length + sp.nsw.length + sp.d3.length + sp.rw.length + sp.d4.length,
        pos + sp.tw.length + sp.d1.length + sp.t.length + sp.d2.length + sp.nsw.length + sp.d3.length + sp.rw.length + sp.d4.length + sp.r.length) := by
  have h1 : sp.rw ≠ [] := he.1
  have h2 : sp.r = ['2'] := he.2
  by_cases h3 : sp.tw = [] <;>
    simp [Spelling.matchAt, Spelling.caps, capsRG, Match.span?, List.find?, h1, h2, h3]

theorem twprge_idx : twprge.idx? "twpnum" = some 4 ∧ twprge.idx? "ns" = some 5 ∧ twprge.idx? "rgenum" = some 10 ∧
    twprge.idx? "rgenum_edgecase_rge2" = some 13 ∧ twprge.idx? "ew" = some 14 := by decide

theorem Spelling.group_twpnum (sp : Spelling) (ctx : Str) :
    twprge.group (sp.matchAt 0) (sp.text ++ ctx) "twpnum" = some sp.t := by
  simp only [Pat.group, twprge_idx.1, Match.group?, sp.span_twpnum 0]
  congr 1
  exact slice_at (sp.text ++ ctx) (sp.tw ++ (sp.d1)) sp.t (sp.d2 ++ (sp.nsw ++ (sp.d3 ++ (sp.rw ++ (sp.d4 ++ (sp.r ++ (sp.d5 ++ (sp.eww ++ (ctx))))))))) _ _ (by simp only [Spelling.text, List.append_assoc]) (by simp only [List.length_append, Nat.add_assoc, Nat.zero_add]) (by simp only [List.length_append, Nat.add_assoc, Nat.zero_add])

theorem Spelling.group_ns (sp : Spelling) (ctx : Str) :
    twprge.group (sp.matchAt 0) (sp.text ++ ctx) "ns" = some sp.nsw := by
  simp only [Pat.group, twprge_idx.2.1, Match.group?, sp.span_ns 0]
  congr 1
  exact slice_at (sp.text ++ ctx) (sp.tw ++ (sp.d1 ++ (sp.t ++ (sp.d2)))) sp.nsw (sp.d3 ++ (sp.rw ++ (sp.d4 ++ (sp.r ++ (sp.d5 ++ (sp.eww ++ (ctx))))))) _ _ (by simp only [Spelling.text, List.append_assoc]) (by simp only [List.length_append, Nat.add_assoc, Nat.zero_add]) (by simp only [List.length_append, Nat.add_assoc, Nat.zero_add])

theorem Spelling.group_ew (sp : Spelling) (ctx : Str) :
    twprge.group (sp.matchAt 0) (sp.text ++ ctx) "ew" = some sp.eww := by
  simp only [Pat.group, twprge_idx.2.2.2.2, Match.group?, sp.span_ew 0]
  congr 1
  exact slice_at (sp.text ++ ctx) (sp.tw ++ (sp.d1 ++ (sp.t ++ (sp.d2 ++ (sp.nsw ++ (sp.d3 ++ (sp.rw ++ (sp.d4 ++ (sp.r ++ (sp.d5)))))))))) sp.eww (ctx) _ _ (by simp only [Spelling.text, List.append_assoc]) (by simp only [List.length_append, Nat.add_assoc, Nat.zero_add]) (by simp only [List.length_append, Nat.add_assoc, Nat.zero_add])

theorem Spelling.group_rgenum (sp : Spelling) (ctx : Str) :
    twprge.group (sp.matchAt 0) (sp.text ++ ctx) "rgenum" = if sp.edge then none else some sp.r := by
  simp only [Pat.group, twprge_idx.2.2.1, Match.group?, sp.span_rgenum 0]
  by_cases he : sp.edge
  · simp only [he, if_true]
  · simp only [he, if_false]
    congr 1
    exact slice_at (sp.text ++ ctx) (sp.tw ++ (sp.d1 ++ (sp.t ++ (sp.d2 ++ (sp.nsw ++ (sp.d3 ++ (sp.rw ++ (sp.d4)))))))) sp.r (sp.d5 ++ (sp.eww ++ (ctx))) _ _ (by simp only [Spelling.text, List.append_assoc]) (by simp only [List.length_append, Nat.add_assoc, Nat.zero_add]) (by simp only [List.length_append, Nat.add_assoc, Nat.zero_add])

theorem Spelling.group_rge2 (sp : Spelling) (ctx : Str) (he : sp.edge) :
    twprge.group (sp.matchAt 0) (sp.text ++ ctx) "rgenum_edgecase_rge2" = some sp.r := by
  simp only [Pat.group, twprge_idx.2.2.2.1, Match.group?, sp.span_rge2 0 he]
  congr 1
  exact slice_at (sp.text ++ ctx) (sp.tw ++ (sp.d1 ++ (sp.t ++ (sp.d2 ++ (sp.nsw ++ (sp.d3 ++ (sp.rw ++ (sp.d4)))))))) sp.r (sp.d5 ++ (sp.eww ++ (ctx))) _ _ (by simp only [Spelling.text, List.append_assoc]) (by simp only [List.length_append, Nat.add_assoc, Nat.zero_add]) (by simp only [List.length_append, Nat.add_assoc, Nat.zero_add])

/-! ### numbers: `int()` / `str()` on digit strings (leading zeros are dropped) -/

/-- the value of a string of ASCII digits -/
def digitsNat (l : List Char) : Nat := l.foldl (fun acc c => acc * 10 + (c.toNat - 48)) 0

theorem asciiDigit_bounds {c : Char} (h : asciiDigits.mem c = true) : 48 ≤ c.toNat ∧ c.toNat ≤ 57 := by
  simpa [asciiDigits, CharSet.mem] using h

theorem decimalValue_ascii {c : Char} (h : asciiDigits.mem c = true) : decimalValue? c = some (c.toNat - 48) := by
  have := asciiDigit_bounds h
  simp [decimalValue?, this.1, this.2]

theorem digit_ne_underscore {c : Char} (h : asciiDigits.mem c = true) : (c == '_') = false := by
  have := asciiDigit_bounds h
  cases hc : c == '_' with
  | false => rfl
  | true =>
    simp only [beq_iff_eq] at hc
    subst hc
    simp at this

theorem digitsVal_go_ascii : ∀ (l : List Char) (acc : Nat), IsDigits l →
    digitsVal?.go l acc false = some (l.foldl (fun acc c => acc * 10 + (c.toNat - 48)) acc) := by
  intro l
  induction l with
  | nil => intro acc _; rfl
  | cons c t ih =>
    intro acc hd
    have hc := hd c (by simp)
    simp only [digitsVal?.go, digit_ne_underscore hc, Bool.false_eq_true, if_false, decimalValue_ascii hc, List.foldl_cons]
    exact ih _ (fun x hx => hd x (by simp [hx]))

theorem digitsVal_ascii (l : List Char) (hd : IsDigits l) (hne : l ≠ []) : digitsVal? l = some (digitsNat l) := by
  cases l with
  | nil => exact absurd rfl hne
  | cons c t =>
    have hc := hd c (by simp)
    simp only [digitsVal?, decimalValue_ascii hc, digitsNat, List.foldl_cons, Nat.zero_mul, Nat.zero_add]
    exact digitsVal_go_ascii t _ (fun x hx => hd x (by simp [hx]))

theorem digit_not_space {c : Char} (h : asciiDigits.mem c = true) : pyIsSpace c = false := by
  have := asciiDigit_bounds h
  simp only [pyIsSpace, Gen.PY_SPACE, List.any_cons, List.any_nil, Bool.or_false, Bool.or_eq_false_iff,
    Bool.and_eq_false_iff, decide_eq_false_iff_not]
  omega

theorem lstripBy_id' (p : Char → Bool) (s : Str) (h : ∀ c, s.head? = some c → p c = false) : lstripBy p s = s := by
  cases s with
  | nil => rfl
  | cons c t => simp [lstripBy, h c rfl]

theorem stripBy_id' (p : Char → Bool) (s : Str) (h : ∀ c ∈ s, p c = false) : stripBy p s = s := by
  unfold stripBy rstripBy
  rw [lstripBy_id' p s (fun c hc => h c (List.mem_of_mem_head? hc)),
    lstripBy_id' p s.reverse (fun c hc => h c (by have := List.mem_of_mem_head? hc; simpa using this)), List.reverse_reverse]

theorem pyInt_ascii (l : List Char) (hd : IsDigits l) (hne : l ≠ []) : pyInt? l = some (Int.ofNat (digitsNat l)) := by
  unfold pyInt?
  simp only
  rw [show pyStrip l = l from stripBy_id' _ l (fun c hc => digit_not_space (hd c hc))]
  split
  · exact absurd (hd '-' (by simp)) (by decide)
  · exact absurd (hd '+' (by simp)) (by decide)
  · rw [digitsVal_ascii l hd hne]; rfl

/-- `str(int(s))` on a digit string is the decimal rendering of its value: leading zeros are dropped -/
theorem strip_digits (l : List Char) (hd : IsDigits l) (hne : l ≠ []) : stripLeadingZerosViaInt l = natToStr (digitsNat l) := by
  unfold stripLeadingZerosViaInt
  rw [pyInt_ascii l hd hne]
  exact intToStr_ofNat _

/-- … and a number as Python prints it is left alone -/
theorem strip_natToStr (n : Nat) : stripLeadingZerosViaInt (natToStr n) = natToStr n := by
  unfold stripLeadingZerosViaInt
  rw [pyInt_natToStr]
  exact intToStr_ofNat n

theorem natToStr_isDigits (n : Nat) : IsDigits (natToStr n) := by
  intro c hc
  rw [natToStr_eq] at hc
  exact (isDigit_iff_mem c).1 (Nat.isDigit_of_mem_toDigits (by omega) (by omega) hc)

theorem natToStr_len_lt_1000 : ∀ n, n < 1000 → 1 ≤ (natToStr n).length ∧ (natToStr n).length ≤ 3 := by
  have h : (List.range 1000).all (fun n => decide (1 ≤ (Nat.toDigits 10 n).length) && decide ((Nat.toDigits 10 n).length ≤ 3)) = true := by
    decide +kernel
  intro n hn
  rw [natToStr_eq]
  simp only [List.all_eq_true, List.mem_range, Bool.and_eq_true, decide_eq_true_eq] at h
  exact h n hn

/-! ### `unpack_twprge` / `find_twprge` on a spelling -/

/-- what `unpack_twprge` returns for the match of a spelling: the numbers without leading zeros, the first letters of the
    direction words in upper case -/
def Spelling.canon (sp : Spelling) : Str :=
  "T".toList ++ stripLeadingZerosViaInt sp.t ++ pyUpper (sp.nsw.take 1) ++ "-R".toList ++ stripLeadingZerosViaInt sp.r
    ++ pyUpper (sp.eww.take 1)

theorem Spelling.Valid.nsw_ne {sp : Spelling} {ctx : Str} (hv : sp.Valid ctx) : sp.nsw ≠ [] := by
  rcases hv.ns with h | h
  · exact h.1.ne
  · exact h.1.ne

theorem Spelling.Valid.eww_ne {sp : Spelling} {ctx : Str} (hv : sp.Valid ctx) : sp.eww ≠ [] := by
  rcases hv.ew with h | h
  · exact h.1.ne
  · exact h.1.ne

theorem Spelling.canonTR_eq (sp : Spelling) (ctx : Str) (hv : sp.Valid ctx) (ns ew : Str) :
    canonTR twprge (sp.matchAt 0) (sp.text ++ ctx) ns ew false = sp.canon := by
  have h1 : twpPart twprge (sp.matchAt 0) (sp.text ++ ctx) false = stripLeadingZerosViaInt sp.t := by
    simp only [twpPart, sp.group_twpnum ctx, Option.getD_some, Bool.false_eq_true, if_false]
  have h2 : rgePart twprge (sp.matchAt 0) (sp.text ++ ctx) false = stripLeadingZerosViaInt sp.r := by
    by_cases he : sp.edge
    · simp only [rgePart, sp.group_rgenum ctx, he, if_true, sp.group_rge2 ctx he, Option.getD_some, Bool.false_eq_true, if_false]
    · simp only [rgePart, sp.group_rgenum ctx, he, if_false, Bool.false_eq_true]
  have h3 : dirPart twprge (sp.matchAt 0) (sp.text ++ ctx) "ns" ns = pyUpper (sp.nsw.take 1) := by
    have := hv.nsw_ne
    cases hn : sp.nsw with
    | nil => exact absurd hn this
    | cons c t => simp only [dirPart, sp.group_ns ctx, hn, List.take_succ_cons, List.take_zero]
  have h4 : dirPart twprge (sp.matchAt 0) (sp.text ++ ctx) "ew" ew = pyUpper (sp.eww.take 1) := by
    have := hv.eww_ne
    cases hn : sp.eww with
    | nil => exact absurd hn this
    | cons c t => simp only [dirPart, sp.group_ew ctx, hn, List.take_succ_cons, List.take_zero]
  unfold canonTR Spelling.canon
  rw [h1, h2, h3, h4]

/-- **find_twprge on a spelling** (followed by text without digits): exactly one Twp/Rge, in canonical form, whatever the
    (legal) default directions -/
theorem C08_spelling_find (sp : Spelling) (ctx : Str) (hv : sp.Valid ctx) (hctx : ∀ c ∈ ctx, Gen.cs_940665b9.mem c = false)
    (ns ew : Str) (h1 : isLegal Gen.LEGAL_NS ns = true) (h2 : isLegal Gen.LEGAL_EW ew = true) :
    findTwprgeRaw (sp.text ++ ctx) ns ew = .ok [sp.canon] := by
  rw [C08_findTwprgeRaw_order _ ns ew h1 h2]
  have : twprge.rx.finditer (sp.text ++ ctx) = [sp.matchAt 0] := C08_spelling_finditer sp ctx hv hctx
  rw [this]
  simp only [List.map_cons, List.map_nil, sp.canonTR_eq ctx hv]

/-! ## The canonical spelling `T154N-R97W`, for every number -/

theorem IsWordOf.mk' {c0 cs : CharSet} {hi : Nat} (c : Char) (run : List Char) (hc : c0.mem c = true)
    (hrun : ∀ x ∈ run, cs.mem x = true) (hlen : run.length ≤ hi) : IsWordOf c0 cs hi (c :: run) :=
  ⟨by simp, fun x hx => by simp only [List.head?_cons, Option.mem_def, Option.some.injEq] at hx; subst hx; exact hc, hrun, hlen⟩

theorem IsWordOf.single {c0 cs : CharSet} {hi : Nat} (c : Char) (hc : c0.mem c = true) : IsWordOf c0 cs hi [c] :=
  IsWordOf.mk' c [] hc (fun _ h => by cases h) (Nat.zero_le _)

/-- the compact spelling `<T><twp><N|S>-<R><rge><E|W>` (letters in either case) -/
def compactSp (tc : Char) (t : Str) (nc rc : Char) (r : Str) (ec : Char) : Spelling :=
  ⟨[tc], [], t, [], [nc], ['-'], [rc], [], r, [], [ec]⟩

theorem compactSp_text (tc : Char) (t : Str) (nc rc : Char) (r : Str) (ec : Char) :
    (compactSp tc t nc rc r ec).text = tc :: (t ++ nc :: '-' :: rc :: (r ++ [ec])) := by
  simp [Spelling.text, compactSp]

/-- the right context cannot continue the word "West"/"East": it is empty or starts with a character outside `[est]`/`[ast]` -/
def EndsTwprge (ctx : Str) : Prop := StopAt Gen.cs_ae3e3c7d ctx ∧ StopAt Gen.cs_68819f8e ctx

theorem EndsTwprge.nil : EndsTwprge [] := ⟨StopAt.nil _, StopAt.nil _⟩

theorem EndsTwprge.cons {c : Char} (t : Str) (h : (Gen.cs_ae3e3c7d.mem c || Gen.cs_68819f8e.mem c) = false) : EndsTwprge (c :: t) := by
  simp only [Bool.or_eq_false_iff] at h
  exact ⟨StopAt.cons h.1, StopAt.cons h.2⟩

theorem compactSp_valid (tc : Char) (t : Str) (nc rc : Char) (r : Str) (ec : Char) (ctx : Str)
    (htc : Gen.cs_93b62202.mem tc = true) (ht : IsDigits t) (htl : 1 ≤ t.length ∧ t.length ≤ 3)
    (hnc : Gen.cs_38ea6e46.mem nc = true ∨ Gen.cs_faf00333.mem nc = true) (hrc : Gen.cs_ecd0074f.mem rc = true)
    (hr : IsDigits r) (hrl : 1 ≤ r.length ∧ r.length ≤ 3) (hec : Gen.cs_ae876102.mem ec = true ∨ Gen.cs_5f20f5ed.mem ec = true)
    (hctx : EndsTwprge ctx) : (compactSp tc t nc rc r ec).Valid ctx where
  tw := Or.inr (IsWordOf.single tc htc)
  d1 := fun _ h => by cases h
  t_dig := ht
  t_len := htl
  d2 := fun _ h => by cases h
  ns := by
    rcases hnc with h | h
    · exact Or.inl ⟨IsWordOf.single nc h, Or.inr (StopAt.cons (by decide))⟩
    · exact Or.inr ⟨IsWordOf.single nc h, Or.inr (StopAt.cons (by decide))⟩
  d3 := fun c h => by simp only [compactSp, List.mem_singleton] at h; subst h; decide
  rw := Or.inr (IsWordOf.single rc hrc)
  d4 := fun _ h => by cases h
  r_dig := hr
  r_len := hrl
  d5 := fun _ h => by cases h
  ew := by
    rcases hec with h | h
    · exact Or.inl ⟨IsWordOf.single ec h, Or.inr hctx.1⟩
    · exact Or.inr ⟨IsWordOf.single ec h, Or.inr hctx.2⟩

/-- `"T" + twp + ns + "-R" + rge + ew` -/
def canonText (t : Str) (ns : Char) (r : Str) (ew : Char) : Str := 'T' :: (t ++ ns :: '-' :: 'R' :: (r ++ [ew]))

theorem canonText_eq (t : Str) (ns : Char) (r : Str) (ew : Char) :
    canonText t ns r ew = "T".toList ++ t ++ [ns] ++ "-R".toList ++ r ++ [ew] := by
  simp [canonText]

/-- the spelling behind the canonical text -/
def canonSp (t : Str) (ns : Char) (r : Str) (ew : Char) : Spelling := compactSp 'T' t ns 'R' r ew

theorem canonSp_text (t : Str) (ns : Char) (r : Str) (ew : Char) : (canonSp t ns r ew).text = canonText t ns r ew :=
  compactSp_text _ _ _ _ _ _

theorem isDigits_of_isDigit {l : Str} (h : ∀ c ∈ l, c.isDigit = true) : IsDigits l :=
  fun c hc => (isDigit_iff_mem c).1 (h c hc)

theorem canonSp_valid (t : Str) (ns : Char) (r : Str) (ew : Char) (ctx : Str)
    (ht : ∀ c ∈ t, c.isDigit = true) (htl : 1 ≤ t.length ∧ t.length ≤ 3) (hns : ns = 'N' ∨ ns = 'S')
    (hr : ∀ c ∈ r, c.isDigit = true) (hrl : 1 ≤ r.length ∧ r.length ≤ 3) (hew : ew = 'E' ∨ ew = 'W')
    (hctx : EndsTwprge ctx) : (canonSp t ns r ew).Valid ctx :=
  compactSp_valid 'T' t ns 'R' r ew ctx (by decide) (isDigits_of_isDigit ht) htl
    (by rcases hns with rfl | rfl; exact Or.inl (by decide); exact Or.inr (by decide)) (by decide)
    (isDigits_of_isDigit hr) hrl (by rcases hew with rfl | rfl; exact Or.inr (by decide); exact Or.inl (by decide)) hctx

theorem canonSp_canon (t : Str) (ns : Char) (r : Str) (ew : Char) (hns : ns = 'N' ∨ ns = 'S') (hew : ew = 'E' ∨ ew = 'W') :
    (canonSp t ns r ew).canon = canonText (stripLeadingZerosViaInt t) ns (stripLeadingZerosViaInt r) ew := by
  rcases hns with rfl | rfl <;> rcases hew with rfl | rfl <;>
    simp [Spelling.canon, canonSp, compactSp, canonText, pyUpper, pyUpperChar]

/-- **C08, canonical spelling recognised — item 1.**  For every township number `t` and range number `r` written with one to
    three decimal digits (leading zeros allowed) and every `ns ∈ {N,S}`, `ew ∈ {E,W}`:
    `twprge_regex` has exactly one match in `"T" ++ t ++ ns ++ "-R" ++ r ++ ew`, from position 0 to the end of the text, with
    the capture groups of `(canonSp t ns r ew).caps`; and `find_twprge` returns exactly that Twp/Rge with the leading zeros of the
    numbers dropped — whatever the (legal) default directions. -/
theorem C08_canonical_recognised (t r : Str) (ns ew : Char)
    (ht : ∀ c ∈ t, c.isDigit = true) (htl : 1 ≤ t.length ∧ t.length ≤ 3) (hns : ns = 'N' ∨ ns = 'S')
    (hr : ∀ c ∈ r, c.isDigit = true) (hrl : 1 ≤ r.length ∧ r.length ≤ 3) (hew : ew = 'E' ∨ ew = 'W') :
    Gen.twprge_regex.finditer (canonText t ns r ew) = [(canonSp t ns r ew).matchAt 0] ∧
    ((canonSp t ns r ew).matchAt 0).start = 0 ∧ ((canonSp t ns r ew).matchAt 0).stop = (canonText t ns r ew).length ∧
    twprge.group ((canonSp t ns r ew).matchAt 0) (canonText t ns r ew) "twpnum" = some t ∧
    twprge.group ((canonSp t ns r ew).matchAt 0) (canonText t ns r ew) "ns" = some [ns] ∧
    twprge.group ((canonSp t ns r ew).matchAt 0) (canonText t ns r ew) "ew" = some [ew] ∧
    (∀ dn de, isLegal Gen.LEGAL_NS dn = true → isLegal Gen.LEGAL_EW de = true →
      findTwprgeRaw (canonText t ns r ew) dn de =
        .ok [canonText (stripLeadingZerosViaInt t) ns (stripLeadingZerosViaInt r) ew]) := by
  have hv := canonSp_valid t ns r ew [] ht htl hns hr hrl hew EndsTwprge.nil
  have htx : (canonSp t ns r ew).text ++ [] = canonText t ns r ew := by rw [List.append_nil, canonSp_text]
  have hf := C08_spelling_finditer _ [] hv (fun _ h => by cases h)
  have g1 := (canonSp t ns r ew).group_twpnum []
  have g2 := (canonSp t ns r ew).group_ns []
  have g3 := (canonSp t ns r ew).group_ew []
  rw [htx] at hf g1 g2 g3
  refine ⟨hf, rfl, by simp only [Spelling.matchAt, Nat.zero_add, canonSp_text], g1, g2, g3, ?_⟩
  intro dn de h1 h2
  have := C08_spelling_find _ [] hv (fun _ h => by cases h) dn de h1 h2
  rw [htx, canonSp_canon t ns r ew hns hew] at this
  exact this

/-- … stated over numbers: for all `a, b < 1000` the canonical text of `(a, b)` is a fixed point of `find_twprge` -/
theorem C08_canonical_recognised_nat (a b : Nat) (ha : a < 1000) (hb : b < 1000) (ns ew : Char)
    (hns : ns = 'N' ∨ ns = 'S') (hew : ew = 'E' ∨ ew = 'W') (dn de : Str)
    (h1 : isLegal Gen.LEGAL_NS dn = true) (h2 : isLegal Gen.LEGAL_EW de = true) :
    findTwprgeRaw (canonText (natToStr a) ns (natToStr b) ew) dn de = .ok [canonText (natToStr a) ns (natToStr b) ew] := by
  have hda : ∀ c ∈ natToStr a, c.isDigit = true := fun c hc => (isDigit_iff_mem c).2 (natToStr_isDigits a c hc)
  have hdb : ∀ c ∈ natToStr b, c.isDigit = true := fun c hc => (isDigit_iff_mem c).2 (natToStr_isDigits b c hc)
  have := (C08_canonical_recognised (natToStr a) (natToStr b) ns ew hda (natToStr_len_lt_1000 a ha) hns hdb
    (natToStr_len_lt_1000 b hb) hew).2.2.2.2.2.2 dn de h1 h2
  rw [strip_natToStr, strip_natToStr] at this
  exact this

/-- leading zeros: `T007N-R097W` is recognised and reported as `T7N-R97W` -/
theorem C08_canonical_leading_zeros (t r : Str) (ns ew : Char)
    (ht : ∀ c ∈ t, c.isDigit = true) (htl : 1 ≤ t.length ∧ t.length ≤ 3) (hns : ns = 'N' ∨ ns = 'S')
    (hr : ∀ c ∈ r, c.isDigit = true) (hrl : 1 ≤ r.length ∧ r.length ≤ 3) (hew : ew = 'E' ∨ ew = 'W') (dn de : Str)
    (h1 : isLegal Gen.LEGAL_NS dn = true) (h2 : isLegal Gen.LEGAL_EW de = true) :
    findTwprgeRaw (canonText t ns r ew) dn de = .ok [canonText (natToStr (digitsNat t)) ns (natToStr (digitsNat r)) ew] := by
  have := (C08_canonical_recognised t r ns ew ht htl hns hr hrl hew).2.2.2.2.2.2 dn de h1 h2
  have htne : t ≠ [] := by intro h; rw [h] at htl; simp at htl
  have hrne : r ≠ [] := by intro h; rw [h] at hrl; simp at hrl
  rw [strip_digits t (isDigits_of_isDigit ht) htne, strip_digits r (isDigits_of_isDigit hr) hrne] at this
  exact this

/-- **item 4 — the match ends where the canonical Twp/Rge ends**, whatever follows, as long as the next character cannot
    continue the word "West"/"East" (it is not one of `e s t a` in either case, nor `ſ`) -/
theorem C08_canonical_right_context (t r : Str) (ns ew : Char) (ctx : Str)
    (ht : ∀ c ∈ t, c.isDigit = true) (htl : 1 ≤ t.length ∧ t.length ≤ 3) (hns : ns = 'N' ∨ ns = 'S')
    (hr : ∀ c ∈ r, c.isDigit = true) (hrl : 1 ≤ r.length ∧ r.length ≤ 3) (hew : ew = 'E' ∨ ew = 'W')
    (hctx : EndsTwprge ctx) :
    Gen.twprge_regex.search (canonText t ns r ew ++ ctx) = some ((canonSp t ns r ew).matchAt 0) ∧
    ((canonSp t ns r ew).matchAt 0).stop = (canonText t ns r ew).length := by
  have hv := canonSp_valid t ns r ew ctx ht htl hns hr hrl hew hctx
  have := C08_spelling_search _ ctx hv
  rw [canonSp_text] at this
  exact ⟨this, by simp only [Spelling.matchAt, Nat.zero_add, canonSp_text]⟩

/-! ## The preprocessing scrubbers on the canonical spelling -/

theorem Eats.eps (tail : List Char) : Eats .eps [] tail (fun _ caps => caps) := fun _ _ _ => rfl

theorem Leads.congr_rx {r r' : Rx} {s s' : St} (e : r = r') (h : Leads r' s s') : Leads r s s' := e ▸ h

/-- `Eats.seq` with the tail of the first component given in any presentation -/
theorem Eats.seq' {a b : Rx} {s1 s2 T tail : List Char} {f1 f2 : Nat → Caps → Caps}
    (h1 : Eats a s1 T f1) (h2 : Eats b s2 tail f2) (hT : T = s2 ++ tail) :
    Eats (.seq a b) (s1 ++ s2) tail (fun pos caps => f2 (pos + s1.length) (f1 pos caps)) := by
  subst hT
  exact Eats.seq h1 h2

/-- a non-nullable pattern none of whose first-sets contains an ASCII digit fails before a digit -/
theorem failsOn_digit_first (r : Rx) (hn : r.nullable = false) (hf : r.firstSets.all (fun cs => asciiDigits.disj cs) = true)
    (tail : List Char) (hd : ∃ c t, tail = c :: t ∧ asciiDigits.mem c = true) : FailsOn r tail := by
  obtain ⟨c, t, rfl, hc⟩ := hd
  refine FailsOn.of_first hn ?_
  intro x hx cs hcs
  simp only [List.head?_cons, Option.some.injEq] at hx
  subst hx
  simp only [List.all_eq_true] at hf
  exact CharSet.disj_mem (hf cs hcs) hc

theorem IsDigits.head_digit {l : List Char} (hl : IsDigits l) (hne : l ≠ []) (tail : List Char) :
    ∃ c t, l ++ tail = c :: t ∧ asciiDigits.mem c = true := by
  cases l with
  | nil => exact absurd rfl hne
  | cons c t => exact ⟨c, t ++ tail, rfl, hl c (by simp)⟩

/-- the optional direction groups of the preprocessing patterns -/
def ppNS : Rx := .grp 4 (.alt (.seq (.chr Gen.cs_38ea6e46) (.rep (.chr Gen.cs_69521832) 0 (some 5))) (.seq (.chr Gen.cs_faf00333) (.rep (.chr Gen.cs_0c0f8a50) 0 (some 5))))
def ppEW : Rx := .grp 7 (.alt (.seq (.chr Gen.cs_ae876102) (.rep (.chr Gen.cs_ae3e3c7d) 0 (some 3))) (.seq (.chr Gen.cs_5f20f5ed) (.rep (.chr Gen.cs_68819f8e) 0 (some 3))))
def ppN3 : Rx := .grp 3 (.rep (.chr Gen.cs_940665b9) 1 (some 3))
def ppN6 : Rx := .grp 6 (.rep (.chr Gen.cs_940665b9) 1 (some 3))
/-- `[\.\-–—,;\|_~\s]+` -/
def ppD3 : Rx := .rep (.chr Gen.cs_f3df237d) 1 none

theorem no_nswe_decomp : ∃ A, Gen.pp_twprge_no_nswe =
    .seq twG1 (.seq (.chr Gen.cs_93b62202) (.seq (.rep (.grp 2 A) 0 (some 1)) (.seq twD (.seq ppN3 (.seq twD (.seq (.rep ppNS 0 (some 1))
      (.seq ppD3 (.seq (.chr Gen.cs_ecd0074f) (.seq (.rep (.grp 5 (.rep (.chr Gen.cs_25709165) 0 (some 6))) 0 (some 1)) (.seq twD (.seq ppN6
      (.seq twD (.rep ppEW 0 (some 1)))))))))))))) ∧
    A.nullable = false ∧ A.firstSets.all (fun cs => asciiDigits.disj cs) = true :=
  ⟨_, rfl, by decide +kernel, by decide +kernel⟩

/-- what the scrubbers need to know about the match of a preprocessing pattern on the canonical text -/
structure CanonMatch (m : Match) (t r : Str) : Prop where
  start : m.start = 0
  stop : m.stop = 5 + t.length + r.length
  twp : m.span? 3 = some (1, 1 + t.length)
  ns : m.span? 4 = some (1 + t.length, 2 + t.length)
  rge : m.span? 6 = some (4 + t.length, 4 + t.length + r.length)
  ew : m.span? 7 = some (4 + t.length + r.length, 5 + t.length + r.length)

/-- the hypotheses on the pieces of a canonical text, bundled -/
structure CanonHyp (t r : Str) (nc ec : Char) (ctx : Str) : Prop where
  t_dig : IsDigits t
  t_len : 1 ≤ t.length ∧ t.length ≤ 3
  nc : nc = 'N' ∨ nc = 'S'
  r_dig : IsDigits r
  r_len : 1 ≤ r.length ∧ r.length ≤ 3
  ec : ec = 'E' ∨ ec = 'W'
  ctx : EndsTwprge ctx

theorem CanonHyp.tne {t r : Str} {nc ec : Char} {ctx : Str} (h : CanonHyp t r nc ec ctx) : t ≠ [] := by
  intro e; have := h.t_len.1; rw [e] at this; simp at this

theorem CanonHyp.rne {t r : Str} {nc ec : Char} {ctx : Str} (h : CanonHyp t r nc ec ctx) : r ≠ [] := by
  intro e; have := h.r_len.1; rw [e] at this; simp at this

theorem CanonHyp.nc_facts {t r : Str} {nc ec : Char} {ctx : Str} (h : CanonHyp t r nc ec ctx) :
    Gen.cs_940665b9.mem nc = false ∧ Gen.cs_6862e64c.mem nc = false ∧ (Gen.cs_38ea6e46.mem nc = true ∨ Gen.cs_faf00333.mem nc = true) := by
  rcases h.nc with rfl | rfl
  · exact ⟨by decide +kernel, by decide +kernel, Or.inl (by decide +kernel)⟩
  · exact ⟨by decide +kernel, by decide +kernel, Or.inr (by decide +kernel)⟩

theorem CanonHyp.ec_facts {t r : Str} {nc ec : Char} {ctx : Str} (h : CanonHyp t r nc ec ctx) :
    Gen.cs_940665b9.mem ec = false ∧ Gen.cs_6862e64c.mem ec = false ∧ (Gen.cs_ae876102.mem ec = true ∨ Gen.cs_5f20f5ed.mem ec = true) := by
  rcases h.ec with rfl | rfl
  · exact ⟨by decide +kernel, by decide +kernel, Or.inr (by decide +kernel)⟩
  · exact ⟨by decide +kernel, by decide +kernel, Or.inl (by decide +kernel)⟩

theorem CanonHyp.ns_dir {t r : Str} {nc ec : Char} {ctx : Str} (h : CanonHyp t r nc ec ctx) (tail : Str) :
    (IsWordOf Gen.cs_38ea6e46 Gen.cs_69521832 5 [nc] ∧ (([nc] : Str).tail.length = 5 ∨ StopAt Gen.cs_69521832 ('-' :: tail))) ∨
    (IsWordOf Gen.cs_faf00333 Gen.cs_0c0f8a50 5 [nc] ∧ (([nc] : Str).tail.length = 5 ∨ StopAt Gen.cs_0c0f8a50 ('-' :: tail))) := by
  rcases h.nc_facts.2.2 with h1 | h1
  · exact Or.inl ⟨IsWordOf.single nc h1, Or.inr (StopAt.cons (by decide))⟩
  · exact Or.inr ⟨IsWordOf.single nc h1, Or.inr (StopAt.cons (by decide))⟩

theorem CanonHyp.ew_dir {t r : Str} {nc ec : Char} {ctx : Str} (h : CanonHyp t r nc ec ctx) :
    (IsWordOf Gen.cs_ae876102 Gen.cs_ae3e3c7d 3 [ec] ∧ (([ec] : Str).tail.length = 3 ∨ StopAt Gen.cs_ae3e3c7d ctx)) ∨
    (IsWordOf Gen.cs_5f20f5ed Gen.cs_68819f8e 3 [ec] ∧ (([ec] : Str).tail.length = 3 ∨ StopAt Gen.cs_68819f8e ctx)) := by
  rcases h.ec_facts.2.2 with h1 | h1
  · exact Or.inl ⟨IsWordOf.single ec h1, Or.inr h.ctx.1⟩
  · exact Or.inr ⟨IsWordOf.single ec h1, Or.inr h.ctx.2⟩

theorem no_nswe_canon (t r : Str) (nc ec : Char) (ctx : Str) (h : CanonHyp t r nc ec ctx) :
    ∃ m, matchHere Gen.pp_twprge_no_nswe ⟨none, canonText t nc r ec ++ ctx, 0, []⟩ false = some m ∧ CanonMatch m t r := by
  obtain ⟨A, hdec, hAn, hAf⟩ := no_nswe_decomp
  have c1 := Eats.chr Gen.cs_93b62202 'T' (t ++ (nc :: '-' :: 'R' :: (r ++ (ec :: ctx)))) (by decide)
  have c2 : Eats (.rep (.grp 2 A) 0 (some 1)) [] (t ++ (nc :: '-' :: 'R' :: (r ++ (ec :: ctx)))) _ :=
    Eats.opt_none (FailsOn.grp 2 (failsOn_digit_first A hAn hAf _ (h.t_dig.head_digit h.tne _)))
  have c3 := eats_dead Gen.cs_6862e64c [] (t ++ (nc :: '-' :: 'R' :: (r ++ (ec :: ctx)))) (fun _ hc => by cases hc)
    (h.t_dig.head_stop h.tne _ (by decide +kernel))
  have c4 := eats_digits 3 t (nc :: '-' :: 'R' :: (r ++ (ec :: ctx))) h.t_dig h.t_len.1 h.t_len.2 (StopAt.cons h.nc_facts.1)
  have c5 := eats_dead Gen.cs_6862e64c [] (nc :: '-' :: 'R' :: (r ++ (ec :: ctx))) (fun _ hc => by cases hc) (StopAt.cons h.nc_facts.2.1)
  have c6 := Eats.opt_some (eats_dir 4 Gen.cs_38ea6e46 Gen.cs_69521832 Gen.cs_faf00333 Gen.cs_0c0f8a50 5 [nc] ('-' :: 'R' :: (r ++ (ec :: ctx))) (by decide +kernel)
    (h.ns_dir _))
  have c7 := Eats.run Gen.cs_f3df237d 1 none ['-'] ('R' :: (r ++ (ec :: ctx))) (by decide) (Or.inr (StopAt.cons (by decide))) (by simp)
    (fun _ hh => by cases hh)
  have c8 := Eats.chr Gen.cs_ecd0074f 'R' (r ++ (ec :: ctx)) (by decide)
  have c9 := Eats.opt_some (Eats.grp 5 (Eats.run Gen.cs_25709165 0 (some 6) [] (r ++ (ec :: ctx)) (fun _ hc => by cases hc)
    (Or.inr (h.r_dig.head_stop h.rne _ (by decide +kernel))) (Nat.zero_le _) (fun _ hh => by cases hh; simp)))
  have c10 := eats_dead Gen.cs_6862e64c [] (r ++ (ec :: ctx)) (fun _ hc => by cases hc) (h.r_dig.head_stop h.rne _ (by decide +kernel))
  have c11 := eats_digits 6 r (ec :: ctx) h.r_dig h.r_len.1 h.r_len.2 (StopAt.cons h.ec_facts.1)
  have c12 := eats_dead Gen.cs_6862e64c [] (ec :: ctx) (fun _ hc => by cases hc) (StopAt.cons h.ec_facts.2.1)
  have c13 := Eats.opt_some (eats_dir 7 Gen.cs_ae876102 Gen.cs_ae3e3c7d Gen.cs_5f20f5ed Gen.cs_68819f8e 3 [ec] ctx (by decide +kernel) h.ew_dir)
  have h12 := Eats.seq' c12 c13 (by simp)
  have h11 := Eats.seq' c11 h12 (by simp)
  have h10 := Eats.seq' c10 h11 (by simp)
  have h9 := Eats.seq' c9 h10 (by simp)
  have h8 := Eats.seq' c8 h9 (by simp)
  have h7 := Eats.seq' c7 h8 (by simp)
  have h6 := Eats.seq' c6 h7 (by simp)
  have h5 := Eats.seq' c5 h6 (by simp)
  have h4 := Eats.seq' c4 h5 (by simp)
  have h3 := Eats.seq' c3 h4 (by simp)
  have h2 := Eats.seq' c2 h3 (by simp)
  have h1 := Eats.seq' c1 h2 (by simp)
  have e : canonText t nc r ec ++ ctx = ['T'] ++ ([] ++ ([] ++ (t ++ ([] ++ ([nc] ++ (['-'] ++ (['R'] ++ ([] ++ ([] ++ (r ++ ([] ++ [ec]))))))))))) ++ ctx := by
    simp [canonText]
  have hG : Leads twG1 ⟨none, canonText t nc r ec ++ ctx, 0, []⟩ ⟨none, canonText t nc r ec ++ ctx, 0, [(1, 0, 0)]⟩ :=
    leads_twG1 none 'T' (t ++ nc :: '-' :: 'R' :: (r ++ [ec]) ++ ctx) 0 [] rfl (by decide +kernel)
  have hB := h1 none 0 [(1, 0, 0)]
  rw [← e] at hB
  have hL := Leads.seq hG hB
  have hL' := Leads.congr_rx hdec hL
  refine ⟨_, matchHere_of_leads false hL' (Or.inl rfl), ?_⟩
  constructor <;> simp [Match.span?, List.find?] <;> omega

theorem no_nsr_decomp : ∃ A, Gen.pp_twprge_no_nsr =
    .seq twG1 (.seq (.chr Gen.cs_93b62202) (.seq (.rep (.grp 2 A) 0 (some 1)) (.seq twD (.seq ppN3 (.seq twD (.seq (.rep ppNS 0 (some 1))
      (.seq ppD3 (.seq (.rep (.grp 5 (.seq (.chr Gen.cs_ecd0074f) (.rep (.chr Gen.cs_25709165) 0 (some 6)))) 0 (some 1)) (.seq twD (.seq ppN6
      (.seq twD ppEW))))))))))) ∧
    A.nullable = false ∧ A.firstSets.all (fun cs => asciiDigits.disj cs) = true :=
  ⟨_, rfl, by decide +kernel, by decide +kernel⟩

theorem no_ewt_decomp : ∃ B, Gen.pp_twprge_no_ewt =
    .seq twG1 (.seq (.rep (.grp 2 (.seq (.chr Gen.cs_93b62202) (.alt .eps B))) 0 (some 1)) (.seq twD (.seq ppN3 (.seq twD (.seq ppNS
      (.seq ppD3 (.seq (.chr Gen.cs_ecd0074f) (.seq (.rep (.grp 5 (.rep (.chr Gen.cs_25709165) 0 (some 6))) 0 (some 1)) (.seq twD (.seq ppN6
      (.seq twD (.rep ppEW 0 (some 1))))))))))))) :=
  ⟨_, rfl⟩

theorem no_nsr_canon (t r : Str) (nc ec : Char) (ctx : Str) (h : CanonHyp t r nc ec ctx) :
    ∃ m, matchHere Gen.pp_twprge_no_nsr ⟨none, canonText t nc r ec ++ ctx, 0, []⟩ false = some m ∧ CanonMatch m t r := by
  obtain ⟨A, hdec, hAn, hAf⟩ := no_nsr_decomp
  have c1 := Eats.chr Gen.cs_93b62202 'T' (t ++ (nc :: '-' :: 'R' :: (r ++ (ec :: ctx)))) (by decide)
  have c2 := (Eats.opt_none (FailsOn.grp 2 (failsOn_digit_first A hAn hAf _ (h.t_dig.head_digit h.tne _))) : Eats (.rep (.grp 2 A) 0 (some 1)) [] (t ++ (nc :: '-' :: 'R' :: (r ++ (ec :: ctx)))) _)
  have c3 := eats_dead Gen.cs_6862e64c [] (t ++ (nc :: '-' :: 'R' :: (r ++ (ec :: ctx)))) (fun _ hc => by cases hc) (h.t_dig.head_stop h.tne _ (by decide +kernel))
  have c4 := eats_digits 3 t (nc :: '-' :: 'R' :: (r ++ (ec :: ctx))) h.t_dig h.t_len.1 h.t_len.2 (StopAt.cons h.nc_facts.1)
  have c5 := eats_dead Gen.cs_6862e64c [] (nc :: '-' :: 'R' :: (r ++ (ec :: ctx))) (fun _ hc => by cases hc) (StopAt.cons h.nc_facts.2.1)
  have c6 := Eats.opt_some (eats_dir 4 Gen.cs_38ea6e46 Gen.cs_69521832 Gen.cs_faf00333 Gen.cs_0c0f8a50 5 [nc] ('-' :: 'R' :: (r ++ (ec :: ctx))) (by decide +kernel) (h.ns_dir _))
  have c7 := Eats.run Gen.cs_f3df237d 1 none ['-'] ('R' :: (r ++ (ec :: ctx))) (by decide) (Or.inr (StopAt.cons (by decide))) (by simp) (fun _ hh => by cases hh)
  have c8 := Eats.opt_some (Eats.grp 5 (eats_word (c0 := Gen.cs_ecd0074f) (cs := Gen.cs_25709165) (hi := 6) (w := ['R']) (tail := (r ++ (ec :: ctx))) (IsWordOf.single 'R' (by decide)) (Or.inr (h.r_dig.head_stop h.rne _ (by decide +kernel)))))
  have c9 := eats_dead Gen.cs_6862e64c [] (r ++ (ec :: ctx)) (fun _ hc => by cases hc) (h.r_dig.head_stop h.rne _ (by decide +kernel))
  have c10 := eats_digits 6 r (ec :: ctx) h.r_dig h.r_len.1 h.r_len.2 (StopAt.cons h.ec_facts.1)
  have c11 := eats_dead Gen.cs_6862e64c [] (ec :: ctx) (fun _ hc => by cases hc) (StopAt.cons h.ec_facts.2.1)
  have c12 := eats_dir 7 Gen.cs_ae876102 Gen.cs_ae3e3c7d Gen.cs_5f20f5ed Gen.cs_68819f8e 3 [ec] ctx (by decide +kernel) h.ew_dir
  have h11 := Eats.seq' c11 c12 (by simp)
  have h10 := Eats.seq' c10 h11 (by simp)
  have h9 := Eats.seq' c9 h10 (by simp)
  have h8 := Eats.seq' c8 h9 (by simp)
  have h7 := Eats.seq' c7 h8 (by simp)
  have h6 := Eats.seq' c6 h7 (by simp)
  have h5 := Eats.seq' c5 h6 (by simp)
  have h4 := Eats.seq' c4 h5 (by simp)
  have h3 := Eats.seq' c3 h4 (by simp)
  have h2 := Eats.seq' c2 h3 (by simp)
  have h1 := Eats.seq' c1 h2 (by simp)
  have e : canonText t nc r ec ++ ctx = (['T'] ++ ([] ++ ([] ++ (t ++ ([] ++ ([nc] ++ (['-'] ++ (['R'] ++ ([] ++ (r ++ ([] ++ ([ec])))))))))))) ++ ctx := by
    simp [canonText]
  have hG : Leads twG1 ⟨none, canonText t nc r ec ++ ctx, 0, []⟩ ⟨none, canonText t nc r ec ++ ctx, 0, [(1, 0, 0)]⟩ :=
    leads_twG1 none 'T' (t ++ nc :: '-' :: 'R' :: (r ++ [ec]) ++ ctx) 0 [] rfl (by decide +kernel)
  have hB := h1 none 0 [(1, 0, 0)]
  rw [← e] at hB
  have hL := Leads.seq hG hB
  have hL' := Leads.congr_rx hdec hL
  refine ⟨_, matchHere_of_leads false hL' (Or.inl rfl), ?_⟩
  constructor <;> simp [Match.span?, List.find?] <;> omega

theorem no_ewt_canon (t r : Str) (nc ec : Char) (ctx : Str) (h : CanonHyp t r nc ec ctx) :
    ∃ m, matchHere Gen.pp_twprge_no_ewt ⟨none, canonText t nc r ec ++ ctx, 0, []⟩ false = some m ∧ CanonMatch m t r := by
  obtain ⟨B, hdec⟩ := no_ewt_decomp
  have c1 := Eats.opt_some (Eats.grp 2 (Eats.seq (Eats.chr Gen.cs_93b62202 'T' ([] ++ (t ++ (nc :: '-' :: 'R' :: (r ++ (ec :: ctx))))) (by decide)) (Eats.alt_l (b := B) (Eats.eps (t ++ (nc :: '-' :: 'R' :: (r ++ (ec :: ctx))))))))
  have c2 := eats_dead Gen.cs_6862e64c [] (t ++ (nc :: '-' :: 'R' :: (r ++ (ec :: ctx)))) (fun _ hc => by cases hc) (h.t_dig.head_stop h.tne _ (by decide +kernel))
  have c3 := eats_digits 3 t (nc :: '-' :: 'R' :: (r ++ (ec :: ctx))) h.t_dig h.t_len.1 h.t_len.2 (StopAt.cons h.nc_facts.1)
  have c4 := eats_dead Gen.cs_6862e64c [] (nc :: '-' :: 'R' :: (r ++ (ec :: ctx))) (fun _ hc => by cases hc) (StopAt.cons h.nc_facts.2.1)
  have c5 := eats_dir 4 Gen.cs_38ea6e46 Gen.cs_69521832 Gen.cs_faf00333 Gen.cs_0c0f8a50 5 [nc] ('-' :: 'R' :: (r ++ (ec :: ctx))) (by decide +kernel) (h.ns_dir _)
  have c6 := Eats.run Gen.cs_f3df237d 1 none ['-'] ('R' :: (r ++ (ec :: ctx))) (by decide) (Or.inr (StopAt.cons (by decide))) (by simp) (fun _ hh => by cases hh)
  have c7 := Eats.chr Gen.cs_ecd0074f 'R' (r ++ (ec :: ctx)) (by decide)
  have c8 := Eats.opt_some (Eats.grp 5 (Eats.run Gen.cs_25709165 0 (some 6) [] (r ++ (ec :: ctx)) (fun _ hc => by cases hc) (Or.inr (h.r_dig.head_stop h.rne _ (by decide +kernel))) (Nat.zero_le _) (fun _ hh => by cases hh; simp)))
  have c9 := eats_dead Gen.cs_6862e64c [] (r ++ (ec :: ctx)) (fun _ hc => by cases hc) (h.r_dig.head_stop h.rne _ (by decide +kernel))
  have c10 := eats_digits 6 r (ec :: ctx) h.r_dig h.r_len.1 h.r_len.2 (StopAt.cons h.ec_facts.1)
  have c11 := eats_dead Gen.cs_6862e64c [] (ec :: ctx) (fun _ hc => by cases hc) (StopAt.cons h.ec_facts.2.1)
  have c12 := Eats.opt_some (eats_dir 7 Gen.cs_ae876102 Gen.cs_ae3e3c7d Gen.cs_5f20f5ed Gen.cs_68819f8e 3 [ec] ctx (by decide +kernel) h.ew_dir)
  have h11 := Eats.seq' c11 c12 (by simp)
  have h10 := Eats.seq' c10 h11 (by simp)
  have h9 := Eats.seq' c9 h10 (by simp)
  have h8 := Eats.seq' c8 h9 (by simp)
  have h7 := Eats.seq' c7 h8 (by simp)
  have h6 := Eats.seq' c6 h7 (by simp)
  have h5 := Eats.seq' c5 h6 (by simp)
  have h4 := Eats.seq' c4 h5 (by simp)
  have h3 := Eats.seq' c3 h4 (by simp)
  have h2 := Eats.seq' c2 h3 (by simp)
  have h1 := Eats.seq' c1 h2 (by simp)
  have e : canonText t nc r ec ++ ctx = ((['T'] ++ []) ++ ([] ++ (t ++ ([] ++ ([nc] ++ (['-'] ++ (['R'] ++ ([] ++ ([] ++ (r ++ ([] ++ ([ec])))))))))))) ++ ctx := by
    simp [canonText]
  have hG : Leads twG1 ⟨none, canonText t nc r ec ++ ctx, 0, []⟩ ⟨none, canonText t nc r ec ++ ctx, 0, [(1, 0, 0)]⟩ :=
    leads_twG1 none 'T' (t ++ nc :: '-' :: 'R' :: (r ++ [ec]) ++ ctx) 0 [] rfl (by decide +kernel)
  have hB := h1 none 0 [(1, 0, 0)]
  rw [← e] at hB
  have hL := Leads.seq hG hB
  have hL' := Leads.congr_rx hdec hL
  refine ⟨_, matchHere_of_leads false hL' (Or.inl rfl), ?_⟩
  constructor <;> simp [Match.span?, List.find?] <;> omega

/-! ### `pp_twprge_comma_remove` = `twprge_regex` followed by `([\s:,;\.\-–—]*)` -/

/-- append a component at the end of a right-nested sequence -/
def Rx.snoc : Rx → Rx → Rx
  | .seq a b, c => .seq a (Rx.snoc b c)
  | r, c => .seq r c

theorem Rx.snoc_all (r c : Rx) : ∀ s, (Rx.snoc r c).all s = (Rx.seq r c).all s := by
  induction r with
  | seq a b _ ihb =>
    intro s
    simp only [Rx.snoc, Rx.all, List.flatMap_assoc]
    congr 1
    funext x
    have := ihb x
    simp only [Rx.all] at this
    exact this
  | _ => intro s; rfl

theorem Leads.snoc {r c : Rx} {s s' : St} (h : Leads (.seq r c) s s') : Leads (Rx.snoc r c) s s' := by
  unfold Leads at *
  rw [Rx.snoc_all]; exact h

theorem comma_decomp : Gen.pp_twprge_comma_remove = Rx.snoc Gen.twprge_regex (.grp 15 (.rep (.chr Gen.cs_0c338893) 0 none)) := rfl

/-- the match of `pp_twprge_comma_remove` on a spelling followed by a run `ws` of `[\s:,;\.\-–—]` -/
def Spelling.commaMatch (sp : Spelling) (ws : Str) : Match :=
  ⟨0, sp.text.length + ws.length, (15, sp.text.length, sp.text.length + ws.length) :: sp.caps 0⟩

theorem comma_matchHere (sp : Spelling) (ws ctx : Str) (hv : sp.Valid (ws ++ ctx)) (hws : ∀ c ∈ ws, Gen.cs_0c338893.mem c = true)
    (hstop : StopAt Gen.cs_0c338893 ctx) :
    matchHere Gen.pp_twprge_comma_remove ⟨none, sp.text ++ (ws ++ ctx), 0, []⟩ false = some (sp.commaMatch ws) := by
  obtain ⟨c, t, htext, hc⟩ := hv.text_head
  obtain ⟨f, hf, hcaps⟩ := eats_twBody sp (ws ++ ctx) hv
  have h1 := leads_twG1 none c t 0 [] rfl hc
  rw [← htext] at h1
  have h2 := hf none 0 [(1, 0, 0)]
  have h12 : Leads Gen.twprge_regex _ _ := Leads.congr_rx twprge_decomp (Leads.seq h1 h2)
  have h15 := Eats.grp 15 (eats_dead Gen.cs_0c338893 ws ctx hws hstop) (lastOr none sp.text) (0 + sp.text.length) (f 0 [(1, 0, 0)])
  have hL := Leads.congr_rx comma_decomp (Leads.snoc (Leads.seq h12 h15))
  rw [matchHere_of_leads false hL (Or.inl rfl), hcaps]
  simp only [Spelling.commaMatch, Nat.zero_add]

theorem comma_mustHitP_digit : Gen.pp_twprge_comma_remove.mustHitP (fun cs => cs == Gen.cs_940665b9) = true := by decide +kernel

theorem comma_finditer (sp : Spelling) (ws : Str) (hv : sp.Valid (ws ++ [])) (hws : ∀ c ∈ ws, Gen.cs_0c338893.mem c = true) :
    Gen.pp_twprge_comma_remove.finditer (sp.text ++ ws) = [sp.commaMatch ws] := by
  have h := comma_matchHere sp ws [] hv hws (StopAt.nil _)
  rw [List.append_nil] at h
  refine finditer_single comma_mustHitP_digit _ _ h ?_ ?_
  · have := hv.text_pos
    simp only [Spelling.commaMatch]
    omega
  · intro c hc
    have : (sp.text ++ ws).drop (sp.commaMatch ws).stop = [] := by
      simp [Spelling.commaMatch]
    rw [this] at hc
    cases hc

/-- groups other than 0 and 15 are read from the Twp/Rge part -/
theorem Spelling.commaMatch_span (sp : Spelling) (ws : Str) (g : Nat) (h0 : g ≠ 0) (h15 : g ≠ 15) :
    (sp.commaMatch ws).span? g = (sp.matchAt 0).span? g := by
  have h0' : (g == 0) = false := by simpa using h0
  have h15' : ((15 : Nat) == g) = false := by simp only [beq_eq_false_iff_ne, ne_eq]; omega
  simp only [Match.span?, h0', Bool.false_eq_true, if_false, Spelling.commaMatch, Spelling.matchAt, List.find?, h15']

def commaPat : Pat := ⟨Gen.pp_twprge_comma_remove, Gen.pp_twprge_comma_remove_groups, Gen.pp_twprge_comma_remove_ngroups⟩

theorem commaPat_group (sp : Spelling) (ws text : Str) (name : String) :
    commaPat.group (sp.commaMatch ws) text name = twprge.group (sp.matchAt 0) text name := by
  have hg : commaPat.groups = twprge.groups := rfl
  unfold Pat.group Pat.idx?
  rw [hg]
  cases hfind : (twprge.groups.find? (fun g => g.1 == name)) with
  | none => rfl
  | some g =>
    simp only [Option.map_some, Match.group?]
    have hmem := List.mem_of_find?_eq_some hfind
    have hg2 : g.2 ≠ 0 ∧ g.2 ≠ 15 := by
      have : ∀ g ∈ twprge.groups, g.2 ≠ 0 ∧ g.2 ≠ 15 := by decide
      exact this g hmem
    rw [sp.commaMatch_span ws g.2 hg2.1 hg2.2]

theorem comma_canonTR (sp : Spelling) (ws : Str) (hv : sp.Valid ws) (ns ew : Str) :
    canonTR commaPat (sp.commaMatch ws) (sp.text ++ ws) ns ew false = sp.canon := by
  rw [← sp.canonTR_eq ws hv ns ew]
  simp only [canonTR, twpPart, rgePart, dirPart, commaPat_group]

/-! ### one scrubbing pass when there is exactly one match, at the start of the text -/

theorem scrub_single (name : String) (p : Pat) (hp : findPat name = p) (hocr : (name == Gen.PLSS_OCR_SCRUBBER) = false)
    (text ns ew : Str) (h1 : isLegal Gen.LEGAL_NS ns = true) (h2 : isLegal Gen.LEGAL_EW ew = true)
    (m : Match) (hf : p.rx.finditer text = [m]) (h0 : m.start = 0) :
    subScrubber name text ns ew = .ok (canonTR p m text ns ew false ++ [' '] ++ text.drop m.stop) := by
  rw [C08_subScrubber_rewrites name text ns ew h1 h2, hp, hf, hocr]
  simp only [rewrite, h0, slice_self, List.nil_append]

theorem scrub_none (name : String) (p : Pat) (hp : findPat name = p)
    (text ns ew : Str) (h1 : isLegal Gen.LEGAL_NS ns = true) (h2 : isLegal Gen.LEGAL_EW ew = true)
    (hf : p.rx.finditer text = []) : subScrubber name text ns ew = .ok text := by
  rw [C08_subScrubber_rewrites name text ns ew h1 h2, hp, hf]
  simp only [rewrite, List.drop_zero]

/-! ### the characters of a canonical text -/

/-- `-`, the digits, `E N R S T W` -/
def canonChars : CharSet := [(45, 45), (48, 57), (69, 69), (78, 78), (82, 84), (87, 87)]

theorem canonText_chars (t r : Str) (nc ec : Char) (ht : IsDigits t) (hnc : nc = 'N' ∨ nc = 'S') (hr : IsDigits r)
    (hec : ec = 'E' ∨ ec = 'W') : ∀ c ∈ canonText t nc r ec, canonChars.mem c = true := by
  have hd : ∀ c, asciiDigits.mem c = true → canonChars.mem c = true := fun c hc => CharSet.sub_mem (by decide) hc
  intro c hc
  simp only [canonText, List.mem_cons, List.mem_append, List.not_mem_nil, or_false] at hc
  rcases hc with rfl | h | rfl | rfl | rfl | h | rfl
  · decide
  · exact hd c (ht c h)
  · rcases hnc with rfl | rfl <;> decide
  · decide
  · decide
  · exact hd c (hr c h)
  · rcases hec with rfl | rfl <;> decide

/-- a canonical text followed by blanks contains no character of a class disjoint from `canonChars` and from the blank -/
theorem canonText_blanks_avoid (X : CharSet) (hX : canonChars.disj X = true) (hb : X.mem ' ' = false)
    (t r : Str) (nc ec : Char) (ht : IsDigits t) (hnc : nc = 'N' ∨ nc = 'S') (hr : IsDigits r) (hec : ec = 'E' ∨ ec = 'W') (k : Nat) :
    ∀ c ∈ canonText t nc r ec ++ List.replicate k ' ', X.mem c = false := by
  intro c hc
  rcases List.mem_append.1 hc with h | h
  · exact CharSet.disj_mem hX (canonText_chars t r nc ec ht hnc hr hec c h)
  · rw [List.eq_of_mem_replicate h]; exact hb

/-! ### the three `pp_twprge_no_*` scrubbers on the canonical text -/

theorem canonText_length (t r : Str) (nc ec : Char) : (canonText t nc r ec).length = 5 + t.length + r.length := by
  simp [canonText]; omega

theorem canonTR_of_canonMatch (p : Pat) (hidx : p.idx? "twpnum" = some 3 ∧ p.idx? "ns" = some 4 ∧ p.idx? "rgenum" = some 6 ∧ p.idx? "ew" = some 7)
    (m : Match) (t r : Str) (nc ec : Char) (ctx : Str) (hm : CanonMatch m t r) (hnc : nc = 'N' ∨ nc = 'S') (hec : ec = 'E' ∨ ec = 'W')
    (ns ew : Str) :
    canonTR p m (canonText t nc r ec ++ ctx) ns ew false = canonText (stripLeadingZerosViaInt t) nc (stripLeadingZerosViaInt r) ec := by
  have g1 : p.group m (canonText t nc r ec ++ ctx) "twpnum" = some t := by
    simp only [Pat.group, hidx.1, Match.group?, hm.twp]
    congr 1
    exact slice_at _ ['T'] t (nc :: '-' :: 'R' :: (r ++ [ec]) ++ ctx) _ _ (by simp [canonText]) rfl (by simp)
  have g2 : p.group m (canonText t nc r ec ++ ctx) "ns" = some [nc] := by
    simp only [Pat.group, hidx.2.1, Match.group?, hm.ns]
    congr 1
    exact slice_at _ ('T' :: t) [nc] ('-' :: 'R' :: (r ++ [ec]) ++ ctx) _ _ (by simp [canonText]) (by simp; omega) (by simp; omega)
  have g3 : p.group m (canonText t nc r ec ++ ctx) "rgenum" = some r := by
    simp only [Pat.group, hidx.2.2.1, Match.group?, hm.rge]
    congr 1
    exact slice_at _ ('T' :: (t ++ [nc, '-', 'R'])) r ([ec] ++ ctx) _ _ (by simp [canonText]) (by simp; omega) (by simp; omega)
  have g4 : p.group m (canonText t nc r ec ++ ctx) "ew" = some [ec] := by
    simp only [Pat.group, hidx.2.2.2, Match.group?, hm.ew]
    congr 1
    exact slice_at _ ('T' :: (t ++ [nc, '-', 'R'] ++ r)) [ec] ctx _ _ (by simp [canonText]) (by simp; omega) (by simp; omega)
  unfold canonTR twpPart rgePart dirPart
  rw [g1, g2, g3, g4]
  rcases hnc with rfl | rfl <;> rcases hec with rfl | rfl <;> simp [canonText, pyUpper, pyUpperChar]

/-- blanks after a canonical text -/
theorem canonHyp_blanks (t r : Str) (nc ec : Char) (k : Nat) (ht : IsDigits t) (htl : 1 ≤ t.length ∧ t.length ≤ 3)
    (hnc : nc = 'N' ∨ nc = 'S') (hr : IsDigits r) (hrl : 1 ≤ r.length ∧ r.length ≤ 3) (hec : ec = 'E' ∨ ec = 'W') :
    CanonHyp t r nc ec (List.replicate k ' ') := by
  refine ⟨ht, htl, hnc, hr, hrl, hec, ?_⟩
  cases k with
  | zero => exact EndsTwprge.nil
  | succ n => exact EndsTwprge.cons _ (by decide)

theorem blanks_no_digit (k : Nat) : ∀ c ∈ List.replicate k ' ', Gen.cs_940665b9.mem c = false := by
  intro c hc; rw [List.eq_of_mem_replicate hc]; decide +kernel

/-- one pass of a `pp_twprge_no_*` scrubber over a canonical text followed by `k` blanks: one more blank -/
theorem pp_scrub_step (name : String) (p : Pat) (hp : findPat name = p) (hocr : (name == Gen.PLSS_OCR_SCRUBBER) = false)
    (hidx : p.idx? "twpnum" = some 3 ∧ p.idx? "ns" = some 4 ∧ p.idx? "rgenum" = some 6 ∧ p.idx? "ew" = some 7)
    (hmust : p.rx.mustHitP (fun cs => cs == Gen.cs_940665b9) = true)
    (hmatch : ∀ (t r : Str) (nc ec : Char) (ctx : Str), CanonHyp t r nc ec ctx →
      ∃ m, matchHere p.rx ⟨none, canonText t nc r ec ++ ctx, 0, []⟩ false = some m ∧ CanonMatch m t r)
    (t r : Str) (nc ec : Char) (k : Nat) (ht : IsDigits t) (htl : 1 ≤ t.length ∧ t.length ≤ 3)
    (hnc : nc = 'N' ∨ nc = 'S') (hr : IsDigits r) (hrl : 1 ≤ r.length ∧ r.length ≤ 3) (hec : ec = 'E' ∨ ec = 'W')
    (ns ew : Str) (h1 : isLegal Gen.LEGAL_NS ns = true) (h2 : isLegal Gen.LEGAL_EW ew = true) :
    subScrubber name (canonText t nc r ec ++ List.replicate k ' ') ns ew =
      .ok (canonText (stripLeadingZerosViaInt t) nc (stripLeadingZerosViaInt r) ec ++ List.replicate (k + 1) ' ') := by
  obtain ⟨m, hm, hcm⟩ := hmatch t r nc ec _ (canonHyp_blanks t r nc ec k ht htl hnc hr hrl hec)
  have hstop : m.stop = (canonText t nc r ec).length := by rw [hcm.stop, canonText_length]
  have hfi : p.rx.finditer (canonText t nc r ec ++ List.replicate k ' ') = [m] := by
    refine finditer_single hmust _ m hm (by rw [hcm.start, hcm.stop]; omega) ?_
    intro c hc cs hcs
    simp only [beq_iff_eq] at hcs
    subst hcs
    rw [hstop, List.drop_left] at hc
    exact blanks_no_digit k c hc
  rw [scrub_single name p hp hocr _ ns ew h1 h2 m hfi hcm.start, canonTR_of_canonMatch p hidx m t r nc ec _ hcm hnc hec, hstop,
    List.drop_left]
  simp [List.replicate_succ]

/-! ### whitespace reduction and the Principal-Meridian scrubber see nothing in a canonical text -/

/-- a class that contains neither a character of a canonical text nor the blank -/
def avoidsCanon (cs : CharSet) : Bool := canonChars.disj cs && !cs.mem ' '
/-- a class that contains no character of a canonical text -/
def avoidsCanon' (cs : CharSet) : Bool := canonChars.disj cs

theorem canon_blanks_noHit (t r : Str) (nc ec : Char) (ht : IsDigits t) (hnc : nc = 'N' ∨ nc = 'S') (hr : IsDigits r)
    (hec : ec = 'E' ∨ ec = 'W') (k : Nat) :
    ∀ c ∈ canonText t nc r ec ++ List.replicate k ' ', ∀ cs, avoidsCanon cs = true → cs.mem c = false := by
  intro c hc cs hcs
  simp only [avoidsCanon, Bool.and_eq_true, Bool.not_eq_true'] at hcs
  exact canonText_blanks_avoid cs hcs.1 hcs.2 t r nc ec ht hnc hr hec k c hc

theorem canon_noHit' (t r : Str) (nc ec : Char) (ht : IsDigits t) (hnc : nc = 'N' ∨ nc = 'S') (hr : IsDigits r)
    (hec : ec = 'E' ∨ ec = 'W') : ∀ c ∈ canonText t nc r ec, ∀ cs, avoidsCanon' cs = true → cs.mem c = false := by
  intro c hc cs hcs
  exact CharSet.disj_mem hcs (canonText_chars t r nc ec ht hnc hr hec c hc)

theorem pm_mustHitP : Gen.pp_twprge_pm.mustHitP avoidsCanon = true := by decide +kernel

theorem ws_mustHitP :
    Gen.inl_plss_preprocess_reduce_whitespace_0.mustHitP avoidsCanon' = true ∧
    Gen.inl_plss_preprocess_reduce_whitespace_1.mustHitP avoidsCanon' = true ∧
    Gen.inl_plss_preprocess_reduce_whitespace_2.mustHitP avoidsCanon' = true ∧
    Gen.inl_plss_preprocess_reduce_whitespace_3.mustHitP avoidsCanon' = true ∧
    Gen.inl_plss_preprocess_reduce_whitespace_4.mustHitP avoidsCanon' = true := by decide +kernel

theorem reduceWhitespaceStep_canon (t r : Str) (nc ec : Char) (ht : IsDigits t) (hnc : nc = 'N' ∨ nc = 'S') (hr : IsDigits r)
    (hec : ec = 'E' ∨ ec = 'W') : reduceWhitespaceStep (canonText t nc r ec) = canonText t nc r ec := by
  have hno := canon_noHit' t r nc ec ht hnc hr hec
  unfold reduceWhitespaceStep
  simp only [sub_id_of_noHit ws_mustHitP.1 _ _ hno, sub_id_of_noHit ws_mustHitP.2.1 _ _ hno, sub_id_of_noHit ws_mustHitP.2.2.1 _ _ hno,
    sub_id_of_noHit ws_mustHitP.2.2.2.1 _ _ hno, sub_id_of_noHit ws_mustHitP.2.2.2.2 _ _ hno]

theorem lstripBy_spaces (p : Char → Bool) : ∀ (ws b : Str), (∀ c ∈ ws, p c = true) → lstripBy p (ws ++ b) = lstripBy p b := by
  intro ws
  induction ws with
  | nil => intro b _; rfl
  | cons c t ih =>
    intro b h
    simp only [List.cons_append, lstripBy, h c (by simp), if_true]
    exact ih b (fun x hx => h x (by simp [hx]))

theorem stripBy_append_spaces (p : Char → Bool) (a ws : Str) (x y : Char) (hhead : a.head? = some x) (hx : p x = false)
    (hlast : a.getLast? = some y) (hy : p y = false) (hws : ∀ c ∈ ws, p c = true) : stripBy p (a ++ ws) = a := by
  unfold stripBy rstripBy
  rw [lstripBy_id' p (a ++ ws) (fun c hc => by
    cases a with
    | nil => cases hhead
    | cons d u =>
      simp only [List.cons_append, List.head?_cons, Option.some.injEq] at hc hhead
      rw [← hc, hhead]; exact hx)]
  rw [List.reverse_append, lstripBy_spaces p ws.reverse a.reverse (fun c hc => hws c (by simpa using hc)),
    lstripBy_id' p a.reverse (fun c hc => by
      rw [List.head?_reverse, hlast] at hc
      cases hc; exact hy), List.reverse_reverse]

theorem pyStrip_canon_blanks (t r : Str) (nc ec : Char) (hec : ec = 'E' ∨ ec = 'W') (k : Nat) :
    pyStrip (canonText t nc r ec ++ List.replicate k ' ') = canonText t nc r ec := by
  refine stripBy_append_spaces pyIsSpace _ _ 'T' ec rfl (by decide) ?_ ?_ ?_
  · have : canonText t nc r ec = ('T' :: (t ++ nc :: '-' :: 'R' :: r)) ++ [ec] := by simp [canonText]
    rw [this, List.getLast?_concat]
  · rcases hec with rfl | rfl <;> decide
  · intro c hc; rw [List.eq_of_mem_replicate hc]; decide

theorem reduceWhitespace_canon_blanks (t r : Str) (nc ec : Char) (ht : IsDigits t) (hnc : nc = 'N' ∨ nc = 'S') (hr : IsDigits r)
    (hec : ec = 'E' ∨ ec = 'W') (k : Nat) :
    reduceWhitespace (canonText t nc r ec ++ List.replicate k ' ') = some (canonText t nc r ec) := by
  unfold reduceWhitespace
  simp only [pyStrip_canon_blanks t r nc ec hec k]
  have hf : 2 * (canonText t nc r ec).length + 8 = (2 * (canonText t nc r ec).length + 7) + 1 := by omega
  rw [hf, Tract.untilStable]
  simp only [reduceWhitespaceStep_canon t r nc ec ht hnc hr hec, beq_self_eq_true, if_true]

/-! ### numbers after stripping -/

theorem digitsNat_foldl_lt : ∀ (l : List Char) (acc : Nat), IsDigits l →
    l.foldl (fun acc c => acc * 10 + (c.toNat - 48)) acc < (acc + 1) * 10 ^ l.length := by
  intro l
  induction l with
  | nil => intro acc _; simp
  | cons c t ih =>
    intro acc hd
    have hc := asciiDigit_bounds (hd c (by simp))
    have := ih (acc * 10 + (c.toNat - 48)) (fun x hx => hd x (by simp [hx]))
    simp only [List.foldl_cons, List.length_cons, Nat.pow_succ]
    have h2 : (acc * 10 + (c.toNat - 48) + 1) * 10 ^ t.length ≤ ((acc + 1) * 10) * 10 ^ t.length :=
      Nat.mul_le_mul_right _ (by omega)
    calc _ < (acc * 10 + (c.toNat - 48) + 1) * 10 ^ t.length := this
      _ ≤ ((acc + 1) * 10) * 10 ^ t.length := h2
      _ = (acc + 1) * (10 ^ t.length * 10) := by rw [Nat.mul_assoc, Nat.mul_comm 10]

theorem digitsNat_lt (l : List Char) (hd : IsDigits l) (h3 : l.length ≤ 3) : digitsNat l < 1000 := by
  have := digitsNat_foldl_lt l 0 hd
  have hp : 10 ^ l.length ≤ 10 ^ 3 := Nat.pow_le_pow_right (by omega) h3
  simp only [digitsNat]
  omega

/-- a stripped number is again one to three digits, and stripping it again changes nothing -/
theorem strip_props (l : List Char) (hd : IsDigits l) (h1 : 1 ≤ l.length) (h3 : l.length ≤ 3) :
    IsDigits (stripLeadingZerosViaInt l) ∧ (1 ≤ (stripLeadingZerosViaInt l).length ∧ (stripLeadingZerosViaInt l).length ≤ 3) ∧
    stripLeadingZerosViaInt (stripLeadingZerosViaInt l) = stripLeadingZerosViaInt l := by
  have hne : l ≠ [] := by intro h; rw [h] at h1; simp at h1
  rw [strip_digits l hd hne]
  exact ⟨natToStr_isDigits _, natToStr_len_lt_1000 _ (digitsNat_lt l hd h3), strip_natToStr _⟩

/-! ### the scrubbers after `twprge_regex`, and the whole of `plss_preprocess` -/

def ppNswePat : Pat := ⟨Gen.pp_twprge_no_nswe, Gen.pp_twprge_no_nswe_groups, Gen.pp_twprge_no_nswe_ngroups⟩
def ppNsrPat : Pat := ⟨Gen.pp_twprge_no_nsr, Gen.pp_twprge_no_nsr_groups, Gen.pp_twprge_no_nsr_ngroups⟩
def ppEwtPat : Pat := ⟨Gen.pp_twprge_no_ewt, Gen.pp_twprge_no_ewt_groups, Gen.pp_twprge_no_ewt_ngroups⟩
def ppPmPat : Pat := ⟨Gen.pp_twprge_pm, Gen.pp_twprge_pm_groups, Gen.pp_twprge_pm_ngroups⟩

theorem pp_mustHitP_digit :
    Gen.pp_twprge_no_nswe.mustHitP (fun cs => cs == Gen.cs_940665b9) = true ∧ Gen.pp_twprge_no_nsr.mustHitP (fun cs => cs == Gen.cs_940665b9) = true ∧
    Gen.pp_twprge_no_ewt.mustHitP (fun cs => cs == Gen.cs_940665b9) = true := by decide +kernel

/-- scrubbers 2–6 on a canonical text (numbers without leading zeros) followed by one blank: the text comes back unchanged -/
theorem canon_scrub_tail (t r : Str) (nc ec : Char) (ht : IsDigits t) (htl : 1 ≤ t.length ∧ t.length ≤ 3)
    (hnc : nc = 'N' ∨ nc = 'S') (hr : IsDigits r) (hrl : 1 ≤ r.length ∧ r.length ≤ 3) (hec : ec = 'E' ∨ ec = 'W')
    (hst : stripLeadingZerosViaInt t = t) (hsr : stripLeadingZerosViaInt r = r)
    (ns ew : Str) (h1 : isLegal Gen.LEGAL_NS ns = true) (h2 : isLegal Gen.LEGAL_EW ew = true) :
    ["pp_twprge_no_nswe", "pp_twprge_no_nsr", "pp_twprge_no_ewt", "pp_twprge_pm", "pp_twprge_comma_remove"].foldlM
      (fun txt n => subScrubber n txt ns ew) (canonText t nc r ec ++ List.replicate 1 ' ') = .ok (canonText t nc r ec ++ [' ']) := by
  have s2 := pp_scrub_step "pp_twprge_no_nswe" ppNswePat rfl (by decide) (by decide) pp_mustHitP_digit.1
    (fun t r nc ec ctx h => no_nswe_canon t r nc ec ctx h) t r nc ec 1 ht htl hnc hr hrl hec ns ew h1 h2
  have s3 := pp_scrub_step "pp_twprge_no_nsr" ppNsrPat rfl (by decide) (by decide) pp_mustHitP_digit.2.1
    (fun t r nc ec ctx h => no_nsr_canon t r nc ec ctx h) t r nc ec 2 ht htl hnc hr hrl hec ns ew h1 h2
  have s4 := pp_scrub_step "pp_twprge_no_ewt" ppEwtPat rfl (by decide) (by decide) pp_mustHitP_digit.2.2
    (fun t r nc ec ctx h => no_ewt_canon t r nc ec ctx h) t r nc ec 3 ht htl hnc hr hrl hec ns ew h1 h2
  have s5 := scrub_none "pp_twprge_pm" ppPmPat rfl (canonText t nc r ec ++ List.replicate 4 ' ') ns ew h1 h2
    (finditer_nil_of_noHit pm_mustHitP _ (canon_blanks_noHit t r nc ec ht hnc hr hec 4))
  have hv : (canonSp t nc r ec).Valid (List.replicate 4 ' ' ++ []) :=
    canonSp_valid t nc r ec _ (fun c hc => (isDigit_iff_mem c).2 (ht c hc)) htl hnc (fun c hc => (isDigit_iff_mem c).2 (hr c hc)) hrl hec
      (EndsTwprge.cons _ (by decide))
  have hfi := comma_finditer (canonSp t nc r ec) (List.replicate 4 ' ') hv (by decide)
  have hv' : (canonSp t nc r ec).Valid (List.replicate 4 ' ') := by rw [List.append_nil] at hv; exact hv
  have s6 := scrub_single "pp_twprge_comma_remove" commaPat rfl (by decide) _ ns ew h1 h2 _ hfi rfl
  rw [comma_canonTR _ _ hv', canonSp_canon t nc r ec hnc hec, hst, hsr, canonSp_text] at s6
  rw [hst, hsr] at s2 s3 s4
  simp only [List.foldlM_cons, List.foldlM_nil, s2, s3, s4, s5, s6, bind, Except.bind, pure, Except.pure]
  simp [Spelling.commaMatch, canonSp_text]

theorem char_of_toNat (c : Char) (n : Nat) (h : c.toNat = n) : c = Char.ofNat n := by rw [← h, Char.ofNat_toNat]

theorem upper_ns (c : Char) (h : Gen.cs_38ea6e46.mem c = true ∨ Gen.cs_faf00333.mem c = true) : pyUpper [c] = ['N'] ∨ pyUpper [c] = ['S'] := by
  rcases h with h | h
  · left
    simp only [Gen.cs_38ea6e46, CharSet.mem, List.any_cons, List.any_nil, Bool.or_false, Bool.or_eq_true, Bool.and_eq_true, decide_eq_true_eq] at h
    have : c.toNat = 78 ∨ c.toNat = 110 := by omega
    rcases this with h | h <;> rw [char_of_toNat c _ h] <;> decide
  · right
    simp only [Gen.cs_faf00333, CharSet.mem, List.any_cons, List.any_nil, Bool.or_false, Bool.or_eq_true, Bool.and_eq_true, decide_eq_true_eq] at h
    have : c.toNat = 83 ∨ c.toNat = 115 ∨ c.toNat = 383 := by omega
    rcases this with h | h | h <;> rw [char_of_toNat c _ h] <;> decide

theorem upper_ew (c : Char) (h : Gen.cs_ae876102.mem c = true ∨ Gen.cs_5f20f5ed.mem c = true) : pyUpper [c] = ['E'] ∨ pyUpper [c] = ['W'] := by
  rcases h with h | h
  · right
    simp only [Gen.cs_ae876102, CharSet.mem, List.any_cons, List.any_nil, Bool.or_false, Bool.or_eq_true, Bool.and_eq_true, decide_eq_true_eq] at h
    have : c.toNat = 87 ∨ c.toNat = 119 := by omega
    rcases this with h | h <;> rw [char_of_toNat c _ h] <;> decide
  · left
    simp only [Gen.cs_5f20f5ed, CharSet.mem, List.any_cons, List.any_nil, Bool.or_false, Bool.or_eq_true, Bool.and_eq_true, decide_eq_true_eq] at h
    have : c.toNat = 69 ∨ c.toNat = 101 := by omega
    rcases this with h | h <;> rw [char_of_toNat c _ h] <;> decide

/-- what `unpack_twprge` returns for a valid spelling is a canonical text -/
theorem Spelling.Valid.canon_form {sp : Spelling} {ctx : Str} (hv : sp.Valid ctx) :
    ∃ nc ec, (nc = 'N' ∨ nc = 'S') ∧ (ec = 'E' ∨ ec = 'W') ∧
      sp.canon = canonText (stripLeadingZerosViaInt sp.t) nc (stripLeadingZerosViaInt sp.r) ec := by
  have hn : ∃ nc, (nc = 'N' ∨ nc = 'S') ∧ pyUpper (sp.nsw.take 1) = [nc] := by
    have hh : ∀ c, sp.nsw.head? = some c → Gen.cs_38ea6e46.mem c = true ∨ Gen.cs_faf00333.mem c = true := by
      intro c hc
      rcases hv.ns with h | h
      · exact Or.inl (h.1.head c hc)
      · exact Or.inr (h.1.head c hc)
    cases hw : sp.nsw with
    | nil => exact absurd hw hv.nsw_ne
    | cons c t =>
      rw [hw] at hh
      rcases upper_ns c (hh c rfl) with h | h
      · exact ⟨'N', Or.inl rfl, by simpa using h⟩
      · exact ⟨'S', Or.inr rfl, by simpa using h⟩
  have he : ∃ ec, (ec = 'E' ∨ ec = 'W') ∧ pyUpper (sp.eww.take 1) = [ec] := by
    have hh : ∀ c, sp.eww.head? = some c → Gen.cs_ae876102.mem c = true ∨ Gen.cs_5f20f5ed.mem c = true := by
      intro c hc
      rcases hv.ew with h | h
      · exact Or.inl (h.1.head c hc)
      · exact Or.inr (h.1.head c hc)
    cases hw : sp.eww with
    | nil => exact absurd hw hv.eww_ne
    | cons c t =>
      rw [hw] at hh
      rcases upper_ew c (hh c rfl) with h | h
      · exact ⟨'E', Or.inl rfl, by simpa using h⟩
      · exact ⟨'W', Or.inr rfl, by simpa using h⟩
  obtain ⟨nc, hnc, en⟩ := hn
  obtain ⟨ec, hec, ee⟩ := he
  refine ⟨nc, ec, hnc, hec, ?_⟩
  simp [Spelling.canon, en, ee, canonText]

/-- **plss_preprocess on any valid spelling standing alone**: the text becomes the canonical spelling (numbers without leading
    zeros, upper-case letters), no Twp/Rge is reported as "fixed", and the whitespace loop converges -/
theorem C08_spelling_preprocess (sp : Spelling) (hv : sp.Valid []) (mc : MC) (defNS defEW : Option Str)
    (hm1 : isLegal Gen.LEGAL_NS mc.ns = true) (hm2 : isLegal Gen.LEGAL_EW mc.ew = true)
    (h1 : isLegal Gen.LEGAL_NS (resolve defNS mc.ns) = true) (h2 : isLegal Gen.LEGAL_EW (resolve defEW mc.ew) = true) :
    ∃ res, plssPreprocess mc sp.text defNS defEW false = .ok res ∧ res.text = sp.canon ∧ res.fixed = [] ∧ res.diverged = false := by
  obtain ⟨nc, ec, hnc, hec, hcanon⟩ := hv.canon_form
  obtain ⟨pt1, pt2, pt3⟩ := strip_props sp.t hv.t_dig hv.t_len.1 hv.t_len.2
  obtain ⟨pr1, pr2, pr3⟩ := strip_props sp.r hv.r_dig hv.r_len.1 hv.r_len.2
  have ho : findTwprgeRaw sp.text mc.ns mc.ew = .ok [sp.canon] := by
    have := C08_spelling_find sp [] hv (fun _ h => by cases h) mc.ns mc.ew hm1 hm2
    rwa [List.append_nil] at this
  have hfi : twprge.rx.finditer sp.text = [sp.matchAt 0] := by
    have := C08_spelling_finditer sp [] hv (fun _ h => by cases h)
    rwa [List.append_nil] at this
  have s1 := scrub_single "twprge_regex" twprge rfl (by decide) sp.text (resolve defNS mc.ns) (resolve defEW mc.ew) h1 h2 _ hfi rfl
  have hce := sp.canonTR_eq [] hv (resolve defNS mc.ns) (resolve defEW mc.ew)
  rw [List.append_nil] at hce
  rw [hce] at s1
  have hdrop : sp.text.drop (sp.matchAt 0).stop = [] := by simp [Spelling.matchAt]
  rw [hdrop, List.append_nil, hcanon] at s1
  have stail := canon_scrub_tail _ _ nc ec pt1 pt2 hnc pr1 pr2 hec pt3 pr3 (resolve defNS mc.ns) (resolve defEW mc.ew) h1 h2
  have hrw := reduceWhitespace_canon_blanks _ _ nc ec pt1 hnc pr1 hec 1
  have hfin := (C08_canonical_recognised (stripLeadingZerosViaInt sp.t) (stripLeadingZerosViaInt sp.r) nc ec
    (fun c hc => (isDigit_iff_mem c).2 (pt1 c hc)) pt2 hnc (fun c hc => (isDigit_iff_mem c).2 (pr1 c hc)) pr2 hec).2.2.2.2.2.2
    mc.ns mc.ew hm1 hm2
  rw [pt3, pr3] at hfin
  have hnames : scrubberNames false = "twprge_regex" ::
      ["pp_twprge_no_nswe", "pp_twprge_no_nsr", "pp_twprge_no_ewt", "pp_twprge_pm", "pp_twprge_comma_remove"] := rfl
  refine ⟨⟨sp.canon, [], false⟩, ?_, rfl, rfl, rfl⟩
  unfold plssPreprocess
  simp only [ho, hnames]
  rw [List.foldlM_cons]
  simp only [s1, bind, Except.bind]
  have e1 : ([' '] : Str) = List.replicate 1 ' ' := rfl
  rw [e1, stail]
  simp only [← e1]
  rw [e1, hrw]
  rw [← hcanon] at hfin
  simp only [← hcanon, hfin, C08_fixed_nil_of_same]

/-! ## Item 2 — preprocessing leaves the canonical spelling fixed -/

/-- **C08, canonical text is a fixed point of `plss_preprocess`** (all six scrubbers + whitespace reduction), for all numbers:
    the blank each scrubber appends is removed again (by `pp_twprge_comma_remove` and the final `strip`), no `fixed_twprge`
    is reported, the whitespace loop converges.  Leading zeros of the numbers are dropped. -/
theorem C08_canonical_preprocess_fixed (t r : Str) (ns ew : Char)
    (ht : ∀ c ∈ t, c.isDigit = true) (htl : 1 ≤ t.length ∧ t.length ≤ 3) (hns : ns = 'N' ∨ ns = 'S')
    (hr : ∀ c ∈ r, c.isDigit = true) (hrl : 1 ≤ r.length ∧ r.length ≤ 3) (hew : ew = 'E' ∨ ew = 'W')
    (mc : MC) (defNS defEW : Option Str)
    (hm1 : isLegal Gen.LEGAL_NS mc.ns = true) (hm2 : isLegal Gen.LEGAL_EW mc.ew = true)
    (h1 : isLegal Gen.LEGAL_NS (resolve defNS mc.ns) = true) (h2 : isLegal Gen.LEGAL_EW (resolve defEW mc.ew) = true) :
    ∃ res, plssPreprocess mc (canonText t ns r ew) defNS defEW false = .ok res ∧
      res.text = canonText (stripLeadingZerosViaInt t) ns (stripLeadingZerosViaInt r) ew ∧ res.fixed = [] ∧ res.diverged = false := by
  have hv := canonSp_valid t ns r ew [] ht htl hns hr hrl hew EndsTwprge.nil
  have := C08_spelling_preprocess (canonSp t ns r ew) hv mc defNS defEW hm1 hm2 h1 h2
  rw [canonSp_text, canonSp_canon t ns r ew hns hew] at this
  exact this

/-- … over numbers: for all `a, b < 1000` the preprocessed text IS the input text -/
theorem C08_canonical_preprocess_fixed_nat (a b : Nat) (ha : a < 1000) (hb : b < 1000) (ns ew : Char)
    (hns : ns = 'N' ∨ ns = 'S') (hew : ew = 'E' ∨ ew = 'W') (mc : MC) (defNS defEW : Option Str)
    (hm1 : isLegal Gen.LEGAL_NS mc.ns = true) (hm2 : isLegal Gen.LEGAL_EW mc.ew = true)
    (h1 : isLegal Gen.LEGAL_NS (resolve defNS mc.ns) = true) (h2 : isLegal Gen.LEGAL_EW (resolve defEW mc.ew) = true) :
    ∃ res, plssPreprocess mc (canonText (natToStr a) ns (natToStr b) ew) defNS defEW false = .ok res ∧
      res.text = canonText (natToStr a) ns (natToStr b) ew ∧ res.fixed = [] ∧ res.diverged = false := by
  have hda : ∀ c ∈ natToStr a, c.isDigit = true := fun c hc => (isDigit_iff_mem c).2 (natToStr_isDigits a c hc)
  have hdb : ∀ c ∈ natToStr b, c.isDigit = true := fun c hc => (isDigit_iff_mem c).2 (natToStr_isDigits b c hc)
  have := C08_canonical_preprocess_fixed (natToStr a) (natToStr b) ns ew hda (natToStr_len_lt_1000 a ha) hns hdb
    (natToStr_len_lt_1000 b hb) hew mc defNS defEW hm1 hm2 h1 h2
  rw [strip_natToStr, strip_natToStr] at this
  exact this

/-! ## Item 3 — the other documented spellings, for every number -/

def nsWord (ns : Char) : Str := if ns = 'S' then ['S', 'o', 'u', 't', 'h'] else ['N', 'o', 'r', 't', 'h']
def ewWord (ew : Char) : Str := if ew = 'E' then ['E', 'a', 's', 't'] else ['W', 'e', 's', 't']

/-- "Township 154 North, Range 97 West" -/
def spelledSp (t : Str) (ns : Char) (r : Str) (ew : Char) : Spelling :=
  ⟨['T', 'o', 'w', 'n', 's', 'h', 'i', 'p'], [' '], t, [' '], nsWord ns, [',', ' '], ['R', 'a', 'n', 'g', 'e'], [' '], r, [' '], ewWord ew⟩

def spelledText (t : Str) (ns : Char) (r : Str) (ew : Char) : Str :=
  ['T', 'o', 'w', 'n', 's', 'h', 'i', 'p'] ++ ([' '] ++ (t ++ ([' '] ++ (nsWord ns ++ ([',', ' '] ++ (['R', 'a', 'n', 'g', 'e'] ++ ([' '] ++ (r ++ ([' '] ++ ewWord ew)))))))))

theorem spelledSp_text (t : Str) (ns : Char) (r : Str) (ew : Char) : (spelledSp t ns r ew).text = spelledText t ns r ew := rfl

theorem spelledSp_valid (t : Str) (ns : Char) (r : Str) (ew : Char) (ctx : Str)
    (ht : ∀ c ∈ t, c.isDigit = true) (htl : 1 ≤ t.length ∧ t.length ≤ 3) (hns : ns = 'N' ∨ ns = 'S')
    (hr : ∀ c ∈ r, c.isDigit = true) (hrl : 1 ≤ r.length ∧ r.length ≤ 3) (hew : ew = 'E' ∨ ew = 'W') :
    (spelledSp t ns r ew).Valid ctx where
  tw := Or.inr (IsWordOf.mk' 'T' ['o', 'w', 'n', 's', 'h', 'i', 'p'] (by decide) (by decide) (by decide))
  d1 := (by decide : ∀ c ∈ [' '], Gen.cs_6862e64c.mem c = true)
  t_dig := isDigits_of_isDigit ht
  t_len := htl
  d2 := (by decide : ∀ c ∈ [' '], Gen.cs_6862e64c.mem c = true)
  ns := by
    rcases hns with rfl | rfl
    · exact Or.inl ⟨IsWordOf.mk' 'N' ['o', 'r', 't', 'h'] (by decide) (by decide) (by decide), Or.inr (StopAt.cons (by decide))⟩
    · exact Or.inr ⟨IsWordOf.mk' 'S' ['o', 'u', 't', 'h'] (by decide) (by decide) (by decide), Or.inr (StopAt.cons (by decide))⟩
  d3 := (by decide : ∀ c ∈ [',', ' '], Gen.cs_f3df237d.mem c = true)
  rw := Or.inr (IsWordOf.mk' 'R' ['a', 'n', 'g', 'e'] (by decide) (by decide) (by decide))
  d4 := (by decide : ∀ c ∈ [' '], Gen.cs_6862e64c.mem c = true)
  r_dig := isDigits_of_isDigit hr
  r_len := hrl
  d5 := (by decide : ∀ c ∈ [' '], Gen.cs_6862e64c.mem c = true)
  ew := by
    rcases hew with rfl | rfl
    · exact Or.inr ⟨IsWordOf.mk' 'E' ['a', 's', 't'] (by decide) (by decide) (by decide), Or.inl rfl⟩
    · exact Or.inl ⟨IsWordOf.mk' 'W' ['e', 's', 't'] (by decide) (by decide) (by decide), Or.inl rfl⟩

theorem spelledSp_canon (t : Str) (ns : Char) (r : Str) (ew : Char) (hns : ns = 'N' ∨ ns = 'S') (hew : ew = 'E' ∨ ew = 'W') :
    (spelledSp t ns r ew).canon = canonText (stripLeadingZerosViaInt t) ns (stripLeadingZerosViaInt r) ew := by
  rcases hns with rfl | rfl <;> rcases hew with rfl | rfl <;>
    simp [Spelling.canon, spelledSp, nsWord, ewWord, canonText, pyUpper, pyUpperChar]

/-- "154N-97W" (no `T`, no `R`; the range number must not be a lone `2`) -/
def bareSp (t : Str) (ns : Char) (r : Str) (ew : Char) : Spelling := ⟨[], [], t, [], [ns], ['-'], [], [], r, [], [ew]⟩

def bareText (t : Str) (ns : Char) (r : Str) (ew : Char) : Str := t ++ ns :: '-' :: (r ++ [ew])

theorem bareSp_text (t : Str) (ns : Char) (r : Str) (ew : Char) : (bareSp t ns r ew).text = bareText t ns r ew := by
  simp [Spelling.text, bareSp, bareText]

theorem bareSp_valid (t : Str) (ns : Char) (r : Str) (ew : Char) (ctx : Str)
    (ht : ∀ c ∈ t, c.isDigit = true) (htl : 1 ≤ t.length ∧ t.length ≤ 3) (hns : ns = 'N' ∨ ns = 'S')
    (hr : ∀ c ∈ r, c.isDigit = true) (hrl : 1 ≤ r.length ∧ r.length ≤ 3) (hr2 : r ≠ ['2']) (hew : ew = 'E' ∨ ew = 'W')
    (hctx : EndsTwprge ctx) : (bareSp t ns r ew).Valid ctx where
  tw := Or.inl ⟨rfl, rfl⟩
  d1 := fun _ h => by cases h
  t_dig := isDigits_of_isDigit ht
  t_len := htl
  d2 := fun _ h => by cases h
  ns := by
    rcases hns with rfl | rfl
    · exact Or.inl ⟨IsWordOf.single 'N' (by decide), Or.inr (StopAt.cons (by decide))⟩
    · exact Or.inr ⟨IsWordOf.single 'S' (by decide), Or.inr (StopAt.cons (by decide))⟩
  d3 := (by decide : ∀ c ∈ ['-'], Gen.cs_f3df237d.mem c = true)
  rw := Or.inl ⟨rfl, rfl, hr2⟩
  d4 := fun _ h => by cases h
  r_dig := isDigits_of_isDigit hr
  r_len := hrl
  d5 := fun _ h => by cases h
  ew := by
    rcases hew with rfl | rfl
    · exact Or.inr ⟨IsWordOf.single 'E' (by decide), Or.inr hctx.2⟩
    · exact Or.inl ⟨IsWordOf.single 'W' (by decide), Or.inr hctx.1⟩

theorem bareSp_canon (t : Str) (ns : Char) (r : Str) (ew : Char) (hns : ns = 'N' ∨ ns = 'S') (hew : ew = 'E' ∨ ew = 'W') :
    (bareSp t ns r ew).canon = canonText (stripLeadingZerosViaInt t) ns (stripLeadingZerosViaInt r) ew := by
  rcases hns with rfl | rfl <;> rcases hew with rfl | rfl <;>
    simp [Spelling.canon, bareSp, canonText, pyUpper, pyUpperChar]

/-- lower case: "t154n-r97w" -/
def lowerChar (c : Char) : Char := if c = 'N' then 'n' else if c = 'S' then 's' else if c = 'E' then 'e' else 'w'

def lowerSp (t : Str) (ns : Char) (r : Str) (ew : Char) : Spelling := compactSp 't' t (lowerChar ns) 'r' r (lowerChar ew)

def lowerText (t : Str) (ns : Char) (r : Str) (ew : Char) : Str := 't' :: (t ++ lowerChar ns :: '-' :: 'r' :: (r ++ [lowerChar ew]))

theorem lowerSp_text (t : Str) (ns : Char) (r : Str) (ew : Char) : (lowerSp t ns r ew).text = lowerText t ns r ew :=
  compactSp_text _ _ _ _ _ _

theorem lowerSp_valid (t : Str) (ns : Char) (r : Str) (ew : Char) (ctx : Str)
    (ht : ∀ c ∈ t, c.isDigit = true) (htl : 1 ≤ t.length ∧ t.length ≤ 3) (hns : ns = 'N' ∨ ns = 'S')
    (hr : ∀ c ∈ r, c.isDigit = true) (hrl : 1 ≤ r.length ∧ r.length ≤ 3) (hew : ew = 'E' ∨ ew = 'W')
    (hctx : EndsTwprge ctx) : (lowerSp t ns r ew).Valid ctx :=
  compactSp_valid 't' t _ 'r' r _ ctx (by decide) (isDigits_of_isDigit ht) htl
    (by rcases hns with rfl | rfl; exact Or.inl (by decide); exact Or.inr (by decide)) (by decide)
    (isDigits_of_isDigit hr) hrl (by rcases hew with rfl | rfl; exact Or.inr (by decide); exact Or.inl (by decide)) hctx

theorem lowerSp_canon (t : Str) (ns : Char) (r : Str) (ew : Char) (hns : ns = 'N' ∨ ns = 'S') (hew : ew = 'E' ∨ ew = 'W') :
    (lowerSp t ns r ew).canon = canonText (stripLeadingZerosViaInt t) ns (stripLeadingZerosViaInt r) ew := by
  rcases hns with rfl | rfl <;> rcases hew with rfl | rfl <;>
    simp [Spelling.canon, lowerSp, compactSp, lowerChar, canonText, pyUpper, pyUpperChar]

/-- what items 1–3 say about one spelling `text` of the Twp/Rge `(t, ns, r, ew)` -/
def SameAsCanonical (text : Str) (t : Str) (ns : Char) (r : Str) (ew : Char) : Prop :=
  (∃ m, Gen.twprge_regex.finditer text = [m] ∧ m.start = 0 ∧ m.stop = text.length) ∧
  (∀ dn de, isLegal Gen.LEGAL_NS dn = true → isLegal Gen.LEGAL_EW de = true →
    findTwprgeRaw text dn de = .ok [canonText (stripLeadingZerosViaInt t) ns (stripLeadingZerosViaInt r) ew] ∧
    findTwprgeRaw text dn de = findTwprgeRaw (canonText t ns r ew) dn de) ∧
  (∀ (mc : MC) (defNS defEW : Option Str), isLegal Gen.LEGAL_NS mc.ns = true → isLegal Gen.LEGAL_EW mc.ew = true →
    isLegal Gen.LEGAL_NS (resolve defNS mc.ns) = true → isLegal Gen.LEGAL_EW (resolve defEW mc.ew) = true →
    ∃ res, plssPreprocess mc text defNS defEW false = .ok res ∧
      res.text = canonText (stripLeadingZerosViaInt t) ns (stripLeadingZerosViaInt r) ew ∧ res.fixed = [] ∧ res.diverged = false)

theorem sameAsCanonical_of_spelling (sp : Spelling) (hv : sp.Valid []) (t : Str) (ns : Char) (r : Str) (ew : Char)
    (ht : ∀ c ∈ t, c.isDigit = true) (htl : 1 ≤ t.length ∧ t.length ≤ 3) (hns : ns = 'N' ∨ ns = 'S')
    (hr : ∀ c ∈ r, c.isDigit = true) (hrl : 1 ≤ r.length ∧ r.length ≤ 3) (hew : ew = 'E' ∨ ew = 'W')
    (hcanon : sp.canon = canonText (stripLeadingZerosViaInt t) ns (stripLeadingZerosViaInt r) ew) :
    SameAsCanonical sp.text t ns r ew := by
  have hfi := C08_spelling_finditer sp [] hv (fun _ h => by cases h)
  rw [List.append_nil] at hfi
  refine ⟨⟨_, hfi, rfl, by simp [Spelling.matchAt]⟩, ?_, ?_⟩
  · intro dn de h1 h2
    have := C08_spelling_find sp [] hv (fun _ h => by cases h) dn de h1 h2
    rw [List.append_nil, hcanon] at this
    exact ⟨this, by rw [this, (C08_canonical_recognised t r ns ew ht htl hns hr hrl hew).2.2.2.2.2.2 dn de h1 h2]⟩
  · intro mc defNS defEW hm1 hm2 h1 h2
    have := C08_spelling_preprocess sp hv mc defNS defEW hm1 hm2 h1 h2
    rw [hcanon] at this
    exact this

/-- **"Township 154 North, Range 97 West"**, for every number (including "Range 2"): recognised from start to end, reported and
    preprocessed exactly like the canonical spelling -/
theorem C08_spelled_out_same (t r : Str) (ns ew : Char)
    (ht : ∀ c ∈ t, c.isDigit = true) (htl : 1 ≤ t.length ∧ t.length ≤ 3) (hns : ns = 'N' ∨ ns = 'S')
    (hr : ∀ c ∈ r, c.isDigit = true) (hrl : 1 ≤ r.length ∧ r.length ≤ 3) (hew : ew = 'E' ∨ ew = 'W') :
    SameAsCanonical (spelledText t ns r ew) t ns r ew := by
  have := sameAsCanonical_of_spelling (spelledSp t ns r ew) (spelledSp_valid t ns r ew [] ht htl hns hr hrl hew) t ns r ew
    ht htl hns hr hrl hew (spelledSp_canon t ns r ew hns hew)
  rwa [spelledSp_text] at this

/-- **"154N-97W"**, for every number except a lone range `2` (which the pattern deliberately refuses without an `R`) -/
theorem C08_bare_same (t r : Str) (ns ew : Char)
    (ht : ∀ c ∈ t, c.isDigit = true) (htl : 1 ≤ t.length ∧ t.length ≤ 3) (hns : ns = 'N' ∨ ns = 'S')
    (hr : ∀ c ∈ r, c.isDigit = true) (hrl : 1 ≤ r.length ∧ r.length ≤ 3) (hr2 : r ≠ ['2']) (hew : ew = 'E' ∨ ew = 'W') :
    SameAsCanonical (bareText t ns r ew) t ns r ew := by
  have := sameAsCanonical_of_spelling (bareSp t ns r ew) (bareSp_valid t ns r ew [] ht htl hns hr hrl hr2 hew EndsTwprge.nil) t ns r ew
    ht htl hns hr hrl hew (bareSp_canon t ns r ew hns hew)
  rwa [bareSp_text] at this

/-- **"t154n-r97w"** (lower case), for every number -/
theorem C08_lower_case_same (t r : Str) (ns ew : Char)
    (ht : ∀ c ∈ t, c.isDigit = true) (htl : 1 ≤ t.length ∧ t.length ≤ 3) (hns : ns = 'N' ∨ ns = 'S')
    (hr : ∀ c ∈ r, c.isDigit = true) (hrl : 1 ≤ r.length ∧ r.length ≤ 3) (hew : ew = 'E' ∨ ew = 'W') :
    SameAsCanonical (lowerText t ns r ew) t ns r ew := by
  have := sameAsCanonical_of_spelling (lowerSp t ns r ew) (lowerSp_valid t ns r ew [] ht htl hns hr hrl hew EndsTwprge.nil) t ns r ew
    ht htl hns hr hrl hew (lowerSp_canon t ns r ew hns hew)
  rwa [lowerSp_text] at this

/-! ## Item 4, exactly: how far the match extends into ANY right context -/

theorem takeWhile_take_spec (p : Char → Bool) : ∀ (ctx : Str) (n : Nat),
    ctx = (ctx.takeWhile p).take n ++ ctx.drop ((ctx.takeWhile p).take n).length ∧
    (∀ c ∈ (ctx.takeWhile p).take n, p c = true) ∧ ((ctx.takeWhile p).take n).length ≤ n ∧
    (((ctx.takeWhile p).take n).length = n ∨
      ∀ c, (ctx.drop ((ctx.takeWhile p).take n).length).head? = some c → p c = false) := by
  intro ctx
  induction ctx with
  | nil => intro n; simp
  | cons c t ih =>
    intro n
    by_cases hc : p c = true
    · cases n with
      | zero => simp
      | succ k =>
        obtain ⟨e, ha, hl, hs⟩ := ih k
        simp only [List.takeWhile_cons, hc, if_true, List.take_succ_cons, List.length_cons, List.drop_succ_cons, List.cons_append]
        refine ⟨by rw [← e], ?_, by omega, ?_⟩
        · intro x hx
          rcases List.mem_cons.1 hx with rfl | hx
          · exact hc
          · exact ha x hx
        · rcases hs with h | h
          · exact Or.inl (by omega)
          · exact Or.inr h
    · have hc' : p c = false := by simpa using hc
      simp only [List.takeWhile_cons, hc', Bool.false_eq_true, if_false, List.take_nil, List.length_nil, List.drop_zero, List.nil_append,
        List.head?_cons, Option.some.injEq, true_and, List.not_mem_nil, false_implies, implies_true, Nat.zero_le]
      exact Or.inr (fun x hx => hx ▸ hc')

/-- the letters that may continue the direction letter: `[est]` after `W`, `[ast]` after `E` -/
def ewTail (ew : Char) : CharSet := if ew = 'E' then Gen.cs_68819f8e else Gen.cs_ae3e3c7d

/-- how much of the right context the direction word swallows: at most three characters of the class -/
def swallowed (ew : Char) (ctx : Str) : Str := (ctx.takeWhile (ewTail ew).mem).take 3

/-- **item 4, exact**: in `canonical ++ ctx`, for ANY `ctx`, the leftmost match of `twprge_regex` starts at 0 and ends after the
    canonical Twp/Rge plus the (at most three) leading characters of `ctx` that can continue the word "West"/"East" -/
theorem C08_canonical_right_context_exact (t r : Str) (ns ew : Char) (ctx : Str)
    (ht : ∀ c ∈ t, c.isDigit = true) (htl : 1 ≤ t.length ∧ t.length ≤ 3) (hns : ns = 'N' ∨ ns = 'S')
    (hr : ∀ c ∈ r, c.isDigit = true) (hrl : 1 ≤ r.length ∧ r.length ≤ 3) (hew : ew = 'E' ∨ ew = 'W') :
    ∃ m, Gen.twprge_regex.search (canonText t ns r ew ++ ctx) = some m ∧ m.start = 0 ∧
      m.stop = (canonText t ns r ew).length + (swallowed ew ctx).length ∧
      twprge.group m (canonText t ns r ew ++ ctx) "twpnum" = some t ∧
      twprge.group m (canonText t ns r ew ++ ctx) "ew" = some (ew :: swallowed ew ctx) := by
  obtain ⟨e, ha, hl, hs⟩ := takeWhile_take_spec (ewTail ew).mem ctx 3
  let sp : Spelling := ⟨['T'], [], t, [], [ns], ['-'], ['R'], [], r, [], ew :: swallowed ew ctx⟩
  have htext : sp.text = canonText t ns r ew ++ swallowed ew ctx := by simp [sp, Spelling.text, canonText]
  have hv : sp.Valid (ctx.drop (swallowed ew ctx).length) :=
    { tw := Or.inr (IsWordOf.single 'T' (by decide))
      d1 := fun _ h => by cases h
      t_dig := isDigits_of_isDigit ht
      t_len := htl
      d2 := fun _ h => by cases h
      ns := by
        rcases hns with rfl | rfl
        · exact Or.inl ⟨IsWordOf.single 'N' (by decide), Or.inr (StopAt.cons (by decide))⟩
        · exact Or.inr ⟨IsWordOf.single 'S' (by decide), Or.inr (StopAt.cons (by decide))⟩
      d3 := (by decide : ∀ c ∈ ['-'], Gen.cs_f3df237d.mem c = true)
      rw := Or.inr (IsWordOf.single 'R' (by decide))
      d4 := fun _ h => by cases h
      r_dig := isDigits_of_isDigit hr
      r_len := hrl
      d5 := fun _ h => by cases h
      ew := by
        rcases hew with rfl | rfl
        · exact Or.inr ⟨IsWordOf.mk' 'E' _ (by decide) ha hl, hs⟩
        · exact Or.inl ⟨IsWordOf.mk' 'W' _ (by decide) ha hl, hs⟩ }
  have hs := C08_spelling_search sp _ hv
  have hfull : sp.text ++ ctx.drop (swallowed ew ctx).length = canonText t ns r ew ++ ctx := by
    rw [htext, List.append_assoc]
    congr 1
    exact e.symm
  have g1 := sp.group_twpnum (ctx.drop (swallowed ew ctx).length)
  have g2 := sp.group_ew (ctx.drop (swallowed ew ctx).length)
  rw [hfull] at hs g1 g2
  exact ⟨_, hs, rfl, by simp only [Spelling.matchAt, Nat.zero_add, htext, List.length_append], g1, g2⟩

/-- … hence the match ends exactly at the end of the canonical Twp/Rge iff the context is empty or starts with a character that
    cannot continue the direction word -/
theorem C08_canonical_ends_iff (t r : Str) (ns ew : Char) (ctx : Str)
    (ht : ∀ c ∈ t, c.isDigit = true) (htl : 1 ≤ t.length ∧ t.length ≤ 3) (hns : ns = 'N' ∨ ns = 'S')
    (hr : ∀ c ∈ r, c.isDigit = true) (hrl : 1 ≤ r.length ∧ r.length ≤ 3) (hew : ew = 'E' ∨ ew = 'W') :
    (∃ m, Gen.twprge_regex.search (canonText t ns r ew ++ ctx) = some m ∧ m.stop = (canonText t ns r ew).length) ↔
      StopAt (ewTail ew) ctx := by
  obtain ⟨m, hm, _, hstop, _⟩ := C08_canonical_right_context_exact t r ns ew ctx ht htl hns hr hrl hew
  have key : (swallowed ew ctx).length = 0 ↔ StopAt (ewTail ew) ctx := by
    unfold swallowed StopAt
    cases ctx with
    | nil => simp
    | cons c u =>
      by_cases hc : (ewTail ew).mem c = true
      · simp [List.takeWhile_cons, hc]
      · simp [List.takeWhile_cons, hc]
  constructor
  · rintro ⟨m', hm', hs'⟩
    rw [hm] at hm'
    cases hm'
    exact key.1 (by omega)
  · intro h
    exact ⟨m, hm, by rw [hstop, key.2 h, Nat.add_zero]⟩

/-! ## The short form `154n97w` (`twprge_natural_to_short`) of the canonical text -/

theorem subBody_chr (p : Char → Bool) (text : Str) : ∀ (rest pre mid : Str), text = pre ++ mid ++ rest → (∀ x ∈ mid, p x = false) →
    subBody text (fun _ => []) (chrMatches p rest (pre.length + mid.length)) pre.length = mid ++ rest.filter (fun c => !p c) := by
  intro rest
  induction rest with
  | nil =>
    intro pre mid ht _
    simp only [chrMatches, subBody, List.filter_nil, List.append_nil]
    rw [ht, List.append_nil, List.drop_left]
  | cons c t ih =>
    intro pre mid ht hmid
    by_cases hc : p c = true
    · have h := ih (pre ++ mid ++ [c]) [] (by rw [ht]; simp) (fun _ hx => by cases hx)
      simp only [List.length_append, List.length_cons, List.length_nil, Nat.add_zero, List.nil_append, Nat.zero_add] at h
      simp only [chrMatches, hc, if_true, subBody, List.append_nil, h, List.filter_cons, Bool.not_true, Bool.false_eq_true, if_false]
      rw [ht, slice_mid]
    · have hc' : p c = false := by simpa using hc
      have h := ih pre (mid ++ [c]) (by rw [ht]; simp) (fun x hx => by
        rcases List.mem_append.1 hx with h | h
        · exact hmid x h
        · simp only [List.mem_singleton] at h; rw [h]; exact hc')
      simp only [List.length_append, List.length_cons, List.length_nil, Nat.zero_add, ← Nat.add_assoc] at h
      simp only [chrMatches, hc', Bool.false_eq_true, if_false, h, List.filter_cons, Bool.not_false, if_true, List.append_assoc,
        List.cons_append, List.nil_append]

/-- `re.sub('[class]', '', text)` deletes exactly the characters of the class -/
theorem sub_chr_nil (cs : CharSet) (text : Str) : (Rx.chr cs).sub [] text = text.filter (fun c => !cs.mem c) := by
  rw [sub_eq_body, finditer_chr]
  have := subBody_chr cs.mem text text [] [] (by simp) (fun _ h => by cases h)
  simpa using this

theorem pyLower_digits (l : Str) (h : IsDigits l) : pyLower l = l := by
  induction l with
  | nil => rfl
  | cons c t ih =>
    have hb := asciiDigit_bounds (h c (by simp))
    have h1 : pyLowerChar c = [c] := by
      have h128 : c.toNat < 128 := by omega
      have hup : ¬ (65 ≤ c.toNat ∧ c.toNat ≤ 90) := by omega
      simp [pyLowerChar, h128, hup]
    have := ih (fun x hx => h x (by simp [hx]))
    simp only [pyLower, List.flatMap_cons, h1] at this ⊢
    rw [this]; rfl

theorem filter_digits_id (cs : CharSet) (hd : asciiDigits.disj cs = true) (l : Str) (h : IsDigits l) :
    l.filter (fun c => !cs.mem c) = l := by
  rw [List.filter_eq_self]
  intro c hc
  simp [CharSet.disj_mem hd (h c hc)]

/-- **the short Twp/Rge of the canonical text** (`twprge_natural_to_short`, the form used inside `PLSSDesc`/`Tract`):
    `T154N-R97W ↦ 154n97w`, for all numbers -/
theorem C08_canonical_short (t r : Str) (ns ew : Char) (ht : ∀ c ∈ t, c.isDigit = true) (hns : ns = 'N' ∨ ns = 'S')
    (hr : ∀ c ∈ r, c.isDigit = true) (hew : ew = 'E' ∨ ew = 'W') :
    twprgeNaturalToShort (canonText t ns r ew) = t ++ lowerChar ns :: (r ++ [lowerChar ew]) := by
  have hdt := isDigits_of_isDigit ht
  have hdr := isDigits_of_isDigit hr
  -- any spelling of the deleter (`[rt-]`, `[rt-]+`, `[rt-]*`)
  have hdec : DeletesClass Gen.cs_060883fe Gen.inl_unpackers_twprge_natural_to_short_0 := by constructor
  have hl : pyLower (canonText t ns r ew) = 't' :: (t ++ lowerChar ns :: '-' :: 'r' :: (r ++ [lowerChar ew])) := by
    have e : canonText t ns r ew = ['T'] ++ (t ++ ([ns, '-', 'R'] ++ (r ++ [ew]))) := by simp [canonText]
    have hp : ∀ a b : Str, pyLower (a ++ b) = pyLower a ++ pyLower b := fun a b => by simp [pyLower]
    rw [e, hp, hp, hp, hp, pyLower_digits t hdt, pyLower_digits r hdr]
    rcases hns with rfl | rfl <;> rcases hew with rfl | rfl <;> simp [pyLower, pyLowerChar, lowerChar]
  unfold twprgeNaturalToShort
  rw [hl, hdec.sub_nil]
  have ft := filter_digits_id Gen.cs_060883fe (by decide) t hdt
  have fr := filter_digits_id Gen.cs_060883fe (by decide) r hdr
  have m1 : Gen.cs_060883fe.mem 't' = true ∧ Gen.cs_060883fe.mem '-' = true ∧ Gen.cs_060883fe.mem 'r' = true ∧ Gen.cs_060883fe.mem 'n' = false ∧
      Gen.cs_060883fe.mem 's' = false ∧ Gen.cs_060883fe.mem 'e' = false ∧ Gen.cs_060883fe.mem 'w' = false := by decide
  rcases hns with rfl | rfl <;> rcases hew with rfl | rfl <;>
    simp [List.filter_cons, List.filter_append, ft, fr, lowerChar, m1]

/-! ## Non-vacuity: the hypotheses hold on the documented examples, and the conclusions are what Python returns -/

/-- item 1 on `T154N-R97W`: one match, (0, 10), and the report `['T154N-R97W']` under the default directions … -/
example : Gen.twprge_regex.finditer (S "T154N-R97W") = [⟨0, 10, [(14, 9, 10), (6, 6, 9), (7, 6, 9), (10, 7, 9), (8, 6, 7), (9, 6, 7),
    (5, 4, 5), (4, 1, 4), (2, 0, 1), (3, 0, 1), (1, 0, 0)]⟩] :=
  (C08_canonical_recognised (S "154") (S "97") 'N' 'W' (by decide) (by decide) (Or.inl rfl) (by decide) (by decide) (Or.inr rfl)).1
example : findTwprgeRaw (S "T154N-R97W") (S "n") (S "w") = .ok [S "T154N-R97W"] :=
  (C08_canonical_recognised (S "154") (S "97") 'N' 'W' (by decide) (by decide) (Or.inl rfl) (by decide) (by decide) (Or.inr rfl)).2.2.2.2.2.2
    _ _ (by decide) (by decide)
/-- … and under the opposite defaults: the written letters win -/
example : findTwprgeRaw (S "T154N-R97W") (S "s") (S "e") = .ok [S "T154N-R97W"] :=
  C08_canonical_recognised_nat 154 97 (by decide) (by decide) 'N' 'W' (Or.inl rfl) (Or.inr rfl) _ _ (by decide) (by decide)
/-- the "Range 2" edge case is covered (group 13 instead of group 10) -/
example : Gen.twprge_regex.finditer (S "T1S-R2E") = [⟨0, 7, [(14, 6, 7), (6, 4, 6), (11, 4, 6), (13, 5, 6), (12, 4, 5), (5, 2, 3),
    (4, 1, 2), (2, 0, 1), (3, 0, 1), (1, 0, 0)]⟩] :=
  (C08_canonical_recognised (S "1") (S "2") 'S' 'E' (by decide) (by decide) (Or.inr rfl) (by decide) (by decide) (Or.inl rfl)).1
/-- leading zeros -/
example : findTwprgeRaw (S "T007N-R097W") (S "n") (S "w") = .ok [S "T7N-R97W"] :=
  C08_canonical_leading_zeros (S "007") (S "097") 'N' 'W' (by decide) (by decide) (Or.inl rfl) (by decide) (by decide) (Or.inr rfl)
    _ _ (by decide) (by decide)
example : twprgeNaturalToShort (S "T154N-R97W") = S "154n97w" :=
  C08_canonical_short (S "154") (S "97") 'N' 'W' (by decide) (Or.inl rfl) (by decide) (Or.inr rfl)
/-- item 2 on `T154N-R97W` -/
example : ∃ res, plssPreprocess {} (S "T154N-R97W") none none false = .ok res ∧ res.text = S "T154N-R97W" ∧ res.fixed = [] ∧
    res.diverged = false :=
  C08_canonical_preprocess_fixed_nat 154 97 (by decide) (by decide) 'N' 'W' (Or.inl rfl) (Or.inr rfl) {} none none
    (by decide) (by decide) (by decide) (by decide)
/-- item 3: the texts are the documented ones -/
example : spelledText (S "154") 'N' (S "97") 'W' = S "Township 154 North, Range 97 West" := by decide
example : bareText (S "154") 'N' (S "97") 'W' = S "154N-97W" := by decide
example : lowerText (S "154") 'N' (S "97") 'W' = S "t154n-r97w" := by decide
example : SameAsCanonical (S "Township 154 North, Range 97 West") (S "154") 'N' (S "97") 'W' :=
  C08_spelled_out_same (S "154") (S "97") 'N' 'W' (by decide) (by decide) (Or.inl rfl) (by decide) (by decide) (Or.inr rfl)
example : SameAsCanonical (S "Township 1 South, Range 2 East") (S "1") 'S' (S "2") 'E' :=
  C08_spelled_out_same (S "1") (S "2") 'S' 'E' (by decide) (by decide) (Or.inr rfl) (by decide) (by decide) (Or.inl rfl)
example : SameAsCanonical (S "154N-97W") (S "154") 'N' (S "97") 'W' :=
  C08_bare_same (S "154") (S "97") 'N' 'W' (by decide) (by decide) (Or.inl rfl) (by decide) (by decide) (by decide) (Or.inr rfl)
example : SameAsCanonical (S "t154n-r97w") (S "154") 'N' (S "97") 'W' :=
  C08_lower_case_same (S "154") (S "97") 'N' 'W' (by decide) (by decide) (Or.inl rfl) (by decide) (by decide) (Or.inr rfl)
/-- item 4: `" Sec 14: NE/4"`, a newline, a comma … end the Twp/Rge -/
example : EndsTwprge (S " Sec 14: NE/4") := EndsTwprge.cons _ (by decide)
example : EndsTwprge (S "\nSec 14") := EndsTwprge.cons _ (by decide)
example : EndsTwprge (S ", Sec 14") := EndsTwprge.cons _ (by decide)
example : (Gen.twprge_regex.search (S "T154N-R97W Sec 14: NE/4")).map (fun m => (m.start, m.stop)) = some (0, 10) := by
  have := (C08_canonical_right_context (S "154") (S "97") 'N' 'W' (S " Sec 14: NE/4") (by decide) (by decide) (Or.inl rfl) (by decide)
    (by decide) (Or.inr rfl) (EndsTwprge.cons _ (by decide))).1
  rw [show canonText (S "154") 'N' (S "97") 'W' ++ S " Sec 14: NE/4" = S "T154N-R97W Sec 14: NE/4" by decide] at this
  rw [this]; rfl
/-- the exact version: "T154N-R97West" is swallowed to the end, "T154N-R97Ward" ends after the `W`, "T154N-R97Wester" after "West" -/
example : swallowed 'W' (S "est") = S "est" ∧ swallowed 'W' (S "ard") = [] ∧ swallowed 'W' (S "ester") = S "est" ∧
    swallowed 'E' (S "ast of") = S "ast" ∧ swallowed 'W' (S " Sec 14") = [] := by decide
example : ∃ m, Gen.twprge_regex.search (S "T154N-R97Wester") = some m ∧ m.start = 0 ∧ m.stop = 13 := by
  obtain ⟨m, h1, h2, h3, _⟩ := C08_canonical_right_context_exact (S "154") (S "97") 'N' 'W' (S "ester") (by decide) (by decide)
    (Or.inl rfl) (by decide) (by decide) (Or.inr rfl)
  exact ⟨m, h1, h2, h3⟩
set_option maxRecDepth 100000 in
/-- the side condition of item 4 is needed: letters of "West"/"East" directly after the Twp/Rge are swallowed by the match
    (`[est]{0,3}` / `[ast]{0,3}`, any case, and `ſ`) -/
example : (Gen.twprge_regex.search (S "T154N-R97West")).map (fun m => (m.start, m.stop)) = some (0, 13) ∧
    (Gen.twprge_regex.search (S "T154N-R97Wſ")).map (fun m => (m.start, m.stop)) = some (0, 11) ∧
    (Gen.twprge_regex.search (S "T154N-R97Eats")).map (fun m => (m.start, m.stop)) = some (0, 13) := by decide +kernel
set_option maxRecDepth 100000 in
/-- "154N-2W": without an `R` a lone range `2` is NOT a Twp/Rge (the pattern's documented guard against "Lot 2, N2 W2") -/
example : Gen.twprge_regex.finditer (S "154N-2W") = [] := by decide +kernel

#print axioms Rx.all_foot
#print axioms Leads.run
#print axioms finditer_single
#print axioms C08_spelling_matchHere
#print axioms C08_spelling_search
#print axioms C08_spelling_finditer
#print axioms C08_spelling_find
#print axioms C08_spelling_preprocess
#print axioms C08_canonical_recognised
#print axioms C08_canonical_recognised_nat
#print axioms C08_canonical_leading_zeros
#print axioms C08_canonical_right_context
#print axioms C08_canonical_right_context_exact
#print axioms C08_canonical_ends_iff
#print axioms C08_canonical_preprocess_fixed
#print axioms C08_canonical_preprocess_fixed_nat
#print axioms C08_canonical_short
#print axioms C08_spelled_out_same
#print axioms C08_bare_same
#print axioms C08_lower_case_same

end PyTRS
