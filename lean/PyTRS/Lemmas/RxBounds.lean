/-
G1 — bounds/progress for the L0 matcher: whenever `r.m s k` succeeds, the continuation was invoked on a state
reached from `s` by consuming a prefix of `s.rest` (position advanced by exactly that many characters).
Corollaries: every match lies inside [pos, endpos]; `scan` never reports a match left of the cursor.
-/
import PyTRS.Rx
namespace PyTRS

/-- `s'` is reached from `s` by consuming `c` -/
def St.Ext (s s' : St) : Prop := ∃ c : List Char, s.rest = c ++ s'.rest ∧ s'.pos = s.pos + c.length

theorem St.Ext.refl (s : St) : St.Ext s s := ⟨[], by simp, by simp⟩

theorem St.Ext.trans {a b c : St} (h1 : St.Ext a b) (h2 : St.Ext b c) : St.Ext a c := by
  obtain ⟨x, hx1, hx2⟩ := h1
  obtain ⟨y, hy1, hy2⟩ := h2
  exact ⟨x ++ y, by rw [hx1, hy1, List.append_assoc], by rw [hy2, hx2, List.length_append]; omega⟩

theorem St.Ext.caps {a b : St} (h : St.Ext a b) (cs : List (Nat × Nat × Nat)) : St.Ext a { b with caps := cs } := h

theorem St.Ext.pos_le {a b : St} (h : St.Ext a b) : a.pos ≤ b.pos := by
  obtain ⟨c, _, h2⟩ := h; omega

theorem St.Ext.pos_bound {a b : St} (h : St.Ext a b) : b.pos + b.rest.length = a.pos + a.rest.length := by
  obtain ⟨c, h1, h2⟩ := h
  rw [h1, h2, List.length_append]; omega

/-- the property of a matcher component that G1 is about -/
def Progressive {R : Type} (f : St → (St → Option R) → Option R) : Prop :=
  ∀ s k x, f s k = some x → ∃ s', St.Ext s s' ∧ k s' = some x

theorem repLoop_progressive {R : Type} (body : St → (St → Option R) → Option R) (hb : Progressive body)
    (lo : Nat) (hi : Option Nat) : ∀ (fuel count : Nat) (last : Option Nat), Progressive (repLoop body lo hi fuel count last) := by
  intro fuel
  induction fuel with
  | zero => intro count last s k x h; simp [repLoop] at h
  | succ n ih =>
    intro count last s k x h
    rw [repLoop.eq_def] at h
    simp only [] at h
    by_cases h1 : count < lo
    · simp only [h1, if_true] at h
      obtain ⟨s1, e1, hk1⟩ := hb s _ x h
      obtain ⟨s2, e2, hk2⟩ := ih _ _ s1 k x hk1
      exact ⟨s2, e1.trans e2, hk2⟩
    · simp only [h1, if_false] at h
      by_cases h2 : (canMore hi count && last != some s.pos) = true
      · simp only [h2, if_true] at h
        cases hb' : body s (fun s' => repLoop body lo hi n (count + 1) (some s.pos) s' k) with
        | some r =>
          rw [hb'] at h
          cases h
          obtain ⟨s1, e1, hk1⟩ := hb s _ _ hb'
          obtain ⟨s2, e2, hk2⟩ := ih _ _ s1 k _ hk1
          exact ⟨s2, e1.trans e2, hk2⟩
        | none =>
          rw [hb'] at h
          exact ⟨s, St.Ext.refl s, h⟩
      · simp only [h2] at h
        exact ⟨s, St.Ext.refl s, h⟩

/-- G1: every regex is progressive, at every result type -/
theorem Rx.m_progressive : ∀ (r : Rx) {R : Type}, Progressive (r.m (R := R)) := by
  intro r
  induction r with
  | eps => intro R s k x h; simp only [Rx.m] at h; exact ⟨s, St.Ext.refl s, h⟩
  | fail => intro R s k x h; simp [Rx.m] at h
  | chr cs =>
    intro R s k x h
    simp only [Rx.m] at h
    split at h
    · rename_i c t hrest
      split at h
      · exact ⟨_, ⟨[c], by simp [hrest], by simp⟩, h⟩
      · cases h
    · cases h
  | seq a b iha ihb =>
    intro R s k x h
    simp only [Rx.m] at h
    obtain ⟨s1, e1, h1⟩ := iha s _ x h
    obtain ⟨s2, e2, h2⟩ := ihb s1 k x h1
    exact ⟨s2, e1.trans e2, h2⟩
  | alt a b iha ihb =>
    intro R s k x h
    simp only [Rx.m] at h
    split at h
    · rename_i r hr
      cases h
      exact iha s k _ hr
    · exact ihb s k x h
  | rep r lo hi ih =>
    intro R s k x h
    simp only [Rx.m] at h
    exact repLoop_progressive _ (ih) lo hi _ _ _ s k x h
  | grp i r ih =>
    intro R s k x h
    simp only [Rx.m] at h
    obtain ⟨s1, e1, h1⟩ := ih s _ x h
    exact ⟨_, e1.caps _, h1⟩
  | ahead r _ =>
    intro R s k x h
    simp only [Rx.m] at h
    split at h
    · exact ⟨_, (St.Ext.refl s).caps _, h⟩
    · cases h
  | nahead r _ =>
    intro R s k x h
    simp only [Rx.m] at h
    split at h
    · cases h
    · exact ⟨s, St.Ext.refl s, h⟩
  | behind cs =>
    intro R s k x h
    simp only [Rx.m] at h
    split at h
    · split at h
      · exact ⟨s, St.Ext.refl s, h⟩
      · cases h
    · cases h
  | wordb w =>
    intro R s k x h
    simp only [Rx.m] at h
    split at h
    · exact ⟨s, St.Ext.refl s, h⟩
    · cases h
  | eos =>
    intro R s k x h
    simp only [Rx.m] at h
    split at h
    · exact ⟨s, St.Ext.refl s, h⟩
    · split at h
      · exact ⟨s, St.Ext.refl s, h⟩
      · cases h
    · cases h
  | bos =>
    intro R s k x h
    simp only [Rx.m] at h
    split at h
    · exact ⟨s, St.Ext.refl s, h⟩
    · cases h

/-- a match found at a cursor starts there and ends within the remaining text -/
theorem matchHere_bounds (r : Rx) (s : St) (adv : Bool) (m : Match) (h : matchHere r s adv = some m) :
    m.start = s.pos ∧ m.start ≤ m.stop ∧ m.stop ≤ s.pos + s.rest.length ∧ (adv = true → m.start < m.stop) := by
  unfold matchHere at h
  obtain ⟨s', e, hk⟩ := Rx.m_progressive r s _ m h
  split at hk
  · cases hk
  · rename_i hadv
    cases hk
    have hle := e.pos_le
    have hb := e.pos_bound
    refine ⟨rfl, hle, by simp only []; omega, ?_⟩
    intro ha
    simp only [ha, Bool.true_and, beq_iff_eq] at hadv
    simp only []
    omega

/-- `scan` reports the leftmost match at or after the cursor, inside the remaining text -/
theorem scan_bounds (r : Rx) : ∀ (rest : List Char) (prev : Option Char) (pos : Nat) (adv : Bool) (m : Match),
    scan r prev rest pos adv = some m → pos ≤ m.start ∧ m.start ≤ m.stop ∧ m.stop ≤ pos + rest.length := by
  intro rest
  induction rest with
  | nil =>
    intro prev pos adv m h
    rw [scan] at h
    split at h
    · rename_i m' hm
      cases h
      have := matchHere_bounds r _ adv m hm
      simp only [List.length_nil] at this ⊢
      omega
    · cases h
  | cons c t ih =>
    intro prev pos adv m h
    rw [scan] at h
    split at h
    · rename_i m' hm
      cases h
      have := matchHere_bounds r _ adv m hm
      simp only [List.length_cons] at this ⊢
      omega
    · have := ih (some c) (pos + 1) false m h
      simp only [List.length_cons]
      omega

/-- `search(text, pos, endpos)`: the match lies inside [pos, min endpos |text|] -/
theorem search_bounds (r : Rx) (text : List Char) (pos endpos : Nat) (m : Match)
    (h : r.search text pos endpos = some m) :
    pos ≤ m.start ∧ m.start ≤ m.stop ∧ m.stop ≤ min endpos text.length := by
  unfold Rx.search at h
  split at h
  · cases h
  · rename_i hpos
    simp only [cursorAt] at h
    have := scan_bounds r _ _ pos false m h
    simp only [List.length_drop, List.length_take] at this
    omega

end PyTRS
