/-
Correctness of `filter(key, drop)` (`Cont.filterBy`): the new list is exactly the elements satisfying the
predicate, in order; with `drop` what remains in `self` is exactly the others, in order.
-/
import PyTRS.Model.Containers
namespace PyTRS

open Cont

/-! ### characterisation of `indexesWhere` -/

theorem indexesWhere_nil {α} (p : α → Bool) : indexesWhere ([] : List α) p = [] := by
  simp [indexesWhere]

/-- match-free form of `indexesWhere` -/
theorem indexesWhere_eq {α} (l : List α) (p : α → Bool) :
    indexesWhere l p = (List.range l.length).filter (fun i => (l[i]?.map p).getD false) := by
  unfold indexesWhere
  congr 1
  funext i
  cases l[i]? <;> rfl

/-- the indexes of `x :: l`: `0` if `p x`, then the indexes of `l` shifted by one -/
theorem indexesWhere_cons {α} (x : α) (l : List α) (p : α → Bool) :
    indexesWhere (x :: l) p
      = (if p x then [0] else []) ++ (indexesWhere l p).map (· + 1) := by
  rw [indexesWhere_eq, indexesWhere_eq, List.length_cons, List.range_succ_eq_map, List.filter_cons,
    List.filter_map]
  have hf : ((fun i => ((x :: l)[i]?.map p).getD false) ∘ Nat.succ)
      = (fun i => (l[i]?.map p).getD false) := by
    funext i; simp
  rw [hf]
  by_cases hx : p x = true <;> simp [hx]

/-- `indexesWhere` is the list of positions `i < l.length` with `p l[i]`, in increasing order -/
theorem mem_indexesWhere {α} (l : List α) (p : α → Bool) (i : Nat) :
    i ∈ indexesWhere l p ↔ ∃ h : i < l.length, p l[i] = true := by
  unfold indexesWhere
  rw [List.mem_filter, List.mem_range]
  constructor
  · rintro ⟨h, hp⟩
    refine ⟨h, ?_⟩
    simpa [List.getElem?_eq_getElem h] using hp
  · rintro ⟨h, hp⟩
    refine ⟨h, ?_⟩
    simpa [List.getElem?_eq_getElem h] using hp

theorem indexesWhere_pairwise {α} (l : List α) (p : α → Bool) :
    (indexesWhere l p).Pairwise (· < ·) := by
  unfold indexesWhere
  exact List.Pairwise.filter _ List.pairwise_lt_range

/-! ### the general lemma about `newListFromSelf.go` -/

/-- processing indexes that all point into the tail of `x :: cur` is the same as processing the unshifted
indexes on `cur`, keeping `x` in front of what remains -/
theorem newListFromSelf_go_shift {α} (drop : Bool) (x : α) (is js : List Nat) (cur acc : List α) :
    newListFromSelf.go drop (is.map (· + 1) ++ js) (x :: cur) acc
      = newListFromSelf.go drop js (x :: (newListFromSelf.go drop is cur acc).2)
          (newListFromSelf.go drop is cur acc).1.reverse := by
  induction is generalizing cur acc with
  | nil => simp [newListFromSelf.go]
  | cons i is ih =>
    simp only [List.map_cons, List.cons_append, newListFromSelf.go, List.getElem?_cons_succ]
    cases hi : cur[i]? with
    | none => simpa using ih cur acc
    | some y =>
      cases drop
      · simpa using ih cur (acc ++ [y])
      · simpa using ih (cur.eraseIdx i) (acc ++ [y])

/-- general form (arbitrary accumulator) of the correctness of `go` on the reversed `indexesWhere` list -/
theorem newListFromSelf_go_indexesWhere {α} (drop : Bool) (l : List α) (p : α → Bool) (acc : List α) :
    newListFromSelf.go drop (indexesWhere l p).reverse l acc
      = (l.filter p ++ acc.reverse, if drop then l.filter (fun x => !p x) else l) := by
  induction l generalizing acc with
  | nil => simp [indexesWhere_nil, newListFromSelf.go]
  | cons x l ih =>
    rw [indexesWhere_cons, List.reverse_append, ← List.map_reverse, newListFromSelf_go_shift, ih]
    by_cases hx : p x = true
    · cases drop <;> simp [hx, newListFromSelf.go]
    · cases drop <;> simp [hx, newListFromSelf.go]

/-! ### main theorems -/

theorem filterBy_keep {α} (l : List α) (p : α → Bool) :
    Cont.filterBy l p false = (l.filter p, l) := by
  simp [filterBy, newListFromSelf, newListFromSelf_go_indexesWhere]

theorem filterBy_drop {α} (l : List α) (p : α → Bool) :
    Cont.filterBy l p true = (l.filter p, l.filter (fun x => !p x)) := by
  simp [filterBy, newListFromSelf, newListFromSelf_go_indexesWhere]

theorem filterBy_partition {α} (l : List α) (p : α → Bool) :
    ((Cont.filterBy l p true).1 ++ (Cont.filterBy l p true).2).Perm l := by
  rw [filterBy_drop]
  exact List.filter_append_perm p l

#print axioms filterBy_keep
#print axioms filterBy_drop
#print axioms filterBy_partition

end PyTRS
