/-
C03 / C07 / C16 — FUEL ADEQUACY for the substitute-until-stable aliquot scrubbers of `tract_preprocess.py`
(`sub_scrubber` × 12 patterns, `half_plus_q_scrubber`, `remove_aliquot_interveners`, hence `scrub_aliquots`).
Python's loops `while txt != new_txt: …` have no bound; the model (`PyTRS/Model/Tract.lean`) runs them with fuel
`stableBudget t = 2·|t| + 8` and returns `none` when it runs out.  This file proves that `none` never happens.

* Part 1: `untilStable_potential` — a potential that strictly decreases on every pass that changes the text, and is below
  the fuel at the start, rules out `none`.
* Part 2/3: `Runs` / `Eats`, a big-step relational reading of the CPS matcher (`Rx.m_runs`, `matchHere_runs`,
  `matchHere_eats`), on which structural analyses of a pattern are proved sound by plain induction:
  `Eats.minWidth`, `Eats.onlyIn`, `Eats.maxHits` (how many characters of a class a match can contain),
  `Eats.words` (ALL matches of at most `n` characters, as words of character classes), `Eats.firstIn` (first character),
  `Runs.nextIn` (the character after a match, from the look-aheads the pattern ends in), `Runs.frame` (captures are only
  added, in front, and only for groups of the pattern), `Runs.lastIter_pos` (a `+`-repeat ends with an iteration).
* Part 4: one `re.sub` pass seen as a chain of matches, each found by `matchHere` at its own start (`finditer_pchain`);
  a pass whose replacements are all shorter shortens (`subWith_len`); THE POTENTIAL `pot` (`¼`, and a capital `E`/`W`
  directly before `¼`, weigh 0; other capital `N E S W` and `½` weigh 1; everything else 2 — so `0 ≤ pot t ≤ 2·|t|`, a clean
  quarter `NE¼` weighs 1, a clean half `N½` weighs 2) and `subWith_pot`: if every match is replaced by itself or by something
  that weighs less in its place, the pass lowers `pot` or changes nothing.
* Part 5: `C03_removeAliquotInterveners_total` (every match loses its non-empty middle group: the text gets shorter).
* Part 6/7: `subCheck`, a decision procedure run on the regenerated patterns (matches of ≤ 4 characters enumerated as class
  words and weighed over an abstract alphabet; longer matches bounded through `maxHits ¼`), `C03_subScrubber_total` for the
  twelve scrubbers.  The four `clean_qq` patterns need one fact the over-approximating analyses cannot see — the optional
  `¼` is GREEDY: a bare `NE` directly before `¼` is never matched without it (`ne_clean_greedy` …, by symbolic evaluation of
  the matcher).  Without greediness the loop would not terminate (`NE` → `NE¼` → `NE¼¼` …).
* Part 8: `C03_halfPlusQScrubber_total` — the match ends in the last `quarter_aliquot_rightmost` capture (≥ 2 characters,
  no `¼`), the look-ahead excludes a following `¼`, so replacing that bare quarter by a clean one lowers `pot`.
* Part 9: `C03_scrubAliquots_total`.   Part 10: the Tract totality theorems restated without the scrubber caveat
  (`C03_tractPreprocess_terminates`, `C03_tractParseRaw_terminates`, `C03_tractParse_terminates`,
  `C03_tractParseMethod_terminates`): the only exhaustion a tract parse can still report is that of the standardisation loop
  of `parse_aliquot` (not a regex loop; outside this file).
-/
import PyTRS.Lemmas.GlueFuel
import PyTRS.Lemmas.Stable
import PyTRS.Lemmas.Total
namespace PyTRS
open PyTRS.Tract PyTRS.Unpack

/-! ## Part 1 — the generic potential argument -/

/-- if every pass that changes the text lowers a potential `Φ`, the substitute-until-stable loop stops within `Φ t + 1` passes -/
theorem untilStable_potential (Φ : Str → Nat) (f : Str → Str) (hf : ∀ t, f t ≠ t → Φ (f t) < Φ t) :
    ∀ (fuel : Nat) (t : Str), Φ t < fuel → untilStable f fuel t ≠ none := by
  intro fuel
  induction fuel with
  | zero => intro t h; omega
  | succ n ih =>
    intro t h
    rw [untilStable]
    by_cases hc : (f t == t) = true
    · simp [hc]
    · simp only [hc]
      apply ih
      have hne : f t ≠ t := by simpa using hc
      have := hf t hne
      omega

/-! ## Part 2 — a big-step (relational) reading of the CPS matcher -/

/-- `Runs r s s'`: the matcher for `r`, started in `s`, can invoke its continuation on `s'`.  (An over-approximation:
priorities, the upper bound of repeats and the conditions of negative look-aheads and `\b` are forgotten.) -/
inductive Runs : Rx → St → St → Prop
  | eps (s : St) : Runs .eps s s
  | chr (cs : CharSet) (s : St) (c : Char) (t : List Char) (h : s.rest = c :: t) (hm : cs.mem c = true) :
      Runs (.chr cs) s { prev := some c, rest := t, pos := s.pos + 1, caps := s.caps }
  | seq {a b : Rx} {s s1 s2 : St} : Runs a s s1 → Runs b s1 s2 → Runs (.seq a b) s s2
  | altL {a b : Rx} {s s' : St} : Runs a s s' → Runs (.alt a b) s s'
  | altR {a b : Rx} {s s' : St} : Runs b s s' → Runs (.alt a b) s s'
  | repStop (r : Rx) (hi : Option Nat) (s : St) : Runs (.rep r 0 hi) s s
  | repIter {r : Rx} {lo : Nat} {hi : Option Nat} {s s1 s2 : St} : (1 ≤ lo ∨ hi ≠ some 0) →
      Runs r s s1 → Runs (.rep r (lo - 1) (hi.map (· - 1))) s1 s2 → Runs (.rep r lo hi) s s2
  | grp {i : Nat} {r : Rx} {s s' : St} : Runs r s s' →
      Runs (.grp i r) s { s' with caps := (i, s.pos, s'.pos) :: s'.caps }
  | ahead {r : Rx} {s s' : St} : Runs r s s' → Runs (.ahead r) s { s with caps := s'.caps }
  | nahead (r : Rx) (s : St) : Runs (.nahead r) s s
  | behind (cs : CharSet) (s : St) (c : Char) (h : s.prev = some c) (hm : cs.mem c = true) : Runs (.behind cs) s s
  | wordb (w : CharSet) (s : St) : Runs (.wordb w) s s
  | eos (s : St) (h : s.rest = [] ∨ s.rest = ['\n']) : Runs .eos s s
  | bos (s : St) : Runs .bos s s

def RunsSound (r : Rx) {R : Type} (f : St → (St → Option R) → Option R) : Prop :=
  ∀ s k x, f s k = some x → ∃ s', Runs r s s' ∧ k s' = some x

theorem hi_shift (hi : Option Nat) (count : Nat) : (hi.map (· - count)).map (· - 1) = hi.map (· - (count + 1)) := by
  cases hi with
  | none => rfl
  | some h => simp only [Option.map_some, Option.some.injEq]; omega

theorem repLoop_runs {R : Type} (r : Rx) (body : St → (St → Option R) → Option R)
    (hb : RunsSound r body) (lo : Nat) (hi : Option Nat) :
    ∀ (fuel count : Nat) (last : Option Nat),
      RunsSound (.rep r (lo - count) (hi.map (· - count))) (repLoop body lo hi fuel count last) := by
  intro fuel
  induction fuel with
  | zero => intro count last s k x h; simp [repLoop] at h
  | succ n ih =>
    intro count last s k x h
    rw [repLoop_succ] at h
    by_cases h1 : count < lo
    · simp only [h1, if_true] at h
      obtain ⟨s1, r1, hk1⟩ := hb s _ x h
      obtain ⟨s2, r2, hk2⟩ := ih _ _ s1 k x hk1
      refine ⟨s2, Runs.repIter (Or.inl (by omega)) r1 ?_, hk2⟩
      have : lo - count - 1 = lo - (count + 1) := by omega
      rw [this, hi_shift]; exact r2
    · simp only [h1, if_false] at h
      have h0 : lo - count = 0 := by omega
      rw [h0]
      by_cases h2 : (canMore hi count && last != some s.pos) = true
      · simp only [h2, if_true] at h
        cases hb' : body s (fun s' => repLoop body lo hi n (count + 1) (some s.pos) s' k) with
        | some y =>
          rw [hb'] at h
          cases h
          obtain ⟨s1, r1, hk1⟩ := hb s _ _ hb'
          obtain ⟨s2, r2, hk2⟩ := ih _ _ s1 k _ hk1
          have h0' : lo - (count + 1) = 0 := by omega
          rw [h0'] at r2
          refine ⟨s2, Runs.repIter (Or.inr ?_) r1 (by rw [hi_shift]; exact r2), hk2⟩
          simp only [Bool.and_eq_true] at h2
          cases hi with
          | none => simp
          | some hh =>
            have := h2.1
            simp only [canMore, decide_eq_true_eq] at this
            simp only [Option.map_some, ne_eq, Option.some.injEq]
            omega
        | none =>
          rw [hb'] at h
          exact ⟨s, Runs.repStop r _ s, h⟩
      · simp only [h2] at h
        exact ⟨s, Runs.repStop r _ s, h⟩

/-- soundness of the relational reading -/
theorem Rx.m_runs : ∀ (r : Rx) {R : Type}, RunsSound r (r.m (R := R)) := by
  intro r
  induction r with
  | eps => intro R s k x h; simp only [Rx.m] at h; exact ⟨s, Runs.eps s, h⟩
  | fail => intro R s k x h; simp [Rx.m] at h
  | chr cs =>
    intro R s k x h
    simp only [Rx.m] at h
    split at h
    · rename_i c t hrest
      split at h
      · rename_i hmem
        exact ⟨_, Runs.chr cs s c t hrest hmem, h⟩
      · cases h
    · cases h
  | seq a b iha ihb =>
    intro R s k x h
    simp only [Rx.m] at h
    obtain ⟨s1, r1, h1⟩ := iha s _ x h
    obtain ⟨s2, r2, h2⟩ := ihb s1 k x h1
    exact ⟨s2, Runs.seq r1 r2, h2⟩
  | alt a b iha ihb =>
    intro R s k x h
    simp only [Rx.m] at h
    split at h
    · rename_i y hy
      cases h
      obtain ⟨s1, r1, h1⟩ := iha s k _ hy
      exact ⟨s1, Runs.altL r1, h1⟩
    · obtain ⟨s1, r1, h1⟩ := ihb s k x h
      exact ⟨s1, Runs.altR r1, h1⟩
  | rep r lo hi ih =>
    intro R s k x h
    simp only [Rx.m] at h
    have := repLoop_runs r _ ih lo hi _ 0 none s k x h
    have e : hi.map (· - 0) = hi := by cases hi <;> rfl
    rw [Nat.sub_zero, e] at this
    exact this
  | grp i r ih =>
    intro R s k x h
    simp only [Rx.m] at h
    obtain ⟨s1, r1, h1⟩ := ih s _ x h
    exact ⟨_, Runs.grp r1, h1⟩
  | ahead r ih =>
    intro R s k x h
    simp only [Rx.m] at h
    split at h
    · rename_i s' hs'
      obtain ⟨s1, r1, h1⟩ := ih (R := St) s some s' hs'
      cases h1
      exact ⟨_, Runs.ahead r1, h⟩
    · cases h
  | nahead r _ =>
    intro R s k x h
    simp only [Rx.m] at h
    split at h
    · cases h
    · exact ⟨s, Runs.nahead r s, h⟩
  | behind cs =>
    intro R s k x h
    simp only [Rx.m] at h
    split at h
    · rename_i c hc
      split at h
      · rename_i hm
        exact ⟨s, Runs.behind cs s c hc hm, h⟩
      · cases h
    · cases h
  | wordb w =>
    intro R s k x h
    simp only [Rx.m] at h
    split at h
    · exact ⟨s, Runs.wordb w s, h⟩
    · cases h
  | eos =>
    intro R s k x h
    simp only [Rx.m] at h
    split at h
    · rename_i h0
      exact ⟨s, Runs.eos s (Or.inl h0), h⟩
    · rename_i c h0
      split at h
      · rename_i hc
        have : c = '\n' := by simpa using hc
        exact ⟨s, Runs.eos s (Or.inr (by rw [h0, this])), h⟩
      · cases h
    · cases h
  | bos =>
    intro R s k x h
    simp only [Rx.m] at h
    split at h
    · exact ⟨s, Runs.bos s, h⟩
    · cases h

/-- a match found at a cursor is a run of the pattern from the cursor to the end of the match -/
theorem matchHere_runs (r : Rx) (s : St) (adv : Bool) (m : Match) (h : matchHere r s adv = some m) :
    ∃ s', Runs r s s' ∧ m = ⟨s.pos, s'.pos, s'.caps⟩ := by
  unfold matchHere at h
  obtain ⟨s', hr, hk⟩ := Rx.m_runs r s _ m h
  split at hk
  · cases hk
  · cases hk
    exact ⟨s', hr, rfl⟩

/-! ## Part 3 — the text a run consumes -/

/-- `Eats r c`: the pattern `r` can consume exactly the text `c` (look-arounds consume nothing and are not checked) -/
inductive Eats : Rx → Str → Prop
  | eps : Eats .eps []
  | chr (cs : CharSet) (c : Char) (hm : cs.mem c = true) : Eats (.chr cs) [c]
  | seq {a b : Rx} {x y : Str} : Eats a x → Eats b y → Eats (.seq a b) (x ++ y)
  | altL {a b : Rx} {x : Str} : Eats a x → Eats (.alt a b) x
  | altR {a b : Rx} {x : Str} : Eats b x → Eats (.alt a b) x
  | repStop (r : Rx) (hi : Option Nat) : Eats (.rep r 0 hi) []
  | repIter {r : Rx} {lo : Nat} {hi : Option Nat} {x y : Str} : (1 ≤ lo ∨ hi ≠ some 0) →
      Eats r x → Eats (.rep r (lo - 1) (hi.map (· - 1))) y → Eats (.rep r lo hi) (x ++ y)
  | grp {i : Nat} {r : Rx} {x : Str} : Eats r x → Eats (.grp i r) x
  | ahead (r : Rx) : Eats (.ahead r) []
  | nahead (r : Rx) : Eats (.nahead r) []
  | behind (cs : CharSet) : Eats (.behind cs) []
  | wordb (w : CharSet) : Eats (.wordb w) []
  | eos : Eats .eos []
  | bos : Eats .bos []

/-- what a run consumed -/
def Consumed (s s' : St) (c : Str) : Prop := s.rest = c ++ s'.rest ∧ s'.pos = s.pos + c.length

theorem Runs.eats {r : Rx} {s s' : St} (h : Runs r s s') : ∃ c, Consumed s s' c ∧ Eats r c := by
  induction h with
  | eps s => exact ⟨[], ⟨by simp, by simp⟩, Eats.eps⟩
  | chr cs s c t h hm => exact ⟨[c], ⟨by simp [h], by simp⟩, Eats.chr cs c hm⟩
  | seq _ _ ih1 ih2 =>
    obtain ⟨x, ⟨hx1, hx2⟩, ex⟩ := ih1
    obtain ⟨y, ⟨hy1, hy2⟩, ey⟩ := ih2
    exact ⟨x ++ y, ⟨by rw [hx1, hy1, List.append_assoc], by rw [hy2, hx2, List.length_append]; omega⟩, Eats.seq ex ey⟩
  | altL _ ih => obtain ⟨x, hx, ex⟩ := ih; exact ⟨x, hx, Eats.altL ex⟩
  | altR _ ih => obtain ⟨x, hx, ex⟩ := ih; exact ⟨x, hx, Eats.altR ex⟩
  | repStop r hi s => exact ⟨[], ⟨by simp, by simp⟩, Eats.repStop r hi⟩
  | repIter hc _ _ ih1 ih2 =>
    obtain ⟨x, ⟨hx1, hx2⟩, ex⟩ := ih1
    obtain ⟨y, ⟨hy1, hy2⟩, ey⟩ := ih2
    exact ⟨x ++ y, ⟨by rw [hx1, hy1, List.append_assoc], by rw [hy2, hx2, List.length_append]; omega⟩, Eats.repIter hc ex ey⟩
  | grp _ ih => obtain ⟨x, hx, ex⟩ := ih; exact ⟨x, hx, Eats.grp ex⟩
  | ahead _ _ => exact ⟨[], ⟨by simp, by simp⟩, Eats.ahead _⟩
  | nahead r s => exact ⟨[], ⟨by simp, by simp⟩, Eats.nahead r⟩
  | behind cs s c h hm => exact ⟨[], ⟨by simp, by simp⟩, Eats.behind cs⟩
  | wordb w s => exact ⟨[], ⟨by simp, by simp⟩, Eats.wordb w⟩
  | eos s h => exact ⟨[], ⟨by simp, by simp⟩, Eats.eos⟩
  | bos s => exact ⟨[], ⟨by simp, by simp⟩, Eats.bos⟩

theorem Consumed.unique {s s' : St} {c c' : Str} (h : Consumed s s' c) (h' : Consumed s s' c') : c = c' := by
  have := h.1.symm.trans h'.1
  exact List.append_cancel_right this

theorem Consumed.eq_take {s s' : St} {c : Str} (h : Consumed s s' c) : c = s.rest.take (s'.pos - s.pos) := by
  have : s'.pos - s.pos = c.length := by have := h.2; omega
  rw [this, h.1, List.take_left]

/-- the span of a match found at a cursor was eaten by the pattern -/
theorem matchHere_eats (r : Rx) (s : St) (adv : Bool) (m : Match) (h : matchHere r s adv = some m) :
    m.start = s.pos ∧ ∃ c tail, s.rest = c ++ tail ∧ m.stop = m.start + c.length ∧ Eats r c := by
  obtain ⟨s', hr, rfl⟩ := matchHere_runs r s adv m h
  obtain ⟨c, hc, ec⟩ := hr.eats
  exact ⟨rfl, c, s'.rest, hc.1, hc.2, ec⟩

/-! ### analyses of `Eats` -/

theorem Eats.minWidth {r : Rx} {c : Str} (h : Eats r c) : r.minWidth ≤ c.length := by
  induction h with
  | eps => simp [Rx.minWidth]
  | chr cs c hm => simp [Rx.minWidth]
  | seq _ _ ih1 ih2 => simp only [Rx.minWidth, List.length_append]; omega
  | altL _ ih => simp only [Rx.minWidth]; omega
  | altR _ ih => simp only [Rx.minWidth]; omega
  | repStop r hi => simp [Rx.minWidth]
  | @repIter r lo hi x y hc _ _ ih1 ih2 =>
    simp only [Rx.minWidth, List.length_append] at ih2 ⊢
    rcases Nat.eq_zero_or_pos lo with h0 | h0
    · subst h0; simp
    · obtain ⟨l, rfl⟩ : ∃ l, lo = l + 1 := ⟨lo - 1, by omega⟩
      simp only [Nat.add_sub_cancel] at ih2
      rw [Nat.succ_mul]; omega
  | grp _ ih => simpa [Rx.minWidth] using ih
  | ahead r => simp [Rx.minWidth]
  | nahead r => simp [Rx.minWidth]
  | behind cs => simp [Rx.minWidth]
  | wordb w => simp [Rx.minWidth]
  | eos => simp [Rx.minWidth]
  | bos => simp [Rx.minWidth]

theorem Eats.onlyIn (D : CharSet) {r : Rx} {c : Str} (h : Eats r c) : r.onlyIn D = true → ∀ ch ∈ c, D.mem ch = true := by
  induction h with
  | eps => intro _ ch hch; cases hch
  | chr cs c hm =>
    intro ho ch hch
    simp only [Rx.onlyIn] at ho
    simp only [List.mem_singleton] at hch
    subst hch
    exact CharSet.mem_of_subset ho hm
  | seq _ _ ih1 ih2 =>
    intro ho ch hch
    simp only [Rx.onlyIn, Bool.and_eq_true] at ho
    rcases List.mem_append.mp hch with hch | hch
    · exact ih1 ho.1 ch hch
    · exact ih2 ho.2 ch hch
  | altL _ ih => intro ho; simp only [Rx.onlyIn, Bool.and_eq_true] at ho; exact ih ho.1
  | altR _ ih => intro ho; simp only [Rx.onlyIn, Bool.and_eq_true] at ho; exact ih ho.2
  | repStop r hi => intro _ ch hch; cases hch
  | repIter hc _ _ ih1 ih2 =>
    intro ho ch hch
    simp only [Rx.onlyIn] at ho ih2
    rcases List.mem_append.mp hch with hch | hch
    · exact ih1 ho ch hch
    · exact ih2 ho ch hch
  | grp _ ih => intro ho; simp only [Rx.onlyIn] at ho; exact ih ho
  | ahead r => intro _ ch hch; cases hch
  | nahead r => intro _ ch hch; cases hch
  | behind cs => intro _ ch hch; cases hch
  | wordb w => intro _ ch hch; cases hch
  | eos => intro _ ch hch; cases hch
  | bos => intro _ ch hch; cases hch

/-! ### how many characters of a class a match can contain -/

def CharSet.disjoint (cs D : CharSet) : Bool := cs.all (fun r => D.all (fun d => decide (r.2 < d.1) || decide (d.2 < r.1)))

theorem CharSet.not_mem_of_disjoint {cs D : CharSet} (h : cs.disjoint D = true) {c : Char} (hc : cs.mem c = true) :
    D.mem c = false := by
  cases hD : D.mem c with
  | false => rfl
  | true =>
    exfalso
    unfold CharSet.mem at hc hD
    unfold CharSet.disjoint at h
    rw [List.any_eq_true] at hc hD
    obtain ⟨r, hr, hrc⟩ := hc
    obtain ⟨d, hd, hdc⟩ := hD
    rw [List.all_eq_true] at h
    have := h r hr
    rw [List.all_eq_true] at this
    have := this d hd
    simp only [Bool.and_eq_true, Bool.or_eq_true, decide_eq_true_eq] at hrc hdc this
    omega

/-- an upper bound on the number of `D`-characters in a match (`none`: no bound found) -/
def Rx.maxHits (D : CharSet) : Rx → Option Nat
  | .chr cs => if cs.disjoint D then some 0 else some 1
  | .seq a b =>
    match a.maxHits D, b.maxHits D with
    | some x, some y => some (x + y)
    | _, _ => none
  | .alt a b =>
    match a.maxHits D, b.maxHits D with
    | some x, some y => some (max x y)
    | _, _ => none
  | .rep r lo (some h) => (r.maxHits D).map (· * max lo h)
  | .rep r _ none => if r.maxHits D = some 0 then some 0 else none
  | .grp _ r => r.maxHits D
  | .eps | .fail | .ahead _ | .nahead _ | .behind _ | .wordb _ | .eos | .bos => some 0

theorem hits_nil (D : CharSet) : hits D [] = 0 := rfl

theorem Eats.maxHits (D : CharSet) {r : Rx} {c : Str} (h : Eats r c) : ∀ k, r.maxHits D = some k → hits D c ≤ k := by
  induction h with
  | eps => intro k _; simp [hits_nil]
  | chr cs c hm =>
    intro k hk
    simp only [Rx.maxHits] at hk
    split at hk
    · rename_i hd
      have := CharSet.not_mem_of_disjoint hd hm
      simp [hits, this]
    · cases hk
      exact hits_le_length D [c]
  | seq _ _ ih1 ih2 =>
    intro k hk
    simp only [Rx.maxHits] at hk
    split at hk
    · rename_i x y hx hy
      cases hk
      rw [hits_append]
      have := ih1 x hx
      have := ih2 y hy
      omega
    · cases hk
  | altL _ ih =>
    intro k hk
    simp only [Rx.maxHits] at hk
    split at hk
    · rename_i x y hx hy
      cases hk
      have := ih x hx
      omega
    · cases hk
  | altR _ ih =>
    intro k hk
    simp only [Rx.maxHits] at hk
    split at hk
    · rename_i x y hx hy
      cases hk
      have := ih y hy
      omega
    · cases hk
  | repStop r hi => intro k _; simp [hits_nil]
  | @repIter r lo hi x y hc _ _ ih1 ih2 =>
    intro k hk
    rw [hits_append]
    cases hi with
    | none =>
      simp only [Rx.maxHits, Option.map_none] at hk ih2
      split at hk
      · rename_i h0
        cases hk
        have := ih1 0 h0
        have := ih2 0 (by simp [h0])
        omega
      · cases hk
    | some hh =>
      simp only [Rx.maxHits, Option.map_some] at hk ih2
      cases h0 : r.maxHits D with
      | none => rw [h0] at hk; cases hk
      | some k0 =>
        rw [h0] at hk ih2
        simp only [Option.map_some, Option.some.injEq] at hk ih2
        subst hk
        have h1 := ih1 k0 h0
        have h2 := ih2 _ rfl
        have hM : max lo hh = max (lo - 1) (hh - 1) + 1 := by
          have : 1 ≤ lo ∨ hh ≠ 0 := by
            rcases hc with hc | hc
            · exact Or.inl hc
            · exact Or.inr (by simpa using hc)
          omega
        rw [hM, Nat.mul_succ]
        omega
  | grp _ ih => intro k hk; simp only [Rx.maxHits] at hk; exact ih k hk
  | ahead r => intro k _; simp [hits_nil]
  | nahead r => intro k _; simp [hits_nil]
  | behind cs => intro k _; simp [hits_nil]
  | wordb w => intro k _; simp [hits_nil]
  | eos => intro k _; simp [hits_nil]
  | bos => intro k _; simp [hits_nil]

/-! ### the short matches of a pattern, as words of character classes -/

abbrev Word := List CharSet

/-- the text `c` is, character by character, in the classes of `w` -/
def Fits : Word → Str → Prop
  | [], [] => True
  | cs :: w, c :: t => cs.mem c = true ∧ Fits w t
  | _, _ => False

theorem Fits.length : ∀ {w : Word} {c : Str}, Fits w c → w.length = c.length
  | [], [], _ => rfl
  | _ :: w, _ :: t, h => by simp only [List.length_cons]; rw [Fits.length h.2]
  | [], _ :: _, h => by cases h
  | _ :: _, [], h => by cases h

theorem Fits.append : ∀ {w1 : Word} {c1 : Str} {w2 : Word} {c2 : Str}, Fits w1 c1 → Fits w2 c2 → Fits (w1 ++ w2) (c1 ++ c2)
  | [], [], _, _, _, h2 => h2
  | _ :: w, _ :: t, _, _, h1, h2 => ⟨h1.1, Fits.append h1.2 h2⟩
  | [], _ :: _, _, _, h, _ => by cases h
  | _ :: _, [], _, _, h, _ => by cases h

theorem Fits.nil_iff {c : Str} : Fits [] c ↔ c = [] := by
  cases c <;> simp [Fits]

/-- concatenations of a word of `A` and a word of `B`, of length at most `n` -/
def catW (n : Nat) (A B : List Word) : List Word :=
  A.flatMap (fun a => (B.filter (fun b => decide (a.length + b.length ≤ n))).map (fun b => a ++ b))

theorem mem_catW {n : Nat} {A B : List Word} {w : Word} :
    w ∈ catW n A B ↔ ∃ a ∈ A, ∃ b ∈ B, a.length + b.length ≤ n ∧ w = a ++ b := by
  unfold catW
  simp only [List.mem_flatMap, List.mem_map, List.mem_filter, decide_eq_true_eq]
  constructor
  · rintro ⟨a, ha, b, ⟨hb, hl⟩, rfl⟩; exact ⟨a, ha, b, hb, hl, rfl⟩
  · rintro ⟨a, ha, b, hb, hl, rfl⟩; exact ⟨a, ha, b, ⟨hb, hl⟩, rfl⟩

def powW (n : Nat) (B : List Word) : Nat → List Word
  | 0 => [[]]
  | k+1 => catW n B (powW n B k)

def starW (n : Nat) (B : List Word) : Nat → List Word
  | 0 => [[]]
  | m+1 => [] :: catW n (B.filter (fun b => !b.isEmpty)) (starW n B m)

theorem nil_mem_starW (n : Nat) (B : List Word) (m : Nat) : [] ∈ starW n B m := by
  cases m <;> simp [starW]

theorem starW_mono (n : Nat) (B : List Word) : ∀ (m : Nat) (w : Word) (m' : Nat),
    w ∈ starW n B m → m ≤ m' → w ∈ starW n B m' := by
  intro m
  induction m with
  | zero =>
    intro w m' hw _
    simp only [starW, List.mem_singleton] at hw
    subst hw
    exact nil_mem_starW n B m'
  | succ m ih =>
    intro w m' hw hl
    simp only [starW, List.mem_cons] at hw
    rcases hw with rfl | hw
    · exact nil_mem_starW n B m'
    · obtain ⟨a, ha, v, hv, hlen, rfl⟩ := mem_catW.mp hw
      obtain ⟨j', rfl⟩ : ∃ j', m' = j' + 1 := ⟨m' - 1, by omega⟩
      have hv' := ih v j' hv (by omega)
      simp only [starW, List.mem_cons]
      exact Or.inr (mem_catW.mpr ⟨a, ha, v, hv', hlen, rfl⟩)

theorem starW_down (n : Nat) (B : List Word) : ∀ (m : Nat) (w : Word) (j : Nat),
    w ∈ starW n B m → w.length ≤ j → w ∈ starW n B (min m j) := by
  intro m
  induction m with
  | zero =>
    intro w j hw _
    simp only [starW, List.mem_singleton] at hw
    subst hw
    exact nil_mem_starW n B _
  | succ m ih =>
    intro w j hw hl
    simp only [starW, List.mem_cons] at hw
    rcases hw with rfl | hw
    · exact nil_mem_starW n B _
    · obtain ⟨a, ha, v, hv, hlen, rfl⟩ := mem_catW.mp hw
      have hane : 1 ≤ a.length := by
        simp only [List.mem_filter, Bool.not_eq_true', List.isEmpty_eq_false_iff] at ha
        cases a with
        | nil => exact absurd rfl ha.2
        | cons _ _ => simp
      rw [List.length_append] at hl
      obtain ⟨j', rfl⟩ : ∃ j', j = j' + 1 := ⟨j - 1, by omega⟩
      have hv' := ih v j' hv (by omega)
      have e : min (m + 1) (j' + 1) = min m j' + 1 := by omega
      rw [e]
      simp only [starW, List.mem_cons]
      exact Or.inr (mem_catW.mpr ⟨a, ha, v, hv', hlen, rfl⟩)

/-- how many optional iterations of a repeat can matter for words of at most `n` classes -/
def optB (n lo : Nat) : Option Nat → Nat
  | none => n
  | some h => min n (h - lo)

/-- every word of at most `n` classes that the pattern can consume (an over-approximation) -/
def Rx.words (n : Nat) : Rx → List Word
  | .eps => [[]]
  | .fail => []
  | .chr cs => if 1 ≤ n then [[cs]] else []
  | .seq a b => catW n (a.words n) (b.words n)
  | .alt a b => a.words n ++ b.words n
  | .rep r lo hi => catW n (powW n (r.words n) lo) (starW n (r.words n) (optB n lo hi))
  | .grp _ r => r.words n
  | .ahead _ | .nahead _ | .behind _ | .wordb _ | .eos | .bos => [[]]

theorem Eats.words (n : Nat) {r : Rx} {c : Str} (h : Eats r c) : c.length ≤ n → ∃ w ∈ r.words n, Fits w c := by
  induction h with
  | eps => intro _; exact ⟨[], by simp [Rx.words], trivial⟩
  | chr cs c hm =>
    intro hl
    simp only [List.length_singleton] at hl
    exact ⟨[cs], by simp [Rx.words, hl], ⟨hm, trivial⟩⟩
  | seq _ _ ih1 ih2 =>
    intro hl
    rw [List.length_append] at hl
    obtain ⟨w1, hw1, f1⟩ := ih1 (by omega)
    obtain ⟨w2, hw2, f2⟩ := ih2 (by omega)
    refine ⟨w1 ++ w2, ?_, f1.append f2⟩
    simp only [Rx.words]
    exact mem_catW.mpr ⟨w1, hw1, w2, hw2, by rw [f1.length, f2.length]; exact hl, rfl⟩
  | altL _ ih =>
    intro hl
    obtain ⟨w, hw, f⟩ := ih hl
    exact ⟨w, by simp only [Rx.words, List.mem_append]; exact Or.inl hw, f⟩
  | altR _ ih =>
    intro hl
    obtain ⟨w, hw, f⟩ := ih hl
    exact ⟨w, by simp only [Rx.words, List.mem_append]; exact Or.inr hw, f⟩
  | repStop r hi =>
    intro _
    refine ⟨[], ?_, trivial⟩
    simp only [Rx.words]
    exact mem_catW.mpr ⟨[], by simp [powW], [], nil_mem_starW _ _ _, by simp, rfl⟩
  | @repIter r lo hi x y hc _ _ ih1 ih2 =>
    intro hl
    rw [List.length_append] at hl
    obtain ⟨w1, hw1, f1⟩ := ih1 (by omega)
    obtain ⟨w2, hw2, f2⟩ := ih2 (by omega)
    simp only [Rx.words] at hw2 ⊢
    obtain ⟨u, hu, v, hv, huv, rfl⟩ := mem_catW.mp hw2
    have hlen : w1.length + (u ++ v).length ≤ n := by rw [f1.length, f2.length]; exact hl
    rw [List.length_append] at hlen
    rcases Nat.eq_zero_or_pos lo with h0 | h0
    · subst h0
      simp only [powW, List.mem_singleton, Nat.zero_sub] at hu
      subst hu
      simp only [List.nil_append, Nat.zero_sub] at f2 hlen hv ⊢
      have hb1 : optB n 0 (hi.map (· - 1)) ≤ optB n 0 hi := by
        cases hi with
        | none => exact Nat.le_refl _
        | some hh => simp only [optB, Option.map_some]; omega
      cases hw1e : w1 with
      | nil =>
        subst hw1e
        have : x = [] := Fits.nil_iff.mp f1
        subst this
        have hv' := starW_mono n (r.words n) _ v _ hv hb1
        exact ⟨v, mem_catW.mpr ⟨[], by simp [powW], v, hv', by simp; omega, rfl⟩, f2⟩
      | cons a1 w1' =>
        rw [hw1e] at hw1 f1 hlen
        simp only [List.length_cons] at hlen
        obtain ⟨k, rfl⟩ : ∃ k, n = k + 1 := ⟨n - 1, by omega⟩
        have hv' := starW_down (k+1) (r.words (k+1)) _ v k hv (by omega)
        have hb2 : min (optB (k+1) 0 (hi.map (· - 1))) k + 1 ≤ optB (k+1) 0 hi := by
          cases hi with
          | none => simp only [optB, Option.map_none]; omega
          | some hh =>
            have : hh ≠ 0 := by
              rcases hc with hc | hc
              · omega
              · simpa using hc
            simp only [optB, Option.map_some]; omega
        refine ⟨(a1 :: w1') ++ v, ?_, f1.append f2⟩
        refine mem_catW.mpr ⟨[], by simp [powW], (a1 :: w1') ++ v, ?_, by simp; omega, rfl⟩
        apply starW_mono (k+1) (r.words (k+1)) _ _ _ _ hb2
        simp only [starW, List.mem_cons]
        refine Or.inr (mem_catW.mpr ⟨a1 :: w1', ?_, v, hv', by simp; omega, rfl⟩)
        simp [hw1]
    · obtain ⟨l, rfl⟩ : ∃ l, lo = l + 1 := ⟨lo - 1, by omega⟩
      simp only [Nat.add_sub_cancel] at hu hv
      have hb : optB n l (hi.map (· - 1)) = optB n (l + 1) hi := by
        cases hi with
        | none => rfl
        | some hh => simp only [optB, Option.map_some]; omega
      rw [hb] at hv
      refine ⟨(w1 ++ u) ++ v, ?_, by rw [List.append_assoc]; exact f1.append f2⟩
      refine mem_catW.mpr ⟨w1 ++ u, ?_, v, hv, by rw [List.length_append]; omega, rfl⟩
      simp only [powW]
      exact mem_catW.mpr ⟨w1, hw1, u, hu, by omega, rfl⟩
  | grp _ ih => intro hl; simpa [Rx.words] using ih hl
  | ahead r => intro _; exact ⟨[], by simp [Rx.words], trivial⟩
  | nahead r => intro _; exact ⟨[], by simp [Rx.words], trivial⟩
  | behind cs => intro _; exact ⟨[], by simp [Rx.words], trivial⟩
  | wordb w => intro _; exact ⟨[], by simp [Rx.words], trivial⟩
  | eos => intro _; exact ⟨[], by simp [Rx.words], trivial⟩
  | bos => intro _; exact ⟨[], by simp [Rx.words], trivial⟩

/-! ### first character, next character -/

/-- the pattern consumes nothing -/
def Rx.zeroW : Rx → Bool
  | .chr _ => false
  | .seq a b | .alt a b => a.zeroW && b.zeroW
  | .rep r _ _ | .grp _ r => r.zeroW
  | .eps | .fail | .ahead _ | .nahead _ | .behind _ | .wordb _ | .eos | .bos => true

theorem Eats.zeroW {r : Rx} {c : Str} (h : Eats r c) : r.zeroW = true → c = [] := by
  induction h with
  | chr cs c hm => intro hz; simp [Rx.zeroW] at hz
  | seq _ _ ih1 ih2 =>
    intro hz; simp only [Rx.zeroW, Bool.and_eq_true] at hz
    rw [ih1 hz.1, ih2 hz.2]; rfl
  | altL _ ih => intro hz; simp only [Rx.zeroW, Bool.and_eq_true] at hz; exact ih hz.1
  | altR _ ih => intro hz; simp only [Rx.zeroW, Bool.and_eq_true] at hz; exact ih hz.2
  | repIter hc _ _ ih1 ih2 =>
    intro hz; simp only [Rx.zeroW] at hz ih2
    rw [ih1 hz, ih2 hz]; rfl
  | grp _ ih => intro hz; simp only [Rx.zeroW] at hz; exact ih hz
  | _ => intro _; rfl

/-- every match starts with a character of `D` -/
def Rx.firstIn (D : CharSet) : Rx → Bool
  | .chr cs => cs.subset D
  | .seq a b => a.firstIn D || (a.zeroW && b.firstIn D)
  | .alt a b => a.firstIn D && b.firstIn D
  | .rep r lo _ => decide (1 ≤ lo) && r.firstIn D
  | .grp _ r => r.firstIn D
  | .eps | .fail | .ahead _ | .nahead _ | .behind _ | .wordb _ | .eos | .bos => false

theorem Eats.firstIn (D : CharSet) {r : Rx} {c : Str} (h : Eats r c) :
    r.firstIn D = true → ∃ ch t, c = ch :: t ∧ D.mem ch = true := by
  induction h with
  | eps => intro hf; simp [Rx.firstIn] at hf
  | chr cs c hm =>
    intro hf
    simp only [Rx.firstIn] at hf
    exact ⟨c, [], rfl, CharSet.mem_of_subset hf hm⟩
  | @seq a b x y e1 _ ih1 ih2 =>
    intro hf
    simp only [Rx.firstIn, Bool.or_eq_true, Bool.and_eq_true] at hf
    rcases hf with hf | ⟨hz, hf⟩
    · obtain ⟨ch, t, rfl, hd⟩ := ih1 hf
      exact ⟨ch, t ++ y, rfl, hd⟩
    · rw [e1.zeroW hz]
      exact ih2 hf
  | altL _ ih => intro hf; simp only [Rx.firstIn, Bool.and_eq_true] at hf; exact ih hf.1
  | altR _ ih => intro hf; simp only [Rx.firstIn, Bool.and_eq_true] at hf; exact ih hf.2
  | repStop r hi => intro hf; simp [Rx.firstIn] at hf
  | @repIter r lo hi x y hc _ _ ih1 ih2 =>
    intro hf
    simp only [Rx.firstIn, Bool.and_eq_true, decide_eq_true_eq] at hf
    obtain ⟨ch, t, rfl, hd⟩ := ih1 hf.2
    exact ⟨ch, t ++ y, rfl, hd⟩
  | grp _ ih => intro hf; simp only [Rx.firstIn] at hf; exact ih hf
  | ahead r => intro hf; simp [Rx.firstIn] at hf
  | nahead r => intro hf; simp [Rx.firstIn] at hf
  | behind cs => intro hf; simp [Rx.firstIn] at hf
  | wordb w => intro hf; simp [Rx.firstIn] at hf
  | eos => intro hf; simp [Rx.firstIn] at hf
  | bos => intro hf; simp [Rx.firstIn] at hf

/-- after every match, the text is at its end or continues with a character of `D` (the pattern ends in look-aheads) -/
def Rx.nextIn (D : CharSet) : Rx → Bool
  | .seq _ b => b.nextIn D
  | .alt a b => a.nextIn D && b.nextIn D
  | .grp _ r => r.nextIn D
  | .ahead r => r.firstIn D
  | .eos => D.mem '\n'
  | .eps | .fail | .chr _ | .rep _ _ _ | .nahead _ | .behind _ | .wordb _ | .bos => false

theorem Runs.nextIn (D : CharSet) {r : Rx} {s s' : St} (h : Runs r s s') :
    r.nextIn D = true → ∀ ch, s'.rest.head? = some ch → D.mem ch = true := by
  induction h with
  | eps s => intro hn; simp [Rx.nextIn] at hn
  | chr cs s c t h hm => intro hn; simp [Rx.nextIn] at hn
  | seq _ _ _ ih2 => intro hn; simp only [Rx.nextIn] at hn; exact ih2 hn
  | altL _ ih => intro hn; simp only [Rx.nextIn, Bool.and_eq_true] at hn; exact ih hn.1
  | altR _ ih => intro hn; simp only [Rx.nextIn, Bool.and_eq_true] at hn; exact ih hn.2
  | repStop r hi s => intro hn; simp [Rx.nextIn] at hn
  | repIter hc _ _ _ _ => intro hn; simp [Rx.nextIn] at hn
  | grp _ ih => intro hn; simp only [Rx.nextIn] at hn; exact ih hn
  | @ahead r s s'' hr _ =>
    intro hn ch hch
    simp only [Rx.nextIn] at hn
    obtain ⟨c, hc, ec⟩ := hr.eats
    obtain ⟨ch', t, rfl, hd⟩ := ec.firstIn D hn
    simp only [hc.1, List.cons_append, List.head?_cons, Option.some.injEq] at hch
    rw [← hch]; exact hd
  | nahead r s => intro hn; simp [Rx.nextIn] at hn
  | behind cs s c h hm => intro hn; simp [Rx.nextIn] at hn
  | wordb w s => intro hn; simp [Rx.nextIn] at hn
  | eos s h =>
    intro hn ch hch
    simp only [Rx.nextIn] at hn
    rcases h with h | h
    · rw [h] at hch; cases hch
    · rw [h] at hch
      simp only [List.head?_cons, Option.some.injEq] at hch
      rw [← hch]; exact hn
  | bos s => intro hn; simp [Rx.nextIn] at hn

/-! ### captures -/

def Rx.grpIdx : Rx → List Nat
  | .seq a b | .alt a b => a.grpIdx ++ b.grpIdx
  | .rep r _ _ | .ahead r | .nahead r => r.grpIdx
  | .grp i r => i :: r.grpIdx
  | .eps | .fail | .chr _ | .behind _ | .wordb _ | .eos | .bos => []

/-- a run only adds captures, in front, and only of groups that occur in the pattern -/
theorem Runs.frame {r : Rx} {s s' : St} (h : Runs r s s') :
    ∃ new, s'.caps = new ++ s.caps ∧ ∀ e ∈ new, e.1 ∈ r.grpIdx := by
  induction h with
  | seq _ _ ih1 ih2 =>
    obtain ⟨n1, h1, g1⟩ := ih1
    obtain ⟨n2, h2, g2⟩ := ih2
    refine ⟨n2 ++ n1, by rw [h2, h1, List.append_assoc], ?_⟩
    intro e he
    simp only [Rx.grpIdx, List.mem_append] at he ⊢
    rcases he with he | he
    · exact Or.inr (g2 e he)
    · exact Or.inl (g1 e he)
  | altL _ ih =>
    obtain ⟨n1, h1, g1⟩ := ih
    exact ⟨n1, h1, fun e he => by simp only [Rx.grpIdx, List.mem_append]; exact Or.inl (g1 e he)⟩
  | altR _ ih =>
    obtain ⟨n1, h1, g1⟩ := ih
    exact ⟨n1, h1, fun e he => by simp only [Rx.grpIdx, List.mem_append]; exact Or.inr (g1 e he)⟩
  | repIter hc _ _ ih1 ih2 =>
    obtain ⟨n1, h1, g1⟩ := ih1
    obtain ⟨n2, h2, g2⟩ := ih2
    refine ⟨n2 ++ n1, by rw [h2, h1, List.append_assoc], ?_⟩
    intro e he
    simp only [Rx.grpIdx, List.mem_append] at he g2 ⊢
    rcases he with he | he
    · exact g2 e he
    · exact g1 e he
  | @grp i r s s' _ ih =>
    obtain ⟨n1, h1, g1⟩ := ih
    refine ⟨(i, s.pos, s'.pos) :: n1, by simp [h1], ?_⟩
    intro e he
    simp only [Rx.grpIdx, List.mem_cons] at he ⊢
    rcases he with rfl | he
    · exact Or.inl rfl
    · exact Or.inr (g1 e he)
  | ahead _ ih =>
    obtain ⟨n1, h1, g1⟩ := ih
    exact ⟨n1, h1, fun e he => by simp only [Rx.grpIdx]; exact g1 e he⟩
  | _ => exact ⟨[], rfl, fun e he => by cases he⟩

theorem find_skip_new {g : Nat} {new rest : List (Nat × Nat × Nat)} {idx : List Nat}
    (hn : ∀ e ∈ new, e.1 ∈ idx) (hg : idx.contains g = false) :
    (new ++ rest).find? (fun c => c.1 == g) = rest.find? (fun c => c.1 == g) := by
  induction new with
  | nil => rfl
  | cons e t ih =>
    have he : (e.1 == g) = false := by
      have hm := hn e (by simp)
      cases hb : e.1 == g with
      | false => rfl
      | true =>
        have he1 : e.1 = g := by simpa using hb
        rw [he1] at hm
        have : idx.contains g = true := by simpa using hm
        rw [this] at hg; cases hg
    rw [List.cons_append, List.find?_cons, he]
    exact ih (fun e' he' => hn e' (by simp [he']))

theorem Runs.ext {r : Rx} {s s' : St} (h : Runs r s s') : St.Ext s s' := by
  obtain ⟨c, hc, _⟩ := h.eats
  exact ⟨c, hc.1, hc.2⟩

/-- a repeat with at least one mandatory iteration ends with an iteration -/
theorem Runs.lastIter {rx : Rx} {s s' : St} (h : Runs rx s s') : ∀ r lo hi, rx = .rep r lo hi →
    s' = s ∨ ∃ sa, St.Ext s sa ∧ Runs r sa s' := by
  induction h with
  | repStop r hi s => intro _ _ _ _; exact Or.inl rfl
  | @repIter r lo hi s s1 s2 hc r1 r2 _ ih2 =>
    intro r' lo' hi' e
    cases e
    rcases ih2 _ _ _ rfl with h | ⟨sa, e1, ra⟩
    · subst h; exact Or.inr ⟨s, St.Ext.refl s, r1⟩
    · exact Or.inr ⟨sa, r1.ext.trans e1, ra⟩
  | _ => intro _ _ _ e; cases e

theorem Runs.lastIter_pos {r : Rx} {lo : Nat} {hi : Option Nat} {s s' : St} (h : Runs (.rep r lo hi) s s') (hlo : 1 ≤ lo) :
    ∃ sa, St.Ext s sa ∧ Runs r sa s' := by
  cases h with
  | repStop => omega
  | repIter hc r1 r2 =>
    rcases r2.lastIter _ _ _ rfl with h | ⟨sa, e1, ra⟩
    · subst h; exact ⟨s, St.Ext.refl s, r1⟩
    · exact ⟨sa, r1.ext.trans e1, ra⟩

/-! ## Part 4 — one `re.sub` pass: the matches in their context -/

/-- the matches of a `finditer` over `text`, seen from position `i` on: in order, inside the text, not overlapping,
each satisfying `Q` -/
inductive PChain (text : Str) (Q : Match → Prop) : Nat → List Match → Prop
  | nil (i : Nat) : PChain text Q i []
  | cons (i : Nat) (m : Match) (ms : List Match) (h1 : i ≤ m.start) (h2 : m.start ≤ m.stop)
      (h3 : m.stop ≤ text.length) (hq : Q m) (hr : PChain text Q m.stop ms) : PChain text Q i (m :: ms)

/-- a match reported by `scan` was found by `matchHere` at its own start -/
theorem scan_matchHere (r : Rx) : ∀ (rest : List Char) (prev : Option Char) (pos : Nat) (adv : Bool) (m : Match),
    scan r prev rest pos adv = some m →
      pos ≤ m.start ∧ ∃ prev' adv', matchHere r ⟨prev', rest.drop (m.start - pos), m.start, []⟩ adv' = some m := by
  intro rest
  induction rest with
  | nil =>
    intro prev pos adv m h
    rw [scan] at h
    split at h
    · rename_i m' hm
      cases h
      have hb := (matchHere_bounds r _ adv m hm).1
      simp only [] at hb
      refine ⟨by omega, prev, adv, ?_⟩
      rw [hb]; simpa using hm
    · cases h
  | cons a t ih =>
    intro prev pos adv m h
    rw [scan] at h
    split at h
    · rename_i m' hm
      cases h
      have hb := (matchHere_bounds r _ adv m hm).1
      simp only [] at hb
      refine ⟨by omega, prev, adv, ?_⟩
      rw [hb]; simpa using hm
    · obtain ⟨h1, p', a', h2⟩ := ih (some a) (pos + 1) false m h
      refine ⟨by omega, p', a', ?_⟩
      have : m.start - pos = (m.start - (pos + 1)) + 1 := by omega
      rw [this, List.drop_succ_cons]
      exact h2

theorem finditerAux_pchain (r : Rx) (text : Str) (Q : Match → Prop)
    (hQ : ∀ m prev adv, matchHere r ⟨prev, text.drop m.start, m.start, []⟩ adv = some m → m.stop ≤ text.length → Q m) :
    ∀ (fuel : Nat) (prev : Option Char) (rest : List Char) (pos : Nat) (adv : Bool),
      rest = text.drop pos → pos ≤ text.length →
      PChain text Q pos (finditerAux r fuel prev rest pos adv) := by
  intro fuel
  induction fuel with
  | zero => intro prev rest pos adv _ _; exact PChain.nil _
  | succ n ih =>
    intro prev rest pos adv hrest hpos
    cases hs : scan r prev rest pos adv with
    | none => rw [finditerAux_none r n prev rest pos adv hs]; exact PChain.nil _
    | some m =>
      obtain ⟨p', hp'⟩ := finditerAux_some r n prev rest pos adv m hs
      rw [hp']
      obtain ⟨h1, h2, h3⟩ := scan_bounds r rest prev pos adv m hs
      obtain ⟨_, pv, av, hmh⟩ := scan_matchHere r rest prev pos adv m hs
      have hlen : m.stop ≤ text.length := by
        rw [hrest, List.length_drop] at h3; omega
      refine PChain.cons pos m _ h1 h2 hlen ?_ ?_
      · apply hQ m pv av _ hlen
        rw [hrest, List.drop_drop] at hmh
        have : pos + (m.start - pos) = m.start := by omega
        rw [this] at hmh
        exact hmh
      · apply ih
        · rw [hrest, List.drop_drop]
          congr 1
          omega
        · exact hlen

theorem finditer_pchain (r : Rx) (text : Str) (Q : Match → Prop)
    (hQ : ∀ m prev adv, matchHere r ⟨prev, text.drop m.start, m.start, []⟩ adv = some m → m.stop ≤ text.length → Q m) :
    PChain text Q 0 (r.finditer text) := by
  rw [finditer_default]
  exact finditerAux_pchain r text Q hQ _ none text 0 false (by simp) (Nat.zero_le _)

theorem subWith_eq_body (r : Rx) (text : Str) (f : Match → Str) :
    r.subWith text f = subBody text f (r.finditer text) 0 := by
  unfold Rx.subWith
  simp only [subgo_eq, List.nil_append]

/-! ### passes that shorten -/

theorem slice_length (t : Str) (a b : Nat) (hab : a ≤ b) (hb : b ≤ t.length) : (slice t a b).length = b - a := by
  unfold slice
  rw [List.length_drop, List.length_take]
  omega

theorem subBody_len (t : Str) (f : Match → Str) : ∀ (ms : List Match) (i : Nat),
    PChain t (fun m => (f m).length < m.stop - m.start) i ms → i ≤ t.length →
    (subBody t f ms i).length ≤ (t.drop i).length ∧ (ms ≠ [] → (subBody t f ms i).length < (t.drop i).length) := by
  intro ms i h
  induction h with
  | nil i => intro _; exact ⟨Nat.le_refl _, fun h => absurd rfl h⟩
  | cons i m ms h1 h2 h3 hq hr ih =>
    intro hi
    have ih' := (ih h3).1
    rw [subBody]
    simp only [List.length_append, List.length_drop] at ih' ⊢
    rw [slice_length t i m.start h1 (by omega)]
    refine ⟨by omega, fun _ => by omega⟩

/-- a pass in which every replacement is shorter than what it replaces shortens the text, or leaves it as it is -/
theorem subWith_len (r : Rx) (t : Str) (f : Match → Str)
    (hQ : ∀ m prev adv, matchHere r ⟨prev, t.drop m.start, m.start, []⟩ adv = some m → m.stop ≤ t.length →
      (f m).length < m.stop - m.start) :
    (r.subWith t f).length < t.length ∨ r.subWith t f = t := by
  rw [subWith_eq_body]
  have hc := finditer_pchain r t _ hQ
  cases hms : r.finditer t with
  | nil => right; simp [subBody]
  | cons m ms =>
    left
    rw [hms] at hc
    have := (subBody_len t f _ 0 hc (Nat.zero_le _)).2 (by simp)
    simpa using this

/-! ### the potential -/

def isQ (c : Char) : Bool := c == '¼'

/-- is the next character (of `t`, or else what follows `t`) a `¼`? -/
def nextQ : Str → Bool → Bool
  | [], q => q
  | c :: _, _ => isQ c

/-- weight of a character, given whether a `¼` follows it: `¼` and an `E`/`W` directly before `¼` weigh 0, the other
capital `N E S W` and `½` weigh 1, everything else 2 -/
def wt (c : Char) (q : Bool) : Nat :=
  if c == '¼' then 0
  else if c == 'E' || c == 'W' then (if q then 0 else 1)
  else if c == 'N' || c == 'S' || c == '½' then 1
  else 2

def potB : Str → Bool → Nat
  | [], _ => 0
  | c :: r, q => wt c (nextQ r q) + potB r q

/-- the potential: between 0 and `2·|t|` -/
def pot (t : Str) : Nat := potB t false

theorem wt_le (c : Char) (q : Bool) : wt c q ≤ 2 := by
  unfold wt; split <;> (try split) <;> (try split) <;> (try split) <;> omega

theorem potB_le (t : Str) (q : Bool) : potB t q ≤ 2 * t.length := by
  induction t with
  | nil => simp [potB]
  | cons c r ih => simp only [potB, List.length_cons]; have := wt_le c (nextQ r q); omega

theorem pot_le (t : Str) : pot t ≤ 2 * t.length := potB_le t false

theorem nextQ_append (a b : Str) (q : Bool) : nextQ (a ++ b) q = nextQ a (nextQ b q) := by
  cases a <;> rfl

theorem potB_append (a b : Str) (q : Bool) : potB (a ++ b) q = potB a (nextQ b q) + potB b q := by
  induction a with
  | nil => simp [potB]
  | cons c r ih =>
    simp only [List.cons_append, potB, ih, nextQ_append]
    omega

theorem nextQ_of_true {a : Str} (h : nextQ a true = false) (q : Bool) : nextQ a q = false := by
  cases a with
  | nil => simp [nextQ] at h
  | cons c r => exact h

/-- what the potential argument needs of one match: it starts, and is replaced by a text that starts, with a character other
than `¼`; and the replacement, in the place of the match, weighs less — or is the match itself -/
def PotOK (t : Str) (f : Match → Str) (m : Match) : Prop :=
  nextQ (slice t m.start m.stop) true = false ∧ nextQ (f m) true = false ∧
    (potB (f m) (nextQ (t.drop m.stop) false) < potB (slice t m.start m.stop) (nextQ (t.drop m.stop) false)
      ∨ f m = slice t m.start m.stop)

theorem subBody_pot (t : Str) (f : Match → Str) : ∀ (ms : List Match) (i : Nat), PChain t (PotOK t f) i ms →
    nextQ (subBody t f ms i) false = nextQ (t.drop i) false ∧
    potB (subBody t f ms i) false ≤ potB (t.drop i) false ∧
    (potB (subBody t f ms i) false = potB (t.drop i) false → subBody t f ms i = t.drop i) := by
  intro ms i h
  induction h with
  | nil i => exact ⟨rfl, Nat.le_refl _, fun _ => rfl⟩
  | cons i m ms h1 h2 h3 hq hr ih =>
    obtain ⟨ihq, ihle, iheq⟩ := ih
    obtain ⟨hx, hf, hlt⟩ := hq
    have e : t.drop i = slice t i m.start ++ (slice t m.start m.stop ++ t.drop m.stop) := by
      rw [drop_eq_slice_append t i m.start h1 (by omega),
        drop_eq_slice_append t m.start m.stop h2 h3]
    rw [subBody, e, List.append_assoc]
    simp only [potB_append, nextQ_append, ihq, nextQ_of_true hx, nextQ_of_true hf]
    refine ⟨trivial, ?_, ?_⟩
    · rcases hlt with hlt | hlt
      · omega
      · rw [hlt]; omega
    · intro heq
      rcases hlt with hlt | hlt
      · omega
      · rw [hlt] at heq ⊢
        rw [iheq (by omega)]

/-- one pass never raises the potential, and keeps the text if it keeps the potential -/
theorem subWith_pot (r : Rx) (t : Str) (f : Match → Str)
    (hQ : ∀ m prev adv, matchHere r ⟨prev, t.drop m.start, m.start, []⟩ adv = some m → m.stop ≤ t.length → PotOK t f m) :
    pot (r.subWith t f) < pot t ∨ r.subWith t f = t := by
  rw [subWith_eq_body]
  have := subBody_pot t f _ 0 (finditer_pchain r t _ hQ)
  simp only [List.drop_zero] at this
  unfold pot
  by_cases h : potB (subBody t f (r.finditer t) 0) false = potB t false
  · exact Or.inr (this.2.2 h)
  · exact Or.inl (by omega)

/-! ## Part 5 — `remove_aliquot_interveners`: every replacement is shorter than its match -/

/-- the shape `(?P<g1>A)(B)(?P<g2>C)` with a non-empty middle part, `g1` occurring nowhere else -/
def ivCheck (g1 g2 : Nat) : Rx → Bool
  | .seq (.grp i1 _) (.seq (.grp i7 b) (.grp i10 c)) =>
      i1 == g1 && i10 == g2 && i7 != g1 && g1 != g2 && g1 != 0 && g2 != 0
        && !(b.grpIdx.contains g1) && !(c.grpIdx.contains g1) && decide (1 ≤ b.minWidth)
  | _ => false

theorem iv_spans (g1 g2 : Nat) (r : Rx) (hc : ivCheck g1 g2 r = true) (s s' : St) (h : Runs r s s') :
    ∃ p1 p2, s.pos ≤ p1 ∧ p1 < p2 ∧ p2 ≤ s'.pos ∧
      (⟨s.pos, s'.pos, s'.caps⟩ : Match).span? g1 = some (s.pos, p1) ∧
      (⟨s.pos, s'.pos, s'.caps⟩ : Match).span? g2 = some (p2, s'.pos) := by
  unfold ivCheck at hc
  split at hc
  · rename_i i1 a i7 b i10 c
    simp only [Bool.and_eq_true, beq_iff_eq, bne_iff_ne, ne_eq, Bool.not_eq_true', decide_eq_true_eq] at hc
    obtain ⟨⟨⟨⟨⟨⟨⟨⟨e1, e10⟩, n7⟩, n12⟩, n10⟩, n20⟩, nb⟩, nc⟩, wb⟩ := hc
    subst e1 e10
    cases h with
    | seq ha hbc =>
      cases ha with
      | @grp _ _ _ sA ha =>
        cases hbc with
        | seq hb hc' =>
          cases hb with
          | @grp _ _ _ sB hb =>
            cases hc' with
            | @grp _ _ _ sC hc' =>
              obtain ⟨nB, hnB, gB⟩ := hb.frame
              obtain ⟨nC, hnC, gC⟩ := hc'.frame
              obtain ⟨cB, hcB, eB⟩ := hb.eats
              have hwB := eB.minWidth
              have hA := ha.ext.pos_le
              have hC := hc'.ext.pos_le
              have hBpos := hcB.2
              simp only [] at hnB hnC hBpos hC
              refine ⟨sA.pos, sB.pos, hA, by omega, hC, ?_, ?_⟩
              · simp only [Match.span?]
                have : (i1 == 0) = false := by simpa using n10
                rw [this]
                simp only [Bool.false_eq_true, if_false]
                rw [List.find?_cons]
                have : (i10 == i1) = false := by simp; exact fun e => n12 e.symm
                simp only [this]
                rw [hnC, find_skip_new gC nc, List.find?_cons]
                have : (i7 == i1) = false := by simpa using n7
                simp only [this]
                rw [hnB, find_skip_new gB nb, List.find?_cons]
                simp
              · simp only [Match.span?]
                have : (i10 == 0) = false := by simpa using n20
                rw [this]
                simp
  · cases hc

theorem iv_check :
    ivCheck ((intervenerRemover.idx? "aliquot1").getD 0) ((intervenerRemover.idx? "aliquot2").getD 0) intervenerRemover.rx = true
    ∧ (intervenerRemover.idx? "aliquot1").isSome = true ∧ (intervenerRemover.idx? "aliquot2").isSome = true := by
  decide +kernel

/-- one pass of `remove_aliquot_interveners` -/
def ivStep (t : Str) : Str :=
  intervenerRemover.rx.subWith t (fun m =>
    (intervenerRemover.group m t "aliquot1").getD [] ++ (intervenerRemover.group m t "aliquot2").getD [])

theorem ivStep_shortens (t : Str) : (ivStep t).length < t.length ∨ ivStep t = t := by
  unfold ivStep
  apply subWith_len
  intro m prev adv hm hstop
  obtain ⟨s', hr, hmeq⟩ := matchHere_runs _ _ _ _ hm
  obtain ⟨ms, me, mc⟩ := m
  simp only [Match.mk.injEq, true_and] at hmeq
  obtain ⟨rfl, rfl⟩ := hmeq
  obtain ⟨hck, hi1, hi2⟩ := iv_check
  obtain ⟨g1, hg1⟩ := Option.isSome_iff_exists.mp hi1
  obtain ⟨g2, hg2⟩ := Option.isSome_iff_exists.mp hi2
  rw [hg1, hg2] at hck
  simp only [Option.getD_some] at hck
  obtain ⟨p1, p2, h1, h2, h3, sp1, sp2⟩ := iv_spans g1 g2 _ hck _ _ hr
  simp only [] at h1 h3 hstop sp1 sp2 ⊢
  simp only [Pat.group, hg1, hg2, Match.group?, sp1, sp2, Option.getD_some, List.length_append]
  rw [slice_length _ _ _ h1 (by omega), slice_length _ _ _ h3 hstop]
  omega

/-- **step 1**: `remove_aliquot_interveners` always reaches its fixed point within the model's fuel: every pass that
changes the text shortens it -/
theorem C03_removeAliquotInterveners_total (t : Str) : removeAliquotInterveners t ≠ none := by
  unfold removeAliquotInterveners
  apply untilStable_potential (fun t => t.length)
  · intro t' hne
    rcases ivStep_shortens t' with h | h
    · exact h
    · exact absurd h hne
  · unfold stableBudget; omega

example : removeAliquotInterveners (S "N½ of the NE¼ of SW¼") = some (S "N½NE¼SW¼") := by decide +kernel

/-! ## Part 6 — the weight of a match, decided on the character classes of the pattern -/

def quarterD : CharSet := [(188, 188)]
/-- every character but `¼` -/
def nonQ : CharSet := [(0, 187), (189, 1114111)]

theorem quarterD_mem (c : Char) : quarterD.mem c = isQ c := by
  cases h : quarterD.mem c with
  | true =>
    have := mem_single h
    subst this
    decide
  | false =>
    cases hq : isQ c with
    | false => rfl
    | true =>
      have : c = '¼' := by simpa [isQ] using hq
      subst this
      revert h; decide

theorem nonQ_mem {c : Char} (h : nonQ.mem c = true) : isQ c = false := by
  cases hq : isQ c with
  | false => rfl
  | true =>
    have : c = '¼' := by simpa [isQ] using hq
    subst this
    revert h; decide

theorem wt_pos {c : Char} {q : Bool} (hc : isQ c = false) (hq : q = false) : 1 ≤ wt c q := by
  subst hq
  unfold wt
  unfold isQ at hc
  simp only [hc, Bool.false_eq_true, if_false]
  split <;> (try split) <;> omega

theorem nextQ_true_cases {r : Str} {q : Bool} (h : nextQ r q = true) : (r = [] ∧ q = true) ∨ nextQ r false = true := by
  cases r with
  | nil => exact Or.inl ⟨rfl, h⟩
  | cons c r' => exact Or.inr h

/-- a text weighs at least its length minus one minus twice its number of `¼` -/
theorem potB_lower (x : Str) (q : Bool) :
    x.length + (if nextQ x false then 1 else 0) ≤ potB x q + 2 * hits quarterD x + (if q then 1 else 0) := by
  induction x with
  | nil => simp [potB, nextQ]
  | cons c r ih =>
    have hh : hits quarterD (c :: r) = (if isQ c then 1 else 0) + hits quarterD r := by
      simp only [hits, List.countP_cons, quarterD_mem]; omega
    rw [hh]
    have e1 : potB (c :: r) q = wt c (nextQ r q) + potB r q := rfl
    have e2 : nextQ (c :: r) false = isQ c := rfl
    rw [e1, e2, List.length_cons]
    by_cases hc : isQ c = true
    · simp only [hc, if_true]
      split at ih <;> omega
    · have hc' : isQ c = false := by simpa using hc
      simp only [hc', Bool.false_eq_true, if_false]
      by_cases hn : nextQ r q = true
      · rcases nextQ_true_cases hn with ⟨rfl, rfl⟩ | h2
        · simp [potB, hits_nil]
        · rw [h2] at ih
          simp only [if_true] at ih
          omega
      · have hn' : nextQ r q = false := by simpa using hn
        have := wt_pos hc' hn'
        split at ih <;> omega

/-! ### abstraction: only six characters have a weight of their own -/

def specials : List Char := ['N', 'E', 'S', 'W', '¼', '½']

def absC (c : Char) : Option Char := if specials.contains c then some c else none

def wtA : Option Char → Bool → Nat
  | none, _ => 2
  | some c, q => wt c q

def isQA : Option Char → Bool
  | none => false
  | some c => isQ c

def nextQA : List (Option Char) → Bool → Bool
  | [], q => q
  | a :: _, _ => isQA a

def potA : List (Option Char) → Bool → Nat
  | [], _ => 0
  | a :: r, q => wtA a (nextQA r q) + potA r q

theorem not_special {c : Char} (h : specials.contains c = false) :
    c ≠ 'N' ∧ c ≠ 'E' ∧ c ≠ 'S' ∧ c ≠ 'W' ∧ c ≠ '¼' ∧ c ≠ '½' := by
  simp only [specials, List.contains_eq_mem, List.mem_cons, List.not_mem_nil, or_false, decide_eq_false_iff_not, not_or] at h
  exact h

theorem wt_abs (c : Char) (q : Bool) : wt c q = wtA (absC c) q := by
  unfold absC
  cases h : specials.contains c with
  | true => simp [wtA]
  | false =>
    obtain ⟨h1, h2, h3, h4, h5, h6⟩ := not_special h
    simp [wtA, wt, h1, h2, h3, h4, h5, h6]

theorem isQ_abs (c : Char) : isQ c = isQA (absC c) := by
  unfold absC
  cases h : specials.contains c with
  | true => simp [isQA]
  | false =>
    obtain ⟨h1, h2, h3, h4, h5, h6⟩ := not_special h
    simp [isQA, isQ, h5]

theorem nextQ_abs (x : Str) (q : Bool) : nextQ x q = nextQA (x.map absC) q := by
  cases x with
  | nil => rfl
  | cons c r => simp [nextQ, nextQA, isQ_abs]

theorem potB_abs (x : Str) (q : Bool) : potB x q = potA (x.map absC) q := by
  induction x with
  | nil => rfl
  | cons c r ih => simp only [potB, List.map_cons, potA, ih, wt_abs, nextQ_abs]

/-- the abstract characters a class can contain -/
def poss (cs : CharSet) : List (Option Char) := none :: (specials.filter cs.mem).map some

theorem absC_mem_poss {cs : CharSet} {c : Char} (h : cs.mem c = true) : absC c ∈ poss cs := by
  unfold absC poss
  cases hs : specials.contains c with
  | true =>
    simp only [if_true, List.mem_cons, List.mem_map, List.mem_filter]
    refine Or.inr ⟨c, ⟨by simpa using hs, h⟩, rfl⟩
  | false => simp

def expand : Word → List (List (Option Char))
  | [] => [[]]
  | cs :: w => (poss cs).flatMap (fun a => (expand w).map (fun l => a :: l))

theorem fits_expand : ∀ {w : Word} {x : Str}, Fits w x → x.map absC ∈ expand w
  | [], [], _ => by simp [expand]
  | cs :: w, c :: t, h => by
    simp only [List.map_cons, expand, List.mem_flatMap, List.mem_map]
    exact ⟨absC c, absC_mem_poss h.1, t.map absC, fits_expand h.2, rfl⟩
  | [], _ :: _, h => by cases h
  | _ :: _, [], h => by cases h

theorem absC_special {g : Char} (h : specials.contains g = true) : absC g = some g := by
  unfold absC; simp only [h, if_true]

theorem abs_eq_special : ∀ {x R : Str}, R.all (fun g => specials.contains g) = true → x.map absC = R.map absC → x = R
  | [], [], _, _ => rfl
  | [], _ :: _, _, h => by simp at h
  | _ :: _, [], _, h => by simp at h
  | c :: x, g :: R, hs, h => by
    simp only [List.all_cons, Bool.and_eq_true] at hs
    simp only [List.map_cons, List.cons.injEq] at h
    have hc : c = g := by
      rw [absC_special hs.1] at h
      have h1 := h.1
      unfold absC at h1
      split at h1
      · exact Option.some.inj h1
      · cases h1
    rw [hc, abs_eq_special hs.2 h.2]

/-- the decision procedure: among the matches of at most `n` characters (given as words of classes), every one outweighs the
replacement `R`, is `R`, or is excluded -/
def shortOK (R : Str) (excl : List (Option Char) → Bool → Bool) (ws : List Word) : Bool :=
  ws.all (fun w => (expand w).all (fun a => [true, false].all (fun q =>
    excl a q || decide (potA (R.map absC) q < potA a q) || a == R.map absC)))

/-- everything the potential argument needs of a pattern whose matches are replaced by the constant `R` -/
def subCheck (r : Rx) (R : Str) (n : Nat) (excl : List (Option Char) → Bool → Bool) : Bool :=
  r.firstIn nonQ && !(nextQ R true) && R.all (fun g => specials.contains g)
    && (match r.maxHits quarterD with
        | some a => decide (potB R true + 2 * a + 1 ≤ n) && decide (potB R false + 2 * a + 1 ≤ n)
        | none => false)
    && shortOK R excl (r.words n)

theorem drop_eq_append_slice {t c tail : Str} {a : Nat} (h : t.drop a = c ++ tail) :
    slice t a (a + c.length) = c ∧ t.drop (a + c.length) = tail := by
  constructor
  · have := drop_take_eq_slice t a a (a + c.length) (Nat.le_refl _)
    rw [← this, Nat.sub_self, List.drop_zero, h, Nat.add_sub_cancel_left, List.take_left]
  · rw [← List.drop_drop, h, List.drop_left]

theorem sub_potOK (r : Rx) (R : Str) (n : Nat) (excl : List (Option Char) → Bool → Bool) (hck : subCheck r R n excl = true)
    (t : Str) (m : Match) (prev : Option Char) (adv : Bool)
    (hm : matchHere r ⟨prev, t.drop m.start, m.start, []⟩ adv = some m)
    (hex : excl ((slice t m.start m.stop).map absC) (nextQ (t.drop m.stop) false) = false) :
    PotOK t (fun _ => R) m := by
  obtain ⟨_, c, tail, hc, hstop, ec⟩ := matchHere_eats r _ adv m hm
  simp only [] at hc
  obtain ⟨hsl, hdr⟩ := drop_eq_append_slice hc
  rw [← hstop] at hsl hdr
  unfold subCheck at hck
  simp only [Bool.and_eq_true, Bool.not_eq_true'] at hck
  obtain ⟨⟨⟨⟨hfirst, hR1⟩, hRs⟩, hlong⟩, hshort⟩ := hck
  unfold PotOK
  rw [hsl, hdr] at hex ⊢
  refine ⟨?_, hR1, ?_⟩
  · obtain ⟨ch, t', rfl, hd⟩ := ec.firstIn nonQ hfirst
    exact nonQ_mem hd
  · generalize nextQ tail false = q at hex ⊢
    by_cases hl : c.length ≤ n
    · obtain ⟨w, hw, hfit⟩ := ec.words n hl
      unfold shortOK at hshort
      rw [List.all_eq_true] at hshort
      have h1 := hshort w hw
      rw [List.all_eq_true] at h1
      have h2 := h1 _ (fits_expand hfit)
      rw [List.all_eq_true] at h2
      have h3 := h2 q (by cases q <;> simp)
      simp only [Bool.or_eq_true, decide_eq_true_eq, beq_iff_eq] at h3
      rcases h3 with (h3 | h3) | h3
      · rw [hex] at h3; cases h3
      · left; show potB R q < potB c q; rw [potB_abs R, potB_abs c]; exact h3
      · right; exact (abs_eq_special hRs h3).symm
    · left
      show potB R q < potB c q
      cases ha : r.maxHits quarterD with
      | none => rw [ha] at hlong; cases hlong
      | some a =>
        rw [ha] at hlong
        simp only [Bool.and_eq_true, decide_eq_true_eq] at hlong
        have hh := ec.maxHits quarterD a ha
        have hb := potB_lower c q
        have : potB R q + 2 * a + 1 ≤ n := by cases q; exact hlong.2; exact hlong.1
        split at hb <;> split at hb <;> omega

/-! ## Part 7 — the twelve `sub_scrubber`s -/

/-- one pass of `sub_scrubber(·, rgx)` -/
def scrubStep (name : String) (t : Str) : Str :=
  (findRx name).rx.sub (((Gen.QQ_SCRUBBER_DEFINITIONS.find? (fun d => d.1 == name)).map (·.2)).getD "").toList t

/-- the replacement text of a scrubber -/
def scrubRepl (name : String) : Str :=
  (((Gen.QQ_SCRUBBER_DEFINITIONS.find? (fun d => d.1 == name)).map (·.2)).getD "").toList

theorem scrubStep_pot (name : String) (excl : List (Option Char) → Bool → Bool)
    (hck : subCheck (findRx name).rx (scrubRepl name) 4 excl = true)
    (hex : ∀ (t : Str) (m : Match) (prev : Option Char) (adv : Bool),
      matchHere (findRx name).rx ⟨prev, t.drop m.start, m.start, []⟩ adv = some m →
      excl ((slice t m.start m.stop).map absC) (nextQ (t.drop m.stop) false) = false)
    (t : Str) : pot (scrubStep name t) < pot t ∨ scrubStep name t = t := by
  unfold scrubStep Rx.sub
  apply subWith_pot
  intro m prev adv hm _
  exact sub_potOK _ _ 4 excl hck t m prev adv hm (hex t m prev adv hm)

theorem subScrubber_total_of (name : String) (excl : List (Option Char) → Bool → Bool)
    (hck : subCheck (findRx name).rx (scrubRepl name) 4 excl = true)
    (hex : ∀ (t : Str) (m : Match) (prev : Option Char) (adv : Bool),
      matchHere (findRx name).rx ⟨prev, t.drop m.start, m.start, []⟩ adv = some m →
      excl ((slice t m.start m.stop).map absC) (nextQ (t.drop m.stop) false) = false)
    (txt : Str) : subScrubber name txt ≠ none := by
  unfold subScrubber
  apply untilStable_potential pot
  · intro t hne
    rcases scrubStep_pot name excl hck hex t with h | h
    · exact h
    · exact absurd h hne
  · have := pot_le txt
    unfold stableBudget; omega

def noExcl : List (Option Char) → Bool → Bool := fun _ _ => false

/-- the eight basic scrubbers: every match outweighs its replacement or is its replacement -/
theorem basic_checks : Gen.QQ_SCRUBBER_REGEXES.all (fun name => subCheck (findRx name).rx (scrubRepl name) 4 noExcl) = true := by
  decide +kernel

theorem subScrubber_basic_total (name : String) (hn : name ∈ Gen.QQ_SCRUBBER_REGEXES) (txt : Str) :
    subScrubber name txt ≠ none := by
  have := basic_checks
  rw [List.all_eq_true] at this
  exact subScrubber_total_of name noExcl (this name hn) (fun _ _ _ _ _ => rfl) txt

/-! ### the four `clean_qq` scrubbers: a bare quarter directly before `¼` is never matched without the `¼` -/

/-- excluded: a match of two characters directly followed by `¼` -/
def exclClean : List (Option Char) → Bool → Bool := fun a q => q && a.length == 2

theorem clean_checks : Gen.QQ_CLEAN_REGEXES.all (fun name => subCheck (findRx name).rx (scrubRepl name) 4 exclClean) = true := by
  decide +kernel

/-- the two-character matches of the pattern are in `A × B` -/
def twoCheck (r : Rx) (A B : CharSet) : Bool :=
  (r.words 2).all (fun w => match w with
    | [a, b] => a.subset A && b.subset B
    | _ => false)

theorem mem_two {a b : Nat} {c : Char} (h : CharSet.mem [(a, a), (b, b)] c = true) : c = Char.ofNat a ∨ c = Char.ofNat b := by
  simp only [CharSet.mem, List.any_cons, List.any_nil, Bool.or_false, Bool.or_eq_true, Bool.and_eq_true, decide_eq_true_eq] at h
  rcases h with h | h
  · left; have : c.toNat = a := by omega
    rw [← this, Char.ofNat_toNat]
  · right; have : c.toNat = b := by omega
    rw [← this, Char.ofNat_toNat]

theorem mem_three {a b d : Nat} {c : Char} (h : CharSet.mem [(a, a), (b, b), (d, d)] c = true) :
    c = Char.ofNat a ∨ c = Char.ofNat b ∨ c = Char.ofNat d := by
  simp only [CharSet.mem, List.any_cons, List.any_nil, Bool.or_false, Bool.or_eq_true, Bool.and_eq_true, decide_eq_true_eq] at h
  rcases h with h | h | h
  · left; have : c.toNat = a := by omega
    rw [← this, Char.ofNat_toNat]
  · right; left; have : c.toNat = b := by omega
    rw [← this, Char.ofNat_toNat]
  · right; right; have : c.toNat = d := by omega
    rw [← this, Char.ofNat_toNat]

theorem clean_excl_of_greedy (r : Rx) (A B : CharSet) (hw : twoCheck r A B = true)
    (hg : ∀ (c1 c2 : Char), A.mem c1 = true → B.mem c2 = true → ∀ (prev : Option Char) (rest : Str) (pos : Nat) (adv : Bool),
      (matchHere r ⟨prev, c1 :: c2 :: '¼' :: rest, pos, []⟩ adv).map (·.stop) = some (pos + 3))
    (t : Str) (m : Match) (prev : Option Char) (adv : Bool)
    (hm : matchHere r ⟨prev, t.drop m.start, m.start, []⟩ adv = some m) :
    exclClean ((slice t m.start m.stop).map absC) (nextQ (t.drop m.stop) false) = false := by
  obtain ⟨_, c, tail, hc, hstop, ec⟩ := matchHere_eats r _ adv m hm
  simp only [] at hc
  obtain ⟨hsl, hdr⟩ := drop_eq_append_slice hc
  rw [← hstop] at hsl hdr
  rw [hsl, hdr]
  unfold exclClean
  cases hq : nextQ tail false with
  | false => rfl
  | true =>
    cases hl : (c.map absC).length == 2 with
    | false => rfl
    | true =>
      exfalso
      have hl2 : c.length = 2 := by simpa using hl
      obtain ⟨w, hw', hfit⟩ := ec.words 2 (by omega)
      unfold twoCheck at hw
      rw [List.all_eq_true] at hw
      have h1 := hw w hw'
      split at h1
      · rename_i a b
        simp only [Bool.and_eq_true] at h1
        match c, hfit with
        | [c1, c2], hfit =>
          have hA := CharSet.mem_of_subset h1.1 hfit.1
          have hB := CharSet.mem_of_subset h1.2 hfit.2.1
          match tail, hq with
          | ch :: rest, hq =>
            have : ch = '¼' := by simpa [nextQ, isQ] using hq
            subst this
            have := hg c1 c2 hA hB prev rest m.start adv
            rw [hc] at hm
            simp only [List.cons_append, List.nil_append] at hm
            rw [hm] at this
            simp only [Option.map_some, Option.some.injEq] at this
            simp only [List.length_cons, List.length_nil] at hstop
            omega
      · cases h1

set_option linter.unusedSimpArgs false

theorem ne_clean_greedy (c1 c2 : Char) (h1 : CharSet.mem [(78, 78), (110, 110)] c1 = true) (h2 : CharSet.mem [(69, 69), (101, 101)] c2 = true)
    (prev : Option Char) (rest : Str) (pos : Nat) (adv : Bool) :
    (matchHere Gen.ne_clean ⟨prev, c1 :: c2 :: '¼' :: rest, pos, []⟩ adv).map (·.stop) = some (pos + 3) := by
  have h3 : ¬ (pos + 1 + 1 + 1 = pos) := by omega
  rcases mem_two h1 with rfl | rfl <;> rcases mem_two h2 with rfl | rfl <;>
    simp [h3, Gen.ne_clean, matchHere, Rx.seqs, Rx.alts, Rx.m, repLoop, Gen.cs_0f512a0d, Gen.cs_38ea6e46, Gen.cs_5f20f5ed, Gen.cs_ae876102, Gen.cs_faf00333, Gen.cs_a7428032, Gen.cs_70d553c2, Gen.cs_ff6fca51, Gen.cs_b6397694, Gen.cs_ecd0074f, Gen.cs_3ac704d2, Gen.cs_d51eeaa1, Gen.cs_a41953ce, CharSet.mem, canMore]

theorem ne_clean_excl (t : Str) (m : Match) (prev : Option Char) (adv : Bool)
    (hm : matchHere (findRx "ne_clean").rx ⟨prev, t.drop m.start, m.start, []⟩ adv = some m) :
    exclClean ((slice t m.start m.stop).map absC) (nextQ (t.drop m.stop) false) = false := by
  have e : (findRx "ne_clean").rx = Gen.ne_clean := by rfl
  rw [e] at hm
  exact clean_excl_of_greedy Gen.ne_clean [(78, 78), (110, 110)] [(69, 69), (101, 101)] (by decide +kernel) ne_clean_greedy t m prev adv hm

theorem nw_clean_greedy (c1 c2 : Char) (h1 : CharSet.mem [(78, 78), (110, 110)] c1 = true) (h2 : CharSet.mem [(87, 87), (119, 119)] c2 = true)
    (prev : Option Char) (rest : Str) (pos : Nat) (adv : Bool) :
    (matchHere Gen.nw_clean ⟨prev, c1 :: c2 :: '¼' :: rest, pos, []⟩ adv).map (·.stop) = some (pos + 3) := by
  have h3 : ¬ (pos + 1 + 1 + 1 = pos) := by omega
  rcases mem_two h1 with rfl | rfl <;> rcases mem_two h2 with rfl | rfl <;>
    simp [h3, Gen.nw_clean, matchHere, Rx.seqs, Rx.alts, Rx.m, repLoop, Gen.cs_0f512a0d, Gen.cs_38ea6e46, Gen.cs_5f20f5ed, Gen.cs_ae876102, Gen.cs_faf00333, Gen.cs_a7428032, Gen.cs_70d553c2, Gen.cs_ff6fca51, Gen.cs_b6397694, Gen.cs_ecd0074f, Gen.cs_3ac704d2, Gen.cs_d51eeaa1, Gen.cs_a41953ce, CharSet.mem, canMore]

theorem nw_clean_excl (t : Str) (m : Match) (prev : Option Char) (adv : Bool)
    (hm : matchHere (findRx "nw_clean").rx ⟨prev, t.drop m.start, m.start, []⟩ adv = some m) :
    exclClean ((slice t m.start m.stop).map absC) (nextQ (t.drop m.stop) false) = false := by
  have e : (findRx "nw_clean").rx = Gen.nw_clean := by rfl
  rw [e] at hm
  exact clean_excl_of_greedy Gen.nw_clean [(78, 78), (110, 110)] [(87, 87), (119, 119)] (by decide +kernel) nw_clean_greedy t m prev adv hm

theorem se_clean_greedy (c1 c2 : Char) (h1 : CharSet.mem [(83, 83), (115, 115), (383, 383)] c1 = true) (h2 : CharSet.mem [(69, 69), (101, 101)] c2 = true)
    (prev : Option Char) (rest : Str) (pos : Nat) (adv : Bool) :
    (matchHere Gen.se_clean ⟨prev, c1 :: c2 :: '¼' :: rest, pos, []⟩ adv).map (·.stop) = some (pos + 3) := by
  have h3 : ¬ (pos + 1 + 1 + 1 = pos) := by omega
  rcases mem_three h1 with rfl | rfl | rfl <;> rcases mem_two h2 with rfl | rfl <;>
    simp [h3, Gen.se_clean, matchHere, Rx.seqs, Rx.alts, Rx.m, repLoop, Gen.cs_0f512a0d, Gen.cs_38ea6e46, Gen.cs_5f20f5ed, Gen.cs_ae876102, Gen.cs_faf00333, Gen.cs_a7428032, Gen.cs_70d553c2, Gen.cs_ff6fca51, Gen.cs_b6397694, Gen.cs_ecd0074f, Gen.cs_3ac704d2, Gen.cs_d51eeaa1, Gen.cs_a41953ce, CharSet.mem, canMore]

theorem se_clean_excl (t : Str) (m : Match) (prev : Option Char) (adv : Bool)
    (hm : matchHere (findRx "se_clean").rx ⟨prev, t.drop m.start, m.start, []⟩ adv = some m) :
    exclClean ((slice t m.start m.stop).map absC) (nextQ (t.drop m.stop) false) = false := by
  have e : (findRx "se_clean").rx = Gen.se_clean := by rfl
  rw [e] at hm
  exact clean_excl_of_greedy Gen.se_clean [(83, 83), (115, 115), (383, 383)] [(69, 69), (101, 101)] (by decide +kernel) se_clean_greedy t m prev adv hm

theorem sw_clean_greedy (c1 c2 : Char) (h1 : CharSet.mem [(83, 83), (115, 115), (383, 383)] c1 = true) (h2 : CharSet.mem [(87, 87), (119, 119)] c2 = true)
    (prev : Option Char) (rest : Str) (pos : Nat) (adv : Bool) :
    (matchHere Gen.sw_clean ⟨prev, c1 :: c2 :: '¼' :: rest, pos, []⟩ adv).map (·.stop) = some (pos + 3) := by
  have h3 : ¬ (pos + 1 + 1 + 1 = pos) := by omega
  rcases mem_three h1 with rfl | rfl | rfl <;> rcases mem_two h2 with rfl | rfl <;>
    simp [h3, Gen.sw_clean, matchHere, Rx.seqs, Rx.alts, Rx.m, repLoop, Gen.cs_0f512a0d, Gen.cs_38ea6e46, Gen.cs_5f20f5ed, Gen.cs_ae876102, Gen.cs_faf00333, Gen.cs_a7428032, Gen.cs_70d553c2, Gen.cs_ff6fca51, Gen.cs_b6397694, Gen.cs_ecd0074f, Gen.cs_3ac704d2, Gen.cs_d51eeaa1, Gen.cs_a41953ce, CharSet.mem, canMore]

theorem sw_clean_excl (t : Str) (m : Match) (prev : Option Char) (adv : Bool)
    (hm : matchHere (findRx "sw_clean").rx ⟨prev, t.drop m.start, m.start, []⟩ adv = some m) :
    exclClean ((slice t m.start m.stop).map absC) (nextQ (t.drop m.stop) false) = false := by
  have e : (findRx "sw_clean").rx = Gen.sw_clean := by rfl
  rw [e] at hm
  exact clean_excl_of_greedy Gen.sw_clean [(83, 83), (115, 115), (383, 383)] [(87, 87), (119, 119)] (by decide +kernel) sw_clean_greedy t m prev adv hm

theorem subScrubber_clean_total (name : String) (hn : name ∈ Gen.QQ_CLEAN_REGEXES) (txt : Str) :
    subScrubber name txt ≠ none := by
  have hck := clean_checks
  rw [List.all_eq_true] at hck
  have hn' : name = "ne_clean" ∨ name = "nw_clean" ∨ name = "se_clean" ∨ name = "sw_clean" := by
    simpa [Gen.QQ_CLEAN_REGEXES] using hn
  rcases hn' with rfl | rfl | rfl | rfl
  · exact subScrubber_total_of _ exclClean (hck _ hn) ne_clean_excl txt
  · exact subScrubber_total_of _ exclClean (hck _ hn) nw_clean_excl txt
  · exact subScrubber_total_of _ exclClean (hck _ hn) se_clean_excl txt
  · exact subScrubber_total_of _ exclClean (hck _ hn) sw_clean_excl txt

theorem scrubAll_total (names : List String) (h : ∀ n ∈ names, ∀ t, subScrubber n t ≠ none) :
    ∀ (txt : Str), scrubAll names txt ≠ none := by
  unfold scrubAll
  induction names with
  | nil => intro txt; simp [List.foldlM]
  | cons n rest ih =>
    intro txt
    rw [List.foldlM_cons]
    cases hs : subScrubber n txt with
    | none => exact absurd hs (h n (by simp) txt)
    | some t' =>
      simp only [Option.bind_eq_bind, Option.bind_some]
      exact ih (fun n' hn' => h n' (by simp [hn'])) t'

/-- **step 3**: each of the twelve `sub_scrubber` loops reaches its fixed point within the model's fuel -/
theorem C03_subScrubber_total (name : String) (hn : name ∈ Gen.QQ_SCRUBBER_REGEXES ++ Gen.QQ_CLEAN_REGEXES) (txt : Str) :
    subScrubber name txt ≠ none := by
  rcases List.mem_append.mp hn with h | h
  · exact subScrubber_basic_total name h txt
  · exact subScrubber_clean_total name h txt

/-- every pass of each of the twelve scrubbers lowers the potential or leaves the text as it is -/
theorem C03_scrubStep_lowers (name : String) (hn : name ∈ Gen.QQ_SCRUBBER_REGEXES ++ Gen.QQ_CLEAN_REGEXES) (t : Str) :
    pot (scrubStep name t) < pot t ∨ scrubStep name t = t := by
  rcases List.mem_append.mp hn with h | h
  · have hck := basic_checks
    rw [List.all_eq_true] at hck
    exact scrubStep_pot name noExcl (hck name h) (fun _ _ _ _ _ => rfl) t
  · have hck := clean_checks
    rw [List.all_eq_true] at hck
    have hn' : name = "ne_clean" ∨ name = "nw_clean" ∨ name = "se_clean" ∨ name = "sw_clean" := by
      simpa [Gen.QQ_CLEAN_REGEXES] using h
    rcases hn' with rfl | rfl | rfl | rfl
    · exact scrubStep_pot _ exclClean (hck _ h) ne_clean_excl t
    · exact scrubStep_pot _ exclClean (hck _ h) nw_clean_excl t
    · exact scrubStep_pot _ exclClean (hck _ h) se_clean_excl t
    · exact scrubStep_pot _ exclClean (hck _ h) sw_clean_excl t

/-- quantitative form: `pot txt + 1 ≤ 2·|txt| + 1` passes always suffice (the model supplies `2·|txt| + 8`) -/
theorem C03_subScrubber_pass_bound (name : String) (hn : name ∈ Gen.QQ_SCRUBBER_REGEXES ++ Gen.QQ_CLEAN_REGEXES)
    (txt : Str) (fuel : Nat) (hf : pot txt < fuel) : untilStable (scrubStep name) fuel txt ≠ none := by
  apply untilStable_potential pot _ _ fuel txt hf
  intro t hne
  rcases C03_scrubStep_lowers name hn t with h | h
  · exact h
  · exact absurd h hne

/-! ## Part 8 — `half_plus_q_scrubber` -/

/-- the shape `(lb)(half)( (… (?P<g>quarter)) )+(la)`: the named group `g` is the last thing the repeated part consumes,
it is at least two characters wide and contains no `¼`; `lb`, `la` are look-arounds -/
def hpqCheck (g : Nat) : Rx → Bool
  | .seq (.grp _ lb) (.seq (.grp _ h) (.seq (.rep (.grp i3 (.seq _ (.seq _ (.seq _ (.grp i6 q))))) lo _) (.grp i15 la))) =>
      i6 == g && i3 != g && i15 != g && g != 0 && !(la.grpIdx.contains g) && la.zeroW && lb.zeroW
        && decide (1 ≤ lo) && decide (1 ≤ h.minWidth) && decide (2 ≤ q.minWidth) && q.onlyIn nonQ
  | _ => false

theorem Consumed.of_ext {s s' : St} (h : St.Ext s s') : ∃ c, Consumed s s' c := by
  obtain ⟨c, h1, h2⟩ := h; exact ⟨c, h1, h2⟩

theorem hpq_spans (g : Nat) (r : Rx) (hc : hpqCheck g r = true) (s s' : St) (h : Runs r s s') :
    ∃ u v, Consumed s s' (u ++ v) ∧ 1 ≤ u.length ∧ 2 ≤ v.length ∧ (∀ ch ∈ v, nonQ.mem ch = true) ∧
      (⟨s.pos, s'.pos, s'.caps⟩ : Match).span? g = some (s.pos + u.length, s'.pos) := by
  unfold hpqCheck at hc
  split at hc
  · rename_i i1 lb i2 hh i3 w1 opt w2 i6 q lo hi i15 la
    simp only [Bool.and_eq_true, beq_iff_eq, bne_iff_ne, ne_eq, Bool.not_eq_true', decide_eq_true_eq] at hc
    obtain ⟨⟨⟨⟨⟨⟨⟨⟨⟨⟨e6, n3⟩, n15⟩, n0⟩, nla⟩, zla⟩, zlb⟩, hlo⟩, hwh⟩, hwq⟩, hoq⟩ := hc
    subst e6
    cases h with
    | seq h1 h234 =>
    cases h234 with
    | seq h2 h34 =>
    cases h34 with
    | seq h3 h4 =>
    cases h4 with
    | @grp _ _ _ s3' hla =>
    obtain ⟨sa, esa, hlast⟩ := h3.lastIter_pos hlo
    cases hlast with
    | @grp _ _ _ sb hbody =>
    cases hbody with
    | seq hw1 hrest =>
    cases hrest with
    | seq hopt hrest2 =>
    cases hrest2 with
    | seq hw2 hq6 =>
    cases hq6 with
    | @grp _ _ _ sq hq =>
    rename_i s1 s2 sw1 so sw2
    -- the text before the last quarter
    have e02 : St.Ext s s2 := h1.ext.trans h2.ext
    have e0 : St.Ext s sw2 := (e02.trans esa).trans ((hw1.ext.trans hopt.ext).trans hw2.ext)
    obtain ⟨u, hu⟩ := Consumed.of_ext e0
    -- the half is at least one character
    obtain ⟨c2, hc2, ec2⟩ := h2.eats
    have hw2' := ec2.minWidth
    simp only [Rx.minWidth] at hw2'
    have hp1 := h1.ext.pos_le
    have hp2 : s1.pos + 1 ≤ s2.pos := by have := hc2.2; omega
    have hp3 := esa.pos_le
    have hp4 := ((hw1.ext.trans hopt.ext).trans hw2.ext).pos_le
    -- the last quarter
    obtain ⟨v, hv, ev⟩ := hq.eats
    have hvw := ev.minWidth
    have hvo := ev.onlyIn nonQ hoq
    -- the look-ahead consumes nothing
    obtain ⟨cl, hcl, ecl⟩ := hla.eats
    have := ecl.zeroW zla
    subst this
    obtain ⟨nLA, hnLA, gLA⟩ := hla.frame
    simp only [] at hcl hnLA hu hv
    refine ⟨u, v, ⟨?_, ?_⟩, ?_, by omega, hvo, ?_⟩
    · simp only []
      rw [hu.1, hv.1, List.append_assoc]
      simpa using hcl.1
    · simp only []
      have := hcl.2; have := hu.2; have := hv.2
      simp only [List.length_nil, List.length_append] at *
      omega
    · have := hu.2; omega
    · simp only [Match.span?]
      have : (i6 == 0) = false := by simpa using n0
      rw [this]
      simp only [Bool.false_eq_true, if_false]
      rw [List.find?_cons]
      have : (i15 == i6) = false := by simpa using n15
      simp only [this]
      rw [hnLA, find_skip_new gLA nla, List.find?_cons]
      have : (i3 == i6) = false := by simpa using n3
      simp only [this]
      rw [List.find?_cons]
      simp only [beq_self_eq_true]
      have a1 := hcl.2; have a2 := hu.2
      simp only [List.length_nil, Nat.add_zero] at a1
      rw [a1, a2]
  · cases hc

theorem hpq_check :
    hpqCheck ((halfPlusQ.idx? "quarter_aliquot_rightmost").getD 0) halfPlusQ.rx = true
    ∧ (halfPlusQ.idx? "quarter_aliquot_rightmost").isSome = true
    ∧ halfPlusQ.rx.firstIn nonQ = true ∧ halfPlusQ.rx.nextIn nonQ = true := by
  decide +kernel

/-- whatever quarter `process_half_plus_q_match` appends: it does not start with `¼` and weighs at most 1 -/
theorem processHalfPlusQMatch_eq (t : Str) (m : Match) :
    ∃ qq, (nextQ qq false = false ∧ potB qq false ≤ 1) ∧
      processHalfPlusQMatch t m =
        (if ((halfPlusQ.group m t "quarter_aliquot_rightmost").getD []).length == 0 then []
         else (m.group0 t).take ((m.group0 t).length - ((halfPlusQ.group m t "quarter_aliquot_rightmost").getD []).length)) ++ qq := by
  unfold processHalfPlusQMatch
  simp only []
  refine ⟨_, ?_, rfl⟩
  split
  · decide
  · split
    · decide
    · split
      · decide
      · split
        · decide
        · decide

theorem potB_ge_length : ∀ (v : Str), (∀ ch ∈ v, isQ ch = false) → v.length ≤ potB v false
  | [], _ => by simp [potB]
  | c :: r, h => by
    have ih := potB_ge_length r (fun ch hch => h ch (by simp [hch]))
    have hn : nextQ r false = false := by
      cases r with
      | nil => rfl
      | cons c' r' => exact h c' (by simp)
    have := wt_pos (h c (by simp)) hn
    simp only [potB, List.length_cons]
    omega

theorem hpq_potOK (t : Str) (m : Match) (prev : Option Char) (adv : Bool)
    (hm : matchHere halfPlusQ.rx ⟨prev, t.drop m.start, m.start, []⟩ adv = some m) :
    PotOK t (processHalfPlusQMatch t) m := by
  obtain ⟨s', hr, hmeq⟩ := matchHere_runs _ _ _ _ hm
  obtain ⟨ms, me, mc⟩ := m
  simp only [Match.mk.injEq, true_and] at hmeq
  obtain ⟨rfl, rfl⟩ := hmeq
  obtain ⟨hck, hi, hfirst, hnext⟩ := hpq_check
  obtain ⟨g, hg⟩ := Option.isSome_iff_exists.mp hi
  rw [hg] at hck
  simp only [Option.getD_some] at hck
  obtain ⟨u, v, ⟨hc1, hc2⟩, hu, hv, hvq, hsp⟩ := hpq_spans g _ hck _ _ hr
  simp only [] at hc1 hc2 hsp
  -- the text of the match, and what follows it
  obtain ⟨hsl, hdr⟩ := drop_eq_append_slice hc1
  rw [← hc2] at hsl hdr
  have hdu : t.drop (ms + u.length) = v ++ s'.rest := by
    rw [← List.drop_drop, hc1, List.append_assoc, List.drop_left]
  obtain ⟨hslv, _⟩ := drop_eq_append_slice hdu
  have e2 : ms + u.length + v.length = s'.pos := by rw [hc2, List.length_append]; omega
  rw [e2] at hslv
  -- the next character is not `¼`
  have hq : nextQ s'.rest false = false := by
    cases hrest : s'.rest with
    | nil => rfl
    | cons ch r' =>
      have := hr.nextIn nonQ hnext ch (by rw [hrest]; rfl)
      exact nonQ_mem this
  -- the replacement
  obtain ⟨qq, ⟨hqq1, hqq2⟩, hrepl⟩ := processHalfPlusQMatch_eq t ⟨ms, s'.pos, s'.caps⟩
  have hgrp : halfPlusQ.group ⟨ms, s'.pos, s'.caps⟩ t "quarter_aliquot_rightmost" = some v := by
    simp only [Pat.group, hg, Match.group?, hsp, hslv]
  have hwhole : (⟨ms, s'.pos, s'.caps⟩ : Match).group0 t = u ++ v := hsl
  rw [hgrp, hwhole] at hrepl
  simp only [Option.getD_some, List.length_append] at hrepl
  have hn0 : (v.length == 0) = false := by
    cases hb : v.length == 0 with
    | false => rfl
    | true => have : v.length = 0 := by simpa using hb
              omega
  rw [hn0] at hrepl
  simp only [Bool.false_eq_true, if_false, Nat.add_sub_cancel, List.take_left] at hrepl
  -- first characters
  obtain ⟨c0, hc0, ec0⟩ := hr.eats
  have := Consumed.unique hc0 ⟨hc1, hc2⟩
  subst this
  obtain ⟨ch, tl, hcht, hd⟩ := ec0.firstIn nonQ hfirst
  have hvne : nextQ v false = false := by
    cases v with
    | nil => simp at hv
    | cons c' v' => exact nonQ_mem (hvq c' (by simp))
  unfold PotOK
  simp only []
  rw [hsl, hdr, hq, hrepl]
  refine ⟨?_, ?_, Or.inl ?_⟩
  · rw [hcht]; exact nonQ_mem hd
  · cases u with
    | nil => simp at hu
    | cons cu u' =>
      simp only [List.cons_append, List.cons.injEq] at hcht
      show isQ cu = false
      rw [hcht.1]; exact nonQ_mem hd
  · rw [potB_append, potB_append, hqq1, hvne]
    have := potB_ge_length v (fun ch hch => nonQ_mem (hvq ch hch))
    omega

/-- one pass of `half_plus_q_scrubber` lowers the potential or changes nothing -/
theorem hpqStep_pot (t : Str) :
    pot (halfPlusQ.rx.subWith t (processHalfPlusQMatch t)) < pot t ∨ halfPlusQ.rx.subWith t (processHalfPlusQMatch t) = t := by
  apply subWith_pot
  intro m prev adv hm _
  exact hpq_potOK t m prev adv hm

/-- **step 4**: `half_plus_q_scrubber` reaches its fixed point within the model's fuel (every match is replaced by a
strictly lighter text: the bare quarter it ends in becomes a clean one) -/
theorem C03_halfPlusQScrubber_total (txt : Str) : halfPlusQScrubber txt ≠ none := by
  unfold halfPlusQScrubber
  apply untilStable_potential pot
  · intro t hne
    rcases hpqStep_pot t with h | h
    · exact h
    · exact absurd h hne
  · have := pot_le txt
    unfold stableBudget; omega

/-! ## Part 9 — `scrub_aliquots` -/

/-- **C03_scrubAliquots_total**: for every text and either setting of `clean_qq`, every substitute-until-stable loop of
`scrub_aliquots` reaches its fixed point within the fuel the model supplies (`2·|t| + 8` passes, `t` the text at the start
of that loop): the model's "Python would still be looping" outcome never occurs. -/
theorem C03_scrubAliquots_total (t : Str) (b : Bool) : scrubAliquots t b ≠ none := by
  unfold scrubAliquots
  cases h1 : scrubAll Gen.QQ_SCRUBBER_REGEXES t with
  | none => exact absurd h1 (scrubAll_total _ (fun n hn => subScrubber_basic_total n hn) t)
  | some t1 =>
    simp only []
    cases h2 : (if b = true then scrubAll Gen.QQ_CLEAN_REGEXES t1 else some t1) with
    | none =>
      exfalso
      cases b with
      | false => simp at h2
      | true =>
        simp only [if_true] at h2
        exact scrubAll_total _ (fun n hn => subScrubber_clean_total n hn) t1 h2
    | some t2 =>
      simp only []
      cases h3 : halfPlusQScrubber t2 with
      | none => exact absurd h3 (C03_halfPlusQScrubber_total t2)
      | some t3 =>
        simp only []
        exact C03_removeAliquotInterveners_total t3

theorem C03_scrubAliquots_some (t : Str) (b : Bool) : ∃ r, scrubAliquots t b = some r := by
  cases h : scrubAliquots t b with
  | none => exact absurd h (C03_scrubAliquots_total t b)
  | some r => exact ⟨r, rfl⟩

/-! ## Part 10 — the Tract totality theorems without the scrubbers' divergence caveat -/

open PyTRS.Obj in
/-- `Tract.preprocess()`: the model's `diverged` outcome is never produced -/
theorem C03_tractPreprocess_terminates (t : TractObj) (c : Option Bool) (commit : Bool) :
    ∃ p, Tract.scrubAliquots t.desc (c.getD (getB t.attrs "clean_qq")) = some p ∧
      tractPreprocess t c commit = (if commit then { t with ppDesc := p } else t, p) := by
  obtain ⟨p, hp⟩ := C03_scrubAliquots_some t.desc (c.getD (getB t.attrs "clean_qq"))
  refine ⟨p, hp, ?_⟩
  unfold tractPreprocess
  simp only [hp]

open PyTRS.Obj in
/-- `Tract.preprocess(commit=False)` leaves the tract exactly as it was (C14 without the `diverged` alternative) -/
theorem C03_tractPreprocess_nocommit_terminates (t : TractObj) (c : Option Bool) : (tractPreprocess t c false).1 = t := by
  obtain ⟨p, _, h⟩ := C03_tractPreprocess_terminates t c false
  rw [h]; rfl

theorem qqsOf_diverged (depth : Aliquot.DepthArgs) (blocks : List Str) :
    (qqsOf depth blocks).2 = true → ∃ b ∈ blocks, Aliquot.parseAliquot b depth = none := by
  unfold qqsOf
  have : ∀ (bs : List Str) (st : List Str × Bool),
      (bs.foldl (fun st b => match Aliquot.parseAliquot b depth with
        | some q => (st.1 ++ q, st.2)
        | none => (st.1, true)) st).2 = true → st.2 = true ∨ ∃ b ∈ bs, Aliquot.parseAliquot b depth = none := by
    intro bs
    induction bs with
    | nil => intro st h; exact Or.inl h
    | cons b rest ih =>
      intro st h
      rw [List.foldl_cons] at h
      rcases ih _ h with h' | ⟨b', hb', hn⟩
      · cases hp : Aliquot.parseAliquot b depth with
        | none => exact Or.inr ⟨b, by simp, hp⟩
        | some q => rw [hp] at h'; exact Or.inl h'
      · exact Or.inr ⟨b', by simp [hb'], hn⟩
  intro h
  rcases this blocks ([], false) h with h' | h'
  · cases h'
  · exact h'

theorem lotBlocksFold_dv (a : ParseArgs) : ∀ (l : List (Str × Option Str)) (st st' : LotAcc),
    lotBlocksFold a st l = .ok st' → st'.dv = st.dv := by
  intro l
  induction l with
  | nil => intro st st' h; rw [lotBlocksFold] at h; cases h; rfl
  | cons bl rest ih =>
    intro st st' h
    rw [lotBlocksFold] at h
    cases hs : lotBlockStep a st bl with
    | error e => rw [hs] at h; cases h
    | ok st1 =>
      rw [hs] at h
      simp only [] at h
      rw [ih st1 st' h]
      unfold lotBlockStep at hs
      simp only [] at hs
      split at hs
      · cases hs
      · cases hs
        simp [C03_unpackLots_fuel]

/-- the tract parser never raises, and the only loop whose exhaustion it can still report is the standardisation loop of
`parse_aliquot` (every regex-driven loop — the scrubbers, the two extraction loops, `unpack_lots` — terminates within its fuel) -/
theorem C03_tractParseRaw_terminates (txt : Str) (a : ParseArgs) (inh : Flags) :
    ∃ r, tractParseRaw txt a inh = .ok r ∧
      (r.diverged = true → ∃ b, Aliquot.parseAliquot b a.depth = none) := by
  unfold tractParseRaw
  obtain ⟨text, ht⟩ := C03_scrubAliquots_some txt a.cleanQQ
  rw [ht]
  simp only []
  obtain ⟨rem1, lotBlocks, h1, hrest⟩ := C03_extraction_total text
  rw [h1]
  simp only []
  obtain ⟨st, hst⟩ := lotBlocksFold_total a lotBlocks { fl := inh }
  rw [hst]
  simp only []
  obtain ⟨rem2, aliquotBlocks, h2⟩ := hrest
  rw [h2]
  simp only []
  refine ⟨_, rfl, ?_⟩
  intro hd
  simp only [lotBlocksFold_dv a _ _ _ hst, Bool.false_or] at hd
  obtain ⟨b, _, hb⟩ := qqsOf_diverged _ _ hd
  exact ⟨b, hb⟩

theorem C03_tractParse_terminates (txt : Str) (a : ParseArgs) (inh : Flags) :
    ∃ r, tractParse txt a inh = .ok r ∧
      (r.diverged = true → ∃ b, Aliquot.parseAliquot b a.depth = none) := by
  unfold tractParse tractParseOwn
  obtain ⟨r, hr, hd⟩ := C03_tractParseRaw_terminates txt a {}
  rw [hr]
  exact ⟨_, rfl, hd⟩

open PyTRS.Obj in
theorem C03_tractParseMethod_terminates (t : TractObj) (commit : Bool) (kw : TractKw) :
    ∃ r, tractParseMethod t commit kw = .ok r ∧
      (r.1.diverged = true → t.diverged = true ∨ ∃ b, Aliquot.parseAliquot b (effectiveTract t.attrs kw).depth = none) := by
  unfold tractParseMethod
  obtain ⟨r, hr, hd⟩ := C03_tractParse_terminates t.desc (effectiveTract t.attrs kw) (inheritedFlags t)
  simp only [hr]
  split
  · refine ⟨_, rfl, ?_⟩
    intro h
    simp only [Bool.or_eq_true] at h
    rcases h with h | h
    · exact Or.inl h
    · exact Or.inr (hd h)
  · refine ⟨_, rfl, ?_⟩
    intro h
    simp only [Bool.or_eq_true] at h
    rcases h with h | h
    · exact Or.inl h
    · exact Or.inr (hd h)

/-! ## examples (non-vacuity) and sanity checks -/

-- the model really runs the loops (and agrees with the library on these texts: checked against /repo)
example : scrubAliquots (S "N/2 of the Northeast Quarter, nenw, E2NENW") false = some (S "N½NE¼, nenw, E½NE¼NW¼") := by
  decide +kernel
example : scrubAliquots (S "N/2 of the Northeast Quarter, nenw, E2NENW") true = some (S "N½NE¼, NE¼NW¼, E½NE¼NW¼") := by
  decide +kernel
example : scrubAliquots (S "E½NENWSE of the sw") false = some (S "E½NE¼NW¼SE¼SW¼") := by decide +kernel
example : scrubAliquots (S "ſw QUARTE¼ Ne ¼") true ≠ none := C03_scrubAliquots_total _ _
example : subScrubber "se_clean" (S "ſE South-East one quarter") ≠ none := C03_subScrubber_total _ (by decide) _
example : halfPlusQScrubber (S "E½NENWSE") = some (S "E½NE¼NW¼SE¼") := by decide +kernel
example : removeAliquotInterveners (S "N½ of the NE¼ of SW¼") ≠ none := C03_removeAliquotInterveners_total _
-- the potential at work: three changing passes of `half_plus_q_scrubber`, potential 8 > 7 > 6 > 5
example : (pot (S "E½NENWSE"), pot (S "E½NENWSE¼"), pot (S "E½NENW¼SE¼"), pot (S "E½NE¼NW¼SE¼")) = (8, 7, 6, 5) := by decide
-- with too little fuel the loops DO run dry, so the theorems are about the fuel actually supplied
example : untilStable (scrubStep "ne_regex") 1 (S "NE/4") = none := by decide +kernel
example : untilStable (fun t => halfPlusQ.rx.subWith t (processHalfPlusQMatch t)) 3 (S "E½NENWSE") = none := by decide +kernel
example : (untilStable (fun t => halfPlusQ.rx.subWith t (processHalfPlusQMatch t)) 4 (S "E½NENWSE")).isSome = true := by
  decide +kernel
-- greediness matters: the potential argument for `ne_clean` fails exactly on a 2-character match followed by `¼`
example : subCheck (findRx "ne_clean").rx (scrubRepl "ne_clean") 4 noExcl = false := by decide +kernel
example (c : Option Bool) (tr : Obj.TractObj) : (Obj.tractPreprocess tr c false).1 = tr :=
  C03_tractPreprocess_nocommit_terminates tr c

#print axioms untilStable_potential
#print axioms Rx.m_runs
#print axioms Eats.words
#print axioms Eats.maxHits
#print axioms subWith_pot
#print axioms C03_removeAliquotInterveners_total
#print axioms C03_subScrubber_total
#print axioms C03_scrubStep_lowers
#print axioms C03_subScrubber_pass_bound
#print axioms C03_halfPlusQScrubber_total
#print axioms C03_scrubAliquots_total
#print axioms C03_scrubAliquots_some
#print axioms C03_tractPreprocess_terminates
#print axioms C03_tractPreprocess_nocommit_terminates
#print axioms C03_tractParseRaw_terminates
#print axioms C03_tractParse_terminates
#print axioms C03_tractParseMethod_terminates

end PyTRS
