/-
Closed forms for the two simplest pattern shapes used by the configuration parser:

* `re.split('[class]', text)`      = `splitAt class text`                      (`split_chr`)
* `re.sub('[class]*', '', text)`   = `text.filter (· ∉ class)`                 (`sub_star_chr_nil`)
* `re.sub('[class]+', '', text)`   = `text.filter (· ∉ class)`                 (`sub_plus_chr_nil`; both: `sub_rep_chr_nil`)
* `re.sub('[class]', '', text)`    = the same                                  (`sub_one_chr_nil`; all three: `DeletesClass.sub_nil`)

plus the round trip `splitAt p (sep.join(parts)) = parts` (`splitAt_join`).

Route: `matchHere` → `scan` → `finditerAux` (generalised over cursor and fuel) → `Rx.finditer` → `split` / `sub`.
-/
import PyTRS.Lemmas.RxAll
import PyTRS.Lemmas.RxBounds
namespace PyTRS

/-! ### the specification-side definitions -/

/-- split a text at every character satisfying p (like Python's re.split on a one-character class) -/
def splitAt (p : Char → Bool) : List Char → List (List Char)
  | [] => [[]]
  | c :: t =>
    if p c then [] :: splitAt p t
    else
      match splitAt p t with
      | [] => [[c]]                 -- unreachable: `splitAt` never returns `[]` (`splitAt_ne_nil`)
      | w :: ws => (c :: w) :: ws

/-- `sep.join(parts)` for a one-character separator: `pyJoinChar sep [a,b,c] = a ++ [sep] ++ b ++ [sep] ++ c` -/
def pyJoinChar (sep : Char) : List (List Char) → List Char
  | [] => []
  | [a] => a
  | a :: b :: rest => a ++ sep :: pyJoinChar sep (b :: rest)

/-- the matches of a one-character class: one match of width 1 at every position whose character is in the class -/
def chrMatches (p : Char → Bool) : List Char → Nat → List Match
  | [], _ => []
  | c :: t, pos => if p c then ⟨pos, pos + 1, []⟩ :: chrMatches p t (pos + 1) else chrMatches p t (pos + 1)

/-- the matches of `[class]*` (3.7+ rule): every maximal non-empty run of class characters is a match, and there is
an empty match at every position that is not inside or at the start of a run (in particular right after a run and at
the end of the text).  The third argument is the start of the run the cursor is currently in, if any. -/
def starMatches (p : Char → Bool) : List Char → Nat → Option Nat → List Match
  | [], pos, none => [⟨pos, pos, []⟩]
  | [], pos, some s => [⟨s, pos, []⟩, ⟨pos, pos, []⟩]
  | c :: t, pos, none =>
    if p c then starMatches p t (pos + 1) (some pos) else ⟨pos, pos, []⟩ :: starMatches p t (pos + 1) none
  | c :: t, pos, some s =>
    if p c then starMatches p t (pos + 1) (some s)
    else ⟨s, pos, []⟩ :: ⟨pos, pos, []⟩ :: starMatches p t (pos + 1) none

/-! ### generic helpers -/

theorem advance_snd (p : Option Char) (r : List Char) (n : Nat) : (advance p r n).2 = r.drop n := by
  induction r generalizing p n with
  | nil => cases n <;> simp [advance]
  | cons c t ih =>
    cases n with
    | zero => simp [advance]
    | succ n => simp [advance, ih]

/-- one unfolding of `finditerAux` when `scan` finds a match (the new `prev` is irrelevant for our patterns) -/
theorem finditerAux_some (r : Rx) (fuel : Nat) (prev : Option Char) (rest : List Char) (pos : Nat) (adv : Bool)
    (m : Match) (h : scan r prev rest pos adv = some m) :
    ∃ p', finditerAux r (fuel + 1) prev rest pos adv =
      m :: finditerAux r fuel p' (rest.drop (m.stop - pos)) m.stop (m.stop == m.start) := by
  rw [finditerAux, h]
  simp only []
  have hs := advance_snd prev rest (m.stop - pos)
  rcases hadv : advance prev rest (m.stop - pos) with ⟨p', r'⟩
  rw [hadv] at hs
  simp only [] at hs
  subst hs
  exact ⟨p', rfl⟩

theorem finditerAux_none (r : Rx) (fuel : Nat) (prev : Option Char) (rest : List Char) (pos : Nat) (adv : Bool)
    (h : scan r prev rest pos adv = none) : finditerAux r (fuel + 1) prev rest pos adv = [] := by
  rw [finditerAux, h]

/-- `finditer` with the default `pos`/`endpos` starts `finditerAux` on the whole text -/
theorem finditer_default (r : Rx) (text : List Char) :
    r.finditer text = finditerAux r (2 * text.length + 2) none text 0 false := by
  simp [Rx.finditer, cursorAt]

/-- either no character satisfies `p`, or there is a first one -/
theorem split_first (p : Char → Bool) (l : List Char) :
    (∀ x ∈ l, p x = false) ∨ ∃ a c t, l = a ++ c :: t ∧ (∀ x ∈ a, p x = false) ∧ p c = true := by
  induction l with
  | nil => left; intro x hx; cases hx
  | cons c t ih =>
    by_cases hc : p c = true
    · right; exact ⟨[], c, t, rfl, (by intro x hx; cases hx), hc⟩
    · have hc' : p c = false := by simpa using hc
      rcases ih with h | ⟨a, d, u, rfl, ha, hd⟩
      · left
        intro x hx
        rcases List.mem_cons.mp hx with rfl | hx
        · exact hc'
        · exact h x hx
      · right
        refine ⟨c :: a, d, u, rfl, ?_, hd⟩
        intro x hx
        rcases List.mem_cons.mp hx with rfl | hx
        · exact hc'
        · exact ha x hx

theorem drop_append_cons (a : List Char) (c : Char) (t : List Char) : (a ++ c :: t).drop (a.length + 1) = t := by
  have h : a ++ c :: t = (a ++ [c]) ++ t := by simp
  have h2 : a.length + 1 = (a ++ [c]).length := by simp
  rw [h, h2]
  exact List.drop_left

theorem slice_self (t : List Char) (a : Nat) : slice t a a = [] := by
  simp [slice]

theorem slice_mid (pre a post : List Char) :
    slice (pre ++ a ++ post) pre.length (pre.length + a.length) = a := by
  have h : (pre ++ a ++ post).take (pre.length + a.length) = pre ++ a := by
    rw [← List.length_append]
    exact List.take_left
  rw [slice, h]
  exact List.drop_left

/-! ### `splitAt` -/

theorem splitAt_ne_nil (p : Char → Bool) (l : List Char) : splitAt p l ≠ [] := by
  induction l with
  | nil => simp [splitAt]
  | cons c t ih =>
    rw [splitAt]
    split
    · simp
    · split <;> simp

theorem splitAt_none (p : Char → Bool) (l : List Char) (h : ∀ x ∈ l, p x = false) : splitAt p l = [l] := by
  induction l with
  | nil => rfl
  | cons c t ih =>
    rw [splitAt, h c (by simp), ih (fun x hx => h x (by simp [hx]))]
    simp

theorem splitAt_append_sep (p : Char → Bool) (a : List Char) (c : Char) (t : List Char)
    (ha : ∀ x ∈ a, p x = false) (hc : p c = true) : splitAt p (a ++ c :: t) = a :: splitAt p t := by
  induction a with
  | nil => simp [splitAt, hc]
  | cons x a ih =>
    rw [List.cons_append, splitAt, ha x (by simp), ih (fun y hy => ha y (by simp [hy]))]
    simp

theorem splitAt_join (p : Char → Bool) (parts : List (List Char)) (sep : Char) (hsep : p sep = true)
    (hparts : ∀ w ∈ parts, ∀ c ∈ w, p c = false) (hne : parts ≠ []) :
    splitAt p (pyJoinChar sep parts) = parts := by
  induction parts with
  | nil => exact absurd rfl hne
  | cons a rest ih =>
    cases rest with
    | nil => exact splitAt_none p a (hparts a (by simp))
    | cons b rest =>
      rw [pyJoinChar, splitAt_append_sep p a sep _ (hparts a (by simp)) hsep,
        ih (fun w hw => hparts w (by simp [hw])) (by simp)]

/-! ### one-character class: `matchHere`, `scan`, `finditerAux`, `finditer` -/

theorem scan_chr_none (cs : CharSet) : ∀ (rest : List Char) (prev : Option Char) (pos : Nat) (adv : Bool),
    (∀ x ∈ rest, cs.mem x = false) → scan (.chr cs) prev rest pos adv = none := by
  intro rest
  induction rest with
  | nil => intro prev pos adv _; rw [scan]; simp [matchHere, Rx.m]
  | cons c t ih =>
    intro prev pos adv h
    have hc : cs.mem c = false := h c (by simp)
    rw [scan]
    simp only [matchHere, Rx.m, hc]
    exact ih _ _ _ (fun x hx => h x (by simp [hx]))

theorem scan_chr_some (cs : CharSet) (c : Char) (t : List Char) (hc : cs.mem c = true) :
    ∀ (a : List Char) (prev : Option Char) (pos : Nat) (adv : Bool), (∀ x ∈ a, cs.mem x = false) →
      scan (.chr cs) prev (a ++ c :: t) pos adv = some ⟨pos + a.length, pos + a.length + 1, []⟩ := by
  intro a
  induction a with
  | nil =>
    intro prev pos adv _
    rw [List.nil_append, scan]
    simp [matchHere, Rx.m, hc]
  | cons x a ih =>
    intro prev pos adv h
    have hx : cs.mem x = false := h x (by simp)
    rw [List.cons_append, scan]
    simp only [matchHere, Rx.m, hx]
    rw [ih _ _ _ (fun y hy => h y (by simp [hy]))]
    simp only [Bool.false_eq_true, if_false, List.length_cons, Option.some.injEq, Match.mk.injEq, and_true]
    omega

theorem chrMatches_none (p : Char → Bool) : ∀ (l : List Char) (pos : Nat), (∀ x ∈ l, p x = false) →
    chrMatches p l pos = [] := by
  intro l
  induction l with
  | nil => intros; rfl
  | cons c t ih =>
    intro pos h
    rw [chrMatches, h c (by simp)]
    simpa using ih _ (fun x hx => h x (by simp [hx]))

theorem chrMatches_append_sep (p : Char → Bool) (c : Char) (t : List Char) (hc : p c = true) :
    ∀ (a : List Char) (pos : Nat), (∀ x ∈ a, p x = false) →
      chrMatches p (a ++ c :: t) pos =
        ⟨pos + a.length, pos + a.length + 1, []⟩ :: chrMatches p t (pos + a.length + 1) := by
  intro a
  induction a with
  | nil => intro pos _; simp [chrMatches, hc]
  | cons x a ih =>
    intro pos h
    rw [List.cons_append, chrMatches, h x (by simp)]
    simp only [Bool.false_eq_true, if_false]
    rw [ih _ (fun y hy => h y (by simp [hy]))]
    simp only [List.length_cons]
    have e : pos + 1 + a.length = pos + (a.length + 1) := by omega
    rw [e]

/-- the matches of `[class]` from any cursor, for any sufficient fuel -/
theorem finditerAux_chr (cs : CharSet) : ∀ (fuel : Nat) (prev : Option Char) (rest : List Char) (pos : Nat) (adv : Bool),
    rest.length < fuel → finditerAux (.chr cs) fuel prev rest pos adv = chrMatches cs.mem rest pos := by
  intro fuel
  induction fuel with
  | zero => intro _ _ _ _ h; omega
  | succ n ih =>
    intro prev rest pos adv hf
    rcases split_first cs.mem rest with h | ⟨a, c, t, rfl, ha, hc⟩
    · rw [finditerAux_none _ _ _ _ _ _ (scan_chr_none cs _ _ _ _ h), chrMatches_none _ _ _ h]
    · obtain ⟨p', hp'⟩ := finditerAux_some _ n prev _ pos adv _ (scan_chr_some cs c t hc a prev pos adv ha)
      rw [hp', chrMatches_append_sep _ c t hc a pos ha]
      simp only []
      have e : pos + a.length + 1 - pos = a.length + 1 := by omega
      rw [e, drop_append_cons, ih _ _ _ _ (by simp only [List.length_append, List.length_cons] at hf; omega)]

/-- `finditer` for `[class]`: exactly the positions `i` with `text[i]` in the class, each of width 1, in order -/
theorem finditer_chr (cs : CharSet) (text : List Char) :
    (Rx.chr cs).finditer text = chrMatches cs.mem text 0 := by
  rw [finditer_default]
  exact finditerAux_chr cs _ _ _ _ _ (by omega)

/-! ### `split` on a one-character class -/

theorem splitgo_chrMatches (p : Char → Bool) (text : List Char) :
    ∀ (rest pre mid : List Char) (i pos : Nat) (acc : List (List Char)),
      text = pre ++ mid ++ rest → i = pre.length → pos = pre.length + mid.length → (∀ x ∈ mid, p x = false) →
      Rx.split.go text (chrMatches p rest pos) i acc = acc ++ splitAt p (mid ++ rest) := by
  intro rest
  induction rest with
  | nil =>
    intro pre mid i pos acc ht hi _ hmid
    rw [chrMatches, Rx.split.go, List.append_nil, splitAt_none p mid hmid, ht, hi]
    simp
  | cons c t ih =>
    intro pre mid i pos acc ht hi hpos hmid
    rw [chrMatches]
    by_cases hc : p c = true
    · rw [if_pos hc, Rx.split.go]
      simp only []
      have hs : slice text i pos = mid := by rw [ht, hi, hpos]; exact slice_mid pre mid (c :: t)
      rw [hs, ih (pre ++ mid ++ [c]) [] (pos + 1) (pos + 1) (acc ++ [mid]) (by simp [ht])
        (by simp [hpos]; omega) (by simp [hpos]; omega) (by intro x hx; cases hx),
        splitAt_append_sep p mid c t hmid hc]
      simp
    · have hc' : p c = false := by simpa using hc
      rw [if_neg hc, ih pre (mid ++ [c]) i (pos + 1) acc (by simp [ht]) hi (by simp [hpos]; omega)]
      · simp
      · intro x hx
        rcases List.mem_append.mp hx with hx | hx
        · exact hmid x hx
        · simp at hx; rw [hx]; exact hc'

theorem split_chr (cs : CharSet) (text : List Char) : (Rx.chr cs).split text = splitAt cs.mem text := by
  show Rx.split.go text ((Rx.chr cs).finditer text) 0 [] = _
  rw [finditer_chr, splitgo_chrMatches cs.mem text text [] [] 0 0 [] rfl rfl rfl (by intro x hx; cases hx)]
  simp

/-! ### `[class]*`: `matchHere`, `scan` -/

theorem chr_m_cons {R : Type} (cs : CharSet) (prev : Option Char) (c : Char) (t : List Char) (pos : Nat)
    (caps : List (Nat × Nat × Nat)) (k : St → Option R) :
    (Rx.chr cs).m ⟨prev, c :: t, pos, caps⟩ k = if cs.mem c then k ⟨some c, t, pos + 1, caps⟩ else none := rfl

theorem chr_m_nil {R : Type} (cs : CharSet) (prev : Option Char) (pos : Nat)
    (caps : List (Nat × Nat × Nat)) (k : St → Option R) :
    (Rx.chr cs).m ⟨prev, [], pos, caps⟩ k = none := rfl

/-- the greedy loop over a one-character class eats the maximal run; the final continuation is the one of
`matchHere` started at `p0` (it accepts as soon as `adv = false` or the position moved past `p0`) -/
theorem repLoop_star_chr (cs : CharSet) (p0 : Nat) (adv : Bool) :
    ∀ (rest : List Char) (fuel count : Nat) (last : Option Nat) (prev : Option Char) (pos : Nat)
      (caps : List (Nat × Nat × Nat)),
      rest.length < fuel → last ≠ some pos → (adv = false ∨ p0 < pos) →
      repLoop (Rx.chr cs).m 0 none fuel count last ⟨prev, rest, pos, caps⟩
        (fun s' => if adv && s'.pos == p0 then none else some (⟨p0, s'.pos, s'.caps⟩ : Match))
      = some ⟨p0, pos + (rest.takeWhile cs.mem).length, caps⟩ := by
  intro rest
  induction rest with
  | nil =>
    intro fuel count last prev pos caps hf hl hp
    obtain ⟨f, rfl⟩ : ∃ f, fuel = f + 1 := ⟨fuel - 1, by omega⟩
    rw [repLoop]
    have hk : (adv && pos == p0) = false := by
      rcases hp with h | h
      · simp [h]
      · have : (pos == p0) = false := by simp; omega
        simp [this]
    simp [canMore, hl, chr_m_nil, hk]
  | cons c t ih =>
    intro fuel count last prev pos caps hf hl hp
    obtain ⟨f, rfl⟩ : ∃ f, fuel = f + 1 := ⟨fuel - 1, by omega⟩
    rw [repLoop]
    by_cases hc : cs.mem c = true
    · have := ih f (count + 1) (some pos) (some c) (pos + 1) caps (by simp at hf; omega) (by simp)
        (by rcases hp with h | h; exact Or.inl h; exact Or.inr (by omega))
      simp only [Nat.not_lt_zero, if_false, canMore, Bool.true_and, bne_iff_ne, ne_eq, hl, not_false_eq_true,
        if_true, chr_m_cons, hc, this, List.takeWhile_cons, List.length_cons]
      simp only [Option.some.injEq, Match.mk.injEq, and_true, true_and]
      omega
    · have hc' : cs.mem c = false := by simpa using hc
      have hk : (adv && pos == p0) = false := by
        rcases hp with h | h
        · simp [h]
        · have : (pos == p0) = false := by simp; omega
          simp [this]
      simp [canMore, hl, chr_m_cons, hc', hk]

/-- `[class]*` at a cursor: the maximal run; an empty run is rejected iff `must_advance` -/
theorem matchHere_star (cs : CharSet) (prev : Option Char) (rest : List Char) (pos : Nat) (adv : Bool) :
    matchHere (.rep (.chr cs) 0 none) ⟨prev, rest, pos, []⟩ adv =
      if adv && (rest.takeWhile cs.mem).length == 0 then none
      else some ⟨pos, pos + (rest.takeWhile cs.mem).length, []⟩ := by
  cases adv with
  | false =>
    simp only [Bool.false_and, Bool.false_eq_true, if_false]
    exact repLoop_star_chr cs pos false rest _ 0 none prev pos [] (by simp) (by simp) (Or.inl rfl)
  | true =>
    show repLoop (Rx.chr cs).m 0 none (rest.length + 0 + 2) 0 none ⟨prev, rest, pos, []⟩
      (fun s' => if true && s'.pos == pos then none else some (⟨pos, s'.pos, s'.caps⟩ : Match)) = _
    rw [repLoop]
    cases rest with
    | nil => simp [canMore, chr_m_nil]
    | cons c t =>
      by_cases hc : cs.mem c = true
      · have := repLoop_star_chr cs pos true t (t.length + 1 + 1) (0 + 1) (some pos) (some c) (pos + 1) []
          (by omega) (by simp) (Or.inr (by omega))
        simp only [Bool.true_and] at this
        simp only [Nat.not_lt_zero, if_false, canMore, Bool.true_and, bne_iff_ne, ne_eq, reduceCtorEq, not_false_eq_true,
          if_true, chr_m_cons, hc, this, List.takeWhile_cons, List.length_cons]
        simp
        omega
      · have hc' : cs.mem c = false := by simpa using hc
        simp [canMore, chr_m_cons, hc']

/-- leftmost match of `[class]*`: at the cursor, except that after an empty match (`adv`) at a non-class character
the search moves one character on -/
theorem scan_star (cs : CharSet) (prev : Option Char) (rest : List Char) (pos : Nat) (adv : Bool) :
    scan (.rep (.chr cs) 0 none) prev rest pos adv =
      if adv && (rest.takeWhile cs.mem).length == 0 then
        match rest with
        | [] => none
        | _ :: t => some ⟨pos + 1, pos + 1 + (t.takeWhile cs.mem).length, []⟩
      else some ⟨pos, pos + (rest.takeWhile cs.mem).length, []⟩ := by
  rw [scan.eq_def]
  simp only []
  rw [matchHere_star]
  by_cases hcond : (adv && (rest.takeWhile cs.mem).length == 0) = true
  · rw [if_pos hcond, if_pos hcond]
    cases rest with
    | nil => rfl
    | cons c t =>
      simp only []
      rw [scan.eq_def]
      simp only []
      rw [matchHere_star]
      simp
  · rw [if_neg hcond, if_neg hcond]

/-! ### `[class]*`: `finditerAux`, `finditer` -/

theorem filter_not_dropWhile (p : Char → Bool) (l : List Char) :
    (l.dropWhile p).filter (fun c => !p c) = l.filter (fun c => !p c) := by
  induction l with
  | nil => rfl
  | cons c t ih =>
    by_cases hc : p c = true
    · simp [hc, ih]
    · have hc' : p c = false := by simpa using hc
      simp [hc']

theorem drop_length_takeWhile (p : Char → Bool) (l : List Char) :
    l.drop (l.takeWhile p).length = l.dropWhile p := by
  induction l with
  | nil => rfl
  | cons c t ih =>
    by_cases hc : p c = true
    · simp [hc, ih]
    · have hc' : p c = false := by simpa using hc
      simp [hc']

theorem length_takeWhile_add_dropWhile (p : Char → Bool) (l : List Char) :
    (l.takeWhile p).length + (l.dropWhile p).length = l.length := by
  rw [← List.length_append, List.takeWhile_append_dropWhile]

theorem starMatches_some (p : Char → Bool) : ∀ (rest : List Char) (pos s : Nat),
    starMatches p rest pos (some s) =
      ⟨s, pos + (rest.takeWhile p).length, []⟩ ::
        starMatches p (rest.dropWhile p) (pos + (rest.takeWhile p).length) none := by
  intro rest
  induction rest with
  | nil => intro pos s; simp [starMatches]
  | cons c t ih =>
    intro pos s
    by_cases hc : p c = true
    · rw [starMatches, if_pos hc, ih]
      simp only [List.takeWhile_cons, List.dropWhile_cons, hc, if_true, List.length_cons]
      have e : pos + 1 + (t.takeWhile p).length = pos + ((t.takeWhile p).length + 1) := by omega
      rw [e]
    · have hc' : p c = false := by simpa using hc
      rw [starMatches, if_neg hc]
      simp [hc', starMatches]

theorem starMatches_none_run (p : Char → Bool) (rest : List Char) (pos : Nat)
    (hn : (rest.takeWhile p).length ≠ 0) :
    starMatches p rest pos none =
      ⟨pos, pos + (rest.takeWhile p).length, []⟩ ::
        starMatches p (rest.dropWhile p) (pos + (rest.takeWhile p).length) none := by
  cases rest with
  | nil => simp at hn
  | cons c t =>
    by_cases hc : p c = true
    · rw [starMatches, if_pos hc, starMatches_some]
      simp only [List.takeWhile_cons, List.dropWhile_cons, hc, if_true, List.length_cons]
      have e : pos + 1 + (t.takeWhile p).length = pos + ((t.takeWhile p).length + 1) := by omega
      rw [e]
    · have hc' : p c = false := by simpa using hc
      simp [hc'] at hn

theorem starMatches_none_zero (p : Char → Bool) (rest : List Char) (pos : Nat)
    (hn : (rest.takeWhile p).length = 0) :
    starMatches p rest pos none =
      ⟨pos, pos, []⟩ :: (match rest with
        | [] => []
        | _ :: t => starMatches p t (pos + 1) none) := by
  cases rest with
  | nil => rfl
  | cons c t =>
    by_cases hc : p c = true
    · simp [hc] at hn
    · rw [starMatches, if_neg hc]

/-- the matches of `[class]*` from any cursor, for any sufficient fuel.  `adv = true` only ever occurs right after an
empty match, i.e. at a position where no run starts; the search then resumes one character further on. -/
theorem finditerAux_star (cs : CharSet) :
    ∀ (fuel : Nat) (prev : Option Char) (rest : List Char) (pos : Nat) (adv : Bool),
      2 * rest.length + 2 ≤ fuel + adv.toNat → (adv = true → (rest.takeWhile cs.mem).length = 0) →
      finditerAux (.rep (.chr cs) 0 none) fuel prev rest pos adv =
        if adv then
          (match rest with
            | [] => []
            | _ :: t => starMatches cs.mem t (pos + 1) none)
        else starMatches cs.mem rest pos none := by
  intro fuel
  induction fuel with
  | zero =>
    intro prev rest pos adv hf _
    cases adv <;> simp at hf
  | succ n ih =>
    intro prev rest pos adv hf hadvn
    have hs := scan_star cs prev rest pos adv
    cases adv with
    | true =>
      have hn := hadvn rfl
      simp only [hn, Bool.true_and, beq_self_eq_true, if_true] at hs ⊢
      cases rest with
      | nil => exact finditerAux_none _ _ _ _ _ _ hs
      | cons c t =>
        simp only [] at hs ⊢
        obtain ⟨p', hp'⟩ := finditerAux_some _ n prev _ pos true _ hs
        rw [hp']
        simp only []
        have e : pos + 1 + (t.takeWhile cs.mem).length - pos = (t.takeWhile cs.mem).length + 1 := by omega
        have hlen := length_takeWhile_add_dropWhile cs.mem t
        simp only [List.length_cons, Bool.toNat_true] at hf
        rw [e, List.drop_succ_cons, drop_length_takeWhile]
        by_cases h0 : (t.takeWhile cs.mem).length = 0
        · have hd : t.dropWhile cs.mem = t := by
            have := drop_length_takeWhile cs.mem t
            rw [h0] at this
            simpa using this.symm
          rw [hd, h0, ih p' t _ _ (by simp; omega) (by intro _; exact h0)]
          simp only [Nat.add_zero, beq_self_eq_true, if_true]
          exact (starMatches_none_zero _ _ _ h0).symm
        · have hb : (pos + 1 + (t.takeWhile cs.mem).length == pos + 1) = false :=
            beq_eq_false_iff_ne.mpr (by omega)
          rw [hb, ih p' _ _ _ (by simp; omega) (by intro h; cases h), starMatches_none_run _ _ _ h0]
          simp
    | false =>
      simp only [Bool.false_and, Bool.false_eq_true, if_false] at hs ⊢
      obtain ⟨p', hp'⟩ := finditerAux_some _ n prev _ pos false _ hs
      rw [hp']
      simp only []
      have e : pos + (rest.takeWhile cs.mem).length - pos = (rest.takeWhile cs.mem).length := by omega
      have hlen := length_takeWhile_add_dropWhile cs.mem rest
      simp only [Bool.toNat_false] at hf
      rw [e, drop_length_takeWhile]
      by_cases h0 : (rest.takeWhile cs.mem).length = 0
      · have hd : rest.dropWhile cs.mem = rest := by
          have := drop_length_takeWhile cs.mem rest
          rw [h0] at this
          simpa using this.symm
        rw [hd, h0, ih p' rest _ _ (by simp; omega) (by intro _; exact h0)]
        simp only [Nat.add_zero, beq_self_eq_true, if_true]
        exact (starMatches_none_zero _ _ _ h0).symm
      · have hb : (pos + (rest.takeWhile cs.mem).length == pos) = false :=
          beq_eq_false_iff_ne.mpr (by omega)
        rw [hb, ih p' _ _ _ (by simp; omega) (by intro h; cases h), starMatches_none_run _ _ _ h0]
        simp

/-- `finditer` for `[class]*`: maximal runs of class characters, and empty matches at the other positions -/
theorem finditer_star_chr (cs : CharSet) (text : List Char) :
    (Rx.rep (.chr cs) 0 none).finditer text = starMatches cs.mem text 0 none := by
  rw [finditer_default, finditerAux_star cs _ _ _ _ _ (by simp) (by intro h; cases h)]
  simp

/-! ### `sub('[class]*', '')` -/

/-- the `sub` accumulator run over the matches of `[class]*` from any cursor, for any sufficient fuel:
exactly the non-class characters of the remaining text are copied -/
theorem subgo_star (cs : CharSet) (text : List Char) :
    ∀ (fuel : Nat) (prev : Option Char) (pre rest : List Char) (pos : Nat) (adv : Bool) (acc : List Char),
      text = pre ++ rest → pos = pre.length → 2 * rest.length + 2 ≤ fuel + adv.toNat →
      Rx.subWith.go text (fun _ => []) (finditerAux (.rep (.chr cs) 0 none) fuel prev rest pos adv) pos acc
        = acc ++ rest.filter (fun c => !cs.mem c) := by
  intro fuel
  induction fuel with
  | zero =>
    intro prev pre rest pos adv acc _ _ hf
    cases adv <;> simp at hf
  | succ n ih =>
    intro prev pre rest pos adv acc ht hpos hf
    have hs := scan_star cs prev rest pos adv
    by_cases hcond : (adv && (rest.takeWhile cs.mem).length == 0) = true
    · rw [if_pos hcond] at hs
      simp only [Bool.and_eq_true, beq_iff_eq] at hcond
      obtain ⟨hadv, hn⟩ := hcond
      subst hadv
      cases rest with
      | nil =>
        rw [finditerAux_none _ _ _ _ _ _ hs, Rx.subWith.go, ht, hpos]
        simp
      | cons c t =>
        simp only [] at hs
        have hc : cs.mem c = false := by
          by_cases h : cs.mem c = true
          · simp [h] at hn
          · simpa using h
        obtain ⟨p', hp'⟩ := finditerAux_some _ n prev _ pos true _ hs
        rw [hp', Rx.subWith.go]
        simp only []
        have e : pos + 1 + (t.takeWhile cs.mem).length - pos = (t.takeWhile cs.mem).length + 1 := by omega
        have hsl : slice text pos (pos + 1) = [c] := by
          have h := slice_mid pre [c] t
          rw [ht, hpos]
          simpa using h
        rw [e, List.drop_succ_cons, drop_length_takeWhile, hsl,
          ih p' (pre ++ c :: t.takeWhile cs.mem) (t.dropWhile cs.mem) _ _ _
            (by rw [ht, List.append_assoc, List.cons_append, List.takeWhile_append_dropWhile])
            (by simp [hpos]; omega)
            (by
              have := length_takeWhile_add_dropWhile cs.mem t
              simp only [List.length_cons, Bool.toNat_true] at hf
              have h0 := Nat.zero_le (Bool.toNat (pos + 1 + (t.takeWhile cs.mem).length == pos + 1))
              omega),
          filter_not_dropWhile]
        simp [hc]
    · rw [if_neg hcond] at hs
      obtain ⟨p', hp'⟩ := finditerAux_some _ n prev _ pos adv _ hs
      rw [hp', Rx.subWith.go]
      simp only []
      have e : pos + (rest.takeWhile cs.mem).length - pos = (rest.takeWhile cs.mem).length := by omega
      rw [e, drop_length_takeWhile, slice_self,
        ih p' (pre ++ rest.takeWhile cs.mem) (rest.dropWhile cs.mem) _ _ _
          (by rw [ht, List.append_assoc, List.takeWhile_append_dropWhile])
          (by simp [hpos])
          (by
            have := length_takeWhile_add_dropWhile cs.mem rest
            by_cases h0 : (rest.takeWhile cs.mem).length = 0
            · have hadv : adv = false := by
                cases adv
                · rfl
                · simp [h0] at hcond
              subst hadv
              simp [h0] at hf ⊢
              omega
            · have hb : (pos + (rest.takeWhile cs.mem).length == pos) = false :=
                beq_eq_false_iff_ne.mpr (by omega)
              rw [hb]
              have hle := Bool.toNat_le adv
              simp only [Bool.toNat_false]
              omega),
        filter_not_dropWhile]
      simp

theorem sub_star_chr_nil (cs : CharSet) (text : List Char) :
    (Rx.rep (.chr cs) 0 none).sub [] text = text.filter (fun c => !cs.mem c) := by
  show Rx.subWith.go text (fun _ => []) ((Rx.rep (.chr cs) 0 none).finditer text) 0 [] = _
  rw [finditer_default, subgo_star cs text _ none [] text 0 false [] rfl rfl (by simp)]
  simp

/-! ### `[class]+` (and `[class]{lo,}` for `lo ≤ 1`): `matchHere`, `scan`, `finditerAux`, `finditer`, `sub`

An equivalent way to delete a class of characters is `re.sub('[class]+', '', text)`; the closed form is the same. -/

/-- `repLoop_star_chr` for any lower bound already reached (`lo ≤ count`) -/
theorem repLoop_ge_chr (cs : CharSet) (lo : Nat) (p0 : Nat) (adv : Bool) :
    ∀ (rest : List Char) (fuel count : Nat) (last : Option Nat) (prev : Option Char) (pos : Nat)
      (caps : List (Nat × Nat × Nat)),
      rest.length < fuel → lo ≤ count → last ≠ some pos → (adv = false ∨ p0 < pos) →
      repLoop (Rx.chr cs).m lo none fuel count last ⟨prev, rest, pos, caps⟩
        (fun s' => if adv && s'.pos == p0 then none else some (⟨p0, s'.pos, s'.caps⟩ : Match))
      = some ⟨p0, pos + (rest.takeWhile cs.mem).length, caps⟩ := by
  intro rest
  induction rest with
  | nil =>
    intro fuel count last prev pos caps hf hlo hl hp
    obtain ⟨f, rfl⟩ : ∃ f, fuel = f + 1 := ⟨fuel - 1, by omega⟩
    rw [repLoop]
    have hk : (adv && pos == p0) = false := by
      rcases hp with h | h
      · simp [h]
      · have : (pos == p0) = false := by simp; omega
        simp [this]
    have hnl : ¬ count < lo := by omega
    simp [canMore, hl, chr_m_nil, hk, hnl]
  | cons c t ih =>
    intro fuel count last prev pos caps hf hlo hl hp
    obtain ⟨f, rfl⟩ : ∃ f, fuel = f + 1 := ⟨fuel - 1, by omega⟩
    have hnl : ¬ count < lo := by omega
    rw [repLoop]
    by_cases hc : cs.mem c = true
    · have := ih f (count + 1) (some pos) (some c) (pos + 1) caps (by simp at hf; omega) (by omega) (by simp)
        (by rcases hp with h | h; exact Or.inl h; exact Or.inr (by omega))
      simp only [hnl, if_false, canMore, Bool.true_and, bne_iff_ne, ne_eq, hl, not_false_eq_true,
        if_true, chr_m_cons, hc, this, List.takeWhile_cons, List.length_cons]
      simp only [Option.some.injEq, Match.mk.injEq, and_true, true_and]
      omega
    · have hc' : cs.mem c = false := by simpa using hc
      have hk : (adv && pos == p0) = false := by
        rcases hp with h | h
        · simp [h]
        · have : (pos == p0) = false := by simp; omega
          simp [this]
      simp [canMore, hl, chr_m_cons, hc', hk, hnl]

/-- `[class]+` at a cursor: the maximal run, which must be non-empty (so `must_advance` is irrelevant) -/
theorem matchHere_plus (cs : CharSet) (prev : Option Char) (rest : List Char) (pos : Nat) (adv : Bool) :
    matchHere (.rep (.chr cs) 1 none) ⟨prev, rest, pos, []⟩ adv =
      if (rest.takeWhile cs.mem).length == 0 then none
      else some ⟨pos, pos + (rest.takeWhile cs.mem).length, []⟩ := by
  show repLoop (Rx.chr cs).m 1 none (rest.length + 1 + 2) 0 none ⟨prev, rest, pos, []⟩
    (fun s' => if adv && s'.pos == pos then none else some (⟨pos, s'.pos, s'.caps⟩ : Match)) = _
  rw [repLoop]
  cases rest with
  | nil => simp [chr_m_nil]
  | cons c t =>
    by_cases hc : cs.mem c = true
    · have := repLoop_ge_chr cs 1 pos adv t (t.length + 1 + 1 + 1) (0 + 1) none (some c) (pos + 1) []
        (by omega) (by omega) (by simp) (Or.inr (by omega))
      simp only [Nat.lt_add_one, if_true, chr_m_cons, hc, List.length_cons, this, List.takeWhile_cons]
      simp
      omega
    · have hc' : cs.mem c = false := by simpa using hc
      simp [chr_m_cons, hc']

theorem scan_plus_none (cs : CharSet) : ∀ (rest : List Char) (prev : Option Char) (pos : Nat) (adv : Bool),
    (∀ x ∈ rest, cs.mem x = false) → scan (.rep (.chr cs) 1 none) prev rest pos adv = none := by
  intro rest
  induction rest with
  | nil => intro prev pos adv _; rw [scan, matchHere_plus]; simp
  | cons c t ih =>
    intro prev pos adv h
    have hc : cs.mem c = false := h c (by simp)
    rw [scan, matchHere_plus]
    simp only [List.takeWhile_cons, hc, Bool.false_eq_true, if_false, List.length_nil, beq_self_eq_true, if_true]
    exact ih _ _ _ (fun x hx => h x (by simp [hx]))

/-- leftmost match of `[class]+`: the maximal run starting at the first class character -/
theorem scan_plus_some (cs : CharSet) (c : Char) (t : List Char) (hc : cs.mem c = true) :
    ∀ (a : List Char) (prev : Option Char) (pos : Nat) (adv : Bool), (∀ x ∈ a, cs.mem x = false) →
      scan (.rep (.chr cs) 1 none) prev (a ++ c :: t) pos adv =
        some ⟨pos + a.length, pos + a.length + 1 + (t.takeWhile cs.mem).length, []⟩ := by
  intro a
  induction a with
  | nil =>
    intro prev pos adv _
    rw [List.nil_append, scan, matchHere_plus]
    simp [hc]
    omega
  | cons x a ih =>
    intro prev pos adv h
    have hx : cs.mem x = false := h x (by simp)
    rw [List.cons_append, scan, matchHere_plus]
    simp only [List.takeWhile_cons, hx, Bool.false_eq_true, if_false, List.length_nil, beq_self_eq_true, if_true]
    rw [ih _ _ _ (fun y hy => h y (by simp [hy]))]
    simp only [List.length_cons, Option.some.injEq, Match.mk.injEq, and_true]
    omega


/-- the matches of `[class]+`: every maximal non-empty run of class characters -/
def plusMatches (p : Char → Bool) : List Char → Nat → List Match
  | [], _ => []
  | c :: t, pos =>
    if p c then ⟨pos, pos + 1 + (t.takeWhile p).length, []⟩ ::
        plusMatches p (t.dropWhile p) (pos + 1 + (t.takeWhile p).length)
    else plusMatches p t (pos + 1)
termination_by l => l.length
decreasing_by
  · have := length_takeWhile_add_dropWhile p t
    simp only [List.length_cons]; omega
  · simp

theorem plusMatches_none (p : Char → Bool) : ∀ (l : List Char) (pos : Nat), (∀ x ∈ l, p x = false) →
    plusMatches p l pos = [] := by
  intro l
  induction l with
  | nil => intros; rw [plusMatches]
  | cons c t ih =>
    intro pos h
    rw [plusMatches, h c (by simp)]
    simpa using ih _ (fun x hx => h x (by simp [hx]))

theorem plusMatches_append_run (p : Char → Bool) (c : Char) (t : List Char) (hc : p c = true) :
    ∀ (a : List Char) (pos : Nat), (∀ x ∈ a, p x = false) →
      plusMatches p (a ++ c :: t) pos =
        ⟨pos + a.length, pos + a.length + 1 + (t.takeWhile p).length, []⟩ ::
          plusMatches p (t.dropWhile p) (pos + a.length + 1 + (t.takeWhile p).length) := by
  intro a
  induction a with
  | nil => intro pos _; rw [List.nil_append, plusMatches]; simp [hc]
  | cons x a ih =>
    intro pos h
    rw [List.cons_append, plusMatches, h x (by simp)]
    simp only [Bool.false_eq_true, if_false]
    rw [ih _ (fun y hy => h y (by simp [hy]))]
    simp only [List.length_cons]
    have e : pos + 1 + a.length = pos + (a.length + 1) := by omega
    rw [e]

theorem drop_run (p : Char → Bool) (a : List Char) (c : Char) (t : List Char) :
    (a ++ c :: t).drop (a.length + 1 + (t.takeWhile p).length) = t.dropWhile p := by
  rw [← List.drop_drop, drop_append_cons, drop_length_takeWhile]

/-- the matches of `[class]+` from any cursor, for any sufficient fuel -/
theorem finditerAux_plus (cs : CharSet) : ∀ (fuel : Nat) (prev : Option Char) (rest : List Char) (pos : Nat) (adv : Bool),
    rest.length < fuel → finditerAux (.rep (.chr cs) 1 none) fuel prev rest pos adv = plusMatches cs.mem rest pos := by
  intro fuel
  induction fuel with
  | zero => intro _ _ _ _ h; omega
  | succ n ih =>
    intro prev rest pos adv hf
    rcases split_first cs.mem rest with h | ⟨a, c, t, rfl, ha, hc⟩
    · rw [finditerAux_none _ _ _ _ _ _ (scan_plus_none cs _ _ _ _ h), plusMatches_none _ _ _ h]
    · obtain ⟨p', hp'⟩ := finditerAux_some _ n prev _ pos adv _ (scan_plus_some cs c t hc a prev pos adv ha)
      rw [hp', plusMatches_append_run _ c t hc a pos ha]
      simp only []
      have e : pos + a.length + 1 + (t.takeWhile cs.mem).length - pos = a.length + 1 + (t.takeWhile cs.mem).length := by
        omega
      have hlen := length_takeWhile_add_dropWhile cs.mem t
      rw [e, drop_run, ih _ _ _ _ (by simp only [List.length_append, List.length_cons] at hf; omega)]

/-- `finditer` for `[class]+`: exactly the maximal runs of class characters, in order -/
theorem finditer_plus_chr (cs : CharSet) (text : List Char) :
    (Rx.rep (.chr cs) 1 none).finditer text = plusMatches cs.mem text 0 := by
  rw [finditer_default]
  exact finditerAux_plus cs _ _ _ _ _ (by omega)

/-- the `sub` accumulator run over the matches of `[class]+`: exactly the non-class characters are copied -/
theorem subgo_plus (cs : CharSet) (text : List Char) :
    ∀ (n : Nat) (pre rest : List Char) (pos : Nat) (acc : List Char),
      rest.length ≤ n → text = pre ++ rest → pos = pre.length →
      Rx.subWith.go text (fun _ => []) (plusMatches cs.mem rest pos) pos acc
        = acc ++ rest.filter (fun c => !cs.mem c) := by
  intro n
  induction n with
  | zero =>
    intro pre rest pos acc hn ht hpos
    have : rest = [] := List.eq_nil_of_length_eq_zero (by omega)
    subst this
    rw [plusMatches, Rx.subWith.go, ht, hpos]
    simp
  | succ n ih =>
    intro pre rest pos acc hn ht hpos
    rcases split_first cs.mem rest with h | ⟨a, c, t, rfl, ha, hc⟩
    · rw [plusMatches_none _ _ _ h, Rx.subWith.go, ht, hpos]
      have : rest.filter (fun c => !cs.mem c) = rest :=
        List.filter_eq_self.2 (fun x hx => by simp [h x hx])
      simp [this]
    · rw [plusMatches_append_run _ c t hc a pos ha, Rx.subWith.go]
      simp only []
      have hsl : slice text pos (pos + a.length) = a := by
        rw [ht, hpos, ← List.append_assoc]; exact slice_mid pre a (c :: t)
      have hlen := length_takeWhile_add_dropWhile cs.mem t
      have hfa : a.filter (fun c => !cs.mem c) = a :=
        List.filter_eq_self.2 (fun x hx => by simp [ha x hx])
      rw [hsl, ih (pre ++ a ++ c :: t.takeWhile cs.mem) (t.dropWhile cs.mem) _ _
          (by simp only [List.length_append, List.length_cons] at hn; omega)
          (by rw [ht]; simp [List.takeWhile_append_dropWhile])
          (by simp [hpos]; omega),
        filter_not_dropWhile, List.filter_append, hfa, List.filter_cons]
      simp [hc]

theorem sub_plus_chr_nil (cs : CharSet) (text : List Char) :
    (Rx.rep (.chr cs) 1 none).sub [] text = text.filter (fun c => !cs.mem c) := by
  show Rx.subWith.go text (fun _ => []) ((Rx.rep (.chr cs) 1 none).finditer text) 0 [] = _
  rw [finditer_plus_chr, subgo_plus cs text text.length [] text 0 [] (Nat.le_refl _) rfl rfl]
  simp

/-- `re.sub('[class]*', '', text)` and `re.sub('[class]+', '', text)` both delete exactly the class characters
(a lower bound of 2 or more would leave isolated class characters in place) -/
theorem sub_rep_chr_nil (cs : CharSet) (lo : Nat) (hlo : lo ≤ 1) (text : List Char) :
    (Rx.rep (.chr cs) lo none).sub [] text = text.filter (fun c => !cs.mem c) := by
  obtain rfl | rfl : lo = 0 ∨ lo = 1 := by omega
  · exact sub_star_chr_nil cs text
  · exact sub_plus_chr_nil cs text


/-! ### every spelling of "delete the characters of a class" -/

/-- the `sub` accumulator run over the matches of `[class]`: exactly the non-class characters are copied -/
theorem subgo_chr (p : Char → Bool) (text : List Char) :
    ∀ (n : Nat) (pre rest : List Char) (pos : Nat) (acc : List Char),
      rest.length ≤ n → text = pre ++ rest → pos = pre.length →
      Rx.subWith.go text (fun _ => []) (chrMatches p rest pos) pos acc
        = acc ++ rest.filter (fun c => !p c) := by
  intro n
  induction n with
  | zero =>
    intro pre rest pos acc hn ht hpos
    have : rest = [] := List.eq_nil_of_length_eq_zero (by omega)
    subst this
    rw [chrMatches, Rx.subWith.go, ht, hpos]
    simp
  | succ n ih =>
    intro pre rest pos acc hn ht hpos
    rcases split_first p rest with h | ⟨a, c, t, rfl, ha, hc⟩
    · rw [chrMatches_none _ _ _ h, Rx.subWith.go, ht, hpos]
      have : rest.filter (fun c => !p c) = rest :=
        List.filter_eq_self.2 (fun x hx => by simp [h x hx])
      simp [this]
    · rw [chrMatches_append_sep _ c t hc a pos ha, Rx.subWith.go]
      simp only []
      have hsl : slice text pos (pos + a.length) = a := by
        rw [ht, hpos, ← List.append_assoc]; exact slice_mid pre a (c :: t)
      have hfa : a.filter (fun c => !p c) = a :=
        List.filter_eq_self.2 (fun x hx => by simp [ha x hx])
      rw [hsl, ih (pre ++ a ++ [c]) t _ _
          (by simp only [List.length_append, List.length_cons] at hn; omega)
          (by rw [ht]; simp)
          (by simp [hpos]; omega),
        List.filter_append, hfa, List.filter_cons]
      simp [hc]

/-- `re.sub('[class]', '', text)` deletes exactly the characters of the class -/
theorem sub_one_chr_nil (cs : CharSet) (text : List Char) :
    (Rx.chr cs).sub [] text = text.filter (fun c => !cs.mem c) := by
  show Rx.subWith.go text (fun _ => []) ((Rx.chr cs).finditer text) 0 [] = _
  rw [finditer_chr, subgo_chr cs.mem text text.length [] text 0 [] (Nat.le_refl _) rfl rfl]
  simp

/-- the spellings of "delete every character of the class": `[class]`, `[class]*`, `[class]+` with an empty replacement.
A proof that unfolds a regenerated deleter pattern should go through this predicate (`by constructor` finds the
spelling), not through the lemma for one spelling. -/
inductive DeletesClass (cs : CharSet) : Rx → Prop
  | one : DeletesClass cs (.chr cs)
  | star : DeletesClass cs (.rep (.chr cs) 0 none)
  | plus : DeletesClass cs (.rep (.chr cs) 1 none)

theorem DeletesClass.sub_nil {cs : CharSet} {r : Rx} (h : DeletesClass cs r) (text : List Char) :
    r.sub [] text = text.filter (fun c => !cs.mem c) := by
  cases h
  · exact sub_one_chr_nil cs text
  · exact sub_star_chr_nil cs text
  · exact sub_plus_chr_nil cs text


#print axioms split_chr
#print axioms sub_star_chr_nil
#print axioms sub_plus_chr_nil
#print axioms sub_rep_chr_nil
#print axioms sub_one_chr_nil
#print axioms DeletesClass.sub_nil
#print axioms finditer_plus_chr
#print axioms splitAt_join
#print axioms finditer_chr
#print axioms finditer_star_chr

end PyTRS
