/-
U9 — Beyond `Safe`: polynomial bounds on backtracking for the patterns with unbounded repeats over compound bodies (C16).

`Lemmas/RxPaths.lean` bounds the number of backtracking paths of `Safe` patterns (every unbounded repeat is over a
single character class).  Seven regenerated patterns are not `Safe`.  This file

A–E  defines a finer, decidable analysis `Rx.cnt r K X D : Option (coef × deg)`.  It follows, through the pattern, the
     known continuation `K` (a stack of patterns) and the set `X` of situations (next character / end of text) in which
     a result can still be continued (`Rx.first`), and the characters `D` that cannot come next (`Rx.postD`: after
     `(?!\s)`, or after `\s*` that could not move).  It recognises forced splits (`\s*(?!\s)`, `\s*` before a
     non-blank, `\d{1,3}` before a non-digit …), mutually exclusive alternatives (`excl`: lock-step comparison of two
     continuations, through equal runs `\s*…` / `\s*…`), and loops over a compound body of which at most one result per
     iteration can start another iteration.  Soundness: `Rx.cnt_sound`, `C16_det_paths_bound`:
     `(r.all s).length ≤ coef (n+1)^deg`.
G–I  defines a step-counting copy `Rx.mc` of the matcher (`C16_steps_faithful`: same result as `Rx.m`), its
     specification `Rx.mc_spec` (result = first success over `Rx.all`; steps ≤ exploration cost `Rx.W` + cost of the
     continuation calls actually made), the polynomial bound `Rx.wb` on `W` (`C16_det_steps_bound`, any continuation),
     and the bound `Rx.costT` for an always-succeeding continuation (`search`): there a loop in TAIL position need not
     be unambiguous (`repLoopC_tail`), nor a loop followed by a final check that certainly succeeds wherever the body is
     ambiguous (`repLoopC_guard`, `guardBound`).  `C16_tail_steps_bound`, `C16_search_steps_bound`.
J    decides all of it on the regenerated patterns: PATHS polynomial for four of the seven (`C16_det_pattern_degrees`),
     exponential for the other three (`…_paths_exponential`, by evaluation); STEPS of `search` polynomial for all seven
     and for every other pattern (`C16_det_step_degrees`, `C16_det_other_step_degrees`).  The degrees point at two
     patterns that are slow in the real library (`C16_det_high_degree_patterns`).
L    `finditer` (hence `sub`) with a step counter, for patterns that cannot match the empty string
     (`C16_finditer_steps_bound`; all seven: `C16_det_unsafe7_consume`).
-/
import PyTRS.Lemmas.RxPaths
import PyTRS.Lemmas.GlueFuel
namespace PyTRS

/-! ## Part A — range-list arithmetic and look-ahead sets -/

/-- every code point -/
def csTop : CharSet := [(0, 1114111)]

theorem Char.toNat_le_max (c : Char) : c.toNat ≤ 1114111 := by
  have h := c.valid
  simp only [UInt32.isValidChar, Nat.isValidChar] at h
  show c.val.toNat ≤ 1114111
  omega

theorem csTop_mem (c : Char) : csTop.mem c = true := by
  have := Char.toNat_le_max c
  simp [csTop, CharSet.mem, this]

theorem CharSet.mem_nil (c : Char) : CharSet.mem [] c = false := rfl

theorem CharSet.mem_cons (r : Nat × Nat) (A : CharSet) (c : Char) :
    CharSet.mem (r :: A) c = ((r.1 ≤ c.toNat && c.toNat ≤ r.2) || CharSet.mem A c) := by
  simp [CharSet.mem]

theorem CharSet.mem_append (A B : CharSet) (c : Char) : CharSet.mem (A ++ B) c = (A.mem c || B.mem c) := by
  simp [CharSet.mem, List.any_append]

/-- `r` minus the range `d` -/
def rngCut (d r : Nat × Nat) : CharSet :=
  (if r.1 < d.1 then [(r.1, min r.2 (d.1 - 1))] else []) ++
  (if d.2 < r.2 then [(max r.1 (d.2 + 1), r.2)] else [])

theorem rngCut_mem (d r : Nat × Nat) (c : Char) :
    CharSet.mem (rngCut d r) c = ((r.1 ≤ c.toNat && c.toNat ≤ r.2) && !(d.1 ≤ c.toNat && c.toNat ≤ d.2)) := by
  unfold rngCut
  rw [CharSet.mem_append]
  by_cases h1 : r.1 < d.1 <;> by_cases h2 : d.2 < r.2 <;>
    simp only [h1, h2, if_true, if_false, CharSet.mem_cons, CharSet.mem_nil, Bool.or_false, Bool.false_or] <;>
    (rw [Bool.eq_iff_iff]; simp only [Bool.and_eq_true, Bool.or_eq_true, Bool.not_eq_true', decide_eq_true_eq,
      Bool.and_eq_false_iff, decide_eq_false_iff_not, Bool.false_eq_true, false_iff]; omega)

/-- remove one range from every range of `A` -/
def CharSet.cut (A : CharSet) (d : Nat × Nat) : CharSet := A.flatMap (rngCut d)

theorem CharSet.mem_cut (A : CharSet) (d : Nat × Nat) (c : Char) :
    CharSet.mem (A.cut d) c = (A.mem c && !(d.1 ≤ c.toNat && c.toNat ≤ d.2)) := by
  induction A with
  | nil => rfl
  | cons r t ih =>
    show CharSet.mem (rngCut d r ++ CharSet.cut t d) c = _
    rw [CharSet.mem_append, rngCut_mem, ih, CharSet.mem_cons]
    cases (decide (r.1 ≤ c.toNat) && decide (c.toNat ≤ r.2)) <;> cases CharSet.mem t c <;> simp

/-- set difference on range lists -/
def CharSet.diff (A D : CharSet) : CharSet := D.foldl CharSet.cut A

theorem CharSet.mem_diff (A D : CharSet) (c : Char) : CharSet.mem (A.diff D) c = (A.mem c && !D.mem c) := by
  unfold CharSet.diff
  induction D generalizing A with
  | nil => simp [CharSet.mem_nil]
  | cons d t ih =>
    rw [List.foldl_cons, ih, CharSet.mem_cut, CharSet.mem_cons]
    cases CharSet.mem A c <;> cases (decide (d.1 ≤ c.toNat) && decide (c.toNat ≤ d.2)) <;> cases CharSet.mem t c <;> rfl

/-- a sufficient test for disjointness -/
def CharSet.disj (A B : CharSet) : Bool :=
  A.all (fun r => B.all (fun q => r.2 < q.1 || q.2 < r.1))

theorem CharSet.disj_sound {A B : CharSet} (h : A.disj B = true) (c : Char) (ha : A.mem c = true) (hb : B.mem c = true) : False := by
  simp only [CharSet.disj, List.all_eq_true, Bool.or_eq_true, decide_eq_true_eq] at h
  simp only [CharSet.mem, List.any_eq_true, Bool.and_eq_true, decide_eq_true_eq] at ha hb
  obtain ⟨r, hr, hr1, hr2⟩ := ha
  obtain ⟨q, hq, hq1, hq2⟩ := hb
  have := h r hr q hq
  omega

/-- a sufficient test for inclusion -/
def CharSet.sub (A D : CharSet) : Bool :=
  A.all (fun r => D.any (fun q => q.1 ≤ r.1 && r.2 ≤ q.2))

theorem CharSet.sub_sound {A D : CharSet} (h : A.sub D = true) (c : Char) (ha : A.mem c = true) : D.mem c = true := by
  simp only [CharSet.sub, List.all_eq_true, List.any_eq_true, Bool.and_eq_true, decide_eq_true_eq] at h
  simp only [CharSet.mem, List.any_eq_true, Bool.and_eq_true, decide_eq_true_eq] at ha ⊢
  obtain ⟨r, hr, hr1, hr2⟩ := ha
  obtain ⟨q, hq, hq1, hq2⟩ := h r hr
  exact ⟨q, hq, by omega, by omega⟩

/-- a set of "next situations": the next character is in `cs`, or (if `eos`) the text ends here -/
structure Look where
  cs : CharSet
  eos : Bool
  deriving Repr, DecidableEq

def Look.top : Look := ⟨csTop, true⟩
def Look.bot : Look := ⟨[], false⟩
def Look.ok (X : Look) : Option Char → Bool
  | none => X.eos
  | some c => X.cs.mem c
def Look.union (X Y : Look) : Look := ⟨X.cs ++ Y.cs, X.eos || Y.eos⟩
def Look.minus (X : Look) (D : CharSet) : Look := ⟨X.cs.diff D, X.eos⟩
def Look.disj (X Y : Look) : Bool := X.cs.disj Y.cs && !(X.eos && Y.eos)

theorem Look.top_ok (o : Option Char) : Look.top.ok o = true := by
  cases o with
  | none => rfl
  | some c => exact csTop_mem c

theorem Look.bot_ok (o : Option Char) : Look.bot.ok o = false := by
  cases o <;> rfl

theorem Look.union_ok (X Y : Look) (o : Option Char) : (X.union Y).ok o = (X.ok o || Y.ok o) := by
  cases o with
  | none => rfl
  | some c => exact CharSet.mem_append _ _ c

theorem Look.minus_ok_some (X : Look) (D : CharSet) (c : Char) : (X.minus D).ok (some c) = (X.ok (some c) && !D.mem c) :=
  CharSet.mem_diff _ _ c

theorem Look.minus_ok_none (X : Look) (D : CharSet) : (X.minus D).ok none = X.ok none := rfl

theorem Look.disj_sound {X Y : Look} (h : X.disj Y = true) (o : Option Char) (hx : X.ok o = true) (hy : Y.ok o = true) : False := by
  simp only [Look.disj, Bool.and_eq_true, Bool.not_eq_true', Bool.and_eq_false_iff] at h
  cases o with
  | none =>
    simp only [Look.ok] at hx hy
    rcases h.2 with h2 | h2 <;> simp_all
  | some c => exact CharSet.disj_sound h.1 c hx hy

/-! ## Part B — structure of `Rx.all` -/

/-- the next character, `none` at the end of the text -/
def St.next (s : St) : Option Char := s.rest.head?

/-- equal up to captures -/
def St.sim (s t : St) : Prop := s.prev = t.prev ∧ s.rest = t.rest ∧ s.pos = t.pos

theorem St.sim.refl (s : St) : St.sim s s := ⟨rfl, rfl, rfl⟩
theorem St.sim.symm {s t : St} (h : St.sim s t) : St.sim t s := ⟨h.1.symm, h.2.1.symm, h.2.2.symm⟩
theorem St.sim.trans {s t u : St} (h : St.sim s t) (h' : St.sim t u) : St.sim s u :=
  ⟨h.1.trans h'.1, h.2.1.trans h'.2.1, h.2.2.trans h'.2.2⟩
theorem St.sim.next {s t : St} (h : St.sim s t) : s.next = t.next := by unfold St.next; rw [h.2.1]
theorem St.sim_caps (s : St) (cs : List (Nat × Nat × Nat)) : St.sim { s with caps := cs } s := ⟨rfl, rfl, rfl⟩

/-- `f` and `g` produce the same results up to captures -/
def SimFun (f g : St → List St) : Prop := ∀ s t, St.sim s t → ∀ s' ∈ f s, ∃ t' ∈ g t, St.sim s' t'

theorem repAll_sim (body : St → List St) (hb : SimFun body body) (lo : Nat) (hi : Option Nat) :
    ∀ (fuel count : Nat) (last : Option Nat), SimFun (repAll body lo hi fuel count last) (repAll body lo hi fuel count last) := by
  intro fuel
  induction fuel with
  | zero => intro count last s t _ s' h; simp [repAll] at h
  | succ n ih =>
    intro count last s t hst s' h
    rw [repAll.eq_def] at h ⊢
    simp only [] at h ⊢
    rw [← hst.2.2]
    by_cases hc : count < lo
    · rw [if_pos hc] at h ⊢
      rw [List.mem_flatMap] at h
      obtain ⟨s1, h1, h2⟩ := h
      obtain ⟨t1, ht1, hs1⟩ := hb s t hst s1 h1
      obtain ⟨t', ht', hs'⟩ := ih _ _ s1 t1 hs1 s' h2
      exact ⟨t', List.mem_flatMap.2 ⟨t1, ht1, ht'⟩, hs'⟩
    · rw [if_neg hc] at h ⊢
      by_cases hg : (canMore hi count && last != some s.pos) = true
      · rw [if_pos hg] at h ⊢
        rw [List.mem_append, List.mem_flatMap] at h
        rcases h with ⟨s1, h1, h2⟩ | h
        · obtain ⟨t1, ht1, hs1⟩ := hb s t hst s1 h1
          obtain ⟨t', ht', hs'⟩ := ih _ _ s1 t1 hs1 s' h2
          exact ⟨t', List.mem_append_left _ (List.mem_flatMap.2 ⟨t1, ht1, ht'⟩), hs'⟩
        · rw [List.mem_singleton] at h; subst h
          exact ⟨t, List.mem_append_right _ (List.mem_singleton.2 rfl), hst⟩
      · rw [if_neg hg] at h ⊢
        rw [List.mem_singleton] at h; subst h
        exact ⟨t, List.mem_singleton.2 rfl, hst⟩

/-- captures never influence which results exist -/
theorem Rx.all_sim (r : Rx) : SimFun r.all r.all := by
  induction r with
  | eps => intro s t h s' hs'; simp only [Rx.all, List.mem_singleton] at hs' ⊢; subst hs'; exact ⟨t, rfl, h⟩
  | fail => intro s t h s' hs'; simp [Rx.all] at hs'
  | chr cs =>
    intro s t h s' hs'
    simp only [Rx.all] at hs' ⊢
    rw [← h.2.1]
    split at hs'
    · rename_i c tl hrest
      split at hs'
      · rename_i hc
        rw [List.mem_singleton] at hs'; subst hs'
        simp only [hc, if_true]
        exact ⟨_, List.mem_singleton.2 rfl, rfl, rfl, by simp [h.2.2]⟩
      · simp at hs'
    · simp at hs'
  | seq a b iha ihb =>
    intro s t h s' hs'
    simp only [Rx.all, List.mem_flatMap] at hs' ⊢
    obtain ⟨s1, h1, h2⟩ := hs'
    obtain ⟨t1, ht1, hs1⟩ := iha s t h s1 h1
    obtain ⟨t', ht', hs'⟩ := ihb s1 t1 hs1 s' h2
    exact ⟨t', ⟨t1, ht1, ht'⟩, hs'⟩
  | alt a b iha ihb =>
    intro s t h s' hs'
    simp only [Rx.all, List.mem_append] at hs' ⊢
    rcases hs' with h1 | h1
    · obtain ⟨t', ht', hs'⟩ := iha s t h s' h1; exact ⟨t', Or.inl ht', hs'⟩
    · obtain ⟨t', ht', hs'⟩ := ihb s t h s' h1; exact ⟨t', Or.inr ht', hs'⟩
  | rep r lo hi ih =>
    intro s t h s' hs'
    simp only [Rx.all] at hs' ⊢
    rw [← h.2.1]
    exact repAll_sim r.all ih lo hi _ _ _ s t h s' hs'
  | grp i r ih =>
    intro s t h s' hs'
    simp only [Rx.all, List.mem_map] at hs' ⊢
    obtain ⟨s1, h1, h2⟩ := hs'
    obtain ⟨t1, ht1, hs1⟩ := ih s t h s1 h1
    subst h2
    exact ⟨_, ⟨t1, ht1, rfl⟩, hs1.1, hs1.2.1, hs1.2.2⟩
  | ahead r ih =>
    intro s t h s' hs'
    simp only [Rx.all] at hs' ⊢
    split at hs'
    · rename_i s1 tl heq
      rw [List.mem_singleton] at hs'; subst hs'
      obtain ⟨t1, ht1, _⟩ := ih s t h s1 (by rw [heq]; exact List.mem_cons_self ..)
      split
      · exact ⟨_, List.mem_singleton.2 rfl, h.1, h.2.1, h.2.2⟩
      · rename_i hnil; rw [hnil] at ht1; simp at ht1
    · simp at hs'
  | nahead r ih =>
    intro s t h s' hs'
    simp only [Rx.all] at hs' ⊢
    split at hs'
    · simp at hs'
    · rename_i hnil
      rw [List.mem_singleton] at hs'; subst hs'
      split
      · rename_i t1 tl heq
        obtain ⟨s1, hs1, _⟩ := ih t s' h.symm t1 (by rw [heq]; exact List.mem_cons_self ..)
        rw [hnil] at hs1; simp at hs1
      · exact ⟨t, List.mem_singleton.2 rfl, h⟩
  | behind cs =>
    intro s t h s' hs'
    simp only [Rx.all] at hs' ⊢
    rw [← h.1]
    split at hs'
    · split at hs'
      · rename_i hc
        rw [List.mem_singleton] at hs'; subst hs'
        simp only [hc, if_true]
        exact ⟨t, List.mem_singleton.2 rfl, h⟩
      · simp at hs'
    · simp at hs'
  | wordb w =>
    intro s t h s' hs'
    simp only [Rx.all] at hs' ⊢
    rw [← h.1, ← h.2.1]
    split at hs'
    · rename_i hc
      rw [List.mem_singleton] at hs'; subst hs'
      simp only [hc, if_true]
      exact ⟨t, List.mem_singleton.2 rfl, h⟩
    · simp at hs'
  | eos =>
    intro s t h s' hs'
    simp only [Rx.all] at hs' ⊢
    rw [← h.2.1]
    split at hs'
    · rw [List.mem_singleton] at hs'; subst hs'
      exact ⟨t, List.mem_singleton.2 rfl, h⟩
    · split at hs'
      · rename_i hc
        rw [List.mem_singleton] at hs'; subst hs'
        simp only [hc, if_true]
        exact ⟨t, List.mem_singleton.2 rfl, h⟩
      · simp at hs'
    · simp at hs'
  | bos =>
    intro s t h s' hs'
    simp only [Rx.all] at hs' ⊢
    rw [← h.2.2]
    split at hs'
    · rename_i hc
      rw [List.mem_singleton] at hs'; subst hs'
      simp only [hc, if_true]
      exact ⟨t, List.mem_singleton.2 rfl, h⟩
    · simp at hs'

/-! ### the loop: one step -/

/-- a result of the loop is the start state itself, or a result of the loop continued after one iteration -/
theorem mem_repAll_cases (body : St → List St) (lo : Nat) (hi : Option Nat) (fuel count : Nat) (last : Option Nat)
    (s s' : St) (h : s' ∈ repAll body lo hi fuel count last s) :
    (s' = s ∧ lo ≤ count) ∨ ∃ s1 ∈ body s, ∃ f l, s' ∈ repAll body lo hi f (count + 1) l s1 := by
  cases fuel with
  | zero => simp [repAll] at h
  | succ n =>
    rw [repAll.eq_def] at h
    simp only [] at h
    by_cases hc : count < lo
    · rw [if_pos hc, List.mem_flatMap] at h
      obtain ⟨s1, h1, h2⟩ := h
      exact Or.inr ⟨s1, h1, _, _, h2⟩
    · rw [if_neg hc] at h
      split at h
      · rw [List.mem_append, List.mem_flatMap] at h
        rcases h with ⟨s1, h1, h2⟩ | h
        · exact Or.inr ⟨s1, h1, _, _, h2⟩
        · rw [List.mem_singleton] at h; exact Or.inl ⟨h, by omega⟩
      · rw [List.mem_singleton] at h; exact Or.inl ⟨h, by omega⟩

/-- a state from which the body cannot match is a leaf -/
theorem repAll_leaf (body : St → List St) (lo : Nat) (hi : Option Nat) (fuel count : Nat) (last : Option Nat)
    (s : St) (hb : body s = []) : ∀ s' ∈ repAll body lo hi fuel count last s, s' = s := by
  intro s' h
  rcases mem_repAll_cases body lo hi fuel count last s s' h with h | ⟨s1, h1, _⟩
  · exact h.1
  · rw [hb] at h1; simp at h1

/-- `r?` -/
theorem Rx.all_opt (r : Rx) (s : St) : (Rx.rep r 0 (some 1)).all s = r.all s ++ [s] := by
  simp only [Rx.all]
  rw [show s.rest.length + 0 + 2 = (s.rest.length + 1) + 1 from rfl, repAll.eq_def]
  simp only [Nat.lt_irrefl, if_false, canMore]
  have : ∀ s', repAll r.all 0 (some 1) (s.rest.length + 1) (0 + 1) (some s.pos) s' = [s'] := by
    intro s'
    rw [repAll.eq_def]
    simp [canMore]
  simp [this]

theorem Rx.all_rep_zero (r : Rx) (s : St) : (Rx.rep r 0 (some 0)).all s = [s] := by
  simp only [Rx.all]
  rw [show s.rest.length + 0 + 2 = (s.rest.length + 1) + 1 from rfl, repAll.eq_def]
  simp [canMore]

/-! ### what the next character must be: `first` -/

def Rx.chrOf : Rx → Option CharSet
  | .chr cs => some cs
  | _ => none

theorem Rx.chrOf_eq {r : Rx} {cs : CharSet} (h : r.chrOf = some cs) : r = .chr cs := by
  cases r <;> simp [Rx.chrOf] at h
  rw [h]

/-- `r.first X`: the situations (next character / end of text) in which `r` can have a result that is followed by
    a situation in `X` (an over-approximation). -/
def Rx.first : Rx → Look → Look
  | .eps, X => X
  | .fail, _ => .bot
  | .chr cs, _ => ⟨cs, false⟩
  | .seq a b, X => a.first (b.first X)
  | .alt a b, X => (a.first X).union (b.first X)
  | .rep r lo _, X =>
    let Y := (r.first .top).union X
    if lo = 0 then Y else r.first Y
  | .grp _ r, X => r.first X
  | .nahead r, X =>
    match r.chrOf with
    | some cs => X.minus cs
    | none => X
  | .ahead _, X | .behind _, X | .wordb _, X | .eos, X | .bos, X => X

/-- `r` has a result from `s` that is followed by a situation in `X` -/
def AccR (r : Rx) (X : Look) (s : St) : Prop := ∃ s' ∈ r.all s, X.ok s'.next = true

theorem Rx.first_sound (r : Rx) : ∀ (X : Look) (s : St), AccR r X s → (r.first X).ok s.next = true := by
  induction r with
  | eps => intro X s ⟨s', h, hx⟩; simp only [Rx.all, List.mem_singleton] at h; subst h; exact hx
  | fail => intro X s ⟨s', h, _⟩; simp [Rx.all] at h
  | chr cs =>
    intro X s ⟨s', h, _⟩
    simp only [Rx.all] at h
    split at h
    · rename_i c tl hrest
      split at h
      · rename_i hc
        simp only [Rx.first, St.next, hrest, List.head?_cons, Look.ok]
        exact hc
      · simp at h
    · simp at h
  | seq a b iha ihb =>
    intro X s ⟨s', h, hx⟩
    simp only [Rx.all, List.mem_flatMap] at h
    obtain ⟨s1, h1, h2⟩ := h
    exact iha _ s ⟨s1, h1, ihb X s1 ⟨s', h2, hx⟩⟩
  | alt a b iha ihb =>
    intro X s ⟨s', h, hx⟩
    simp only [Rx.all, List.mem_append] at h
    simp only [Rx.first, Look.union_ok, Bool.or_eq_true]
    rcases h with h | h
    · exact Or.inl (iha X s ⟨s', h, hx⟩)
    · exact Or.inr (ihb X s ⟨s', h, hx⟩)
  | rep r lo hi ih =>
    intro X s ⟨s', h, hx⟩
    simp only [Rx.all] at h
    simp only [Rx.first]
    rcases mem_repAll_cases _ _ _ _ _ _ _ _ h with ⟨h0, hlo⟩ | ⟨s1, h1, f, l, h2⟩
    · subst h0
      have : lo = 0 := by omega
      simp only [this, if_true, Look.union_ok, hx, Bool.or_true]
    · have hY : ((r.first .top).union X).ok s1.next = true := by
        rw [Look.union_ok, Bool.or_eq_true]
        rcases mem_repAll_cases _ _ _ _ _ _ _ _ h2 with ⟨h0, _⟩ | ⟨s2, h3, _⟩
        · subst h0; exact Or.inr hx
        · exact Or.inl (ih _ s1 ⟨s2, h3, Look.top_ok _⟩)
      split
      · rw [Look.union_ok, Bool.or_eq_true]
        exact Or.inl (ih _ s ⟨s1, h1, Look.top_ok _⟩)
      · exact ih _ s ⟨s1, h1, hY⟩
  | grp i r ih =>
    intro X s ⟨s', h, hx⟩
    simp only [Rx.all, List.mem_map] at h
    obtain ⟨s1, h1, h2⟩ := h
    subst h2
    exact ih X s ⟨s1, h1, hx⟩
  | ahead r _ =>
    intro X s ⟨s', h, hx⟩
    simp only [Rx.all] at h
    split at h
    · rw [List.mem_singleton] at h; subst h; exact hx
    · simp at h
  | nahead r _ =>
    intro X s ⟨s', h, hx⟩
    simp only [Rx.all] at h
    split at h
    · simp at h
    · rename_i hnil
      rw [List.mem_singleton] at h; subst h
      simp only [Rx.first]
      split
      · rename_i cs hcs
        have := Rx.chrOf_eq hcs
        subst this
        cases hn : s'.next with
        | none => rw [hn] at hx; exact hx
        | some c =>
          rw [hn] at hx
          rw [Look.minus_ok_some, hx, Bool.true_and, Bool.not_eq_true']
          simp only [Rx.all] at hnil
          simp only [St.next] at hn
          cases hrest : s'.rest with
          | nil => rw [hrest] at hn; simp at hn
          | cons c' tl =>
            rw [hrest] at hn hnil
            simp only [List.head?_cons, Option.some.injEq] at hn
            subst hn
            simp only [] at hnil
            by_cases hc : cs.mem c' = true
            · simp [hc] at hnil
            · simpa using hc
      · exact hx
  | behind cs =>
    intro X s ⟨s', h, hx⟩
    simp only [Rx.all] at h
    split at h
    · split at h
      · rw [List.mem_singleton] at h; subst h; exact hx
      · simp at h
    · simp at h
  | wordb w =>
    intro X s ⟨s', h, hx⟩
    simp only [Rx.all] at h
    split at h
    · rw [List.mem_singleton] at h; subst h; exact hx
    · simp at h
  | eos =>
    intro X s ⟨s', h, hx⟩
    simp only [Rx.all] at h
    split at h
    · rw [List.mem_singleton] at h; subst h; exact hx
    · split at h
      · rw [List.mem_singleton] at h; subst h; exact hx
      · simp at h
    · simp at h
  | bos =>
    intro X s ⟨s', h, hx⟩
    simp only [Rx.all] at h
    split at h
    · rw [List.mem_singleton] at h; subst h; exact hx
    · simp at h

/-- if the next situation is not in `first r ⊤`, `r` has no result at all -/
theorem Rx.all_eq_nil_of_first (r : Rx) (s : St) (h : (r.first .top).ok s.next = false) : r.all s = [] := by
  cases hl : r.all s with
  | nil => rfl
  | cons s' tl =>
    have := r.first_sound .top s ⟨s', by rw [hl]; exact List.mem_cons_self .., Look.top_ok _⟩
    rw [h] at this; cases this

/-! ### what the next character cannot be after a match: `postD` -/

/-- the next character (if any) is not in `D` -/
def Deny (D : CharSet) (s : St) : Prop := ∀ c, s.next = some c → D.mem c = false

theorem Deny.nil (s : St) : Deny [] s := fun _ _ => rfl

theorem Deny.chr_nil {D cs : CharSet} {s : St} (h : Deny D s) (hsub : cs.sub D = true) : (Rx.chr cs).all s = [] := by
  simp only [Rx.all]
  cases hrest : s.rest with
  | nil => rfl
  | cons c tl =>
    simp only []
    have := h c (by simp [St.next, hrest])
    by_cases hc : cs.mem c = true
    · rw [CharSet.sub_sound hsub c hc] at this; cases this
    · simp [hc]

/-- characters that cannot follow a match of `r`, when the characters in `D` could not follow its start
    (`r` ends with a negative look-ahead, or `r` cannot consume anything because of `D`) -/
def Rx.postD : Rx → CharSet → CharSet
  | .nahead r, D => match r.chrOf with
    | some cs => cs ++ D
    | none => D
  | .chr _, _ => []
  | .seq a b, D => b.postD (a.postD D)
  | .grp _ r, D => r.postD D
  | .alt a b, D => if a.postD D = b.postD D then a.postD D else []
  | .rep r lo _, D =>
    match r.chrOf with
    | some cs => if lo = 0 ∧ cs.sub D = true then D else []
    | none => if lo = 0 then [] else r.postD []
  | _, D => D

theorem repAll_post (body : St → List St) (D : CharSet)
    (hb : ∀ s s', s' ∈ body s → Deny D s') (lo : Nat) (hi : Option Nat) :
    ∀ (fuel count : Nat) (last : Option Nat) (s s' : St), s' ∈ repAll body lo hi fuel count last s →
      s' = s ∨ Deny D s' := by
  intro fuel
  induction fuel with
  | zero => intro count last s s' h; simp [repAll] at h
  | succ n ih =>
    intro count last s s' h
    rw [repAll.eq_def] at h
    simp only [] at h
    have step : ∀ l, s' ∈ (body s).flatMap (fun s1 => repAll body lo hi n (count + 1) l s1) → Deny D s' := by
      intro l hm
      rw [List.mem_flatMap] at hm
      obtain ⟨s1, h1, h2⟩ := hm
      rcases ih _ _ _ _ h2 with h0 | h0
      · subst h0; exact hb s s' h1
      · exact h0
    split at h
    · exact Or.inr (step _ h)
    · split at h
      · rw [List.mem_append] at h
        rcases h with h | h
        · exact Or.inr (step _ h)
        · rw [List.mem_singleton] at h; exact Or.inl h
      · rw [List.mem_singleton] at h; exact Or.inl h

theorem Rx.postD_sound (r : Rx) : ∀ (D : CharSet) (s s' : St), s' ∈ r.all s → Deny D s → Deny (r.postD D) s' := by
  induction r with
  | seq a b iha ihb =>
    intro D s s' h hD
    simp only [Rx.all, List.mem_flatMap] at h
    obtain ⟨s1, h1, h2⟩ := h
    exact ihb _ s1 s' h2 (iha D s s1 h1 hD)
  | alt a b iha ihb =>
    intro D s s' h hD
    simp only [Rx.all, List.mem_append] at h
    simp only [Rx.postD]
    split
    · rename_i heq
      rcases h with h | h
      · exact iha D s s' h hD
      · rw [heq]; exact ihb D s s' h hD
    · exact Deny.nil _
  | rep r lo hi ih =>
    intro D s s' h hD
    simp only [Rx.postD]
    split
    · rename_i cs hcs
      have := Rx.chrOf_eq hcs
      subst this
      split
      · rename_i hc
        have hnil := hD.chr_nil hc.2
        have := repAll_leaf (Rx.chr cs).all lo hi _ _ _ s hnil s' h
        subst this
        exact hD
      · exact Deny.nil _
    · split
      · exact Deny.nil _
      · rename_i hlo
        rcases mem_repAll_cases _ _ _ _ _ _ _ _ h with ⟨_, h0⟩ | ⟨s1, h1, f, l, h2⟩
        · omega
        · rcases repAll_post r.all (r.postD []) (fun a b hab => ih [] a b hab (Deny.nil _)) lo hi _ _ _ _ _ h2 with h0 | h0
          · subst h0; exact ih [] s s' h1 (Deny.nil _)
          · exact h0
  | grp i r ih =>
    intro D s s' h hD
    simp only [Rx.all, List.mem_map] at h
    obtain ⟨s1, h1, h2⟩ := h
    subst h2
    exact ih D s s1 h1 hD
  | nahead r _ =>
    intro D s s' h hD
    simp only [Rx.all] at h
    simp only [Rx.postD]
    split at h
    · simp at h
    · rename_i hnil
      rw [List.mem_singleton] at h; subst h
      split
      · rename_i cs hcs
        have := Rx.chrOf_eq hcs
        subst this
        intro c hc
        rw [CharSet.mem_append, hD c hc, Bool.or_false]
        simp only [Rx.all] at hnil
        simp only [St.next] at hc
        cases hrest : s'.rest with
        | nil => rw [hrest] at hc; simp at hc
        | cons c' tl =>
          rw [hrest] at hc hnil
          simp only [List.head?_cons, Option.some.injEq] at hc
          subst hc
          simp only [] at hnil
          by_cases hm : cs.mem c' = true
          · simp [hm] at hnil
          · simpa using hm
      · exact hD
  | chr cs => intro D s s' _ _; exact Deny.nil _
  | eps => intro D s s' h hD; simp only [Rx.all, List.mem_singleton] at h; subst h; exact hD
  | fail => intro D s s' h _; simp [Rx.all] at h
  | ahead r _ =>
    intro D s s' h hD
    simp only [Rx.all] at h
    split at h
    · rw [List.mem_singleton] at h; subst h; exact hD
    · simp at h
  | behind cs =>
    intro D s s' h hD
    simp only [Rx.all] at h
    split at h
    · split at h
      · rw [List.mem_singleton] at h; subst h; exact hD
      · simp at h
    · simp at h
  | wordb w =>
    intro D s s' h hD
    simp only [Rx.all] at h
    split at h
    · rw [List.mem_singleton] at h; subst h; exact hD
    · simp at h
  | eos =>
    intro D s s' h hD
    simp only [Rx.all] at h
    split at h
    · rw [List.mem_singleton] at h; subst h; exact hD
    · split at h
      · rw [List.mem_singleton] at h; subst h; exact hD
      · simp at h
    · simp at h
  | bos =>
    intro D s s' h hD
    simp only [Rx.all] at h
    split at h
    · rw [List.mem_singleton] at h; subst h; exact hD
    · simp at h

/-! ## Part C — mutual exclusion of alternatives (lock-step comparison of two continuations) -/

/-- all results of a stack of patterns matched in sequence -/
def allK : List Rx → St → List St
  | [], s => [s]
  | r :: K, s => (r.all s).flatMap (allK K)

def AccK (K : List Rx) (X : Look) (s : St) : Prop := ∃ s' ∈ allK K s, X.ok s'.next = true

def firstK (K : List Rx) (X : Look) : Look := K.foldr (fun r acc => r.first acc) X

theorem allK_sim (K : List Rx) : SimFun (allK K) (allK K) := by
  induction K with
  | nil => intro s t h s' hs'; simp only [allK, List.mem_singleton] at hs' ⊢; subst hs'; exact ⟨t, rfl, h⟩
  | cons r K ih =>
    intro s t h s' hs'
    simp only [allK, List.mem_flatMap] at hs' ⊢
    obtain ⟨s1, h1, h2⟩ := hs'
    obtain ⟨t1, ht1, hs1⟩ := r.all_sim s t h s1 h1
    obtain ⟨t', ht', hs'⟩ := ih s1 t1 hs1 s' h2
    exact ⟨t', ⟨t1, ht1, ht'⟩, hs'⟩

theorem AccK.sim {K : List Rx} {X : Look} {s t : St} (h : St.sim s t) (ha : AccK K X s) : AccK K X t := by
  obtain ⟨s', hs', hx⟩ := ha
  obtain ⟨t', ht', hst⟩ := allK_sim K s t h s' hs'
  exact ⟨t', ht', by rw [← hst.next]; exact hx⟩

theorem AccK_cons {r : Rx} {K : List Rx} {X : Look} {s : St} : AccK (r :: K) X s ↔ ∃ s1 ∈ r.all s, AccK K X s1 := by
  simp only [AccK, allK, List.mem_flatMap]
  constructor
  · rintro ⟨s', ⟨s1, h1, h2⟩, hx⟩; exact ⟨s1, h1, s', h2, hx⟩
  · rintro ⟨s1, h1, s', h2, hx⟩; exact ⟨s', ⟨s1, h1, h2⟩, hx⟩

theorem AccK_nil {X : Look} {s : St} : AccK [] X s ↔ X.ok s.next = true := by
  simp [AccK, allK]

theorem AccK_single {r : Rx} {X : Look} {s : St} : AccK [r] X s ↔ AccR r X s := by
  rw [AccK_cons]
  simp only [AccK_nil, AccR]

theorem firstK_sound (K : List Rx) (X : Look) : ∀ s, AccK K X s → (firstK K X).ok s.next = true := by
  induction K with
  | nil => intro s h; exact AccK_nil.1 h
  | cons r K ih =>
    intro s h
    obtain ⟨s1, h1, h2⟩ := AccK_cons.1 h
    exact r.first_sound _ s ⟨s1, h1, ih s1 h2⟩

/-! ### loops over one character class: shifting the counters, fuel -/

def predHi : Option Nat → Option Nat
  | none => none
  | some h => some (h - 1)

theorem repAll_shift (body : St → List St) (lo : Nat) (hi : Option Nat) :
    ∀ (fuel count : Nat) (last : Option Nat) (s : St),
      repAll body (lo + 1) hi fuel (count + 1) last s = repAll body lo (predHi hi) fuel count last s := by
  intro fuel
  induction fuel with
  | zero => intro count last s; rfl
  | succ n ih =>
    intro count last s
    conv => lhs; rw [repAll.eq_def]
    conv => rhs; rw [repAll.eq_def]
    simp only []
    have hcm : canMore hi (count + 1) = canMore (predHi hi) count := by
      cases hi with
      | none => rfl
      | some h => simp only [canMore, predHi]; rw [Bool.eq_iff_iff]; simp only [decide_eq_true_eq]; omega
    by_cases hc : count < lo
    · have hc' : count + 1 < lo + 1 := by omega
      rw [if_pos hc, if_pos hc']
      congr 1; funext s1; exact ih _ _ _
    · have hc' : ¬ count + 1 < lo + 1 := by omega
      rw [if_neg hc, if_neg hc', hcm]
      split
      · congr 2; funext s1; exact ih _ _ _
      · rfl

theorem repAll_chr_fuel (cs : CharSet) (lo : Nat) (hi : Option Nat) :
    ∀ (fuel count : Nat) (last : Option Nat) (s : St), s.rest.length + (lo - count) + 1 ≤ fuel →
      repAll (Rx.chr cs).all lo hi (fuel + 1) count last s = repAll (Rx.chr cs).all lo hi fuel count last s := by
  intro fuel
  induction fuel with
  | zero => intro count last s h; omega
  | succ n ih =>
    intro count last s h
    conv => lhs; rw [repAll.eq_def]
    conv => rhs; rw [repAll.eq_def]
    simp only []
    rcases chr_all_cases cs s with h0 | ⟨s1, h1, hlen⟩
    · rw [h0]; simp only [List.flatMap_nil]
    · rw [h1]
      by_cases hc : count < lo
      · rw [if_pos hc, if_pos hc]
        simp only [List.flatMap_cons, List.flatMap_nil, List.append_nil]
        exact ih _ _ _ (by omega)
      · rw [if_neg hc, if_neg hc]
        split
        · simp only [List.flatMap_cons, List.flatMap_nil, List.append_nil]
          rw [ih _ _ _ (by omega)]
        · rfl

/-- unrolling one mandatory iteration of a loop over a character class -/
theorem rep_chr_unroll (cs : CharSet) (lo : Nat) (hi : Option Nat) (s : St) :
    (Rx.rep (.chr cs) (lo + 1) hi).all s = ((Rx.chr cs).all s).flatMap (Rx.rep (.chr cs) lo (predHi hi)).all := by
  simp only [Rx.all]
  rw [show s.rest.length + (lo + 1) + 2 = (s.rest.length + lo + 2) + 1 from by omega, repAll.eq_def]
  simp only [Nat.zero_lt_succ, if_true]
  rcases chr_all_cases cs s with h0 | ⟨s1, h1, hlen⟩
  · simp only [Rx.all] at h0; rw [h0]; rfl
  · simp only [Rx.all] at h1; rw [h1]
    simp only [List.flatMap_cons, List.flatMap_nil, List.append_nil]
    rw [repAll_shift]
    have : s.rest.length + lo + 2 = (s1.rest.length + lo + 2) + 1 := by omega
    rw [this]
    exact repAll_chr_fuel cs lo _ _ _ _ _ (by omega)

/-! ### head expansion -/

/-- zero-width expansion of the head of a stack into alternatives -/
def expandK : List Rx → Option (List (List Rx))
  | [] => none
  | .seq a b :: K => some [a :: b :: K]
  | .grp _ r :: K => some [r :: K]
  | .alt a b :: K => some [a :: K, b :: K]
  | .eps :: K => some [K]
  | .fail :: _ => some []
  | .nahead _ :: K => some [K]
  | .ahead _ :: K => some [K]
  | .behind _ :: K => some [K]
  | .wordb _ :: K => some [K]
  | .bos :: K => some [K]
  | .eos :: K => some [K]
  | .chr _ :: _ => none
  | .rep r lo hi :: K =>
    match lo with
    | 0 => if hi = some 0 then some [K] else if hi = some 1 then some [r :: K, K] else none
    | lo' + 1 =>
      match r.chrOf with
      | some cs => some [.chr cs :: .rep (.chr cs) lo' (predHi hi) :: K]
      | none => none

theorem AccK_of_sub {r : Rx} {K : List Rx} {X : Look} {s : St}
    (hsub : ∀ s' ∈ r.all s, St.sim s' s) (h : AccK (r :: K) X s) : AccK K X s := by
  obtain ⟨s1, h1, h2⟩ := AccK_cons.1 h
  exact h2.sim (hsub s1 h1)

theorem expandK_sound (K : List Rx) (L : List (List Rx)) (X : Look) (s : St) (he : expandK K = some L)
    (h : AccK K X s) : ∃ K' ∈ L, AccK K' X s := by
  match K, he with
  | .seq a b :: K, he =>
    simp only [expandK, Option.some.injEq] at he; subst he
    refine ⟨_, List.mem_singleton.2 rfl, ?_⟩
    obtain ⟨s1, h1, h2⟩ := AccK_cons.1 h
    simp only [Rx.all, List.mem_flatMap] at h1
    obtain ⟨s0, h0, h1⟩ := h1
    exact AccK_cons.2 ⟨s0, h0, AccK_cons.2 ⟨s1, h1, h2⟩⟩
  | .grp i r :: K, he =>
    simp only [expandK, Option.some.injEq] at he; subst he
    refine ⟨_, List.mem_singleton.2 rfl, ?_⟩
    obtain ⟨s1, h1, h2⟩ := AccK_cons.1 h
    simp only [Rx.all, List.mem_map] at h1
    obtain ⟨s0, h0, h1⟩ := h1
    subst h1
    exact AccK_cons.2 ⟨s0, h0, h2.sim (St.sim_caps _ _)⟩
  | .alt a b :: K, he =>
    simp only [expandK, Option.some.injEq] at he; subst he
    obtain ⟨s1, h1, h2⟩ := AccK_cons.1 h
    simp only [Rx.all, List.mem_append] at h1
    rcases h1 with h1 | h1
    · exact ⟨_, List.mem_cons_self .., AccK_cons.2 ⟨s1, h1, h2⟩⟩
    · exact ⟨_, List.mem_cons_of_mem _ (List.mem_singleton.2 rfl), AccK_cons.2 ⟨s1, h1, h2⟩⟩
  | .eps :: K, he =>
    simp only [expandK, Option.some.injEq] at he; subst he
    refine ⟨_, List.mem_singleton.2 rfl, AccK_of_sub ?_ h⟩
    intro s' hs'; simp only [Rx.all, List.mem_singleton] at hs'; subst hs'; exact St.sim.refl _
  | .fail :: K, he =>
    obtain ⟨s1, h1, _⟩ := AccK_cons.1 h
    simp [Rx.all] at h1
  | .nahead r :: K, he =>
    simp only [expandK, Option.some.injEq] at he; subst he
    refine ⟨_, List.mem_singleton.2 rfl, AccK_of_sub ?_ h⟩
    intro s' hs'; simp only [Rx.all] at hs'
    split at hs'
    · simp at hs'
    · rw [List.mem_singleton] at hs'; subst hs'; exact St.sim.refl _
  | .ahead r :: K, he =>
    simp only [expandK, Option.some.injEq] at he; subst he
    refine ⟨_, List.mem_singleton.2 rfl, AccK_of_sub ?_ h⟩
    intro s' hs'; simp only [Rx.all] at hs'
    split at hs'
    · rw [List.mem_singleton] at hs'; subst hs'; exact St.sim_caps _ _
    · simp at hs'
  | .behind cs :: K, he =>
    simp only [expandK, Option.some.injEq] at he; subst he
    refine ⟨_, List.mem_singleton.2 rfl, AccK_of_sub ?_ h⟩
    intro s' hs'; simp only [Rx.all] at hs'
    split at hs'
    · split at hs'
      · rw [List.mem_singleton] at hs'; subst hs'; exact St.sim.refl _
      · simp at hs'
    · simp at hs'
  | .wordb w :: K, he =>
    simp only [expandK, Option.some.injEq] at he; subst he
    refine ⟨_, List.mem_singleton.2 rfl, AccK_of_sub ?_ h⟩
    intro s' hs'; simp only [Rx.all] at hs'
    split at hs'
    · rw [List.mem_singleton] at hs'; subst hs'; exact St.sim.refl _
    · simp at hs'
  | .bos :: K, he =>
    simp only [expandK, Option.some.injEq] at he; subst he
    refine ⟨_, List.mem_singleton.2 rfl, AccK_of_sub ?_ h⟩
    intro s' hs'; simp only [Rx.all] at hs'
    split at hs'
    · rw [List.mem_singleton] at hs'; subst hs'; exact St.sim.refl _
    · simp at hs'
  | .eos :: K, he =>
    simp only [expandK, Option.some.injEq] at he; subst he
    refine ⟨_, List.mem_singleton.2 rfl, AccK_of_sub ?_ h⟩
    intro s' hs'; simp only [Rx.all] at hs'
    split at hs'
    · rw [List.mem_singleton] at hs'; subst hs'; exact St.sim.refl _
    · split at hs'
      · rw [List.mem_singleton] at hs'; subst hs'; exact St.sim.refl _
      · simp at hs'
    · simp at hs'
  | .rep r 0 hi :: K, he =>
    simp only [expandK] at he
    split at he
    · rename_i h0
      simp only [Option.some.injEq] at he; subst he; subst h0
      refine ⟨_, List.mem_singleton.2 rfl, AccK_of_sub ?_ h⟩
      intro s' hs'; rw [Rx.all_rep_zero, List.mem_singleton] at hs'; subst hs'; exact St.sim.refl _
    · split at he
      · rename_i h1
        simp only [Option.some.injEq] at he; subst he; subst h1
        obtain ⟨s1, h1, h2⟩ := AccK_cons.1 h
        rw [Rx.all_opt, List.mem_append, List.mem_singleton] at h1
        rcases h1 with h1 | h1
        · exact ⟨_, List.mem_cons_self .., AccK_cons.2 ⟨s1, h1, h2⟩⟩
        · subst h1; exact ⟨_, List.mem_cons_of_mem _ (List.mem_singleton.2 rfl), h2⟩
      · cases he
  | .rep r (lo' + 1) hi :: K, he =>
    simp only [expandK] at he
    split at he
    · rename_i cs hcs
      have := Rx.chrOf_eq hcs
      subst this
      simp only [Option.some.injEq] at he; subst he
      refine ⟨_, List.mem_singleton.2 rfl, ?_⟩
      obtain ⟨s1, h1, h2⟩ := AccK_cons.1 h
      rw [rep_chr_unroll, List.mem_flatMap] at h1
      obtain ⟨s0, h0, h1⟩ := h1
      exact AccK_cons.2 ⟨s0, h0, AccK_cons.2 ⟨s1, h1, h2⟩⟩
    · cases he

/-! ### runs of one character class -/

/-- `t` is reached from `s` by consuming characters of `cs` only -/
inductive ChrRun (cs : CharSet) : St → St → Prop
  | refl (s : St) : ChrRun cs s s
  | step {s s1 s2 : St} : s1 ∈ (Rx.chr cs).all s → ChrRun cs s1 s2 → ChrRun cs s s2

theorem repAll_chrRun (cs : CharSet) (lo : Nat) (hi : Option Nat) :
    ∀ (fuel count : Nat) (last : Option Nat) (s s' : St),
      s' ∈ repAll (Rx.chr cs).all lo hi fuel count last s → ChrRun cs s s' := by
  intro fuel
  induction fuel with
  | zero => intro count last s s' h; simp [repAll] at h
  | succ n ih =>
    intro count last s s' h
    rw [repAll.eq_def] at h
    simp only [] at h
    have step : ∀ l, s' ∈ ((Rx.chr cs).all s).flatMap (fun s1 => repAll (Rx.chr cs).all lo hi n (count + 1) l s1) →
        ChrRun cs s s' := by
      intro l hm
      rw [List.mem_flatMap] at hm
      obtain ⟨s1, h1, h2⟩ := hm
      exact ChrRun.step h1 (ih _ _ _ _ h2)
    split at h
    · exact step _ h
    · split at h
      · rw [List.mem_append] at h
        rcases h with h | h
        · exact step _ h
        · rw [List.mem_singleton] at h; subst h; exact ChrRun.refl _
      · rw [List.mem_singleton] at h; subst h; exact ChrRun.refl _

theorem chr_all_mem {cs : CharSet} {s s1 : St} (h : s1 ∈ (Rx.chr cs).all s) :
    ∃ c tl, s.rest = c :: tl ∧ cs.mem c = true ∧ s1 = { prev := some c, rest := tl, pos := s.pos + 1, caps := s.caps } := by
  simp only [Rx.all] at h
  split at h
  · rename_i c tl hrest
    split at h
    · rename_i hc
      rw [List.mem_singleton] at h
      exact ⟨c, tl, hrest, hc, h⟩
    · simp at h
  · simp at h

/-- two maximal runs from the same place end in the same place -/
theorem ChrRun.unique {cs : CharSet} {s s1 : St} (h1 : ChrRun cs s s1) :
    ∀ {t t1 : St}, ChrRun cs t t1 → St.sim s t → Deny cs s1 → Deny cs t1 → St.sim s1 t1 := by
  induction h1 with
  | refl s =>
    intro t t1 h2 hst hd1 _
    cases h2 with
    | refl => exact hst
    | step hm _ =>
      obtain ⟨c, tl, hrest, hc, _⟩ := chr_all_mem hm
      have := hd1 c (by simp [St.next, hst.2.1, hrest])
      rw [hc] at this; cases this
  | step hm _ ih =>
    intro t t1 h2 hst hd1 hd2
    obtain ⟨c, tl, hrest, hc, he⟩ := chr_all_mem hm
    cases h2 with
    | refl =>
      have := hd2 c (by simp [St.next, ← hst.2.1, hrest])
      rw [hc] at this; cases this
    | step hm' h2' =>
      obtain ⟨c', tl', hrest', hc', he'⟩ := chr_all_mem hm'
      refine ih h2' ?_ hd1 hd2
      rw [hst.2.1, hrest'] at hrest
      simp only [List.cons.injEq] at hrest
      obtain ⟨hcc, htl⟩ := hrest
      subst hcc; subst htl; subst he; subst he'
      exact ⟨rfl, rfl, by simp [hst.2.2]⟩

/-! ### the exclusion test -/

/-- `excl X fuel D K1 K2 = true`: no state (whose next character is not in `D`) lets both `K1` and `K2`
    (each followed by a situation in `X`) succeed -/
def excl (X : Look) : Nat → CharSet → List Rx → List Rx → Bool
  | 0, _, _, _ => false
  | f+1, D, K1, K2 =>
    ((firstK K1 X).minus D).disj (firstK K2 X) ||
    match expandK K1 with
    | some L => L.all (fun K' => excl X f D K' K2)
    | none =>
      match expandK K2 with
      | some L => L.all (fun K' => excl X f D K1 K')
      | none =>
        match K1, K2 with
        | .chr c1 :: K1', .chr c2 :: K2' => c1.disj c2 || excl X f [] K1' K2'
        | .rep r1 _ _ :: K1', .rep r2 _ _ :: K2' =>
          match r1.chrOf, r2.chrOf with
          | some c1, some c2 =>
            decide (c1 = c2) && c1.disj (firstK K1' X).cs && c1.disj (firstK K2' X).cs && excl X f [] K1' K2'
          | _, _ => false
        | _, _ => false

def ExclK (X : Look) (D : CharSet) (K1 K2 : List Rx) : Prop :=
  ∀ s t, St.sim s t → Deny D s → AccK K1 X s → AccK K2 X t → False

theorem deny_of_disj {cs : CharSet} {Y : Look} (hd : cs.disj Y.cs = true) {s : St} (h : Y.ok s.next = true) : Deny cs s := by
  intro c hc
  rw [hc] at h
  cases hm : cs.mem c with
  | false => rfl
  | true => exact (CharSet.disj_sound hd c hm h).elim

theorem excl_sound (X : Look) : ∀ (f : Nat) (D : CharSet) (K1 K2 : List Rx), excl X f D K1 K2 = true → ExclK X D K1 K2 := by
  intro f
  induction f with
  | zero => intro D K1 K2 h; simp [excl] at h
  | succ n ih =>
    intro D K1 K2 h s t hst hD h1 h2
    rw [excl.eq_def] at h
    simp only [] at h
    rw [Bool.or_eq_true] at h
    rcases h with h | h
    · have a1 := firstK_sound K1 X s h1
      have a2 := firstK_sound K2 X t h2
      rw [← hst.next] at a2
      have a3 : ((firstK K1 X).minus D).ok s.next = true := by
        cases hn : s.next with
        | none => rw [Look.minus_ok_none, ← hn]; exact a1
        | some c => rw [Look.minus_ok_some, ← hn, a1, hD c hn]; rfl
      exact Look.disj_sound h _ a3 a2
    · split at h
      · rename_i L hL
        obtain ⟨K', hK', hacc⟩ := expandK_sound K1 L X s hL h1
        rw [List.all_eq_true] at h
        exact ih D K' K2 (h K' hK') s t hst hD hacc h2
      · split at h
        · rename_i L hL
          obtain ⟨K', hK', hacc⟩ := expandK_sound K2 L X t hL h2
          rw [List.all_eq_true] at h
          exact ih D K1 K' (h K' hK') s t hst hD h1 hacc
        · split at h
          · rename_i c1 K1' c2 K2' _ _
            obtain ⟨s1, hs1, hk1⟩ := AccK_cons.1 h1
            obtain ⟨t1, ht1, hk2⟩ := AccK_cons.1 h2
            obtain ⟨c, tl, hrest, hc, hs1e⟩ := chr_all_mem hs1
            obtain ⟨c', tl', hrest', hc', ht1e⟩ := chr_all_mem ht1
            rw [hst.2.1, hrest'] at hrest
            simp only [List.cons.injEq] at hrest
            obtain ⟨hcc, htl⟩ := hrest
            subst hcc; subst htl
            rw [Bool.or_eq_true] at h
            rcases h with h | h
            · exact CharSet.disj_sound h c' hc hc'
            · refine ih [] K1' K2' h s1 t1 ?_ (Deny.nil _) hk1 hk2
              subst hs1e; subst ht1e
              exact ⟨rfl, rfl, by simp [hst.2.2]⟩
          · rename_i r1 lo1 hi1 K1' r2 lo2 hi2 K2' _ _
            split at h
            · rename_i c1 c2 hc1 hc2
              have e1 := Rx.chrOf_eq hc1
              have e2 := Rx.chrOf_eq hc2
              subst e1; subst e2
              simp only [Bool.and_eq_true, decide_eq_true_eq] at h
              obtain ⟨⟨⟨hcc, hd1⟩, hd2⟩, hex⟩ := h
              subst hcc
              obtain ⟨s1, hs1, hk1⟩ := AccK_cons.1 h1
              obtain ⟨t1, ht1, hk2⟩ := AccK_cons.1 h2
              have r1 := repAll_chrRun c1 _ _ _ _ _ _ _ hs1
              have r2 := repAll_chrRun c1 _ _ _ _ _ _ _ ht1
              have d1 := deny_of_disj hd1 (firstK_sound K1' X s1 hk1)
              have d2 := deny_of_disj hd2 (firstK_sound K2' X t1 hk2)
              exact ih [] K1' K2' hex s1 t1 (r1.unique r2 hst d1 d2) (Deny.nil _) hk1 hk2
            · cases h
          · cases h

/-! ## Part D — counting the results that can be continued -/

/-- number of results followed by a situation in `X` -/
def cntX (X : Look) (l : List St) : Nat := l.countP (fun s => X.ok s.next)

theorem cntX_nil (X : Look) : cntX X [] = 0 := rfl
theorem cntX_append (X : Look) (l l' : List St) : cntX X (l ++ l') = cntX X l + cntX X l' := List.countP_append ..
theorem cntX_single (X : Look) (s : St) : cntX X [s] = if X.ok s.next = true then 1 else 0 := by
  simp [cntX, List.countP_cons]
theorem cntX_single_le (X : Look) (s : St) : cntX X [s] ≤ 1 := by
  rw [cntX_single]; split <;> omega
theorem cntX_le_length (X : Look) (l : List St) : cntX X l ≤ l.length := List.countP_le_length ..
theorem cntX_top (l : List St) : cntX .top l = l.length := by
  unfold cntX
  rw [List.countP_eq_length]
  intro s _; exact Look.top_ok _

theorem cntX_eq_zero {X : Look} {l : List St} : cntX X l = 0 ↔ ∀ s ∈ l, X.ok s.next = false := by
  unfold cntX
  rw [List.countP_eq_zero]
  constructor
  · intro h s hs; have := h s hs; simpa using this
  · intro h s hs; simp [h s hs]

theorem cntX_pos {X : Look} {l : List St} (h : 0 < cntX X l) : ∃ s ∈ l, X.ok s.next = true := by
  unfold cntX at h
  rw [List.countP_pos_iff] at h
  exact h

theorem cntX_mono_look {X Y : Look} (hXY : ∀ o, X.ok o = true → Y.ok o = true) (l : List St) : cntX X l ≤ cntX Y l := by
  unfold cntX
  exact List.countP_mono_left (fun s _ h => hXY _ h)

theorem cntX_cons (X : Look) (a : St) (l : List St) : cntX X (a :: l) = cntX X [a] + cntX X l := by
  rw [← cntX_append]; rfl

theorem cntX_flatMap_cons (X : Look) (a : St) (l : List St) (g : St → List St) :
    cntX X ((a :: l).flatMap g) = cntX X (g a) + cntX X (l.flatMap g) := by
  rw [List.flatMap_cons, cntX_append]

/-- only the results of `l` in `Q` have descendants that count, each at most `B` -/
theorem cntX_flatMap_le (X Q : Look) (l : List St) (g : St → List St) (B : Nat)
    (h1 : ∀ a ∈ l, Q.ok a.next = true → cntX X (g a) ≤ B)
    (h0 : ∀ a ∈ l, Q.ok a.next = false → cntX X (g a) = 0) :
    cntX X (l.flatMap g) ≤ cntX Q l * B := by
  induction l with
  | nil => simp [cntX_nil]
  | cons a t ih =>
    rw [cntX_flatMap_cons, cntX_cons Q, Nat.add_mul]
    have iht := ih (fun x hx => h1 x (List.mem_cons_of_mem _ hx)) (fun x hx => h0 x (List.mem_cons_of_mem _ hx))
    refine Nat.add_le_add ?_ iht
    rw [cntX_single]
    by_cases hq : Q.ok a.next = true
    · rw [if_pos hq, Nat.one_mul]; exact h1 a (List.mem_cons_self ..) hq
    · have hq' : Q.ok a.next = false := by simpa using hq
      rw [h0 a (List.mem_cons_self ..) hq']; exact Nat.zero_le _

/-- results in `Q1` have at most `B` counting descendants, the others at most themselves (if in `Q2`) -/
theorem cntX_flatMap_le2 (X Q1 Q2 : Look) (l : List St) (g : St → List St) (B : Nat)
    (h1 : ∀ a ∈ l, Q1.ok a.next = true → cntX X (g a) ≤ B)
    (h0 : ∀ a ∈ l, Q1.ok a.next = false → cntX X (g a) ≤ cntX Q2 [a]) :
    cntX X (l.flatMap g) ≤ cntX Q1 l * B + cntX Q2 l := by
  induction l with
  | nil => simp [cntX_nil]
  | cons a t ih =>
    rw [cntX_flatMap_cons, cntX_cons Q1, cntX_cons Q2, Nat.add_mul]
    have iht := ih (fun x hx => h1 x (List.mem_cons_of_mem _ hx)) (fun x hx => h0 x (List.mem_cons_of_mem _ hx))
    have ha : cntX X (g a) ≤ cntX Q1 [a] * B + cntX Q2 [a] := by
      by_cases hq : Q1.ok a.next = true
      · rw [cntX_single Q1, if_pos hq, Nat.one_mul]
        exact Nat.le_trans (h1 a (List.mem_cons_self ..) hq) (Nat.le_add_right _ _)
      · have hq' : Q1.ok a.next = false := by simpa using hq
        exact Nat.le_trans (h0 a (List.mem_cons_self ..) hq') (Nat.le_add_left _ _)
    omega

/-! ### loops over one character class -/

/-- forced split: when no character of the class may follow, only the longest run counts -/
theorem repAll_chr_forced (cs : CharSet) (X : Look) (hd : cs.disj X.cs = true) (lo : Nat) (hi : Option Nat) :
    ∀ (fuel count : Nat) (last : Option Nat) (s : St),
      cntX X (repAll (Rx.chr cs).all lo hi fuel count last s) ≤ 1 := by
  intro fuel
  induction fuel with
  | zero => intro count last s; simp [repAll, cntX_nil]
  | succ n ih =>
    intro count last s
    rw [repAll.eq_def]
    simp only []
    rcases chr_all_cases cs s with h0 | ⟨s1, h1, hlen⟩
    · rw [h0]
      simp only [List.flatMap_nil, List.nil_append]
      split
      · simp [cntX_nil]
      · split <;> exact cntX_single_le _ _
    · rw [h1]
      simp only [List.flatMap_cons, List.flatMap_nil, List.append_nil]
      have hs : X.ok s.next = false := by
        obtain ⟨c, tl, hrest, hc, _⟩ := chr_all_mem (cs := cs) (s := s) (s1 := s1) (by rw [h1]; exact List.mem_singleton.2 rfl)
        simp only [St.next, hrest, List.head?_cons, Look.ok]
        cases hx : X.cs.mem c with
        | false => rfl
        | true => exact (CharSet.disj_sound hd c hc hx).elim
      split
      · exact ih _ _ _
      · split
        · rw [cntX_append, cntX_single, hs]
          simp only [Bool.false_eq_true, if_false, Nat.add_zero]
          exact ih _ _ _
        · exact cntX_single_le _ _

theorem repAll_chr_bounded_length (cs : CharSet) (lo h : Nat) :
    ∀ (fuel count : Nat) (last : Option Nat) (s : St),
      (repAll (Rx.chr cs).all lo (some h) fuel count last s).length ≤ (h - max count lo) + 1 := by
  intro fuel
  induction fuel with
  | zero => intro count last s; simp [repAll]
  | succ n ih =>
    intro count last s
    rw [repAll.eq_def]
    simp only []
    rcases chr_all_cases cs s with h0 | ⟨s1, h1, hlen⟩
    · rw [h0]
      simp only [List.flatMap_nil, List.nil_append]
      split
      · simp
      · split <;> simp
    · rw [h1]
      simp only [List.flatMap_cons, List.flatMap_nil, List.append_nil]
      split
      · have := ih (count + 1) last s1
        omega
      · split
        · rename_i hc hg
          simp only [canMore, Bool.and_eq_true, decide_eq_true_eq] at hg
          rw [List.length_append, List.length_singleton]
          have := ih (count + 1) (some s.pos) s1
          omega
        · simp

/-! ### loops over a compound body -/

section Loop
variable (body : St → List St) (X F : Look)

/-- a state whose next situation is neither in `X` nor in `F` contributes nothing -/
theorem repAll_dead (hF : ∀ s, F.ok s.next = false → body s = []) (lo : Nat) (hi : Option Nat)
    (fuel count : Nat) (last : Option Nat) (s : St) (hs : (X.union F).ok s.next = false) :
    cntX X (repAll body lo hi fuel count last s) = 0 := by
  rw [Look.union_ok, Bool.or_eq_false_iff] at hs
  rw [cntX_eq_zero]
  intro s' h
  have := repAll_leaf body lo hi fuel count last s (hF s hs.2) s' h
  subst this
  exact hs.1

/-- a state from which the body cannot match contributes at most itself -/
theorem repAll_leaf_cnt (hF : ∀ s, F.ok s.next = false → body s = []) (lo : Nat) (hi : Option Nat)
    (fuel count : Nat) (last : Option Nat) (s : St) (hs : F.ok s.next = false) :
    cntX X (repAll body lo hi fuel count last s) ≤ cntX X [s] := by
  have hb := hF s hs
  cases fuel with
  | zero => simp [repAll, cntX_nil]
  | succ n =>
    rw [repAll.eq_def]
    simp only [hb, List.flatMap_nil, List.nil_append]
    split
    · simp [cntX_nil]
    · split <;> exact Nat.le_refl _

/-- L1 — deterministic loop: at most one relevant result per iteration, and leaving excludes continuing -/
theorem repAll_det (hF : ∀ s, F.ok s.next = false → body s = []) (hd : X.disj F = true)
    (hc : ∀ s, cntX (X.union F) (body s) ≤ 1) (lo : Nat) (hi : Option Nat) :
    ∀ (fuel count : Nat) (last : Option Nat) (s : St), cntX X (repAll body lo hi fuel count last s) ≤ 1 := by
  intro fuel
  induction fuel with
  | zero => intro count last s; simp [repAll, cntX_nil]
  | succ n ih =>
    intro count last s
    have hstep : ∀ l, cntX X ((body s).flatMap (fun s1 => repAll body lo hi n (count + 1) l s1)) ≤ 1 := by
      intro l
      have := cntX_flatMap_le X (X.union F) (body s) (fun s1 => repAll body lo hi n (count + 1) l s1) 1
        (fun a _ _ => ih _ _ a)
        (fun a _ ha => repAll_dead body X F hF lo hi n _ _ a ha)
      have := hc s
      omega
    rw [repAll.eq_def]
    simp only []
    split
    · exact hstep _
    · split
      · rw [cntX_append]
        by_cases hx : X.ok s.next = true
        · have hf : F.ok s.next = false := by
            cases hf : F.ok s.next with
            | false => rfl
            | true => exact (Look.disj_sound hd _ hx hf).elim
          rw [hF s hf]
          simp only [List.flatMap_nil, cntX_nil, Nat.zero_add]
          exact cntX_single_le _ _
        · rw [cntX_single, if_neg hx, Nat.add_zero]
          exact hstep _
      · exact cntX_single_le _ _

/-- L2 — at most one result per iteration can start another iteration -/
theorem repAll_live (hF : ∀ s, F.ok s.next = false → body s = []) (n c : Nat)
    (hrest : ∀ s s', s' ∈ body s → s'.rest.length ≤ s.rest.length)
    (hl : ∀ s : St, s.rest.length ≤ n → cntX F (body s) ≤ 1)
    (hc : ∀ s : St, s.rest.length ≤ n → cntX (X.union F) (body s) ≤ c) (lo : Nat) (hi : Option Nat) :
    ∀ (fuel count : Nat) (last : Option Nat) (s : St), s.rest.length ≤ n →
      cntX X (repAll body lo hi fuel count last s) ≤ fuel * (c + 1) := by
  intro fuel
  induction fuel with
  | zero => intro count last s _; simp [repAll, cntX_nil]
  | succ k ih =>
    intro count last s hs
    have hstep : ∀ l, cntX X ((body s).flatMap (fun s1 => repAll body lo hi k (count + 1) l s1)) ≤ k * (c + 1) + c := by
      intro l
      have h2 := cntX_flatMap_le2 X F X (body s) (fun s1 => repAll body lo hi k (count + 1) l s1) (k * (c + 1))
        (fun a ha _ => ih _ _ a (Nat.le_trans (hrest _ _ ha) hs))
        (fun a _ ha => repAll_leaf_cnt body X F hF lo hi k _ _ a ha)
      have h3 : cntX X (body s) ≤ cntX (X.union F) (body s) :=
        cntX_mono_look (fun o ho => by rw [Look.union_ok, ho]; rfl) _
      have h4 := hl s hs
      have h5 := hc s hs
      have h6 : cntX F (body s) * (k * (c + 1)) ≤ 1 * (k * (c + 1)) := Nat.mul_le_mul_right _ h4
      omega
    rw [repAll.eq_def]
    simp only []
    have e : (k + 1) * (c + 1) = k * (c + 1) + c + 1 := by rw [Nat.succ_mul]; omega
    split
    · have := hstep last; omega
    · split
      · rw [cntX_append]
        have := hstep (some s.pos)
        have := cntX_single_le X s
        omega
      · have := cntX_single_le X s
        omega

/-- bounded loop: only relevant results branch -/
theorem repAll_bounded_cnt (hF : ∀ s, F.ok s.next = false → body s = []) (n c lo h : Nat)
    (hrest : ∀ s s', s' ∈ body s → s'.rest.length ≤ s.rest.length)
    (hc : ∀ s : St, s.rest.length ≤ n → cntX (X.union F) (body s) ≤ c) :
    ∀ (fuel count : Nat) (last : Option Nat) (s : St), s.rest.length ≤ n →
      cntX X (repAll body lo (some h) fuel count last s) ≤ (c + 1) ^ (max lo h - count) := by
  intro fuel
  induction fuel with
  | zero => intro count last s _; simp [repAll, cntX_nil]
  | succ k ih =>
    intro count last s hs
    have hstep : ∀ l, count < max lo h →
        cntX X ((body s).flatMap (fun s1 => repAll body lo (some h) k (count + 1) l s1)) + 1
          ≤ (c + 1) ^ (max lo h - count) := by
      intro l hcount
      have hpos : 0 < (c + 1) ^ (max lo h - (count + 1)) := Nat.pow_pos (Nat.succ_pos _)
      have h1 := cntX_flatMap_le X (X.union F) (body s) (fun s1 => repAll body lo (some h) k (count + 1) l s1) _
        (fun a ha _ => ih (count + 1) l a (Nat.le_trans (hrest _ _ ha) hs))
        (fun a _ ha => repAll_dead body X F hF lo (some h) k _ _ a ha)
      have h2 : cntX (X.union F) (body s) * (c + 1) ^ (max lo h - (count + 1))
          ≤ c * (c + 1) ^ (max lo h - (count + 1)) := Nat.mul_le_mul_right _ (hc s hs)
      have h3 : max lo h - count = (max lo h - (count + 1)) + 1 := by omega
      rw [h3, Nat.pow_succ, Nat.mul_comm _ (c + 1), Nat.succ_mul]
      omega
    rw [repAll.eq_def]
    simp only []
    split
    · rename_i hcl
      have := hstep last (by omega)
      omega
    · split
      · rename_i hcl hg
        simp only [canMore, Bool.and_eq_true, decide_eq_true_eq] at hg
        rw [cntX_append]
        have := hstep (some s.pos) (by omega)
        have := cntX_single_le X s
        omega
      · exact Nat.le_trans (cntX_single_le X s) (Nat.pow_pos (Nat.succ_pos _))

end Loop

/-! ## Part E — the bound `Rx.cnt` and its soundness -/

/-- `(coef, deg)` stands for the polynomial `coef * (n+1)^deg` -/
abbrev Bnd := Nat × Nat
def Bnd.val (b : Bnd) (n : Nat) : Nat := b.1 * (n + 1) ^ b.2
def Bnd.mul (a b : Bnd) : Bnd := (a.1 * b.1, a.2 + b.2)
def Bnd.add (a b : Bnd) : Bnd := (a.1 + b.1, max a.2 b.2)
def Bnd.sup (a b : Bnd) : Bnd := (max a.1 b.1, max a.2 b.2)
def Bnd.pow (a : Bnd) (k : Nat) : Bnd := (a.1 ^ k, a.2 * k)
def Bnd.le1 (a : Bnd) : Bool := a.1 == 0 || (a.1 == 1 && a.2 == 0)
def Bnd.one : Bnd := (1, 0)

theorem Bnd.val_one (n : Nat) : Bnd.one.val n = 1 := by simp [Bnd.val, Bnd.one]

theorem Bnd.val_mono (b : Bnd) {m n : Nat} (h : m ≤ n) : b.val m ≤ b.val n :=
  Nat.mul_le_mul_left _ (Nat.pow_le_pow_left (Nat.succ_le_succ h) _)

theorem Bnd.val_mul (a b : Bnd) (n : Nat) : (a.mul b).val n = a.val n * b.val n := by
  simp only [Bnd.val, Bnd.mul, Nat.pow_add, Nat.mul_mul_mul_comm]

theorem Bnd.val_le_of_le {c c' d d' : Nat} (hc : c ≤ c') (hd : d ≤ d') (n : Nat) :
    Bnd.val (c, d) n ≤ Bnd.val (c', d') n :=
  Nat.mul_le_mul hc (Nat.pow_le_pow_right (Nat.succ_pos _) hd)

theorem Bnd.val_add (a b : Bnd) (n : Nat) : a.val n + b.val n ≤ (a.add b).val n := by
  have h1 : a.val n ≤ Bnd.val (a.1, max a.2 b.2) n := Bnd.val_le_of_le (Nat.le_refl _) (Nat.le_max_left _ _) n
  have h2 : b.val n ≤ Bnd.val (b.1, max a.2 b.2) n := Bnd.val_le_of_le (Nat.le_refl _) (Nat.le_max_right _ _) n
  have : (a.add b).val n = Bnd.val (a.1, max a.2 b.2) n + Bnd.val (b.1, max a.2 b.2) n := by
    simp only [Bnd.val, Bnd.add, Nat.add_mul]
  omega

theorem Bnd.val_sup_left (a b : Bnd) (n : Nat) : a.val n ≤ (a.sup b).val n :=
  Bnd.val_le_of_le (Nat.le_max_left _ _) (Nat.le_max_left _ _) n
theorem Bnd.val_sup_right (a b : Bnd) (n : Nat) : b.val n ≤ (a.sup b).val n :=
  Bnd.val_le_of_le (Nat.le_max_right _ _) (Nat.le_max_right _ _) n

theorem Bnd.val_pow (a : Bnd) (k n : Nat) : (a.pow k).val n = (a.val n) ^ k := by
  simp only [Bnd.val, Bnd.pow, Nat.mul_pow, Nat.pow_mul]

theorem Bnd.val_le1 {a : Bnd} (h : a.le1 = true) (n : Nat) : a.val n ≤ 1 := by
  simp only [Bnd.le1, Bool.or_eq_true, Bool.and_eq_true, beq_iff_eq] at h
  obtain ⟨c, d⟩ := a
  simp only [Bnd.val]
  simp only at h
  rcases h with h | ⟨h1, h2⟩
  · subst h; simp
  · subst h1; subst h2; simp

def Rx.size : Rx → Nat
  | .seq a b | .alt a b => a.size + b.size + 1
  | .rep r lo _ => r.size + lo + 1
  | .grp _ r | .ahead r | .nahead r => r.size + 1
  | _ => 1

def sizeK (K : List Rx) : Nat := (K.map Rx.size).sum

/-! ### results that the known continuation `K` (followed by a situation in `X`) accepts -/

def accK (K : List Rx) (X : Look) (s : St) : Bool := (allK K s).any (fun t => X.ok t.next)

theorem accK_iff {K : List Rx} {X : Look} {s : St} : accK K X s = true ↔ AccK K X s := by
  simp only [accK, List.any_eq_true, AccK]

theorem accK_nil (X : Look) (s : St) : accK [] X s = X.ok s.next := by
  simp [accK, allK]

theorem accK_cons (r : Rx) (K : List Rx) (X : Look) (s : St) :
    accK (r :: K) X s = (r.all s).any (accK K X) := by
  rw [Bool.eq_iff_iff, accK_iff, AccK_cons, List.any_eq_true]
  simp only [accK_iff]

/-- number of results accepted by the continuation -/
def cntK (K : List Rx) (X : Look) (l : List St) : Nat := l.countP (accK K X)

theorem cntK_nil (K : List Rx) (X : Look) : cntK K X [] = 0 := rfl
theorem cntK_append (K : List Rx) (X : Look) (l l' : List St) : cntK K X (l ++ l') = cntK K X l + cntK K X l' :=
  List.countP_append ..
theorem cntK_single_le (K : List Rx) (X : Look) (s : St) : cntK K X [s] ≤ 1 := by
  simp only [cntK, List.countP_cons, List.countP_nil]; split <;> omega
theorem cntK_single (K : List Rx) (X : Look) (s : St) : cntK K X [s] = if accK K X s = true then 1 else 0 := by
  simp [cntK, List.countP_cons]
theorem cntK_le_length (K : List Rx) (X : Look) (l : List St) : cntK K X l ≤ l.length := List.countP_le_length ..

theorem cntK_nil_stack (X : Look) (l : List St) : cntK [] X l = cntX X l := by
  unfold cntK cntX
  congr 1
  funext s
  exact accK_nil X s

theorem cntK_eq_zero {K : List Rx} {X : Look} {l : List St} : cntK K X l = 0 ↔ ∀ s ∈ l, accK K X s = false := by
  unfold cntK
  rw [List.countP_eq_zero]
  constructor
  · intro h s hs; have := h s hs; simpa using this
  · intro h s hs; simp [h s hs]

theorem cntK_pos {K : List Rx} {X : Look} {l : List St} (h : 0 < cntK K X l) : ∃ s ∈ l, accK K X s = true := by
  unfold cntK at h
  rw [List.countP_pos_iff] at h
  exact h

theorem cntK_cons (K : List Rx) (X : Look) (a : St) (l : List St) : cntK K X (a :: l) = cntK K X [a] + cntK K X l := by
  rw [← cntK_append]; rfl

/-- accepted results are followed by a situation in `firstK K X` (minus what the results exclude) -/
theorem cntK_le_cntX (K : List Rx) (X : Look) (P : CharSet) (l : List St) (hP : ∀ s ∈ l, Deny P s) :
    cntK K X l ≤ cntX ((firstK K X).minus P) l := by
  induction l with
  | nil => exact Nat.le_refl _
  | cons a t ih =>
    rw [cntK_cons, cntX_cons]
    refine Nat.add_le_add ?_ (ih (fun x hx => hP x (List.mem_cons_of_mem _ hx)))
    rw [cntK_single, cntX_single]
    split
    · rename_i hacc
      have hf := firstK_sound K X a (accK_iff.1 hacc)
      have hd := hP a (List.mem_cons_self ..)
      have : ((firstK K X).minus P).ok a.next = true := by
        cases hn : a.next with
        | none => rw [Look.minus_ok_none, ← hn]; exact hf
        | some c => rw [Look.minus_ok_some, ← hn, hf, hd c hn]; rfl
      rw [if_pos this]; exact Nat.le_refl _
    · exact Nat.zero_le _

theorem cntK_flatMap_seq (b : Rx) (K : List Rx) (X : Look) (l : List St) (B : Nat)
    (h1 : ∀ a ∈ l, cntK K X (b.all a) ≤ B) :
    cntK K X (l.flatMap b.all) ≤ cntK (b :: K) X l * B := by
  induction l with
  | nil => simp [cntK_nil]
  | cons a t ih =>
    rw [List.flatMap_cons, cntK_append, cntK_cons (b :: K), Nat.add_mul]
    refine Nat.add_le_add ?_ (ih (fun x hx => h1 x (List.mem_cons_of_mem _ hx)))
    rw [cntK_single]
    by_cases hq : accK (b :: K) X a = true
    · rw [if_pos hq, Nat.one_mul]; exact h1 a (List.mem_cons_self ..)
    · rw [if_neg hq, Nat.zero_mul]
      refine Nat.le_of_eq (cntK_eq_zero.2 ?_)
      intro s' hs'
      cases hx : accK K X s' with
      | false => rfl
      | true =>
        rw [accK_cons, List.any_eq_true] at hq
        exact (hq ⟨s', hs', hx⟩).elim

theorem cntK_map_caps (K : List Rx) (X : Look) (l : List St) (f : St → St) (hf : ∀ s, St.sim (f s) s) :
    cntK K X (l.map f) = cntK K X l := by
  unfold cntK
  rw [List.countP_map]
  congr 1
  funext s
  simp only [Function.comp]
  rw [Bool.eq_iff_iff, accK_iff, accK_iff]
  exact ⟨fun h => h.sim (hf s), fun h => h.sim (hf s).symm⟩

/-- what cannot follow a result of a loop over `r` with at least `lo` iterations -/
def Rx.loopDeny (r : Rx) (lo : Nat) : CharSet := if lo = 0 then [] else r.postD []

/-- `r.cnt K X D = some (c, d)`: from a state with `n` characters left whose next character is not in `D`, `r` has at
    most `c * (n+1)^d` results from which the known continuation `K`, followed by a situation in `X`, can succeed;
    `none`: the analysis cannot exclude exponentially many. -/
def Rx.cnt : Rx → List Rx → Look → CharSet → Option Bnd
  | .eps, _, _, _ | .chr _, _, _, _ | .ahead _, _, _, _ | .nahead _, _, _, _ | .behind _, _, _, _ | .wordb _, _, _, _
  | .eos, _, _, _ | .bos, _, _, _ => some .one
  | .fail, _, _, _ => some (0, 0)
  | .seq a b, K, X, D =>
    match a.cnt (b :: K) X D, b.cnt K X (a.postD D) with
    | some ca, some cb => some (ca.mul cb)
    | _, _ => none
  | .alt a b, K, X, D =>
    match a.cnt K X D, b.cnt K X D with
    | some ca, some cb =>
      some (if excl X (2 * (a.size + b.size + sizeK K) + 10) D (a :: K) (b :: K) then ca.sup cb else ca.add cb)
    | _, _ => none
  | .grp _ r, K, X, D => r.cnt K X D
  | .rep r lo hi, K, X, D =>
    match r.chrOf with
    | some cs =>
      if cs.disj (firstK K X).cs || (lo == 0 && cs.sub D) then some .one else
      match hi with
      | some h => some (h - lo + 1, 0)
      | none => some (1, 1)
    | none =>
      let F := r.first .top
      let XK := (firstK K X).minus (r.loopDeny lo)
      match hi with
      | some h =>
        if lo = 0 ∧ h = 1 then
          match r.cnt K X D with
          | some c => some (if excl X (2 * (r.size + sizeK K) + 10) D (r :: K) K then c.sup .one else c.add .one)
          | none => none
        else
          match r.cnt [] (XK.union F) [] with
          | some c => some ((c.add .one).pow (max lo h))
          | none => none
      | none =>
        match r.cnt [] (XK.union F) [], r.cnt [] F [] with
        | some c, some cl =>
          if XK.disj F && c.le1 then some .one
          else if cl.le1 then some ((lo + 2) * (c.1 + 1), c.2 + 1)
          else none
        | _, _ => none

theorem repAll_chr_length_nil (cs : CharSet) (lo : Nat) (hi : Option Nat) (fuel count : Nat) (last : Option Nat) (s : St)
    (h : (Rx.chr cs).all s = []) : (repAll (Rx.chr cs).all lo hi fuel count last s).length ≤ 1 := by
  cases fuel with
  | zero => simp [repAll]
  | succ n =>
    rw [repAll.eq_def]
    simp only [h, List.flatMap_nil, List.nil_append]
    split
    · simp
    · split <;> simp

theorem Rx.all_rep (r : Rx) (lo : Nat) (hi : Option Nat) (s : St) :
    (Rx.rep r lo hi).all s = repAll r.all lo hi (s.rest.length + lo + 2) 0 none s := rfl

/-- the results of a loop (after at least one iteration) exclude what the body excludes -/
theorem rep_results_deny (r : Rx) (lo : Nat) (hi : Option Nat) (s : St) :
    ∀ s' ∈ (Rx.rep r lo hi).all s, Deny (r.loopDeny lo) s' := by
  intro s' hs'
  unfold Rx.loopDeny
  split
  · exact Deny.nil _
  · rename_i hlo
    have := (Rx.rep r lo hi).postD_sound [] s s' hs' (Deny.nil _)
    simp only [Rx.postD] at this
    cases hc : r.chrOf with
    | none => rw [hc] at this; simp only [hlo, if_false] at this; exact this
    | some cs =>
      have e := Rx.chrOf_eq hc
      subst e
      exact Deny.nil _

theorem Rx.cnt_sound (r : Rx) : ∀ (K : List Rx) (X : Look) (D : CharSet) (b : Bnd), r.cnt K X D = some b →
    ∀ (n : Nat) (s : St), s.rest.length ≤ n → Deny D s → cntK K X (r.all s) ≤ b.val n := by
  induction r with
  | eps =>
    intro K X D b hb n s _ _
    simp only [Rx.cnt, Option.some.injEq] at hb; subst hb
    rw [Bnd.val_one]; exact cntK_single_le _ _ _
  | fail =>
    intro K X D b hb n s _ _
    simp [Rx.all, cntK_nil]
  | chr cs =>
    intro K X D b hb n s _ _
    simp only [Rx.cnt, Option.some.injEq] at hb; subst hb
    rw [Bnd.val_one]
    rcases chr_all_cases cs s with h0 | ⟨s1, h1, _⟩
    · rw [h0]; simp [cntK_nil]
    · rw [h1]; exact cntK_single_le _ _ _
  | seq a b iha ihb =>
    intro K X D bd hb n s hs hD
    simp only [Rx.cnt] at hb
    split at hb
    · rename_i ca cb hca hcb
      simp only [Option.some.injEq] at hb; subst hb
      rw [Bnd.val_mul]
      simp only [Rx.all]
      have h := cntK_flatMap_seq b K X (a.all s) (cb.val n)
        (fun s1 hs1 => ihb K X _ cb hcb n s1 (Nat.le_trans (a.all_rest_le _ _ hs1) hs) (a.postD_sound D s s1 hs1 hD))
      exact Nat.le_trans h (Nat.mul_le_mul_right _ (iha _ X D ca hca n s hs hD))
    · cases hb
  | alt a b iha ihb =>
    intro K X D bd hb n s hs hD
    simp only [Rx.cnt] at hb
    split at hb
    · rename_i ca cb hca hcb
      simp only [Option.some.injEq] at hb; subst hb
      simp only [Rx.all, cntK_append]
      have h1 := iha K X D ca hca n s hs hD
      have h2 := ihb K X D cb hcb n s hs hD
      split
      · rename_i he
        have hex := excl_sound X _ _ _ _ he
        by_cases hz : cntK K X (a.all s) = 0
        · rw [hz, Nat.zero_add]; exact Nat.le_trans h2 (Bnd.val_sup_right _ _ _)
        · have hz2 : cntK K X (b.all s) = 0 := by
            cases hb0 : cntK K X (b.all s) with
            | zero => rfl
            | succ m =>
              obtain ⟨s1, hs1, hx1⟩ := cntK_pos (Nat.pos_of_ne_zero hz)
              obtain ⟨s2, hs2, hx2⟩ := cntK_pos (K := K) (X := X) (l := b.all s) (by omega)
              exact (hex s s (St.sim.refl _) hD (AccK_cons.2 ⟨s1, hs1, accK_iff.1 hx1⟩)
                (AccK_cons.2 ⟨s2, hs2, accK_iff.1 hx2⟩)).elim
          rw [hz2, Nat.add_zero]; exact Nat.le_trans h1 (Bnd.val_sup_left _ _ _)
      · exact Nat.le_trans (Nat.add_le_add h1 h2) (Bnd.val_add _ _ _)
    · cases hb
  | grp i r ih =>
    intro K X D b hb n s hs hD
    simp only [Rx.cnt] at hb
    simp only [Rx.all]
    exact Nat.le_trans (Nat.le_of_eq (cntK_map_caps K X _ _ (fun _ => St.sim_caps _ _))) (ih K X D b hb n s hs hD)
  | rep r lo hi ih =>
    intro K X D bd hb n s hs hD
    simp only [Rx.cnt] at hb
    have hF : ∀ s : St, (r.first .top).ok s.next = false → r.all s = [] := fun s h => r.all_eq_nil_of_first s h
    have hIH : ∀ (Y : Look) (c : Bnd), r.cnt [] Y [] = some c → ∀ (n : Nat) (a : St), a.rest.length ≤ n →
        cntX Y (r.all a) ≤ c.val n := by
      intro Y c hc n a ha
      rw [← cntK_nil_stack]
      exact ih [] Y [] c hc n a ha (Deny.nil _)
    split at hb
    · -- a single character class
      rename_i cs hcs
      have := Rx.chrOf_eq hcs
      subst this
      split at hb
      · rename_i hd
        simp only [Option.some.injEq] at hb; subst hb
        rw [Bnd.val_one]
        rw [Bool.or_eq_true] at hd
        rcases hd with hd | hd
        · refine Nat.le_trans (cntK_le_cntX K X [] _ (fun _ _ => Deny.nil _)) ?_
          rw [Rx.all_rep]
          refine repAll_chr_forced cs _ ?_ lo hi _ _ _ s
          simp only [Look.minus, CharSet.diff, List.foldl_nil]
          exact hd
        · rw [Bool.and_eq_true, beq_iff_eq] at hd
          have hnil := hD.chr_nil hd.2
          refine Nat.le_trans (cntK_le_length _ _ _) ?_
          rw [Rx.all_rep]
          exact repAll_chr_length_nil cs lo hi (s.rest.length + lo + 2) 0 none s hnil
      · split at hb
        · rename_i h
          simp only [Option.some.injEq] at hb; subst hb
          refine Nat.le_trans (cntK_le_length _ _ _) ?_
          rw [Rx.all_rep]
          have := repAll_chr_bounded_length cs lo h (s.rest.length + lo + 2) 0 none s
          simp only [Bnd.val, Nat.pow_zero, Nat.mul_one]
          omega
        · simp only [Option.some.injEq] at hb; subst hb
          refine Nat.le_trans (cntK_le_length _ _ _) ?_
          rw [Rx.all_rep]
          have := repAll_chr_length cs lo (s.rest.length + lo + 2) 0 none s
          simp only [Bnd.val, Nat.pow_one, Nat.one_mul]
          omega
    · -- a compound body
      have hred := cntK_le_cntX K X _ _ (rep_results_deny r lo hi s)
      split at hb
      · rename_i h
        split at hb
        · rename_i hopt
          obtain ⟨hlo, hh⟩ := hopt
          subst hlo; subst hh
          split at hb
          · rename_i c hc
            simp only [Option.some.injEq] at hb; subst hb
            rw [Rx.all_opt, cntK_append]
            have h1 := ih K X D c hc n s hs hD
            have h2 := cntK_single_le K X s
            split
            · rename_i he
              have hex := excl_sound X _ _ _ _ he
              by_cases hz : cntK K X (r.all s) = 0
              · rw [hz, Nat.zero_add]
                exact Nat.le_trans h2 (by rw [← Bnd.val_one n]; exact Bnd.val_sup_right _ _ _)
              · obtain ⟨s1, hs1, hx1⟩ := cntK_pos (Nat.pos_of_ne_zero hz)
                have : cntK K X [s] = 0 := by
                  rw [cntK_single]
                  split
                  · rename_i hx
                    exact (hex s s (St.sim.refl _) hD (AccK_cons.2 ⟨s1, hs1, accK_iff.1 hx1⟩) (accK_iff.1 hx)).elim
                  · rfl
                rw [this, Nat.add_zero]
                exact Nat.le_trans h1 (Bnd.val_sup_left _ _ _)
            · refine Nat.le_trans ?_ (Bnd.val_add _ _ _)
              rw [Bnd.val_one]; omega
          · cases hb
        · split at hb
          · rename_i c hc
            simp only [Option.some.injEq] at hb; subst hb
            refine Nat.le_trans hred ?_
            rw [Rx.all_rep]
            have := repAll_bounded_cnt r.all _ (r.first .top) hF n (c.val n) lo h
              (fun a b hab => r.all_rest_le a b hab)
              (fun a ha => hIH _ c hc n a ha)
              (s.rest.length + lo + 2) 0 none s hs
            rw [Bnd.val_pow]
            refine Nat.le_trans this ?_
            rw [Nat.sub_zero]
            refine Nat.pow_le_pow_left ?_ _
            refine Nat.le_trans ?_ (Bnd.val_add _ _ _)
            rw [Bnd.val_one]
            exact Nat.le_refl _
          · cases hb
      · split at hb
        · rename_i c cl hc hcl
          refine Nat.le_trans hred ?_
          rw [Rx.all_rep]
          split at hb
          · rename_i hdet
            rw [Bool.and_eq_true] at hdet
            simp only [Option.some.injEq] at hb; subst hb
            rw [Bnd.val_one]
            refine repAll_det r.all _ (r.first .top) hF hdet.1 ?_ lo none _ _ _ s
            intro a
            exact Nat.le_trans (hIH _ c hc a.rest.length a (Nat.le_refl _)) (Bnd.val_le1 hdet.2 _)
          · split at hb
            · rename_i hlive
              simp only [Option.some.injEq] at hb; subst hb
              have := repAll_live r.all _ (r.first .top) hF n (c.val n)
                (fun a b hab => r.all_rest_le a b hab)
                (fun a ha => Nat.le_trans (hIH _ cl hcl n a ha) (Bnd.val_le1 hlive _))
                (fun a ha => hIH _ c hc n a ha) lo none
                (s.rest.length + lo + 2) 0 none s hs
              refine Nat.le_trans this ?_
              simp only [Bnd.val]
              have h1 : s.rest.length + lo + 2 ≤ (lo + 2) * (n + 1) := by
                rw [Nat.mul_succ, Nat.add_mul]
                have : s.rest.length ≤ lo * n + 2 * n := by
                  have : n ≤ lo * n + 2 * n := by omega
                  omega
                omega
              have hpos : 1 ≤ (n + 1) ^ c.2 := Nat.pow_pos (Nat.succ_pos _)
              have h2 : c.1 * (n + 1) ^ c.2 + 1 ≤ (c.1 + 1) * (n + 1) ^ c.2 := by
                rw [Nat.add_mul, Nat.one_mul]; omega
              calc (s.rest.length + lo + 2) * (c.1 * (n + 1) ^ c.2 + 1)
                  ≤ ((lo + 2) * (n + 1)) * ((c.1 + 1) * (n + 1) ^ c.2) := Nat.mul_le_mul h1 h2
                _ = (lo + 2) * (c.1 + 1) * (n + 1) ^ (c.2 + 1) := by
                  rw [Nat.pow_succ, Nat.mul_mul_mul_comm, Nat.mul_comm (n + 1)]
            · cases hb
        · cases hb
  | ahead r _ =>
    intro K X D b hb n s _ _
    simp only [Rx.cnt, Option.some.injEq] at hb; subst hb
    rw [Bnd.val_one]
    simp only [Rx.all]
    split
    · exact cntK_single_le _ _ _
    · simp [cntK_nil]
  | nahead r _ =>
    intro K X D b hb n s _ _
    simp only [Rx.cnt, Option.some.injEq] at hb; subst hb
    rw [Bnd.val_one]
    simp only [Rx.all]
    split
    · simp [cntK_nil]
    · exact cntK_single_le _ _ _
  | behind cs =>
    intro K X D b hb n s _ _
    simp only [Rx.cnt, Option.some.injEq] at hb; subst hb
    rw [Bnd.val_one]
    simp only [Rx.all]
    split
    · split
      · exact cntK_single_le _ _ _
      · simp [cntK_nil]
    · simp [cntK_nil]
  | wordb w =>
    intro K X D b hb n s _ _
    simp only [Rx.cnt, Option.some.injEq] at hb; subst hb
    rw [Bnd.val_one]
    simp only [Rx.all]
    split
    · exact cntK_single_le _ _ _
    · simp [cntK_nil]
  | eos =>
    intro K X D b hb n s _ _
    simp only [Rx.cnt, Option.some.injEq] at hb; subst hb
    rw [Bnd.val_one]
    simp only [Rx.all]
    split
    · exact cntK_single_le _ _ _
    · split
      · exact cntK_single_le _ _ _
      · simp [cntK_nil]
    · simp [cntK_nil]
  | bos =>
    intro K X D b hb n s _ _
    simp only [Rx.cnt, Option.some.injEq] at hb; subst hb
    rw [Bnd.val_one]
    simp only [Rx.all]
    split
    · exact cntK_single_le _ _ _
    · simp [cntK_nil]

/-- the Look-level form: results followed by a situation in `X` -/
theorem Rx.cnt_sound_look (r : Rx) (X : Look) (D : CharSet) (b : Bnd) (h : r.cnt [] X D = some b)
    (n : Nat) (s : St) (hs : s.rest.length ≤ n) (hD : Deny D s) : cntX X (r.all s) ≤ b.val n := by
  rw [← cntK_nil_stack]
  exact r.cnt_sound [] X D b h n s hs hD

/-- MAIN: if the analysis succeeds, the number of backtracking paths is polynomial -/
theorem C16_det_paths_bound (r : Rx) (b : Bnd) (h : r.cnt [] .top [] = some b) (s : St) :
    (r.all s).length ≤ b.1 * (s.rest.length + 1) ^ b.2 := by
  have := r.cnt_sound_look .top [] b h s.rest.length s (Nat.le_refl _) (Deny.nil _)
  rw [cntX_top] at this
  exact this

/-! ## Part G — counting the steps of the matcher -/

def tickC {R : Type} (p : Option R × Nat) : Option R × Nat := (p.1, p.2 + 1)

/-- `a`, and if it fails `b`; one step for the choice point -/
def orElseC {R : Type} (a : Option R × Nat) (b : Unit → Option R × Nat) : Option R × Nat :=
  match a with
  | (some r, c) => (some r, c + 1)
  | (none, c) => ((b ()).1, c + (b ()).2 + 1)

/-- `repLoop` with a step counter (one step per visit of the loop head) -/
def repLoopC {R : Type} (body : St → (St → Option R × Nat) → Option R × Nat) (lo : Nat) (hi : Option Nat) :
    Nat → Nat → Option Nat → St → (St → Option R × Nat) → Option R × Nat
  | 0, _, _, _, _ => (none, 1)
  | fuel+1, count, last, s, k =>
    if count < lo then
      tickC (body s (fun s' => repLoopC body lo hi fuel (count+1) last s' k))
    else if canMore hi count && last != some s.pos then
      orElseC (body s (fun s' => repLoopC body lo hi fuel (count+1) (some s.pos) s' k)) (fun _ => k s)
    else tickC (k s)

/-- `Rx.m` with a step counter: the second component is the number of pattern nodes / loop heads visited, including
    those visited by the continuation -/
def Rx.mc {R : Type} : Rx → St → (St → Option R × Nat) → Option R × Nat
  | .eps, s, k => tickC (k s)
  | .fail, _, _ => (none, 1)
  | .chr cs, s, k =>
    match s.rest with
    | c :: t => if cs.mem c then tickC (k { prev := some c, rest := t, pos := s.pos + 1, caps := s.caps }) else (none, 1)
    | [] => (none, 1)
  | .seq a b, s, k => tickC (a.mc s (fun s' => b.mc s' k))
  | .alt a b, s, k => orElseC (a.mc s k) (fun _ => b.mc s k)
  | .rep r lo hi, s, k => repLoopC r.mc lo hi (s.rest.length + lo + 2) 0 none s k
  | .grp i r, s, k => tickC (r.mc s (fun s' => k { s' with caps := (i, s.pos, s'.pos) :: s'.caps }))
  | .ahead r, s, k =>
    match r.mc (R := St) s (fun s' => (some s', 0)) with
    | (some s', c) => ((k { s with caps := s'.caps }).1, c + (k { s with caps := s'.caps }).2 + 1)
    | (none, c) => (none, c + 1)
  | .nahead r, s, k =>
    match r.mc (R := St) s (fun s' => (some s', 0)) with
    | (some _, c) => (none, c + 1)
    | (none, c) => ((k s).1, c + (k s).2 + 1)
  | .behind cs, s, k =>
    match s.prev with
    | some c => if cs.mem c then tickC (k s) else (none, 1)
    | none => (none, 1)
  | .wordb w, s, k =>
    if isWord w s.prev != isWord w s.rest.head? then tickC (k s) else (none, 1)
  | .eos, s, k =>
    match s.rest with
    | [] => tickC (k s)
    | [c] => if c == '\n' then tickC (k s) else (none, 1)
    | _ => (none, 1)
  | .bos, s, k => if s.pos == 0 then tickC (k s) else (none, 1)

/-- try the continuation on the results in order -/
def runL {R : Type} (k : St → Option R × Nat) : List St → Option R × Nat
  | [] => (none, 0)
  | a :: t =>
    match k a with
    | (some r, c) => (some r, c)
    | (none, c) => ((runL k t).1, c + (runL k t).2)

theorem runL_nil {R : Type} (k : St → Option R × Nat) : runL k [] = (none, 0) := rfl

theorem runL_single {R : Type} (k : St → Option R × Nat) (a : St) : runL k [a] = k a := by
  simp only [runL]
  rcases h : k a with ⟨_ | r, c⟩ <;> simp

theorem runL_append {R : Type} (k : St → Option R × Nat) (x y : List St) :
    runL k (x ++ y) = match runL k x with
      | (some r, c) => (some r, c)
      | (none, c) => ((runL k y).1, c + (runL k y).2) := by
  induction x with
  | nil => simp [runL]
  | cons a t ih =>
    simp only [List.cons_append, runL]
    rcases h : k a with ⟨_ | r, c⟩
    · simp only [ih]
      rcases h2 : runL k t with ⟨_ | r2, c2⟩ <;> simp [Nat.add_assoc]
    · simp

theorem runL_flatMap {R : Type} (k : St → Option R × Nat) (g : St → List St) (l : List St) :
    runL k (l.flatMap g) = runL (fun a => runL k (g a)) l := by
  induction l with
  | nil => rfl
  | cons a t ih =>
    rw [List.flatMap_cons, runL_append, ih]
    simp only [runL]

theorem runL_map {R : Type} (k : St → Option R × Nat) (f : St → St) (l : List St) :
    runL k (l.map f) = runL (fun a => k (f a)) l := by
  induction l with
  | nil => rfl
  | cons a t ih => simp only [List.map_cons, runL, ih]

theorem runL_fst {R : Type} (k : St → Option R × Nat) (l : List St) :
    (runL k l).1 = l.findSome? (fun s => (k s).1) := by
  induction l with
  | nil => rfl
  | cons a t ih =>
    simp only [runL, List.findSome?_cons]
    rcases h : k a with ⟨_ | r, c⟩
    · simp [ih]
    · simp

/-- pointwise comparison of two continuations -/
theorem runL_le {R : Type} (k1 k2 : St → Option R × Nat) (w : St → Nat) (l : List St)
    (h : ∀ a ∈ l, (k1 a).1 = (k2 a).1 ∧ (k1 a).2 ≤ w a + (k2 a).2) :
    (runL k1 l).1 = (runL k2 l).1 ∧ (runL k1 l).2 ≤ (l.map w).sum + (runL k2 l).2 := by
  induction l with
  | nil => simp [runL]
  | cons a t ih =>
    have ha := h a (List.mem_cons_self ..)
    have iht := ih (fun x hx => h x (List.mem_cons_of_mem _ hx))
    simp only [runL, List.map_cons, List.sum_cons]
    rcases h1 : k1 a with ⟨o1, c1⟩
    rcases h2 : k2 a with ⟨o2, c2⟩
    rw [h1, h2] at ha
    simp only at ha
    obtain ⟨ho, hc⟩ := ha
    subst ho
    cases o1 with
    | none => simp only; exact ⟨iht.1, by omega⟩
    | some r => simp only; exact ⟨trivial, by omega⟩

/-- the cost of exploring every path of `r` from `s` (what a failing continuation of cost 0 causes) -/
def repW (bodyW : St → Nat) (body : St → List St) (lo : Nat) (hi : Option Nat) : Nat → Nat → Option Nat → St → Nat
  | 0, _, _, _ => 1
  | fuel+1, count, last, s =>
    if count < lo then
      1 + bodyW s + ((body s).map (fun s' => repW bodyW body lo hi fuel (count+1) last s')).sum
    else if canMore hi count && last != some s.pos then
      1 + bodyW s + ((body s).map (fun s' => repW bodyW body lo hi fuel (count+1) (some s.pos) s')).sum
    else 1

def Rx.W : Rx → St → Nat
  | .seq a b, s => 1 + a.W s + ((a.all s).map b.W).sum
  | .alt a b, s => 1 + a.W s + b.W s
  | .rep r lo hi, s => repW r.W r.all lo hi (s.rest.length + lo + 2) 0 none s
  | .grp _ r, s => 1 + r.W s
  | .ahead r, s => 1 + r.W s
  | .nahead r, s => 1 + r.W s
  | _, _ => 1

/-- the specification of a matcher component: result = first success over the list of results;
    cost ≤ own exploration cost + cost of the continuation calls actually made -/
def SpecC {R : Type} (f : St → (St → Option R × Nat) → Option R × Nat) (fall : St → List St) (fW : St → Nat) : Prop :=
  ∀ s k, (f s k).1 = (runL k (fall s)).1 ∧ (f s k).2 ≤ fW s + (runL k (fall s)).2

theorem tickC_fst {R : Type} (p : Option R × Nat) : (tickC p).1 = p.1 := rfl
theorem tickC_snd {R : Type} (p : Option R × Nat) : (tickC p).2 = p.2 + 1 := rfl

theorem repLoopC_spec {R : Type} (body : St → (St → Option R × Nat) → Option R × Nat) (bodyAll : St → List St)
    (bodyW : St → Nat) (hb : SpecC body bodyAll bodyW) (lo : Nat) (hi : Option Nat) :
    ∀ (fuel count : Nat) (last : Option Nat),
      SpecC (repLoopC body lo hi fuel count last) (repAll bodyAll lo hi fuel count last) (repW bodyW bodyAll lo hi fuel count last) := by
  intro fuel
  induction fuel with
  | zero => intro count last s k; refine ⟨?_, ?_⟩ <;> simp [repLoopC, repAll, repW, runL]
  | succ n ih =>
    intro count last s k
    rw [repLoopC.eq_def, repAll.eq_def, repW.eq_def]
    simp only []
    have hstep : ∀ l, 
        (body s (fun s' => repLoopC body lo hi n (count + 1) l s' k)).1 =
          (runL k ((bodyAll s).flatMap (fun s' => repAll bodyAll lo hi n (count + 1) l s'))).1 ∧
        (body s (fun s' => repLoopC body lo hi n (count + 1) l s' k)).2 ≤
          bodyW s + ((bodyAll s).map (fun s' => repW bodyW bodyAll lo hi n (count + 1) l s')).sum +
          (runL k ((bodyAll s).flatMap (fun s' => repAll bodyAll lo hi n (count + 1) l s'))).2 := by
      intro l
      have h1 := hb s (fun s' => repLoopC body lo hi n (count + 1) l s' k)
      have h2 := runL_le (fun s' => repLoopC body lo hi n (count + 1) l s' k)
        (fun a => runL k (repAll bodyAll lo hi n (count + 1) l a))
        (fun s' => repW bodyW bodyAll lo hi n (count + 1) l s') (bodyAll s)
        (fun a _ => ih (count + 1) l a k)
      rw [runL_flatMap]
      exact ⟨h1.1.trans h2.1, by omega⟩
    by_cases hc : count < lo
    · simp only [hc, if_true, tickC_fst, tickC_snd]
      have := hstep last
      exact ⟨this.1, by omega⟩
    · simp only [hc, if_false]
      by_cases hg : (canMore hi count && last != some s.pos) = true
      · simp only [hg, if_true]
        have hs := hstep (some s.pos)
        rw [runL_append]
        generalize body s (fun s' => repLoopC body lo hi n (count + 1) (some s.pos) s' k) = p at hs
        generalize runL k ((bodyAll s).flatMap (fun s' => repAll bodyAll lo hi n (count + 1) (some s.pos) s')) = q at hs
        rcases p with ⟨_ | r, c⟩ <;> rcases q with ⟨_ | r2, c2⟩ <;> simp only [orElseC] at hs ⊢
        · rw [runL_single]; exact ⟨rfl, by omega⟩
        · exact absurd hs.1 (by simp)
        · exact absurd hs.1 (by simp)
        · exact ⟨hs.1, by omega⟩
      · rw [if_neg hg, if_neg hg, if_neg hg, runL_single, tickC_fst, tickC_snd]
        exact ⟨rfl, by omega⟩

macro "leafc" : tactic => `(tactic| (refine ⟨?_, ?_⟩ <;> (try simp only [runL_single, tickC_fst, tickC_snd]) <;> (try simp [runL]) <;> (try omega)))

theorem Rx.mc_spec (r : Rx) : ∀ {R : Type}, SpecC (r.mc (R := R)) r.all r.W := by
  induction r with
  | eps => intro R s k; simp only [Rx.mc, Rx.all, Rx.W]; leafc
  | fail => intro R s k; simp only [Rx.mc, Rx.all, Rx.W]; leafc
  | chr cs =>
    intro R s k
    simp only [Rx.mc, Rx.all, Rx.W]
    cases s.rest with
    | nil => leafc
    | cons c t =>
      by_cases hc : cs.mem c = true
      · simp only [hc, if_true]; leafc
      · simp only [hc]; leafc
  | seq a b iha ihb =>
    intro R s k
    simp only [Rx.mc, Rx.all, Rx.W, tickC_fst, tickC_snd]
    have h1 := iha (R := R) s (fun s' => b.mc s' k)
    have h2 := runL_le (fun s' => b.mc s' k) (fun a => runL k (b.all a)) b.W (a.all s) (fun x _ => ihb (R := R) x k)
    rw [runL_flatMap]
    exact ⟨h1.1.trans h2.1, by omega⟩
  | alt a b iha ihb =>
    intro R s k
    simp only [Rx.mc, Rx.all, Rx.W]
    have h1 := iha (R := R) s k
    have h2 := ihb (R := R) s k
    rw [runL_append]
    generalize a.mc s k = p at h1
    generalize runL k (a.all s) = q at h1
    rcases p with ⟨_ | r, c⟩ <;> rcases q with ⟨_ | r2, c2⟩ <;> simp only [orElseC] at h1 ⊢
    · exact ⟨h2.1, by omega⟩
    · exact absurd h1.1 (by simp)
    · exact absurd h1.1 (by simp)
    · exact ⟨h1.1, by omega⟩
  | rep r lo hi ih =>
    intro R s k
    simp only [Rx.mc, Rx.all, Rx.W]
    exact repLoopC_spec r.mc r.all r.W (ih (R := R)) lo hi _ _ _ s k
  | grp i r ih =>
    intro R s k
    simp only [Rx.mc, Rx.all, Rx.W, tickC_fst, tickC_snd]
    have h1 := ih (R := R) s (fun s' => k { s' with caps := (i, s.pos, s'.pos) :: s'.caps })
    rw [runL_map]
    exact ⟨h1.1, by omega⟩
  | ahead r ih =>
    intro R s k
    simp only [Rx.mc, Rx.all, Rx.W]
    have h1 := ih (R := St) s (fun s' => (some s', 0))
    generalize r.mc (R := St) s (fun s' => (some s', 0)) = p at h1
    cases hl : r.all s with
    | nil =>
      rw [hl] at h1
      simp only [runL] at h1
      rcases p with ⟨_ | r, c⟩
      · simp only at h1; leafc
      · exact absurd h1.1 (by simp)
    | cons s1 tl =>
      rw [hl] at h1
      simp only [runL] at h1
      rcases p with ⟨_ | r, c⟩
      · exact absurd h1.1 (by simp)
      · simp only [Option.some.injEq] at h1
        simp only [runL_single]
        rw [h1.1]
        exact ⟨rfl, by omega⟩
  | nahead r ih =>
    intro R s k
    simp only [Rx.mc, Rx.all, Rx.W]
    have h1 := ih (R := St) s (fun s' => (some s', 0))
    generalize r.mc (R := St) s (fun s' => (some s', 0)) = p at h1
    cases hl : r.all s with
    | nil =>
      rw [hl] at h1
      simp only [runL] at h1
      rcases p with ⟨_ | r, c⟩
      · simp only at h1; simp only [runL_single]; exact ⟨trivial, by omega⟩
      · exact absurd h1.1 (by simp)
    | cons s1 tl =>
      rw [hl] at h1
      simp only [runL] at h1
      rcases p with ⟨_ | r, c⟩
      · exact absurd h1.1 (by simp)
      · simp only at h1; leafc
  | behind cs =>
    intro R s k
    simp only [Rx.mc, Rx.all, Rx.W]
    cases s.prev with
    | none => leafc
    | some c =>
      by_cases hc : cs.mem c = true
      · simp only [hc, if_true]; leafc
      · simp only [hc]; leafc
  | wordb w =>
    intro R s k
    simp only [Rx.mc, Rx.all, Rx.W]
    by_cases hc : (isWord w s.prev != isWord w s.rest.head?) = true
    · simp only [hc, if_true]; leafc
    · simp only [hc]; leafc
  | eos =>
    intro R s k
    simp only [Rx.mc, Rx.all, Rx.W]
    rcases s.rest with _ | ⟨c, _ | ⟨d, t⟩⟩
    · leafc
    · by_cases hc : (c == '\n') = true
      · simp only [hc, if_true]; leafc
      · simp only [hc]; leafc
    · leafc
  | bos =>
    intro R s k
    simp only [Rx.mc, Rx.all, Rx.W]
    by_cases hc : (s.pos == 0) = true
    · simp only [hc, if_true]; leafc
    · simp only [hc]; leafc

/-- the step-counting matcher computes the same result as `Rx.m` -/
theorem C16_steps_faithful (r : Rx) {R : Type} (s : St) (k : St → Option R × Nat) :
    (r.mc s k).1 = r.m s (fun s' => (k s').1) := by
  rw [(r.mc_spec s k).1, runL_fst, Rx.m_eq_findSome]

/-! ## Part H — a polynomial bound on the exploration cost `W` -/

theorem sum_map_le2 (F : Look) (l : List St) (g : St → Nat) (B B' : Nat)
    (h1 : ∀ a ∈ l, F.ok a.next = true → g a ≤ B)
    (h0 : ∀ a ∈ l, F.ok a.next = false → g a ≤ B') :
    (l.map g).sum ≤ cntX F l * B + l.length * B' := by
  induction l with
  | nil => simp [cntX_nil]
  | cons a t ih =>
    rw [List.map_cons, List.sum_cons, cntX_cons F, List.length_cons, Nat.add_mul, Nat.succ_mul]
    have iht := ih (fun x hx => h1 x (List.mem_cons_of_mem _ hx)) (fun x hx => h0 x (List.mem_cons_of_mem _ hx))
    have ha : g a ≤ cntX F [a] * B + B' := by
      by_cases hq : F.ok a.next = true
      · rw [cntX_single, if_pos hq, Nat.one_mul]
        exact Nat.le_trans (h1 a (List.mem_cons_self ..) hq) (Nat.le_add_right _ _)
      · have hq' : F.ok a.next = false := by simpa using hq
        exact Nat.le_trans (h0 a (List.mem_cons_self ..) hq') (Nat.le_add_left _ _)
    omega

/-- loops over one character class: linear in the remaining length -/
theorem repW_chr (cs : CharSet) (lo : Nat) (hi : Option Nat) :
    ∀ (fuel count : Nat) (last : Option Nat) (s : St),
      repW (Rx.chr cs).W (Rx.chr cs).all lo hi fuel count last s ≤ 2 * s.rest.length + 3 := by
  intro fuel
  induction fuel with
  | zero => intro count last s; simp [repW]
  | succ n ih =>
    intro count last s
    rw [repW.eq_def]
    have hw1 : (Rx.chr cs).W s = 1 := rfl
    simp only [hw1]
    rcases chr_all_cases cs s with h0 | ⟨s1, h1, hlen⟩
    · rw [h0]
      simp only [List.map_nil, List.sum_nil]
      split
      · omega
      · split <;> omega
    · rw [h1]
      simp only [List.map_cons, List.map_nil, List.sum_cons, List.sum_nil]
      split
      · have := ih (count + 1) last s1; omega
      · split
        · have := ih (count + 1) (some s.pos) s1; omega
        · omega

/-- bounded loops over one character class: bounded by the repetition count -/
theorem repW_chr_bounded (cs : CharSet) (lo h : Nat) :
    ∀ (fuel count : Nat) (last : Option Nat) (s : St),
      repW (Rx.chr cs).W (Rx.chr cs).all lo (some h) fuel count last s ≤ 2 * (max lo h - count) + 3 := by
  intro fuel
  induction fuel with
  | zero => intro count last s; simp [repW]
  | succ n ih =>
    intro count last s
    rw [repW.eq_def]
    have hw1 : (Rx.chr cs).W s = 1 := rfl
    simp only [hw1]
    rcases chr_all_cases cs s with h0 | ⟨s1, h1, hlen⟩
    · rw [h0]
      simp only [List.map_nil, List.sum_nil]
      split
      · omega
      · split <;> omega
    · rw [h1]
      simp only [List.map_cons, List.map_nil, List.sum_cons, List.sum_nil]
      split
      · have := ih (count + 1) last s1; omega
      · split
        · rename_i hc hg
          simp only [canMore, Bool.and_eq_true, decide_eq_true_eq] at hg
          have := ih (count + 1) (some s.pos) s1; omega
        · omega

section LoopW
variable (bodyW : St → Nat) (body : St → List St)

/-- bounded loop over a compound body -/
theorem repW_bounded (n w c lo h : Nat)
    (hrest : ∀ s s', s' ∈ body s → s'.rest.length ≤ s.rest.length)
    (hw : ∀ s : St, s.rest.length ≤ n → bodyW s ≤ w)
    (hc : ∀ s : St, s.rest.length ≤ n → (body s).length ≤ c) :
    ∀ (fuel count : Nat) (last : Option Nat) (s : St), s.rest.length ≤ n →
      repW bodyW body lo (some h) fuel count last s ≤ (1 + w) * (c + 1) ^ (max lo h - count) := by
  intro fuel
  induction fuel with
  | zero =>
    intro count last s _
    simp only [repW]
    exact Nat.le_trans (Nat.le_add_right 1 w) (Nat.le_mul_of_pos_right _ (Nat.pow_pos (Nat.succ_pos _)))
  | succ k ih =>
    intro count last s hs
    have hone : 1 ≤ (1 + w) * (c + 1) ^ (max lo h - count) :=
      Nat.le_trans (Nat.le_add_right 1 w) (Nat.le_mul_of_pos_right _ (Nat.pow_pos (Nat.succ_pos _)))
    have hstep : ∀ l, count < max lo h →
        1 + bodyW s + ((body s).map (fun s' => repW bodyW body lo (some h) k (count + 1) l s')).sum
          ≤ (1 + w) * (c + 1) ^ (max lo h - count) := by
      intro l hcount
      have h1 := sum_map_le (body s) (fun s' => repW bodyW body lo (some h) k (count + 1) l s') _
        (fun a ha => ih (count + 1) l a (Nat.le_trans (hrest _ _ ha) hs))
      have h2 : (body s).length * ((1 + w) * (c + 1) ^ (max lo h - (count + 1)))
          ≤ c * ((1 + w) * (c + 1) ^ (max lo h - (count + 1))) := Nat.mul_le_mul_right _ (hc s hs)
      have h3 : max lo h - count = (max lo h - (count + 1)) + 1 := by omega
      have h4 := hw s hs
      have h5 : 1 + w ≤ (1 + w) * (c + 1) ^ (max lo h - (count + 1)) :=
        Nat.le_mul_of_pos_right _ (Nat.pow_pos (Nat.succ_pos _))
      rw [h3, Nat.pow_succ, ← Nat.mul_assoc, Nat.mul_succ]
      rw [Nat.mul_comm c] at h2
      omega
    rw [repW.eq_def]
    simp only []
    split
    · rename_i hcl
      exact hstep last (by omega)
    · split
      · rename_i hcl hg
        simp only [canMore, Bool.and_eq_true, decide_eq_true_eq] at hg
        exact hstep (some s.pos) (by omega)
      · exact hone

/-- unbounded loop over a compound body of which at most one result per iteration can start another iteration -/
theorem repW_live (F : Look) (hF : ∀ s, F.ok s.next = false → body s = []) (n w c : Nat)
    (hrest : ∀ s s', s' ∈ body s → s'.rest.length ≤ s.rest.length)
    (hw : ∀ s : St, s.rest.length ≤ n → bodyW s ≤ w)
    (hl : ∀ s : St, s.rest.length ≤ n → cntX F (body s) ≤ 1)
    (hc : ∀ s : St, s.rest.length ≤ n → (body s).length ≤ c) (lo : Nat) (hi : Option Nat) :
    ∀ (fuel count : Nat) (last : Option Nat) (s : St), s.rest.length ≤ n →
      repW bodyW body lo hi fuel count last s ≤ fuel * ((1 + w) * (c + 1)) + 1 := by
  intro fuel
  induction fuel with
  | zero => intro count last s _; simp [repW]
  | succ k ih =>
    intro count last s hs
    have hstep : ∀ l, 1 + bodyW s + ((body s).map (fun s' => repW bodyW body lo hi k (count + 1) l s')).sum
          ≤ (k + 1) * ((1 + w) * (c + 1)) + 1 := by
      intro l
      have h1 := sum_map_le2 F (body s) (fun s' => repW bodyW body lo hi k (count + 1) l s')
        (k * ((1 + w) * (c + 1)) + 1) (1 + w)
        (fun a ha _ => ih (count + 1) l a (Nat.le_trans (hrest _ _ ha) hs))
        (fun a ha hf => by
          have hb := hF a hf
          have hwa := hw a (Nat.le_trans (hrest _ _ ha) hs)
          cases k with
          | zero => simp only [repW]; omega
          | succ j =>
            rw [repW.eq_def]
            simp only [hb, List.map_nil, List.sum_nil]
            split
            · omega
            · split <;> omega)
      have h2 := hl s hs
      have h3 := hc s hs
      have h4 := hw s hs
      have h5 : cntX F (body s) * (k * ((1 + w) * (c + 1)) + 1) ≤ 1 * (k * ((1 + w) * (c + 1)) + 1) :=
        Nat.mul_le_mul_right _ h2
      have h6 : (body s).length * (1 + w) ≤ c * (1 + w) := Nat.mul_le_mul_right _ h3
      have h7 : (k + 1) * ((1 + w) * (c + 1)) = k * ((1 + w) * (c + 1)) + (c * (1 + w) + (1 + w)) := by
        rw [Nat.succ_mul, Nat.mul_succ, Nat.mul_comm (1 + w) c]
      omega
    rw [repW.eq_def]
    simp only []
    split
    · exact hstep last
    · split
      · exact hstep (some s.pos)
      · omega

end LoopW

/-- `r.wb = some (c, d)`: exploring all paths of `r` from a state with `n` characters left costs at most `c (n+1)^d` steps -/
def Rx.wb : Rx → Option Bnd
  | .seq a b =>
    match a.wb, a.cnt [] .top [], b.wb with
    | some wa, some pa, some wb => some (Bnd.one.add (wa.add (pa.mul wb)))
    | _, _, _ => none
  | .alt a b =>
    match a.wb, b.wb with
    | some wa, some wb => some (Bnd.one.add (wa.add wb))
    | _, _ => none
  | .grp _ r => match r.wb with
    | some w => some (Bnd.one.add w)
    | none => none
  | .ahead r => match r.wb with
    | some w => some (Bnd.one.add w)
    | none => none
  | .nahead r => match r.wb with
    | some w => some (Bnd.one.add w)
    | none => none
  | .rep r lo hi =>
    match r.chrOf with
    | some _ =>
      match hi with
      | some h => some (2 * max lo h + 3, 0)
      | none => some (3, 1)
    | none =>
      match r.wb, r.cnt [] .top [] with
      | some w, some c =>
        match hi with
        | some h => some ((Bnd.one.add w).mul ((c.add .one).pow (max lo h)))
        | none =>
          match r.cnt [] (r.first .top) [] with
          | some cl => if cl.le1 then some (Bnd.one.add (Bnd.mul (lo + 2, 1) ((Bnd.one.add w).mul (c.add .one)))) else none
          | none => none
      | _, _ => none
  | _ => some .one

theorem Bnd.one_add_val (w : Bnd) (n : Nat) : 1 + w.val n ≤ (Bnd.one.add w).val n := by
  have := Bnd.val_add Bnd.one w n
  rw [Bnd.val_one] at this
  exact this

theorem Rx.cnt_top_length (r : Rx) (c : Bnd) (h : r.cnt [] .top [] = some c) (n : Nat) (s : St) (hs : s.rest.length ≤ n) :
    (r.all s).length ≤ c.val n := by
  have := r.cnt_sound_look .top [] c h n s hs (Deny.nil _)
  rw [cntX_top] at this
  exact this

theorem Rx.wb_sound (r : Rx) : ∀ (b : Bnd), r.wb = some b → ∀ (n : Nat) (s : St), s.rest.length ≤ n → r.W s ≤ b.val n := by
  induction r with
  | seq a b iha ihb =>
    intro bd hb n s hs
    simp only [Rx.wb] at hb
    split at hb
    · rename_i wa pa wb hwa hpa hwb
      simp only [Option.some.injEq] at hb; subst hb
      simp only [Rx.W]
      have h1 := iha wa hwa n s hs
      have h2 := sum_map_le (a.all s) b.W (wb.val n)
        (fun x hx => ihb wb hwb n x (Nat.le_trans (a.all_rest_le _ _ hx) hs))
      have h3 := Rx.cnt_top_length a pa hpa n s hs
      have h4 : (a.all s).length * wb.val n ≤ pa.val n * wb.val n := Nat.mul_le_mul_right _ h3
      refine Nat.le_trans ?_ (Bnd.one_add_val _ n)
      have := Bnd.val_add wa (pa.mul wb) n
      rw [Bnd.val_mul] at this
      omega
    · cases hb
  | alt a b iha ihb =>
    intro bd hb n s hs
    simp only [Rx.wb] at hb
    split at hb
    · rename_i wa wb hwa hwb
      simp only [Option.some.injEq] at hb; subst hb
      simp only [Rx.W]
      have h1 := iha wa hwa n s hs
      have h2 := ihb wb hwb n s hs
      refine Nat.le_trans ?_ (Bnd.one_add_val _ n)
      have := Bnd.val_add wa wb n
      omega
    · cases hb
  | grp i r ih =>
    intro bd hb n s hs
    simp only [Rx.wb] at hb
    split at hb
    · rename_i w hw
      simp only [Option.some.injEq] at hb; subst hb
      simp only [Rx.W]
      have h1 := ih w hw n s hs
      exact Nat.le_trans (by omega) (Bnd.one_add_val _ n)
    · cases hb
  | ahead r ih =>
    intro bd hb n s hs
    simp only [Rx.wb] at hb
    split at hb
    · rename_i w hw
      simp only [Option.some.injEq] at hb; subst hb
      simp only [Rx.W]
      have h1 := ih w hw n s hs
      exact Nat.le_trans (by omega) (Bnd.one_add_val _ n)
    · cases hb
  | nahead r ih =>
    intro bd hb n s hs
    simp only [Rx.wb] at hb
    split at hb
    · rename_i w hw
      simp only [Option.some.injEq] at hb; subst hb
      simp only [Rx.W]
      have h1 := ih w hw n s hs
      exact Nat.le_trans (by omega) (Bnd.one_add_val _ n)
    · cases hb
  | rep r lo hi ih =>
    intro bd hb n s hs
    simp only [Rx.wb] at hb
    have hF : ∀ s : St, (r.first .top).ok s.next = false → r.all s = [] := fun s h => r.all_eq_nil_of_first s h
    split at hb
    · rename_i cs hcs
      have := Rx.chrOf_eq hcs
      subst this
      show repW (Rx.chr cs).W (Rx.chr cs).all lo hi _ 0 none s ≤ _
      split at hb
      · rename_i h
        simp only [Option.some.injEq] at hb; subst hb
        have := repW_chr_bounded cs lo h (s.rest.length + lo + 2) 0 none s
        simp only [Bnd.val, Nat.pow_zero, Nat.mul_one]
        omega
      · simp only [Option.some.injEq] at hb; subst hb
        have := repW_chr cs lo none (s.rest.length + lo + 2) 0 none s
        simp only [Bnd.val, Nat.pow_one]
        omega
    · split at hb
      · rename_i w c hw hc
        show repW r.W r.all lo hi _ 0 none s ≤ _
        split at hb
        · rename_i h
          simp only [Option.some.injEq] at hb; subst hb
          have := repW_bounded r.W r.all n (w.val n) (c.val n) lo h
            (fun a b hab => r.all_rest_le a b hab)
            (fun a ha => ih w hw n a ha)
            (fun a ha => Rx.cnt_top_length r c hc n a ha)
            (s.rest.length + lo + 2) 0 none s hs
          rw [Bnd.val_mul, Bnd.val_pow]
          refine Nat.le_trans this ?_
          rw [Nat.sub_zero]
          refine Nat.mul_le_mul (Bnd.one_add_val _ n) (Nat.pow_le_pow_left ?_ _)
          have := Bnd.val_add c Bnd.one n
          rw [Bnd.val_one] at this
          exact this
        · split at hb
          · rename_i cl hcl
            split at hb
            · rename_i hlive
              simp only [Option.some.injEq] at hb; subst hb
              have := repW_live r.W r.all (r.first .top) hF n (w.val n) (c.val n)
                (fun a b hab => r.all_rest_le a b hab)
                (fun a ha => ih w hw n a ha)
                (fun a ha => Nat.le_trans (r.cnt_sound_look _ [] cl hcl n a ha (Deny.nil _)) (Bnd.val_le1 hlive _))
                (fun a ha => Rx.cnt_top_length r c hc n a ha) lo none
                (s.rest.length + lo + 2) 0 none s hs
              refine Nat.le_trans ?_ (Bnd.one_add_val _ n)
              rw [Bnd.val_mul, Bnd.val_mul]
              have h1 : s.rest.length + lo + 2 ≤ Bnd.val (lo + 2, 1) n := by
                simp only [Bnd.val, Nat.pow_one]
                rw [Nat.mul_succ, Nat.add_mul]
                have : n ≤ lo * n + 2 * n := by omega
                omega
              have h2 : (1 + w.val n) * (c.val n + 1) ≤ (Bnd.one.add w).val n * (c.add Bnd.one).val n := by
                refine Nat.mul_le_mul (Bnd.one_add_val _ n) ?_
                have := Bnd.val_add c Bnd.one n
                rw [Bnd.val_one] at this
                exact this
              have h3 := Nat.mul_le_mul h1 h2
              omega
            · cases hb
          · cases hb
      · cases hb
  | eps => intro b hb n s _; simp only [Rx.wb, Option.some.injEq] at hb; subst hb; rw [Bnd.val_one]; exact Nat.le_refl _
  | fail => intro b hb n s _; simp only [Rx.wb, Option.some.injEq] at hb; subst hb; rw [Bnd.val_one]; exact Nat.le_refl _
  | chr _ => intro b hb n s _; simp only [Rx.wb, Option.some.injEq] at hb; subst hb; rw [Bnd.val_one]; exact Nat.le_refl _
  | behind _ => intro b hb n s _; simp only [Rx.wb, Option.some.injEq] at hb; subst hb; rw [Bnd.val_one]; exact Nat.le_refl _
  | wordb _ => intro b hb n s _; simp only [Rx.wb, Option.some.injEq] at hb; subst hb; rw [Bnd.val_one]; exact Nat.le_refl _
  | eos => intro b hb n s _; simp only [Rx.wb, Option.some.injEq] at hb; subst hb; rw [Bnd.val_one]; exact Nat.le_refl _
  | bos => intro b hb n s _; simp only [Rx.wb, Option.some.injEq] at hb; subst hb; rw [Bnd.val_one]; exact Nat.le_refl _

theorem runL_snd_le {R : Type} (k : St → Option R × Nat) (K : Nat) (hk : ∀ s, (k s).2 ≤ K) (l : List St) :
    (runL k l).2 ≤ l.length * K := by
  induction l with
  | nil => simp [runL]
  | cons a t ih =>
    simp only [runL, List.length_cons, Nat.succ_mul]
    have := hk a
    rcases h : k a with ⟨_ | r, c⟩ <;> rw [h] at this <;> simp only at this ⊢ <;> omega

/-- MAIN (steps, any continuation): if both analyses succeed, the number of matcher steps is polynomial:
    `w (n+1)^dw` own steps plus at most `p (n+1)^dp` calls of the continuation -/
theorem C16_det_steps_bound (r : Rx) (w p : Bnd) (hw : r.wb = some w) (hp : r.cnt [] .top [] = some p)
    {R : Type} (s : St) (k : St → Option R × Nat) (K : Nat) (hk : ∀ s', (k s').2 ≤ K) :
    (r.mc s k).2 ≤ w.1 * (s.rest.length + 1) ^ w.2 + p.1 * (s.rest.length + 1) ^ p.2 * K := by
  have h1 := (r.mc_spec s k).2
  have h2 := r.wb_sound w hw s.rest.length s (Nat.le_refl _)
  have h3 := runL_snd_le k K hk (r.all s)
  have h4 := Rx.cnt_top_length r p hp s.rest.length s (Nat.le_refl _)
  have h5 : (r.all s).length * K ≤ p.val s.rest.length * K := Nat.mul_le_mul_right _ h4
  simp only [Bnd.val] at h2 h5
  omega

/-! ## Part I — loops in tail position: the continuation always succeeds -/

/-- a continuation that always succeeds, at no cost (the continuation of `matchHere … false`) -/
def TotalK {R : Type} (k : St → Option R × Nat) : Prop := ∀ s, (k s).1.isSome = true ∧ (k s).2 = 0

theorem runL_snd_le_mem {R : Type} (k : St → Option R × Nat) (K : Nat) (l : List St) (hk : ∀ s ∈ l, (k s).2 ≤ K) :
    (runL k l).2 ≤ l.length * K := by
  induction l with
  | nil => simp [runL]
  | cons a t ih =>
    simp only [runL, List.length_cons, Nat.succ_mul]
    have := hk a (List.mem_cons_self ..)
    have iht := ih (fun x hx => hk x (List.mem_cons_of_mem _ hx))
    rcases h : k a with ⟨_ | r, c⟩ <;> rw [h] at this <;> simp only at this ⊢ <;> omega

/-- if the continuation succeeds on every result, only the first result is tried -/
theorem runL_total {R : Type} (k : St → Option R × Nat) (B : Nat) (l : List St)
    (hk : ∀ s ∈ l, (k s).1.isSome = true ∧ (k s).2 ≤ B) : (runL k l).2 ≤ B := by
  cases l with
  | nil => simp [runL]
  | cons a t =>
    have := hk a (List.mem_cons_self ..)
    simp only [runL]
    rcases h : k a with ⟨_ | r, c⟩ <;> rw [h] at this <;> simp only at this ⊢
    · exact absurd this.1 (by simp)
    · exact this.2

theorem repLoopC_tail {R : Type} (body : St → (St → Option R × Nat) → Option R × Nat) (bodyAll : St → List St)
    (bodyW : St → Nat) (hb : SpecC body bodyAll bodyW) (n w c : Nat)
    (hrest : ∀ s s', s' ∈ bodyAll s → s'.rest.length ≤ s.rest.length)
    (hw : ∀ s : St, s.rest.length ≤ n → bodyW s ≤ w)
    (hc : ∀ s : St, s.rest.length ≤ n → (bodyAll s).length ≤ c)
    (lo : Nat) (hi : Option Nat) (k : St → Option R × Nat) (hk : TotalK k) :
    ∀ (fuel count : Nat) (last : Option Nat) (s : St), s.rest.length ≤ n →
      (repLoopC body lo hi fuel count last s k).2 ≤ (c + 1) ^ (lo - count) * (fuel * (1 + w) + c + 1) ∧
      (lo ≤ count → 1 ≤ fuel → (repLoopC body lo hi fuel count last s k).1.isSome = true) := by
  intro fuel
  induction fuel with
  | zero =>
    intro count last s _
    refine ⟨?_, fun _ h => by omega⟩
    simp only [repLoopC]
    exact Nat.le_trans (by omega) (Nat.le_mul_of_pos_left _ (Nat.pow_pos (Nat.succ_pos _)))
  | succ f ih =>
    intro count last s hs
    rw [repLoopC.eq_def]
    simp only []
    have hsp := fun l => hb s (fun s' => repLoopC body lo hi f (count + 1) l s' k)
    have hws := hw s hs
    have hcs := hc s hs
    by_cases hcl : count < lo
    · rw [if_pos hcl]
      refine ⟨?_, fun h _ => by omega⟩
      rw [tickC_snd]
      have h1 := (hsp last).2
      have h2 := runL_snd_le_mem (fun s' => repLoopC body lo hi f (count + 1) last s' k)
        ((c + 1) ^ (lo - (count + 1)) * (f * (1 + w) + c + 1)) (bodyAll s)
        (fun a ha => (ih (count + 1) last a (Nat.le_trans (hrest _ _ ha) hs)).1)
      have h3 : lo - count = (lo - (count + 1)) + 1 := by omega
      rw [h3, Nat.pow_succ]
      have hP : 1 ≤ (c + 1) ^ (lo - (count + 1)) := Nat.pow_pos (Nat.succ_pos _)
      generalize (c + 1) ^ (lo - (count + 1)) = P at h2 hP ⊢
      have h4 : (bodyAll s).length * (P * (f * (1 + w) + c + 1)) ≤ c * (P * (f * (1 + w) + c + 1)) :=
        Nat.mul_le_mul_right _ hcs
      have ha : (f + 1) * (1 + w) + c + 1 = (f * (1 + w) + c + 1) + (1 + w) := by rw [Nat.succ_mul]; omega
      have h5 : P * (c + 1) * ((f + 1) * (1 + w) + c + 1)
          = c * (P * (f * (1 + w) + c + 1)) + P * (f * (1 + w) + c + 1) + P * (c + 1) * (1 + w) := by
        rw [ha, Nat.mul_add, Nat.mul_right_comm P (c + 1), Nat.mul_succ, Nat.mul_comm _ c]
      have h6 : 1 * 1 * (1 + w) ≤ P * (c + 1) * (1 + w) :=
        Nat.mul_le_mul (Nat.mul_le_mul hP (by omega)) (Nat.le_refl _)
      omega
    · rw [if_neg hcl]
      have hlo : lo - count = 0 := by omega
      rw [hlo, Nat.pow_zero, Nat.one_mul]
      by_cases hg : (canMore hi count && last != some s.pos) = true
      · rw [if_pos hg]
        have h1 := hsp (some s.pos)
        have h2 : (runL (fun s' => repLoopC body lo hi f (count + 1) (some s.pos) s' k) (bodyAll s)).2 ≤ f * (1 + w) + c + 1 := by
          cases f with
          | zero =>
            have := runL_snd_le_mem (fun s' => repLoopC body lo hi 0 (count + 1) (some s.pos) s' k) 1 (bodyAll s)
              (fun a _ => by simp [repLoopC])
            omega
          | succ g =>
            refine runL_total _ _ _ (fun a ha => ?_)
            have := ih (count + 1) (some s.pos) a (Nat.le_trans (hrest _ _ ha) hs)
            have hlo' : lo - (count + 1) = 0 := by omega
            rw [hlo', Nat.pow_zero, Nat.one_mul] at this
            exact ⟨this.2 (by omega) (by omega), this.1⟩
        generalize body s (fun s' => repLoopC body lo hi f (count + 1) (some s.pos) s' k) = p at h1
        have hks := hk s
        rcases p with ⟨_ | r, pc⟩ <;> simp only [orElseC] at h1 ⊢
        · refine ⟨?_, fun _ _ => hks.1⟩
          rw [hks.2, Nat.succ_mul]; omega
        · refine ⟨?_, fun _ _ => rfl⟩
          rw [Nat.succ_mul]; omega
      · rw [if_neg hg, tickC_snd, tickC_fst]
        have hks := hk s
        refine ⟨?_, fun _ _ => hks.1⟩
        rw [hks.2, Nat.succ_mul]; omega

/-! ### a loop followed by a check that succeeds whenever the loop body is ambiguous -/

/-- situations in which `r` certainly has a result -/
def Rx.must : Rx → Look
  | .eps => .top
  | .chr cs => ⟨cs, false⟩
  | .eos => ⟨[], true⟩
  | .ahead r => r.must
  | .grp _ r => r.must
  | .alt a b => a.must.union b.must
  | .rep _ lo _ => if lo = 0 then .top else .bot
  | _ => .bot

theorem Rx.must_sound (r : Rx) : ∀ (s : St), r.must.ok s.next = true → r.all s ≠ [] := by
  induction r with
  | eps => intro s _; simp [Rx.all]
  | chr cs =>
    intro s h
    simp only [Rx.must, St.next] at h
    simp only [Rx.all]
    cases hrest : s.rest with
    | nil => rw [hrest] at h; simp [Look.ok] at h
    | cons c t =>
      rw [hrest] at h
      simp only [List.head?_cons, Look.ok] at h
      simp [h]
  | eos =>
    intro s h
    simp only [Rx.must, St.next] at h
    simp only [Rx.all]
    cases hrest : s.rest with
    | nil => simp
    | cons c t => rw [hrest] at h; simp [Look.ok, CharSet.mem] at h
  | ahead r ih =>
    intro s h
    have := ih s h
    simp only [Rx.all]
    cases hl : r.all s with
    | nil => exact absurd hl this
    | cons a t => simp
  | grp i r ih =>
    intro s h
    have := ih s h
    simp only [Rx.all, ne_eq, List.map_eq_nil_iff]
    exact this
  | alt a b iha ihb =>
    intro s h
    simp only [Rx.must, Look.union_ok, Bool.or_eq_true] at h
    simp only [Rx.all, ne_eq, List.append_eq_nil_iff, not_and]
    rcases h with h | h
    · intro h0; exact absurd h0 (iha s h)
    · intro _; exact ihb s h
  | rep r lo hi _ =>
    intro s h
    simp only [Rx.must] at h
    split at h
    · rename_i hlo
      subst hlo
      simp only [Rx.all]
      rw [show s.rest.length + 0 + 2 = (s.rest.length + 1) + 1 from rfl, repAll.eq_def]
      simp only [Nat.lt_irrefl, if_false]
      split <;> simp
    · rw [Look.bot_ok] at h; cases h
  | fail => intro s h; simp only [Rx.must, Look.bot_ok] at h; cases h
  | seq _ _ _ _ => intro s h; simp only [Rx.must, Look.bot_ok] at h; cases h
  | nahead _ _ => intro s h; simp only [Rx.must, Look.bot_ok] at h; cases h
  | behind _ => intro s h; simp only [Rx.must, Look.bot_ok] at h; cases h
  | wordb _ => intro s h; simp only [Rx.must, Look.bot_ok] at h; cases h
  | bos => intro s h; simp only [Rx.must, Look.bot_ok] at h; cases h

/-- when every attempt fails, all of them are made -/
theorem runL_none {R : Type} (k : St → Option R × Nat) (l : List St) (h : (runL k l).1 = none) :
    (runL k l).2 = (l.map (fun a => (k a).2)).sum ∧ ∀ a ∈ l, (k a).1 = none := by
  induction l with
  | nil => simp [runL]
  | cons a t ih =>
    simp only [runL] at h ⊢
    rcases hk : k a with ⟨_ | r, c⟩
    · rw [hk] at h
      simp only at h
      have iht := ih h
      simp only [List.map_cons, List.sum_cons, hk]
      refine ⟨by rw [iht.1], ?_⟩
      intro x hx
      rcases List.mem_cons.1 hx with hx | hx
      · subst hx; rw [hk]
      · exact iht.2 x hx
    · rw [hk] at h; simp at h

/-- failing attempts cost at most `Fb` each, the first successful one at most `S` -/
theorem runL_le_fail_succ {R : Type} (k : St → Option R × Nat) (Fb S : Nat) (l : List St)
    (h : ∀ a ∈ l, (k a).2 ≤ S ∧ ((k a).1 = none → (k a).2 ≤ Fb)) : (runL k l).2 ≤ l.length * Fb + S := by
  induction l with
  | nil => simp [runL]
  | cons a t ih =>
    have ha := h a (List.mem_cons_self ..)
    have iht := ih (fun x hx => h x (List.mem_cons_of_mem _ hx))
    simp only [runL, List.length_cons, Nat.succ_mul]
    rcases hk : k a with ⟨_ | r, c⟩ <;> rw [hk] at ha <;> simp only at ha ⊢
    · have := ha.2 trivial; omega
    · have := ha.1; omega

theorem runL_total_isSome {R : Type} (k : St → Option R × Nat) (l : List St) (hl : l ≠ [])
    (hk : ∀ s, (k s).1.isSome = true) : (runL k l).1.isSome = true := by
  cases l with
  | nil => exact absurd rfl hl
  | cons a t =>
    have := hk a
    simp only [runL]
    rcases h : k a with ⟨_ | r, c⟩ <;> rw [h] at this <;> simp at this ⊢

def failB (w c e f : Nat) : Nat := f * ((c + 1) * (2 + w + e)) + 1
def succB (w c e f : Nat) : Nat := f * (1 + w + e + c * failB w c e f) + 1

theorem failB_succ (w c e f : Nat) : failB w c e (f + 1) = failB w c e f + (c + 1) * (2 + w + e) := by
  simp only [failB, Nat.succ_mul]; omega

theorem succB_step (w c e f : Nat) : succB w c e f + (1 + w + e + c * failB w c e f) ≤ succB w c e (f + 1) := by
  have h1 : failB w c e f ≤ failB w c e (f + 1) := by rw [failB_succ]; omega
  have h2 : c * failB w c e f ≤ c * failB w c e (f + 1) := Nat.mul_le_mul_left _ h1
  have h3 : f * (1 + w + e + c * failB w c e f) ≤ f * (1 + w + e + c * failB w c e (f + 1)) :=
    Nat.mul_le_mul_left _ (by omega)
  simp only [succB, Nat.succ_mul] at h3 ⊢
  omega

theorem repLoopC_guard {R : Type} (body : St → (St → Option R × Nat) → Option R × Nat) (bodyAll : St → List St)
    (bodyW : St → Nat) (hb : SpecC body bodyAll bodyW) (F M : Look)
    (hF : ∀ s, F.ok s.next = false → bodyAll s = []) (n w c e : Nat)
    (hrest : ∀ s s', s' ∈ bodyAll s → s'.rest.length ≤ s.rest.length)
    (hw : ∀ s : St, s.rest.length ≤ n → bodyW s ≤ w)
    (hc : ∀ s : St, s.rest.length ≤ n → (bodyAll s).length ≤ c)
    (k' : St → Option R × Nat)
    (hke : ∀ s : St, s.rest.length ≤ n → (k' s).2 ≤ e)
    (hkM : ∀ s : St, s.rest.length ≤ n → M.ok s.next = true → (k' s).1.isSome = true)
    (hG : ∀ s : St, s.rest.length ≤ n → M.ok s.next = false → cntX F (bodyAll s) ≤ 1)
    (lo : Nat) (hi : Option Nat) :
    ∀ (fuel count : Nat) (last : Option Nat) (s : St), s.rest.length ≤ n →
      (lo ≤ count → (repLoopC body lo hi fuel count last s k').1 = none →
        (repLoopC body lo hi fuel count last s k').2 ≤ failB w c e fuel) ∧
      (repLoopC body lo hi fuel count last s k').2 ≤ (c + 1) ^ (lo - count) * succB w c e fuel := by
  intro fuel
  induction fuel with
  | zero =>
    intro count last s _
    simp only [repLoopC, failB, succB, Nat.zero_mul, Nat.zero_add, Nat.mul_one]
    exact ⟨fun _ _ => Nat.le_refl _, Nat.pow_pos (Nat.succ_pos _)⟩
  | succ f ih =>
    intro count last s hs
    have hws := hw s hs
    have hcs := hc s hs
    have hes := hke s hs
    -- a node from which the body cannot match
    have hdead : ∀ (l : Option Nat) (a : St), a ∈ bodyAll s → lo ≤ count + 1 → F.ok a.next = false →
        (repLoopC body lo hi f (count + 1) l a k').2 ≤ 2 + w + e := by
      intro l a ha hlo hf
      have hal := Nat.le_trans (hrest _ _ ha) hs
      have hnil := hF a hf
      have hwa := hw a hal
      have hea := hke a hal
      cases f with
      | zero => simp only [repLoopC]; omega
      | succ g =>
        rw [repLoopC.eq_def]
        simp only []
        rw [if_neg (by omega)]
        split
        · have hsp := (hb a (fun s' => repLoopC body lo hi g (count + 1 + 1) (some a.pos) s' k')).2
          rw [hnil] at hsp
          simp only [runL] at hsp
          generalize body a (fun s' => repLoopC body lo hi g (count + 1 + 1) (some a.pos) s' k') = p at hsp
          rcases p with ⟨_ | r, pc⟩ <;> simp only [orElseC] at hsp ⊢ <;> omega
        · rw [tickC_snd]; omega
    rw [repLoopC.eq_def]
    simp only []
    by_cases hcl : count < lo
    · rw [if_pos hcl]
      refine ⟨fun h _ => by omega, ?_⟩
      rw [tickC_snd]
      have h1 := (hb s (fun s' => repLoopC body lo hi f (count + 1) last s' k')).2
      have h2 := runL_snd_le_mem (fun s' => repLoopC body lo hi f (count + 1) last s' k')
        ((c + 1) ^ (lo - (count + 1)) * succB w c e f) (bodyAll s)
        (fun a ha => (ih (count + 1) last a (Nat.le_trans (hrest _ _ ha) hs)).2)
      have h3 : lo - count = (lo - (count + 1)) + 1 := by omega
      rw [h3, Nat.pow_succ]
      have hP : 1 ≤ (c + 1) ^ (lo - (count + 1)) := Nat.pow_pos (Nat.succ_pos _)
      generalize (c + 1) ^ (lo - (count + 1)) = P at h2 hP ⊢
      have h4 : (bodyAll s).length * (P * succB w c e f) ≤ c * (P * succB w c e f) := Nat.mul_le_mul_right _ hcs
      have h5 := succB_step w c e f
      have h6 : P * (c + 1) * (succB w c e f + (1 + w + e + c * failB w c e f)) ≤ P * (c + 1) * succB w c e (f + 1) :=
        Nat.mul_le_mul_left _ h5
      have h7 : P * (c + 1) * (succB w c e f + (1 + w + e + c * failB w c e f))
          = c * (P * succB w c e f) + P * succB w c e f + P * (c + 1) * (1 + w + e + c * failB w c e f) := by
        rw [Nat.mul_add, Nat.mul_right_comm P (c + 1), Nat.mul_succ, Nat.mul_comm _ c]
      have h8 : 1 * 1 * (1 + w) ≤ P * (c + 1) * (1 + w + e + c * failB w c e f) :=
        Nat.mul_le_mul (Nat.mul_le_mul hP (by omega)) (by omega)
      omega
    · rw [if_neg hcl]
      have hlo : lo - count = 0 := by omega
      rw [hlo, Nat.pow_zero, Nat.one_mul]
      have hlo1 : lo - (count + 1) = 0 := by omega
      have hS1 : e + 1 ≤ succB w c e (f + 1) := by
        have := succB_step w c e f; omega
      have hF1 : e + 1 ≤ failB w c e (f + 1) := by
        rw [failB_succ, Nat.succ_mul]; omega
      by_cases hg : (canMore hi count && last != some s.pos) = true
      · rw [if_pos hg]
        have hsp := hb s (fun s' => repLoopC body lo hi f (count + 1) (some s.pos) s' k')
        have hchild := fun a (ha : a ∈ bodyAll s) => ih (count + 1) (some s.pos) a (Nat.le_trans (hrest _ _ ha) hs)
        constructor
        · -- the node fails
          intro _ hfail
          generalize hq : body s (fun s' => repLoopC body lo hi f (count + 1) (some s.pos) s' k') = q at hsp hfail
          rcases q with ⟨_ | r, pc⟩ <;> simp only [orElseC] at hsp hfail ⊢
          · have hM : M.ok s.next = false := by
              cases hm : M.ok s.next with
              | false => rfl
              | true => have := hkM s hs hm; rw [hfail] at this; cases this
            have hrun := runL_none _ _ hsp.1.symm
            have hsum := sum_map_le2 F (bodyAll s)
              (fun a => (repLoopC body lo hi f (count + 1) (some s.pos) a k').2) (failB w c e f) (2 + w + e)
              (fun a ha _ => (hchild a ha).1 (by omega) (hrun.2 a ha))
              (fun a ha hf => hdead _ a ha (by omega) hf)
            have hg1 := hG s hs hM
            have h1 : cntX F (bodyAll s) * failB w c e f ≤ 1 * failB w c e f := Nat.mul_le_mul_right _ hg1
            have h2 : (bodyAll s).length * (2 + w + e) ≤ c * (2 + w + e) := Nat.mul_le_mul_right _ hcs
            rw [failB_succ, Nat.succ_mul]
            rw [hrun.1] at hsp
            omega
          · cases hfail
        · -- any outcome
          have hrun := runL_le_fail_succ (fun s' => repLoopC body lo hi f (count + 1) (some s.pos) s' k')
            (failB w c e f) (succB w c e f) (bodyAll s)
            (fun a ha => by
              have := hchild a ha
              rw [hlo1, Nat.pow_zero, Nat.one_mul] at this
              exact ⟨this.2, this.1 (by omega)⟩)
          have h2 : (bodyAll s).length * failB w c e f ≤ c * failB w c e f := Nat.mul_le_mul_right _ hcs
          have h3 := succB_step w c e f
          generalize body s (fun s' => repLoopC body lo hi f (count + 1) (some s.pos) s' k') = q at hsp
          rcases q with ⟨_ | r, pc⟩ <;> simp only [orElseC] at hsp ⊢ <;> omega
      · rw [if_neg hg, tickC_snd]
        exact ⟨fun _ _ => by omega, by omega⟩

/-- the bound for a loop over `r` (at least `lo` times) followed by a check of cost `e` that certainly succeeds in
    the situations `M`: outside `M` at most one result of the body per iteration can start another iteration -/
def guardBound (r : Rx) (lo : Nat) (e : Bnd) (M : Look) : Option Bnd :=
  match r.wb, r.cnt [] .top [], r.cnt [] (r.first .top) M.cs with
  | some w, some c, some cl =>
    if cl.le1 then
      let fu : Bnd := (lo + 2, 1)
      let w1 := Bnd.one.add w
      let c1 := c.add .one
      let fb := Bnd.one.add (fu.mul (c1.mul (w1.add (e.add .one))))
      let sb := Bnd.one.add (fu.mul ((w1.add e).add (c.mul fb)))
      some (Bnd.one.add ((c1.pow lo).mul sb))
    else none
  | _, _, _ => none

/-- `r.costT = some (c, d)`: when the continuation always succeeds (at no cost), matching `r` from a state with `n`
    characters left takes at most `c (n+1)^d` steps.  A loop in tail position only needs a body whose own cost and
    number of results are polynomial: after the first result of the body the rest of the match cannot fail.
    A loop followed by a final check is handled by `guardBound`. -/
def Rx.costT : Rx → Option Bnd
  | .seq a b =>
    match a.wb, a.cnt [] .top [], b.costT with
    | some wa, some pa, some cb => some (Bnd.one.add (wa.add (pa.mul cb)))
    | _, _, _ =>
      match a, b.costT with
      | .rep r lo none, some e => guardBound r lo e b.must
      | _, _ => none
  | .alt a b =>
    match a.costT, b.costT with
    | some ca, some cb => some (Bnd.one.add (ca.add cb))
    | _, _ => none
  | .grp _ r =>
    match r.costT with
    | some c => some (Bnd.one.add c)
    | none => none
  | .rep r lo hi =>
    match r.wb, r.cnt [] .top [] with
    | some w, some c =>
      let t := ((c.add .one).pow lo).mul ((Bnd.mul (lo + 2, 1) (Bnd.one.add w)).add (c.add .one))
      match (Rx.rep r lo hi).wb with
      | some w' => some (if w'.2 ≤ t.2 then w' else t)
      | none => some t
    | _, _ => (Rx.rep r lo hi).wb
  | r => r.wb

theorem TotalK.grp {R : Type} {k : St → Option R × Nat} (hk : TotalK k) (f : St → St) : TotalK (fun s => k (f s)) :=
  fun s => hk (f s)

theorem Rx.costT_fallback (r : Rx) (b : Bnd) (hb : r.wb = some b) {R : Type} (n : Nat) (s : St) (hs : s.rest.length ≤ n)
    (k : St → Option R × Nat) (hk : TotalK k) : (r.mc s k).2 ≤ b.val n := by
  have h1 := (r.mc_spec s k).2
  have h2 := r.wb_sound b hb n s hs
  have h3 := runL_snd_le k 0 (fun s' => Nat.le_of_eq (hk s').2) (r.all s)
  omega

theorem Bnd.add_one_val (c : Bnd) (n : Nat) : c.val n + 1 ≤ (c.add Bnd.one).val n := by
  have := Bnd.val_add c Bnd.one n
  rw [Bnd.val_one] at this
  exact this

theorem guardBound_sound (r : Rx) (lo : Nat) (b : Rx) (e bd : Bnd) (hb : guardBound r lo e b.must = some bd)
    (he : b.costT = some e)
    (ihb : ∀ (b' : Bnd), b.costT = some b' → ∀ {R : Type} (n : Nat) (s : St), s.rest.length ≤ n →
      ∀ (k : St → Option R × Nat), TotalK k → (b.mc s k).2 ≤ b'.val n)
    {R : Type} (n : Nat) (s : St) (hs : s.rest.length ≤ n) (k : St → Option R × Nat) (hk : TotalK k) :
    (Rx.mc (Rx.seq (Rx.rep r lo none) b) s k).2 ≤ bd.val n := by
  unfold guardBound at hb
  split at hb
  · rename_i w c cl hw hc hcl
    split at hb
    · rename_i hle
      simp only [Option.some.injEq] at hb; subst hb
      simp only [Rx.mc, tickC_snd]
      have hF : ∀ s : St, (r.first .top).ok s.next = false → r.all s = [] := fun s h => r.all_eq_nil_of_first s h
      have hg := (repLoopC_guard r.mc r.all r.W r.mc_spec (r.first .top) b.must hF n (w.val n) (c.val n) (e.val n)
        (fun a b hab => r.all_rest_le a b hab)
        (fun a ha => r.wb_sound w hw n a ha)
        (fun a ha => Rx.cnt_top_length r c hc n a ha)
        (fun s' => b.mc s' k)
        (fun a ha => ihb e he n a ha k hk)
        (fun a _ hm => by
          rw [(b.mc_spec a k).1]
          exact runL_total_isSome k _ (b.must_sound a hm) (fun x => (hk x).1))
        (fun a ha hm => by
          refine Nat.le_trans (r.cnt_sound_look _ _ cl hcl n a ha ?_) (Bnd.val_le1 hle _)
          intro ch hch
          rw [hch] at hm
          exact hm)
        lo none (s.rest.length + lo + 2) 0 none s hs).2
      rw [Nat.sub_zero] at hg
      refine Nat.le_trans ?_ (Bnd.one_add_val _ n)
      rw [Bnd.val_mul, Bnd.val_pow]
      have hfu : s.rest.length + lo + 2 ≤ Bnd.val (lo + 2, 1) n := by
        simp only [Bnd.val, Nat.pow_one]
        rw [Nat.mul_succ, Nat.add_mul]
        have : n ≤ lo * n + 2 * n := by omega
        omega
      have hw1 := Bnd.one_add_val w n
      have hc1 := Bnd.add_one_val c n
      have he1 := Bnd.add_one_val e n
      -- failB
      have hA : (c.val n + 1) * (2 + w.val n + e.val n) ≤
          ((c.add .one).mul ((Bnd.one.add w).add (e.add .one))).val n := by
        rw [Bnd.val_mul]
        refine Nat.mul_le_mul hc1 ?_
        have := Bnd.val_add (Bnd.one.add w) (e.add .one) n
        omega
      have hfb : failB (w.val n) (c.val n) (e.val n) (s.rest.length + lo + 2) ≤
          (Bnd.one.add (Bnd.mul (lo + 2, 1) ((c.add .one).mul ((Bnd.one.add w).add (e.add .one))))).val n := by
        refine Nat.le_trans ?_ (Bnd.one_add_val _ n)
        rw [Bnd.val_mul]
        have := Nat.mul_le_mul hfu hA
        simp only [failB]
        omega
      have hB : 1 + w.val n + e.val n + c.val n * failB (w.val n) (c.val n) (e.val n) (s.rest.length + lo + 2) ≤
          (((Bnd.one.add w).add e).add (c.mul (Bnd.one.add (Bnd.mul (lo + 2, 1)
            ((c.add .one).mul ((Bnd.one.add w).add (e.add .one))))))).val n := by
        refine Nat.le_trans ?_ (Bnd.val_add _ _ n)
        rw [Bnd.val_mul]
        have h1 := Bnd.val_add (Bnd.one.add w) e n
        have h2 := Nat.mul_le_mul_left (c.val n) hfb
        omega
      have hsb : succB (w.val n) (c.val n) (e.val n) (s.rest.length + lo + 2) ≤
          (Bnd.one.add (Bnd.mul (lo + 2, 1) (((Bnd.one.add w).add e).add (c.mul (Bnd.one.add (Bnd.mul (lo + 2, 1)
            ((c.add .one).mul ((Bnd.one.add w).add (e.add .one))))))))).val n := by
        refine Nat.le_trans ?_ (Bnd.one_add_val _ n)
        rw [Bnd.val_mul]
        have := Nat.mul_le_mul hfu hB
        simp only [succB]
        omega
      have := Nat.mul_le_mul (Nat.pow_le_pow_left hc1 lo) hsb
      omega
    · cases hb
  · cases hb

theorem Rx.costT_sound (r : Rx) : ∀ (b : Bnd), r.costT = some b → ∀ {R : Type} (n : Nat) (s : St), s.rest.length ≤ n →
    ∀ (k : St → Option R × Nat), TotalK k → (r.mc s k).2 ≤ b.val n := by
  induction r with
  | seq a b _ ihb =>
    intro bd hb R n s hs k hk
    simp only [Rx.costT] at hb
    split at hb
    · rename_i wa pa cb hwa hpa hcb
      simp only [Option.some.injEq] at hb; subst hb
      simp only [Rx.mc, tickC_snd]
      have h1 := (a.mc_spec s (fun s' => b.mc s' k)).2
      have h2 := a.wb_sound wa hwa n s hs
      have h3 := runL_snd_le_mem (fun s' => b.mc s' k) (cb.val n) (a.all s)
        (fun x hx => ihb cb hcb n x (Nat.le_trans (a.all_rest_le _ _ hx) hs) k hk)
      have h4 := Rx.cnt_top_length a pa hpa n s hs
      have h5 : (a.all s).length * cb.val n ≤ pa.val n * cb.val n := Nat.mul_le_mul_right _ h4
      refine Nat.le_trans ?_ (Bnd.one_add_val _ n)
      have := Bnd.val_add wa (pa.mul cb) n
      rw [Bnd.val_mul] at this
      omega
    · split at hb
      · rename_i r lo e he _ _
        exact guardBound_sound r lo b e bd hb he ihb n s hs k hk
      · cases hb
  | alt a b iha ihb =>
    intro bd hb R n s hs k hk
    simp only [Rx.costT] at hb
    split at hb
    · rename_i ca cb hca hcb
      simp only [Option.some.injEq] at hb; subst hb
      simp only [Rx.mc]
      have h1 := iha ca hca n s hs k hk
      have h2 := ihb cb hcb n s hs k hk
      refine Nat.le_trans ?_ (Bnd.one_add_val _ n)
      have := Bnd.val_add ca cb n
      generalize a.mc s k = p at h1
      rcases p with ⟨_ | r, c⟩ <;> simp only [orElseC] at h1 ⊢ <;> omega
    · cases hb
  | grp i r ih =>
    intro bd hb R n s hs k hk
    simp only [Rx.costT] at hb
    split at hb
    · rename_i c hc
      simp only [Option.some.injEq] at hb; subst hb
      simp only [Rx.mc, tickC_snd]
      have h1 := ih c hc n s hs _ (hk.grp (fun s' => { s' with caps := (i, s.pos, s'.pos) :: s'.caps }))
      exact Nat.le_trans (by omega) (Bnd.one_add_val _ n)
    · cases hb
  | rep r lo hi _ =>
    intro bd hb R n s hs k hk
    simp only [Rx.costT] at hb
    split at hb
    · rename_i w c hw hc
      have htail : (Rx.mc (Rx.rep r lo hi) s k).2 ≤
          (((c.add .one).pow lo).mul ((Bnd.mul (lo + 2, 1) (Bnd.one.add w)).add (c.add .one))).val n := by
        simp only [Rx.mc]
        have := (repLoopC_tail r.mc r.all r.W r.mc_spec n (w.val n) (c.val n)
          (fun a b hab => r.all_rest_le a b hab)
          (fun a ha => r.wb_sound w hw n a ha)
          (fun a ha => Rx.cnt_top_length r c hc n a ha) lo hi k hk
          (s.rest.length + lo + 2) 0 none s hs).1
        refine Nat.le_trans this ?_
        rw [Nat.sub_zero, Bnd.val_mul, Bnd.val_pow]
        have hc1 : c.val n + 1 ≤ (c.add Bnd.one).val n := by
          have := Bnd.val_add c Bnd.one n
          rw [Bnd.val_one] at this
          exact this
        refine Nat.mul_le_mul (Nat.pow_le_pow_left hc1 _) ?_
        refine Nat.le_trans ?_ (Bnd.val_add _ _ n)
        rw [Bnd.val_mul]
        have h1 : s.rest.length + lo + 2 ≤ Bnd.val (lo + 2, 1) n := by
          simp only [Bnd.val, Nat.pow_one]
          rw [Nat.mul_succ, Nat.add_mul]
          have : n ≤ lo * n + 2 * n := by omega
          omega
        have h2 := Nat.mul_le_mul h1 (Bnd.one_add_val w n)
        omega
      split at hb
      · rename_i w' hw'
        simp only [Option.some.injEq] at hb; subst hb
        split
        · exact Rx.costT_fallback _ w' hw' n s hs k hk
        · exact htail
      · simp only [Option.some.injEq] at hb; subst hb
        exact htail
    · exact Rx.costT_fallback _ bd hb n s hs k hk
  | eps => intro bd hb R n s hs k hk; exact Rx.costT_fallback _ bd hb n s hs k hk
  | fail => intro bd hb R n s hs k hk; exact Rx.costT_fallback _ bd hb n s hs k hk
  | chr _ => intro bd hb R n s hs k hk; exact Rx.costT_fallback _ bd hb n s hs k hk
  | ahead _ _ => intro bd hb R n s hs k hk; exact Rx.costT_fallback _ bd hb n s hs k hk
  | nahead _ _ => intro bd hb R n s hs k hk; exact Rx.costT_fallback _ bd hb n s hs k hk
  | behind _ => intro bd hb R n s hs k hk; exact Rx.costT_fallback _ bd hb n s hs k hk
  | wordb _ => intro bd hb R n s hs k hk; exact Rx.costT_fallback _ bd hb n s hs k hk
  | eos => intro bd hb R n s hs k hk; exact Rx.costT_fallback _ bd hb n s hs k hk
  | bos => intro bd hb R n s hs k hk; exact Rx.costT_fallback _ bd hb n s hs k hk

/-- `matchHere … false` with a step counter -/
def matchHereC (r : Rx) (s : St) : Option Match × Nat :=
  r.mc s (fun s' => (some ⟨s.pos, s'.pos, s'.caps⟩, 0))

theorem matchHereC_fst (r : Rx) (s : St) : (matchHereC r s).1 = matchHere r s false := by
  unfold matchHereC matchHere
  rw [C16_steps_faithful]
  simp

/-- MAIN (steps of one match attempt of `search`): polynomial whenever `costT` succeeds -/
theorem C16_tail_steps_bound (r : Rx) (b : Bnd) (h : r.costT = some b) (s : St) :
    (matchHereC r s).2 ≤ b.1 * (s.rest.length + 1) ^ b.2 :=
  r.costT_sound b h s.rest.length s (Nat.le_refl _) _ (fun _ => ⟨rfl, rfl⟩)

/-! ## Part J — `search`, and the regenerated patterns -/

/-- `scan … false` (the loop of `search` over the start positions) with a step counter -/
def scanC (r : Rx) : Option Char → List Char → Nat → Option Match × Nat
  | prev, rest, pos =>
    match matchHereC r ⟨prev, rest, pos, []⟩ with
    | (some m, c) => (some m, c)
    | (none, c) =>
      match rest with
      | [] => (none, c)
      | ch :: t => ((scanC r (some ch) t (pos + 1)).1, c + (scanC r (some ch) t (pos + 1)).2)

theorem scanC_fst (r : Rx) : ∀ (rest : List Char) (prev : Option Char) (pos : Nat),
    (scanC r prev rest pos).1 = scan r prev rest pos false := by
  intro rest
  induction rest with
  | nil =>
    intro prev pos
    rw [scanC, scan, ← matchHereC_fst]
    rcases matchHereC r ⟨prev, [], pos, []⟩ with ⟨_ | m, c⟩ <;> rfl
  | cons ch t ih =>
    intro prev pos
    rw [scanC, scan, ← matchHereC_fst]
    rcases matchHereC r ⟨prev, ch :: t, pos, []⟩ with ⟨_ | m, c⟩
    · exact ih _ _
    · rfl

/-- MAIN (steps of `search`): at most `(n+1) · c (n+1)^d` steps over all start positions -/
theorem C16_search_steps_bound (r : Rx) (b : Bnd) (h : r.costT = some b) :
    ∀ (rest : List Char) (prev : Option Char) (pos : Nat),
      (scanC r prev rest pos).2 ≤ (rest.length + 1) * (b.1 * (rest.length + 1) ^ b.2) := by
  intro rest
  induction rest with
  | nil =>
    intro prev pos
    have h1 := C16_tail_steps_bound r b h ⟨prev, [], pos, []⟩
    rw [scanC]
    rcases hm : matchHereC r ⟨prev, [], pos, []⟩ with ⟨_ | m, c⟩ <;> rw [hm] at h1 <;> simpa using h1
  | cons ch t ih =>
    intro prev pos
    have h1 := C16_tail_steps_bound r b h ⟨prev, ch :: t, pos, []⟩
    have h2 := ih (some ch) (pos + 1)
    have h3 : b.val t.length ≤ b.val (ch :: t).length := b.val_mono (by simp)
    have h4 : (t.length + 1) * b.val t.length ≤ (t.length + 1) * b.val (ch :: t).length := Nat.mul_le_mul_left _ h3
    simp only [Bnd.val] at h3 h4
    rw [scanC]
    rcases hm : matchHereC r ⟨prev, ch :: t, pos, []⟩ with ⟨_ | m, c⟩ <;> rw [hm] at h1 <;>
      simp only [List.length_cons] at h1 h4 ⊢ <;> rw [Nat.succ_mul (t.length + 1)] <;> omega

/-- `Rx.search` (with `pos`, `endpos`) with a step counter -/
def Rx.searchC (r : Rx) (text : List Char) (pos : Nat := 0) (endpos : Nat := text.length) : Option Match × Nat :=
  if pos > min endpos text.length then (none, 0) else
  scanC r (cursorAt text pos endpos).1 (cursorAt text pos endpos).2 pos

theorem Rx.searchC_fst (r : Rx) (text : List Char) (pos endpos : Nat) :
    (r.searchC text pos endpos).1 = r.search text pos endpos := by
  unfold Rx.searchC Rx.search
  split
  · rfl
  · rw [scanC_fst]

theorem cursorAt_length_le (text : List Char) (pos endpos : Nat) : (cursorAt text pos endpos).2.length ≤ text.length := by
  simp only [cursorAt, List.length_drop, List.length_take]
  omega

/-- MAIN (steps of `search(text, pos, endpos)`): at most `(n+1) · c (n+1)^d` steps, `n` the length of the text -/
theorem C16_search_window_steps_bound (r : Rx) (b : Bnd) (h : r.costT = some b) (text : List Char) (pos endpos : Nat) :
    (r.searchC text pos endpos).2 ≤ (text.length + 1) * (b.1 * (text.length + 1) ^ b.2) := by
  unfold Rx.searchC
  split
  · exact Nat.zero_le _
  · refine Nat.le_trans (C16_search_steps_bound r b h _ _ _) ?_
    have hl := cursorAt_length_le text pos endpos
    exact Nat.mul_le_mul (by omega) (b.val_mono hl)

/-- the number of paths over all start positions (as `C16_safe_scan_paths`, for the finer analysis) -/
theorem C16_det_scan_paths (r : Rx) (b : Bnd) (h : r.cnt [] .top [] = some b) (text : List Char) :
    ((List.range (text.length + 1)).map (fun i =>
        (r.all ⟨(if i = 0 then none else text[i-1]?), text.drop i, i, []⟩).length)).sum
      ≤ (text.length + 1) * (b.1 * (text.length + 1) ^ b.2) := by
  have h1 := sum_map_le (List.range (text.length + 1))
    (fun i => (r.all ⟨(if i = 0 then none else text[i-1]?), text.drop i, i, []⟩).length)
    (b.val text.length)
    (fun i _ => by
      refine Nat.le_trans (C16_det_paths_bound r b h _) ?_
      refine b.val_mono ?_
      simp only [List.length_drop]
      omega)
  rw [List.length_range] at h1
  exact h1

/-! ### the regenerated patterns -/

def unsafe7 : List String := ["aliquot_intervener_remover_regex", "aliquot_unpacker_regex", "half_plus_q_regex",
  "multilot_regex", "multilot_with_aliquot_regex", "multisec_regex", "sec_twprge_in_between"]

/-- these are exactly the patterns that are not `Safe` (cf. `C16_unsafe_patterns` in Props/C16.lean) -/
theorem C16_det_unsafe7 : (Gen.patterns.filter (fun p => !p.2.1.safe)).map (·.1) = unsafe7 := by decide +kernel

/-- PATHS.  For four of the seven patterns that are not `Safe`, the number of backtracking paths from any state with `n`
    characters left is at most `coef (n+1)^deg`;  for the other three the analysis fails (and must: see the witnesses below). -/
theorem C16_det_pattern_degrees :
    (Gen.patterns.filter (fun p => unsafe7.contains p.1)).map (fun p => (p.1, p.2.1.cnt [] .top [])) =
      [("aliquot_intervener_remover_regex", some (6, 4)),
       ("aliquot_unpacker_regex", some (6, 1)),
       ("half_plus_q_regex", none),
       ("multilot_regex", none),
       ("multilot_with_aliquot_regex", none),
       ("multisec_regex", some (192, 1)),
       ("sec_twprge_in_between", some (768, 1))] := by decide +kernel

def expPaths3 : List String := ["half_plus_q_regex", "multilot_regex", "multilot_with_aliquot_regex"]

theorem all_cnt_table :
    (Gen.patterns.filter (fun p => !expPaths3.contains p.1)).all (fun p =>
      match p.2.1.cnt [] .top [] with
      | some b => b.2 ≤ 10
      | none => false) = true := by decide +kernel

/-- SUMMARY (paths): for every regenerated pattern except three, the number of backtracking paths from any state with
    `n` characters left is at most `coef (n+1)^deg` with `deg ≤ 10` (the coarser `Rx.deg` of RxPaths: 17) -/
theorem C16_det_every_pattern_paths :
    ∀ p ∈ Gen.patterns, expPaths3.contains p.1 = false → ∃ b : Bnd, p.2.1.cnt [] .top [] = some b ∧ b.2 ≤ 10 ∧
      ∀ s : St, (p.2.1.all s).length ≤ b.1 * (s.rest.length + 1) ^ b.2 := by
  intro p hp hne
  have h := List.all_eq_true.1 all_cnt_table p (List.mem_filter.2 ⟨hp, by rw [hne]; rfl⟩)
  cases hc : p.2.1.cnt [] .top [] with
  | none => rw [hc] at h; cases h
  | some b =>
    rw [hc] at h
    exact ⟨b, rfl, by simpa using h, fun s => C16_det_paths_bound _ b hc s⟩

/-- STEPS of one match attempt of `search` (`matchHereC`): polynomial for all seven -/
theorem C16_det_step_degrees :
    (Gen.patterns.filter (fun p => unsafe7.contains p.1)).map (fun p => (p.1, p.2.1.costT)) =
      [("aliquot_intervener_remover_regex", some (6357, 8)),
       ("aliquot_unpacker_regex", some (166, 1)),
       ("half_plus_q_regex", some (84273, 8)),
       ("multilot_regex", some (65767643, 4)),
       ("multilot_with_aliquot_regex", some (1709966213, 7)),
       ("multisec_regex", some (3582720, 4)),
       ("sec_twprge_in_between", some (51130464, 8))] := by decide +kernel

theorem all_costT_table : Gen.patterns.all (fun p =>
      match p.2.1.costT with
      | some b => b.2 ≤ 16
      | none => false) = true := by decide +kernel

/-- SUMMARY (steps): for EVERY regenerated pattern, the step-counting `search` returns what `search` returns, and takes
    at most `(n+1) · coef (n+1)^deg` steps on a text of `n` characters, with `deg ≤ 16` (for the seven patterns that
    are not `Safe`: `deg ≤ 8`, see `C16_det_step_degrees`) -/
theorem C16_det_every_pattern_search_steps :
    ∀ p ∈ Gen.patterns, ∃ b : Bnd, p.2.1.costT = some b ∧ b.2 ≤ 16 ∧ ∀ (text : List Char) (pos endpos : Nat),
      (p.2.1.searchC text pos endpos).1 = p.2.1.search text pos endpos ∧
      (p.2.1.searchC text pos endpos).2 ≤ (text.length + 1) * (b.1 * (text.length + 1) ^ b.2) := by
  intro p hp
  have h := List.all_eq_true.1 all_costT_table p hp
  cases hc : p.2.1.costT with
  | none => rw [hc] at h; cases h
  | some b =>
    rw [hc] at h
    exact ⟨b, rfl, by simpa using h, fun text pos endpos =>
      ⟨Rx.searchC_fst _ _ _ _, C16_search_window_steps_bound _ b hc text pos endpos⟩⟩

/-! ### the three patterns whose number of paths is exponential -/

def detSt (t : String) : St := ⟨none, t.toList, 0, []⟩
def detRpt (u : String) : Nat → String
  | 0 => ""
  | n+1 => u ++ detRpt u n

/-- `multilot_regex`: the acreage `(12)` can be split in three ways between `\d{0,3}` and `\d{0,6}`; `m` lots with
    acreage give `2·3^m - 1` paths.  (The loop is the last element of the pattern, so `search` takes the first path
    and never backtracks into it: see `C16_det_step_degrees`.) -/
theorem C16_det_multilot_paths_exponential :
    (List.range 6).map (fun m => (Gen.multilot_regex.all (detSt ("Lot 1" ++ detRpt ", 2(12)" m ++ "!"))).length)
      = [1, 5, 17, 53, 161, 485] := by decide +kernel

theorem C16_det_multilot_with_aliquot_paths_exponential :
    (List.range 6).map (fun m => (Gen.multilot_with_aliquot_regex.all (detSt ("Lot 1" ++ detRpt ", 2(12)" m ++ "!"))).length)
      = [1, 5, 17, 53, 161, 485] := by decide +kernel

/-- `half_plus_q_regex`: two blanks before a quarter can be split in three ways between `\s*`, `(\s*OF…)?` and `\s*` -/
theorem C16_det_half_plus_q_paths_exponential :
    (List.range 7).map (fun m => (Gen.half_plus_q_regex.all (detSt ("N½" ++ detRpt "  NE" m ++ "!"))).length)
      = [0, 0, 3, 12, 39, 120, 363] := by decide +kernel

/-- … while the number of steps of the match attempt stays linear on these families -/
theorem C16_det_steps_on_witnesses :
    (List.range 6).map (fun m => (matchHereC Gen.multilot_regex (detSt ("Lot 1" ++ detRpt ", 2(12)" m ++ "!"))).2)
      = [93, 186, 279, 372, 465, 558] ∧
    (List.range 6).map (fun m => (matchHereC Gen.half_plus_q_regex (detSt ("N½" ++ detRpt "  NE" m ++ "!"))).2)
      = [47, 425, 462, 493, 524, 555] := by decide +kernel

/-! ### where the degree is high: two patterns that are slow in the real library -/

/-- the patterns whose path bound has degree ≥ 2.  The two with degree ≥ 4 are slow in the real library:
    `pytrs.PLSSDesc("T1N R2W" + " "*40 + "x Sec 1: NE/4")` takes 11 s (`pp_twprge_pm`: six blank-absorbing stars in a
    row before the mandatory "P.M."), `pytrs.Tract("N½"*40 + " "*80 + "x", parse_qq=True)` takes 7.6 s
    (`aliquot_intervener_remover_regex`: `(aliquot)+\s*(\s+|of|…)\s*(…)?\s*`). -/
theorem C16_det_high_degree_patterns :
    (Gen.patterns.filterMap (fun p => match p.2.1.cnt [] .top [] with
      | some b => if b.2 ≥ 2 then some (p.1, b.2) else none
      | none => none)) =
    [("aliquot_intervener_remover_regex", 4), ("of_the_regex", 3), ("pp_twprge_no_nsr", 2), ("pp_twprge_no_nswe", 2),
     ("pp_twprge_pm", 10)] := by decide +kernel

/-- steps of `search` (model) on "T1N R2W", 0/2/4 blanks, "x": the growth measured on the real library
    (20 blanks 0.14 s, 40 blanks 5 s, 80 blanks 235 s) -/
theorem C16_det_slow_witness_pp_twprge_pm :
    (List.range 3).map (fun k => (Gen.pp_twprge_pm.searchC ("T1N R2W" ++ detRpt " " (2*k) ++ "x").toList).2)
      = [623, 7630, 42875] := by decide +kernel

/-- steps of `search` (model) on `m` halves followed by `2m` blanks and "x" (real library: m = 40: 8 s, m = 60: 56 s) -/
theorem C16_det_slow_witness_aliquot_intervener_remover :
    (List.range 4).map (fun m =>
      (Gen.aliquot_intervener_remover_regex.searchC (detRpt "N½" m ++ detRpt " " (2*m) ++ "x").toList).2)
      = [46, 411, 2858, 12589] := by decide +kernel

/-! ### the analysis sees the historic defect -/

/-- the patterns as they were before the repair: `\s*(?!\s)` → `\s*` -/
def Rx.unrepaired : Rx → Rx
  | .nahead r => if r == .chr Gen.cs_70d553c2 then .eps else .nahead r
  | .seq a b => .seq a.unrepaired b.unrepaired
  | .alt a b => .alt a.unrepaired b.unrepaired
  | .rep r lo hi => .rep r.unrepaired lo hi
  | .grp i r => .grp i r.unrepaired
  | r => r

/-- without `(?!\s)` after the first `\s*` of an intervener, both analyses fail for the four patterns built on it … -/
theorem C16_det_detects_unrepaired :
    (Gen.patterns.filter (fun p => ["multisec_regex", "multilot_regex", "sec_twprge_in_between",
        "multilot_with_aliquot_regex"].contains p.1)).map
      (fun p => (p.1, p.2.1.unrepaired.cnt [] .top [], p.2.1.unrepaired.costT, (p.2.1.costT).isSome)) =
    [("multilot_regex", none, none, true), ("multilot_with_aliquot_regex", none, none, true),
     ("multisec_regex", none, none, true), ("sec_twprge_in_between", none, none, true)] := by decide +kernel

/-- … and rightly so: steps of `search` on "Sec 1", `m` times ",   ", "!" — unrepaired (×4 per unit) and repaired -/
theorem C16_det_unrepaired_exponential :
    (List.range 5).map (fun m => (Gen.multisec_regex.unrepaired.searchC ("Sec 1" ++ detRpt ",   " m ++ "!").toList).2)
      = [87, 540, 2352, 9600, 38592] ∧
    (List.range 5).map (fun m => (Gen.multisec_regex.searchC ("Sec 1" ++ detRpt ",   " m ++ "!").toList).2)
      = [87, 169, 251, 333, 415] := by decide +kernel

/-! ### non-vacuity -/

example : Gen.multisec_regex.cnt [] .top [] = some (192, 1) ∧
    (Gen.multisec_regex.all (detSt "Sec 1 , ,  234 , ,  234!")).length = 14 := by decide +kernel

example : (matchHereC Gen.multilot_regex (detSt "Lot 1, 2(12), 3!")).1.isSome = true ∧
    (matchHereC Gen.multilot_regex (detSt "Lot 1, 2(12), 3!")).2 = 266 := by decide +kernel

example : (Gen.multisec_regex.searchC "in Sec 1, 2 and 3".toList).1.isSome = true := by decide +kernel

example : Gen.multisec_regex.wb = some (3582720, 4) ∧ Gen.multisec_regex.cnt [] .top [] = some (192, 1) := by
  decide +kernel

example : Gen.half_plus_q_regex.costT = some (84273, 8) ∧
    (matchHereC Gen.half_plus_q_regex (detSt "N½  NE  NE!")).1.isSome = true := by decide +kernel

#print axioms Rx.all_sim
#print axioms Rx.first_sound
#print axioms Rx.postD_sound
#print axioms excl_sound
#print axioms Rx.cnt_sound
#print axioms C16_det_paths_bound
#print axioms C16_det_scan_paths
#print axioms C16_steps_faithful
#print axioms Rx.mc_spec
#print axioms Rx.wb_sound
#print axioms C16_det_steps_bound
#print axioms Rx.costT_sound
#print axioms C16_tail_steps_bound
#print axioms C16_search_steps_bound
#print axioms Rx.searchC_fst
#print axioms C16_search_window_steps_bound
#print axioms C16_det_unsafe7
#print axioms C16_det_pattern_degrees
#print axioms C16_det_every_pattern_paths
#print axioms C16_det_step_degrees
#print axioms C16_det_every_pattern_search_steps
#print axioms C16_det_multilot_paths_exponential
#print axioms C16_det_multilot_with_aliquot_paths_exponential
#print axioms C16_det_half_plus_q_paths_exponential
#print axioms C16_det_steps_on_witnesses
#print axioms C16_det_detects_unrepaired
#print axioms C16_det_unrepaired_exponential
#print axioms C16_det_high_degree_patterns
#print axioms C16_det_slow_witness_pp_twprge_pm
#print axioms C16_det_slow_witness_aliquot_intervener_remover

/-! ## Part L — `finditer` (hence `sub`, `split`) for patterns that cannot match the empty string -/

/-- `finditerAux … false` with a step counter (for patterns of `minWidth ≥ 1` the must-advance flag is never set) -/
def finditerAuxC (r : Rx) : Nat → Option Char → List Char → Nat → List Match × Nat
  | 0, _, _, _ => ([], 0)
  | fuel+1, prev, rest, pos =>
    match scanC r prev rest pos with
    | (none, c) => ([], c)
    | (some m, c) =>
      (m :: (finditerAuxC r fuel (advance prev rest (m.stop - pos)).1 (advance prev rest (m.stop - pos)).2 m.stop).1,
       c + (finditerAuxC r fuel (advance prev rest (m.stop - pos)).1 (advance prev rest (m.stop - pos)).2 m.stop).2)

theorem finditerAuxC_fst (r : Rx) (hw : r.minWidth ≥ 1) : ∀ (fuel : Nat) (prev : Option Char) (rest : List Char) (pos : Nat),
    (finditerAuxC r fuel prev rest pos).1 = finditerAux r fuel prev rest pos false := by
  intro fuel
  induction fuel with
  | zero => intro prev rest pos; rfl
  | succ n ih =>
    intro prev rest pos
    rw [finditerAuxC, finditerAux_succ, ← scanC_fst]
    rcases hs : scanC r prev rest pos with ⟨_ | m, c⟩
    · rfl
    · simp only []
      have hm : scan r prev rest pos false = some m := by rw [← scanC_fst, hs]
      have := (scan_caps (fun _ => false) r r.wideGrps_none rest prev pos false m hm).2.1
      have hne : (m.stop == m.start) = false := by
        rw [beq_eq_false_iff_ne]; omega
      rw [hne, ih]

theorem finditerAuxC_cost (r : Rx) (b : Bnd) (h : r.costT = some b) (N : Nat) :
    ∀ (fuel : Nat) (prev : Option Char) (rest : List Char) (pos : Nat), rest.length ≤ N →
      (finditerAuxC r fuel prev rest pos).2 ≤ fuel * ((N + 1) * b.val N) := by
  intro fuel
  induction fuel with
  | zero => intro prev rest pos _; simp [finditerAuxC]
  | succ n ih =>
    intro prev rest pos hN
    have h1 := C16_search_steps_bound r b h rest prev pos
    have h2 : (rest.length + 1) * (b.1 * (rest.length + 1) ^ b.2) ≤ (N + 1) * b.val N :=
      Nat.mul_le_mul (by omega) (b.val_mono hN)
    rw [finditerAuxC]
    rcases hs : scanC r prev rest pos with ⟨_ | m, c⟩ <;> rw [hs] at h1 <;> simp only [] at h1 ⊢
    · rw [Nat.succ_mul]; omega
    · have hlen : (advance prev rest (m.stop - pos)).2.length ≤ N := by
        rw [advance_length]; omega
      have := ih (advance prev rest (m.stop - pos)).1 (advance prev rest (m.stop - pos)).2 m.stop hlen
      rw [Nat.succ_mul]; omega

/-- `Rx.finditer` (with `pos`, `endpos`) with a step counter -/
def Rx.finditerC (r : Rx) (text : List Char) (pos : Nat := 0) (endpos : Nat := text.length) : List Match × Nat :=
  if pos > min endpos text.length then ([], 0) else
  finditerAuxC r (2 * (cursorAt text pos endpos).2.length + 2) (cursorAt text pos endpos).1 (cursorAt text pos endpos).2 pos

theorem Rx.finditerC_fst (r : Rx) (hw : r.minWidth ≥ 1) (text : List Char) (pos endpos : Nat) :
    (r.finditerC text pos endpos).1 = r.finditer text pos endpos := by
  unfold Rx.finditerC Rx.finditer
  split
  · rfl
  · rw [finditerAuxC_fst r hw]

/-- MAIN (steps of `finditer`, hence of `sub`): at most `(2n+2)(n+1) · coef (n+1)^deg`, `n` the length of the text -/
theorem C16_finditer_steps_bound (r : Rx) (b : Bnd) (h : r.costT = some b) (text : List Char) (pos endpos : Nat) :
    (r.finditerC text pos endpos).2 ≤ (2 * text.length + 2) * ((text.length + 1) * (b.1 * (text.length + 1) ^ b.2)) := by
  unfold Rx.finditerC
  split
  · exact Nat.zero_le _
  · have hl := cursorAt_length_le text pos endpos
    refine Nat.le_trans (finditerAuxC_cost r b h text.length _ _ _ pos hl) ?_
    exact Nat.mul_le_mul (by omega) (Nat.le_refl _)

/-- all seven patterns that are not `Safe` consume at least one character -/
theorem C16_det_unsafe7_consume :
    (Gen.patterns.filter (fun p => unsafe7.contains p.1)).all (fun p => p.2.1.minWidth ≥ 1) = true := by decide +kernel

example : (Gen.multisec_regex.finditerC "Sec 1, 2 of x Sec 3".toList).1.length = 2 ∧
    (Gen.multisec_regex.finditerC "Sec 1, 2 of x Sec 3".toList).2 = 500 := by decide +kernel

#print axioms finditerAuxC_fst
#print axioms Rx.finditerC_fst
#print axioms C16_finditer_steps_bound
#print axioms C16_det_unsafe7_consume


end PyTRS
