/-
`int(str(n)) == n`: the decimal rendering of naturals / integers (`natToStr`, `intToStr`) is parsed back by the
model of Python's `int(str)` (`pyInt?`), also after zero-padding to width 2.
Only core Lean lemmas about `Nat.toDigits` are used.
-/
import PyTRS.PyStr
namespace PyTRS

/-! ### stripping is the identity on strings without strippable characters -/

private theorem lstripBy_id (p : Char → Bool) (s : Str) (h : ∀ c ∈ s, p c = false) : lstripBy p s = s := by
  cases s with
  | nil => rfl
  | cons c t => simp [lstripBy, h c (by simp)]

private theorem stripBy_id (p : Char → Bool) (s : Str) (h : ∀ c ∈ s, p c = false) : stripBy p s = s := by
  unfold stripBy rstripBy
  rw [lstripBy_id p s h, lstripBy_id p s.reverse (by simpa using h), List.reverse_reverse]

/-! ### ASCII digit characters -/

private theorem digit_le_iff (c : Char) : ('0' ≤ c ∧ c ≤ '9') ↔ (48 ≤ c.toNat ∧ c.toNat ≤ 57) := by
  rw [Char.le_def, Char.le_def, UInt32.le_iff_toNat_le, UInt32.le_iff_toNat_le]
  exact Iff.rfl

private theorem isDigit_iff (c : Char) : c.isDigit = true ↔ (48 ≤ c.toNat ∧ c.toNat ≤ 57) := by
  unfold Char.isDigit
  simp only [Bool.and_eq_true, decide_eq_true_eq, ge_iff_le, UInt32.le_iff_toNat_le]
  exact Iff.rfl

private theorem not_space_of_digit (c : Char) (h : 48 ≤ c.toNat ∧ c.toNat ≤ 57) : pyIsSpace c = false := by
  simp only [pyIsSpace, Gen.PY_SPACE, List.any_cons, List.any_nil, Bool.or_false, Bool.or_eq_false_iff,
    Bool.and_eq_false_iff, decide_eq_false_iff_not]
  omega

private theorem not_space_minus : pyIsSpace '-' = false := by decide

private theorem decimalValue_digitChar (d : Nat) (h : d < 10) : decimalValue? (Nat.digitChar d) = some d := by
  have : d = 0 ∨ d = 1 ∨ d = 2 ∨ d = 3 ∨ d = 4 ∨ d = 5 ∨ d = 6 ∨ d = 7 ∨ d = 8 ∨ d = 9 := by omega
  rcases this with h | h | h | h | h | h | h | h | h | h <;> subst h <;> decide

/-! ### `digitsVal?` on appended digits -/

private theorem go_append (l r : Str) : ∀ (acc a : Nat) (us : Bool),
    digitsVal?.go l acc us = some a → digitsVal?.go (l ++ r) acc us = digitsVal?.go r a false := by
  induction l with
  | nil =>
    intro acc a us h
    cases us <;> simp_all [digitsVal?.go]
  | cons c t ih =>
    intro acc a us h
    simp only [List.cons_append, digitsVal?.go] at h ⊢
    by_cases hc : (c == '_') = true
    · simp only [hc, if_true] at h ⊢
      cases us
      · simp only [Bool.false_eq_true, if_false] at h ⊢
        exact ih _ _ _ h
      · simp at h
    · simp only [hc] at h ⊢
      cases hd : decimalValue? c with
      | none => simp [hd] at h
      | some d =>
        simp only [hd] at h ⊢
        exact ih _ _ _ h

private theorem digitsVal_snoc (l : Str) (c : Char) (v d : Nat)
    (hl : digitsVal? l = some v) (hc : decimalValue? c = some d) :
    digitsVal? (l ++ [c]) = some (v * 10 + d) := by
  have hne : c ≠ '_' := by
    intro h; subst h
    have h' : decimalValue? '_' = none := by decide
    rw [h'] at hc; cases hc
  cases l with
  | nil => simp [digitsVal?] at hl
  | cons c0 t =>
    simp only [List.cons_append, digitsVal?] at hl ⊢
    cases h0 : decimalValue? c0 with
    | none => simp [h0] at hl
    | some d0 =>
      simp only [h0] at hl ⊢
      rw [go_append t [c] d0 v false hl]
      simp [digitsVal?.go, hne, hc]

private theorem digitsVal_single (d : Nat) (h : d < 10) : digitsVal? [Nat.digitChar d] = some d := by
  simp [digitsVal?, decimalValue_digitChar d h, digitsVal?.go]

private theorem toDigits_step (n : Nat) (h : 10 ≤ n) :
    Nat.toDigits 10 n = Nat.toDigits 10 (n / 10) ++ [Nat.digitChar (n % 10)] := by
  have h1 := @Nat.toDigits_append_toDigits 10 (n / 10) (n % 10) (by omega) (by omega) (Nat.mod_lt _ (by omega))
  rw [Nat.div_add_mod, Nat.toDigits_of_lt_base (Nat.mod_lt _ (by omega))] at h1
  exact h1.symm

private theorem digitsVal_toDigits (n : Nat) : digitsVal? (Nat.toDigits 10 n) = some n := by
  induction n using Nat.strongRecOn with
  | ind n ih =>
    by_cases h : n < 10
    · rw [Nat.toDigits_of_lt_base h]; exact digitsVal_single n h
    · rw [toDigits_step n (by omega),
        digitsVal_snoc _ _ (n / 10) (n % 10) (ih (n / 10) (by omega))
          (decimalValue_digitChar _ (Nat.mod_lt _ (by omega)))]
      congr 1; omega

theorem natToStr_eq (n : Nat) : natToStr n = Nat.toDigits 10 n := by
  simp [natToStr, toString, Nat.repr]

theorem digitsVal_natToStr (n : Nat) : digitsVal? (natToStr n) = some n := by
  rw [natToStr_eq]; exact digitsVal_toDigits n

private theorem natToStr_digits' (n : Nat) : ∀ c ∈ natToStr n, 48 ≤ c.toNat ∧ c.toNat ≤ 57 := by
  intro c hc
  rw [natToStr_eq] at hc
  exact (isDigit_iff c).1 (Nat.isDigit_of_mem_toDigits (by omega) (by omega) hc)

/-- only ASCII digits -/
theorem natToStr_digits (n : Nat) : ∀ c ∈ natToStr n, '0' ≤ c ∧ c ≤ '9' := by
  intro c hc
  exact (digit_le_iff c).2 (natToStr_digits' n c hc)

theorem natToStr_ne_nil (n : Nat) : natToStr n ≠ [] := by
  rw [natToStr_eq]; exact Nat.toDigits_ne_nil

/-- `int` of a non-empty all-digit string (no sign, nothing to strip) is its `digitsVal?` -/
private theorem pyInt_of_digits (s : Str) (h : ∀ c ∈ s, 48 ≤ c.toNat ∧ c.toNat ≤ 57) :
    pyInt? s = (digitsVal? s).map Int.ofNat := by
  unfold pyInt?
  simp only
  rw [show pyStrip s = s from stripBy_id _ s (fun c hc => not_space_of_digit c (h c hc))]
  split
  · next r =>
    exact absurd (h '-' (by simp)) (by decide)
  · next r =>
    exact absurd (h '+' (by simp)) (by decide)
  · rfl

theorem pyInt_natToStr (n : Nat) : pyInt? (natToStr n) = some (n : Int) := by
  rw [pyInt_of_digits _ (natToStr_digits' n), digitsVal_natToStr]; rfl

theorem intToStr_ofNat (n : Nat) : intToStr (Int.ofNat n) = natToStr n := by
  simp [intToStr, natToStr, toString, Int.repr]

theorem intToStr_negSucc (n : Nat) : intToStr (Int.negSucc n) = '-' :: natToStr (n + 1) := by
  simp [intToStr, natToStr, toString, Int.repr, String.toList_append]

theorem pyInt_intToStr (i : Int) : pyInt? (intToStr i) = some i := by
  cases i with
  | ofNat n => rw [intToStr_ofNat]; exact pyInt_natToStr n
  | negSucc n =>
    rw [intToStr_negSucc]
    unfold pyInt?
    simp only
    rw [show pyStrip ('-' :: natToStr (n + 1)) = '-' :: natToStr (n + 1) from
      stripBy_id _ _ (by
        intro c hc
        rcases List.mem_cons.1 hc with h | h
        · rw [h]; exact not_space_minus
        · exact not_space_of_digit c (natToStr_digits' _ c h))]
    simp only [digitsVal_natToStr, Option.map_some]
    rfl

theorem pyInt_pad2 (n : Nat) : pyInt? (pyRJust (natToStr n) 2 '0') = some (n : Int) := by
  by_cases h : n < 10
  · have hs : natToStr n = [Nat.digitChar n] := by rw [natToStr_eq, Nat.toDigits_of_lt_base h]
    have hp : pyRJust (natToStr n) 2 '0' = ['0'] ++ [Nat.digitChar n] := by
      rw [hs]; rfl
    rw [pyInt_of_digits]
    · rw [hp, digitsVal_snoc ['0'] _ 0 n (by decide) (decimalValue_digitChar n h)]
      simp
    · intro c hc
      rw [hp] at hc
      rcases List.mem_cons.1 hc with h' | h'
      · rw [h']; decide
      · rw [← hs] at h'; exact natToStr_digits' n c h'
  · have hlen : 2 ≤ (natToStr n).length := by
      rw [natToStr_eq, toDigits_step n (by omega), List.length_append]
      have : (Nat.toDigits 10 (n / 10)).length ≠ 0 := by
        intro h0; exact Nat.toDigits_ne_nil (List.length_eq_zero_iff.1 h0)
      simp only [List.length_cons, List.length_nil]; omega
    have hp : pyRJust (natToStr n) 2 '0' = natToStr n := by
      unfold pyRJust
      rw [show 2 - (natToStr n).length = 0 by omega]; rfl
    rw [hp]; exact pyInt_natToStr n

#print axioms digitsVal_natToStr
#print axioms pyInt_natToStr
#print axioms pyInt_intToStr
#print axioms pyInt_pad2
#print axioms natToStr_digits
#print axioms natToStr_ne_nil

end PyTRS
