/-
C01 — the library's own rendering (`TractList.pretty_desc`): structure of the rendered text, positions of the Twp/Rge
headers and section references in it, and the round trip through the marker walk (glue level; the lexical part — that the
finders report exactly these positions — is an explicit premise, checked on a concrete rendering by kernel evaluation).
-/
import PyTRS.Lemmas.Walk
import PyTRS.Lemmas.Stable
import PyTRS.Model.Export
namespace PyTRS
open PyTRS.Obj PyTRS.Plss PyTRS.Export

/-! ## 1. Structure of the rendering -/

/-- the Twp/Rge key `pretty_desc` groups by -/
def trKey (t : TractObj) : Str := t.trs.twp ++ t.trs.rge

/-- the section string as rendered (`None` for a missing section) -/
def secStr (t : TractObj) : Str := t.trs.sec.getD (S "None")

/-- the description with its line breaks re-indented -/
def descJ (jst : Str) (t : TractObj) : Str := pyReplace t.desc (S "\n") (S "\n" ++ jst)

/-- the rendered header of a Twp/Rge key -/
def hdrOf (k : Str) : Str := TRS.prettyTwprge (TRS.trsToDict (some k))

/-- the piece of text one group contributes (before the final strip) -/
def groupRaw (wordSec jst : Str) (kg : Str × List TractObj) : Str :=
  S "\n" ++ hdrOf kg.1 ++ kg.2.flatMap (prettyTract wordSec jst)

/-- the rendering before the final `strip()` -/
def prettyRaw (wordSec jst : Str) (ts : List TractObj) : Str :=
  (groupConsecutive ts).flatMap (groupRaw wordSec jst)

/-- the default indentation of continuation lines -/
def defaultJst (wordSec : Str) (justify : Option Str) : Str :=
  justify.getD (List.replicate (wordSec.length + 4) ' ')

theorem Pretty.prettyTract_eq (wordSec jst : Str) (t : TractObj) :
    prettyTract wordSec jst t = S "\n" ++ wordSec ++ secStr t ++ S ": " ++ descJ jst t := rfl

/-- C01 (structure): before the final strip the rendered text is, for each run of consecutive tracts with the same Twp/Rge,
    a line break, the Twp/Rge header, and for each tract a line break, the section word, the section, ": " and the description
    with its line breaks re-indented -/
theorem C01_pretty_structure (ts : List TractObj) (wordSec : Str) (justify : Option Str) :
    prettyDesc ts wordSec justify =
      if ts.isEmpty then none else
      some (pyStrip ((groupConsecutive ts).flatMap (fun kg =>
        S "\n" ++ TRS.prettyTwprge (TRS.trsToDict (some kg.1)) ++
          kg.2.flatMap (fun t => S "\n" ++ wordSec ++ t.trs.sec.getD (S "None") ++ S ": " ++
            pyReplace t.desc (S "\n") (S "\n" ++ defaultJst wordSec justify))))) := rfl

theorem C01_pretty_structure' (ts : List TractObj) (wordSec : Str) (justify : Option Str) (h : ts ≠ []) :
    prettyDesc ts wordSec justify = some (pyStrip (prettyRaw wordSec (defaultJst wordSec justify) ts)) := by
  cases ts with
  | nil => exact absurd rfl h
  | cons t r => rfl

/-- with the default arguments: "\nSec " ++ sec ++ ": " ++ description, continuation lines indented by 8 blanks -/
theorem C01_pretty_structure_default (ts : List TractObj) :
    prettyDesc ts =
      if ts.isEmpty then none else
      some (pyStrip ((groupConsecutive ts).flatMap (fun kg =>
        S "\n" ++ TRS.prettyTwprge (TRS.trsToDict (some kg.1)) ++
          kg.2.flatMap (fun t => S "\nSec " ++ t.trs.sec.getD (S "None") ++ S ": " ++
            pyReplace t.desc (S "\n") (S "\n        "))))) := rfl

theorem Pretty.groupConsecutive_cons (t : TractObj) (rest : List TractObj) :
    groupConsecutive (t :: rest) =
      match groupConsecutive rest with
      | (k, g) :: more => if k == trKey t then (k, t :: g) :: more else (trKey t, [t]) :: (k, g) :: more
      | [] => [(trKey t, [t])] := rfl

/-- C01: grouping loses and reorders nothing -/
theorem C01_groupConsecutive_flatten (ts : List TractObj) : (groupConsecutive ts).flatMap (·.2) = ts := by
  induction ts with
  | nil => rfl
  | cons t rest ih =>
    rw [Pretty.groupConsecutive_cons]
    cases h : groupConsecutive rest with
    | nil => rw [h] at ih; simp at ih; simp [← ih]
    | cons kg more =>
      obtain ⟨k, g⟩ := kg
      rw [h] at ih
      simp only []
      split
      · simpa using ih
      · simpa using ih

/-- C01: no group is empty -/
theorem C01_groupConsecutive_nonempty (ts : List TractObj) : ∀ kg ∈ groupConsecutive ts, kg.2 ≠ [] := by
  induction ts with
  | nil => intro kg h; cases h
  | cons t rest ih =>
    rw [Pretty.groupConsecutive_cons]
    cases h : groupConsecutive rest with
    | nil => intro kg hk; simp at hk; subst hk; simp
    | cons kg0 more =>
      obtain ⟨k, g⟩ := kg0
      rw [h] at ih
      simp only []
      split
      · intro kg hk
        rcases List.mem_cons.mp hk with rfl | hk
        · simp
        · exact ih kg (List.mem_cons_of_mem _ hk)
      · intro kg hk
        rcases List.mem_cons.mp hk with rfl | hk
        · simp
        · exact ih kg hk

theorem Pretty.groupConsecutive_ne_nil (ts : List TractObj) (h : ts ≠ []) : groupConsecutive ts ≠ [] := by
  cases ts with
  | nil => exact absurd rfl h
  | cons t rest =>
    rw [Pretty.groupConsecutive_cons]
    cases groupConsecutive rest with
    | nil => simp
    | cons kg more => obtain ⟨k, g⟩ := kg; simp only []; split <;> simp

/-- adjacent entries carry different keys -/
def AdjKeysDiffer {α : Type} : List (Str × α) → Prop
  | a :: b :: rest => a.1 ≠ b.1 ∧ AdjKeysDiffer (b :: rest)
  | _ => True

theorem Pretty.AdjKeysDiffer_getElem {α : Type} : ∀ (l : List (Str × α)), AdjKeysDiffer l →
    ∀ i (h : i + 1 < l.length), (l[i]'(Nat.lt_of_succ_lt h)).1 ≠ (l[i+1]'h).1
  | [], _, i, h => by simp at h
  | [_], _, i, h => by simp at h
  | a :: b :: rest, hd, 0, _ => hd.1
  | a :: b :: rest, hd, i+1, h => by
    exact Pretty.AdjKeysDiffer_getElem (b :: rest) hd.2 i (by simpa using h)

/-- C01: every tract of a group has the group's Twp/Rge key, and adjacent groups have different keys -/
theorem C01_groupConsecutive_keys (ts : List TractObj) :
    (∀ kg ∈ groupConsecutive ts, ∀ t ∈ kg.2, t.trs.twp ++ t.trs.rge = kg.1) ∧ AdjKeysDiffer (groupConsecutive ts) := by
  induction ts with
  | nil => exact ⟨fun kg h => (by cases h), trivial⟩
  | cons t rest ih =>
    rw [Pretty.groupConsecutive_cons]
    cases h : groupConsecutive rest with
    | nil =>
      refine ⟨?_, trivial⟩
      intro kg hk t' ht'
      simp at hk; subst hk
      simp at ht'; subst ht'; rfl
    | cons kg0 more =>
      obtain ⟨k, g⟩ := kg0
      rw [h] at ih
      obtain ⟨ih1, ih2⟩ := ih
      simp only []
      split
      · rename_i hk
        have hk' : k = trKey t := by simpa using hk
        refine ⟨?_, ?_⟩
        · intro kg hkg t' ht'
          rcases List.mem_cons.mp hkg with rfl | hkg
          · rcases List.mem_cons.mp ht' with rfl | ht'
            · exact hk'.symm
            · exact ih1 (k, g) List.mem_cons_self t' ht'
          · exact ih1 kg (List.mem_cons_of_mem _ hkg) t' ht'
        · cases more with
          | nil => trivial
          | cons m more' => exact ih2
      · rename_i hk
        have hk' : k ≠ trKey t := by simpa using hk
        refine ⟨?_, ⟨fun e => hk' e.symm, ih2⟩⟩
        intro kg hkg t' ht'
        rcases List.mem_cons.mp hkg with rfl | hkg
        · simp at ht'; subst ht'; rfl
        · exact ih1 kg hkg t' ht'

/-! ## 2. Positions in the rendered text -/

/-! ### generic facts about `slice`, `pyReplace` and stripping -/

theorem Pretty.slice_of_eq {raw A B C : Str} {a b : Nat} (h : raw = A ++ B ++ C) (ha : a = A.length)
    (hb : b = A.length + B.length) : slice raw a b = B := by
  subst h ha hb
  unfold slice
  rw [← List.length_append, List.take_left' rfl, List.drop_left' rfl]

theorem Pretty.slice_drop_one (l : Str) (a b : Nat) : slice (l.drop 1) a b = slice l (a + 1) (b + 1) := by
  unfold slice
  rw [List.take_drop, List.drop_drop, Nat.add_comm 1 b, Nat.add_comm 1 a]

/-- `str.replace("\n", new)` replaces every line break, character by character -/
theorem Pretty.pyReplaceAux_nl (new : Str) : ∀ (s : Str) (fuel : Nat), s.length ≤ fuel →
    pyReplaceAux ['\n'] new fuel s = s.flatMap (fun c => if c = '\n' then new else [c])
  | [], 0, _ => rfl
  | [], _+1, _ => rfl
  | c :: t, 0, h => by simp at h
  | c :: t, fuel+1, h => by
    have ih := Pretty.pyReplaceAux_nl new t fuel (by simpa using h)
    by_cases hc : c = '\n'
    · subst hc
      simp [pyReplaceAux, isPrefix, ih]
    · have hc' : ('\n' == c) = false := by simpa using fun e => hc e.symm
      simp [pyReplaceAux, isPrefix, ih, hc, hc']

theorem Pretty.pyReplace_nl (s new : Str) :
    pyReplace s (S "\n") new = s.flatMap (fun c => if c = '\n' then new else [c]) :=
  Pretty.pyReplaceAux_nl new s _ (Nat.le_succ _)

/-- a description without a line break is rendered verbatim -/
theorem Pretty.pyReplace_nl_of_not_mem (s new : Str) (h : '\n' ∉ s) : pyReplace s (S "\n") new = s := by
  rw [Pretty.pyReplace_nl]
  induction s with
  | nil => rfl
  | cons c t ih =>
    have hc : c ≠ '\n' := fun e => h (by simp [e])
    have ht : '\n' ∉ t := fun e => h (List.mem_cons_of_mem _ e)
    simp [List.flatMap_cons, hc, ih ht]

theorem Pretty.pyReplace_nl_getLast (s new : Str) (c : Char) (h : s.getLast? = some c) (hc : c ≠ '\n') :
    (pyReplace s (S "\n") new).getLast? = some c := by
  rw [Pretty.pyReplace_nl]
  obtain ⟨init, rfl⟩ := List.getLast?_eq_some_iff.mp h
  simp [hc]

theorem Pretty.lstripBy_head_false (p : Char → Bool) (c : Char) (t : Str) (h : p c = false) :
    lstripBy p (c :: t) = c :: t := by simp [lstripBy, h]

theorem Pretty.rstripBy_getLast_false (p : Char → Bool) (s : Str) (c : Char) (h : s.getLast? = some c) (hc : p c = false) :
    rstripBy p s = s := by
  unfold rstripBy
  have : s.reverse.head? = some c := by simpa using h
  cases hr : s.reverse with
  | nil => simp [hr] at this
  | cons a r =>
    rw [hr] at this
    simp at this; subst this
    rw [Pretty.lstripBy_head_false p a r hc, ← hr, List.reverse_reverse]

/-! ### the spans -/

/-- spans of the section references of consecutive tract lines; `p` = position (in the stripped text) at which the first
    tract's `wordSec` starts = position of the line break in front of it in the unstripped text.  A span covers
    `wordSec ++ sec ++ ":"` (the library's section pattern takes the colon into the reference). -/
def prettyItemsAt (wordSec jst : Str) : Nat → List TractObj → List SecItem
  | _, [] => []
  | p, t :: rest =>
    ⟨p, p + (wordSec ++ secStr t).length + 1, [secStr t]⟩ ::
      prettyItemsAt wordSec jst (p + (prettyTract wordSec jst t).length) rest

/-- spans of the Twp/Rge headers and of the section references under them -/
def prettyGroupsAt (wordSec jst : Str) : Nat → List (Str × List TractObj) → List TRGroup
  | _, [] => []
  | p, kg :: rest =>
    ⟨p, p + (hdrOf kg.1).length, kg.1, prettyItemsAt wordSec jst (p + 1 + (hdrOf kg.1).length) kg.2⟩ ::
      prettyGroupsAt wordSec jst (p + (groupRaw wordSec jst kg).length) rest

/-- C01: where the Twp/Rge headers and the section references stand in `pretty_desc(word_sec, justify_linebreaks)`,
    computed from the lengths of the rendered pieces -/
def prettyGroups (ts : List TractObj) (wordSec : Str := S "Sec ") (justify : Option Str := none) : List TRGroup :=
  prettyGroupsAt wordSec (defaultJst wordSec justify) 0 (groupConsecutive ts)

/-- the text between a section reference and the next marker, for consecutive tract lines; `sep` follows the last one -/
def blocksOf (jst : Str) : List TractObj → Str → List Str
  | [], _ => []
  | [t], sep => [S " " ++ descJ jst t ++ sep]
  | t :: t2 :: rest, sep => (S " " ++ descJ jst t ++ S "\n") :: blocksOf jst (t2 :: rest) sep

theorem Pretty.blocksOf_append (jst : Str) (sep : Str) : ∀ (a b : List TractObj), b ≠ [] →
    blocksOf jst (a ++ b) sep = blocksOf jst a (S "\n") ++ blocksOf jst b sep
  | [], b, _ => rfl
  | [t], b, hb => by
    cases b with
    | nil => exact absurd rfl hb
    | cons t2 r => rfl
  | t :: t2 :: r, b, hb => by
    have ih := Pretty.blocksOf_append jst sep (t2 :: r) b hb
    simp only [List.cons_append] at ih ⊢
    simp only [blocksOf, ih, List.cons_append]

theorem Pretty.flatMap_cons_length {α : Type} (f : α → Str) (a : α) (l : List α) :
    ((a :: l).flatMap f).length = (f a).length + (l.flatMap f).length := by simp

theorem Pretty.prettyTract_length (w j : Str) (t : TractObj) :
    (prettyTract w j t).length = 1 + (w ++ secStr t).length + 2 + (descJ j t).length := by
  simp [Pretty.prettyTract_eq, S]; omega

/-- slices of the section references of consecutive tract lines (unstripped text, positions shifted by one) -/
theorem Pretty.items_slices (w j raw : Str) : ∀ (ts : List TractObj) (pre rest : Str),
    raw = pre ++ ts.flatMap (prettyTract w j) ++ rest →
    (prettyItemsAt w j pre.length ts).map (fun s => slice raw (s.sStart + 1) (s.sEnd + 1))
      = ts.map (fun t => w ++ secStr t ++ S ":")
  | [], _, _, _ => rfl
  | t :: ts', pre, rest, h => by
    have ih := Pretty.items_slices w j raw ts' (pre ++ prettyTract w j t) rest (by simp [h])
    rw [List.length_append] at ih
    simp only [prettyItemsAt, List.map_cons, ih]
    congr 1
    exact Pretty.slice_of_eq (A := pre ++ S "\n") (B := w ++ secStr t ++ S ":")
      (C := S " " ++ descJ j t ++ ts'.flatMap (prettyTract w j) ++ rest)
      (by simp [h, Pretty.prettyTract_eq, S]) (by simp [S]) (by simp [S]; omega)

theorem Pretty.items_secs (w j : Str) : ∀ (p : Nat) (ts : List TractObj),
    (prettyItemsAt w j p ts).map (·.secs) = ts.map (fun t => [secStr t])
  | _, [] => rfl
  | p, t :: ts' => by simp [prettyItemsAt, Pretty.items_secs w j _ ts']

theorem Pretty.items_ne_nil (w j : Str) (p : Nat) (ts : List TractObj) (h : ts ≠ []) : prettyItemsAt w j p ts ≠ [] := by
  cases ts with
  | nil => exact absurd rfl h
  | cons t r => simp [prettyItemsAt]

/-- the blocks after the section references of consecutive tract lines: the next marker `m` stands `k` characters into `rest` -/
theorem Pretty.items_blocks (w j raw : Str) (tl : List (Nat × Marker)) (m : Nat × Marker) (htl : tl.head? = some m) (k : Nat) :
    ∀ (ts : List TractObj) (pre rest : Str),
    raw = pre ++ ts.flatMap (prettyTract w j) ++ rest → k ≤ rest.length →
    m.1 + 1 = pre.length + (ts.flatMap (prettyTract w j)).length + k →
    (itemBlocks (prettyItemsAt w j pre.length ts) tl).map (fun ab => slice raw (ab.1 + 1) (ab.2 + 1))
      = blocksOf j ts (rest.take k)
  | [], _, _, _, _, _ => rfl
  | [t], pre, rest, h, hk, hm => by
    simp only [prettyItemsAt, itemBlocks, imk, List.flatMap_nil, List.nil_append, htl, Option.getD_some,
      List.map_cons, List.map_nil, blocksOf]
    congr 1
    refine Pretty.slice_of_eq (A := pre ++ S "\n" ++ w ++ secStr t ++ S ":") (B := S " " ++ descJ j t ++ rest.take k)
      (C := rest.drop k) ?_ ?_ ?_
    · simp [h, Pretty.prettyTract_eq, S]
    · simp [S]; omega
    · simp [Pretty.prettyTract_eq, S] at hm ⊢; omega
  | t :: t2 :: ts', pre, rest, h, hk, hm => by
    have ih := Pretty.items_blocks w j raw tl m htl k (t2 :: ts') (pre ++ prettyTract w j t) rest (by simp [h]) hk
      (by rw [Pretty.flatMap_cons_length] at hm; rw [List.length_append]; omega)
    rw [List.length_append] at ih
    rw [prettyItemsAt, itemBlocks, List.map_cons, ih, blocksOf]
    congr 1
    simp only [prettyItemsAt, imk, List.flatMap_cons, List.cons_append, List.head?_cons, Option.getD_some]
    refine Pretty.slice_of_eq (A := pre ++ S "\n" ++ w ++ secStr t ++ S ":") (B := S " " ++ descJ j t ++ S "\n")
      (C := (prettyTract w j t2).drop 1 ++ ts'.flatMap (prettyTract w j) ++ rest) ?_ ?_ ?_
    · simp [h, Pretty.prettyTract_eq, S]
    · simp [S]; omega
    · simp [Pretty.prettyTract_eq, S]; omega

theorem Pretty.groupRaw_length (w j : Str) (kg : Str × List TractObj) :
    (groupRaw w j kg).length = 1 + (hdrOf kg.1).length + (kg.2.flatMap (prettyTract w j)).length := by
  simp [groupRaw, S]; omega

theorem Pretty.groupRaw_take_one (w j : Str) (kg : Str × List TractObj) (X : Str) : (groupRaw w j kg ++ X).take 1 = S "\n" := by
  simp [groupRaw, S]

/-- slices of the Twp/Rge headers -/
theorem Pretty.groups_hdrs (w j raw : Str) : ∀ (kgs : List (Str × List TractObj)) (pre rest : Str),
    raw = pre ++ kgs.flatMap (groupRaw w j) ++ rest →
    (prettyGroupsAt w j pre.length kgs).map (fun g => slice raw (g.tStart + 1) (g.tEnd + 1))
      = kgs.map (fun kg => hdrOf kg.1)
  | [], _, _, _ => rfl
  | kg :: kgs', pre, rest, h => by
    have ih := Pretty.groups_hdrs w j raw kgs' (pre ++ groupRaw w j kg) rest (by simp [h])
    rw [List.length_append] at ih
    simp only [prettyGroupsAt, List.map_cons, ih]
    congr 1
    exact Pretty.slice_of_eq (A := pre ++ S "\n") (B := hdrOf kg.1)
      (C := kg.2.flatMap (prettyTract w j) ++ kgs'.flatMap (groupRaw w j) ++ rest)
      (by simp [h, groupRaw, S]) (by simp [S]) (by simp [S]; omega)

/-- slices of all section references -/
theorem Pretty.groups_sec_slices (w j raw : Str) : ∀ (kgs : List (Str × List TractObj)) (pre rest : Str),
    raw = pre ++ kgs.flatMap (groupRaw w j) ++ rest →
    (prettyGroupsAt w j pre.length kgs).flatMap (fun g => g.items.map (fun s => slice raw (s.sStart + 1) (s.sEnd + 1)))
      = (kgs.flatMap (·.2)).map (fun t => w ++ secStr t ++ S ":")
  | [], _, _, _ => rfl
  | kg :: kgs', pre, rest, h => by
    have ih := Pretty.groups_sec_slices w j raw kgs' (pre ++ groupRaw w j kg) rest (by simp [h])
    rw [List.length_append] at ih
    have hi := Pretty.items_slices w j raw kg.2 (pre ++ S "\n" ++ hdrOf kg.1) (kgs'.flatMap (groupRaw w j) ++ rest)
      (by simp [h, groupRaw, S])
    have hl : (pre ++ S "\n" ++ hdrOf kg.1).length = pre.length + 1 + (hdrOf kg.1).length := by simp [S]; omega
    rw [hl] at hi
    simp only [prettyGroupsAt, List.flatMap_cons, List.map_append, ih, hi]

theorem Pretty.groups_tr (w j : Str) : ∀ (p : Nat) (kgs : List (Str × List TractObj)),
    (prettyGroupsAt w j p kgs).map (·.tr) = kgs.map (·.1)
  | _, [] => rfl
  | p, kg :: kgs' => by simp [prettyGroupsAt, Pretty.groups_tr w j _ kgs']

theorem Pretty.groups_trsecs (w j : Str) : ∀ (p : Nat) (kgs : List (Str × List TractObj)),
    (prettyGroupsAt w j p kgs).flatMap (fun g => g.items.map (fun s => (g.tr, s.secs)))
      = kgs.flatMap (fun kg => kg.2.map (fun t => (kg.1, [secStr t])))
  | _, [] => rfl
  | p, kg :: kgs' => by
    have hi := Pretty.items_secs w j (p + 1 + (hdrOf kg.1).length) kg.2
    have : (prettyItemsAt w j (p + 1 + (hdrOf kg.1).length) kg.2).map (fun s => (kg.1, s.secs))
        = kg.2.map (fun t => (kg.1, [secStr t])) := by
      have := congrArg (List.map (fun x => (kg.1, x))) hi
      simpa [List.map_map, Function.comp_def] using this
    simp only [prettyGroupsAt, List.flatMap_cons, Pretty.groups_trsecs w j _ kgs', this]

theorem Pretty.groups_items_ne_nil (w j : Str) : ∀ (p : Nat) (kgs : List (Str × List TractObj)),
    (∀ kg ∈ kgs, kg.2 ≠ []) → ∀ g ∈ prettyGroupsAt w j p kgs, g.items ≠ []
  | _, [], _, g, hg => by cases hg
  | p, kg :: kgs', hne, g, hg => by
    simp only [prettyGroupsAt] at hg
    rcases List.mem_cons.mp hg with rfl | hg
    · exact Pretty.items_ne_nil w j _ _ (hne kg List.mem_cons_self)
    · exact Pretty.groups_items_ne_nil w j _ kgs' (fun kg' h' => hne kg' (List.mem_cons_of_mem _ h')) g hg

/-- the blocks after all section references: every one runs to the line break in front of the next line (inclusive); the last
    one to the next marker `m`, which stands `k` characters into `rest` -/
theorem Pretty.groups_blocks (w j raw : Str) (tl : List (Nat × Marker)) (m : Nat × Marker) (htl : tl.head? = some m) (k : Nat) :
    ∀ (kgs : List (Str × List TractObj)) (pre rest : Str), (∀ kg ∈ kgs, kg.2 ≠ []) →
    raw = pre ++ kgs.flatMap (groupRaw w j) ++ rest → k ≤ rest.length →
    m.1 + 1 = pre.length + (kgs.flatMap (groupRaw w j)).length + k →
    (groupBlocks (prettyGroupsAt w j pre.length kgs) tl).map (fun ab => slice raw (ab.1 + 1) (ab.2 + 1))
      = blocksOf j (kgs.flatMap (·.2)) (rest.take k)
  | [], _, _, _, _, _, _ => rfl
  | [kg], pre, rest, hne, h, hk, hm => by
    have hl : (pre ++ S "\n" ++ hdrOf kg.1).length = pre.length + 1 + (hdrOf kg.1).length := by simp [S]; omega
    have hi := Pretty.items_blocks w j raw tl m htl k kg.2 (pre ++ S "\n" ++ hdrOf kg.1) rest
      (by simp [h, groupRaw, S]) hk
      (by rw [hl]; simp only [List.flatMap_cons, List.flatMap_nil, List.append_nil] at hm
          rw [Pretty.groupRaw_length] at hm; omega)
    rw [hl] at hi
    simp only [prettyGroupsAt, groupBlocks, List.flatMap_nil, List.nil_append, List.append_nil, hi,
      List.flatMap_cons]
  | kg :: kg2 :: kgs', pre, rest, hne, h, hk, hm => by
    have ih := Pretty.groups_blocks w j raw tl m htl k (kg2 :: kgs') (pre ++ groupRaw w j kg) rest
      (fun x hx => hne x (List.mem_cons_of_mem _ hx)) (by simp [h]) hk
      (by rw [Pretty.flatMap_cons_length] at hm; rw [List.length_append]; omega)
    rw [List.length_append] at ih
    have hl : (pre ++ S "\n" ++ hdrOf kg.1).length = pre.length + 1 + (hdrOf kg.1).length := by simp [S]; omega
    have hi := Pretty.items_blocks w j raw
      ((prettyGroupsAt w j (pre.length + (groupRaw w j kg).length) (kg2 :: kgs')).flatMap groupMarkers ++ tl)
      (pre.length + (groupRaw w j kg).length, .trStart) (by simp [prettyGroupsAt, groupMarkers]) 1 kg.2
      (pre ++ S "\n" ++ hdrOf kg.1) ((kg2 :: kgs').flatMap (groupRaw w j) ++ rest)
      (by simp [h, groupRaw, S])
      (by simp [groupRaw, S])
      (by rw [hl, Pretty.groupRaw_length]; omega)
    rw [hl] at hi
    have h1 : (((kg2 :: kgs').flatMap (groupRaw w j)) ++ rest).take 1 = S "\n" := by
      rw [List.flatMap_cons, List.append_assoc]; exact Pretty.groupRaw_take_one w j kg2 _
    rw [h1] at hi
    have hb : (kg2 :: kgs').flatMap (·.2) ≠ [] := by
      have := hne kg2 (by simp)
      cases h2 : kg2.2 with
      | nil => exact absurd h2 this
      | cons a r => simp [h2]
    rw [prettyGroupsAt, groupBlocks, List.map_append, ih, hi]
    exact (Pretty.blocksOf_append j _ kg.2 _ hb).symm

/-! ### the final `strip()` -/

/-- the hypothesis under which the final `strip()` removes nothing at the end: the last tract's description is not empty and
    does not end in white space (`str.isspace`; this is more than the characters `cleanup_desc` removes) -/
def LastDescSolid (ts : List TractObj) : Prop :=
  ∃ t c, ts.getLast? = some t ∧ t.desc.getLast? = some c ∧ pyIsSpace c = false

theorem Pretty.prettyRaw_head (w j : Str) (ts : List TractObj) (h : ts ≠ []) : ∃ r, prettyRaw w j ts = '\n' :: 'T' :: r := by
  unfold prettyRaw
  cases hk : groupConsecutive ts with
  | nil => exact absurd hk (Pretty.groupConsecutive_ne_nil ts h)
  | cons kg more => exact ⟨_, by simp [groupRaw, hdrOf, TRS.prettyTwprge, S]; rfl⟩

theorem Pretty.prettyRaw_last (w j : Str) (ts : List TractObj) (t : TractObj) (h : ts.getLast? = some t) :
    ∃ Z, prettyRaw w j ts = Z ++ prettyTract w j t := by
  have hts : ts ≠ [] := by intro e; simp [e] at h
  have hk := Pretty.groupConsecutive_ne_nil ts hts
  have hfl := C01_groupConsecutive_flatten ts
  have hne := C01_groupConsecutive_nonempty ts
  unfold prettyRaw
  obtain ⟨kinit, kgL, hkk⟩ : ∃ i x, groupConsecutive ts = i ++ [x] :=
    ⟨_, _, (List.dropLast_concat_getLast hk).symm⟩
  rw [hkk] at hfl hne ⊢
  have hL : kgL.2 ≠ [] := hne kgL (by simp)
  obtain ⟨ti, tL, htt⟩ : ∃ i x, kgL.2 = i ++ [x] := ⟨_, _, (List.dropLast_concat_getLast hL).symm⟩
  have ht : tL = t := by
    rw [← hfl] at h
    simpa [htt, List.getLast?_append] using h
  subst ht
  refine ⟨kinit.flatMap (groupRaw w j) ++ S "\n" ++ hdrOf kgL.1 ++ ti.flatMap (prettyTract w j), ?_⟩
  simp [groupRaw, htt]

theorem Pretty.flatMap_congr_mem' {α β : Type} {f g : α → List β} :
    ∀ {l : List α}, (∀ a ∈ l, f a = g a) → l.flatMap f = l.flatMap g
  | [], _ => rfl
  | a :: l, h => by
    simp only [List.flatMap_cons, h a List.mem_cons_self,
      Pretty.flatMap_congr_mem' (l := l) (fun b hb => h b (List.mem_cons_of_mem _ hb))]

theorem Pretty.pyIsSpace_nl : pyIsSpace '\n' = true := by decide
theorem Pretty.pyIsSpace_T : pyIsSpace 'T' = false := by decide

/-- C01: under `LastDescSolid` the final strip removes exactly the leading line break -/
theorem C01_pretty_strip (ts : List TractObj) (wordSec : Str) (justify : Option Str) (txt : Str)
    (htxt : prettyDesc ts wordSec justify = some txt) (hend : LastDescSolid ts) :
    prettyRaw wordSec (defaultJst wordSec justify) ts = '\n' :: txt := by
  obtain ⟨t, c, hl, hc, hsp⟩ := hend
  have hts : ts ≠ [] := by intro e; simp [e] at hl
  rw [C01_pretty_structure' ts wordSec justify hts] at htxt
  have htxt := Option.some.inj htxt
  generalize defaultJst wordSec justify = j at htxt ⊢
  obtain ⟨r, hr⟩ := Pretty.prettyRaw_head wordSec j ts hts
  obtain ⟨Z, hZ⟩ := Pretty.prettyRaw_last wordSec j ts t hl
  have hcn : c ≠ '\n' := by intro e; rw [e, Pretty.pyIsSpace_nl] at hsp; cases hsp
  have hlast : (prettyRaw wordSec j ts).getLast? = some c := by
    rw [hZ, Pretty.prettyTract_eq, descJ]
    have := Pretty.pyReplace_nl_getLast t.desc (S "\n" ++ j) c hc hcn
    simp [List.getLast?_append, this]
  rw [hr] at hlast htxt ⊢
  rw [List.getLast?_cons_cons] at hlast
  have : pyStrip ('\n' :: 'T' :: r) = 'T' :: r := by
    unfold pyStrip stripBy
    rw [show lstripBy pyIsSpace ('\n' :: 'T' :: r) = 'T' :: r by simp [lstripBy, Pretty.pyIsSpace_nl, Pretty.pyIsSpace_T]]
    exact Pretty.rstripBy_getLast_false _ _ c hlast hsp
  rw [this] at htxt
  rw [htxt]

/-- C01 (positions): in the rendered text each recorded span of a Twp/Rge reads the header, each recorded span of a section
    reference reads `wordSec ++ sec ++ ":"`, the recorded Twp/Rges and sections are those of the tracts, and the block between a
    section reference and the next marker is `" " ++ description′ ++ "\n"` (for the last tract: `" " ++ description′`) -/
theorem C01_pretty_slices (ts : List TractObj) (wordSec : Str) (justify : Option Str) (txt : Str)
    (htxt : prettyDesc ts wordSec justify = some txt) (hend : LastDescSolid ts) :
    let groups := prettyGroups ts wordSec justify
    groups.map (fun g => slice txt g.tStart g.tEnd) = (groupConsecutive ts).map (fun kg => hdrOf kg.1) ∧
    groups.flatMap (fun g => g.items.map (fun s => slice txt s.sStart s.sEnd))
      = ts.map (fun t => wordSec ++ secStr t ++ S ":") ∧
    groups.flatMap (fun g => g.items.map (fun s => (g.tr, s.secs)))
      = ts.map (fun t => (t.trs.twp ++ t.trs.rge, [secStr t])) ∧
    (groupBlocks groups [(txt.length, .textEnd)]).map (fun ab => slice txt ab.1 ab.2)
      = blocksOf (defaultJst wordSec justify) ts [] := by
  have hraw := C01_pretty_strip ts wordSec justify txt htxt hend
  unfold prettyGroups
  generalize defaultJst wordSec justify = j at hraw ⊢
  have hsl : ∀ a b, slice txt a b = slice (prettyRaw wordSec j ts) (a + 1) (b + 1) := by
    intro a b; rw [hraw, ← Pretty.slice_drop_one]; rfl
  have hr0 : prettyRaw wordSec j ts = ([] : Str) ++ (groupConsecutive ts).flatMap (groupRaw wordSec j) ++ [] := by
    simp [prettyRaw]
  simp only [hsl]
  refine ⟨Pretty.groups_hdrs wordSec j _ _ [] [] hr0, ?_, ?_, ?_⟩
  · have := Pretty.groups_sec_slices wordSec j _ _ [] [] hr0
    rw [C01_groupConsecutive_flatten] at this
    exact this
  · rw [Pretty.groups_trsecs]
    have hkeys := (C01_groupConsecutive_keys ts).1
    have : (groupConsecutive ts).flatMap (fun kg => kg.2.map (fun t => (kg.1, [secStr t])))
        = (groupConsecutive ts).flatMap (fun kg => kg.2.map (fun t => (t.trs.twp ++ t.trs.rge, [secStr t]))) := by
      apply Pretty.flatMap_congr_mem'
      intro kg hkg
      apply List.map_congr_left
      intro t ht
      rw [hkeys kg hkg t ht]
    rw [this, ← List.map_flatMap, C01_groupConsecutive_flatten]
  · have := Pretty.groups_blocks wordSec j _ [(txt.length, .textEnd)] (txt.length, .textEnd) rfl 0
      (groupConsecutive ts) [] [] (C01_groupConsecutive_nonempty ts) hr0 (Nat.le_refl _)
      (by have hlen := congrArg List.length hraw
          unfold prettyRaw at hlen
          simp at hlen ⊢; omega)
    rw [C01_groupConsecutive_flatten] at this
    exact this

/-! ## 3. Round trip at marker level -/

/-! ### `cleanup_desc` of a block between markers -/

/-- the characters `cleanup_desc` strips on both sides -/
def cleanupStripSet : Str := S ",;:-–—\t\n "

/-- the trailing words `cleanup_desc` removes -/
def cullFold (t : Str) : Str :=
  cullList.foldl (fun t cull => if pyEndsWith (pyLower t) cull then t.take (t.length - cull.length) else t) t

theorem Pretty.cleanupStep_eq (t : Str) :
    cleanupStep t = cullFold (pyStripChars cleanupStripSet (pyLStripChars (S ".") t)) := rfl

theorem Pretty.lstripBy_sublist (p : Char → Bool) : ∀ s : Str, (lstripBy p s).Sublist s
  | [] => List.Sublist.refl _
  | c :: t => by
    unfold lstripBy
    split
    · exact (Pretty.lstripBy_sublist p t).cons _
    · exact List.Sublist.refl _

theorem Pretty.rstripBy_sublist (p : Char → Bool) (s : Str) : (rstripBy p s).Sublist s := by
  have := (Pretty.lstripBy_sublist p s.reverse).reverse
  simpa [rstripBy] using this

theorem Pretty.stripBy_sublist (p : Char → Bool) (s : Str) : (stripBy p s).Sublist s :=
  (Pretty.rstripBy_sublist p _).trans (Pretty.lstripBy_sublist p s)

theorem Pretty.cullFold_sublist (t : Str) : (cullFold t).Sublist t := by
  unfold cullFold
  generalize cullList = l
  induction l generalizing t with
  | nil => exact List.Sublist.refl _
  | cons c r ih =>
    rw [List.foldl_cons]
    refine (ih _).trans ?_
    split
    · exact List.take_sublist _ _
    · exact List.Sublist.refl _

theorem Pretty.sublist_antisymm' {a b : Str} (h1 : a.Sublist b) (h2 : b.Sublist a) : a = b :=
  h1.eq_of_length (Nat.le_antisymm h1.length_le h2.length_le)

/-- a fixed point of one clean-up pass is a fixed point of each of its three stages -/
theorem Pretty.cleanupStep_fixed_parts (d : Str) (h : cleanupStep d = d) :
    pyLStripChars (S ".") d = d ∧ lstripBy (fun c => cleanupStripSet.contains c) d = d ∧
      rstripBy (fun c => cleanupStripSet.contains c) d = d ∧ cullFold d = d := by
  rw [Pretty.cleanupStep_eq] at h
  have s1 : (pyLStripChars (S ".") d).Sublist d := Pretty.lstripBy_sublist _ d
  have s2 : (pyStripChars cleanupStripSet (pyLStripChars (S ".") d)).Sublist (pyLStripChars (S ".") d) :=
    Pretty.stripBy_sublist _ _
  have s3 := Pretty.cullFold_sublist (pyStripChars cleanupStripSet (pyLStripChars (S ".") d))
  rw [h] at s3
  have e1 : pyLStripChars (S ".") d = d := Pretty.sublist_antisymm' s1 (s3.trans s2)
  rw [e1] at s2 s3 h
  have e2 : pyStripChars cleanupStripSet d = d := Pretty.sublist_antisymm' s2 s3
  rw [e2] at h
  have s4 : (lstripBy (fun c => cleanupStripSet.contains c) d).Sublist d := Pretty.lstripBy_sublist _ d
  have s5 : (pyStripChars cleanupStripSet d).Sublist (lstripBy (fun c => cleanupStripSet.contains c) d) :=
    Pretty.rstripBy_sublist _ _
  rw [e2] at s5
  have e3 := Pretty.sublist_antisymm' s4 s5
  refine ⟨e1, e3, ?_, h⟩
  have e4 : rstripBy (fun c => cleanupStripSet.contains c) (lstripBy (fun c => cleanupStripSet.contains c) d) = d := e2
  rw [e3] at e4
  exact e4

theorem Pretty.lstripBy_append_all (p : Char → Bool) : ∀ (pre s : Str), (∀ c ∈ pre, p c = true) →
    lstripBy p (pre ++ s) = lstripBy p s
  | [], _, _ => rfl
  | c :: t, s, h => by
    have hc := h c List.mem_cons_self
    simp only [List.cons_append, lstripBy, hc, if_true]
    exact Pretty.lstripBy_append_all p t s (fun x hx => h x (List.mem_cons_of_mem _ hx))

theorem Pretty.lstripBy_fixed_head (p : Char → Bool) (c : Char) (t : Str) (h : lstripBy p (c :: t) = c :: t) : p c = false := by
  cases hp : p c with
  | false => rfl
  | true =>
    simp only [lstripBy, hp, if_true] at h
    have := (Pretty.lstripBy_sublist p t).length_le
    rw [h] at this
    simp at this
    omega

theorem Pretty.rstripBy_append_all (p : Char → Bool) (s post : Str) (h : ∀ c ∈ post, p c = true) :
    rstripBy p (s ++ post) = rstripBy p s := by
  unfold rstripBy
  rw [List.reverse_append, Pretty.lstripBy_append_all p _ _ (by simpa using h)]

/-- stripping a fixed point with strippable characters put around it gives it back -/
theorem Pretty.stripBy_around (p : Char → Bool) (pre d post : Str) (hpre : ∀ c ∈ pre, p c = true)
    (hpost : ∀ c ∈ post, p c = true) (hl : lstripBy p d = d) (hr : rstripBy p d = d) :
    stripBy p (pre ++ d ++ post) = d := by
  unfold stripBy
  rw [List.append_assoc, Pretty.lstripBy_append_all p pre _ hpre]
  cases d with
  | nil =>
    have := Pretty.lstripBy_append_all p post [] hpost
    simp only [List.append_nil] at this
    simp only [List.nil_append, this]
    rfl
  | cons c t =>
    have hc := Pretty.lstripBy_fixed_head p c t hl
    rw [List.cons_append, Pretty.lstripBy_head_false p c _ hc, ← List.cons_append, Pretty.rstripBy_append_all p _ _ hpost, hr]

theorem Pretty.cleanupStripSet_not_dot : ∀ c ∈ cleanupStripSet, (S ".").contains c = false := by decide

/-- one clean-up pass over a fixed point with strippable characters around it -/
theorem Pretty.cleanupStep_around (pre d post : Str) (hpre : ∀ c ∈ pre, c ∈ cleanupStripSet)
    (hpost : ∀ c ∈ post, c ∈ cleanupStripSet) (hd : cleanupStep d = d) :
    cleanupStep (pre ++ d ++ post) = d := by
  obtain ⟨e1, e2, e3, e4⟩ := Pretty.cleanupStep_fixed_parts d hd
  rw [Pretty.cleanupStep_eq]
  have h1 : pyLStripChars (S ".") (pre ++ d ++ post) = pre ++ d ++ post := by
    unfold pyLStripChars
    cases pre with
    | cons c t => exact Pretty.lstripBy_head_false _ c _ (Pretty.cleanupStripSet_not_dot c (hpre c List.mem_cons_self))
    | nil =>
      cases d with
      | cons c t => exact Pretty.lstripBy_head_false _ c _ (Pretty.lstripBy_fixed_head _ c t e1)
      | nil =>
        cases post with
        | nil => rfl
        | cons c t => exact Pretty.lstripBy_head_false _ c _ (Pretty.cleanupStripSet_not_dot c (hpost c List.mem_cons_self))
  rw [h1]
  have h2 : pyStripChars cleanupStripSet (pre ++ d ++ post) = d :=
    Pretty.stripBy_around _ pre d post (fun c hc => by simpa using hpre c hc) (fun c hc => by simpa using hpost c hc) e2 e3
  rw [h2, e4]

/-- C01: `cleanup_desc` of a block that is a clean description `d` (= a fixed point of one clean-up pass: `d` does not start
    with a full stop, neither starts nor ends with one of `,;:-–—`, tab, line break, blank, and does not end in one of the
    words " the", " all in", " all of", " of", " in", " and") with strippable characters around it is `d` -/
theorem C01_cleanup_block (pre d post : Str) (hpre : ∀ c ∈ pre, c ∈ cleanupStripSet)
    (hpost : ∀ c ∈ post, c ∈ cleanupStripSet) (hd : cleanupStep d = d) :
    cleanupDesc (pre ++ d ++ post) = d := by
  have h1 := Pretty.cleanupStep_around pre d post hpre hpost hd
  unfold cleanupDesc
  rw [show (pre ++ d ++ post).length + 3 = ((pre ++ d ++ post).length + 1 + 1) + 1 from rfl, Tract.untilStable]
  simp only [h1]
  split
  · rename_i he
    have : d = pre ++ d ++ post := by simpa using he
    rw [← this]; rfl
  · rw [Tract.untilStable_of_fixed _ _ _ hd]; rfl

/-- C01: what lies between a section reference without its colon and the next line of the rendering cleans up to the description -/
theorem C01_cleanup_colon_block (d : Str) (hd : cleanupStep d = d) : cleanupDesc (S ": " ++ d ++ S "\n") = d :=
  C01_cleanup_block (S ": ") d (S "\n") (by decide) (by decide) hd

/-- the exact condition: the block cleans up to `d` only if `d` is a fixed point of the clean-up pass -/
theorem C01_cleanup_colon_block_iff (d : Str) : cleanupDesc (S ": " ++ d ++ S "\n") = d ↔ cleanupStep d = d := by
  refine ⟨fun h => ?_, C01_cleanup_colon_block d⟩
  unfold cleanupDesc at h
  cases hu : Tract.untilStable cleanupStep ((S ": " ++ d ++ S "\n").length + 3) (S ": " ++ d ++ S "\n") with
  | none =>
    rw [hu] at h
    have := congrArg List.length h
    simp [S] at this
    omega
  | some r =>
    rw [hu] at h
    have hr : r = d := h
    subst hr
    exact Tract.untilStable_fixed _ _ _ _ hu

example : cleanupStep (S "NE/4") = S "NE/4" := by decide +kernel
example : cleanupDesc (S ": " ++ S "NE/4" ++ S "\n") = S "NE/4" := C01_cleanup_colon_block _ (by decide +kernel)

/-! ### the walk over the rendered text -/

/-- `C01_walk_trs_desc` for a chunk that already carries (warning) flags of the finders: the flags are left alone -/
theorem Pretty.walk_trs_desc_flags (txt : Str) (groups : List TRGroup) (endPos : Nat) (fl0 : Tract.Flags)
    (hne : ∀ g ∈ groups, g.items ≠ []) (hg : groups ≠ []) :
    let c0 : Chunk := { fl := fl0, secList := groups.flatMap (fun g => g.items.map (·.secs)),
                        trList := groups.map (·.tr) }
    let c := parseMeaningful c0 txt TRS_DESC (trsDescMarkers groups endPos)
    c.comps = expectedComps txt groups endPos ∧ c.trList = [] ∧ c.secList = [] ∧ c.fl = fl0 ∧
    c.lastTRUsed = true ∧ c.lastSecUsed = true := by
  intro c0 c
  have hc : c = (pairs (trsDescMarkers groups endPos)).foldl (stepP txt TRS_DESC) c0 := by
    show parseMeaningful c0 txt TRS_DESC _ = _
    unfold parseMeaningful
    simp only [sDescLays_TRS_DESC, trFirstLays_TRS_DESC, Bool.not_true, Bool.false_eq_true, if_false]
    exact walk_eq_pairs _ _ _ _
  obtain ⟨c', f1, f2, f3, f4, f5, _, _, _, _, f8⟩ :=
    walk_groups txt [(endPos, .textEnd)] groups [] [] c0 hne (by simp [c0]) (by simp [c0])
      (Or.inl rfl) (Or.inl rfl)
  have hc' : c = c' := by
    rw [hc, trsDescMarkers, f1]
    simp [pairs, stepP_textEnd]
  rw [hc', expectedComps_eq]
  obtain ⟨g1, g2⟩ := f8 hg
  exact ⟨by simpa [c0] using f2, f3, f4, f5, g1, g2⟩

theorem prettyGroups_items_ne_nil (ts : List TractObj) (wordSec : Str) (justify : Option Str) :
    ∀ g ∈ prettyGroups ts wordSec justify, g.items ≠ [] :=
  Pretty.groups_items_ne_nil _ _ _ _ (C01_groupConsecutive_nonempty ts)

theorem prettyGroups_ne_nil (ts : List TractObj) (wordSec : Str) (justify : Option Str) (h : ts ≠ []) :
    prettyGroups ts wordSec justify ≠ [] := by
  unfold prettyGroups
  cases hk : groupConsecutive ts with
  | nil => exact absurd hk (Pretty.groupConsecutive_ne_nil ts h)
  | cons kg more => simp [prettyGroupsAt]

/-- the lexical premise: on the text `txt` the two finders of `parse_chunk` (in the TRS_desc layout) report exactly the
    arrangement `prettyGroups ts` — the positions, the Twp/Rges in the library's short form and the section numbers -/
structure FindersReport (mc : MC) (pc : ParserCfg) (txt : Str) (groups : List TRGroup)
    (trs : List TRMatch) (tff : FinderFlags) (secs : List SecMatch) (sff : FinderFlags) : Prop where
  tr : twprgeFinder mc txt TRS_DESC = .ok (trs, tff)
  sec : secFinder txt TRS_DESC pc.requireColon = .ok (secs, sff)
  markers : populateMarkers txt.length secs trs = trsDescMarkers groups txt.length
  trList : trs.map (·.twprge) = groups.map (·.tr)
  secList : secs.map (·.secs) = groups.flatMap (fun g => g.items.map (·.secs))

/-- C01 (walk over the rendering): if on a text `txt` (the rendering) the finders report the arrangement `prettyGroups ts`, then
    `parse_chunk` in the TRS_desc layout succeeds, raises no error flag, keeps just the finders' warning flags, and
    (without `sec_within`) stages exactly one component per section reference of `prettyGroups ts`, in order, with the cleaned-up
    block between the markers -/
theorem C01_pretty_walk (mc : MC) (pc : ParserCfg) (ts : List TractObj) (wordSec : Str) (justify : Option Str)
    (txt parentLayout : Str) (trs : List TRMatch) (tff : FinderFlags) (secs : List SecMatch) (sff : FinderFlags)
    (hts : ts ≠ [])
    (hlay : chunkLayoutOf pc txt false parentLayout = TRS_DESC)
    (hfind : FindersReport mc pc txt (prettyGroups ts wordSec justify) trs tff secs sff) :
    ∃ c, parseChunkCore mc pc txt false parentLayout = .ok c ∧ c.fl.e = [] ∧ c.fl.w = tff.flags ++ sff.flags ∧
      (pc.secWithin = false → c.comps = expectedComps txt (prettyGroups ts wordSec justify) txt.length) := by
  obtain ⟨htr, hsec, hmark, htrl, hsecl⟩ := hfind
  have hne := prettyGroups_items_ne_nil ts wordSec justify
  have hg := prettyGroups_ne_nil ts wordSec justify hts
  obtain ⟨h1, h2, h3, h4, h5, h6⟩ := Pretty.walk_trs_desc_flags txt (prettyGroups ts wordSec justify) txt.length
    { w := tff.flags ++ sff.flags, wl := tff.lines ++ sff.lines } hne hg
  obtain ⟨f1, f2⟩ := finishChunk_clean pc _ h2 h3 (Or.inl h5) (Or.inl h6)
  have hcopy : (TRS_DESC == COPY_ALL) = false := by decide
  refine ⟨finishChunk pc (parseMeaningful
      { fl := { w := tff.flags ++ sff.flags, wl := tff.lines ++ sff.lines },
        secList := (prettyGroups ts wordSec justify).flatMap (fun g => g.items.map (·.secs)),
        trList := (prettyGroups ts wordSec justify).map (·.tr) } txt TRS_DESC
      (trsDescMarkers (prettyGroups ts wordSec justify) txt.length)), ?_, ?_, ?_, ?_⟩
  · unfold parseChunkCore
    simp only [hlay, htr, hsec, hcopy, hmark, htrl, hsecl]
    rfl
  · rw [f1, h4]
  · rw [f1, h4]
  · intro hsw
    exact ((f2 hsw).1).trans h1

/-! ### the staged components are the tracts -/

theorem Pretty.blocksOf_cleanup (j : Str) : ∀ (ts : List TractObj) (sep : Str), (∀ c ∈ sep, c ∈ cleanupStripSet) →
    (∀ t ∈ ts, cleanupStep t.desc = t.desc ∧ '\n' ∉ t.desc) →
    (blocksOf j ts sep).map cleanupDesc = ts.map (·.desc)
  | [], _, _, _ => rfl
  | [t], sep, hsep, h => by
    obtain ⟨h1, h2⟩ := h t (by simp)
    simp only [blocksOf, descJ, Pretty.pyReplace_nl_of_not_mem _ _ h2, List.map_cons, List.map_nil]
    rw [C01_cleanup_block (S " ") t.desc sep (by decide) hsep h1]
  | t :: t2 :: r, sep, hsep, h => by
    obtain ⟨h1, h2⟩ := h t (by simp)
    have ih := Pretty.blocksOf_cleanup j (t2 :: r) sep hsep (fun x hx => h x (List.mem_cons_of_mem _ hx))
    simp only [blocksOf, descJ, Pretty.pyReplace_nl_of_not_mem _ _ h2, List.map_cons] at ih ⊢
    rw [C01_cleanup_block (S " ") t.desc (S "\n") (by decide) (by decide) h1, ih]

theorem Pretty.zip_mkComp (txt : Str) : ∀ (B : List (Nat × Nat)) (P : List (Str × List Str)),
    (B.zip P).map (mkComp txt) = ((B.map (fun ab => cleanupDesc (slice txt ab.1 ab.2))).zip P).map
      (fun x => ({ desc := x.1, sec := some x.2.2, twprge := some x.2.1 } : Component))
  | [], _ => rfl
  | _ :: _, [] => rfl
  | b :: B, p :: P => by
    simp only [List.zip_cons_cons, List.map_cons, Pretty.zip_mkComp txt B P]
    rfl

/-- the components the tracts `ts` stand for: one per tract, its Twp/Rge, its one section, its description -/
def tractComps (ts : List TractObj) : List Component :=
  ts.map (fun t => { desc := t.desc, sec := some [secStr t], twprge := some (t.trs.twp ++ t.trs.rge) })

/-- C01: for tracts whose descriptions are clean and have no line break, the components expected from the arrangement
    `prettyGroups ts` on the rendered text are exactly the tracts -/
theorem C01_pretty_expectedComps (ts : List TractObj) (wordSec : Str) (justify : Option Str) (txt : Str)
    (htxt : prettyDesc ts wordSec justify = some txt) (hend : LastDescSolid ts)
    (hclean : ∀ t ∈ ts, cleanupStep t.desc = t.desc ∧ '\n' ∉ t.desc) :
    expectedComps txt (prettyGroups ts wordSec justify) txt.length = tractComps ts := by
  obtain ⟨_, _, h3, h4⟩ := C01_pretty_slices ts wordSec justify txt htxt hend
  rw [expectedComps_eq, h3]
  generalize groupBlocks (prettyGroups ts wordSec justify) [(txt.length, Marker.textEnd)] = B at h4 ⊢
  have hB := congrArg (List.map cleanupDesc) h4
  rw [Pretty.blocksOf_cleanup _ ts [] (by simp) hclean, List.map_map] at hB
  have hB' : B.map (fun ab => cleanupDesc (slice txt ab.1 ab.2)) = ts.map (·.desc) := by
    simpa only [Function.comp_def] using hB
  rw [Pretty.zip_mkComp, hB', List.zip_map', List.map_map]
  simp only [tractComps, Function.comp_def]

/-- C01 (round trip, glue level): if on the rendering of `ts` the finders report the arrangement `prettyGroups ts` (lexical
    premise), the descriptions are clean (fixed points of the clean-up pass) and contain NO LINE BREAK, and the last one does not
    end in white space, then `parse_chunk` on the rendering stages exactly the tracts' (Twp/Rge, [section], description), in
    order, with no error flag -/
theorem C01_pretty_roundtrip_glue (mc : MC) (pc : ParserCfg) (ts : List TractObj) (wordSec : Str) (justify : Option Str)
    (txt parentLayout : Str) (trs : List TRMatch) (tff : FinderFlags) (secs : List SecMatch) (sff : FinderFlags)
    (htxt : prettyDesc ts wordSec justify = some txt) (hend : LastDescSolid ts)
    (hclean : ∀ t ∈ ts, cleanupStep t.desc = t.desc ∧ '\n' ∉ t.desc)
    (hlay : chunkLayoutOf pc txt false parentLayout = TRS_DESC) (hsw : pc.secWithin = false)
    (hfind : FindersReport mc pc txt (prettyGroups ts wordSec justify) trs tff secs sff) :
    ∃ c, parseChunkCore mc pc txt false parentLayout = .ok c ∧ c.fl.e = [] ∧ c.comps = tractComps ts := by
  have hts : ts ≠ [] := by
    obtain ⟨t, c, hl, _⟩ := hend
    intro e; simp [e] at hl
  obtain ⟨c, h1, h2, _, h4⟩ := C01_pretty_walk mc pc ts wordSec justify txt parentLayout trs tff secs sff hts hlay hfind
  exact ⟨c, h1, h2, (h4 hsw).trans (C01_pretty_expectedComps ts wordSec justify txt htxt hend hclean)⟩

/-! ## 4. Non-vacuity: a concrete rendering, evaluated by the kernel -/

/-- decidable form of `LastDescSolid` -/
def Pretty.lastDescSolidB (ts : List TractObj) : Bool :=
  match ts.getLast? with
  | some t => (match t.desc.getLast? with | some c => !pyIsSpace c | none => false)
  | none => false

theorem Pretty.lastDescSolid_of_B (ts : List TractObj) (h : Pretty.lastDescSolidB ts = true) : LastDescSolid ts := by
  unfold Pretty.lastDescSolidB at h
  cases h1 : ts.getLast? with
  | none => simp [h1] at h
  | some t =>
    cases h2 : t.desc.getLast? with
    | none => simp [h1, h2] at h
    | some c => exact ⟨t, c, h1, h2, by simpa [h1, h2] using h⟩

/-- the result of a computation that does not fail (with a default that is never used) -/
def Pretty.okOr {α : Type} (x : Except PyErr α) (d : α) : α := match x with | .ok r => r | .error _ => d
def Pretty.isOkB {α : Type} (x : Except PyErr α) : Bool := match x with | .ok _ => true | .error _ => false

theorem Pretty.except_ok_of {α : Type} (x : Except PyErr α) (d : α) (h : Pretty.isOkB x = true) : x = .ok (Pretty.okOr x d) := by
  cases x with
  | ok r => rfl
  | error e => cases h

namespace PrettyEx

/-- the Twp/Rge/Sec components of 154n97w<sec>, as `trs_to_dict` gives them -/
def trsOf (sec : Str) (n : Int) : TRS.TrsDict :=
  { trs := S "154n97w" ++ sec, twp := S "154n", twpNum := some 154, twpNs := some (S "n"), twpUndef := false,
    rge := S "97w", rgeNum := some 97, rgeEw := some (S "w"), rgeUndef := false,
    sec := some sec, secNum := some n, secUndef := false }

example : TRS.trsToDict (some (S "154n97w14")) = trsOf (S "14") 14 := by decide +kernel

def mkTract (sec : Str) (n : Int) (desc : Str) : TractObj :=
  { uid := 0, trs := trsOf sec n, desc := desc, origDesc := none, origIndex := 0, source := none,
    attrs := tractDefaults, ppDesc := desc }

/-- the tracts 154n97w14 "NE/4" and 154n97w15 "W/2" -/
def tracts : List TractObj := [mkTract (S "14") 14 (S "NE/4"), mkTract (S "15") 15 (S "W/2")]

def rendered : Str := S "T154N-R97W\nSec 14: NE/4\nSec 15: W/2"

def pc : ParserCfg := { mandateLayout := false, requireColon := .no, secWithin := false }

theorem tracts_eq : tracts.map (fun t => (t.trs.trs, t.desc)) = [(S "154n97w14", S "NE/4"), (S "154n97w15", S "W/2")] := by
  decide +kernel

/-- `C01_pretty_structure`, evaluated: the two tracts render to this text -/
theorem rendered_eq : prettyDesc tracts = some rendered := by decide +kernel

/-- `C01_groupConsecutive_*`, evaluated: one group of two tracts -/
example : (groupConsecutive tracts).map (fun kg => (kg.1, kg.2.length)) = [(S "154n97w", 2)] := by decide +kernel
example : (groupConsecutive tracts).flatMap (·.2) = tracts := C01_groupConsecutive_flatten tracts

/-- the hypotheses of the positions / round trip theorems hold for these tracts -/
theorem solid : LastDescSolid tracts := Pretty.lastDescSolid_of_B _ (by decide +kernel)
theorem clean : ∀ t ∈ tracts, cleanupStep t.desc = t.desc ∧ '\n' ∉ t.desc := by decide +kernel
theorem layout_ok : chunkLayoutOf pc rendered false TRS_DESC = TRS_DESC := by decide +kernel

/-- the recorded spans: header at 0–10, "Sec 14:" at 11–18, "Sec 15:" at 24–31, end of text 35 -/
theorem groups_eq : trsDescMarkers (prettyGroups tracts) rendered.length =
    [(0, .trStart), (10, .trEnd), (11, .secStart), (18, .secEnd), (24, .secStart), (31, .secEnd), (35, .textEnd)] := by
  decide +kernel

theorem hdrs_eq : (groupConsecutive tracts).map (fun kg => hdrOf kg.1) = [S "T154N-R97W"] := by decide +kernel
theorem blocks_eq : blocksOf (defaultJst (S "Sec ") none) tracts [] = [S " NE/4\n", S " W/2"] := by decide +kernel

/-- `C01_pretty_slices` on the concrete rendering -/
example : (prettyGroups tracts).map (fun g => slice rendered g.tStart g.tEnd) = [S "T154N-R97W"] ∧
    (prettyGroups tracts).flatMap (fun g => g.items.map (fun s => slice rendered s.sStart s.sEnd))
      = [S "Sec 14:", S "Sec 15:"] ∧
    (groupBlocks (prettyGroups tracts) [(rendered.length, .textEnd)]).map (fun ab => slice rendered ab.1 ab.2)
      = [S " NE/4\n", S " W/2"] := by
  obtain ⟨h1, h2, _, h4⟩ := C01_pretty_slices tracts (S "Sec ") none rendered rendered_eq solid
  rw [hdrs_eq] at h1
  rw [blocks_eq] at h4
  exact ⟨h1, h2, h4⟩

def trRes : List TRMatch × FinderFlags := Pretty.okOr (twprgeFinder {} rendered TRS_DESC) ([], {})
def secRes : List SecMatch × FinderFlags := Pretty.okOr (secFinder rendered TRS_DESC .no) ([], {})

theorem tr_ok : twprgeFinder {} rendered TRS_DESC = .ok trRes := Pretty.except_ok_of _ _ (by decide +kernel)
theorem sec_ok : secFinder rendered TRS_DESC .no = .ok secRes := Pretty.except_ok_of _ _ (by decide +kernel)

/-- the lexical premise holds on the concrete rendering: the library's finders (regenerated patterns, evaluated by the kernel)
    report exactly the arrangement `prettyGroups tracts` -/
theorem finders : FindersReport {} pc rendered (prettyGroups tracts) trRes.1 trRes.2 secRes.1 secRes.2 where
  tr := by rw [Prod.eta]; exact tr_ok
  sec := by rw [Prod.eta]; exact sec_ok
  markers := by decide +kernel
  trList := by decide +kernel
  secList := by decide +kernel

/-- `C01_pretty_walk` and `C01_pretty_roundtrip_glue` on the concrete rendering: all hypotheses hold, and `parse_chunk` on the
    rendered text stages exactly the two tracts -/
example : ∃ c, parseChunkCore {} pc rendered false TRS_DESC = .ok c ∧ c.fl.e = [] ∧ c.comps = tractComps tracts :=
  C01_pretty_roundtrip_glue {} pc tracts (S "Sec ") none rendered TRS_DESC _ _ _ _ rendered_eq solid clean layout_ok rfl
    finders

example : ∃ c, parseChunkCore {} pc rendered false TRS_DESC = .ok c ∧ c.fl.e = [] ∧
    c.fl.w = trRes.2.flags ++ secRes.2.flags ∧
    (pc.secWithin = false → c.comps = expectedComps rendered (prettyGroups tracts) rendered.length) :=
  C01_pretty_walk {} pc tracts (S "Sec ") none rendered TRS_DESC _ _ _ _ (List.cons_ne_nil _ _) layout_ok finders

example : (tractComps tracts).map (fun c => (c.twprge, c.sec, c.desc)) =
    [(some (S "154n97w"), some [S "14"], S "NE/4"), (some (S "154n97w"), some [S "15"], S "W/2")] := by decide +kernel

/-! ### the exceptions are real -/

/-- the same two tracts with a second line in each description -/
def multi : List TractObj := [mkTract (S "14") 14 (S "NE/4\nSW/4"), mkTract (S "15") 15 (S "W/2\nSW/4")]

def multiRendered : Str := S "T154N-R97W\nSec 14: NE/4\n        SW/4\nSec 15: W/2\n        SW/4"

theorem multi_clean : ∀ t ∈ multi, cleanupStep t.desc = t.desc := by decide +kernel
theorem multi_solid : LastDescSolid multi := Pretty.lastDescSolid_of_B _ (by decide +kernel)
theorem multi_rendered : prettyDesc multi = some multiRendered := by decide +kernel
theorem multi_chunk :
    (match parseChunkCore {} pc multiRendered false TRS_DESC with
      | .ok c => (c.comps.map (fun (x : Component) => x.desc), c.fl.e.length)
      | .error _ => ([], 1)) = ([S "NE/4\n        SW/4", S "W/2\n        SW/4"], 0) := by decide +kernel

theorem multi_full :
    (match plssParser {} 0 multiRendered {} with
      | .ok out => (out.tracts.map (fun (t : TractObj) => (t.trs.trs, t.desc)), out.fl.e.length)
      | .error _ => ([], 1)) = ([(S "154n97w14", S "NE/4\n SW/4"), (S "154n97w15", S "W/2\n SW/4")], 0) := by
  decide +kernel

/-- the same two tracts, the last description ending in a carriage return -/
def withCR : List TractObj := [mkTract (S "14") 14 (S "NE/4"), mkTract (S "15") 15 (S "W/2\r")]

end PrettyEx

/-- C01 (the known exception is real): descriptions with a line break are clean and render with the continuation line
    indented (the rendering is in the Twp/Rge – Sec – description layout), but `parse_chunk` on the rendering stages the
    descriptions WITH the indentation, so they differ from the tracts' descriptions: the hypothesis "no line break" of
    `C01_pretty_roundtrip_glue` cannot be dropped -/
theorem C01_pretty_multiline_differs :
    (∀ t ∈ PrettyEx.multi, cleanupStep t.desc = t.desc) ∧ LastDescSolid PrettyEx.multi ∧
    PrettyEx.multi.map (·.desc) = [S "NE/4\nSW/4", S "W/2\nSW/4"] ∧
    prettyDesc PrettyEx.multi = some PrettyEx.multiRendered ∧
    (match parseChunkCore {} PrettyEx.pc PrettyEx.multiRendered false TRS_DESC with
      | .ok c => (c.comps.map (fun (x : Component) => x.desc), c.fl.e.length)
      | .error _ => ([], 1)) = ([S "NE/4\n        SW/4", S "W/2\n        SW/4"], 0) :=
  ⟨PrettyEx.multi_clean, PrettyEx.multi_solid, rfl, PrettyEx.multi_rendered, PrettyEx.multi_chunk⟩

/-- the same through the whole parser (preprocessing reduces the indentation to one blank): the descriptions that come back
    are "NE/4\n SW/4" and "W/2\n SW/4", not "NE/4\nSW/4" and "W/2\nSW/4" -/
theorem C01_pretty_multiline_differs_full :
    (match plssParser {} 0 PrettyEx.multiRendered {} with
      | .ok out => (out.tracts.map (fun (t : TractObj) => (t.trs.trs, t.desc)), out.fl.e.length)
      | .error _ => ([], 1)) = ([(S "154n97w14", S "NE/4\n SW/4"), (S "154n97w15", S "W/2\n SW/4")], 0) :=
  PrettyEx.multi_full

/-- C01 (`LastDescSolid` cannot be dropped): a last description ending in a carriage return is a fixed point of
    `cleanup_desc` and has no line break, but the final `strip()` of `pretty_desc` removes the carriage return: the rendering is
    shorter than the unstripped text minus its leading line break (and the description cannot come back) -/
theorem C01_pretty_strip_needs_solid :
    (∀ t ∈ PrettyEx.withCR, cleanupStep t.desc = t.desc ∧ '\n' ∉ t.desc) ∧
    prettyDesc PrettyEx.withCR = some (S "T154N-R97W\nSec 14: NE/4\nSec 15: W/2") ∧
    prettyRaw (S "Sec ") (defaultJst (S "Sec ") none) PrettyEx.withCR = S "\nT154N-R97W\nSec 14: NE/4\nSec 15: W/2\r" :=
  ⟨by decide +kernel, by decide +kernel, by decide +kernel⟩

#print axioms C01_pretty_structure
#print axioms C01_pretty_structure'
#print axioms C01_pretty_structure_default
#print axioms C01_groupConsecutive_flatten
#print axioms C01_groupConsecutive_keys
#print axioms C01_groupConsecutive_nonempty
#print axioms C01_pretty_strip
#print axioms C01_pretty_slices
#print axioms C01_cleanup_block
#print axioms C01_cleanup_colon_block
#print axioms C01_cleanup_colon_block_iff
#print axioms C01_pretty_walk
#print axioms C01_pretty_expectedComps
#print axioms C01_pretty_roundtrip_glue
#print axioms C01_pretty_multiline_differs
#print axioms C01_pretty_multiline_differs_full
#print axioms C01_pretty_strip_needs_solid
#print axioms PrettyEx.finders

end PyTRS
