/-
G3 — signature invariance for the L0 matcher: a pattern cannot distinguish two characters that belong to the same
of its character classes (and, when it uses `$`, agree on being a newline).  Hence all match positions and capture
positions coincide on texts that are pointwise signature-equal.

Core lemma (`Rx.m_sig`): a relational ("parametricity") statement about the CPS matcher — for related start states
and continuations that map related states to related results, the results are related.  Look-aheads use it at result
type `St` with the state relation itself as result relation; everything else uses it with `Eq`.
-/
import PyTRS.Rx
import PyTRS.Gen.Patterns
namespace PyTRS

/-! ### definitions -/

/-- every character set the pattern tests: `chr`, `behind`, `wordb` sets, including inside look-aheads -/
def Rx.atoms : Rx → List CharSet
  | .eps | .fail | .eos | .bos => []
  | .chr cs | .behind cs | .wordb cs => [cs]
  | .seq a b | .alt a b => a.atoms ++ b.atoms
  | .rep r _ _ | .grp _ r | .ahead r | .nahead r => r.atoms

/-- does the pattern contain `$` anywhere (then newline-ness matters) -/
def Rx.usesEos : Rx → Bool
  | .eos => true
  | .eps | .fail | .bos | .chr _ | .behind _ | .wordb _ => false
  | .seq a b | .alt a b => a.usesEos || b.usesEos
  | .rep r _ _ | .grp _ r | .ahead r | .nahead r => r.usesEos

/-- `c` and `c'` are indistinguishable for `r` (Bool-valued so that it is decidable by evaluation) -/
def Rx.sigEq (r : Rx) (c c' : Char) : Bool :=
  r.atoms.all (fun cs => cs.mem c == cs.mem c') && (!r.usesEos || ((c == '\n') == (c' == '\n')))

/-- pointwise on texts (same length) -/
def Rx.sigEqText (r : Rx) : List Char → List Char → Bool
  | [], [] => true
  | c :: t, c' :: t' => r.sigEq c c' && r.sigEqText t t'
  | _, _ => false

/-! ### relations -/

/-- lifting of a relation to `Option` -/
def OptRel {α β : Type} (Q : α → β → Prop) : Option α → Option β → Prop
  | none, none => True
  | some a, some b => Q a b
  | _, _ => False

theorem OptRel.eq_iff {α : Type} (a b : Option α) : OptRel Eq a b ↔ a = b := by
  cases a <;> cases b <;> simp [OptRel]

/-- lifting of a relation to lists of equal length -/
def ListRel {α β : Type} (Q : α → β → Prop) : List α → List β → Prop
  | [], [] => True
  | a :: t, b :: t' => Q a b ∧ ListRel Q t t'
  | _, _ => False

theorem ListRel.length_eq {α β : Type} {Q : α → β → Prop} : ∀ {l : List α} {l' : List β}, ListRel Q l l' → l.length = l'.length
  | [], [], _ => rfl
  | _ :: t, _ :: t', h => by simp only [List.length_cons]; rw [ListRel.length_eq h.2]
  | [], _ :: _, h => h.elim
  | _ :: _, [], h => h.elim

theorem ListRel.head? {α β : Type} {Q : α → β → Prop} : ∀ {l : List α} {l' : List β}, ListRel Q l l' → OptRel Q l.head? l'.head?
  | [], [], _ => trivial
  | _ :: _, _ :: _, h => h.1
  | [], _ :: _, h => h.elim
  | _ :: _, [], h => h.elim

theorem ListRel.take {α β : Type} {Q : α → β → Prop} : ∀ (n : Nat) {l : List α} {l' : List β}, ListRel Q l l' → ListRel Q (l.take n) (l'.take n)
  | 0, _, _, _ => by simp only [List.take_zero]; trivial
  | _+1, [], [], _ => trivial
  | n+1, _ :: _, _ :: _, h => ⟨h.1, ListRel.take n h.2⟩
  | _+1, [], _ :: _, h => h.elim
  | _+1, _ :: _, [], h => h.elim

theorem ListRel.drop {α β : Type} {Q : α → β → Prop} : ∀ (n : Nat) {l : List α} {l' : List β}, ListRel Q l l' → ListRel Q (l.drop n) (l'.drop n)
  | 0, _, _, h => h
  | _+1, [], [], _ => trivial
  | n+1, _ :: _, _ :: _, h => ListRel.drop n h.2
  | _+1, [], _ :: _, h => h.elim
  | _+1, _ :: _, [], h => h.elim

theorem ListRel.getElem? {α β : Type} {Q : α → β → Prop} : ∀ (n : Nat) {l : List α} {l' : List β}, ListRel Q l l' → OptRel Q l[n]? l'[n]?
  | _, [], [], _ => by simp only [List.getElem?_nil]; trivial
  | 0, _ :: _, _ :: _, h => h.1
  | n+1, _ :: _, _ :: _, h => by simp only [List.getElem?_cons_succ]; exact ListRel.getElem? n h.2
  | _, [], _ :: _, h => h.elim
  | _, _ :: _, [], h => h.elim

/-- `c`, `c'` are not told apart by any set in `A`, nor (when `e`) by the newline test -/
def CharRel (A : List CharSet) (e : Bool) (c c' : Char) : Prop :=
  (∀ cs ∈ A, cs.mem c = cs.mem c') ∧ (e = true → (c == '\n') = (c' == '\n'))

/-- related matcher states: same position and captures; text around the cursor pointwise related -/
structure SigSt (A : List CharSet) (e : Bool) (s s' : St) : Prop where
  pos : s.pos = s'.pos
  caps : s.caps = s'.caps
  rest : ListRel (CharRel A e) s.rest s'.rest
  prev : OptRel (CharRel A e) s.prev s'.prev

/-- the sub-pattern only tests sets from `A`, and uses `$` only if `e` -/
def Rx.Within (A : List CharSet) (e : Bool) (r : Rx) : Prop :=
  (∀ cs ∈ r.atoms, cs ∈ A) ∧ (r.usesEos = true → e = true)

theorem Rx.within_self (r : Rx) : r.Within r.atoms r.usesEos := ⟨fun _ h => h, fun h => h⟩

/-- the relational property of a matcher component -/
def SigResp (A : List CharSet) (e : Bool) {R R' : Type} (Q : R → R' → Prop)
    (f : St → (St → Option R) → Option R) (f' : St → (St → Option R') → Option R') : Prop :=
  ∀ s s' k k', SigSt A e s s' → (∀ t t', SigSt A e t t' → OptRel Q (k t) (k' t')) → OptRel Q (f s k) (f' s' k')

/-! ### the loop -/

theorem repLoop_sig (A : List CharSet) (e : Bool) {R R' : Type} (Q : R → R' → Prop)
    (body : St → (St → Option R) → Option R) (body' : St → (St → Option R') → Option R')
    (hb : SigResp A e Q body body') (lo : Nat) (hi : Option Nat) :
    ∀ (fuel count : Nat) (last : Option Nat), SigResp A e Q (repLoop body lo hi fuel count last) (repLoop body' lo hi fuel count last) := by
  intro fuel
  induction fuel with
  | zero => intro count last s s' k k' _ _; simp only [repLoop]; trivial
  | succ n ih =>
    intro count last s s' k k' hs hk
    rw [repLoop.eq_def, repLoop.eq_def]
    simp only []
    by_cases h1 : count < lo
    · simp only [h1, if_true]
      exact hb _ _ _ _ hs (fun t t' ht => ih _ _ t t' k k' ht hk)
    · simp only [h1, if_false]
      rw [← hs.pos]
      by_cases h2 : (canMore hi count && last != some s.pos) = true
      · simp only [h2, if_true]
        have hbody := hb s s' _ _ hs (fun t t' ht => ih (count + 1) (some s.pos) t t' k k' ht hk)
        revert hbody
        cases body s (fun s' => repLoop body lo hi n (count + 1) (some s.pos) s' k) <;>
          cases body' s' (fun s' => repLoop body' lo hi n (count + 1) (some s.pos) s' k') <;>
          intro hbody
        · exact hk s s' hs
        · exact hbody.elim
        · exact hbody.elim
        · exact hbody
      · simp only [h2]
        exact hk s s' hs

/-! ### the core lemma -/

theorem isWord_sig {A : List CharSet} {e : Bool} {w : CharSet} (hw : w ∈ A) :
    ∀ {p p' : Option Char}, OptRel (CharRel A e) p p' → isWord w p = isWord w p'
  | none, none, _ => rfl
  | some _, some _, h => h.1 w hw
  | none, some _, h => h.elim
  | some _, none, h => h.elim

theorem Rx.m_sig (A : List CharSet) (e : Bool) (r : Rx) (hr : r.Within A e) :
    ∀ {R R' : Type} (Q : R → R' → Prop), SigResp A e Q (r.m (R := R)) (r.m (R := R')) := by
  induction r with
  | eps => intro R R' Q s s' k k' hs hk; simp only [Rx.m]; exact hk s s' hs
  | fail => intro R R' Q s s' k k' hs hk; simp only [Rx.m]; trivial
  | chr cs =>
    intro R R' Q s s' k k' hs hk
    have hcs : cs ∈ A := hr.1 cs (by simp [Rx.atoms])
    simp only [Rx.m]
    have hrest := hs.rest
    have hpos := hs.pos
    have hcaps := hs.caps
    revert hrest
    cases s.rest with
    | nil =>
      cases s'.rest with
      | nil => intro _; trivial
      | cons c' t' => intro h; exact h.elim
    | cons c t =>
      cases s'.rest with
      | nil => intro h; exact h.elim
      | cons c' t' =>
        intro h
        simp only []
        rw [← h.1.1 cs hcs]
        by_cases hm : cs.mem c = true
        · simp only [hm, if_true]
          exact hk _ _ ⟨by simp only [hpos], hcaps, h.2, h.1⟩
        · simp only [hm]; trivial
  | seq a b iha ihb =>
    intro R R' Q s s' k k' hs hk
    have ha : a.Within A e := ⟨fun cs h => hr.1 cs (by simp [Rx.atoms, h]), fun h => hr.2 (by simp [Rx.usesEos, h])⟩
    have hb : b.Within A e := ⟨fun cs h => hr.1 cs (by simp [Rx.atoms, h]), fun h => hr.2 (by simp [Rx.usesEos, h])⟩
    simp only [Rx.m]
    exact iha ha Q s s' _ _ hs (fun t t' ht => ihb hb Q t t' k k' ht hk)
  | alt a b iha ihb =>
    intro R R' Q s s' k k' hs hk
    have ha : a.Within A e := ⟨fun cs h => hr.1 cs (by simp [Rx.atoms, h]), fun h => hr.2 (by simp [Rx.usesEos, h])⟩
    have hb : b.Within A e := ⟨fun cs h => hr.1 cs (by simp [Rx.atoms, h]), fun h => hr.2 (by simp [Rx.usesEos, h])⟩
    simp only [Rx.m]
    have h1 := iha ha Q s s' k k' hs hk
    revert h1
    cases a.m s k <;> cases a.m s' k' <;> intro h1
    · exact ihb hb Q s s' k k' hs hk
    · exact h1.elim
    · exact h1.elim
    · exact h1
  | rep r lo hi ih =>
    intro R R' Q s s' k k' hs hk
    have hr' : r.Within A e := hr
    simp only [Rx.m]
    rw [← ListRel.length_eq hs.rest]
    exact repLoop_sig A e Q _ _ (ih hr' Q) lo hi _ _ _ s s' k k' hs hk
  | grp i r ih =>
    intro R R' Q s s' k k' hs hk
    have hr' : r.Within A e := hr
    simp only [Rx.m]
    rw [← hs.pos]
    refine ih hr' Q s s' _ _ hs (fun t t' ht => hk _ _ ⟨ht.pos, ?_, ht.rest, ht.prev⟩)
    simp only [ht.pos, ht.caps]
  | ahead r ih =>
    intro R R' Q s s' k k' hs hk
    have hr' : r.Within A e := hr
    simp only [Rx.m]
    have h1 := ih hr' (SigSt A e) s s' some some hs (fun t t' ht => ht)
    revert h1
    cases r.m s some <;> cases r.m s' some <;> intro h1
    · trivial
    · exact h1.elim
    · exact h1.elim
    · exact hk _ _ ⟨hs.pos, h1.caps, hs.rest, hs.prev⟩
  | nahead r ih =>
    intro R R' Q s s' k k' hs hk
    have hr' : r.Within A e := hr
    simp only [Rx.m]
    have h1 := ih hr' (SigSt A e) s s' some some hs (fun t t' ht => ht)
    revert h1
    cases r.m s some <;> cases r.m s' some <;> intro h1
    · exact hk s s' hs
    · exact h1.elim
    · exact h1.elim
    · trivial
  | behind cs =>
    intro R R' Q s s' k k' hs hk
    have hcs : cs ∈ A := hr.1 cs (by simp [Rx.atoms])
    simp only [Rx.m]
    have hprev := hs.prev
    revert hprev
    cases s.prev <;> cases s'.prev <;> intro hprev
    · trivial
    · exact hprev.elim
    · exact hprev.elim
    · rename_i c c'
      simp only []
      rw [← hprev.1 cs hcs]
      by_cases hm : cs.mem c = true
      · simp only [hm, if_true]; exact hk s s' hs
      · simp only [hm]; trivial
  | wordb w =>
    intro R R' Q s s' k k' hs hk
    have hw : w ∈ A := hr.1 w (by simp [Rx.atoms])
    simp only [Rx.m]
    rw [← isWord_sig hw hs.prev, ← isWord_sig hw (ListRel.head? hs.rest)]
    split
    · exact hk s s' hs
    · trivial
  | eos =>
    intro R R' Q s s' k k' hs hk
    have he : e = true := hr.2 rfl
    simp only [Rx.m]
    have hrest := hs.rest
    revert hrest
    rcases s.rest with _ | ⟨c, _ | ⟨d, t⟩⟩ <;> rcases s'.rest with _ | ⟨c', _ | ⟨d', t'⟩⟩ <;> intro hrest
    · exact hk s s' hs
    · exact hrest.elim
    · exact hrest.elim
    · exact hrest.elim
    · simp only []
      rw [← hrest.1.2 he]
      by_cases hm : (c == '\n') = true
      · simp only [hm, if_true]; exact hk s s' hs
      · simp only [hm]; trivial
    · exact hrest.2.elim
    · exact hrest.elim
    · exact hrest.2.elim
    · trivial
  | bos =>
    intro R R' Q s s' k k' hs hk
    simp only [Rx.m]
    rw [← hs.pos]
    split
    · exact hk s s' hs
    · trivial

/-! ### matchHere / scan / search / matchAt / fullmatch / finditer on related cursors -/

theorem matchHere_sig {A : List CharSet} {e : Bool} {r : Rx} (hr : r.Within A e) {s s' : St} (hs : SigSt A e s s') (adv : Bool) :
    matchHere r s adv = matchHere r s' adv := by
  unfold matchHere
  refine (OptRel.eq_iff _ _).1 (Rx.m_sig A e r hr Eq s s' _ _ hs ?_)
  intro t t' ht
  rw [ht.pos, ht.caps, hs.pos]
  exact (OptRel.eq_iff _ _).2 rfl

theorem scan_sig {A : List CharSet} {e : Bool} {r : Rx} (hr : r.Within A e) :
    ∀ (rest rest' : List Char) (prev prev' : Option Char) (pos : Nat) (adv : Bool),
      ListRel (CharRel A e) rest rest' → OptRel (CharRel A e) prev prev' →
      scan r prev rest pos adv = scan r prev' rest' pos adv := by
  intro rest
  induction rest with
  | nil =>
    intro rest' prev prev' pos adv hrest hprev
    cases rest' with
    | cons _ _ => exact hrest.elim
    | nil =>
      rw [scan, scan, matchHere_sig hr (s := ⟨prev, [], pos, []⟩) (s' := ⟨prev', [], pos, []⟩) ⟨rfl, rfl, hrest, hprev⟩ adv]
  | cons c t ih =>
    intro rest' prev prev' pos adv hrest hprev
    cases rest' with
    | nil => exact hrest.elim
    | cons c' t' =>
      rw [scan, scan, matchHere_sig hr (s := ⟨prev, c :: t, pos, []⟩) (s' := ⟨prev', c' :: t', pos, []⟩) ⟨rfl, rfl, hrest, hprev⟩ adv]
      rw [ih t' (some c) (some c') (pos + 1) false hrest.2 hrest.1]

theorem cursorAt_sig {A : List CharSet} {e : Bool} {t t' : List Char} (h : ListRel (CharRel A e) t t') (pos endpos : Nat) :
    OptRel (CharRel A e) (cursorAt t pos endpos).1 (cursorAt t' pos endpos).1 ∧
    ListRel (CharRel A e) (cursorAt t pos endpos).2 (cursorAt t' pos endpos).2 := by
  simp only [cursorAt]
  refine ⟨?_, ListRel.drop pos (ListRel.take endpos h)⟩
  split
  · trivial
  · exact ListRel.getElem? _ (ListRel.take endpos h)

theorem advance_sig {A : List CharSet} {e : Bool} :
    ∀ (n : Nat) (rest rest' : List Char) (prev prev' : Option Char),
      ListRel (CharRel A e) rest rest' → OptRel (CharRel A e) prev prev' →
      OptRel (CharRel A e) (advance prev rest n).1 (advance prev' rest' n).1 ∧
      ListRel (CharRel A e) (advance prev rest n).2 (advance prev' rest' n).2
  | 0, _, _, _, _, hr, hp => by simp only [advance]; exact ⟨hp, hr⟩
  | _+1, [], [], _, _, hr, hp => by simp only [advance]; exact ⟨hp, hr⟩
  | n+1, c :: t, c' :: t', _, _, hr, _ => by simp only [advance]; exact advance_sig n t t' (some c) (some c') hr.2 hr.1
  | _+1, [], _ :: _, _, _, hr, _ => hr.elim
  | _+1, _ :: _, [], _, _, hr, _ => hr.elim

theorem finditerAux_sig {A : List CharSet} {e : Bool} {r : Rx} (hr : r.Within A e) :
    ∀ (fuel : Nat) (rest rest' : List Char) (prev prev' : Option Char) (pos : Nat) (adv : Bool),
      ListRel (CharRel A e) rest rest' → OptRel (CharRel A e) prev prev' →
      finditerAux r fuel prev rest pos adv = finditerAux r fuel prev' rest' pos adv := by
  intro fuel
  induction fuel with
  | zero => intro rest rest' prev prev' pos adv _ _; rfl
  | succ n ih =>
    intro rest rest' prev prev' pos adv hrest hprev
    rw [finditerAux, finditerAux, scan_sig hr rest rest' prev prev' pos adv hrest hprev]
    cases scan r prev' rest' pos adv with
    | none => rfl
    | some m =>
      simp only []
      have ha := advance_sig (m.stop - pos) rest rest' prev prev' hrest hprev
      rw [ih _ _ _ _ m.stop (m.stop == m.start) ha.2 ha.1]

/-! ### from the Bool-valued signature test to the relations -/

theorem Rx.sigEq_charRel {r : Rx} {c c' : Char} (h : r.sigEq c c' = true) : CharRel r.atoms r.usesEos c c' := by
  simp only [Rx.sigEq, Bool.and_eq_true, List.all_eq_true, beq_iff_eq, Bool.or_eq_true, Bool.not_eq_true'] at h
  refine ⟨h.1, fun he => ?_⟩
  rcases h.2 with h2 | h2
  · rw [he] at h2; cases h2
  · exact h2

theorem Rx.sigEqText_listRel (r : Rx) : ∀ {t t' : List Char}, r.sigEqText t t' = true → ListRel (CharRel r.atoms r.usesEos) t t'
  | [], [], _ => trivial
  | c :: t, c' :: t', h => by
    simp only [Rx.sigEqText, Bool.and_eq_true] at h
    exact ⟨Rx.sigEq_charRel h.1, Rx.sigEqText_listRel r h.2⟩
  | [], _ :: _, h => by simp [Rx.sigEqText] at h
  | _ :: _, [], h => by simp [Rx.sigEqText] at h

/-! ### G3 headline theorems -/

theorem Rx.search_sig (r : Rx) (t t' : List Char) (h : r.sigEqText t t' = true) (pos endpos : Nat) :
    r.search t pos endpos = r.search t' pos endpos := by
  have hl := Rx.sigEqText_listRel r h
  have hc := cursorAt_sig hl pos endpos
  unfold Rx.search
  rw [← ListRel.length_eq hl]
  split
  · rfl
  · exact scan_sig r.within_self _ _ _ _ pos false hc.2 hc.1

theorem Rx.matchAt_sig (r : Rx) (t t' : List Char) (h : r.sigEqText t t' = true) (pos endpos : Nat) :
    r.matchAt t pos endpos = r.matchAt t' pos endpos := by
  have hl := Rx.sigEqText_listRel r h
  have hc := cursorAt_sig hl pos endpos
  unfold Rx.matchAt
  rw [← ListRel.length_eq hl]
  split
  · rfl
  · exact matchHere_sig r.within_self (s := ⟨(cursorAt t pos endpos).1, (cursorAt t pos endpos).2, pos, []⟩)
      (s' := ⟨(cursorAt t' pos endpos).1, (cursorAt t' pos endpos).2, pos, []⟩) ⟨rfl, rfl, hc.2, hc.1⟩ false

theorem Rx.fullmatch_sig (r : Rx) (t t' : List Char) (h : r.sigEqText t t' = true) :
    r.fullmatch t = r.fullmatch t' := by
  have hl := Rx.sigEqText_listRel r h
  unfold Rx.fullmatch
  refine (OptRel.eq_iff _ _).1 (Rx.m_sig _ _ r r.within_self Eq ⟨none, t, 0, []⟩ ⟨none, t', 0, []⟩ _ _ ⟨rfl, rfl, hl, trivial⟩ ?_)
  intro u u' hu
  have hemp : u.rest.isEmpty = u'.rest.isEmpty := by
    have hrest := hu.rest
    revert hrest
    cases u.rest <;> cases u'.rest <;> intro hrest
    · rfl
    · exact hrest.elim
    · exact hrest.elim
    · rfl
  rw [hu.pos, hu.caps, hemp]
  exact (OptRel.eq_iff _ _).2 rfl

theorem Rx.finditer_sig (r : Rx) (t t' : List Char) (h : r.sigEqText t t' = true) (pos endpos : Nat) :
    r.finditer t pos endpos = r.finditer t' pos endpos := by
  have hl := Rx.sigEqText_listRel r h
  have hc := cursorAt_sig hl pos endpos
  unfold Rx.finditer
  rw [← ListRel.length_eq hl]
  split
  · rfl
  · simp only []
    rw [← ListRel.length_eq hc.2]
    exact finditerAux_sig r.within_self _ _ _ _ _ pos false hc.2 hc.1

/-! ### corollaries: blindness to a set of characters -/

theorem Rx.sigEq_refl (r : Rx) (c : Char) : r.sigEq c c = true := by
  simp [Rx.sigEq]

/-- all characters of `D` are pairwise indistinguishable for `r` -/
def Rx.alikeOn (r : Rx) (D : List Char) : Bool := D.all (fun a => D.all (fun b => r.sigEq a b))

/-- same length, and at each index either equal characters or both in `D` -/
def sameUpTo (D : List Char) : List Char → List Char → Bool
  | [], [] => true
  | c :: t, c' :: t' => (c == c' || (D.contains c && D.contains c')) && sameUpTo D t t'
  | _, _ => false

theorem Rx.sigEqText_of_sameUpTo (r : Rx) (D : List Char) (h : r.alikeOn D = true) :
    ∀ (t t' : List Char), sameUpTo D t t' = true → r.sigEqText t t' = true
  | [], [], _ => rfl
  | c :: t, c' :: t', ht => by
    simp only [sameUpTo, Bool.and_eq_true, Bool.or_eq_true, beq_iff_eq, List.contains_iff_mem] at ht
    simp only [Rx.sigEqText, Bool.and_eq_true]
    refine ⟨?_, Rx.sigEqText_of_sameUpTo r D h t t' ht.2⟩
    rcases ht.1 with heq | ⟨hc, hc'⟩
    · rw [heq]; exact r.sigEq_refl c'
    · simp only [Rx.alikeOn, List.all_eq_true] at h
      exact h c hc c' hc'
  | [], _ :: _, ht => by simp [sameUpTo] at ht
  | _ :: _, [], ht => by simp [sameUpTo] at ht

/-- replacing characters of `D` by other characters of `D` does not move any match or capture of a `D`-blind pattern -/
theorem G3_invariant_on (r : Rx) (D : List Char) (h : r.alikeOn D = true) (t t' : List Char) (ht : sameUpTo D t t' = true)
    (pos endpos : Nat) :
    r.search t pos endpos = r.search t' pos endpos ∧ r.matchAt t pos endpos = r.matchAt t' pos endpos ∧
    r.finditer t pos endpos = r.finditer t' pos endpos ∧ r.fullmatch t = r.fullmatch t' :=
  have hs := r.sigEqText_of_sameUpTo D h t t' ht
  ⟨r.search_sig t t' hs pos endpos, r.matchAt_sig t t' hs pos endpos, r.finditer_sig t t' hs pos endpos, r.fullmatch_sig t t' hs⟩

/-! ### corollaries: digit blindness -/

/-- all ten ASCII digits are indistinguishable for r -/
def Rx.digitsAlike (r : Rx) : Bool := "0123456789".toList.all (fun a => "0123456789".toList.all (fun b => r.sigEq a b))

theorem Rx.digitsAlike_eq (r : Rx) : r.digitsAlike = r.alikeOn "0123456789".toList := rfl

/-- same length, and at each index either equal chars or both ASCII digits -/
def sameUpToDigits : List Char → List Char → Bool
  | [], [] => true
  | c :: t, c' :: t' => (c == c' || (c.isDigit && c'.isDigit)) && sameUpToDigits t t'
  | _, _ => false

/-- `Char.isDigit` is membership in the ten ASCII digits -/
theorem isDigit_mem (c : Char) (h : c.isDigit = true) : c ∈ "0123456789".toList := by
  have h1 : 48 ≤ c.toNat ∧ c.toNat ≤ 57 := by
    simp only [Char.isDigit, Bool.and_eq_true, decide_eq_true_eq, ge_iff_le, UInt32.le_iff_toNat_le] at h
    exact h
  have h2 : c = Char.ofNat c.toNat := (Char.ofNat_toNat c).symm
  have h3 : c.toNat = 48 ∨ c.toNat = 49 ∨ c.toNat = 50 ∨ c.toNat = 51 ∨ c.toNat = 52 ∨ c.toNat = 53 ∨ c.toNat = 54 ∨
      c.toNat = 55 ∨ c.toNat = 56 ∨ c.toNat = 57 := by omega
  rw [h2]
  rcases h3 with h | h | h | h | h | h | h | h | h | h <;> rw [h] <;> decide

theorem sameUpTo_of_sameUpToDigits : ∀ (t t' : List Char), sameUpToDigits t t' = true → sameUpTo "0123456789".toList t t' = true
  | [], [], _ => rfl
  | c :: t, c' :: t', ht => by
    simp only [sameUpToDigits, Bool.and_eq_true, Bool.or_eq_true, beq_iff_eq] at ht
    simp only [sameUpTo, Bool.and_eq_true, Bool.or_eq_true, beq_iff_eq, List.contains_iff_mem]
    refine ⟨?_, sameUpTo_of_sameUpToDigits t t' ht.2⟩
    rcases ht.1 with heq | ⟨hc, hc'⟩
    · exact Or.inl heq
    · exact Or.inr ⟨isDigit_mem c hc, isDigit_mem c' hc'⟩
  | [], _ :: _, ht => by simp [sameUpToDigits] at ht
  | _ :: _, [], ht => by simp [sameUpToDigits] at ht

theorem Rx.sigEqText_of_sameUpToDigits (r : Rx) (h : r.digitsAlike = true) (t t' : List Char) (ht : sameUpToDigits t t' = true) :
    r.sigEqText t t' = true :=
  r.sigEqText_of_sameUpTo "0123456789".toList h t t' (sameUpTo_of_sameUpToDigits t t' ht)

/-- replacing ASCII digits by other ASCII digits does not move any match or capture of a digit-blind pattern -/
theorem G3_search_digit_invariant (r : Rx) (h : r.digitsAlike = true) (t t' : List Char) (ht : sameUpToDigits t t' = true)
    (pos endpos : Nat) : r.search t pos endpos = r.search t' pos endpos :=
  r.search_sig t t' (r.sigEqText_of_sameUpToDigits h t t' ht) pos endpos

theorem G3_matchAt_digit_invariant (r : Rx) (h : r.digitsAlike = true) (t t' : List Char) (ht : sameUpToDigits t t' = true)
    (pos endpos : Nat) : r.matchAt t pos endpos = r.matchAt t' pos endpos :=
  r.matchAt_sig t t' (r.sigEqText_of_sameUpToDigits h t t' ht) pos endpos

theorem G3_fullmatch_digit_invariant (r : Rx) (h : r.digitsAlike = true) (t t' : List Char) (ht : sameUpToDigits t t' = true) :
    r.fullmatch t = r.fullmatch t' :=
  r.fullmatch_sig t t' (r.sigEqText_of_sameUpToDigits h t t' ht)

theorem G3_finditer_digit_invariant (r : Rx) (h : r.digitsAlike = true) (t t' : List Char) (ht : sameUpToDigits t t' = true)
    (pos endpos : Nat) : r.finditer t pos endpos = r.finditer t' pos endpos :=
  r.finditer_sig t t' (r.sigEqText_of_sameUpToDigits h t t' ht) pos endpos

/-! ### the regenerated patterns -/

set_option maxRecDepth 100000 in
/-- the list-reading patterns are digit-blind (the Twp/Rge and aliquot patterns are not: they contain a literal digit).
    Stated for the patterns the unpackers use, not as a census of the library, so that adding an unrelated pattern does
    not disturb it; re-decided on the regenerated patterns on every run. -/
theorem G3_digit_blind_patterns :
    ["multisec_regex", "multilot_regex", "multilot_with_aliquot_regex", "lot_regex", "sec_regex", "intervener_regex",
     "through_regex", "lot_acres_unpacker_regex", "no_num_sec_regex"].all (fun n =>
       match Gen.patterns.find? (fun p => p.1 == n) with
       | some p => p.2.1.digitsAlike
       | none => false) = true := by
  decide +kernel

set_option maxRecDepth 100000 in
theorem multisec_digitsAlike : Gen.multisec_regex.digitsAlike = true := by decide +kernel

set_option maxRecDepth 100000 in
theorem multilot_digitsAlike : Gen.multilot_regex.digitsAlike = true := by decide +kernel

/-- C05: section lists — any renumbering of sections that keeps the digit positions leaves every match and capture span in place -/
theorem C05_multisec_digit_invariant (t t' : List Char) (ht : sameUpToDigits t t' = true) (pos endpos : Nat) :
    Gen.multisec_regex.search t pos endpos = Gen.multisec_regex.search t' pos endpos ∧
    Gen.multisec_regex.finditer t pos endpos = Gen.multisec_regex.finditer t' pos endpos :=
  ⟨G3_search_digit_invariant _ multisec_digitsAlike t t' ht pos endpos,
   G3_finditer_digit_invariant _ multisec_digitsAlike t t' ht pos endpos⟩

/-- C05: lot lists, likewise -/
theorem C05_multilot_digit_invariant (t t' : List Char) (ht : sameUpToDigits t t' = true) (pos endpos : Nat) :
    Gen.multilot_regex.search t pos endpos = Gen.multilot_regex.search t' pos endpos ∧
    Gen.multilot_regex.finditer t pos endpos = Gen.multilot_regex.finditer t' pos endpos :=
  ⟨G3_search_digit_invariant _ multilot_digitsAlike t t' ht pos endpos,
   G3_finditer_digit_invariant _ multilot_digitsAlike t t' ht pos endpos⟩

/-! `twprge_regex` is NOT digit-blind: it contains the literal `2` (the "Range 2" edge case, group 13).  Its partition of
the ASCII digits is `{0,1,3,4,5,6,7,8,9} | {2}`; the strongest true variant is invariance under digits other than `2`. -/

set_option maxRecDepth 100000 in
theorem twprge_not_digitsAlike : Gen.twprge_regex.digitsAlike = false := by decide +kernel

set_option maxRecDepth 100000 in
/-- the digit partition of `twprge_regex`: everything but `2` is one class, and `2` is told apart from each of them -/
theorem twprge_digit_classes :
    Gen.twprge_regex.alikeOn "013456789".toList = true ∧
    "013456789".toList.all (fun c => !Gen.twprge_regex.sigEq '2' c) = true := by decide +kernel

/-- C08: Twp/Rge — replacing digits other than `2` by digits other than `2` leaves every match and capture span in place -/
theorem C08_twprge_digit_invariant (t t' : List Char) (ht : sameUpTo "013456789".toList t t' = true) (pos endpos : Nat) :
    Gen.twprge_regex.search t pos endpos = Gen.twprge_regex.search t' pos endpos ∧
    Gen.twprge_regex.finditer t pos endpos = Gen.twprge_regex.finditer t' pos endpos :=
  have h := G3_invariant_on _ _ twprge_digit_classes.1 t t' ht pos endpos
  ⟨h.1, h.2.2.1⟩

/-! ### concrete instances (non-vacuity) -/

example : Gen.multisec_regex.search "Sections 14 - 17 and 20".toList 0 23 = Gen.multisec_regex.search "Sections 25 - 28 and 31".toList 0 23 :=
  (C05_multisec_digit_invariant _ _ (by decide) 0 23).1

example : Gen.multisec_regex.finditer "Sections 14 - 17 and 20, Secs 1, 3".toList 0 34 =
    Gen.multisec_regex.finditer "Sections 25 - 28 and 31, Secs 2, 9".toList 0 34 :=
  (C05_multisec_digit_invariant _ _ (by decide) 0 34).2

set_option maxRecDepth 100000 in
/-- … and there is a match to be preserved: the whole text, i.e. span (0, 23) with 18 capture records -/
example : (Gen.multisec_regex.search "Sections 14 - 17 and 20".toList 0 23).map (fun m => (m.start, m.stop, m.caps.length)) = some (0, 23, 18) := by
  decide +kernel

example : Gen.multilot_regex.search "Lots 1 - 3 and 14".toList 0 17 = Gen.multilot_regex.search "Lots 5 - 8 and 20".toList 0 17 :=
  (C05_multilot_digit_invariant _ _ (by decide) 0 17).1

set_option maxRecDepth 100000 in
example : (Gen.multilot_regex.search "Lots 1 - 3 and 14".toList 0 17).map (fun m => (m.start, m.stop, m.caps.length)) = some (0, 17, 19) := by
  decide +kernel

example : Gen.twprge_regex.search "T154N R97W".toList 0 10 = Gen.twprge_regex.search "T139N R10W".toList 0 10 :=
  (C08_twprge_digit_invariant _ _ (by decide) 0 10).1

set_option maxRecDepth 100000 in
example : (Gen.twprge_regex.search "T154N R97W".toList 0 10).map (fun m => (m.start, m.stop, m.caps.length)) = some (0, 10, 11) := by
  decide +kernel

set_option maxRecDepth 100000 in
/-- the exclusion of `2` in C08 is necessary: `R2W` and `R3W` are captured by different groups -/
theorem C08_twprge_two_matters :
    (Gen.twprge_regex.search "T1N R2W".toList 0 7).map (fun m => m.caps.map (·.1)) ≠
    (Gen.twprge_regex.search "T1N R3W".toList 0 7).map (fun m => m.caps.map (·.1)) := by
  decide +kernel

#print axioms Rx.m_sig
#print axioms Rx.search_sig
#print axioms Rx.matchAt_sig
#print axioms Rx.fullmatch_sig
#print axioms Rx.finditer_sig
#print axioms G3_invariant_on
#print axioms G3_digit_blind_patterns
#print axioms G3_search_digit_invariant
#print axioms G3_matchAt_digit_invariant
#print axioms G3_fullmatch_digit_invariant
#print axioms G3_finditer_digit_invariant
#print axioms C05_multisec_digit_invariant
#print axioms C05_multilot_digit_invariant
#print axioms twprge_digit_classes
#print axioms C08_twprge_digit_invariant
#print axioms C08_twprge_two_matters

end PyTRS
