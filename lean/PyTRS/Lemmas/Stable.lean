/-
Helper lemmas about the substitute-until-stable combinator.
-/
import PyTRS.Model.Tract
namespace PyTRS.Tract

theorem untilStable_fixed (f : Str → Str) (n : Nat) (t r : Str)
    (h : untilStable f n t = some r) : f r = r := by
  induction n generalizing t with
  | zero => simp [untilStable] at h
  | succ k ih =>
    rw [untilStable] at h
    by_cases hc : (f t == t) = true
    · simp only [hc, if_true] at h
      cases h
      simpa using hc
    · simp only [hc] at h
      exact ih _ h

theorem untilStable_of_fixed (f : Str → Str) (m : Nat) (r : Str) (hf : f r = r) :
    untilStable f (m+1) r = some r := by
  rw [untilStable]; simp [hf]

end PyTRS.Tract
