/-
C07 — the documented spellings of an aliquot component collapse to the canonical text.

Alphabet (`Sl`, ten spellings per component, `Sl.text`): "N½", "N/2", "N2", "N1/2", "N 1/2", "North Half", "North One Half";
"NE¼", "NE/4", "NE4", "NE1/4", "NE 1/4", "Northeast Quarter", "Northeast One Quarter", "North East Quarter",
"North-East Quarter", "North East One Quarter".  Joiners (`Jn`): " ", " of ", " of the ", or nothing (only after a spelling that
does not end in a word — `Adj`; "North HalfNortheast Quarter" is not normalised by the library either: no word boundary).

Main theorems:
* `C07_word_spelling_reduced` — for token lists of EVERY length, every spelling per component independently, every joiner:
  `scrub_aliquots` gives exactly what it gives on the same text with all components written canonically (the eight spelling
  patterns turn each component into its canonical form and touch nothing else: `scrubAll_spellingW`).
* `C07_word_spelling_normalised_adjacent` — no joiners: the result is the canonical chain text (every length).
* `C07_joined_spelling_normalised_pairs` — two components, every spelling × every joiner: the canonical pair text.
* `C07_bare_quarter_rule` — "E½NE", "E/2NE", "E2 NE" are completed without `clean_qq`; a lone "NE" only with `clean_qq`.
* `C07_word_spelling_parse_eq` — the parser cannot tell the spellings apart.
Method: the token argument of `CanonFixed` with a validity predicate on the remaining tokens (`subWithV`), a pattern-agnostic
first-character failure lemma (`Rx.m_noFirst`), inner positions decided by kernel evaluation (`innerCheck`).
NOT proved: the collapse of the JOINERS for chains of more than two components (needs an induction over the passes of
`remove_aliquot_interveners`, whose matches span several tokens), lower / mixed case, dotted abbreviations.
-/
import PyTRS.Lemmas.CanonFixed
set_option linter.unusedSimpArgs false
set_option linter.unusedVariables false
namespace PyTRS
open PyTRS.Aliquot PyTRS.Tiling PyTRS.Tract

/-! ### a first-character failure lemma (pattern-agnostic) -/

/-- may match the empty string (over-approximation) -/
def Rx.nul : Rx → Bool
  | .eps => true
  | .fail => false
  | .chr _ => false
  | .seq a b => a.nul && b.nul
  | .alt a b => a.nul || b.nul
  | .rep r lo _ => lo == 0 || r.nul
  | .grp _ r => r.nul
  | .ahead _ | .nahead _ | .behind _ | .wordb _ | .eos | .bos => true

/-- the classes that can consume the first character of a match (over-approximation) -/
def Rx.fst : Rx → List CharSet
  | .chr cs => [cs]
  | .seq a b => a.fst ++ (if a.nul then b.fst else [])
  | .alt a b => a.fst ++ b.fst
  | .rep r _ _ | .grp _ r => r.fst
  | .eps | .fail | .ahead _ | .nahead _ | .behind _ | .wordb _ | .eos | .bos => []

/-- the next character (if any) is in no first-set -/
def NoFirst (r : Rx) (rest : Str) : Prop := ∀ c, rest.head? = some c → ∀ cs ∈ r.fst, cs.mem c = false

theorem repLoop_noFirst {R : Type} (r : Rx) (lo : Nat) (hi : Option Nat) (rest : Str)
    (ih : ∀ (s : St) (k : St → Option R), s.rest = rest →
      (r.nul = true → ∀ s' : St, s'.rest = rest → k s' = none) → r.m s k = none)
    (k : St → Option R) (hk : (lo == 0 || r.nul) = true → ∀ s' : St, s'.rest = rest → k s' = none) :
    ∀ (fuel count : Nat) (last : Option Nat) (s : St), s.rest = rest → (lo ≤ count → count = 0 ∨ r.nul = true) →
      repLoop r.m lo hi fuel count last s k = none := by
  intro fuel
  induction fuel with
  | zero => intro count last s _ _; rfl
  | succ n ihf =>
    intro count last s hs hc
    have hbody : ∀ l, r.m s (fun s' => repLoop r.m lo hi n (count + 1) l s' k) = none := by
      intro l
      apply ih s _ hs
      intro hn s' hs'
      exact ihf (count + 1) l s' hs' (fun _ => Or.inr hn)
    rw [repLoop_succ]
    by_cases h1 : count < lo
    · simp only [h1, if_true]; exact hbody _
    · have hks : k s = none := by
        apply hk _ s hs
        rcases hc (by omega) with h | h
        · subst h
          have : lo = 0 := by omega
          simp [this]
        · simp [h]
      simp only [h1, if_false]
      split
      · rw [hbody, hks]; rfl
      · exact hks

/-- a pattern whose first-sets do not contain the next character fails — unless it is nullable and what follows succeeds -/
theorem Rx.m_noFirst : ∀ (r : Rx) {R : Type} (s : St) (k : St → Option R), NoFirst r s.rest →
    (r.nul = true → ∀ s' : St, s'.rest = s.rest → k s' = none) → r.m s k = none := by
  intro r
  induction r with
  | eps => intro R s k _ hk; rw [m_eps]; exact hk rfl s rfl
  | fail => intro R s k _ _; rfl
  | chr cs =>
    intro R s k hf _
    rw [Rx.m]
    split
    · rename_i c t hrest
      have := hf c (by rw [hrest]; rfl) cs (by simp [Rx.fst])
      simp [this]
    · rfl
  | seq a b iha ihb =>
    intro R s k hf hk
    rw [m_seq]
    apply iha s _ (fun c hc cs hcs => hf c hc cs (by simp [Rx.fst, hcs]))
    intro ha s' hs'
    apply ihb s' k
    · intro c hc cs hcs
      rw [hs'] at hc
      exact hf c hc cs (by simp [Rx.fst, ha, hcs])
    · intro hb s'' hs''
      exact hk (by simp [Rx.nul, ha, hb]) s'' (by rw [hs'', hs'])
  | alt a b iha ihb =>
    intro R s k hf hk
    rw [m_alt, iha s k (fun c hc cs hcs => hf c hc cs (by simp [Rx.fst, hcs])) (fun ha => hk (by simp [Rx.nul, ha])),
      ihb s k (fun c hc cs hcs => hf c hc cs (by simp [Rx.fst, hcs])) (fun hb => hk (by simp [Rx.nul, hb]))]
    rfl
  | rep r lo hi ih =>
    intro R s k hf hk
    rw [m_rep]
    apply repLoop_noFirst r lo hi s.rest
    · intro s1 k1 hs1 hk1
      apply ih s1 k1
      · rw [hs1]; exact hf
      · intro hn s' hs'; exact hk1 hn s' (by rw [hs', hs1])
    · intro h s' hs'; exact hk (by simpa [Rx.nul] using h) s' hs'
    · rfl
    · intro _; exact Or.inl rfl
  | grp i r ih =>
    intro R s k hf hk
    rw [m_grp]
    apply ih s _ hf
    intro hn s' hs'
    exact hk hn _ hs'
  | ahead r _ =>
    intro R s k _ hk
    rw [m_ahead]
    split
    · exact hk rfl _ rfl
    · rfl
  | nahead r _ =>
    intro R s k _ hk
    simp only [Rx.m]
    split
    · rfl
    · exact hk rfl _ rfl
  | behind cs =>
    intro R s k _ hk
    simp only [Rx.m]
    split
    · split
      · exact hk rfl _ rfl
      · rfl
    · rfl
  | wordb w =>
    intro R s k _ hk
    simp only [Rx.m]
    split
    · exact hk rfl _ rfl
    · rfl
  | eos =>
    intro R s k _ hk
    simp only [Rx.m]
    split
    · exact hk rfl _ rfl
    · split
      · exact hk rfl _ rfl
      · rfl
    · rfl
  | bos =>
    intro R s k _ hk
    simp only [Rx.m]
    split
    · exact hk rfl _ rfl
    · rfl

/-- Bool-valued form: `ch` is in no first-set of `r` -/
def Rx.notFirst (r : Rx) (ch : Char) : Bool := r.fst.all (fun cs => !cs.mem ch)

theorem Rx.m_notFirst (r : Rx) {R : Type} (p : Option Char) (ch : Char) (t : Str) (pos : Nat)
    (caps : List (Nat × Nat × Nat)) (k : St → Option R) (hn : r.nul = false) (hf : r.notFirst ch = true) :
    r.m ⟨p, ch :: t, pos, caps⟩ k = none := by
  apply Rx.m_noFirst
  · intro c hc cs hcs
    simp only [List.head?_cons, Option.some.injEq] at hc
    subst hc
    simp only [Rx.notFirst, List.all_eq_true, Bool.not_eq_true'] at hf
    exact hf cs hcs
  · intro h; rw [hn] at h; cases h

/-! ### the token argument of `CanonFixed`, with a validity predicate on the remaining token list -/

section Valid
variable {T : Type} (text : T → Str) (out : T → Str) (P : Option Char → List T → Prop)

def StartStepV (r : Rx) (f : Match → Str) : Prop :=
  ∀ (tok : T) (toks : List T) (prev : Option Char) (pos : Nat) (adv : Bool), P prev (tok :: toks) →
    (∃ caps, matchHere r ⟨prev, text tok ++ textOf text toks, pos, []⟩ adv = some ⟨pos, pos + (text tok).length, caps⟩ ∧
      f ⟨pos, pos + (text tok).length, caps⟩ = out tok) ∨
    (matchHere r ⟨prev, text tok ++ textOf text toks, pos, []⟩ adv = none ∧ out tok = text tok)

theorem subgoV (r : Rx) (f : Match → Str) (hin : InnerFailG text r) (hne : ∀ tok, text tok ≠ [])
    (hP : ∀ p tok toks, P p (tok :: toks) → P (lastOr p (text tok)) toks) (hst : StartStepV text out P r f)
    (hnil : ∀ prev pos adv, matchHere r ⟨prev, [], pos, []⟩ adv = none) :
    ∀ (toks : List T) (fuel : Nat) (prev : Option Char) (pre : Str) (adv : Bool) (i : Nat) (acc : Str),
      P prev toks → i ≤ pre.length → toks.length < fuel →
      Rx.subWith.go (pre ++ textOf text toks) f (finditerAux r fuel prev (textOf text toks) pre.length adv) i acc =
        acc ++ slice (pre ++ textOf text toks) i pre.length ++ textOf out toks := by
  intro toks
  induction toks with
  | nil =>
    intro fuel prev pre adv i acc _ _ hf
    obtain ⟨n, rfl⟩ : ∃ n, fuel = n + 1 := ⟨fuel - 1, by simp at hf; omega⟩
    have : scan r prev (textOf text []) pre.length adv = none := by
      show scan r prev [] pre.length adv = none
      rw [scan_nil, hnil]
    rw [finditerAux_none _ _ _ _ _ _ this]
    show acc ++ (pre ++ []).drop i = acc ++ slice (pre ++ []) i pre.length ++ []
    rw [slice_all]; simp
  | cons tok toks ih =>
    intro fuel prev pre adv i acc hp hi hf
    have hsc := scan_tokG text r hin hne tok (textOf text toks) prev pre.length adv
    have hlen : pre.length + (text tok).length = (pre ++ text tok).length := by simp
    have htxt : pre ++ (text tok ++ textOf text toks) = (pre ++ text tok) ++ textOf text toks := by simp
    rw [textOf_cons, textOf_cons]
    rcases hst tok toks prev pre.length adv hp with ⟨caps, hm, hf'⟩ | ⟨hm, ho⟩
    · rw [hm] at hsc
      simp only [] at hsc
      obtain ⟨n, rfl⟩ : ∃ n, fuel = n + 1 := ⟨fuel - 1, by simp at hf; omega⟩
      rw [finditerAux, hsc]
      simp only []
      have e : pre.length + (text tok).length - pre.length = (text tok).length + 0 := by omega
      rw [e, advance_append]
      simp only [advance]
      rw [Rx.subWith.go]
      simp only []
      rw [hf', hlen, htxt, ih n (lastOr prev (text tok)) (pre ++ text tok) _ (pre ++ text tok).length _
        (hP prev tok toks hp) (Nat.le_refl _) (by simpa using hf)]
      rw [slice_all]
      simp
    · rw [hm] at hsc
      simp only [] at hsc
      rw [finditerAux_skip r (text tok) (textOf text toks) prev pre.length adv fuel hsc, hlen, htxt,
        ih fuel (lastOr prev (text tok)) (pre ++ text tok) false i acc (hP prev tok toks hp) (by rw [← hlen]; omega)
          (by simp at hf; omega)]
      rw [← htxt, ← hlen, slice_extend pre (text tok) (textOf text toks) i hi, ho]
      simp

theorem subWithV (r : Rx) (f : Match → Str) (hin : InnerFailG text r) (hne : ∀ tok, text tok ≠ [])
    (hP : ∀ p tok toks, P p (tok :: toks) → P (lastOr p (text tok)) toks) (hst : StartStepV text out P r f)
    (hnil : ∀ prev pos adv, matchHere r ⟨prev, [], pos, []⟩ adv = none) (toks : List T) (h0 : P none toks) :
    r.subWith (textOf text toks) f = textOf out toks := by
  show Rx.subWith.go (textOf text toks) f (r.finditer (textOf text toks)) 0 [] = _
  rw [finditer_default]
  have hl := textOf_length text hne toks
  have := subgoV text out P r f hin hne hP hst hnil toks (2 * (textOf text toks).length + 2) none [] false 0 []
    h0 (Nat.le_refl _) (by omega)
  simpa [slice] using this

end Valid

/-! ### the spelling alphabet -/

/-- the ways of writing one component -/
inductive Sl where
  | sym        -- "N½", "NE¼"
  | slash      -- "N/2", "NE/4"
  | digit      -- "N2", "NE4"
  | frac       -- "N1/2", "NE1/4"
  | sfrac      -- "N 1/2", "NE 1/4"
  | word       -- "North Half", "Northeast Quarter"
  | wordOne    -- "North One Half", "Northeast One Quarter"
  | spaced     -- "North East Quarter"   (halves: as `word`)
  | hyph       -- "North-East Quarter"   (halves: as `word`)
  | spacedOne  -- "North East One Quarter" (halves: as `wordOne`)
  deriving DecidableEq, Repr

/-- what may stand between two components -/
inductive Jn where
  | blank | of_ | ofThe
  deriving DecidableEq, Repr

def Jn.text : Jn → Str
  | .blank => [' ']
  | .of_ => [' ', 'o', 'f', ' ']
  | .ofThe => [' ', 'o', 'f', ' ', 't', 'h', 'e', ' ']

def Sl.text : Sl → Comp → Str
  | .sym, .N => ['N', '½']
  | .sym, .S => ['S', '½']
  | .sym, .E => ['E', '½']
  | .sym, .W => ['W', '½']
  | .sym, .NE => ['N', 'E', '¼']
  | .sym, .NW => ['N', 'W', '¼']
  | .sym, .SE => ['S', 'E', '¼']
  | .sym, .SW => ['S', 'W', '¼']
  | .slash, .N => ['N', '/', '2']
  | .slash, .S => ['S', '/', '2']
  | .slash, .E => ['E', '/', '2']
  | .slash, .W => ['W', '/', '2']
  | .slash, .NE => ['N', 'E', '/', '4']
  | .slash, .NW => ['N', 'W', '/', '4']
  | .slash, .SE => ['S', 'E', '/', '4']
  | .slash, .SW => ['S', 'W', '/', '4']
  | .digit, .N => ['N', '2']
  | .digit, .S => ['S', '2']
  | .digit, .E => ['E', '2']
  | .digit, .W => ['W', '2']
  | .digit, .NE => ['N', 'E', '4']
  | .digit, .NW => ['N', 'W', '4']
  | .digit, .SE => ['S', 'E', '4']
  | .digit, .SW => ['S', 'W', '4']
  | .frac, .N => ['N', '1', '/', '2']
  | .frac, .S => ['S', '1', '/', '2']
  | .frac, .E => ['E', '1', '/', '2']
  | .frac, .W => ['W', '1', '/', '2']
  | .frac, .NE => ['N', 'E', '1', '/', '4']
  | .frac, .NW => ['N', 'W', '1', '/', '4']
  | .frac, .SE => ['S', 'E', '1', '/', '4']
  | .frac, .SW => ['S', 'W', '1', '/', '4']
  | .sfrac, .N => ['N', ' ', '1', '/', '2']
  | .sfrac, .S => ['S', ' ', '1', '/', '2']
  | .sfrac, .E => ['E', ' ', '1', '/', '2']
  | .sfrac, .W => ['W', ' ', '1', '/', '2']
  | .sfrac, .NE => ['N', 'E', ' ', '1', '/', '4']
  | .sfrac, .NW => ['N', 'W', ' ', '1', '/', '4']
  | .sfrac, .SE => ['S', 'E', ' ', '1', '/', '4']
  | .sfrac, .SW => ['S', 'W', ' ', '1', '/', '4']
  | .word, .N => ['N', 'o', 'r', 't', 'h', ' ', 'H', 'a', 'l', 'f']
  | .word, .S => ['S', 'o', 'u', 't', 'h', ' ', 'H', 'a', 'l', 'f']
  | .word, .E => ['E', 'a', 's', 't', ' ', 'H', 'a', 'l', 'f']
  | .word, .W => ['W', 'e', 's', 't', ' ', 'H', 'a', 'l', 'f']
  | .word, .NE => ['N', 'o', 'r', 't', 'h', 'e', 'a', 's', 't', ' ', 'Q', 'u', 'a', 'r', 't', 'e', 'r']
  | .word, .NW => ['N', 'o', 'r', 't', 'h', 'w', 'e', 's', 't', ' ', 'Q', 'u', 'a', 'r', 't', 'e', 'r']
  | .word, .SE => ['S', 'o', 'u', 't', 'h', 'e', 'a', 's', 't', ' ', 'Q', 'u', 'a', 'r', 't', 'e', 'r']
  | .word, .SW => ['S', 'o', 'u', 't', 'h', 'w', 'e', 's', 't', ' ', 'Q', 'u', 'a', 'r', 't', 'e', 'r']
  | .wordOne, .N => ['N', 'o', 'r', 't', 'h', ' ', 'O', 'n', 'e', ' ', 'H', 'a', 'l', 'f']
  | .wordOne, .S => ['S', 'o', 'u', 't', 'h', ' ', 'O', 'n', 'e', ' ', 'H', 'a', 'l', 'f']
  | .wordOne, .E => ['E', 'a', 's', 't', ' ', 'O', 'n', 'e', ' ', 'H', 'a', 'l', 'f']
  | .wordOne, .W => ['W', 'e', 's', 't', ' ', 'O', 'n', 'e', ' ', 'H', 'a', 'l', 'f']
  | .wordOne, .NE => ['N', 'o', 'r', 't', 'h', 'e', 'a', 's', 't', ' ', 'O', 'n', 'e', ' ', 'Q', 'u', 'a', 'r', 't', 'e', 'r']
  | .wordOne, .NW => ['N', 'o', 'r', 't', 'h', 'w', 'e', 's', 't', ' ', 'O', 'n', 'e', ' ', 'Q', 'u', 'a', 'r', 't', 'e', 'r']
  | .wordOne, .SE => ['S', 'o', 'u', 't', 'h', 'e', 'a', 's', 't', ' ', 'O', 'n', 'e', ' ', 'Q', 'u', 'a', 'r', 't', 'e', 'r']
  | .wordOne, .SW => ['S', 'o', 'u', 't', 'h', 'w', 'e', 's', 't', ' ', 'O', 'n', 'e', ' ', 'Q', 'u', 'a', 'r', 't', 'e', 'r']
  | .spaced, .N => ['N', 'o', 'r', 't', 'h', ' ', 'H', 'a', 'l', 'f']
  | .spaced, .S => ['S', 'o', 'u', 't', 'h', ' ', 'H', 'a', 'l', 'f']
  | .spaced, .E => ['E', 'a', 's', 't', ' ', 'H', 'a', 'l', 'f']
  | .spaced, .W => ['W', 'e', 's', 't', ' ', 'H', 'a', 'l', 'f']
  | .spaced, .NE => ['N', 'o', 'r', 't', 'h', ' ', 'E', 'a', 's', 't', ' ', 'Q', 'u', 'a', 'r', 't', 'e', 'r']
  | .spaced, .NW => ['N', 'o', 'r', 't', 'h', ' ', 'W', 'e', 's', 't', ' ', 'Q', 'u', 'a', 'r', 't', 'e', 'r']
  | .spaced, .SE => ['S', 'o', 'u', 't', 'h', ' ', 'E', 'a', 's', 't', ' ', 'Q', 'u', 'a', 'r', 't', 'e', 'r']
  | .spaced, .SW => ['S', 'o', 'u', 't', 'h', ' ', 'W', 'e', 's', 't', ' ', 'Q', 'u', 'a', 'r', 't', 'e', 'r']
  | .hyph, .N => ['N', 'o', 'r', 't', 'h', ' ', 'H', 'a', 'l', 'f']
  | .hyph, .S => ['S', 'o', 'u', 't', 'h', ' ', 'H', 'a', 'l', 'f']
  | .hyph, .E => ['E', 'a', 's', 't', ' ', 'H', 'a', 'l', 'f']
  | .hyph, .W => ['W', 'e', 's', 't', ' ', 'H', 'a', 'l', 'f']
  | .hyph, .NE => ['N', 'o', 'r', 't', 'h', '-', 'E', 'a', 's', 't', ' ', 'Q', 'u', 'a', 'r', 't', 'e', 'r']
  | .hyph, .NW => ['N', 'o', 'r', 't', 'h', '-', 'W', 'e', 's', 't', ' ', 'Q', 'u', 'a', 'r', 't', 'e', 'r']
  | .hyph, .SE => ['S', 'o', 'u', 't', 'h', '-', 'E', 'a', 's', 't', ' ', 'Q', 'u', 'a', 'r', 't', 'e', 'r']
  | .hyph, .SW => ['S', 'o', 'u', 't', 'h', '-', 'W', 'e', 's', 't', ' ', 'Q', 'u', 'a', 'r', 't', 'e', 'r']
  | .spacedOne, .N => ['N', 'o', 'r', 't', 'h', ' ', 'O', 'n', 'e', ' ', 'H', 'a', 'l', 'f']
  | .spacedOne, .S => ['S', 'o', 'u', 't', 'h', ' ', 'O', 'n', 'e', ' ', 'H', 'a', 'l', 'f']
  | .spacedOne, .E => ['E', 'a', 's', 't', ' ', 'O', 'n', 'e', ' ', 'H', 'a', 'l', 'f']
  | .spacedOne, .W => ['W', 'e', 's', 't', ' ', 'O', 'n', 'e', ' ', 'H', 'a', 'l', 'f']
  | .spacedOne, .NE => ['N', 'o', 'r', 't', 'h', ' ', 'E', 'a', 's', 't', ' ', 'O', 'n', 'e', ' ', 'Q', 'u', 'a', 'r', 't', 'e', 'r']
  | .spacedOne, .NW => ['N', 'o', 'r', 't', 'h', ' ', 'W', 'e', 's', 't', ' ', 'O', 'n', 'e', ' ', 'Q', 'u', 'a', 'r', 't', 'e', 'r']
  | .spacedOne, .SE => ['S', 'o', 'u', 't', 'h', ' ', 'E', 'a', 's', 't', ' ', 'O', 'n', 'e', ' ', 'Q', 'u', 'a', 'r', 't', 'e', 'r']
  | .spacedOne, .SW => ['S', 'o', 'u', 't', 'h', ' ', 'W', 'e', 's', 't', ' ', 'O', 'n', 'e', ' ', 'Q', 'u', 'a', 'r', 't', 'e', 'r']

def Sl.endsWord : Sl → Bool
  | .word | .wordOne | .spaced | .hyph | .spacedOne => true
  | _ => false

inductive WTok where
  | sp (s : Sl) (c : Comp)
  | jn (j : Jn)
  deriving DecidableEq, Repr

def WTok.text : WTok → Str
  | .sp s c => s.text c
  | .jn j => j.text

def WTok.endsWord : WTok → Bool
  | .sp s _ => s.endsWord
  | .jn _ => false

def WTok.isJn : WTok → Bool
  | .sp _ _ => false
  | .jn _ => true

/-- what the spelling pattern of component `c` does to a token -/
def WTok.outFor (c : Comp) : WTok → WTok
  | .sp s c' => if c' = c then .sp .sym c else .sp s c'
  | t => t

def wtext (l : List WTok) : Str := textOf WTok.text l

theorem Sl.sym_text (c : Comp) : Sl.text .sym c = compText c := by cases c <;> rfl

theorem WTok.text_ne_nil (tok : WTok) : tok.text ≠ [] := by
  cases tok with
  | sp s c => cases s <;> cases c <;> simp [WTok.text, Sl.text]
  | jn j => cases j <;> simp [WTok.text, Jn.text]

/-- a spelling that ends in a word ("Half", "Quarter") must be followed by a joiner -/
def Adj : List WTok → Prop
  | [] => True
  | [_] => True
  | a :: b :: l => (a.endsWord = true → b.isJn = true) ∧ Adj (b :: l)

def PV (p : Option Char) (l : List WTok) : Prop :=
  (match l with | [] => True | t :: _ => t.isJn = true ∨ OkPrev2 p) ∧ Adj l

theorem okPrev2_lastW (p : Option Char) (tok : WTok) (h : tok.endsWord = false) : OkPrev2 (lastOr p tok.text) := by
  cases tok with
  | sp s c => cases s <;> cases c <;> simp [WTok.endsWord, Sl.endsWord] at h <;> simp [WTok.text, Sl.text, lastOr, OkPrev2]
  | jn j => cases j <;> simp [WTok.text, Jn.text, lastOr, OkPrev2]

theorem PV_tail (p : Option Char) (tok : WTok) (toks : List WTok) (h : PV p (tok :: toks)) :
    PV (lastOr p tok.text) toks := by
  cases toks with
  | nil => exact ⟨trivial, trivial⟩
  | cons b l =>
    obtain ⟨_, h1, h2⟩ := h
    refine ⟨?_, h2⟩
    by_cases hw : tok.endsWord = true
    · exact Or.inl (h1 hw)
    · exact Or.inr (okPrev2_lastW p tok (by simpa using hw))

theorem PV_none (l : List WTok) : PV none l ↔ Adj l := by
  constructor
  · exact fun h => h.2
  · intro h
    refine ⟨?_, h⟩
    cases l with
    | nil => trivial
    | cons t l => exact Or.inr (Or.inl rfl)

theorem outFor_endsWord (c : Comp) (t : WTok) (h : (t.outFor c).endsWord = true) : t.endsWord = true := by
  cases t with
  | sp s c' =>
    by_cases hc : c' = c
    · simp [WTok.outFor, hc, WTok.endsWord, Sl.endsWord] at h
    · simpa [WTok.outFor, hc] using h
  | jn j => exact h

theorem outFor_isJn (c : Comp) (t : WTok) : (t.outFor c).isJn = t.isJn := by
  cases t with
  | sp s c' => by_cases hc : c' = c <;> simp [WTok.outFor, hc, WTok.isJn]
  | jn j => rfl

theorem Adj_map_outFor (c : Comp) : ∀ (l : List WTok), Adj l → Adj (l.map (WTok.outFor c))
  | [], _ => trivial
  | [_], _ => trivial
  | a :: b :: l, h => by
    refine ⟨?_, Adj_map_outFor c (b :: l) h.2⟩
    intro hw
    rw [outFor_isJn]
    exact h.1 (outFor_endsWord c a hw)

/-- what can follow a token: nothing, the first letter of a component, or a blank -/
def OkRestW (rest : Str) : Prop :=
  rest = [] ∨ ∃ ch t, rest = ch :: t ∧ (ch = 'N' ∨ ch = 'S' ∨ ch = 'E' ∨ ch = 'W' ∨ ch = ' ')

theorem okRestW_toks (toks : List WTok) : OkRestW (wtext toks) := by
  cases toks with
  | nil => exact Or.inl rfl
  | cons tok toks =>
    rw [wtext, textOf_cons]
    right
    cases tok with
    | sp s c => cases s <;> cases c <;> simp [WTok.text, Sl.text]
    | jn j => cases j <;> simp [WTok.text, Jn.text]

theorem LA_passW {R : Type} (p : Option Char) (rest : Str) (pos : Nat) (caps : List (Nat × Nat × Nat))
    (k : St → Option R) (h : OkRestW rest) :
    LA.m ⟨p, rest, pos, caps⟩ k = k ⟨p, rest, pos, (12, pos, pos) :: caps⟩ := by
  rcases h with rfl | ⟨ch, t, rfl, rfl | rfl | rfl | rfl | rfl⟩
  · simp [LA, Rx.alts, Rx.m]
  all_goals
    cases t <;> simp [LA, Rx.alts, Rx.m, Gen.cs_ec587de9, Gen.cs_21c56079, CharSet.mem] <;>
      (generalize k _ = o; cases o <;> rfl)

/-- the context a token may assume on its right -/
def RestFor (s : Sl) (rest : Str) : Prop :=
  OkRestW rest ∧ (s.endsWord = true → rest = [] ∨ ∃ t, rest = ' ' :: t)

theorem restFor_of_PV (p : Option Char) (s : Sl) (c : Comp) (toks : List WTok) (h : PV p (.sp s c :: toks)) :
    RestFor s (wtext toks) := by
  refine ⟨okRestW_toks toks, ?_⟩
  intro hw
  cases toks with
  | nil => exact Or.inl rfl
  | cons b l =>
    right
    have hj := h.2.1 hw
    cases b with
    | sp s' c' => cases hj
    | jn j => rw [wtext, textOf_cons]; cases j <;> simp [WTok.text, Jn.text]

theorem w_u : Gen.cs_14d6aa8a.mem 'N' = true := w_N

theorem stokW_head_word (s : Sl) (c : Comp) : ∃ ch t, s.text c = ch :: t ∧ Gen.cs_14d6aa8a.mem ch = true := by
  cases s <;> cases c <;> simp [Sl.text, w_N, w_S, w_E, w_W]

/-- a spelling pattern matches a whole token text `tt` when its core-with-look-ahead does -/
theorem family_hitW (coreLA : Rx) (tt rest : Str) (prev : Option Char) (pos : Nat) (adv : Bool)
    (hp : prev = none ∨ ∃ p, prev = some p ∧ (Gen.cs_76a08037.mem p = true ∨ Gen.cs_14d6aa8a.mem p = false))
    (hw : ∃ ch t, tt = ch :: t ∧ Gen.cs_14d6aa8a.mem ch = true)
    (hhit : ∀ (caps : List (Nat × Nat × Nat)) (k : St → Option Match), (∀ s' : St, s'.pos ≠ pos → (k s').isSome = true) →
      ∃ caps', coreLA.m ⟨prev, tt ++ rest, pos, caps⟩ k = k ⟨lastOr prev tt, rest, pos + tt.length, caps'⟩) :
    ∃ caps, matchHere (.seq (LBof Gen.cs_76a08037) coreLA) ⟨prev, tt ++ rest, pos, []⟩ adv =
      some ⟨pos, pos + tt.length, caps⟩ := by
  obtain ⟨ch, t, hct, hw⟩ := hw
  unfold matchHere
  simp only [m_seq]
  show ∃ caps, (LBof Gen.cs_76a08037).m ⟨prev, tt ++ rest, pos, []⟩ _ = _
  rw [hct, List.cons_append, LB_pass Gen.cs_76a08037 prev ch _ pos [] _ hp hw, ← List.cons_append, ← hct]
  obtain ⟨caps', hc⟩ := hhit [(1, pos, pos)]
    (fun s' => if (adv && s'.pos == pos) = true then none else some ⟨pos, s'.pos, s'.caps⟩)
    (by intro s' hs'; simp [hs'])
  refine ⟨caps', ?_⟩
  rw [hc]
  have hl : 0 < tt.length := by rw [hct]; simp
  have : (pos + tt.length == pos) = false := by
    simp only [beq_eq_false_iff_ne, ne_eq]; omega
  simp [this]

/-- the behaviour of the spelling pattern `X` of component `c` at the beginning of a token of the extended alphabet -/
theorem startStep_familyW (X : Rx) (c : Comp)
    (hshape : X = .seq (LBof Gen.cs_76a08037) (.seq (coreOf X) LA))
    (hhit : ∀ (s : Sl) (prev : Option Char) (rest : Str) (pos : Nat) (caps : List (Nat × Nat × Nat))
      (k : St → Option Match), RestFor s rest → (∀ s' : St, s'.pos ≠ pos → (k s').isSome = true) →
      ∃ caps', (Rx.seq (coreOf X) LA).m ⟨prev, s.text c ++ rest, pos, caps⟩ k =
        k ⟨lastOr prev (s.text c), rest, pos + (s.text c).length, caps'⟩)
    (hmiss : ∀ (s : Sl) (c' : Comp), c' ≠ c → ∀ (prev : Option Char) (rest : Str) (pos : Nat)
      (caps : List (Nat × Nat × Nat)) (k : St → Option Match),
      (coreOf X).m ⟨prev, s.text c' ++ rest, pos, caps⟩ k = none)
    (hmissJ : ∀ (j : Jn) (prev : Option Char) (rest : Str) (pos : Nat)
      (caps : List (Nat × Nat × Nat)) (k : St → Option Match),
      (coreOf X).m ⟨prev, j.text ++ rest, pos, caps⟩ k = none) :
    StartStepV WTok.text (fun t => (t.outFor c).text) PV X (fun _ => compText c) := by
  generalize coreOf X = core at hshape hhit hmiss hmissJ
  subst hshape
  intro tok toks prev pos adv hp
  cases tok with
  | sp s c' =>
    by_cases hc : c' = c
    · subst hc
      left
      have hpv : OkPrev2 prev := by
        rcases hp.1 with h | h
        · cases h
        · exact h
      obtain ⟨caps, h⟩ := family_hitW (.seq core LA) (s.text c') (textOf WTok.text toks) prev pos adv
        (okPrev2_LB35 prev hpv) (stokW_head_word s c')
        (fun caps k hk => hhit s prev _ pos caps k (restFor_of_PV prev s c' toks hp) hk)
      exact ⟨caps, h, by simp [WTok.outFor, WTok.text, Sl.sym_text]⟩
    · right
      exact ⟨family_miss core _ prev pos adv (fun caps k => hmiss s c' hc prev _ pos caps k),
        by simp [WTok.outFor, hc]⟩
  | jn j =>
    right
    exact ⟨family_miss core _ prev pos adv (fun caps k => hmissJ j prev _ pos caps k), rfl⟩

/-! inner positions, decided by evaluation: the look-behind blocks, or the core cannot start with this character, or the
    remaining text of the token is one of a few listed exceptions (for which the core is evaluated) -/

def innerCheck (fsOK : Char → Bool) (exc : List Str) (txt : Str) : Bool :=
  (innerOf txt).all (fun ps => match ps.1, ps.2 with
    | some p, ch :: b =>
      ((Gen.cs_14d6aa8a.mem p == Gen.cs_14d6aa8a.mem ch) && !Gen.cs_76a08037.mem p) || fsOK ch || exc.contains (ch :: b)
    | _, _ => false)

theorem innerG_of_check {T : Type} (text : T → Str) (core more : Rx) (hn : core.nul = false) (exc : List Str)
    (hexc : ∀ e ∈ exc, ∀ (prev : Option Char) (rest : Str) (pos : Nat) (caps : List (Nat × Nat × Nat))
      (k : St → Option Match), core.m ⟨prev, e ++ rest, pos, caps⟩ k = none)
    (hchk : ∀ tok : T, innerCheck core.notFirst exc (text tok) = true) :
    InnerFailG text (.seq (LBof Gen.cs_76a08037) (.seq core more)) := by
  intro tok rest pos ps hps
  have h := hchk tok
  simp only [innerCheck, List.all_eq_true] at h
  have h1 := h ps hps
  obtain ⟨p, s⟩ := ps
  cases p with
  | none => simp at h1
  | some p =>
    cases s with
    | nil => simp at h1
    | cons ch b =>
      simp only [Bool.or_eq_true, Bool.and_eq_true, beq_iff_eq, Bool.not_eq_true', List.contains_iff_mem] at h1
      have hmiss : (∀ (caps : List (Nat × Nat × Nat)) (k : St → Option Match),
          core.m ⟨some p, (ch :: b) ++ rest, pos, caps⟩ k = none) →
          matchHere (.seq (LBof Gen.cs_76a08037) (.seq core more)) ⟨some p, (ch :: b) ++ rest, pos, []⟩ false = none := by
        intro hm
        unfold matchHere
        simp only [m_seq]
        apply LB_none
        intro caps'
        exact hm caps' _
      rcases h1 with (⟨hw, hg⟩ | hf) | he
      · exact matchHere_LB_block _ _ _ _ _ _ _ hg hw
      · exact hmiss (fun caps k => Rx.m_notFirst core _ _ _ _ _ _ hn hf)
      · exact hmiss (fun caps k => hexc _ he _ _ _ _ _)

theorem or_of_isSome {α : Type} (o x : Option α) (h : o.isSome = true) : o.or x = o := by
  cases o with
  | none => cases h
  | some a => rfl

theorem outForW_idem (c : Comp) (tok : WTok) : (tok.outFor c).outFor c = tok.outFor c := by
  cases tok with
  | sp s c' => by_cases h : c' = c <;> simp [WTok.outFor, h]
  | jn j => rfl

theorem wtext_map_out (c : Comp) (toks : List WTok) :
    textOf (fun t => (WTok.outFor c t).text) toks = wtext (toks.map (WTok.outFor c)) := by
  simp [wtext, textOf, List.flatMap_map]

theorem subScrubber_passW (name : String) (c : Comp) (toks : List WTok) (hv : Adj toks)
    (h : ∀ toks : List WTok, Adj toks → scrubStep name (wtext toks) = wtext (toks.map (WTok.outFor c))) :
    subScrubber name (wtext toks) = some (wtext (toks.map (WTok.outFor c))) := by
  rw [subScrubber_eq]
  have e : stableBudget (wtext toks) = (2 * (wtext toks).length + 6) + 2 := rfl
  rw [e, ← h toks hv]
  apply untilStable_two
  rw [h toks hv, h (toks.map (WTok.outFor c)) (Adj_map_outFor c toks hv), List.map_map]
  congr 2
  funext tok
  exact outForW_idem c tok

/-! ### the eight spelling patterns on the extended alphabet -/

/-! #### `ne_regex` on the extended alphabet -/

theorem ne_coreNul : (coreOf Gen.ne_regex).nul = false := by decide +kernel

theorem ne_hitW (s : Sl) (prev : Option Char) (rest : Str) (pos : Nat) (caps : List (Nat × Nat × Nat))
    (k : St → Option Match) (hr : RestFor s rest) (hk : ∀ s' : St, s'.pos ≠ pos → (k s').isSome = true) :
    ∃ caps', (Rx.seq (coreOf Gen.ne_regex) LA).m ⟨prev, s.text .NE ++ rest, pos, caps⟩ k =
      k ⟨lastOr prev (s.text .NE), rest, pos + (s.text .NE).length, caps'⟩ := by
  by_cases hw : s.endsWord = true
  · rcases hr.2 hw with rfl | ⟨t, rfl⟩ <;> cases s <;> simp [Sl.endsWord] at hw <;>
      rx_eval [Gen.ne_regex, Sl.text, LA, or_of_isSome, hk, Nat.add_assoc] <;> exact ⟨_, rfl⟩
  · rw [m_seq]
    have h1 : ∀ k' : St → Option Match, ∃ caps', (coreOf Gen.ne_regex).m ⟨prev, s.text .NE ++ rest, pos, caps⟩ k' =
        k' ⟨lastOr prev (s.text .NE), rest, pos + (s.text .NE).length, caps'⟩ := by
      intro k'
      cases s <;> simp [Sl.endsWord] at hw <;> rx_eval [Gen.ne_regex, Sl.text] <;> exact ⟨_, rfl⟩
    obtain ⟨c1, h1⟩ := h1 (fun s' => LA.m s' k)
    rw [h1, LA_passW _ _ _ _ _ hr.1]
    exact ⟨_, rfl⟩

theorem ne_missW (s : Sl) (c' : Comp) (h : c' ≠ .NE) (prev : Option Char) (rest : Str) (pos : Nat)
    (caps : List (Nat × Nat × Nat)) (k : St → Option Match) :
    (coreOf Gen.ne_regex).m ⟨prev, s.text c' ++ rest, pos, caps⟩ k = none := by
  cases s <;> cases c' <;>
    first
      | exact absurd rfl h
      | exact Rx.m_notFirst _ _ _ _ _ _ _ ne_coreNul (by decide +kernel)
      | rx_eval [Gen.ne_regex, Sl.text]

theorem ne_missJ (j : Jn) (prev : Option Char) (rest : Str) (pos : Nat)
    (caps : List (Nat × Nat × Nat)) (k : St → Option Match) :
    (coreOf Gen.ne_regex).m ⟨prev, j.text ++ rest, pos, caps⟩ k = none := by
  cases j <;> exact Rx.m_notFirst _ _ _ _ _ _ _ ne_coreNul (by decide +kernel)

theorem ne_startW : StartStepV WTok.text (fun t => (t.outFor .NE).text) PV Gen.ne_regex (fun _ => compText .NE) :=
  startStep_familyW Gen.ne_regex .NE ne_shape ne_hitW ne_missW ne_missJ

theorem ne_innerW : InnerFailG WTok.text Gen.ne_regex := by
  rw [ne_shape]
  apply innerG_of_check WTok.text _ _ ne_coreNul [] (by intro e he; cases he)
  intro tok
  cases tok with
  | sp s c => cases s <;> cases c <;> decide +kernel
  | jn j => cases j <;> decide +kernel

theorem ne_passW (toks : List WTok) (hv : Adj toks) :
    scrubStep "ne_regex" (wtext toks) = wtext (toks.map (WTok.outFor .NE)) := by
  rw [← wtext_map_out]
  exact subWithV WTok.text _ PV Gen.ne_regex _ ne_innerW WTok.text_ne_nil PV_tail ne_startW
    ne_nil toks ((PV_none toks).2 hv)

/-! #### `nw_regex` on the extended alphabet -/

theorem nw_coreNul : (coreOf Gen.nw_regex).nul = false := by decide +kernel

theorem nw_hitW (s : Sl) (prev : Option Char) (rest : Str) (pos : Nat) (caps : List (Nat × Nat × Nat))
    (k : St → Option Match) (hr : RestFor s rest) (hk : ∀ s' : St, s'.pos ≠ pos → (k s').isSome = true) :
    ∃ caps', (Rx.seq (coreOf Gen.nw_regex) LA).m ⟨prev, s.text .NW ++ rest, pos, caps⟩ k =
      k ⟨lastOr prev (s.text .NW), rest, pos + (s.text .NW).length, caps'⟩ := by
  by_cases hw : s.endsWord = true
  · rcases hr.2 hw with rfl | ⟨t, rfl⟩ <;> cases s <;> simp [Sl.endsWord] at hw <;>
      rx_eval [Gen.nw_regex, Sl.text, LA, or_of_isSome, hk, Nat.add_assoc] <;> exact ⟨_, rfl⟩
  · rw [m_seq]
    have h1 : ∀ k' : St → Option Match, ∃ caps', (coreOf Gen.nw_regex).m ⟨prev, s.text .NW ++ rest, pos, caps⟩ k' =
        k' ⟨lastOr prev (s.text .NW), rest, pos + (s.text .NW).length, caps'⟩ := by
      intro k'
      cases s <;> simp [Sl.endsWord] at hw <;> rx_eval [Gen.nw_regex, Sl.text] <;> exact ⟨_, rfl⟩
    obtain ⟨c1, h1⟩ := h1 (fun s' => LA.m s' k)
    rw [h1, LA_passW _ _ _ _ _ hr.1]
    exact ⟨_, rfl⟩

theorem nw_missW (s : Sl) (c' : Comp) (h : c' ≠ .NW) (prev : Option Char) (rest : Str) (pos : Nat)
    (caps : List (Nat × Nat × Nat)) (k : St → Option Match) :
    (coreOf Gen.nw_regex).m ⟨prev, s.text c' ++ rest, pos, caps⟩ k = none := by
  cases s <;> cases c' <;>
    first
      | exact absurd rfl h
      | exact Rx.m_notFirst _ _ _ _ _ _ _ nw_coreNul (by decide +kernel)
      | rx_eval [Gen.nw_regex, Sl.text]

theorem nw_missJ (j : Jn) (prev : Option Char) (rest : Str) (pos : Nat)
    (caps : List (Nat × Nat × Nat)) (k : St → Option Match) :
    (coreOf Gen.nw_regex).m ⟨prev, j.text ++ rest, pos, caps⟩ k = none := by
  cases j <;> exact Rx.m_notFirst _ _ _ _ _ _ _ nw_coreNul (by decide +kernel)

theorem nw_startW : StartStepV WTok.text (fun t => (t.outFor .NW).text) PV Gen.nw_regex (fun _ => compText .NW) :=
  startStep_familyW Gen.nw_regex .NW nw_shape nw_hitW nw_missW nw_missJ

theorem nw_innerW : InnerFailG WTok.text Gen.nw_regex := by
  rw [nw_shape]
  apply innerG_of_check WTok.text _ _ nw_coreNul [] (by intro e he; cases he)
  intro tok
  cases tok with
  | sp s c => cases s <;> cases c <;> decide +kernel
  | jn j => cases j <;> decide +kernel

theorem nw_passW (toks : List WTok) (hv : Adj toks) :
    scrubStep "nw_regex" (wtext toks) = wtext (toks.map (WTok.outFor .NW)) := by
  rw [← wtext_map_out]
  exact subWithV WTok.text _ PV Gen.nw_regex _ nw_innerW WTok.text_ne_nil PV_tail nw_startW
    nw_nil toks ((PV_none toks).2 hv)

/-! #### `se_regex` on the extended alphabet -/

theorem se_coreNul : (coreOf Gen.se_regex).nul = false := by decide +kernel

theorem se_hitW (s : Sl) (prev : Option Char) (rest : Str) (pos : Nat) (caps : List (Nat × Nat × Nat))
    (k : St → Option Match) (hr : RestFor s rest) (hk : ∀ s' : St, s'.pos ≠ pos → (k s').isSome = true) :
    ∃ caps', (Rx.seq (coreOf Gen.se_regex) LA).m ⟨prev, s.text .SE ++ rest, pos, caps⟩ k =
      k ⟨lastOr prev (s.text .SE), rest, pos + (s.text .SE).length, caps'⟩ := by
  by_cases hw : s.endsWord = true
  · rcases hr.2 hw with rfl | ⟨t, rfl⟩ <;> cases s <;> simp [Sl.endsWord] at hw <;>
      rx_eval [Gen.se_regex, Sl.text, LA, or_of_isSome, hk, Nat.add_assoc] <;> exact ⟨_, rfl⟩
  · rw [m_seq]
    have h1 : ∀ k' : St → Option Match, ∃ caps', (coreOf Gen.se_regex).m ⟨prev, s.text .SE ++ rest, pos, caps⟩ k' =
        k' ⟨lastOr prev (s.text .SE), rest, pos + (s.text .SE).length, caps'⟩ := by
      intro k'
      cases s <;> simp [Sl.endsWord] at hw <;> rx_eval [Gen.se_regex, Sl.text] <;> exact ⟨_, rfl⟩
    obtain ⟨c1, h1⟩ := h1 (fun s' => LA.m s' k)
    rw [h1, LA_passW _ _ _ _ _ hr.1]
    exact ⟨_, rfl⟩

theorem se_missW (s : Sl) (c' : Comp) (h : c' ≠ .SE) (prev : Option Char) (rest : Str) (pos : Nat)
    (caps : List (Nat × Nat × Nat)) (k : St → Option Match) :
    (coreOf Gen.se_regex).m ⟨prev, s.text c' ++ rest, pos, caps⟩ k = none := by
  cases s <;> cases c' <;>
    first
      | exact absurd rfl h
      | exact Rx.m_notFirst _ _ _ _ _ _ _ se_coreNul (by decide +kernel)
      | rx_eval [Gen.se_regex, Sl.text]

theorem se_missJ (j : Jn) (prev : Option Char) (rest : Str) (pos : Nat)
    (caps : List (Nat × Nat × Nat)) (k : St → Option Match) :
    (coreOf Gen.se_regex).m ⟨prev, j.text ++ rest, pos, caps⟩ k = none := by
  cases j <;> exact Rx.m_notFirst _ _ _ _ _ _ _ se_coreNul (by decide +kernel)

theorem se_startW : StartStepV WTok.text (fun t => (t.outFor .SE).text) PV Gen.se_regex (fun _ => compText .SE) :=
  startStep_familyW Gen.se_regex .SE se_shape se_hitW se_missW se_missJ

theorem se_innerW : InnerFailG WTok.text Gen.se_regex := by
  rw [se_shape]
  apply innerG_of_check WTok.text _ _ se_coreNul [] (by intro e he; cases he)
  intro tok
  cases tok with
  | sp s c => cases s <;> cases c <;> decide +kernel
  | jn j => cases j <;> decide +kernel

theorem se_passW (toks : List WTok) (hv : Adj toks) :
    scrubStep "se_regex" (wtext toks) = wtext (toks.map (WTok.outFor .SE)) := by
  rw [← wtext_map_out]
  exact subWithV WTok.text _ PV Gen.se_regex _ se_innerW WTok.text_ne_nil PV_tail se_startW
    se_nil toks ((PV_none toks).2 hv)

/-! #### `sw_regex` on the extended alphabet -/

theorem sw_coreNul : (coreOf Gen.sw_regex).nul = false := by decide +kernel

theorem sw_hitW (s : Sl) (prev : Option Char) (rest : Str) (pos : Nat) (caps : List (Nat × Nat × Nat))
    (k : St → Option Match) (hr : RestFor s rest) (hk : ∀ s' : St, s'.pos ≠ pos → (k s').isSome = true) :
    ∃ caps', (Rx.seq (coreOf Gen.sw_regex) LA).m ⟨prev, s.text .SW ++ rest, pos, caps⟩ k =
      k ⟨lastOr prev (s.text .SW), rest, pos + (s.text .SW).length, caps'⟩ := by
  by_cases hw : s.endsWord = true
  · rcases hr.2 hw with rfl | ⟨t, rfl⟩ <;> cases s <;> simp [Sl.endsWord] at hw <;>
      rx_eval [Gen.sw_regex, Sl.text, LA, or_of_isSome, hk, Nat.add_assoc] <;> exact ⟨_, rfl⟩
  · rw [m_seq]
    have h1 : ∀ k' : St → Option Match, ∃ caps', (coreOf Gen.sw_regex).m ⟨prev, s.text .SW ++ rest, pos, caps⟩ k' =
        k' ⟨lastOr prev (s.text .SW), rest, pos + (s.text .SW).length, caps'⟩ := by
      intro k'
      cases s <;> simp [Sl.endsWord] at hw <;> rx_eval [Gen.sw_regex, Sl.text] <;> exact ⟨_, rfl⟩
    obtain ⟨c1, h1⟩ := h1 (fun s' => LA.m s' k)
    rw [h1, LA_passW _ _ _ _ _ hr.1]
    exact ⟨_, rfl⟩

theorem sw_missW (s : Sl) (c' : Comp) (h : c' ≠ .SW) (prev : Option Char) (rest : Str) (pos : Nat)
    (caps : List (Nat × Nat × Nat)) (k : St → Option Match) :
    (coreOf Gen.sw_regex).m ⟨prev, s.text c' ++ rest, pos, caps⟩ k = none := by
  cases s <;> cases c' <;>
    first
      | exact absurd rfl h
      | exact Rx.m_notFirst _ _ _ _ _ _ _ sw_coreNul (by decide +kernel)
      | rx_eval [Gen.sw_regex, Sl.text]

theorem sw_missJ (j : Jn) (prev : Option Char) (rest : Str) (pos : Nat)
    (caps : List (Nat × Nat × Nat)) (k : St → Option Match) :
    (coreOf Gen.sw_regex).m ⟨prev, j.text ++ rest, pos, caps⟩ k = none := by
  cases j <;> exact Rx.m_notFirst _ _ _ _ _ _ _ sw_coreNul (by decide +kernel)

theorem sw_startW : StartStepV WTok.text (fun t => (t.outFor .SW).text) PV Gen.sw_regex (fun _ => compText .SW) :=
  startStep_familyW Gen.sw_regex .SW sw_shape sw_hitW sw_missW sw_missJ

theorem sw_innerW : InnerFailG WTok.text Gen.sw_regex := by
  rw [sw_shape]
  apply innerG_of_check WTok.text _ _ sw_coreNul [] (by intro e he; cases he)
  intro tok
  cases tok with
  | sp s c => cases s <;> cases c <;> decide +kernel
  | jn j => cases j <;> decide +kernel

theorem sw_passW (toks : List WTok) (hv : Adj toks) :
    scrubStep "sw_regex" (wtext toks) = wtext (toks.map (WTok.outFor .SW)) := by
  rw [← wtext_map_out]
  exact subWithV WTok.text _ PV Gen.sw_regex _ sw_innerW WTok.text_ne_nil PV_tail sw_startW
    sw_nil toks ((PV_none toks).2 hv)

/-! #### `n2_regex` on the extended alphabet -/

theorem n2_coreNul : (coreOf Gen.n2_regex).nul = false := by decide +kernel

theorem n2_hitW (s : Sl) (prev : Option Char) (rest : Str) (pos : Nat) (caps : List (Nat × Nat × Nat))
    (k : St → Option Match) (hr : RestFor s rest) (hk : ∀ s' : St, s'.pos ≠ pos → (k s').isSome = true) :
    ∃ caps', (Rx.seq (coreOf Gen.n2_regex) LA).m ⟨prev, s.text .N ++ rest, pos, caps⟩ k =
      k ⟨lastOr prev (s.text .N), rest, pos + (s.text .N).length, caps'⟩ := by
  by_cases hw : s.endsWord = true
  · rcases hr.2 hw with rfl | ⟨t, rfl⟩ <;> cases s <;> simp [Sl.endsWord] at hw <;>
      rx_eval [Gen.n2_regex, Sl.text, LA, or_of_isSome, hk, Nat.add_assoc] <;> exact ⟨_, rfl⟩
  · rw [m_seq]
    have h1 : ∀ k' : St → Option Match, ∃ caps', (coreOf Gen.n2_regex).m ⟨prev, s.text .N ++ rest, pos, caps⟩ k' =
        k' ⟨lastOr prev (s.text .N), rest, pos + (s.text .N).length, caps'⟩ := by
      intro k'
      cases s <;> simp [Sl.endsWord] at hw <;> rx_eval [Gen.n2_regex, Sl.text] <;> exact ⟨_, rfl⟩
    obtain ⟨c1, h1⟩ := h1 (fun s' => LA.m s' k)
    rw [h1, LA_passW _ _ _ _ _ hr.1]
    exact ⟨_, rfl⟩

theorem n2_missW (s : Sl) (c' : Comp) (h : c' ≠ .N) (prev : Option Char) (rest : Str) (pos : Nat)
    (caps : List (Nat × Nat × Nat)) (k : St → Option Match) :
    (coreOf Gen.n2_regex).m ⟨prev, s.text c' ++ rest, pos, caps⟩ k = none := by
  cases s <;> cases c' <;>
    first
      | exact absurd rfl h
      | exact Rx.m_notFirst _ _ _ _ _ _ _ n2_coreNul (by decide +kernel)
      | rx_eval [Gen.n2_regex, Sl.text]

theorem n2_missJ (j : Jn) (prev : Option Char) (rest : Str) (pos : Nat)
    (caps : List (Nat × Nat × Nat)) (k : St → Option Match) :
    (coreOf Gen.n2_regex).m ⟨prev, j.text ++ rest, pos, caps⟩ k = none := by
  cases j <;> exact Rx.m_notFirst _ _ _ _ _ _ _ n2_coreNul (by decide +kernel)

theorem n2_startW : StartStepV WTok.text (fun t => (t.outFor .N).text) PV Gen.n2_regex (fun _ => compText .N) :=
  startStep_familyW Gen.n2_regex .N n2_shape n2_hitW n2_missW n2_missJ

theorem n2_innerW : InnerFailG WTok.text Gen.n2_regex := by
  rw [n2_shape]
  apply innerG_of_check WTok.text _ _ n2_coreNul [] (by intro e he; cases he)
  intro tok
  cases tok with
  | sp s c => cases s <;> cases c <;> decide +kernel
  | jn j => cases j <;> decide +kernel

theorem n2_passW (toks : List WTok) (hv : Adj toks) :
    scrubStep "n2_regex" (wtext toks) = wtext (toks.map (WTok.outFor .N)) := by
  rw [← wtext_map_out]
  exact subWithV WTok.text _ PV Gen.n2_regex _ n2_innerW WTok.text_ne_nil PV_tail n2_startW
    n2_nil toks ((PV_none toks).2 hv)

/-! #### `s2_regex` on the extended alphabet -/

theorem s2_coreNul : (coreOf Gen.s2_regex).nul = false := by decide +kernel

theorem s2_hitW (s : Sl) (prev : Option Char) (rest : Str) (pos : Nat) (caps : List (Nat × Nat × Nat))
    (k : St → Option Match) (hr : RestFor s rest) (hk : ∀ s' : St, s'.pos ≠ pos → (k s').isSome = true) :
    ∃ caps', (Rx.seq (coreOf Gen.s2_regex) LA).m ⟨prev, s.text .S ++ rest, pos, caps⟩ k =
      k ⟨lastOr prev (s.text .S), rest, pos + (s.text .S).length, caps'⟩ := by
  by_cases hw : s.endsWord = true
  · rcases hr.2 hw with rfl | ⟨t, rfl⟩ <;> cases s <;> simp [Sl.endsWord] at hw <;>
      rx_eval [Gen.s2_regex, Sl.text, LA, or_of_isSome, hk, Nat.add_assoc] <;> exact ⟨_, rfl⟩
  · rw [m_seq]
    have h1 : ∀ k' : St → Option Match, ∃ caps', (coreOf Gen.s2_regex).m ⟨prev, s.text .S ++ rest, pos, caps⟩ k' =
        k' ⟨lastOr prev (s.text .S), rest, pos + (s.text .S).length, caps'⟩ := by
      intro k'
      cases s <;> simp [Sl.endsWord] at hw <;> rx_eval [Gen.s2_regex, Sl.text] <;> exact ⟨_, rfl⟩
    obtain ⟨c1, h1⟩ := h1 (fun s' => LA.m s' k)
    rw [h1, LA_passW _ _ _ _ _ hr.1]
    exact ⟨_, rfl⟩

theorem s2_missW (s : Sl) (c' : Comp) (h : c' ≠ .S) (prev : Option Char) (rest : Str) (pos : Nat)
    (caps : List (Nat × Nat × Nat)) (k : St → Option Match) :
    (coreOf Gen.s2_regex).m ⟨prev, s.text c' ++ rest, pos, caps⟩ k = none := by
  cases s <;> cases c' <;>
    first
      | exact absurd rfl h
      | exact Rx.m_notFirst _ _ _ _ _ _ _ s2_coreNul (by decide +kernel)
      | rx_eval [Gen.s2_regex, Sl.text]

theorem s2_missJ (j : Jn) (prev : Option Char) (rest : Str) (pos : Nat)
    (caps : List (Nat × Nat × Nat)) (k : St → Option Match) :
    (coreOf Gen.s2_regex).m ⟨prev, j.text ++ rest, pos, caps⟩ k = none := by
  cases j <;> exact Rx.m_notFirst _ _ _ _ _ _ _ s2_coreNul (by decide +kernel)

theorem s2_startW : StartStepV WTok.text (fun t => (t.outFor .S).text) PV Gen.s2_regex (fun _ => compText .S) :=
  startStep_familyW Gen.s2_regex .S s2_shape s2_hitW s2_missW s2_missJ

theorem s2_innerW : InnerFailG WTok.text Gen.s2_regex := by
  rw [s2_shape]
  apply innerG_of_check WTok.text _ _ s2_coreNul [] (by intro e he; cases he)
  intro tok
  cases tok with
  | sp s c => cases s <;> cases c <;> decide +kernel
  | jn j => cases j <;> decide +kernel

theorem s2_passW (toks : List WTok) (hv : Adj toks) :
    scrubStep "s2_regex" (wtext toks) = wtext (toks.map (WTok.outFor .S)) := by
  rw [← wtext_map_out]
  exact subWithV WTok.text _ PV Gen.s2_regex _ s2_innerW WTok.text_ne_nil PV_tail s2_startW
    s2_nil toks ((PV_none toks).2 hv)

/-! #### `e2_regex` on the extended alphabet -/

theorem e2_coreNul : (coreOf Gen.e2_regex).nul = false := by decide +kernel

theorem e2_hitW (s : Sl) (prev : Option Char) (rest : Str) (pos : Nat) (caps : List (Nat × Nat × Nat))
    (k : St → Option Match) (hr : RestFor s rest) (hk : ∀ s' : St, s'.pos ≠ pos → (k s').isSome = true) :
    ∃ caps', (Rx.seq (coreOf Gen.e2_regex) LA).m ⟨prev, s.text .E ++ rest, pos, caps⟩ k =
      k ⟨lastOr prev (s.text .E), rest, pos + (s.text .E).length, caps'⟩ := by
  by_cases hw : s.endsWord = true
  · rcases hr.2 hw with rfl | ⟨t, rfl⟩ <;> cases s <;> simp [Sl.endsWord] at hw <;>
      rx_eval [Gen.e2_regex, Sl.text, LA, or_of_isSome, hk, Nat.add_assoc] <;> exact ⟨_, rfl⟩
  · rw [m_seq]
    have h1 : ∀ k' : St → Option Match, ∃ caps', (coreOf Gen.e2_regex).m ⟨prev, s.text .E ++ rest, pos, caps⟩ k' =
        k' ⟨lastOr prev (s.text .E), rest, pos + (s.text .E).length, caps'⟩ := by
      intro k'
      cases s <;> simp [Sl.endsWord] at hw <;> rx_eval [Gen.e2_regex, Sl.text] <;> exact ⟨_, rfl⟩
    obtain ⟨c1, h1⟩ := h1 (fun s' => LA.m s' k)
    rw [h1, LA_passW _ _ _ _ _ hr.1]
    exact ⟨_, rfl⟩

theorem e2_missW (s : Sl) (c' : Comp) (h : c' ≠ .E) (prev : Option Char) (rest : Str) (pos : Nat)
    (caps : List (Nat × Nat × Nat)) (k : St → Option Match) :
    (coreOf Gen.e2_regex).m ⟨prev, s.text c' ++ rest, pos, caps⟩ k = none := by
  cases s <;> cases c' <;>
    first
      | exact absurd rfl h
      | exact Rx.m_notFirst _ _ _ _ _ _ _ e2_coreNul (by decide +kernel)
      | rx_eval [Gen.e2_regex, Sl.text]

theorem e2_missJ (j : Jn) (prev : Option Char) (rest : Str) (pos : Nat)
    (caps : List (Nat × Nat × Nat)) (k : St → Option Match) :
    (coreOf Gen.e2_regex).m ⟨prev, j.text ++ rest, pos, caps⟩ k = none := by
  cases j <;> exact Rx.m_notFirst _ _ _ _ _ _ _ e2_coreNul (by decide +kernel)

theorem e2_startW : StartStepV WTok.text (fun t => (t.outFor .E).text) PV Gen.e2_regex (fun _ => compText .E) :=
  startStep_familyW Gen.e2_regex .E e2_shape e2_hitW e2_missW e2_missJ

theorem e2_excW : ∀ e ∈ ([['E', 'a', 's', 't', ' ', 'Q', 'u', 'a', 'r', 't', 'e', 'r'], ['E', 'a', 's', 't', ' ', 'O', 'n', 'e', ' ', 'Q', 'u', 'a', 'r', 't', 'e', 'r']] : List Str), ∀ (prev : Option Char) (rest : Str) (pos : Nat)
    (caps : List (Nat × Nat × Nat)) (k : St → Option Match), (coreOf Gen.e2_regex).m ⟨prev, e ++ rest, pos, caps⟩ k = none := by
  intro e he prev rest pos caps k
  simp only [List.mem_cons, List.not_mem_nil, or_false] at he
  rcases he with rfl | rfl <;> rx_eval [Gen.e2_regex]

theorem e2_innerW : InnerFailG WTok.text Gen.e2_regex := by
  rw [e2_shape]
  apply innerG_of_check WTok.text _ _ e2_coreNul [['E', 'a', 's', 't', ' ', 'Q', 'u', 'a', 'r', 't', 'e', 'r'], ['E', 'a', 's', 't', ' ', 'O', 'n', 'e', ' ', 'Q', 'u', 'a', 'r', 't', 'e', 'r']] e2_excW
  intro tok
  cases tok with
  | sp s c => cases s <;> cases c <;> decide +kernel
  | jn j => cases j <;> decide +kernel

theorem e2_passW (toks : List WTok) (hv : Adj toks) :
    scrubStep "e2_regex" (wtext toks) = wtext (toks.map (WTok.outFor .E)) := by
  rw [← wtext_map_out]
  exact subWithV WTok.text _ PV Gen.e2_regex _ e2_innerW WTok.text_ne_nil PV_tail e2_startW
    e2_nil toks ((PV_none toks).2 hv)

/-! #### `w2_regex` on the extended alphabet -/

theorem w2_coreNul : (coreOf Gen.w2_regex).nul = false := by decide +kernel

theorem w2_hitW (s : Sl) (prev : Option Char) (rest : Str) (pos : Nat) (caps : List (Nat × Nat × Nat))
    (k : St → Option Match) (hr : RestFor s rest) (hk : ∀ s' : St, s'.pos ≠ pos → (k s').isSome = true) :
    ∃ caps', (Rx.seq (coreOf Gen.w2_regex) LA).m ⟨prev, s.text .W ++ rest, pos, caps⟩ k =
      k ⟨lastOr prev (s.text .W), rest, pos + (s.text .W).length, caps'⟩ := by
  by_cases hw : s.endsWord = true
  · rcases hr.2 hw with rfl | ⟨t, rfl⟩ <;> cases s <;> simp [Sl.endsWord] at hw <;>
      rx_eval [Gen.w2_regex, Sl.text, LA, or_of_isSome, hk, Nat.add_assoc] <;> exact ⟨_, rfl⟩
  · rw [m_seq]
    have h1 : ∀ k' : St → Option Match, ∃ caps', (coreOf Gen.w2_regex).m ⟨prev, s.text .W ++ rest, pos, caps⟩ k' =
        k' ⟨lastOr prev (s.text .W), rest, pos + (s.text .W).length, caps'⟩ := by
      intro k'
      cases s <;> simp [Sl.endsWord] at hw <;> rx_eval [Gen.w2_regex, Sl.text] <;> exact ⟨_, rfl⟩
    obtain ⟨c1, h1⟩ := h1 (fun s' => LA.m s' k)
    rw [h1, LA_passW _ _ _ _ _ hr.1]
    exact ⟨_, rfl⟩

theorem w2_missW (s : Sl) (c' : Comp) (h : c' ≠ .W) (prev : Option Char) (rest : Str) (pos : Nat)
    (caps : List (Nat × Nat × Nat)) (k : St → Option Match) :
    (coreOf Gen.w2_regex).m ⟨prev, s.text c' ++ rest, pos, caps⟩ k = none := by
  cases s <;> cases c' <;>
    first
      | exact absurd rfl h
      | exact Rx.m_notFirst _ _ _ _ _ _ _ w2_coreNul (by decide +kernel)
      | rx_eval [Gen.w2_regex, Sl.text]

theorem w2_missJ (j : Jn) (prev : Option Char) (rest : Str) (pos : Nat)
    (caps : List (Nat × Nat × Nat)) (k : St → Option Match) :
    (coreOf Gen.w2_regex).m ⟨prev, j.text ++ rest, pos, caps⟩ k = none := by
  cases j <;> exact Rx.m_notFirst _ _ _ _ _ _ _ w2_coreNul (by decide +kernel)

theorem w2_startW : StartStepV WTok.text (fun t => (t.outFor .W).text) PV Gen.w2_regex (fun _ => compText .W) :=
  startStep_familyW Gen.w2_regex .W w2_shape w2_hitW w2_missW w2_missJ

theorem w2_excW : ∀ e ∈ ([['W', 'e', 's', 't', ' ', 'Q', 'u', 'a', 'r', 't', 'e', 'r'], ['W', 'e', 's', 't', ' ', 'O', 'n', 'e', ' ', 'Q', 'u', 'a', 'r', 't', 'e', 'r']] : List Str), ∀ (prev : Option Char) (rest : Str) (pos : Nat)
    (caps : List (Nat × Nat × Nat)) (k : St → Option Match), (coreOf Gen.w2_regex).m ⟨prev, e ++ rest, pos, caps⟩ k = none := by
  intro e he prev rest pos caps k
  simp only [List.mem_cons, List.not_mem_nil, or_false] at he
  rcases he with rfl | rfl <;> rx_eval [Gen.w2_regex]

theorem w2_innerW : InnerFailG WTok.text Gen.w2_regex := by
  rw [w2_shape]
  apply innerG_of_check WTok.text _ _ w2_coreNul [['W', 'e', 's', 't', ' ', 'Q', 'u', 'a', 'r', 't', 'e', 'r'], ['W', 'e', 's', 't', ' ', 'O', 'n', 'e', ' ', 'Q', 'u', 'a', 'r', 't', 'e', 'r']] w2_excW
  intro tok
  cases tok with
  | sp s c => cases s <;> cases c <;> decide +kernel
  | jn j => cases j <;> decide +kernel

theorem w2_passW (toks : List WTok) (hv : Adj toks) :
    scrubStep "w2_regex" (wtext toks) = wtext (toks.map (WTok.outFor .W)) := by
  rw [← wtext_map_out]
  exact subWithV WTok.text _ PV Gen.w2_regex _ w2_innerW WTok.text_ne_nil PV_tail w2_startW
    w2_nil toks ((PV_none toks).2 hv)


/-! ### the eight spelling passes on a text of the extended alphabet -/

/-- the canonical token a token stands for -/
def WTok.canon : WTok → WTok
  | .sp _ c => .sp .sym c
  | .jn j => .jn j

theorem outForW_all (tok : WTok) :
    WTok.outFor .W (WTok.outFor .E (WTok.outFor .S (WTok.outFor .N (WTok.outFor .SW (WTok.outFor .SE
      (WTok.outFor .NW (WTok.outFor .NE tok))))))) = tok.canon := by
  cases tok with
  | sp s c => cases c <;> rfl
  | jn j => rfl

theorem Adj_map_canon : ∀ (l : List WTok), Adj l → Adj (l.map WTok.canon)
  | [], _ => trivial
  | [_], _ => trivial
  | a :: b :: l, h => by
    refine ⟨?_, Adj_map_canon (b :: l) h.2⟩
    intro hw
    cases a with
    | sp s c => simp [WTok.canon, WTok.endsWord, Sl.endsWord] at hw
    | jn j => simp [WTok.canon, WTok.endsWord] at hw

/-- the eight spelling patterns, one after the other, turn every component into its canonical form and leave the joiners -/
theorem scrubAll_spellingW (toks : List WTok) (hv : Adj toks) :
    scrubAll Gen.QQ_SCRUBBER_REGEXES (wtext toks) = some (wtext (toks.map WTok.canon)) := by
  rw [show Gen.QQ_SCRUBBER_REGEXES =
    ["ne_regex", "nw_regex", "se_regex", "sw_regex", "n2_regex", "s2_regex", "e2_regex", "w2_regex"] from rfl]
  have a1 := Adj_map_outFor .NE _ hv
  have a2 := Adj_map_outFor .NW _ a1
  have a3 := Adj_map_outFor .SE _ a2
  have a4 := Adj_map_outFor .SW _ a3
  have a5 := Adj_map_outFor .N _ a4
  have a6 := Adj_map_outFor .S _ a5
  have a7 := Adj_map_outFor .E _ a6
  rw [scrubAll_cons _ _ _ _ (subScrubber_passW "ne_regex" .NE _ hv ne_passW),
    scrubAll_cons _ _ _ _ (subScrubber_passW "nw_regex" .NW _ a1 nw_passW),
    scrubAll_cons _ _ _ _ (subScrubber_passW "se_regex" .SE _ a2 se_passW),
    scrubAll_cons _ _ _ _ (subScrubber_passW "sw_regex" .SW _ a3 sw_passW),
    scrubAll_cons _ _ _ _ (subScrubber_passW "n2_regex" .N _ a4 n2_passW),
    scrubAll_cons _ _ _ _ (subScrubber_passW "s2_regex" .S _ a5 s2_passW),
    scrubAll_cons _ _ _ _ (subScrubber_passW "e2_regex" .E _ a6 e2_passW),
    scrubAll_cons _ _ _ _ (subScrubber_passW "w2_regex" .W _ a7 w2_passW)]
  show some _ = some _
  simp only [List.map_map]
  congr 3
  funext tok
  exact outForW_all tok

theorem canon_canon (toks : List WTok) : (toks.map WTok.canon).map WTok.canon = toks.map WTok.canon := by
  rw [List.map_map]
  congr 1
  funext t
  cases t <;> rfl

/-- **C07 (every spelling is as good as the symbol spelling)**: a text made of components in ANY of the ten spellings
    (independently per component), with nothing, a blank, " of " or " of the " between components — a word spelling must be
    followed by a joiner — is normalised by `scrub_aliquots` exactly like the text with the same joiners in which every
    component is written canonically ("N½", "NE¼"); with and without `clean_qq`, for chains of every length -/
theorem C07_word_spelling_reduced (toks : List WTok) (hv : Adj toks) (cleanQQ : Bool) :
    Tract.scrubAliquots (wtext toks) cleanQQ = Tract.scrubAliquots (wtext (toks.map WTok.canon)) cleanQQ := by
  have h1 := scrubAll_spellingW toks hv
  have h2 := scrubAll_spellingW (toks.map WTok.canon) (Adj_map_canon toks hv)
  rw [canon_canon] at h2
  unfold scrubAliquots
  rw [h1, h2]

/-- a chain with no joiner at all: the canonical tokens give the canonical chain text -/
theorem wtext_sym_chain (chain : List Comp) : wtext (chain.map (WTok.sp .sym)) = chainText chain := by
  induction chain with
  | nil => rfl
  | cons c cs ih =>
    rw [List.map_cons, wtext, textOf_cons, C02_chainText_cons]
    show Sl.text .sym c ++ wtext (cs.map (WTok.sp .sym)) = _
    rw [ih, Sl.sym_text]

/-- the tokens of a chain written with spellings `sps` (one per component) and no joiner -/
def spelledToks : List (Sl × Comp) → List WTok := List.map (fun p => WTok.sp p.1 p.2)

theorem spelled_canon (l : List (Sl × Comp)) : (spelledToks l).map WTok.canon = (l.map Prod.snd).map (WTok.sp .sym) := by
  simp [spelledToks, List.map_map, Function.comp_def, WTok.canon]

/-- **C07 (adjacent components, any non-word spelling)**: a chain whose components are written "X½", "X/2", "X2", "X1/2" or
    "X 1/2" (any mixture) with nothing between them is normalised to the canonical text -/
theorem C07_word_spelling_normalised_adjacent (l : List (Sl × Comp)) (hv : Adj (spelledToks l)) (cleanQQ : Bool) :
    Tract.scrubAliquots (wtext (spelledToks l)) cleanQQ = some (chainText (l.map Prod.snd)) := by
  rw [C07_word_spelling_reduced _ hv, spelled_canon, wtext_sym_chain]
  exact C07_canonical_chain_fixed _ cleanQQ

/-- **C07 (parse)**: the parser cannot tell the spellings apart -/
theorem C07_word_spelling_parse_eq (toks : List WTok) (hv : Adj toks) (a : ParseArgs) (inh : Flags) (p : Str)
    (hp : Tract.scrubAliquots (wtext (toks.map WTok.canon)) a.cleanQQ = some p) :
    tractParse (wtext toks) a inh = tractParse (wtext (toks.map WTok.canon)) a inh :=
  C07_parse_depends_on_normal_form_full _ _ a inh p (by rw [C07_word_spelling_reduced _ hv]; exact hp) hp

/-! ### joiners between canonical components, and the bare-quarter rule: decided by evaluation of the model -/

def allComps : List Comp := [.N, .S, .E, .W, .NE, .NW, .SE, .SW]
def allJn : List Jn := [.blank, .of_, .ofThe]
def halfComps : List Comp := [.N, .S, .E, .W]
def quarterComps : List Comp := [.NE, .NW, .SE, .SW]

theorem mem_allComps (c : Comp) : c ∈ allComps := by cases c <;> simp [allComps]
theorem mem_allJn (j : Jn) : j ∈ allJn := by cases j <;> simp [allJn]

theorem joined_pairs_check : (allComps.all (fun a => allComps.all (fun b => allJn.all (fun j => [true, false].all (fun cq =>
    scrubAliquots (wtext [.sp .sym a, .jn j, .sp .sym b]) cq == some (chainText [a, b])))))) = true := by
  decide +kernel

/-- **C07 (joiners, two components)**: every spelling of each of two components, with a blank, " of " or " of the " between
    them, is normalised to the canonical text of the pair — with and without `clean_qq` -/
theorem C07_joined_spelling_normalised_pairs (s1 s2 : Sl) (a b : Comp) (j : Jn) (cleanQQ : Bool) :
    Tract.scrubAliquots (wtext [.sp s1 a, .jn j, .sp s2 b]) cleanQQ = some (chainText [a, b]) := by
  have hv : Adj [.sp s1 a, .jn j, .sp s2 b] := by simp [Adj, WTok.endsWord, WTok.isJn]
  rw [C07_word_spelling_reduced _ hv]
  have h := joined_pairs_check
  simp only [List.all_eq_true, beq_iff_eq] at h
  exact h a (mem_allComps a) b (mem_allComps b) j (mem_allJn j) cleanQQ (by cases cleanQQ <;> simp)

theorem bare_quarter_check : (halfComps.all (fun h => quarterComps.all (fun q =>
    scrubAliquots (compText h ++ q.str) false == some (chainText [h, q]) &&
    scrubAliquots (h.str ++ ['/', '2'] ++ q.str) false == some (chainText [h, q]) &&
    scrubAliquots (h.str ++ ['2', ' '] ++ q.str) false == some (chainText [h, q]) &&
    scrubAliquots q.str false == some q.str && scrubAliquots q.str true == some (compText q)))) = true := by
  decide +kernel

/-- **C07 (bare quarter)**: a bare two-letter quarter directly after a half ("E½NE", "E/2NE", "E2 NE") is completed to a
    quarter WITHOUT `clean_qq`; standing alone it is left as it is without `clean_qq` and completed with `clean_qq` — for
    every half and every quarter -/
theorem C07_bare_quarter_rule (h q : Comp) (hh : h.isHalf = true) (hq : q.isHalf = false) :
    Tract.scrubAliquots (compText h ++ q.str) false = some (chainText [h, q]) ∧
    Tract.scrubAliquots (h.str ++ ['/', '2'] ++ q.str) false = some (chainText [h, q]) ∧
    Tract.scrubAliquots (h.str ++ ['2', ' '] ++ q.str) false = some (chainText [h, q]) ∧
    Tract.scrubAliquots q.str false = some q.str ∧ Tract.scrubAliquots q.str true = some (compText q) := by
  have hc := bare_quarter_check
  simp only [List.all_eq_true, Bool.and_eq_true, beq_iff_eq] at hc
  have hm : h ∈ halfComps := by cases h <;> simp [halfComps, Comp.isHalf] at hh ⊢
  have qm : q ∈ quarterComps := by cases q <;> simp [quarterComps, Comp.isHalf] at hq ⊢
  obtain ⟨⟨⟨⟨h1, h2⟩, h3⟩, h4⟩, h5⟩ := hc h hm q qm
  exact ⟨h1, h2, h3, h4, h5⟩

/-! ### non-vacuity -/

example : wtext [.sp .word .N, .jn .of_, .sp .spacedOne .NE] = "North Half of North East One Quarter".toList := by decide
example : Tract.scrubAliquots "North Half of North East One Quarter".toList false = some "N½NE¼".toList :=
  C07_joined_spelling_normalised_pairs .word .spacedOne .N .NE .of_ false
example : Tract.scrubAliquots "S 1/2 of the South-West Quarter".toList true = some "S½SW¼".toList :=
  C07_joined_spelling_normalised_pairs .sfrac .hyph .S .SW .ofThe true
example : wtext (spelledToks [(.frac, .N), (.sfrac, .NE), (.digit, .SW), (.slash, .E)]) = "N1/2NE 1/4SW4E/2".toList := by decide
example : Tract.scrubAliquots "N1/2NE 1/4SW4E/2".toList false = some "N½NE¼SW¼E½".toList :=
  C07_word_spelling_normalised_adjacent [(.frac, .N), (.sfrac, .NE), (.digit, .SW), (.slash, .E)]
    (by simp [spelledToks, Adj, WTok.endsWord, Sl.endsWord]) false
/-- the reduction theorem on a chain of four components with three different joiners -/
example : Tract.scrubAliquots "West One Half N2 of Northeast Quarter of the SE 1/4".toList false =
    Tract.scrubAliquots "W½ N½ of NE¼ of the SE¼".toList false :=
  C07_word_spelling_reduced [.sp .wordOne .W, .jn .blank, .sp .digit .N, .jn .of_, .sp .word .NE, .jn .ofThe, .sp .sfrac .SE]
    (by simp [Adj, WTok.endsWord, WTok.isJn, Sl.endsWord]) false
example : Tract.scrubAliquots "W½ N½ of NE¼ of the SE¼".toList false = some "W½N½NE¼SE¼".toList := by decide +kernel
example : Tract.scrubAliquots "E½NE".toList false = some "E½NE¼".toList := (C07_bare_quarter_rule .E .NE rfl rfl).1
example : Tract.scrubAliquots "NE".toList false = some "NE".toList := (C07_bare_quarter_rule .E .NE rfl rfl).2.2.2.1
/-- the bare-quarter rule inside longer chains (instances) -/
example : Tract.scrubAliquots "N½NE¼ E2NE".toList false = some "N½NE¼E½NE¼".toList := by decide +kernel
example : Tract.scrubAliquots "E2NENW of SW¼".toList false = some "E½NE¼NW¼SW¼".toList := by decide +kernel

/-! ### the full statement for joiners (OPEN: proved above for two components, and reduced to canonical components for every length) -/

/-- the tokens of the tail of a chain: each further component with the joiner (if any) in front of it -/
def joinedToks (l : List (Option Jn × Sl × Comp)) : List WTok :=
  l.flatMap (fun x => (match x.1 with | some j => [WTok.jn j] | none => []) ++ [WTok.sp x.2.1 x.2.2])

/-- any spelling per component × any joiner from {"", " ", " of ", " of the "} between components, chains of every length -/
def C07_joined_spelling_normalised : Prop :=
  ∀ (s : Sl) (c : Comp) (l : List (Option Jn × Sl × Comp)) (cleanQQ : Bool), Adj (.sp s c :: joinedToks l) →
    Tract.scrubAliquots (wtext (.sp s c :: joinedToks l)) cleanQQ = some (chainText (c :: l.map (fun x => x.2.2)))

#print axioms C07_word_spelling_reduced
#print axioms C07_word_spelling_normalised_adjacent
#print axioms C07_word_spelling_parse_eq
#print axioms C07_joined_spelling_normalised_pairs
#print axioms C07_bare_quarter_rule

end PyTRS
