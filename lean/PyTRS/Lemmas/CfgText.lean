/-
C13 — a well-formed configuration survives conversion to text and back.

Route: `toText c = ",".join(items)`; no item contains white space, ',' or ';' so `textItems (toText c) = items`;
each item re-sets exactly its attribute to exactly its value (`item_ok`); fold over the 16 attributes (`fold_items`).
-/
import PyTRS.Lemmas.RxSplit
import PyTRS.Lemmas.IntRepr
import PyTRS.Lemmas.Cfg
namespace PyTRS
open PyTRS.Config

def safe (ch : Char) : Bool := !(Gen.cs_70d553c2.mem ch) && !(Gen.cs_d66b60d0.mem ch) && !(Gen.cs_0fef72f1.mem ch)

theorem wf_cases (a : String) (v : CV) (hw : wellFormedEntry (a, v) = true) :
    (isBoolAttr a.toList = true ∧ ∃ b, v = .b b) ∨
    (isBoolAttr a.toList = false ∧ a ∈ Gen.INT_TYPE_ATTRIBUTES ∧ ∃ n, v = .i n) ∨
    (a = "default_ns" ∧ (v = .s (S "n") ∨ v = .s (S "s"))) ∨
    (a = "default_ew" ∧ (v = .s (S "e") ∨ v = .s (S "w"))) ∨
    (a = "layout" ∧ ∃ t, v = .s t ∧ inStrs Gen.IMPLEMENTED_LAYOUTS t = true) := by
  unfold wellFormedEntry at hw
  simp only at hw
  split at hw
  · next hb =>
    left; refine ⟨hb, ?_⟩
    cases v <;> simp_all
  · next hb =>
    right
    split at hw
    · next hi =>
      left
      refine ⟨by simpa using hb, by simpa using hi, ?_⟩
      cases v <;> simp_all
    · right
      split at hw
      · next h1 =>
        left
        refine ⟨by simpa using h1, ?_⟩
        cases v <;> simp_all
      · right
        split at hw
        · next h1 =>
          left
          refine ⟨by simpa using h1, ?_⟩
          cases v <;> simp_all
        · right
          split at hw
          · next h1 =>
            refine ⟨by simpa using h1, ?_⟩
            cases v <;> simp_all
          · exact absurd hw (by simp)

theorem intToStr_chars (n : Int) : ∀ c ∈ intToStr n, c.toNat = 45 ∨ (48 ≤ c.toNat ∧ c.toNat ≤ 57) := by
  have hd : ∀ m, ∀ c ∈ natToStr m, 48 ≤ c.toNat ∧ c.toNat ≤ 57 := by
    intro m c hc
    have := natToStr_digits m c hc
    simp only [Char.le_def] at this
    exact this
  intro c hc
  cases n with
  | ofNat m => rw [intToStr_ofNat] at hc; exact Or.inr (hd m c hc)
  | negSucc m =>
    rw [intToStr_negSucc] at hc
    rcases List.mem_cons.1 hc with h | h
    · left; rw [h]; rfl
    · exact Or.inr (hd _ c h)

theorem intToStr_safe (n : Int) : ∀ c ∈ intToStr n, safe c = true := by
  intro c hc
  have := intToStr_chars n c hc
  simp [safe, CharSet.mem, Gen.cs_0fef72f1, Gen.cs_d66b60d0, Gen.cs_70d553c2]
  omega

theorem intToStr_ne_nil (n : Int) : intToStr n ≠ [] := by
  cases n with
  | ofNat m => rw [intToStr_ofNat]; exact natToStr_ne_nil m
  | negSucc m => rw [intToStr_negSucc]; simp

theorem safe_all (ch : Char) (h : safe ch = true) :
    Gen.cs_b6b44b25.mem ch = false ∧ Gen.cs_0fef72f1.mem ch = false ∧ Gen.cs_d66b60d0.mem ch = false ∧ Gen.cs_70d553c2.mem ch = false := by
  simp [safe, CharSet.mem, Gen.cs_b6b44b25, Gen.cs_0fef72f1, Gen.cs_d66b60d0, Gen.cs_70d553c2] at h ⊢
  omega

theorem T1 : ∀ a ∈ Gen.CONFIG_ATTRIBUTES, (∀ ch ∈ a.toList, safe ch = true) ∧ isCfgAttr a.toList = true ∧ a.toList ≠ [] := by decide
theorem T2 : ∀ a ∈ Gen.IMPLEMENTED_LAYOUTS, (∀ ch ∈ a.toList, safe ch = true) ∧ strToValue a.toList = some (.s a.toList) ∧ a.toList ≠ [] := by decide
theorem T3 : ∀ a ∈ Gen.LEGAL_NS ++ Gen.LEGAL_EW, (∀ ch ∈ a.toList, safe ch = true) := by decide
theorem T6 : ∀ a ∈ Gen.INT_TYPE_ATTRIBUTES, isBoolAttr a.toList = false ∧ (a.toList == S "default_ns") = false ∧
    (a.toList == S "default_ew") = false ∧ (a == "default_ns" || a == "default_ew") = false := by decide

theorem inStrs_mem (l : List String) (s : Str) (h : inStrs l s = true) : ∃ x ∈ l, x.toList = s := by
  simpa [inStrs] using h

/-- a line containing a '.' is none of the bare words -/
theorem inStrs_dot (pre post : Str) :
    inStrs Gen.LEGAL_NS (pre ++ '.' :: post) = false ∧ inStrs Gen.LEGAL_EW (pre ++ '.' :: post) = false ∧
    inStrs Gen.IMPLEMENTED_LAYOUTS (pre ++ '.' :: post) = false := by
  have hdot : safe '.' = false := by decide
  refine ⟨?_, ?_, ?_⟩ <;> (apply Bool.eq_false_iff.2; intro h; obtain ⟨x, hx, hxe⟩ := inStrs_mem _ _ h)
  · have := T3 x (by simp [hx]) '.' (by simp [hxe])
    simp [hdot] at this
  · have := T3 x (by simp [hx]) '.' (by simp [hxe])
    simp [hdot] at this
  · have := (T2 x hx).1 '.' (by simp [hxe])
    simp [hdot] at this

theorem split2 (name : Str) (hn : ∀ ch ∈ name, safe ch = true) :
    Gen.inl_config_Config__text_to_attributes_2.split name = [name] ∧
    Gen.inl_config_Config__set_str_to_values_0.split name = [name] := by
  unfold Gen.inl_config_Config__text_to_attributes_2 Gen.inl_config_Config__set_str_to_values_0
  rw [split_chr, split_chr]
  exact ⟨splitAt_none _ _ (fun x hx => (safe_all x (hn x hx)).1), splitAt_none _ _ (fun x hx => (safe_all x (hn x hx)).2.1)⟩

theorem split2_dot (name val : Str) (hn : ∀ ch ∈ name, safe ch = true) (hv : ∀ ch ∈ val, safe ch = true) :
    Gen.inl_config_Config__text_to_attributes_2.split (name ++ '.' :: val) = [name, val] ∧
    Gen.inl_config_Config__set_str_to_values_0.split (name ++ '.' :: val) = [name, val] := by
  unfold Gen.inl_config_Config__text_to_attributes_2 Gen.inl_config_Config__set_str_to_values_0
  rw [split_chr, split_chr]
  rw [splitAt_append_sep _ _ _ _ (fun x hx => (safe_all x (hn x hx)).1) (by decide),
    splitAt_append_sep _ _ _ _ (fun x hx => (safe_all x (hn x hx)).2.1) (by decide),
    splitAt_none _ _ (fun x hx => (safe_all x (hv x hx)).1), splitAt_none _ _ (fun x hx => (safe_all x (hv x hx)).2.1)]
  exact ⟨rfl, rfl⟩

theorem strToValue_int (n : Int) : strToValue (intToStr n) = some (.i n) := by
  have h : ∀ s : Str, (∃ c ∈ s, ¬ (c.toNat = 45 ∨ (48 ≤ c.toNat ∧ c.toNat ≤ 57))) → (intToStr n == s) = false := by
    intro s ⟨c, hc, hcn⟩
    apply Bool.eq_false_iff.2
    intro he
    have : intToStr n = s := by simpa using he
    exact hcn (intToStr_chars n c (this ▸ hc))
  unfold strToValue
  rw [h (S "None") ⟨'N', by decide, by decide⟩, h (S "True") ⟨'T', by decide, by decide⟩,
    h (S "False") ⟨'F', by decide, by decide⟩, pyInt_intToStr]
  rfl

theorem item_bool (acc : Cfg) (a : String) (b : Bool) (ha : a ∈ Gen.CONFIG_ATTRIBUTES) (hb : isBoolAttr a.toList = true) :
    ofTextLine acc (attribAndValToStr a (some (.b b))) = .ok (acc.set a (.b b)) := by
  obtain ⟨hs, hc, hne⟩ := T1 a ha
  cases b with
  | true =>
    have hl : attribAndValToStr a (some (.b true)) = a.toList := by simp [attribAndValToStr, hb, cvTruthy]
    rw [hl]
    unfold ofTextLine
    have := split2 a.toList hs
    simp [this.1, hb, hne, setStrToValues, splitAttrVal, this.2, hc, valueFor]
  | false =>
    have hl : attribAndValToStr a (some (.b false)) = a.toList ++ '.' :: S "False" := by
      simp [attribAndValToStr, hb, cvTruthy, cvFormat, S]
    rw [hl]
    unfold ofTextLine
    have := split2_dot a.toList (S "False") hs (by decide)
    simp [this.1, hb, hne, setStrToValues, splitAttrVal, this.2, hc, valueFor,
      show strToValue (S "False") = some (.b false) by decide]

theorem item_dot (acc : Cfg) (a : String) (v : CV) (ha : a ∈ Gen.CONFIG_ATTRIBUTES)
    (hb : isBoolAttr a.toList = false) (h1 : (a.toList == S "default_ns") = false)
    (h2 : (a.toList == S "default_ew") = false) (h3 : (a == "default_ns" || a == "default_ew") = false)
    (hvs : ∀ ch ∈ cvFormat v, safe ch = true) (hv : strToValue (cvFormat v) = some v) :
    attribAndValToStr a (some v) = a.toList ++ '.' :: cvFormat v ∧
    ofTextLine acc (attribAndValToStr a (some v)) = .ok (acc.set a v) := by
  obtain ⟨hs, hc, hne⟩ := T1 a ha
  have hl : attribAndValToStr a (some v) = a.toList ++ '.' :: cvFormat v := by
    simp [attribAndValToStr, hb, S, h3]
  refine ⟨hl, ?_⟩
  rw [hl]
  unfold ofTextLine
  have := split2_dot a.toList (cvFormat v) hs hvs
  have hd := inStrs_dot a.toList (cvFormat v)
  simp [this.1, hb, hne, setStrToValues, splitAttrVal, this.2, hc, valueFor, hd.1, hd.2.1, hd.2.2, h1, h2, hv]

theorem item_int (acc : Cfg) (a : String) (n : Int) (ha : a ∈ Gen.CONFIG_ATTRIBUTES) (hi : a ∈ Gen.INT_TYPE_ATTRIBUTES) :
    attribAndValToStr a (some (.i n)) = a.toList ++ '.' :: intToStr n ∧
    ofTextLine acc (attribAndValToStr a (some (.i n))) = .ok (acc.set a (.i n)) := by
  obtain ⟨hb, h1, h2, h3⟩ := T6 a hi
  exact item_dot acc a (.i n) ha hb h1 h2 h3 (intToStr_safe n) (strToValue_int n)

theorem item_layout (acc : Cfg) (t : Str) (ht : inStrs Gen.IMPLEMENTED_LAYOUTS t = true) :
    attribAndValToStr "layout" (some (.s t)) = "layout".toList ++ '.' :: t ∧
    ofTextLine acc (attribAndValToStr "layout" (some (.s t))) = .ok (acc.set "layout" (.s t)) := by
  obtain ⟨x, hx, rfl⟩ := inStrs_mem _ _ ht
  obtain ⟨hxs, hxv, hxne⟩ := T2 x hx
  exact item_dot acc "layout" (.s x.toList) (by decide) (by decide) (by decide) (by decide) (by decide) hxs hxv

theorem item_ns (acc : Cfg) (t : Str) (ht : t = S "n" ∨ t = S "s") :
    attribAndValToStr "default_ns" (some (.s t)) = t ∧ ofTextLine acc t = .ok (acc.set "default_ns" (.s t)) := by
  rcases ht with rfl | rfl
  · refine ⟨by decide, ?_⟩
    unfold ofTextLine
    have := split2 (S "n") (by decide)
    simp only [this.1]
    simp [show isBoolAttr (S "n") = false by decide, show inStrs Gen.LEGAL_NS (S "n") = true by decide, show S "n" ≠ [] by decide]
  · refine ⟨by decide, ?_⟩
    unfold ofTextLine
    have := split2 (S "s") (by decide)
    simp only [this.1]
    simp [show isBoolAttr (S "s") = false by decide, show inStrs Gen.LEGAL_NS (S "s") = true by decide, show S "s" ≠ [] by decide]

theorem item_ew (acc : Cfg) (t : Str) (ht : t = S "e" ∨ t = S "w") :
    attribAndValToStr "default_ew" (some (.s t)) = t ∧ ofTextLine acc t = .ok (acc.set "default_ew" (.s t)) := by
  rcases ht with rfl | rfl
  · refine ⟨by decide, ?_⟩
    unfold ofTextLine
    have := split2 (S "e") (by decide)
    simp only [this.1]
    simp [show isBoolAttr (S "e") = false by decide, show inStrs Gen.LEGAL_NS (S "e") = false by decide,
      show inStrs Gen.LEGAL_EW (S "e") = true by decide, show S "e" ≠ [] by decide]
  · refine ⟨by decide, ?_⟩
    unfold ofTextLine
    have := split2 (S "w") (by decide)
    simp only [this.1]
    simp [show isBoolAttr (S "w") = false by decide, show inStrs Gen.LEGAL_NS (S "w") = false by decide,
      show inStrs Gen.LEGAL_EW (S "w") = true by decide, show S "w" ≠ [] by decide]

/-- the characters removed / split at by `textItems` -/
def sep0 (ch : Char) : Bool := Gen.cs_70d553c2.mem ch || Gen.cs_d66b60d0.mem ch

theorem safe_sep0 (ch : Char) (h : safe ch = true) : sep0 ch = false := by
  have := safe_all ch h
  simp [sep0, this]

theorem item_ok (acc : Cfg) (a : String) (v : CV) (ha : a ∈ Gen.CONFIG_ATTRIBUTES) (hw : wellFormedEntry (a, v) = true) :
    attribAndValToStr a (some v) ≠ [] ∧ (∀ ch ∈ attribAndValToStr a (some v), sep0 ch = false) ∧
    ofTextLine acc (attribAndValToStr a (some v)) = .ok (acc.set a v) := by
  obtain ⟨hs, hc, hne⟩ := T1 a ha
  have hdot : sep0 '.' = false := by decide
  have hdotline : ∀ val : Str, (∀ ch ∈ val, safe ch = true) →
      a.toList ++ '.' :: val ≠ [] ∧ ∀ ch ∈ a.toList ++ '.' :: val, sep0 ch = false := by
    intro val hval
    refine ⟨by simp, ?_⟩
    intro ch hch
    rcases List.mem_append.1 hch with h | h
    · exact safe_sep0 ch (hs ch h)
    · rcases List.mem_cons.1 h with h | h
      · rw [h]; exact hdot
      · exact safe_sep0 ch (hval ch h)
  rcases wf_cases a v hw with ⟨hb, b, rfl⟩ | ⟨hb, hi, n, rfl⟩ | ⟨rfl, hv⟩ | ⟨rfl, hv⟩ | ⟨rfl, t, rfl, ht⟩
  · refine ⟨?_, ?_, item_bool acc a b ha hb⟩
    all_goals cases b
    · have hl : attribAndValToStr a (some (.b false)) = a.toList ++ '.' :: S "False" := by
        simp [attribAndValToStr, hb, cvTruthy, cvFormat, S]
      rw [hl]; exact (hdotline _ (by decide)).1
    · have hl : attribAndValToStr a (some (.b true)) = a.toList := by simp [attribAndValToStr, hb, cvTruthy]
      rw [hl]; exact hne
    · have hl : attribAndValToStr a (some (.b false)) = a.toList ++ '.' :: S "False" := by
        simp [attribAndValToStr, hb, cvTruthy, cvFormat, S]
      rw [hl]; exact (hdotline _ (by decide)).2
    · have hl : attribAndValToStr a (some (.b true)) = a.toList := by simp [attribAndValToStr, hb, cvTruthy]
      rw [hl]; exact fun ch hch => safe_sep0 ch (hs ch hch)
  · obtain ⟨hl, hof⟩ := item_int acc a n ha hi
    refine ⟨?_, ?_, hof⟩
    · rw [hl]; exact (hdotline _ (intToStr_safe n)).1
    · rw [hl]; exact (hdotline _ (intToStr_safe n)).2
  · have hv' : ∃ t, v = .s t ∧ (t = S "n" ∨ t = S "s") := by
      rcases hv with h | h <;> exact ⟨_, h, by simp⟩
    obtain ⟨t, rfl, ht⟩ := hv'
    obtain ⟨hl, hof⟩ := item_ns acc t ht
    rw [hl]
    refine ⟨?_, ?_, hof⟩
    · rcases ht with rfl | rfl <;> decide
    · rcases ht with rfl | rfl <;> decide
  · have hv' : ∃ t, v = .s t ∧ (t = S "e" ∨ t = S "w") := by
      rcases hv with h | h <;> exact ⟨_, h, by simp⟩
    obtain ⟨t, rfl, ht⟩ := hv'
    obtain ⟨hl, hof⟩ := item_ew acc t ht
    rw [hl]
    refine ⟨?_, ?_, hof⟩
    · rcases ht with rfl | rfl <;> decide
    · rcases ht with rfl | rfl <;> decide
  · obtain ⟨hl, hof⟩ := item_layout acc t ht
    obtain ⟨x, hx, rfl⟩ := inStrs_mem _ _ ht
    refine ⟨?_, ?_, hof⟩
    · rw [hl]; exact (hdotline _ (T2 x hx).1).1
    · rw [hl]; exact (hdotline _ (T2 x hx).1).2

/-- every entry is a documented setting with a value of its documented type -/
def CfgWF (c : Cfg) : Prop := ∀ e ∈ c, wellFormedEntry e = true

theorem get_wf (c : Cfg) (h : CfgWF c) (a : String) (v : CV) (hg : c.get a = some v) : wellFormedEntry (a, v) = true := by
  unfold Cfg.get at hg
  cases hf : c.find? (fun e => e.1 == a) with
  | none => simp [hf] at hg
  | some e =>
    simp [hf] at hg
    have h1 := List.find?_some hf
    have h2 := List.mem_of_find?_eq_some hf
    have : e = (a, v) := by
      obtain ⟨k, x⟩ := e
      simp at h1 hg
      simp [h1, hg]
    rw [← this]; exact h e h2

/-- the items of `toText c` for the attributes in `L` -/
def itemsOf (c : Cfg) (L : List String) : List Str :=
  (L.map (fun a => attribAndValToStr a (c.get a))).filter (fun w => !w.isEmpty)

theorem itemsOf_cons_none (c : Cfg) (a : String) (L : List String) (h : c.get a = none) :
    itemsOf c (a :: L) = itemsOf c L := by
  simp [itemsOf, h, attribAndValToStr]

theorem itemsOf_cons_some (c : Cfg) (a : String) (L : List String) (v : CV) (h : c.get a = some v)
    (hne : attribAndValToStr a (some v) ≠ []) :
    itemsOf c (a :: L) = attribAndValToStr a (some v) :: itemsOf c L := by
  simp [itemsOf, h, hne]

theorem itemsOf_chars (c : Cfg) (h : CfgWF c) (L : List String) (hL : ∀ a ∈ L, a ∈ Gen.CONFIG_ATTRIBUTES) :
    ∀ w ∈ itemsOf c L, ∀ ch ∈ w, sep0 ch = false := by
  induction L with
  | nil => simp [itemsOf]
  | cons a L ih =>
    have ih := ih (fun b hb => hL b (by simp [hb]))
    cases hg : c.get a with
    | none => rw [itemsOf_cons_none c a L hg]; exact ih
    | some v =>
      obtain ⟨hne, hch, _⟩ := item_ok [] a v (hL a (by simp)) (get_wf c h a v hg)
      rw [itemsOf_cons_some c a L v hg hne]
      intro w hw
      rcases List.mem_cons.1 hw with rfl | hw
      · exact hch
      · exact ih w hw

theorem fold_items (c : Cfg) (h : CfgWF c) (L : List String) (hL : ∀ a ∈ L, a ∈ Gen.CONFIG_ATTRIBUTES) :
    ∀ acc : Cfg, ∃ acc', ofTextLines acc (itemsOf c L) = .ok acc' ∧
      ∀ b, acc'.get b = if b ∈ L then (c.get b).or (acc.get b) else acc.get b := by
  induction L with
  | nil => intro acc; exact ⟨acc, by simp [itemsOf, ofTextLines], by simp⟩
  | cons a L ih =>
    have ih := ih (fun b hb => hL b (by simp [hb]))
    intro acc
    cases hg : c.get a with
    | none =>
      obtain ⟨acc', h1, h2⟩ := ih acc
      refine ⟨acc', by rw [itemsOf_cons_none c a L hg]; exact h1, ?_⟩
      intro b
      rw [h2 b]
      by_cases hba : b = a
      · subst hba; simp [hg]
      · simp [hba]
    | some v =>
      obtain ⟨hne, _, hof⟩ := item_ok acc a v (hL a (by simp)) (get_wf c h a v hg)
      obtain ⟨acc', h1, h2⟩ := ih (acc.set a v)
      refine ⟨acc', ?_, ?_⟩
      · rw [itemsOf_cons_some c a L v hg hne, ofTextLines, hof]; exact h1
      · intro b
        rw [h2 b]
        by_cases hba : b = a
        · subst hba; simp [hg, get_set_eq]
        · have : a ≠ b := fun h => hba h.symm
          simp [hba, get_set_ne _ _ _ _ this]

theorem pyJoin_eq (parts : List Str) : pyJoin (S ",") parts = pyJoinChar ',' parts := by
  induction parts with
  | nil => rfl
  | cons a rest ih =>
    cases rest with
    | nil => rfl
    | cons b rest => 
      rw [pyJoin, pyJoinChar, ih]
      · simp [S]
      · simp

theorem mem_pyJoinChar (sep : Char) (parts : List Str) (ch : Char) (h : ch ∈ pyJoinChar sep parts) :
    ch = sep ∨ ∃ w ∈ parts, ch ∈ w := by
  induction parts with
  | nil => simp [pyJoinChar] at h
  | cons a rest ih =>
    cases rest with
    | nil => exact Or.inr ⟨a, by simp, by simpa [pyJoinChar] using h⟩
    | cons b rest =>
      rw [pyJoinChar] at h
      rcases List.mem_append.1 h with h | h
      · exact Or.inr ⟨a, by simp, h⟩
      · rcases List.mem_cons.1 h with h | h
        · exact Or.inl h
        · rcases ih h with h | ⟨w, hw, hc⟩
          · exact Or.inl h
          · exact Or.inr ⟨w, by simp [hw], hc⟩

theorem textItems_eq (text : Str) :
    textItems text = splitAt Gen.cs_d66b60d0.mem (text.filter (fun c => !Gen.cs_70d553c2.mem c)) := by
  unfold textItems
  -- robust against the equivalent spellings `\s*` / `\s+` / `\s` of the white-space deleter (`constructor` finds the spelling)
  have hdel : DeletesClass Gen.cs_70d553c2 Gen.inl_config_Config__text_to_attributes_0 := by constructor
  rw [hdel.sub_nil]
  unfold Gen.inl_config_Config__text_to_attributes_1
  rw [split_chr]

theorem textItems_join (parts : List Str) (hne : parts ≠ []) (hp : ∀ w ∈ parts, ∀ ch ∈ w, sep0 ch = false) :
    textItems (pyJoin (S ",") parts) = parts := by
  rw [textItems_eq, pyJoin_eq]
  have hf : (pyJoinChar ',' parts).filter (fun c => !Gen.cs_70d553c2.mem c) = pyJoinChar ',' parts := by
    apply List.filter_eq_self.2
    intro ch hch
    rcases mem_pyJoinChar _ _ _ hch with rfl | ⟨w, hw, hc⟩
    · decide
    · have := hp w hw ch hc
      simp [sep0] at this
      simp [this.1]
  rw [hf]
  apply splitAt_join _ _ _ (by decide) _ hne
  intro w hw ch hc
  have := hp w hw ch hc
  simp [sep0] at this
  exact this.2

theorem toText_eq (c : Cfg) : toText c = pyJoin (S ",") (itemsOf c Gen.CONFIG_ATTRIBUTES) := rfl

theorem ofText_toText (c : Cfg) (h : CfgWF c) :
    ∃ c', ofText (toText c) = .ok c' ∧ ∀ b ∈ Gen.CONFIG_ATTRIBUTES, c'.get b = c.get b := by
  obtain ⟨acc', h1, h2⟩ := fold_items c h Gen.CONFIG_ATTRIBUTES (fun a ha => ha) []
  refine ⟨acc', ?_, ?_⟩
  · rw [toText_eq]
    unfold ofText
    by_cases hne : itemsOf c Gen.CONFIG_ATTRIBUTES = []
    · rw [hne] at h1 ⊢
      rw [← h1]
      rfl
    · rw [textItems_join _ hne (itemsOf_chars c h _ (fun a ha => ha))]
      exact h1
  · intro b hb
    rw [h2 b]
    simp [hb, Cfg.get]

theorem canon_congr (c c' : Cfg) (h : ∀ b ∈ Gen.CONFIG_ATTRIBUTES, c'.get b = c.get b) : c'.canon = c.canon := by
  unfold Cfg.canon
  generalize Gen.CONFIG_ATTRIBUTES = L at h
  induction L with
  | nil => rfl
  | cons a L ih =>
    rw [List.filterMap_cons, List.filterMap_cons, h a (by simp), ih (fun b hb => h b (by simp [hb]))]

theorem toText_congr (c c' : Cfg) (h : ∀ b ∈ Gen.CONFIG_ATTRIBUTES, c'.get b = c.get b) : toText c' = toText c := by
  unfold toText
  congr 2
  apply List.map_congr_left
  intro a ha
  rw [h a ha]

/-- MAIN: text round trip.  (Compared through `canon`, i.e. as attribute ↦ value maps in the fixed attribute order.) -/
theorem C13_text_roundtrip (c : Cfg) (h : CfgWF c) : (ofText (toText c)).map Cfg.canon = .ok c.canon := by
  obtain ⟨c', h1, h2⟩ := ofText_toText c h
  rw [h1, ← canon_congr c c' h2]
  rfl

/-- in particular the text of a well-formed configuration is always accepted -/
theorem C13_toText_accepted (c : Cfg) (h : CfgWF c) : ∃ c', ofText (toText c) = .ok c' := by
  obtain ⟨c', h1, _⟩ := ofText_toText c h
  exact ⟨c', h1⟩

/-- and converting twice is stable: the text is a canonical form -/
theorem C13_toText_canonical (c c' : Cfg) (h : CfgWF c) (h' : ofText (toText c) = .ok c') : toText c' = toText c := by
  obtain ⟨c'', h1, h2⟩ := ofText_toText c h
  rw [h1] at h'
  have he : c'' = c' := by injection h'
  rw [← he]
  exact toText_congr c c'' h2

#print axioms C13_text_roundtrip
#print axioms C13_toText_accepted
#print axioms C13_toText_canonical

end PyTRS
