/-
Helper lemmas about the ChunkParser staging functions.
-/
import PyTRS.Model.Plss
namespace PyTRS.Plss

@[simp] theorem addE_comps (c : Chunk) (f x : Str) : (addE c f x).comps = c.comps := rfl
@[simp] theorem addE_unused (c : Chunk) (f x : Str) : (addE c f x).unused = c.unused := rfl
@[simp] theorem addE_secList (c : Chunk) (f x : Str) : (addE c f x).secList = c.secList := rfl
@[simp] theorem addE_trList (c : Chunk) (f x : Str) : (addE c f x).trList = c.trList := rfl
@[simp] theorem addE_workingSec (c : Chunk) (f x : Str) : (addE c f x).workingSec = c.workingSec := rfl
@[simp] theorem addE_workingTR (c : Chunk) (f x : Str) : (addE c f x).workingTR = c.workingTR := rfl

@[simp] theorem flagUnusedSec_secList (c : Chunk) : (flagUnusedSec c).secList = c.secList := by
  unfold flagUnusedSec; split
  · split <;> rfl
  · rfl

@[simp] theorem flagUnusedSec_comps (c : Chunk) : (flagUnusedSec c).comps = c.comps := by
  unfold flagUnusedSec; split
  · split <;> rfl
  · rfl

@[simp] theorem flagUnusedSec_unused (c : Chunk) : (flagUnusedSec c).unused = c.unused := by
  unfold flagUnusedSec; split
  · split <;> rfl
  · rfl

@[simp] theorem flagUnusedSec_trList (c : Chunk) : (flagUnusedSec c).trList = c.trList := by
  unfold flagUnusedSec; split
  · split <;> rfl
  · rfl

@[simp] theorem flagUnusedSec_workingTR (c : Chunk) : (flagUnusedSec c).workingTR = c.workingTR := by
  unfold flagUnusedSec; split
  · split <;> rfl
  · rfl

@[simp] theorem flagUnusedSec_workingSec (c : Chunk) : (flagUnusedSec c).workingSec = c.workingSec := by
  unfold flagUnusedSec; split
  · split <;> rfl
  · rfl

@[simp] theorem flagUnusedSec_lastSecUsed (c : Chunk) : (flagUnusedSec c).lastSecUsed = c.lastSecUsed := by
  unfold flagUnusedSec; split
  · split <;> rfl
  · rfl

@[simp] theorem flagUnusedSec_lastTRUsed (c : Chunk) : (flagUnusedSec c).lastTRUsed = c.lastTRUsed := by
  unfold flagUnusedSec; split
  · split <;> rfl
  · rfl

@[simp] theorem flagUnusedTR_secList (c : Chunk) : (flagUnusedTR c).secList = c.secList := by
  unfold flagUnusedTR; split
  · split <;> rfl
  · rfl

@[simp] theorem flagUnusedTR_comps (c : Chunk) : (flagUnusedTR c).comps = c.comps := by
  unfold flagUnusedTR; split
  · split <;> rfl
  · rfl

@[simp] theorem flagUnusedTR_unused (c : Chunk) : (flagUnusedTR c).unused = c.unused := by
  unfold flagUnusedTR; split
  · split <;> rfl
  · rfl

@[simp] theorem flagUnusedTR_trList (c : Chunk) : (flagUnusedTR c).trList = c.trList := by
  unfold flagUnusedTR; split
  · split <;> rfl
  · rfl

@[simp] theorem flagUnusedTR_workingTR (c : Chunk) : (flagUnusedTR c).workingTR = c.workingTR := by
  unfold flagUnusedTR; split
  · split <;> rfl
  · rfl

@[simp] theorem flagUnusedTR_workingSec (c : Chunk) : (flagUnusedTR c).workingSec = c.workingSec := by
  unfold flagUnusedTR; split
  · split <;> rfl
  · rfl

@[simp] theorem flagUnusedTR_lastSecUsed (c : Chunk) : (flagUnusedTR c).lastSecUsed = c.lastSecUsed := by
  unfold flagUnusedTR; split
  · split <;> rfl
  · rfl

@[simp] theorem flagUnusedTR_lastTRUsed (c : Chunk) : (flagUnusedTR c).lastTRUsed = c.lastTRUsed := by
  unfold flagUnusedTR; split
  · split <;> rfl
  · rfl

@[simp] theorem getNextSec_comps (c : Chunk) : (getNextSec c).comps = c.comps := by
  unfold getNextSec; simp only []; split <;> simp

@[simp] theorem getNextSec_unused (c : Chunk) : (getNextSec c).unused = c.unused := by
  unfold getNextSec; simp only []; split <;> simp

@[simp] theorem getNextTwprge_comps (c : Chunk) : (getNextTwprge c).comps = c.comps := by
  unfold getNextTwprge; simp only []; split <;> simp

@[simp] theorem getNextTwprge_unused (c : Chunk) : (getNextTwprge c).unused = c.unused := by
  unfold getNextTwprge; simp only []; split <;> simp

/-- after `get_next_sec` a section list is always staged: the next one from the working list, or the error section -/
theorem getNextSec_workingSec (c : Chunk) :
    (getNextSec c).workingSec = some (match c.secList with | s :: _ => s | [] => [ERR_SEC]) := by
  unfold getNextSec
  simp only [flagUnusedSec_secList]
  cases c.secList <;> rfl

theorem getNextTwprge_workingTR (c : Chunk) :
    (getNextTwprge c).workingTR = some (match c.trList with | t :: _ => t | [] => ERR_TWPRGE) := by
  unfold getNextTwprge
  simp only [flagUnusedTR_trList]
  cases c.trList <;> rfl

@[simp] theorem stage_comps (c : Chunk) (d : Str) (s : Option (List Str)) (t : Option Str) :
    (stage c d s t).comps = c.comps ++ [{ desc := d, sec := s, twprge := t }] := rfl

end PyTRS.Plss
