/-
Specification of `filter_duplicates` (`Cont.filterDuplicates`), of nested grouping (`Cont.groupByMulti`) and some
export facts.
-/
import PyTRS.Model.Containers
import PyTRS.Model.Export
import PyTRS.Lemmas.Filter
import PyTRS.Props.C18

set_option linter.unusedSectionVars false
set_option linter.unusedVariables false
set_option linter.unusedSimpArgs false
namespace PyTRS
open PyTRS.Cont

/-! ## Part 0: `UKey` has a lawful equality -/

theorem UKey.beq_obj (a b : Nat) : (UKey.obj a == UKey.obj b) = (a == b) := rfl
theorem UKey.beq_trsObj (a b : Str) : (UKey.trsObj a == UKey.trsObj b) = (a == b) := rfl
theorem UKey.beq_str (a b : Str) : (UKey.str a == UKey.str b) = (a == b) := rfl

instance : LawfulBEq UKey where
  eq_of_beq := by
    intro a b h
    cases a <;> cases b <;> first
      | (simp only [UKey.beq_obj, UKey.beq_trsObj, UKey.beq_str] at h; simp at h; subst h; rfl)
      | (exact Bool.noConfusion (show false = true from h))
  rfl := by
    intro a
    cases a <;> simp [UKey.beq_obj, UKey.beq_trsObj, UKey.beq_str]

instance : DecidableEq UKey := fun a b => decidable_of_iff ((a == b) = true) (by simp)

/-! ## Part 1: `filter_duplicates`

### picking elements by position -/

/-- the elements of `l` at the positions satisfying `q`, in order -/
def pickIdx {α} : List α → (Nat → Bool) → List α
  | [], _ => []
  | x :: l, q => (if q 0 then [x] else []) ++ pickIdx l (fun i => q (i + 1))

theorem idxFilter_succ (n : Nat) (q : Nat → Bool) :
    (List.range (n + 1)).filter q
      = (if q 0 then [0] else []) ++ ((List.range n).filter (fun i => q (i + 1))).map (· + 1) := by
  rw [List.range_succ_eq_map, List.filter_cons, List.filter_map]
  have : (q ∘ Nat.succ) = fun i => q (i + 1) := rfl
  rw [this]
  by_cases h : q 0 = true <;> simp [h]

/-- `pickIdx` in closed form: look up the selected positions, in increasing order -/
theorem pickIdx_eq {α} (l : List α) (q : Nat → Bool) :
    pickIdx l q = ((List.range l.length).filter q).filterMap (fun i => l[i]?) := by
  induction l generalizing q with
  | nil => simp [pickIdx]
  | cons x l ih =>
    rw [pickIdx, ih, List.length_cons, idxFilter_succ, List.filterMap_append, List.filterMap_map]
    congr 1
    by_cases h : q 0 = true <;> simp [h]

theorem mem_pickIdx {α} (l : List α) (q : Nat → Bool) (x : α) :
    x ∈ pickIdx l q ↔ ∃ i, ∃ h : i < l.length, q i = true ∧ l[i] = x := by
  rw [pickIdx_eq]
  simp only [List.mem_filterMap, List.mem_filter, List.mem_range]
  constructor
  · rintro ⟨i, ⟨hi, hq⟩, hx⟩
    rw [List.getElem?_eq_getElem hi] at hx
    exact ⟨i, hi, hq, by simpa using hx⟩
  · rintro ⟨i, hi, hq, hx⟩
    exact ⟨i, ⟨hi, hq⟩, by rw [List.getElem?_eq_getElem hi, hx]⟩

theorem pickIdx_sublist {α} (l : List α) (q : Nat → Bool) : (pickIdx l q).Sublist l := by
  induction l generalizing q with
  | nil => simp [pickIdx]
  | cons x l ih =>
    rw [pickIdx]
    by_cases h : q 0 = true
    · simpa [h] using (ih _)
    · simpa [h] using (ih _).cons x

theorem pickIdx_perm {α} (l : List α) (q : Nat → Bool) :
    (pickIdx l q ++ pickIdx l (fun i => !q i)).Perm l := by
  induction l generalizing q with
  | nil => simp [pickIdx]
  | cons x l ih =>
    rw [pickIdx, pickIdx]
    by_cases h : q 0 = true
    · simpa [h] using ih _
    · simp only [h, Bool.false_eq_true, ↓reduceIte, List.nil_append, Bool.not_false, List.singleton_append]
      exact (List.perm_middle).trans ((ih _).cons x)

/-- positions chosen by a predicate on the element: `pickIdx` is `filter` -/
theorem pickIdx_elem {α} (l : List α) (p : α → Bool) :
    pickIdx l (fun i => (l[i]?.map p).getD false) = l.filter p := by
  suffices h : ∀ (l : List α) (q : Nat → Bool), (∀ i (h : i < l.length), q i = p l[i]) → pickIdx l q = l.filter p by
    apply h
    intro i hi
    simp [List.getElem?_eq_getElem hi]
  intro l
  induction l with
  | nil => intro q _; simp [pickIdx]
  | cons x l ih =>
    intro q hq
    rw [pickIdx, ih _ (fun i hi => (hq (i + 1) (by simpa using hi)).trans (by simp))]
    have h0 : q 0 = p x := (hq 0 (by simp)).trans (by simp)
    rw [h0, List.filter_cons]
    by_cases h : p x = true <;> simp [h]

/-- `_new_list_from_self` on an increasing list of positions given by a predicate on positions -/
theorem newListFromSelf_go_idx {α} (drop : Bool) (l : List α) (q : Nat → Bool) (acc : List α) :
    newListFromSelf.go drop ((List.range l.length).filter q).reverse l acc
      = (pickIdx l q ++ acc.reverse, if drop then pickIdx l (fun i => !q i) else l) := by
  induction l generalizing q acc with
  | nil => simp [newListFromSelf.go, pickIdx]
  | cons x l ih =>
    rw [List.length_cons, idxFilter_succ, List.reverse_append, ← List.map_reverse, newListFromSelf_go_shift, ih,
      pickIdx, pickIdx]
    by_cases hx : q 0 = true
    · cases drop <;> simp [hx, newListFromSelf.go]
    · cases drop <;> simp [hx, newListFromSelf.go]

theorem newListFromSelf_idx {α} (drop : Bool) (l : List α) (q : Nat → Bool) :
    newListFromSelf l ((List.range l.length).filter q) drop
      = (pickIdx l q, if drop then pickIdx l (fun i => !q i) else l) := by
  simp [newListFromSelf, newListFromSelf_go_idx]

/-! ### the declarative specification -/

/-- the method `filter_duplicates` actually uses: `'default'` is `'trs'` for a TRSList, `'instance'` for a TractList -/
def dupMethod (m : String) (isTRS : Bool) : String :=
  if m == "default" then (if isTRS then "trs" else "instance") else m

def DupLegal (m : String) : Prop := m = "instance" ∨ m = "lots_qqs" ∨ m = "desc" ∨ m = "trs"

instance (m : String) : Decidable (DupLegal m) :=
  inferInstanceAs (Decidable (m = "instance" ∨ m = "lots_qqs" ∨ m = "desc" ∨ m = "trs"))

/-- the derived (string) key an element contributes under a method, besides its instance key:
    * `'instance'`: none;
    * `'lots_qqs'`: `f"{trs}_{sorted(set(lots_qqs))}"` for a parsed Tract, none for an unparsed Tract or a TRS;
    * `'desc'`: `f"{trs}_{pp_desc.strip()}"` for a Tract, the `.trs` string for a TRS;
    * `'trs'`: the `.trs` string. -/
def derivedKey (m : String) (e : Elem) : Option UKey :=
  if m == "instance" then none
  else if m == "lots_qqs" then
    (match e with
     | .tract t => if t.parseComplete then some (.str (t.trs.trs ++ S "_" ++ reprSortedSet (t.lots ++ t.qqs))) else none
     | .trs _ => none)
  else if m == "desc" then
    (match e with
     | .tract t => some (.str (t.trs.trs ++ S "_" ++ pyStrip t.ppDesc))
     | .trs d => some (.str d.trs))
  else some (.str e.d.trs)

/-- all keys of an element: its instance key (object identity of a Tract, `.trs` of a TRS) and its derived key -/
def keysOf (m : String) (e : Elem) : List UKey := e.ukey :: (derivedKey m e).toList

/-- key `k` is carried by some element of `pre` -/
def SeenKey (m : String) (pre : List Elem) (k : UKey) : Prop := ∃ e' ∈ pre, k ∈ keysOf m e'

/-- `e`, coming after the elements `pre`, repeats one of their keys -/
def DupAfter (m : String) (pre : List Elem) (e : Elem) : Prop := ∃ k ∈ keysOf m e, SeenKey m pre k

/-- element `i` of `l` is a duplicate under method `m`: it shares a key with an earlier element -/
def IsDup (m : String) (l : List Elem) (i : Nat) : Prop := ∃ h : i < l.length, DupAfter m (l.take i) l[i]

instance (m : String) (pre : List Elem) (k : UKey) : Decidable (SeenKey m pre k) :=
  inferInstanceAs (Decidable (∃ e' ∈ pre, k ∈ keysOf m e'))
instance (m : String) (pre : List Elem) (e : Elem) : Decidable (DupAfter m pre e) :=
  inferInstanceAs (Decidable (∃ k ∈ keysOf m e, SeenKey m pre k))
instance (m : String) (l : List Elem) (i : Nat) : Decidable (IsDup m l i) :=
  inferInstanceAs (Decidable (∃ h : i < l.length, DupAfter m (l.take i) l[i]))

/-- the same in elementary terms -/
theorem IsDup_iff (m : String) (l : List Elem) (i : Nat) :
    IsDup m l i ↔ ∃ (j : Nat) (hj : j < i) (hi : i < l.length) (k : UKey),
      k ∈ keysOf m l[i] ∧ k ∈ keysOf m (l[j]'(Nat.lt_trans hj hi)) := by
  unfold IsDup DupAfter SeenKey
  constructor
  · rintro ⟨hi, k, hk, e', he', hk'⟩
    obtain ⟨j, hj, rfl⟩ := List.mem_iff_getElem.mp he'
    have hj' : j < i := by
      rw [List.length_take] at hj
      omega
    refine ⟨j, hj', hi, k, hk, ?_⟩
    simpa [List.getElem_take] using hk'
  · rintro ⟨j, hj, hi, k, hk, hk'⟩
    refine ⟨hi, k, hk, l[j], ?_, hk'⟩
    rw [List.mem_take_iff_getElem]
    exact ⟨j, by omega, rfl⟩

/-- the duplicate positions, ascending -/
def dupIdx (m : String) (l : List Elem) : List Nat := (List.range l.length).filter (fun i => decide (IsDup m l i))

theorem mem_dupIdx (m : String) (l : List Elem) (i : Nat) : i ∈ dupIdx m l ↔ IsDup m l i := by
  unfold dupIdx
  simp only [List.mem_filter, List.mem_range, decide_eq_true_eq]
  exact ⟨fun h => h.2, fun h => ⟨h.1, h⟩⟩

theorem dupIdx_pairwise (m : String) (l : List Elem) : (dupIdx m l).Pairwise (· < ·) :=
  List.Pairwise.filter _ List.pairwise_lt_range

/-! ### the model's loop -/

/-- the loop body of `filter_duplicates` (a copy of the local `step` of `Cont.filterDuplicates`) -/
def dupStep (method : String) (st : List UKey × List Nat) (ie : Nat × Elem) : List UKey × List Nat :=
    let (unique, idx) := st
    let (i, e) := ie
    let idx := if unique.contains e.ukey then idx ++ [i] else idx
    let unique := if unique.contains e.ukey then unique else unique ++ [e.ukey]
    if method == "instance" then (unique, idx) else
    let toCheck : Option UKey :=
      if method == "lots_qqs" then
        (match e with
         | .tract t => if t.parseComplete then some (.str (t.trs.trs ++ S "_" ++ reprSortedSet (t.lots ++ t.qqs))) else none
         | .trs _ => none)
      else if method == "desc" then
        (match e with
         | .tract t => some (.str (t.trs.trs ++ S "_" ++ pyStrip t.ppDesc))
         | .trs d => some (.str d.trs))
      else some (.str e.d.trs)
    match toCheck with
    | none => (unique, idx)
    | some k =>
      if !unique.contains k then (unique ++ [k], idx)
      else if !idx.contains i then (unique, idx ++ [i])
      else (unique, idx)

/-- the positions `filter_duplicates` collects -/
def dupLoop (m : String) (l : List Elem) : List UKey × List Nat :=
  (l.zipIdx.map (fun p => (p.2, p.1))).foldl (dupStep m) ([], [])

theorem filterDuplicates_unfold (l : List Elem) (m : String) (isTRS drop : Bool) :
    filterDuplicates l m isTRS drop
      = if !["instance", "lots_qqs", "desc", "trs"].contains (dupMethod m isTRS) then .error .valueError
        else .ok (newListFromSelf l (dupLoop (dupMethod m isTRS) l).2 drop) := by
  rfl

/-- the loop body in terms of `derivedKey` -/
theorem dupStep_eq (m : String) (unique : List UKey) (idx : List Nat) (i : Nat) (e : Elem) :
    dupStep m (unique, idx) (i, e) =
      (match derivedKey m e with
       | none => (if unique.contains e.ukey then unique else unique ++ [e.ukey],
                  if unique.contains e.ukey then idx ++ [i] else idx)
       | some k =>
         if !(if unique.contains e.ukey then unique else unique ++ [e.ukey]).contains k then
           ((if unique.contains e.ukey then unique else unique ++ [e.ukey]) ++ [k],
             if unique.contains e.ukey then idx ++ [i] else idx)
         else if !(if unique.contains e.ukey then idx ++ [i] else idx).contains i then
           (if unique.contains e.ukey then unique else unique ++ [e.ukey],
             (if unique.contains e.ukey then idx ++ [i] else idx) ++ [i])
         else (if unique.contains e.ukey then unique else unique ++ [e.ukey],
               if unique.contains e.ukey then idx ++ [i] else idx)) := by
  unfold dupStep derivedKey
  by_cases h : (m == "instance") = true
  · simp only [h, if_true]
  · simp only [h, Bool.false_eq_true, if_false]

/-- string keys and instance keys never collide -/
theorem derivedKey_ne_ukey (m : String) (e : Elem) (k : UKey) (h : derivedKey m e = some k) (e' : Elem) :
    k ≠ e'.ukey := by
  have hk : ∃ s, k = .str s := by
    unfold derivedKey at h
    split at h
    · cases h
    · split at h
      · split at h
        · split at h
          · exact ⟨_, (Option.some.inj h).symm⟩
          · cases h
        · cases h
      · split at h
        · split at h <;> exact ⟨_, (Option.some.inj h).symm⟩
        · exact ⟨_, (Option.some.inj h).symm⟩
  obtain ⟨s, rfl⟩ := hk
  cases e' <;> simp [Elem.ukey]

theorem seenKey_snoc (m : String) (pre : List Elem) (e : Elem) (k : UKey) :
    SeenKey m (pre ++ [e]) k ↔ SeenKey m pre k ∨ k ∈ keysOf m e := by
  unfold SeenKey
  simp only [List.mem_append, List.mem_singleton]
  constructor
  · rintro ⟨e', he' | rfl, hk⟩
    · exact .inl ⟨e', he', hk⟩
    · exact .inr hk
  · rintro (⟨e', he', hk⟩ | hk)
    · exact ⟨e', .inl he', hk⟩
    · exact ⟨e, .inr rfl, hk⟩

/-- one step of the loop: the `unique` list holds exactly the keys seen so far, and the position is recorded
    exactly when the element repeats one of them -/
theorem dupStep_inv (m : String) (pre : List Elem) (e : Elem) (unique : List UKey) (idx : List Nat)
    (hu : ∀ k, k ∈ unique ↔ SeenKey m pre k) (hidx : ∀ j ∈ idx, j < pre.length) :
    (∀ k, k ∈ (dupStep m (unique, idx) (pre.length, e)).1 ↔ SeenKey m (pre ++ [e]) k) ∧
    (dupStep m (unique, idx) (pre.length, e)).2 = idx ++ (if DupAfter m pre e then [pre.length] else []) := by
  have hni : pre.length ∉ idx := fun h => Nat.lt_irrefl _ (hidx _ h)
  rw [dupStep_eq]
  simp only [List.contains_eq_mem, decide_eq_true_eq, seenKey_snoc]
  cases hd : derivedKey m e with
  | none =>
    have hkeys : keysOf m e = [e.ukey] := by simp [keysOf, hd]
    have hdup : DupAfter m pre e ↔ e.ukey ∈ unique := by
      unfold DupAfter
      simp [hkeys, hu]
    simp only [hkeys, List.mem_singleton, hdup]
    by_cases ha : e.ukey ∈ unique
    · simp only [ha, if_true, and_true]
      intro k
      rw [hu k]
      constructor
      · exact .inl
      · rintro (h | rfl)
        · exact h
        · exact (hu _).mp ha
    · simp only [ha, if_false, List.append_nil, and_true, List.mem_append, List.mem_singleton]
      intro k
      rw [hu k]
  | some k0 =>
    have hkeys : keysOf m e = [e.ukey, k0] := by simp [keysOf, hd]
    have hne : k0 ≠ e.ukey := derivedKey_ne_ukey m e k0 hd e
    have hdup : DupAfter m pre e ↔ (e.ukey ∈ unique ∨ k0 ∈ unique) := by
      unfold DupAfter
      simp [hkeys, hu]
    simp only [hkeys, hdup, List.mem_cons, List.not_mem_nil, or_false]
    by_cases ha : e.ukey ∈ unique <;> by_cases hb : k0 ∈ unique
    · simp only [ha, hb, hne, hni, if_true, if_false, decide_true, decide_false, Bool.not_true, Bool.not_false,
        Bool.false_eq_true, List.mem_append, List.mem_singleton, or_true, true_or, or_false, false_or, and_true,
        List.append_nil, List.append_assoc]
      intro k
      rw [hu k]
      constructor
      · exact .inl
      · rintro (h | rfl | rfl)
        · exact h
        · exact (hu _).mp ha
        · exact (hu _).mp hb
    · simp only [ha, hb, hne, hni, if_true, if_false, decide_true, decide_false, Bool.not_true, Bool.not_false,
        Bool.false_eq_true, List.mem_append, List.mem_singleton, or_true, true_or, or_false, false_or, and_true,
        List.append_nil, List.append_assoc]
      intro k
      rw [hu k]
      constructor
      · rintro (h | rfl)
        · exact .inl h
        · exact .inr (.inr rfl)
      · rintro (h | rfl | rfl)
        · exact .inl h
        · exact .inl ((hu _).mp ha)
        · exact .inr rfl
    · simp only [ha, hb, hne, hni, if_true, if_false, decide_true, decide_false, Bool.not_true, Bool.not_false,
        Bool.false_eq_true, List.mem_append, List.mem_singleton, or_true, true_or, or_false, false_or, and_true,
        List.append_nil, List.append_assoc]
      intro k
      rw [hu k]
      constructor
      · rintro (h | rfl)
        · exact .inl h
        · exact .inr (.inl rfl)
      · rintro (h | rfl | rfl)
        · exact .inl h
        · exact .inr rfl
        · exact .inl ((hu _).mp hb)
    · simp only [ha, hb, hne, hni, if_true, if_false, decide_true, decide_false, Bool.not_true, Bool.not_false,
        Bool.false_eq_true, List.mem_append, List.mem_singleton, or_true, true_or, or_false, false_or, and_true,
        List.append_nil, List.append_assoc]
      intro k
      rw [hu k]

theorem dupLoop_snoc (m : String) (pre : List Elem) (e : Elem) :
    dupLoop m (pre ++ [e]) = dupStep m (dupLoop m pre) (pre.length, e) := by
  unfold dupLoop
  rw [List.zipIdx_append]
  simp [List.foldl_append]

/-- whether position `i` is a duplicate depends only on the elements up to `i` -/
theorem IsDup_append_left (m : String) (l l' : List Elem) (i : Nat) (hi : i < l.length) :
    IsDup m (l ++ l') i ↔ IsDup m l i := by
  unfold IsDup
  have h1 : (l ++ l').take i = l.take i := List.take_append_of_le_length (Nat.le_of_lt hi)
  have hi' : i < (l ++ l').length := by simp; omega
  have h2 : (l ++ l')[i] = l[i] := List.getElem_append_left hi
  constructor
  · rintro ⟨_, h⟩
    exact ⟨hi, by rwa [h1, h2] at h⟩
  · rintro ⟨_, h⟩
    exact ⟨hi', by rwa [h1, h2]⟩

theorem IsDup_snoc_last (m : String) (pre : List Elem) (e : Elem) :
    IsDup m (pre ++ [e]) pre.length ↔ DupAfter m pre e := by
  unfold IsDup
  have h1 : (pre ++ [e]).take pre.length = pre := by simp
  have h2 : ∀ h, (pre ++ [e])[pre.length]'h = e := by intro h; simp
  constructor
  · rintro ⟨hi, h⟩
    rwa [h1, h2] at h
  · intro h
    exact ⟨by simp, by rwa [h1, h2]⟩

theorem dupIdx_snoc (m : String) (pre : List Elem) (e : Elem) :
    dupIdx m (pre ++ [e]) = dupIdx m pre ++ (if DupAfter m pre e then [pre.length] else []) := by
  unfold dupIdx
  rw [List.length_append, List.length_singleton, List.range_succ, List.filter_append]
  congr 1
  · apply List.filter_congr
    intro i hi
    rw [List.mem_range] at hi
    simp only [IsDup_append_left m pre [e] i hi]
  · simp only [List.filter_cons, List.filter_nil, decide_eq_true_eq, IsDup_snoc_last]

/-- the loop: `unique` ends up holding exactly the keys of the list and `idx` the duplicate positions, ascending -/
theorem dupLoop_spec (m : String) (l : List Elem) :
    (∀ k, k ∈ (dupLoop m l).1 ↔ SeenKey m l k) ∧ (dupLoop m l).2 = dupIdx m l := by
  suffices h : ∀ r : List Elem, (∀ k, k ∈ (dupLoop m r.reverse).1 ↔ SeenKey m r.reverse k) ∧
      (dupLoop m r.reverse).2 = dupIdx m r.reverse by
    simpa using h l.reverse
  intro r
  induction r with
  | nil => exact ⟨fun k => by simp [dupLoop, SeenKey], rfl⟩
  | cons e r ih =>
    rw [List.reverse_cons, dupLoop_snoc, dupIdx_snoc]
    obtain ⟨ih1, ih2⟩ := ih
    rw [← ih2]
    have hidx : ∀ j ∈ (dupLoop m r.reverse).2, j < r.reverse.length := by
      intro j hj
      rw [ih2, mem_dupIdx] at hj
      exact hj.1
    have := dupStep_inv m r.reverse e (dupLoop m r.reverse).1 (dupLoop m r.reverse).2 ih1 hidx
    exact this

/-! ### headline theorems -/

/-- **Specification of `filter_duplicates`.**  For a legal method the call succeeds and hands
    `_new_list_from_self` exactly the ascending list of duplicate positions. -/
theorem C18_dups_spec (l : List Elem) (m : String) (isTRS drop : Bool) (legal : DupLegal (dupMethod m isTRS)) :
    filterDuplicates l m isTRS drop = .ok (newListFromSelf l (dupIdx (dupMethod m isTRS) l) drop) := by
  rw [filterDuplicates_unfold, (dupLoop_spec _ l).2]
  have : ["instance", "lots_qqs", "desc", "trs"].contains (dupMethod m isTRS) = true := by
    rcases legal with h | h | h | h <;> rw [h] <;> decide
  rw [this]
  rfl

/-- an illegal method is rejected (restating `C18_bad_method_rejected` with `dupMethod`) -/
theorem C18_dups_illegal (l : List Elem) (m : String) (isTRS drop : Bool) (illegal : ¬ DupLegal (dupMethod m isTRS)) :
    filterDuplicates l m isTRS drop = .error .valueError := by
  rw [filterDuplicates_unfold]
  have : ["instance", "lots_qqs", "desc", "trs"].contains (dupMethod m isTRS) = false := by
    unfold DupLegal at illegal
    simp only [not_or] at illegal
    simp [illegal]
  rw [this]
  rfl

/-- the elements of `l` at the duplicate positions / at the other positions, in original order -/
def dupElems (m : String) (l : List Elem) : List Elem := pickIdx l (fun i => decide (IsDup m l i))
def keptElems (m : String) (l : List Elem) : List Elem := pickIdx l (fun i => !decide (IsDup m l i))

/-- **`filter_duplicates` returns exactly the elements at duplicate positions, in original order; with `drop` the
    receiver keeps exactly the others, in original order; without `drop` the receiver is unchanged.** -/
theorem C18_dups_partition (l : List Elem) (m : String) (isTRS drop : Bool) (legal : DupLegal (dupMethod m isTRS)) :
    filterDuplicates l m isTRS drop
      = .ok (dupElems (dupMethod m isTRS) l, if drop then keptElems (dupMethod m isTRS) l else l) := by
  rw [C18_dups_spec l m isTRS drop legal, dupIdx, newListFromSelf_idx]
  rfl

/-- the two lists in closed form: look the positions up, ascending -/
theorem C18_dupElems_eq (m : String) (l : List Elem) :
    dupElems m l = (dupIdx m l).filterMap (fun i => l[i]?) := by
  rw [dupElems, pickIdx_eq, dupIdx]

theorem C18_keptElems_eq (m : String) (l : List Elem) :
    keptElems m l = ((List.range l.length).filter (fun i => !decide (IsDup m l i))).filterMap (fun i => l[i]?) := by
  rw [keptElems, pickIdx_eq]

theorem C18_mem_dupElems (m : String) (l : List Elem) (x : Elem) :
    x ∈ dupElems m l ↔ ∃ i, ∃ h : i < l.length, IsDup m l i ∧ l[i] = x := by
  simp [dupElems, mem_pickIdx]

theorem C18_mem_keptElems (m : String) (l : List Elem) (x : Elem) :
    x ∈ keptElems m l ↔ ∃ i, ∃ h : i < l.length, ¬ IsDup m l i ∧ l[i] = x := by
  simp [keptElems, mem_pickIdx]

/-- original order is preserved on both sides, and together they are the whole list (nothing lost, nothing doubled) -/
theorem C18_dups_order (m : String) (l : List Elem) :
    (dupElems m l).Sublist l ∧ (keptElems m l).Sublist l ∧ (dupElems m l ++ keptElems m l).Perm l :=
  ⟨pickIdx_sublist _ _, pickIdx_sublist _ _, pickIdx_perm _ _⟩

/-- stated as in `C18_filter_partition` -/
theorem C18_dups_partition_perm (l : List Elem) (m : String) (isTRS : Bool) (legal : DupLegal (dupMethod m isTRS)) :
    ∃ r, filterDuplicates l m isTRS true = .ok r ∧ (r.1 ++ r.2).Perm l := by
  refine ⟨_, C18_dups_partition l m isTRS true legal, ?_⟩
  exact (C18_dups_order _ l).2.2

/-! ### first / later occurrences -/

theorem mem_keysOf (m : String) (e : Elem) (k : UKey) : k ∈ keysOf m e ↔ k = e.ukey ∨ derivedKey m e = some k := by
  unfold keysOf
  cases h : derivedKey m e with
  | none => simp
  | some k0 =>
    simp only [Option.toList_some, List.mem_cons, List.not_mem_nil, or_false, Option.some.injEq]
    exact ⟨fun h => h.imp id Eq.symm, fun h => h.imp id Eq.symm⟩

/-- **every later element carrying a key that an earlier element carries is reported** -/
theorem C18_dups_later_occurrence_reported (m : String) (l : List Elem) (i j : Nat) (hj : j < i) (hi : i < l.length)
    (k : UKey) (hk : k ∈ keysOf m l[i]) (hk' : k ∈ keysOf m (l[j]'(Nat.lt_trans hj hi))) :
    IsDup m l i ∧ i ∈ dupIdx m l ∧ l[i] ∈ dupElems m l := by
  have h : IsDup m l i := (IsDup_iff m l i).mpr ⟨j, hj, hi, k, hk, hk'⟩
  exact ⟨h, (mem_dupIdx m l i).mpr h, (C18_mem_dupElems m l _).mpr ⟨i, hi, h, rfl⟩⟩

/-- **the first occurrence is kept**: an element none of whose keys is carried by an earlier element is not
    reported (in particular the first element of the list never is) -/
theorem C18_dups_first_occurrence_kept (m : String) (l : List Elem) (i : Nat) (hi : i < l.length)
    (hfresh : ∀ j (hj : j < i), ∀ k ∈ keysOf m l[i], k ∉ keysOf m (l[j]'(Nat.lt_trans hj hi))) :
    ¬ IsDup m l i ∧ i ∉ dupIdx m l ∧ l[i] ∈ keptElems m l := by
  have h : ¬ IsDup m l i := by
    rw [IsDup_iff]
    rintro ⟨j, hj, _, k, hk, hk'⟩
    exact hfresh j hj k hk hk'
  exact ⟨h, fun h' => h ((mem_dupIdx m l i).mp h'), (C18_mem_keptElems m l _).mpr ⟨i, hi, h, rfl⟩⟩

/-- two elements share a key iff they have the same instance key or the same derived key (a string key never
    equals an instance key) -/
theorem keysOf_common (m : String) (e e' : Elem) :
    (∃ k, k ∈ keysOf m e ∧ k ∈ keysOf m e') ↔
      e'.ukey = e.ukey ∨ ∃ k, derivedKey m e = some k ∧ derivedKey m e' = some k := by
  simp only [mem_keysOf]
  constructor
  · rintro ⟨k, h1 | h1, h2 | h2⟩
    · exact .inl (h2.symm.trans h1)
    · exact absurd h1 (derivedKey_ne_ukey m e' k h2 e)
    · exact absurd h2 (derivedKey_ne_ukey m e k h1 e')
    · exact .inr ⟨k, h1, h2⟩
  · rintro (h | ⟨k, h1, h2⟩)
    · exact ⟨e.ukey, .inl rfl, .inl h.symm⟩
    · exact ⟨k, .inr h1, .inr h2⟩

/-- closed form for every method: position `i` is a duplicate iff an earlier element has the same instance key, or
    the same derived key (when the element has one) -/
theorem C18_dups_closed (m : String) (l : List Elem) (i : Nat) :
    IsDup m l i ↔ ∃ h : i < l.length,
      (l.take i).any (fun e => e.ukey == l[i].ukey ||
        ((derivedKey m l[i]).isSome && derivedKey m e == derivedKey m l[i])) = true := by
  unfold IsDup DupAfter SeenKey
  refine exists_congr (fun hi => ?_)
  have key : ∀ e', ((e'.ukey == l[i].ukey || ((derivedKey m l[i]).isSome && derivedKey m e' == derivedKey m l[i])) = true)
      ↔ ∃ k, k ∈ keysOf m l[i] ∧ k ∈ keysOf m e' := by
    intro e'
    rw [keysOf_common]
    simp only [Bool.or_eq_true, beq_iff_eq, Bool.and_eq_true]
    refine or_congr Iff.rfl ?_
    constructor
    · rintro ⟨h1, h2⟩
      obtain ⟨k, hk⟩ := Option.isSome_iff_exists.mp h1
      exact ⟨k, hk, h2.trans hk⟩
    · rintro ⟨k, h1, h2⟩
      exact ⟨by simp [h1], h2.trans h1.symm⟩
  simp only [List.any_eq_true, key]
  constructor
  · rintro ⟨k, hk, e', he', hk'⟩
    exact ⟨e', he', k, hk, hk'⟩
  · rintro ⟨e', he', k, hk, hk'⟩
    exact ⟨k, hk, e', he', hk'⟩

theorem derivedKey_instance (e : Elem) : derivedKey "instance" e = none := by simp [derivedKey]

theorem derivedKey_trs (e : Elem) : derivedKey "trs" e = some (.str e.d.trs) := by
  unfold derivedKey
  rw [if_neg (by decide), if_neg (by decide), if_neg (by decide)]

/-- **closed form for `'instance'`**: a duplicate is an element equal (same Tract object / same `.trs`) to an
    earlier one -/
theorem C18_dups_instance_closed (l : List Elem) (i : Nat) :
    IsDup "instance" l i ↔ ∃ h : i < l.length, (l.take i).any (fun e => e.ukey == l[i].ukey) = true := by
  rw [C18_dups_closed]
  simp [derivedKey_instance]

/-- closed form for `'trs'`: same object, or same Twp/Rge/Sec string, as an earlier element -/
theorem C18_dups_trs_closed (l : List Elem) (i : Nat) :
    IsDup "trs" l i ↔ ∃ h : i < l.length,
      (l.take i).any (fun e => e.ukey == l[i].ukey || e.d.trs == l[i].d.trs) = true := by
  rw [C18_dups_closed]
  refine exists_congr (fun hi => ?_)
  simp only [derivedKey_trs, Option.isSome_some, Bool.true_and]
  have : ∀ a b : Str, (some (UKey.str a) == some (UKey.str b)) = (a == b) := by
    intro a b
    rw [Bool.eq_iff_iff]
    simp
  simp only [this]

/-- under `'instance'` the first element carrying an instance key is never reported -/
theorem C18_dups_first_occurrence_kept_instance (l : List Elem) (i : Nat) (hi : i < l.length)
    (hfirst : ∀ j (hj : j < i), (l[j]'(Nat.lt_trans hj hi)).ukey ≠ l[i].ukey) : ¬ IsDup "instance" l i := by
  rw [C18_dups_instance_closed]
  rintro ⟨_, h⟩
  obtain ⟨e', he', heq⟩ := List.any_eq_true.mp h
  obtain ⟨j, hj, rfl⟩ := List.mem_iff_getElem.mp he'
  rw [List.length_take] at hj
  refine hfirst j (by omega) ?_
  simpa [List.getElem_take] using heq

/-- The per-key reading "the first element carrying key `k` is never reported" is true for a derived key only when
    equal instance keys imply equal derived keys among the earlier elements (true of real Python objects: the same
    object has one description; the model's `TractObj` records do not enforce it). -/
theorem C18_dups_first_derived_kept_partial (m : String) (l : List Elem) (i : Nat) (hi : i < l.length) (k : UKey)
    (hk : derivedKey m l[i] = some k)
    (hfirst : ∀ j (hj : j < i), derivedKey m (l[j]'(Nat.lt_trans hj hi)) ≠ some k)
    (hwf : ∀ j (hj : j < i), (l[j]'(Nat.lt_trans hj hi)).ukey = l[i].ukey →
      derivedKey m (l[j]'(Nat.lt_trans hj hi)) = derivedKey m l[i]) :
    ¬ IsDup m l i := by
  rw [IsDup_iff]
  rintro ⟨j, hj, _, k', h1, h2⟩
  rcases (keysOf_common m l[i] l[j]).mp ⟨k', h1, h2⟩ with h | ⟨k'', h3, h4⟩
  · exact hfirst j hj ((hwf j hj h).trans hk)
  · rw [hk] at h3
    cases h3
    exact hfirst j hj h4

/-! ### examples (hypotheses are satisfiable, statements are not vacuous) -/

namespace DupsEx
def trsA : Elem := .trs { TRS.errDict with trs := S "154n97w14" }
def trsB : Elem := .trs { TRS.errDict with trs := S "154n97w15" }
def tr (uid : Nat) (trs : String) (lots qqs : List Str) : Elem :=
  .tract { (default : Obj.TractObj) with
    uid := uid, trs := { TRS.errDict with trs := S trs }, parseComplete := true, lots := lots, qqs := qqs }
end DupsEx
open DupsEx

-- a TRSList, default method (= 'trs'): the third element repeats the first
example : filterDuplicates [trsA, trsB, trsA] "default" true true
    = .ok (dupElems "trs" [trsA, trsB, trsA], keptElems "trs" [trsA, trsB, trsA]) :=
  C18_dups_partition _ _ _ _ (by decide)
example : dupIdx "trs" [trsA, trsB, trsA] = [2] := by decide
example : (dupElems "trs" [trsA, trsB, trsA]).length = 1 ∧ (keptElems "trs" [trsA, trsB, trsA]).length = 2 := by decide
example : filterDuplicates [trsA, trsB, trsA] "default" true false
    = .ok (newListFromSelf [trsA, trsB, trsA] (dupIdx "trs" [trsA, trsB, trsA]) false) :=
  C18_dups_spec _ _ _ _ (by decide)
-- a TractList, 'lots_qqs': two different Tract objects with the same lots/QQs
example : IsDup "lots_qqs" [tr 1 "154n97w14" [S "L1"] [S "NENE"], tr 2 "154n97w14" [S "L1"] [S "NENE"]] 1 :=
  (C18_dups_later_occurrence_reported "lots_qqs" _ 1 0 (by decide) (by decide) _
    ((mem_keysOf _ _ _).mpr (.inr rfl)) ((mem_keysOf _ _ _).mpr (.inr rfl))).1
-- ... which 'instance' does not report, while it reports the same object appearing twice
example : dupIdx "instance" [tr 1 "154n97w14" [] [S "NENE"], tr 2 "154n97w14" [] [S "NENE"],
    tr 1 "154n97w14" [] [S "NENE"]] = [2] := by decide
example : IsDup "trs" [trsA, trsB, trsA] 2 :=
  (C18_dups_later_occurrence_reported "trs" [trsA, trsB, trsA] 2 0 (by decide) (by decide) (.str (S "154n97w14"))
    (by decide) (by decide)).1
example : ¬ IsDup "trs" [trsA, trsB, trsA] 1 :=
  (C18_dups_first_occurrence_kept "trs" [trsA, trsB, trsA] 1 (by decide) (by decide)).1
example : ¬ IsDup "instance" [trsA, trsB, trsA] 1 :=
  C18_dups_first_occurrence_kept_instance [trsA, trsB, trsA] 1 (by decide) (by decide)
example : (IsDup "instance" [trsA, trsB, trsA] 2) := (C18_dups_instance_closed _ _).mpr ⟨by decide, by decide⟩

/-- COUNTEREXAMPLE to the per-key reading of "the first element carrying a key is never reported": two different
    Tract objects (uids 1, 2) with the same Twp/Rge/Sec under 'trs' (intended behaviour): the second is the first
    element carrying the instance key `obj 2`, and it is reported. -/
example : UKey.obj 2 ∉ keysOf "trs" (tr 1 "154n97w14" [] [])
    ∧ UKey.obj 2 ∈ keysOf "trs" (tr 2 "154n97w14" [] []) ∧ IsDup "trs" [tr 1 "154n97w14" [] [], tr 2 "154n97w14" [] []] 1 := by
  decide

/-- COUNTEREXAMPLE (model only) for derived keys without the well-formedness hypothesis of
    `C18_dups_first_derived_kept_partial`: two `TractObj` records with the same uid but different `.trs`: the second is
    the first carrier of the string key "154n97w15" and is reported through its instance key. -/
example : UKey.str (S "154n97w15") ∉ keysOf "trs" (tr 1 "154n97w14" [] [])
    ∧ UKey.str (S "154n97w15") ∈ keysOf "trs" (tr 1 "154n97w15" [] [])
    ∧ IsDup "trs" [tr 1 "154n97w14" [] [], tr 1 "154n97w15" [] []] 1 := by
  decide

example : ¬ IsDup "trs" [tr 1 "154n97w14" [] [], tr 2 "154n97w15" [] []] 1 :=
  C18_dups_first_derived_kept_partial "trs" _ 1 (by decide) (.str (S "154n97w15")) (by decide) (by decide) (by decide)

/-! ## Part 2: grouping

### `eraseDups`: the distinct values in order of first occurrence -/

section
variable {κ α : Type} [BEq κ] [LawfulBEq κ]

theorem eraseDups_pairwise_ne : ∀ (n : Nat) (l : List κ), l.length ≤ n → l.eraseDups.Pairwise (· ≠ ·) := by
  intro n
  induction n with
  | zero =>
    intro l hl
    have : l = [] := List.length_eq_zero_iff.mp (Nat.le_zero.mp hl)
    subst this
    simp
  | succ n ih =>
    intro l hl
    cases l with
    | nil => simp
    | cons a as =>
      rw [List.eraseDups_cons, List.pairwise_cons]
      constructor
      · intro b hb
        rw [List.mem_eraseDups, List.mem_filter] at hb
        intro hab
        subst hab
        simp at hb
      · apply ih
        have := List.length_filter_le (fun b => !b == a) as
        simp only [List.length_cons] at hl
        omega

/-- the distinct values are pairwise different -/
theorem eraseDups_nodup (l : List κ) : l.eraseDups.Pairwise (· ≠ ·) := eraseDups_pairwise_ne l.length l (Nat.le_refl _)

theorem eraseDups_sublist_aux : ∀ (n : Nat) (l : List κ), l.length ≤ n → l.eraseDups.Sublist l := by
  intro n
  induction n with
  | zero =>
    intro l hl
    have : l = [] := List.length_eq_zero_iff.mp (Nat.le_zero.mp hl)
    subst this
    simp
  | succ n ih =>
    intro l hl
    cases l with
    | nil => simp
    | cons a as =>
      rw [List.eraseDups_cons]
      have hlen := List.length_filter_le (fun b => !b == a) as
      simp only [List.length_cons] at hl
      exact ((ih _ (by omega)).trans List.filter_sublist).cons_cons a

/-- ... and appear in the order of the list -/
theorem eraseDups_sublist (l : List κ) : l.eraseDups.Sublist l := eraseDups_sublist_aux l.length l (Nat.le_refl _)

/-! ### `groupBy1` in closed form -/

theorem foldl_groupInsert_cons (key : α → κ) (l : List α) (k : κ) (xs : List α) (d : List (κ × List α)) :
    l.foldl (fun d x => groupInsert d (key x) x) ((k, xs) :: d)
      = (k, xs ++ l.filter (fun y => k == key y))
          :: (l.filter (fun y => !(k == key y))).foldl (fun d x => groupInsert d (key x) x) d := by
  induction l generalizing xs d with
  | nil => simp
  | cons x l ih =>
    rw [List.foldl_cons, groupInsert]
    by_cases h : (k == key x) = true
    · rw [if_pos h, ih]
      simp [h]
    · rw [if_neg h, ih]
      simp [h]

/-- head recursion for `groupBy1`: the first group collects everything with the first element's key, the other
    groups are those of the remaining elements -/
theorem groupBy1_cons (key : α → κ) (x : α) (l : List α) :
    groupBy1 (x :: l) key
      = (key x, x :: l.filter (fun y => key x == key y)) :: groupBy1 (l.filter (fun y => !(key x == key y))) key := by
  unfold groupBy1
  rw [List.foldl_cons, groupInsert, foldl_groupInsert_cons]
  rfl

theorem groupBy1_eq_aux (key : α → κ) : ∀ (n : Nat) (l : List α), l.length ≤ n →
    groupBy1 l key = (l.map key).eraseDups.map (fun k => (k, l.filter (fun y => k == key y))) := by
  intro n
  induction n with
  | zero =>
    intro l hl
    have : l = [] := List.length_eq_zero_iff.mp (Nat.le_zero.mp hl)
    subst this
    rfl
  | succ n ih =>
    intro l hl
    cases l with
    | nil => rfl
    | cons x l =>
      have hlen := List.length_filter_le (fun y => !(key x == key y)) l
      simp only [List.length_cons] at hl
      rw [groupBy1_cons, ih _ (by omega), List.map_cons, List.eraseDups_cons, List.map_cons, List.filter_map]
      have hcomp : ((fun b => !b == key x) ∘ key) = (fun y => !(key x == key y)) := by
        funext y
        simp only [Function.comp]
        rw [Bool.beq_comm]
      rw [hcomp]
      congr 1
      · simp
      · apply List.map_congr_left
        intro k hk
        rw [List.mem_eraseDups, List.mem_map] at hk
        obtain ⟨y, hy, rfl⟩ := hk
        rw [List.mem_filter] at hy
        have hne : (key y == key x) = false := by
          have := hy.2
          rw [Bool.beq_comm]
          simpa using this
        rw [List.filter_filter, List.filter_cons, hne]
        simp only [Bool.false_eq_true, if_false, Prod.mk.injEq, true_and]
        apply List.filter_congr
        intro z _
        by_cases hz : (key y == key z) = true
        · have : key z = key y := (eq_of_beq hz).symm
          rw [this]
          have hne' : (key x == key y) = false := by rw [Bool.beq_comm]; exact hne
          simp [hne']
        · simp [hz]

/-- **`group_by(attr)` in closed form**: one group per distinct key value, in order of first occurrence, holding
    exactly the elements with that key, in list order -/
theorem groupBy1_eq (l : List α) (key : α → κ) :
    groupBy1 l key = (l.map key).eraseDups.map (fun k => (k, l.filter (fun y => k == key y))) :=
  groupBy1_eq_aux key l.length l (Nat.le_refl _)

theorem mem_groupBy1 (l : List α) (key : α → κ) (g : κ × List α) (hg : g ∈ groupBy1 l key) :
    g.2 = l.filter (fun y => g.1 == key y) ∧ ∃ y ∈ l, key y = g.1 := by
  rw [groupBy1_eq, List.mem_map] at hg
  obtain ⟨k, hk, rfl⟩ := hg
  rw [List.mem_eraseDups, List.mem_map] at hk
  exact ⟨rfl, hk⟩

/-- **order**: each group is the sub-list of the elements with the group's key (so original order is kept) -/
theorem C18_groupBy1_order (l : List α) (key : α → κ) :
    ∀ g ∈ groupBy1 l key, g.2 = l.filter (fun y => g.1 == key y) ∧ g.2.Sublist l ∧ g.2 ≠ [] := by
  intro g hg
  obtain ⟨h1, y, hy, hk⟩ := mem_groupBy1 l key g hg
  refine ⟨h1, h1 ▸ List.filter_sublist, ?_⟩
  rw [h1]
  intro hnil
  have : y ∈ l.filter (fun y => g.1 == key y) := by
    rw [List.mem_filter]
    exact ⟨hy, by simp [hk]⟩
  rw [hnil] at this
  simp at this

/-- **no two groups share a key** -/
theorem C18_groupBy1_distinct_keys (l : List α) (key : α → κ) :
    ((groupBy1 l key).map (·.1)).Pairwise (· ≠ ·) := by
  rw [groupBy1_eq, List.map_map]
  have : ((fun x : κ × List α => x.1) ∘ fun k => (k, l.filter (fun y => k == key y))) = id := rfl
  rw [this, List.map_id]
  exact eraseDups_nodup _

/-- **the groups are listed in order of first occurrence of their key**: the keys, in order, are the distinct key
    values of the list in order of first occurrence; in particular they form a sub-list of `l.map key` -/
theorem C18_unpack_group_order_first_occurrence (l : List α) (key : α → κ) :
    (groupBy1 l key).map (·.1) = (l.map key).eraseDups ∧ ((groupBy1 l key).map (·.1)).Sublist (l.map key) := by
  have h : (groupBy1 l key).map (·.1) = (l.map key).eraseDups := by
    rw [groupBy1_eq, List.map_map]
    have : ((fun x : κ × List α => x.1) ∘ fun k => (k, l.filter (fun y => k == key y))) = id := rfl
    rw [this, List.map_id]
  exact ⟨h, h ▸ eraseDups_sublist _⟩

end

/-! ### nested grouping (`group_by` with several attributes) -/

section
variable {α : Type}

/-- one more attribute: every group is split by the value of `kk`, the value is appended to the key tuple -/
def refineStep (d : List (List PyVal × List α)) (kk : α → PyVal) : List (List PyVal × List α) :=
  d.flatMap (fun (kv : List PyVal × List α) => (groupBy1 kv.2 kk).map (fun g => (kv.1 ++ [g.1], g.2)))

/-- `groupByMulti` is the successive refinement of the single group `((), l)`, one attribute at a time -/
theorem groupByMulti_eq_foldl (l : List α) (keys : List (α → PyVal)) :
    groupByMulti l keys = keys.foldl refineStep [([], l)] := by
  cases keys with
  | nil => rfl
  | cons k ks =>
    rw [List.foldl_cons]
    have : refineStep [([], l)] k = (groupBy1 l k).map (fun g => ([g.1], g.2)) := by
      simp [refineStep]
    rw [this]
    rfl

theorem perm_flatMap_left {β γ : Type} (l : List β) (f g : β → List γ) (h : ∀ a ∈ l, (f a).Perm (g a)) :
    (l.flatMap f).Perm (l.flatMap g) := by
  induction l with
  | nil => simp
  | cons a l ih =>
    rw [List.flatMap_cons, List.flatMap_cons]
    exact (h a (by simp)).append (ih (fun b hb => h b (by simp [hb])))

/-- the invariant of the refinement, after the attributes `done` -/
structure GInv (l : List α) (done : List (α → PyVal)) (d : List (List PyVal × List α)) : Prop where
  grp : ∀ g ∈ d, g.2 = l.filter (fun x => done.map (fun k => k x) == g.1)
  keys : (d.map (·.1)).Pairwise (· ≠ ·)
  perm : (unpackGroup d).Perm l

theorem GInv_init (l : List α) : GInv l [] [([], l)] := by
  refine ⟨?_, by simp, by simp [unpackGroup]⟩
  intro g hg
  simp only [List.mem_singleton] at hg
  subst hg
  simp only [List.map_nil, beq_self_eq_true]
  exact (List.filter_eq_self.mpr (fun _ _ => rfl)).symm

theorem mem_refineStep (d : List (List PyVal × List α)) (kk : α → PyVal) (g' : List PyVal × List α) :
    g' ∈ refineStep d kk ↔ ∃ g ∈ d, ∃ h ∈ groupBy1 g.2 kk, g' = (g.1 ++ [h.1], h.2) := by
  unfold refineStep
  simp only [List.mem_flatMap, List.mem_map]
  constructor
  · rintro ⟨g, hg, h, hh, rfl⟩
    exact ⟨g, hg, h, hh, rfl⟩
  · rintro ⟨g, hg, h, hh, rfl⟩
    exact ⟨g, hg, h, hh, rfl⟩

theorem GInv_step (l : List α) (done : List (α → PyVal)) (d : List (List PyVal × List α)) (kk : α → PyVal)
    (inv : GInv l done d) : GInv l (done ++ [kk]) (refineStep d kk) := by
  refine ⟨?_, ?_, ?_⟩
  · intro g' hg'
    obtain ⟨g, hg, h, hh, rfl⟩ := (mem_refineStep d kk g').mp hg'
    obtain ⟨h1, _⟩ := mem_groupBy1 g.2 kk h hh
    show h.2 = _
    rw [h1, inv.grp g hg, List.filter_filter]
    apply List.filter_congr
    intro x _
    rw [Bool.eq_iff_iff]
    simp only [Bool.and_eq_true, beq_iff_eq, List.map_append, List.map_cons, List.map_nil,
      List.append_singleton_inj]
    constructor
    · rintro ⟨a, b⟩
      exact ⟨b, a.symm⟩
    · rintro ⟨a, b⟩
      exact ⟨b.symm, a⟩
  · have hmap : (refineStep d kk).map (·.1)
        = d.flatMap (fun kv => (groupBy1 kv.2 kk).map (fun g => kv.1 ++ [g.1])) := by
      unfold refineStep
      rw [List.map_flatMap]
      simp only [List.map_map]
      rfl
    rw [hmap, List.pairwise_flatMap]
    constructor
    · intro g _
      have := C18_groupBy1_distinct_keys g.2 kk
      rw [List.pairwise_map] at this
      rw [List.pairwise_map]
      refine this.imp ?_
      intro a b hab heq
      exact hab ((List.append_singleton_inj.mp heq).2)
    · have := inv.keys
      rw [List.pairwise_map] at this
      refine this.imp ?_
      intro g1 g2 hne x hx y hy heq
      rw [List.mem_map] at hx hy
      obtain ⟨a, _, rfl⟩ := hx
      obtain ⟨b, _, rfl⟩ := hy
      exact hne ((List.append_singleton_inj.mp heq).1)
  · have hun : unpackGroup (refineStep d kk) = d.flatMap (fun kv => unpackGroup (groupBy1 kv.2 kk)) := by
      unfold refineStep unpackGroup
      rw [List.flatMap_assoc]
      congr 1
      funext kv
      rw [List.flatMap_map]
    rw [hun]
    refine (perm_flatMap_left d _ (fun kv => kv.2) (fun kv _ => C18_group_partition kv.2 kk)).trans ?_
    exact inv.perm

theorem GInv_foldl (l : List α) : ∀ (ks done : List (α → PyVal)) (d : List (List PyVal × List α)),
    GInv l done d → GInv l (done ++ ks) (ks.foldl refineStep d) := by
  intro ks
  induction ks with
  | nil => intro done d h; simpa using h
  | cons k ks ih =>
    intro done d h
    rw [List.foldl_cons]
    have := ih (done ++ [k]) _ (GInv_step l done d k h)
    simpa using this

theorem groupByMulti_inv (l : List α) (keys : List (α → PyVal)) : GInv l keys (groupByMulti l keys) := by
  rw [groupByMulti_eq_foldl]
  simpa using GInv_foldl l keys [] _ (GInv_init l)

/-- **every element lands in exactly one group**: unpacking the nested groups gives back a permutation of the list -/
theorem C18_groupByMulti_partition (l : List α) (keys : List (α → PyVal)) :
    (unpackGroup (groupByMulti l keys)).Perm l := (groupByMulti_inv l keys).perm

/-- closed form of each group: exactly the elements whose attribute tuple is the group's key, in list order -/
theorem C18_groupByMulti_group_eq (l : List α) (keys : List (α → PyVal)) :
    ∀ g ∈ groupByMulti l keys, g.2 = l.filter (fun x => keys.map (fun k => k x) == g.1) :=
  (groupByMulti_inv l keys).grp

/-- **every element of the group keyed `ks` has the attribute tuple `ks`** -/
theorem C18_groupByMulti_keys (l : List α) (keys : List (α → PyVal)) :
    ∀ g ∈ groupByMulti l keys, ∀ x ∈ g.2, keys.map (fun k => k x) = g.1 := by
  intro g hg x hx
  rw [C18_groupByMulti_group_eq l keys g hg, List.mem_filter] at hx
  exact eq_of_beq hx.2

/-- **order is preserved inside every group** -/
theorem C18_groupByMulti_order (l : List α) (keys : List (α → PyVal)) :
    ∀ g ∈ groupByMulti l keys, g.2.Sublist l := by
  intro g hg
  rw [C18_groupByMulti_group_eq l keys g hg]
  exact List.filter_sublist

/-- **no two groups share a key tuple** -/
theorem C18_groupByMulti_distinct_keys (l : List α) (keys : List (α → PyVal)) :
    ((groupByMulti l keys).map (·.1)).Pairwise (· ≠ ·) := (groupByMulti_inv l keys).keys

/-- every element is found in the group keyed by its own attribute tuple -/
theorem C18_groupByMulti_complete (l : List α) (keys : List (α → PyVal)) (x : α) (hx : x ∈ l) :
    ∃ g ∈ groupByMulti l keys, g.1 = keys.map (fun k => k x) ∧ x ∈ g.2 := by
  have hx' : x ∈ unpackGroup (groupByMulti l keys) := (C18_groupByMulti_partition l keys).mem_iff.mpr hx
  unfold unpackGroup at hx'
  obtain ⟨g, hg, hxg⟩ := List.mem_flatMap.mp hx'
  exact ⟨g, hg, (C18_groupByMulti_keys l keys g hg x hxg).symm, hxg⟩

/-- with at least one attribute there is no empty group -/
theorem C18_groupByMulti_nonempty (l : List α) (keys : List (α → PyVal)) (hk : keys ≠ []) :
    ∀ g ∈ groupByMulti l keys, g.2 ≠ [] := by
  rcases List.eq_nil_or_concat keys with h | ⟨ks, kk, h⟩
  · exact absurd h hk
  · intro g' hg'
    rw [groupByMulti_eq_foldl, h, List.concat_eq_append, List.foldl_append, List.foldl_cons, List.foldl_nil,
      mem_refineStep] at hg'
    obtain ⟨g, _, h', hh, rfl⟩ := hg'
    exact (C18_groupBy1_order g.2 kk h' hh).2.2

end

/-! ### first-occurrence order, stated with positions -/

section
variable {κ α : Type} [BEq κ] [LawfulBEq κ]

theorem idxOf_filter_lt (p : κ → Bool) (b c : κ) (hb : p b = true) (hc : p c = true) :
    ∀ (as : List κ), (as.filter p).idxOf b < (as.filter p).idxOf c → as.idxOf b < as.idxOf c := by
  intro as
  induction as with
  | nil => simp
  | cons y ys ih =>
    intro h
    by_cases hy : p y = true
    · rw [List.filter_cons_of_pos hy] at h
      rw [List.idxOf_cons, List.idxOf_cons] at h ⊢
      by_cases hyb : (y == b) = true <;> by_cases hyc : (y == c) = true
      · simp [hyb, hyc] at h
      · simp [hyb, hyc]
      · simp [hyb, hyc] at h
      · simp only [hyb, hyc, cond_false, Bool.false_eq_true] at h ⊢
        have := ih (by omega)
        omega
    · rw [List.filter_cons_of_neg hy] at h
      have hyb : (y == b) = false := by
        cases hyb : (y == b) with
        | false => rfl
        | true => rw [eq_of_beq hyb] at hy; exact absurd hb hy
      have hyc : (y == c) = false := by
        cases hyc : (y == c) with
        | false => rfl
        | true => rw [eq_of_beq hyc] at hy; exact absurd hc hy
      rw [List.idxOf_cons, List.idxOf_cons]
      simp only [hyb, hyc, cond_false]
      have := ih h
      omega

theorem eraseDups_pairwise_idxOf_aux : ∀ (n : Nat) (l : List κ), l.length ≤ n →
    l.eraseDups.Pairwise (fun a b => l.idxOf a < l.idxOf b) := by
  intro n
  induction n with
  | zero =>
    intro l hl
    have : l = [] := List.length_eq_zero_iff.mp (Nat.le_zero.mp hl)
    subst this
    simp
  | succ n ih =>
    intro l hl
    cases l with
    | nil => simp
    | cons a as =>
      have hlen := List.length_filter_le (fun b => !b == a) as
      simp only [List.length_cons] at hl
      rw [List.eraseDups_cons, List.pairwise_cons]
      have hmem : ∀ b ∈ (as.filter (fun b => !b == a)).eraseDups, (a == b) = false := by
        intro b hb
        rw [List.mem_eraseDups, List.mem_filter] at hb
        rw [Bool.beq_comm]
        simpa using hb.2
      constructor
      · intro b hb
        rw [List.idxOf_cons, List.idxOf_cons]
        simp [hmem b hb]
      · have hih := ih (as.filter (fun b => !b == a)) (by omega)
        have hmem' : ∀ b ∈ (as.filter (fun b => !b == a)).eraseDups, (!b == a) = true := by
          intro b hb
          rw [List.mem_eraseDups, List.mem_filter] at hb
          exact hb.2
        refine List.Pairwise.imp_of_mem ?_ hih
        intro b c hb hc hbc
        rw [List.idxOf_cons, List.idxOf_cons]
        simp only [hmem b hb, hmem c hc, cond_false]
        have := idxOf_filter_lt (fun b => !b == a) b c (hmem' b hb) (hmem' c hc) as hbc
        omega

/-- the distinct values are listed by increasing position of their first occurrence -/
theorem eraseDups_pairwise_idxOf (l : List κ) : l.eraseDups.Pairwise (fun a b => l.idxOf a < l.idxOf b) :=
  eraseDups_pairwise_idxOf_aux l.length l (Nat.le_refl _)

/-- **`groupBy1` lists its groups in order of first occurrence of their key**: a group comes before another iff its
    key first occurs earlier in the list -/
theorem C18_unpack_group_order_first_occurrence_idx (l : List α) (key : α → κ) :
    ((groupBy1 l key).map (·.1)).Pairwise (fun a b => (l.map key).idxOf a < (l.map key).idxOf b) := by
  rw [(C18_unpack_group_order_first_occurrence l key).1]
  exact eraseDups_pairwise_idxOf _

end

/-! ### examples -/

namespace DupsEx
def rows : List (Nat × Nat × Nat) := [(1, 10, 0), (2, 10, 1), (1, 20, 2), (1, 10, 3), (2, 10, 4)]
def kA : Nat × Nat × Nat → PyVal := fun r => .int r.1
def kB : Nat × Nat × Nat → PyVal := fun r => .int r.2.1
end DupsEx

example : (unpackGroup (groupByMulti rows [kA, kB])).Perm rows := C18_groupByMulti_partition _ _
example : (groupByMulti rows [kA, kB]).map (fun g => g.2.map (·.2.2)) = [[0, 3], [2], [1, 4]] := by decide
-- nested-loop order, not first-occurrence order of the tuples: (1,10), (1,20), (2,10)
example : (groupByMulti rows [kA, kB]).map (·.1)
    = [[.int 1, .int 10], [.int 1, .int 20], [.int 2, .int 10]] := by
  simp [groupByMulti, groupBy1, groupInsert, rows, kA, kB]
example : (groupBy1 rows kA).map (fun g => g.2.map (·.2.2)) = [[0, 2, 3], [1, 4]] := by decide
example : ((groupBy1 rows kA).map (·.1)) = [.int 1, .int 2] := by
  rw [(C18_unpack_group_order_first_occurrence rows kA).1]
  simp [List.eraseDups_cons, rows, kA]

example : ∀ g ∈ groupByMulti rows [kA, kB], ∀ x ∈ g.2, [kA, kB].map (fun k => k x) = g.1 :=
  C18_groupByMulti_keys rows [kA, kB]
example : ∀ g ∈ groupByMulti rows [kA, kB], g.2.Sublist rows := C18_groupByMulti_order rows [kA, kB]
example : ((groupByMulti rows [kA, kB]).map (·.1)).Pairwise (· ≠ ·) := C18_groupByMulti_distinct_keys rows [kA, kB]
example : ∃ g ∈ groupByMulti rows [kA, kB], g.1 = [.int 1, .int 20] ∧ (1, 20, 2) ∈ g.2 :=
  C18_groupByMulti_complete rows [kA, kB] (1, 20, 2) (by decide)
example : ∀ g ∈ groupByMulti rows [kA, kB], g.2 ≠ [] := C18_groupByMulti_nonempty rows [kA, kB] (by simp)
example : ∀ g ∈ groupBy1 rows kA, g.2 = rows.filter (fun y => g.1 == kA y) ∧ g.2.Sublist rows ∧ g.2 ≠ [] :=
  C18_groupBy1_order rows kA
example : ((groupBy1 rows kA).map (·.1)).Pairwise (· ≠ ·) := C18_groupBy1_distinct_keys rows kA
example : ((groupBy1 rows kA).map (·.1)).Pairwise (fun a b => (rows.map kA).idxOf a < (rows.map kA).idxOf b) :=
  C18_unpack_group_order_first_occurrence_idx rows kA
-- with no attribute at all there is a single group keyed `()`; for an empty list it is an empty group
example : groupByMulti ([] : List Nat) [] = [([], [])] := rfl

/-! ## Part 3: export -/

open PyTRS.Export in
/-- one value per requested attribute name -/
theorem C19_toList_length (t : Obj.TractObj) (atts : List String) : (toList t atts).length = atts.length := by
  simp [toList]

open PyTRS.Export in
/-- `to_dict(*attributes)`: the keys are exactly the distinct requested names, in order of first request, each
    mapped to the attribute value (or the 'n/a' placeholder) -/
theorem C19_toDict_keys (t : Obj.TractObj) (atts : List String) :
    ∃ kvs, toDict t atts = .dict kvs ∧
      kvs = atts.eraseDups.map (fun a => (PyVal.str a.toList, getAttrNA t a)) ∧
      kvs.map (·.1) = atts.eraseDups.map (fun a => PyVal.str a.toList) ∧
      (kvs.map (·.1)).Pairwise (· ≠ ·) ∧
      (∀ a, a ∈ atts.eraseDups ↔ a ∈ atts) ∧
      atts.eraseDups.Pairwise (· ≠ ·) ∧
      atts.eraseDups.Sublist atts ∧
      atts.eraseDups.Pairwise (fun a b => atts.idxOf a < atts.idxOf b) := by
  refine ⟨_, rfl, rfl, by simp [List.map_map, Function.comp_def], ?_, fun a => List.mem_eraseDups,
    eraseDups_nodup atts, eraseDups_sublist atts, eraseDups_pairwise_idxOf atts⟩
  rw [List.map_map, List.pairwise_map]
  refine (eraseDups_nodup atts).imp ?_
  intro a b hab heq
  apply hab
  simp only [Function.comp] at heq
  have h := PyVal.str.inj heq
  exact String.toList_inj.mp h

open PyTRS.Export in
example : (toList default ["trs", "desc", "trs"]).length = 3 := C19_toList_length _ _
open PyTRS.Export in
example : ∃ kvs, toDict default ["trs", "desc", "trs"] = .dict kvs ∧ kvs.map (·.1) = [.str "trs".toList, .str "desc".toList] := by
  obtain ⟨kvs, h1, _, h3, _⟩ := C19_toDict_keys default ["trs", "desc", "trs"]
  refine ⟨kvs, h1, ?_⟩
  rw [h3]
  have : ["trs", "desc", "trs"].eraseDups = ["trs", "desc"] := by decide
  rw [this]
  rfl

#print axioms C18_dups_spec
#print axioms C18_dups_illegal
#print axioms C18_dups_partition
#print axioms C18_dups_order
#print axioms C18_dups_partition_perm
#print axioms C18_dupElems_eq
#print axioms C18_keptElems_eq
#print axioms C18_mem_dupElems
#print axioms C18_mem_keptElems
#print axioms C18_dups_first_occurrence_kept
#print axioms C18_dups_first_occurrence_kept_instance
#print axioms C18_dups_first_derived_kept_partial
#print axioms C18_dups_later_occurrence_reported
#print axioms C18_dups_closed
#print axioms C18_dups_instance_closed
#print axioms C18_dups_trs_closed
#print axioms groupBy1_eq
#print axioms C18_groupBy1_order
#print axioms C18_groupBy1_distinct_keys
#print axioms C18_unpack_group_order_first_occurrence
#print axioms C18_unpack_group_order_first_occurrence_idx
#print axioms C18_groupByMulti_partition
#print axioms C18_groupByMulti_group_eq
#print axioms C18_groupByMulti_keys
#print axioms C18_groupByMulti_order
#print axioms C18_groupByMulti_distinct_keys
#print axioms C18_groupByMulti_complete
#print axioms C18_groupByMulti_nonempty
#print axioms C19_toList_length
#print axioms C19_toDict_keys

end PyTRS
