/-
C05 — the TOKENISATION of a section / lot list does not depend on which digits are written, only on the shape of the
text.  This lifts the executed lexical tables (`LexList (secView txt) …` rows) from "these sample numbers" to "all
numbers of the same digit lengths".

* `secShape` / `lotShape`: what one loop iteration observes, with the rightmost number given by its SPAN instead of
  its value; `secView = (secShape …).map (read the number at the span)`.
* `C05_secShape_digit_invariant` / `C05_lotShape_digit_invariant`: the shape is literally the same on texts that are
  `sameUpToDigits` (RxSig: the `Match` is the same; the through-test runs `through_regex`, digit-blind too, on a slice).
* `LexShape`, `C05_lexlist_of_shape`, `C05_lexlist_digit_transfer`: the lexical hypothesis of Elided.lean transfers.
* `C05_sections_expand_all_numbers` / `C05_lots_expand_all_numbers`: one executed row per shape covers all numbers.
-/
import PyTRS.Lemmas.Elided
import PyTRS.Lemmas.RxSig
import PyTRS.Props.C05Lists
namespace PyTRS
open PyTRS.Unpack

/-! ## spans instead of texts -/

/-- `mo.span(name)` (None when the group did not participate) -/
def patSpan? (p : Pat) (m : Match) (name : String) : Option (Nat × Nat) :=
  match p.idx? name with
  | some i => m.span? i
  | none => none

theorem group_eq_span (p : Pat) (m : Match) (text : Str) (name : String) :
    p.group m text name = (patSpan? p m name).map (fun ab => slice text ab.1 ab.2) := by
  unfold Pat.group patSpan?
  cases p.idx? name with
  | none => rfl
  | some i =>
    simp only [Match.group?]
    cases m.span? i with
    | none => rfl
    | some ab => cases ab; rfl

/-- `is_multi` only looks at which groups participated -/
def isMultiS (p : Pat) (kind : String) (m : Match) : Option Bool :=
  if !p.has "intervener" then some false
  else if (patSpan? p m (kind ++ "num_rightmost")).isSome then some true
  else if (patSpan? p m (kind ++ "num")).isSome then some false
  else none

theorem isMulti_eq (p : Pat) (kind : String) (m : Match) (text : Str) : isMulti p kind m text = isMultiS p kind m := by
  unfold isMulti isMultiS
  simp only [group_eq_span, Option.isSome_map]

/-- the span of the rightmost number group -/
def getRightmostS (p : Pat) (kind : String) (m : Match) : Option (Nat × Nat) :=
  if !p.has (kind ++ "num_rightmost") then patSpan? p m (kind ++ "num")
  else match isMultiS p kind m with
    | some true => patSpan? p m (kind ++ "num_rightmost")
    | _ => patSpan? p m (kind ++ "num")

theorem getRightmost_eq (p : Pat) (kind : String) (m : Match) (text : Str) :
    getRightmost p kind m text = (getRightmostS p kind m).map (fun ab => slice text ab.1 ab.2) := by
  unfold getRightmost getRightmostS
  rw [isMulti_eq]
  split
  · exact group_eq_span _ _ _ _
  · rcases isMultiS p kind m with _ | _ | _ <;> exact group_eq_span _ _ _ _

/-- the number written in `t` at a span, read exactly as the loops read it (`int(…)`, 0 when unreadable) -/
def numAt (t : Str) (sp : Nat × Nat) : Int := (pyInt? (slice t sp.1 sp.2)).getD 0

/-- an absent number group reads as the empty span `(0, 0)` -/
theorem rightmost_value (p : Pat) (kind : String) (m : Match) (text : Str) :
    (pyInt? ((getRightmost p kind m text).getD [])).getD 0 = numAt text ((getRightmostS p kind m).getD (0, 0)) := by
  rw [getRightmost_eq]
  cases getRightmostS p kind m with
  | none => simp [numAt, slice]
  | some ab => rfl

/-! ## shape views -/

abbrev Shape := (Nat × Nat) × Bool × Nat × Bool

/-- read the number of a shape observation in `t` -/
def readShape (t : Str) (x : Shape) : Int × Bool × Nat × Bool := (numAt t x.1, x.2.1, x.2.2.1, x.2.2.2)

/-- one iteration's observation with the number as a span -/
def patShape (p : Pat) (kind : String) (txt : Str) (endpos : Nat) : Option Shape :=
  match p.rx.search txt 0 endpos with
  | none => none
  | some mo => some ((getRightmostS p kind mo).getD (0, 0), isMultiS p kind mo == some true, startOfRightmost p mo,
                     thruRightmost p mo txt)

def secShape (txt : Str) (endpos : Nat) : Option Shape := patShape multisec "sec" txt endpos
def lotShape (txt : Str) (endpos : Nat) : Option Shape := patShape multilot "lot" txt endpos

theorem C05_secView_eq_shape (txt : Str) (e : Nat) : secView txt e = (secShape txt e).map (readShape txt) := by
  unfold secView secShape patShape
  cases multisec.rx.search txt 0 e with
  | none => rfl
  | some mo => simp only [Option.map_some, readShape, rightmost_value, isMulti_eq]

theorem C05_lotView_eq_shape (txt : Str) (e : Nat) : lotView txt e = (lotShape txt e).map (readShape txt) := by
  unfold lotView lotShape patShape
  cases multilot.rx.search txt 0 e with
  | none => rfl
  | some mo => simp only [Option.map_some, readShape, rightmost_value, isMulti_eq]

/-! ## `sameUpToDigits` is preserved by slicing and stripping -/

/-- equal, or both ASCII digits -/
def DigRel (c c' : Char) : Prop := c = c' ∨ (c.isDigit = true ∧ c'.isDigit = true)

theorem sameUpToDigits_iff : ∀ (t t' : Str), sameUpToDigits t t' = true ↔ ListRel DigRel t t'
  | [], [] => by simp [sameUpToDigits, ListRel]
  | c :: t, c' :: t' => by
    simp only [sameUpToDigits, ListRel, Bool.and_eq_true, Bool.or_eq_true, beq_iff_eq, DigRel, sameUpToDigits_iff t t']
  | [], _ :: _ => by simp [sameUpToDigits, ListRel]
  | _ :: _, [] => by simp [sameUpToDigits, ListRel]

theorem ListRel.append {α β : Type} {Q : α → β → Prop} :
    ∀ {a : List α} {a' : List β} {b : List α} {b' : List β}, ListRel Q a a' → ListRel Q b b' → ListRel Q (a ++ b) (a' ++ b')
  | [], [], _, _, _, hb => hb
  | _ :: _, _ :: _, _, _, ha, hb => ⟨ha.1, ListRel.append ha.2 hb⟩
  | [], _ :: _, _, _, ha, _ => ha.elim
  | _ :: _, [], _, _, ha, _ => ha.elim

theorem ListRel.reverse {α β : Type} {Q : α → β → Prop} :
    ∀ {a : List α} {a' : List β}, ListRel Q a a' → ListRel Q a.reverse a'.reverse
  | [], [], h => h
  | x :: _, y :: _, h => by
    simp only [List.reverse_cons]
    exact ListRel.append (ListRel.reverse h.2) (show ListRel Q [x] [y] from ⟨h.1, trivial⟩)
  | [], _ :: _, h => h.elim
  | _ :: _, [], h => h.elim

theorem ListRel.lstripBy {Q : Char → Char → Prop} (p : Char → Bool) (hp : ∀ c c', Q c c' → p c = p c') :
    ∀ {a a' : Str}, ListRel Q a a' → ListRel Q (lstripBy p a) (lstripBy p a')
  | [], [], h => h
  | c :: _, c' :: _, h => by
    simp only [PyTRS.lstripBy]
    rw [← hp c c' h.1]
    split
    · exact ListRel.lstripBy p hp h.2
    · exact h
  | [], _ :: _, h => h.elim
  | _ :: _, [], h => h.elim

theorem DigRel.pyIsSpace {c c' : Char} (h : DigRel c c') : pyIsSpace c = pyIsSpace c' := by
  rcases h with h | ⟨h, h'⟩
  · rw [h]
  · rw [pyIsSpace_of_isDigit h, pyIsSpace_of_isDigit h']

theorem ListRel.pyStrip {a a' : Str} (h : ListRel DigRel a a') : ListRel DigRel (pyStrip a) (pyStrip a') := by
  unfold PyTRS.pyStrip stripBy rstripBy
  have hp : ∀ c c', DigRel c c' → PyTRS.pyIsSpace c = PyTRS.pyIsSpace c' := fun _ _ hc => hc.pyIsSpace
  exact (ListRel.lstripBy PyTRS.pyIsSpace hp (ListRel.lstripBy PyTRS.pyIsSpace hp h).reverse).reverse

theorem ListRel.slice {α β : Type} {Q : α → β → Prop} {t : List α} {t' : List β} (h : ListRel Q t t') (a b : Nat) :
    ListRel Q ((t.take b).drop a) ((t'.take b).drop a) := ListRel.drop a (ListRel.take b h)

theorem sameUpToDigits_slice (t t' : Str) (h : sameUpToDigits t t' = true) (a b : Nat) :
    sameUpToDigits (slice t a b) (slice t' a b) = true :=
  (sameUpToDigits_iff _ _).2 (ListRel.slice ((sameUpToDigits_iff _ _).1 h) a b)

theorem sameUpToDigits_pyStrip (t t' : Str) (h : sameUpToDigits t t' = true) :
    sameUpToDigits (pyStrip t) (pyStrip t') = true :=
  (sameUpToDigits_iff _ _).2 (ListRel.pyStrip ((sameUpToDigits_iff _ _).1 h))

theorem sameUpToDigits_length (t t' : Str) (h : sameUpToDigits t t' = true) : t.length = t'.length :=
  ListRel.length_eq ((sameUpToDigits_iff _ _).1 h)

/-! ## invariance of the shape -/

set_option maxRecDepth 100000 in
theorem through_digitsAlike : Gen.through_regex.digitsAlike = true := by decide +kernel

/-- the through-test (`through_regex` on the stripped intervener text) does not see which digits are written -/
theorem thruRightmost_digit_invariant (p : Pat) (m : Match) (t t' : Str) (h : sameUpToDigits t t' = true) :
    thruRightmost p m t = thruRightmost p m t' := by
  unfold thruRightmost
  simp only [group_eq_span]
  cases patSpan? p m "intervener" with
  | none => rfl
  | some ab =>
    have hs := sameUpToDigits_pyStrip _ _ (sameUpToDigits_slice t t' h ab.1 ab.2)
    simp only [Option.map_some]
    rw [G3_search_digit_invariant _ through_digitsAlike _ _ hs 0 _, sameUpToDigits_length _ _ hs]

theorem patShape_digit_invariant (p : Pat) (kind : String) (hp : p.rx.digitsAlike = true) (t t' : Str)
    (h : sameUpToDigits t t' = true) (e : Nat) : patShape p kind t e = patShape p kind t' e := by
  unfold patShape
  rw [G3_search_digit_invariant _ hp t t' h 0 e]
  cases p.rx.search t' 0 e with
  | none => rfl
  | some mo => simp only [thruRightmost_digit_invariant p mo t t' h]

theorem C05_secShape_digit_invariant (t t' : Str) (h : sameUpToDigits t t' = true) (e : Nat) :
    secShape t e = secShape t' e := patShape_digit_invariant multisec "sec" multisec_digitsAlike t t' h e

theorem C05_lotShape_digit_invariant (t t' : Str) (h : sameUpToDigits t t' = true) (e : Nat) :
    lotShape t e = lotShape t' e := patShape_digit_invariant multilot "lot" multilot_digitsAlike t t' h e


/-! ## the lexical hypothesis, over spans -/

abbrev SpanTok := (Nat × Nat) × Bool

/-- read the number of a span token in `t` -/
def readTok (t : Str) (x : SpanTok) : Int × Bool := (numAt t x.1, x.2)

/-- `LexList` with the numbers given by their spans: reading right to left from `e` meets number groups at exactly these
    spans (right to left), each with its through-flag -/
inductive LexShape (shape : Nat → Option Shape) : Nat → List SpanTok → Prop
  | done (e : Nat) (h : shape e = none) : LexShape shape e []
  | last (e : Nat) (sp : Nat × Nat) (thru : Bool) (start : Nat) (h : shape e = some (sp, false, start, thru))
         (h0 : shape 0 = none) : LexShape shape e [(sp, thru)]
  | more (e : Nat) (sp : Nat × Nat) (thru : Bool) (start : Nat) (rest : List SpanTok)
         (h : shape e = some (sp, true, start, thru)) (hlt : start < e)
         (hr : LexShape shape start rest) : LexShape shape e ((sp, thru) :: rest)

theorem LexShape.length_le {shape : Nat → Option Shape} {e : Nat} {sps : List SpanTok}
    (h : LexShape shape e sps) : sps.length ≤ e + 1 := by
  induction h with
  | done e h => simp
  | last e sp thru start h h0 => simp
  | more e sp thru start rest h hlt hr ih => simp only [List.length_cons]; omega

/-- the reading is a function of the shape view -/
theorem LexShape.unique {shape : Nat → Option Shape} {e : Nat} {a b : List SpanTok}
    (ha : LexShape shape e a) (hb : LexShape shape e b) : a = b := by
  induction ha generalizing b with
  | done e h =>
    cases hb with
    | done _ _ => rfl
    | last _ _ _ _ h' _ => rw [h] at h'; cases h'
    | more _ _ _ _ _ h' _ _ => rw [h] at h'; cases h'
  | last e sp thru start h h0 =>
    cases hb with
    | done _ h' => rw [h] at h'; cases h'
    | last _ _ _ _ h' _ => rw [h] at h'; cases h'; rfl
    | more _ _ _ _ _ h' _ _ => rw [h] at h'; cases h'
  | more e sp thru start rest h hlt hr ih =>
    cases hb with
    | done _ h' => rw [h] at h'; cases h'
    | last _ _ _ _ h' _ => rw [h] at h'; cases h'
    | more _ _ _ _ _ h' _ hr' => rw [h] at h'; cases h'; rw [ih hr']

/-- generic: a view that is the shape with the numbers read in `t` -/
theorem lexList_of_lexShape {view : Nat → Option (Int × Bool × Nat × Bool)} {shape : Nat → Option Shape} (t : Str)
    (hv : ∀ e, view e = (shape e).map (readShape t)) {e : Nat} {sps : List SpanTok} (h : LexShape shape e sps) :
    LexList view e (sps.map (readTok t)) := by
  induction h with
  | done e h => exact .done e (by rw [hv, h]; rfl)
  | last e sp thru start h h0 =>
    exact .last e (numAt t sp) thru start (by rw [hv, h]; rfl) (by rw [hv, h0]; rfl)
  | more e sp thru start rest h hlt hr ih =>
    exact .more e (numAt t sp) thru start _ (by rw [hv, h]; rfl) hlt ih

theorem lexShape_of_lexList {view : Nat → Option (Int × Bool × Nat × Bool)} {shape : Nat → Option Shape} (t : Str)
    (hv : ∀ e, view e = (shape e).map (readShape t)) {e : Nat} {ts : List (Int × Bool)} (h : LexList view e ts) :
    ∃ sps, LexShape shape e sps ∧ sps.map (readTok t) = ts := by
  have hnone : ∀ e, view e = none → shape e = none := by
    intro e h
    rw [hv] at h
    cases hs : shape e with
    | none => rfl
    | some x => rw [hs] at h; cases h
  have hsome : ∀ e n multi start thru, view e = some (n, multi, start, thru) →
      ∃ sp, shape e = some (sp, multi, start, thru) ∧ numAt t sp = n := by
    intro e n multi start thru h
    rw [hv] at h
    cases hs : shape e with
    | none => rw [hs] at h; cases h
    | some x =>
      rw [hs] at h
      obtain ⟨sp, m, st, th⟩ := x
      simp only [Option.map_some, readShape, Option.some.injEq, Prod.mk.injEq] at h
      obtain ⟨h1, h2, h3, h4⟩ := h
      exact ⟨sp, by rw [h2, h3, h4], h1⟩
  induction h with
  | done e h => exact ⟨[], .done e (hnone e h), rfl⟩
  | last e n thru start h h0 =>
    obtain ⟨sp, hs, hn⟩ := hsome _ _ _ _ _ h
    exact ⟨[(sp, thru)], .last e sp thru start hs (hnone 0 h0), by simp [readTok, hn]⟩
  | more e n thru start rest h hlt hr ih =>
    obtain ⟨sp, hs, hn⟩ := hsome _ _ _ _ _ h
    obtain ⟨sps, hsps, hmap⟩ := ih
    exact ⟨(sp, thru) :: sps, .more e sp thru start sps hs hlt hsps, by simp [readTok, hn, ← hmap]⟩

/-! ### the executable trace -/

/-- the span tokens met when reading right to left from `e`, or `none` when the reading is not a `LexShape`
    (a non-multi match that is not the last one, an `endpos` that does not decrease, or fuel exhausted) -/
def shapeTrace (shape : Nat → Option Shape) : Nat → Nat → Option (List SpanTok)
  | 0, _ => none
  | fuel+1, e =>
    match shape e with
    | none => some []
    | some (sp, multi, start, thru) =>
      if multi then (if start < e then (shapeTrace shape fuel start).map ((sp, thru) :: ·) else none)
      else if (shape 0).isNone then some [(sp, thru)] else none

theorem lexShape_of_shapeTrace (shape : Nat → Option Shape) : ∀ (fuel e : Nat) (sps : List SpanTok),
    shapeTrace shape fuel e = some sps → LexShape shape e sps
  | 0, _, _, h => by simp [shapeTrace] at h
  | fuel+1, e, sps, h => by
    rw [shapeTrace] at h
    cases hs : shape e with
    | none => rw [hs] at h; cases h; exact .done e hs
    | some x =>
      obtain ⟨sp, multi, start, thru⟩ := x
      rw [hs] at h
      simp only [] at h
      cases multi with
      | true =>
        simp only [if_true] at h
        by_cases hlt : start < e
        · simp only [hlt, if_true, Option.map_eq_some_iff] at h
          obtain ⟨rest, hrest, rfl⟩ := h
          exact .more e sp thru start rest hs hlt (lexShape_of_shapeTrace shape fuel start rest hrest)
        · simp [hlt] at h
      | false =>
        simp only [Bool.false_eq_true, if_false] at h
        by_cases h0 : (shape 0).isNone = true
        · simp only [h0, if_true] at h
          cases h
          exact .last e sp thru start hs (Option.isNone_iff_eq_none.mp h0)
        · simp [h0] at h

theorem shapeTrace_of_lexShape {shape : Nat → Option Shape} {e : Nat} {sps : List SpanTok} (h : LexShape shape e sps) :
    ∀ fuel, sps.length < fuel → shapeTrace shape fuel e = some sps := by
  induction h with
  | done e h =>
    intro fuel hf
    obtain ⟨f, rfl⟩ : ∃ f, fuel = f + 1 := ⟨fuel - 1, by simp at hf; omega⟩
    rw [shapeTrace, h]
  | last e sp thru start h h0 =>
    intro fuel hf
    obtain ⟨f, rfl⟩ : ∃ f, fuel = f + 1 := ⟨fuel - 1, by simp at hf; omega⟩
    rw [shapeTrace, h]
    simp [h0]
  | more e sp thru start rest h hlt hr ih =>
    intro fuel hf
    obtain ⟨f, rfl⟩ : ∃ f, fuel = f + 1 := ⟨fuel - 1, by simp at hf; omega⟩
    rw [shapeTrace, h]
    simp only [if_true, hlt, ih f (by simp at hf; omega), Option.map_some]

/-- the whole-text trace, with the fuel of `unpackSections` / `unpackLots` -/
def secShapeTrace (t : Str) : Option (List SpanTok) := shapeTrace (secShape t) (t.length + 2) t.length
def lotShapeTrace (t : Str) : Option (List SpanTok) := shapeTrace (lotShape t) (t.length + 2) t.length

theorem C05_secShapeTrace_digit_invariant (t t' : Str) (h : sameUpToDigits t t' = true) :
    secShapeTrace t = secShapeTrace t' := by
  unfold secShapeTrace
  rw [funext (C05_secShape_digit_invariant t t' h), sameUpToDigits_length t t' h]

theorem C05_lotShapeTrace_digit_invariant (t t' : Str) (h : sameUpToDigits t t' = true) :
    lotShapeTrace t = lotShapeTrace t' := by
  unfold lotShapeTrace
  rw [funext (C05_lotShape_digit_invariant t t' h), sameUpToDigits_length t t' h]

/-- the trace decides the whole-text lexical reading -/
theorem C05_secShapeTrace_iff (t : Str) (sps : List SpanTok) :
    secShapeTrace t = some sps ↔ LexShape (secShape t) t.length sps :=
  ⟨lexShape_of_shapeTrace _ _ _ _, fun h => shapeTrace_of_lexShape h _ (by have := h.length_le; omega)⟩

theorem C05_lotShapeTrace_iff (t : Str) (sps : List SpanTok) :
    lotShapeTrace t = some sps ↔ LexShape (lotShape t) t.length sps :=
  ⟨lexShape_of_shapeTrace _ _ _ _, fun h => shapeTrace_of_lexShape h _ (by have := h.length_le; omega)⟩

/-! ### consequences for `LexList` -/

/-- if reading `t` right to left from `e` meets number groups at the spans `sps`, the lexical hypothesis of
    `C05_sections_expand` holds with the numbers of `t` read at those spans -/
theorem C05_lexlist_of_shape (t : Str) (e : Nat) (sps : List SpanTok) (h : LexShape (secShape t) e sps) :
    LexList (secView t) e (sps.map (readTok t)) := lexList_of_lexShape t (C05_secView_eq_shape t) h

theorem C05_lexlist_of_shape_lots (t : Str) (e : Nat) (sps : List SpanTok) (h : LexShape (lotShape t) e sps) :
    LexList (lotView t) e (sps.map (readTok t)) := lexList_of_lexShape t (C05_lotView_eq_shape t) h

/-- conversely every lexical reading comes from a span reading -/
theorem C05_shape_of_lexlist (t : Str) (e : Nat) (ts : List (Int × Bool)) (h : LexList (secView t) e ts) :
    ∃ sps, LexShape (secShape t) e sps ∧ sps.map (readTok t) = ts := lexShape_of_lexList t (C05_secView_eq_shape t) h

theorem C05_shape_of_lexlist_lots (t : Str) (e : Nat) (ts : List (Int × Bool)) (h : LexList (lotView t) e ts) :
    ∃ sps, LexShape (lotShape t) e sps ∧ sps.map (readTok t) = ts := lexShape_of_lexList t (C05_lotView_eq_shape t) h

/-- the span reading is the same on texts that differ only in which digits are written -/
theorem C05_lexshape_digit_invariant (t t' : Str) (h : sameUpToDigits t t' = true) (e : Nat) (sps : List SpanTok) :
    LexShape (secShape t) e sps ↔ LexShape (secShape t') e sps := by
  rw [funext (C05_secShape_digit_invariant t t' h)]

theorem C05_lexshape_digit_invariant_lots (t t' : Str) (h : sameUpToDigits t t' = true) (e : Nat) (sps : List SpanTok) :
    LexShape (lotShape t) e sps ↔ LexShape (lotShape t') e sps := by
  rw [funext (C05_lotShape_digit_invariant t t' h)]

/-- transfer of the lexical hypothesis: the tokens of `t` sit at spans `sps`; `t'` has its tokens at the same spans,
    with the same flags, and its numbers are those written in `t'` at these spans -/
theorem C05_lexlist_digit_transfer (t t' : Str) (h : sameUpToDigits t t' = true) (e : Nat) (ts : List (Int × Bool))
    (hl : LexList (secView t) e ts) :
    ∃ sps : List SpanTok, LexShape (secShape t) e sps ∧ ts = sps.map (readTok t) ∧
      LexList (secView t') e (sps.map (readTok t')) := by
  obtain ⟨sps, hs, hm⟩ := C05_shape_of_lexlist t e ts hl
  exact ⟨sps, hs, hm.symm, C05_lexlist_of_shape t' e sps ((C05_lexshape_digit_invariant t t' h e sps).1 hs)⟩

theorem C05_lexlist_digit_transfer_lots (t t' : Str) (h : sameUpToDigits t t' = true) (e : Nat) (ts : List (Int × Bool))
    (hl : LexList (lotView t) e ts) :
    ∃ sps : List SpanTok, LexShape (lotShape t) e sps ∧ ts = sps.map (readTok t) ∧
      LexList (lotView t') e (sps.map (readTok t')) := by
  obtain ⟨sps, hs, hm⟩ := C05_shape_of_lexlist_lots t e ts hl
  exact ⟨sps, hs, hm.symm, C05_lexlist_of_shape_lots t' e sps ((C05_lexshape_digit_invariant_lots t t' h e sps).1 hs)⟩

/-- the same in the `∃ ts'` form: same length, same flags, numbers read in `t'` where `t` has the numbers of `ts` -/
theorem C05_lexlist_digit_transfer' (t t' : Str) (h : sameUpToDigits t t' = true) (e : Nat) (ts : List (Int × Bool))
    (hl : LexList (secView t) e ts) :
    ∃ ts', LexList (secView t') e ts' ∧ ts'.map (·.2) = ts.map (·.2) ∧
      ∃ spans : List (Nat × Nat), ts.map (·.1) = spans.map (numAt t) ∧ ts'.map (·.1) = spans.map (numAt t') := by
  obtain ⟨sps, _, hts, hl'⟩ := C05_lexlist_digit_transfer t t' h e ts hl
  refine ⟨_, hl', ?_, sps.map (·.1), ?_, ?_⟩ <;> simp [hts, readTok, Function.comp_def]

theorem C05_lexlist_digit_transfer_lots' (t t' : Str) (h : sameUpToDigits t t' = true) (e : Nat) (ts : List (Int × Bool))
    (hl : LexList (lotView t) e ts) :
    ∃ ts', LexList (lotView t') e ts' ∧ ts'.map (·.2) = ts.map (·.2) ∧
      ∃ spans : List (Nat × Nat), ts.map (·.1) = spans.map (numAt t) ∧ ts'.map (·.1) = spans.map (numAt t') := by
  obtain ⟨sps, _, hts, hl'⟩ := C05_lexlist_digit_transfer_lots t t' h e ts hl
  refine ⟨_, hl', ?_, sps.map (·.1), ?_, ?_⟩ <;> simp [hts, readTok, Function.comp_def]


/-! ## end to end: one executed row per shape covers all numbers -/

/-! ### "determined by (shape, numbers at the spans)" -/

/-- the section list as a function of the span tokens (right to left) and the numbers written at the spans -/
def secF (sps : List SpanTok) (nums : List Int) : List Str :=
  ((nums.zip (sps.map (·.2))).foldl rlStepS ([], false)).1.reverse

/-- the lot list, likewise -/
def lotF (sps : List SpanTok) (nums : List Int) : List Str :=
  ((nums.zip (sps.map (·.2))).foldl rlStep ([], false)).1.reverse.map lotName

theorem zip_nums_flags (t : Str) (sps : List SpanTok) :
    (sps.map (fun x => numAt t x.1)).zip (sps.map (·.2)) = sps.map (readTok t) := by
  induction sps with
  | nil => rfl
  | cons x r ih => simp only [List.map_cons, List.zip_cons_cons, ih]; rfl

/-- sections: if the executed shape trace of ONE text `t` is `sps`, then for EVERY `t'` that differs from `t` only in
    which digits are written, `unpackSections t'` is `secF sps` of the numbers written in `t'` at those spans -/
theorem C05_sections_determined_by_shape (t : Str) (sps : List SpanTok) (htr : secShapeTrace t = some sps)
    (t' : Str) (h : sameUpToDigits t t' = true) :
    (unpackSections t').secList = secF sps (sps.map (fun x => numAt t' x.1)) ∧ (unpackSections t').diverged = false := by
  rw [C05_secShapeTrace_digit_invariant t t' h, C05_secShapeTrace_iff] at htr
  have hl := C05_lexlist_of_shape t' _ sps htr
  have hlen := hl.length_le
  have := secLoop_refines t' _ t'.length (t'.length + 2) hl (by omega) {}
  rw [(unpackSections_eq t').1, (unpackSections_eq t').2, this.1, this.2, secF, zip_nums_flags]
  exact ⟨rfl, rfl⟩

theorem C05_lots_determined_by_shape (t : Str) (sps : List SpanTok) (htr : lotShapeTrace t = some sps)
    (t' : Str) (h : sameUpToDigits t t' = true) :
    (unpackLots t').lotList = lotF sps (sps.map (fun x => numAt t' x.1)) ∧ (unpackLots t').diverged = false := by
  rw [C05_lotShapeTrace_digit_invariant t t' h, C05_lotShapeTrace_iff] at htr
  have hl := C05_lexlist_of_shape_lots t' _ sps htr
  have hlen := hl.length_le
  have := lotLoop_refines t' _ t'.length (t'.length + 2) hl (by omega) {}
  rw [(unpackLots_eq t').1, (unpackLots_eq t').2, this.1, this.2, lotF, zip_nums_flags]
  exact ⟨rfl, rfl⟩

/-! ### items with their numbers replaced -/

/-- the items with their numbers replaced, in reading order, by `ns` (one per single, two per range);
    `[]` from the point where the numbers run out -/
def renumber : List Item → List Int → List Item
  | .single _ :: r, n :: ns => .single n :: renumber r ns
  | .range _ _ :: r, a :: b :: ns => .range a b :: renumber r ns
  | _, _ => []

theorem tokens_renumber (items : List Item) : ∀ (ts : List (Int × Bool)),
    ts.map (·.2) = (tokens items).map (·.2) → tokens (renumber items (ts.map (·.1))) = ts := by
  induction items with
  | nil =>
    intro ts h
    cases ts with
    | nil => rfl
    | cons _ _ => simp [tokens] at h
  | cons it r ih =>
    intro ts h
    rw [tokens_cons] at h
    cases it with
    | single n =>
      match ts, h with
      | (x, f) :: ts', h =>
        simp only [Item.tokens, List.cons_append, List.nil_append, List.map_cons, List.cons.injEq] at h
        simp only [List.map_cons, renumber, tokens_cons, Item.tokens, List.cons_append, List.nil_append, ih ts' h.2, h.1]
    | range a b =>
      match ts, h with
      | (x, f) :: (y, g) :: ts', h =>
        simp only [Item.tokens, List.cons_append, List.nil_append, List.map_cons, List.cons.injEq] at h
        simp only [List.map_cons, renumber, tokens_cons, Item.tokens, List.cons_append, List.nil_append, ih ts' h.2.2,
          h.1, h.2.1]

theorem renumber_nonneg (items : List Item) : ∀ (ns : List Int), (∀ n ∈ ns, 0 ≤ n) →
    ∀ x ∈ expand (renumber items ns), 0 ≤ x := by
  induction items with
  | nil => intro ns _ x hx; simp [renumber, expand] at hx
  | cons it r ih =>
    intro ns hns x hx
    cases it with
    | single n =>
      cases ns with
      | nil => simp [renumber, expand] at hx
      | cons a ns' =>
        simp only [renumber, expand_cons, Item.expand, List.mem_append, List.mem_singleton] at hx
        rcases hx with rfl | hx
        · exact hns _ (by simp)
        · exact ih ns' (fun n hn => hns n (by simp [hn])) x hx
    | range a b =>
      match ns, hns, hx with
      | [], _, hx => simp [renumber, expand] at hx
      | [_], _, hx => simp [renumber, expand] at hx
      | a' :: b' :: ns', hns, hx =>
        simp only [renumber, expand_cons, List.mem_append] at hx
        rcases hx with hx | hx
        · have ha := hns a' (by simp)
          have hb := hns b' (by simp)
          have := (C05_range_expand_mem a' b' x).1 hx
          omega
        · exact ih ns' (fun n hn => hns n (by simp [hn])) x hx

/-- the number at a span is non-negative when only digits are written there -/
def digitSpan (t : Str) (sp : Nat × Nat) : Bool := (slice t sp.1 sp.2).all Char.isDigit

theorem numAt_nonneg_of_digitSpan (t : Str) (sp : Nat × Nat) (h : digitSpan t sp = true) : 0 ≤ numAt t sp := by
  unfold numAt
  unfold digitSpan at h
  cases hs : slice t sp.1 sp.2 with
  | nil => decide
  | cons c r =>
    rw [hs] at h
    rw [pyInt?_of_digits (c :: r) (by simp) (by simpa using h)]
    simp

theorem ListRel.all_isDigit : ∀ {a a' : Str}, ListRel DigRel a a' → a.all Char.isDigit = true → a'.all Char.isDigit = true
  | [], [], _, _ => rfl
  | c :: _, c' :: _, h, hd => by
    simp only [List.all_cons, Bool.and_eq_true] at hd ⊢
    refine ⟨?_, ListRel.all_isDigit h.2 hd.2⟩
    rcases h.1 with heq | ⟨_, h'⟩
    · rw [← heq]; exact hd.1
    · exact h'
  | [], _ :: _, h, _ => h.elim
  | _ :: _, [], h, _ => h.elim

/-- digit spans stay digit spans -/
theorem digitSpan_digit_invariant (t t' : Str) (h : sameUpToDigits t t' = true) (sp : Nat × Nat)
    (hd : digitSpan t sp = true) : digitSpan t' sp = true :=
  ListRel.all_isDigit (ListRel.slice ((sameUpToDigits_iff _ _).1 h) sp.1 sp.2) hd

/-! ### sections -/

/-- from a lexical table row to all numbers: if the lexical reading holds for ONE text `t` with `items`, there are span
    tokens `sps` (right to left; they are THE shape trace of `t`) at which `t` has the numbers of `items`, such that for
    every `t'` that differs from `t` only in which digits are written, `unpackSections t'` is the expansion of the items
    with their numbers replaced by those written in `t'` at the spans (provided these are not negative) -/
theorem C05_sections_expand_all_numbers (t : Str) (items : List Item)
    (hl : LexList (secView t) t.length (tokens items).reverse) :
    ∃ sps : List SpanTok, secShapeTrace t = some sps ∧ sps.reverse.map (readTok t) = tokens items ∧
      ∀ (t' : Str), sameUpToDigits t t' = true → (∀ x ∈ sps, 0 ≤ numAt t' x.1) →
        (unpackSections t').secList = (expand (renumber items (sps.reverse.map (fun x => numAt t' x.1)))).map pad2 ∧
        (unpackSections t').diverged = false := by
  obtain ⟨sps, hs, hm⟩ := C05_shape_of_lexlist t _ _ hl
  refine ⟨sps, (C05_secShapeTrace_iff t sps).2 hs, by rw [List.map_reverse, hm, List.reverse_reverse], ?_⟩
  intro t' h hnn
  have hs' : LexShape (secShape t') t'.length sps := by
    rw [← sameUpToDigits_length t t' h]; exact (C05_lexshape_digit_invariant t t' h _ sps).1 hs
  have hl' := C05_lexlist_of_shape t' _ sps hs'
  have hfl : ((sps.map (readTok t')).reverse).map (·.2) = (tokens items).map (·.2) := by
    have : (sps.map (readTok t)).map (·.2) = (sps.map (readTok t')).map (·.2) := by simp [readTok, Function.comp_def]
    rw [List.map_reverse, ← this, hm, ← List.map_reverse, List.reverse_reverse]
  have hren := tokens_renumber items _ hfl
  have hnum : ((sps.map (readTok t')).reverse).map (·.1) = sps.reverse.map (fun x => numAt t' x.1) := by
    simp [readTok, Function.comp_def]
  rw [hnum] at hren
  refine C05_sections_expand t' _ (by rw [hren, List.reverse_reverse]; exact hl') ?_
  exact renumber_nonneg items _ (by
    intro n hn
    simp only [List.mem_map, List.mem_reverse] at hn
    obtain ⟨x, hx, rfl⟩ := hn
    exact hnn x hx)

/-- the executable form: three checks on ONE text `t` (its shape trace, that the flags fit the item structure, that
    only digits are written at the spans) give the expansion for EVERY text `t'` of the same shape -/
theorem C05_sections_expand_of_trace (t : Str) (items : List Item) (sps : List SpanTok)
    (htr : secShapeTrace t = some sps)
    (hfl : sps.reverse.map (·.2) = (tokens items).map (·.2))
    (hdig : sps.all (fun x => digitSpan t x.1) = true)
    (t' : Str) (h : sameUpToDigits t t' = true) :
    (unpackSections t').secList = (expand (renumber items (sps.reverse.map (fun x => numAt t' x.1)))).map pad2 ∧
    (unpackSections t').diverged = false := by
  rw [C05_secShapeTrace_digit_invariant t t' h, C05_secShapeTrace_iff] at htr
  have hl' := C05_lexlist_of_shape t' _ sps htr
  have hfl' : ((sps.map (readTok t')).reverse).map (·.2) = (tokens items).map (·.2) := by
    rw [← hfl]; simp [readTok, Function.comp_def]
  have hren := tokens_renumber items _ hfl'
  have hnum : ((sps.map (readTok t')).reverse).map (·.1) = sps.reverse.map (fun x => numAt t' x.1) := by
    simp [readTok, Function.comp_def]
  rw [hnum] at hren
  refine C05_sections_expand t' _ (by rw [hren, List.reverse_reverse]; exact hl') ?_
  exact renumber_nonneg items _ (by
    intro n hn
    simp only [List.mem_map, List.mem_reverse] at hn
    obtain ⟨x, hx, rfl⟩ := hn
    exact numAt_nonneg_of_digitSpan t' x.1
      (digitSpan_digit_invariant t t' h x.1 (by simpa using (List.all_eq_true.mp hdig) x hx)))

/-! ### lots -/

theorem C05_lots_expand_all_numbers (t : Str) (items : List Item)
    (hl : LexList (lotView t) t.length (tokens items).reverse) :
    ∃ sps : List SpanTok, lotShapeTrace t = some sps ∧ sps.reverse.map (readTok t) = tokens items ∧
      ∀ (t' : Str), sameUpToDigits t t' = true →
        (unpackLots t').lotList = (expand (renumber items (sps.reverse.map (fun x => numAt t' x.1)))).map lotName ∧
        (unpackLots t').diverged = false := by
  obtain ⟨sps, hs, hm⟩ := C05_shape_of_lexlist_lots t _ _ hl
  refine ⟨sps, (C05_lotShapeTrace_iff t sps).2 hs, by rw [List.map_reverse, hm, List.reverse_reverse], ?_⟩
  intro t' h
  have hs' : LexShape (lotShape t') t'.length sps := by
    rw [← sameUpToDigits_length t t' h]; exact (C05_lexshape_digit_invariant_lots t t' h _ sps).1 hs
  have hl' := C05_lexlist_of_shape_lots t' _ sps hs'
  have hfl : ((sps.map (readTok t')).reverse).map (·.2) = (tokens items).map (·.2) := by
    have : (sps.map (readTok t)).map (·.2) = (sps.map (readTok t')).map (·.2) := by simp [readTok, Function.comp_def]
    rw [List.map_reverse, ← this, hm, ← List.map_reverse, List.reverse_reverse]
  have hren := tokens_renumber items _ hfl
  have hnum : ((sps.map (readTok t')).reverse).map (·.1) = sps.reverse.map (fun x => numAt t' x.1) := by
    simp [readTok, Function.comp_def]
  rw [hnum] at hren
  exact C05_lots_expand t' _ (by rw [hren, List.reverse_reverse]; exact hl')

theorem C05_lots_expand_of_trace (t : Str) (items : List Item) (sps : List SpanTok)
    (htr : lotShapeTrace t = some sps)
    (hfl : sps.reverse.map (·.2) = (tokens items).map (·.2))
    (t' : Str) (h : sameUpToDigits t t' = true) :
    (unpackLots t').lotList = (expand (renumber items (sps.reverse.map (fun x => numAt t' x.1)))).map lotName ∧
    (unpackLots t').diverged = false := by
  rw [C05_lotShapeTrace_digit_invariant t t' h, C05_lotShapeTrace_iff] at htr
  have hl' := C05_lexlist_of_shape_lots t' _ sps htr
  have hfl' : ((sps.map (readTok t')).reverse).map (·.2) = (tokens items).map (·.2) := by
    rw [← hfl]; simp [readTok, Function.comp_def]
  have hren := tokens_renumber items _ hfl'
  have hnum : ((sps.map (readTok t')).reverse).map (·.1) = sps.reverse.map (fun x => numAt t' x.1) := by
    simp [readTok, Function.comp_def]
  rw [hnum] at hren
  exact C05_lots_expand t' _ (by rw [hren, List.reverse_reverse]; exact hl')


/-! ## lots: the rest of what `lotLoop` consults (acreage text, `word_lot_rightmost`) -/

/-- the span of the acreage text that `getRightmostAcreage` finds (a second regex, on `txt[start_of_rightmost:mo.end()]`) -/
def acreageSpan (mo : Match) (txt : Str) : Option (Nat × Nat) :=
  match lotAcresUnpacker.rx.search txt (startOfRightmost multilot mo) mo.stop with
  | none => none
  | some am => patSpan? lotAcresUnpacker am "acreage"

/-- the bracket removal applied to the acreage text -/
def cleanAcreage (a : Str) : Str := a.filter (fun c => c != '[' && c != ']' && c != '(' && c != ')')

theorem getRightmostAcreage_eq (mo : Match) (txt : Str) :
    getRightmostAcreage mo txt = (acreageSpan mo txt).map (fun ab => cleanAcreage (slice txt ab.1 ab.2)) := by
  unfold getRightmostAcreage acreageSpan
  simp only []
  cases lotAcresUnpacker.rx.search txt (startOfRightmost multilot mo) mo.stop with
  | none => rfl
  | some am =>
    simp only [group_eq_span]
    cases patSpan? lotAcresUnpacker am "acreage" <;> rfl

set_option maxRecDepth 100000 in
theorem lotAcresUnpacker_digitsAlike : lotAcresUnpacker.rx.digitsAlike = true := by decide +kernel

theorem acreageSpan_digit_invariant (mo : Match) (t t' : Str) (h : sameUpToDigits t t' = true) :
    acreageSpan mo t = acreageSpan mo t' := by
  unfold acreageSpan
  rw [G3_search_digit_invariant _ lotAcresUnpacker_digitsAlike t t' h]

/-- everything one iteration of `lotLoop` observes, as spans and flags:
    (shape, span of the acreage text, `word_lot_rightmost` participated) -/
def lotShapeX (txt : Str) (endpos : Nat) : Option (Shape × Option (Nat × Nat) × Bool) :=
  match multilot.rx.search txt 0 endpos with
  | none => none
  | some mo => some (((getRightmostS multilot "lot" mo).getD (0, 0), isMultiS multilot "lot" mo == some true,
                      startOfRightmost multilot mo, thruRightmost multilot mo txt),
                     acreageSpan mo txt, (patSpan? multilot mo "word_lot_rightmost").isSome)

theorem lotShapeX_fst (txt : Str) (e : Nat) : (lotShapeX txt e).map (·.1) = lotShape txt e := by
  unfold lotShapeX lotShape patShape
  cases multilot.rx.search txt 0 e <;> rfl

theorem C05_lotShapeX_digit_invariant (t t' : Str) (h : sameUpToDigits t t' = true) (e : Nat) :
    lotShapeX t e = lotShapeX t' e := by
  unfold lotShapeX
  rw [show multilot.rx.search t 0 e = multilot.rx.search t' 0 e from
    G3_search_digit_invariant _ multilot_digitsAlike t t' h 0 e]
  cases multilot.rx.search t' 0 e with
  | none => rfl
  | some mo => simp only [thruRightmost_digit_invariant multilot mo t t' h, acreageSpan_digit_invariant mo t t' h]

/-- one iteration of `lotLoop` as a function of `lotShapeX` and the texts written at its spans: the new state is
    explicit, so the WHOLE result of `unpackLots` (lot list, acreages, flags, `aliquotsThrough`) is determined by the
    shape and the texts at the spans -/
theorem C05_lotLoop_succ_shape (txt : Str) (fuel e : Nat) (st : LotLoopSt) :
    lotLoop txt (fuel + 1) e st =
      match lotShapeX txt e with
      | none => (st, false)
      | some ((sp, multi, start, thru), asp, wordLot) =>
        let n := numAt txt sp
        let st2 := lotAcreStep (lotRangeStep st n) n (asp.map (fun ab => cleanAcreage (slice txt ab.1 ab.2)))
        let st3 := { st2 with foundThrough := thru }
        let st4 := if wordLot && !thru then { st3 with wordLotEncountered := st3.working.length } else st3
        lotLoop txt fuel (if multi then start else 0) st4 := by
  rw [lotLoop]
  unfold lotShapeX
  cases multilot.rx.search txt 0 e with
  | none => rfl
  | some mo =>
    simp only [rightmost_value, isMulti_eq, getRightmostAcreage_eq, group_eq_span, Option.isSome_map]

/-! ## non-vacuity -/

section Examples
set_option maxRecDepth 100000

/-- the shape trace of a real section list: three number groups, the middle one after a through-connective -/
example : secShapeTrace (S "Sections 14 - 17 and 20") = some [((21, 23), false), ((14, 16), true), ((9, 11), false)] := by
  decide +kernel

/-- … equal (by the theorem, not by evaluation) to that of the renumbered text -/
example : secShapeTrace (S "Sections 14 - 17 and 20") = secShapeTrace (S "Sections 25 - 28 and 31") :=
  C05_secShapeTrace_digit_invariant _ _ (by decide)

/-- … while the views differ, and only in the numbers -/
example : secView (S "Sections 14 - 17 and 20") 23 = some (20, true, 16, false)
    ∧ secView (S "Sections 25 - 28 and 31") 23 = some (31, true, 16, false)
    ∧ secShape (S "Sections 14 - 17 and 20") 23 = some ((21, 23), true, 16, false)
    ∧ secShape (S "Sections 25 - 28 and 31") 23 = some ((21, 23), true, 16, false) := by decide +kernel

/-- one executed row ("Sections 14 - 17 and 20": trace, flags, digit spans) gives the result for the other text without
    running the matcher on it; only the three numbers are read in `t'` -/
example : (unpackSections (S "Sections 25 - 28 and 31")).secList = (expand [.range 25 28, .single 31]).map pad2 := by
  have h := (C05_sections_expand_of_trace (S "Sections 14 - 17 and 20") [.range 14 17, .single 20]
    [((21, 23), false), ((14, 16), true), ((9, 11), false)] (by decide +kernel) (by decide) (by decide +kernel)
    (S "Sections 25 - 28 and 31") (by decide)).1
  have hn : [((21, 23), false), ((14, 16), true), ((9, 11), false)].reverse.map
      (fun x : SpanTok => numAt (S "Sections 25 - 28 and 31") x.1) = [25, 28, 31] := by decide +kernel
  rw [hn] at h
  exact h

example : lotShapeTrace (S "Lots 1 - 3 and 14") = some [((15, 17), false), ((9, 10), true), ((5, 6), false)] := by
  decide +kernel

example : lotShapeTrace (S "Lots 1 - 3 and 14") = lotShapeTrace (S "Lots 5 - 8 and 20") :=
  C05_lotShapeTrace_digit_invariant _ _ (by decide)

example : lotView (S "Lots 1 - 3 and 14") 17 = some (14, true, 11, false)
    ∧ lotView (S "Lots 5 - 8 and 20") 17 = some (20, true, 11, false)
    ∧ lotShape (S "Lots 1 - 3 and 14") 17 = some ((15, 17), true, 11, false)
    ∧ lotShape (S "Lots 5 - 8 and 20") 17 = some ((15, 17), true, 11, false) := by decide +kernel

example : (unpackLots (S "Lots 5 - 8 and 20")).lotList = (expand [.range 5 8, .single 20]).map lotName := by
  have h := (C05_lots_expand_of_trace (S "Lots 1 - 3 and 14") [.range 1 3, .single 14]
    [((15, 17), false), ((9, 10), true), ((5, 6), false)] (by decide +kernel) (by decide)
    (S "Lots 5 - 8 and 20") (by decide)).1
  have hn : [((15, 17), false), ((9, 10), true), ((5, 6), false)].reverse.map
      (fun x : SpanTok => numAt (S "Lots 5 - 8 and 20") x.1) = [5, 8, 20] := by decide +kernel
  rw [hn] at h
  exact h

/-- the extended lot shape sees the acreage span and is the same for other digits (also inside the acreage) -/
example : lotShapeX (S "Lots 1(38.12), 2(40.00) and 14") 16 = lotShapeX (S "Lots 7(41.50), 9(39.99) and 23") 16 :=
  C05_lotShapeX_digit_invariant _ _ (by decide) 16

end Examples

#print axioms C05_secView_eq_shape
#print axioms C05_lotView_eq_shape
#print axioms C05_secShape_digit_invariant
#print axioms C05_lotShape_digit_invariant
#print axioms C05_secShapeTrace_digit_invariant
#print axioms C05_lotShapeTrace_digit_invariant
#print axioms C05_secShapeTrace_iff
#print axioms C05_lotShapeTrace_iff
#print axioms C05_lexlist_of_shape
#print axioms C05_lexlist_of_shape_lots
#print axioms C05_shape_of_lexlist
#print axioms C05_shape_of_lexlist_lots
#print axioms C05_lexshape_digit_invariant
#print axioms C05_lexshape_digit_invariant_lots
#print axioms C05_lexlist_digit_transfer
#print axioms C05_lexlist_digit_transfer_lots
#print axioms C05_lexlist_digit_transfer'
#print axioms C05_lexlist_digit_transfer_lots'
#print axioms C05_sections_determined_by_shape
#print axioms C05_lots_determined_by_shape
#print axioms C05_sections_expand_all_numbers
#print axioms C05_sections_expand_of_trace
#print axioms C05_lots_expand_all_numbers
#print axioms C05_lots_expand_of_trace
#print axioms C05_lotShapeX_digit_invariant
#print axioms C05_lotLoop_succ_shape

end PyTRS
