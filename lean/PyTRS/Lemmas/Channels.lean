/-
C13 — one precedence order, three equivalent channels.

A setting can reach the parser through three channels:
  (1) the config given at creation,
  (2) an assignment to `.config` later (before parsing),
  (3) a keyword argument of `parse()`.
This file shows that the three channels give the same effective parser parameters when they carry the same value,
states exactly where the code's own depth rule makes an exception, and gives the summary precedence theorem
(keyword > attribute (config) > class default).
-/
import PyTRS.Lemmas.CfgText
import PyTRS.Model.World
namespace PyTRS
open PyTRS.Obj PyTRS.Config PyTRS.Plss PyTRS.World

/-! ## Attribute maps -/

/-- `A1` is `A0` with attribute `n` set to `v` (as far as `get` can tell) -/
def SetFrom (A0 A1 : Attrs) (n : String) (v : CV) : Prop :=
  A1.get n = some v ∧ ∀ m, m ≠ n → A1.get m = A0.get m

theorem get_nil (m : String) : Cfg.get [] m = none := rfl

theorem get_single (n m : String) (v : CV) : (Cfg.set [] n v).get m = if m = n then some v else none := by
  by_cases h : m = n
  · subst h; simp [get_set_eq]
  · have : n ≠ m := fun e => h e.symm
    simp [h, get_set_ne _ _ _ _ this, get_nil]

theorem get_unset (c : Cfg) (a m : String) : (c.unset a).get m = if m = a then none else c.get m := by
  unfold Cfg.unset Cfg.get
  induction c with
  | nil => simp
  | cons e t ih =>
    obtain ⟨k, x⟩ := e
    by_cases hka : k = a
    · subst hka
      simp only [List.filter_cons, bne_self_eq_false, Bool.false_eq_true, if_false]
      rw [ih]
      by_cases hm : m = k
      · simp [hm]
      · have : (k == m) = false := by simpa using fun e => hm e.symm
        simp [hm, this]
    · have hne : (k != a) = true := by simpa using hka
      simp only [List.filter_cons, hne, if_true, List.find?_cons]
      by_cases hkm : k = m
      · subst hkm
        simp [hka]
      · have : (k == m) = false := by simpa using hkm
        simp only [this]
        exact ih

theorem get_setOpt (c : Cfg) (a m : String) (v : Option CV) :
    (c.setOpt a v).get m = if m = a then v else c.get m := by
  cases v with
  | none => simp only [Cfg.setOpt]; exact get_unset c a m
  | some x =>
    simp only [Cfg.setOpt]
    by_cases h : m = a
    · subst h; simp [get_set_eq]
    · have : a ≠ m := fun e => h e.symm
      simp [h, get_set_ne _ _ _ _ this]

/-- the attributes of a new Tract, read through `get` -/
theorem tractInitAttrs_get (c : Cfg) (pq : Option Bool) (m : String) :
    (tractInitAttrs c pq).get m =
      if m = "parse_qq" ∧ pq.isSome then pq.map CV.b
      else if Gen.TRACT_ATTRIBUTES.contains m then (match c.get m with | some v => some v | none => tractDefaults.get m)
      else tractDefaults.get m := by
  unfold tractInitAttrs
  cases pq with
  | none =>
    simp only [applyConfig_get, Option.isSome_none, Bool.false_eq_true, and_false, if_false]
    rfl
  | some b =>
    by_cases h : m = "parse_qq"
    · subst h
      simp only [get_set_eq, Option.isSome_some, and_self, if_true, Option.map_some]
    · have : "parse_qq" ≠ m := fun e => h e.symm
      simp only [h, false_and, if_false, get_set_ne _ _ _ _ this, applyConfig_get]
      rfl

/-- channel (1) for a Tract: the config at creation carries `n := v` -/
theorem tract_creation_setFrom (c0 : Cfg) (pq : Option Bool) (n : String) (v : CV)
    (hn : n ∈ Gen.TRACT_ATTRIBUTES) (hpq : n = "parse_qq" → pq = none) :
    SetFrom (tractInitAttrs c0 pq) (tractInitAttrs (c0.set n v) pq) n v := by
  have hc : Gen.TRACT_ATTRIBUTES.contains n = true := by simpa using hn
  constructor
  · rw [tractInitAttrs_get, get_set_eq]
    have : ¬ (n = "parse_qq" ∧ pq.isSome = true) := by
      intro ⟨h1, h2⟩
      rw [hpq h1] at h2
      cases h2
    simp only [this, if_false, hc, if_true]
  · intro m hm
    have : n ≠ m := fun e => hm e.symm
    rw [tractInitAttrs_get, tractInitAttrs_get, get_set_ne _ _ _ _ this]

/-- channel (2) for a Tract: `.config` is assigned a config carrying (only) `n := v` -/
theorem tract_assignment_setFrom (A0 : Attrs) (names : List String) (n : String) (v : CV) (hn : n ∈ names) :
    SetFrom A0 (applyConfig A0 names (Cfg.set [] n v)) n v := by
  have hc : names.contains n = true := by simpa using hn
  constructor
  · rw [applyConfig_get, get_set_eq]
    simp only [hc, if_true]
  · intro m hm
    rw [applyConfig_get, get_single]
    simp only [hm, if_false, ite_self]

/-- both config channels produce the same attribute map (read through `get`): creation = assignment -/
theorem C13_tract_creation_eq_assignment (c0 : Cfg) (pq : Option Bool) (n : String) (v : CV)
    (hn : n ∈ Gen.TRACT_ATTRIBUTES) (hpq : n = "parse_qq" → pq = none) (m : String) :
    (tractInitAttrs (c0.set n v) pq).get m
      = (applyConfig (tractInitAttrs c0 pq) Gen.TRACT_ATTRIBUTES (Cfg.set [] n v)).get m := by
  obtain ⟨h1, h2⟩ := tract_creation_setFrom c0 pq n v hn hpq
  obtain ⟨g1, g2⟩ := tract_assignment_setFrom (tractInitAttrs c0 pq) Gen.TRACT_ATTRIBUTES n v hn
  by_cases h : m = n
  · subst h; rw [h1, g1]
  · rw [h2 m h, g2 m h]

/-- `tract.config = cfg` for an already built Config object, spelled out -/
theorem tractSetConfig_obj (t : TractObj) (c : Cfg) :
    tractSetConfig t (.obj c) = .ok { t with attrs := applyConfig t.attrs Gen.TRACT_ATTRIBUTES c, config := c } := rfl

theorem descSetConfig_obj (d : DescObj) (c : Cfg) :
    descSetConfig d (.obj c) = .ok { d with attrs := applyConfig d.attrs Gen.PLSSDESC_ATTRIBUTES c, config := c } := rfl

/-! ## Tract.parse -/

/-- the settings `Tract.parse` reads from the object -/
def tractParseNames : List String :=
  ["clean_qq", "suppress_lot_divs", "break_halves", "qq_depth_min", "qq_depth_max", "qq_depth"]

/-- `Tract.parse` depends on the object's attributes only through these six -/
theorem effectiveTract_congr (A1 A2 : Attrs) (kw : TractKw) (h : ∀ m ∈ tractParseNames, A1.get m = A2.get m) :
    effectiveTract A1 kw = effectiveTract A2 kw := by
  have h1 := h "clean_qq" (by decide)
  have h2 := h "suppress_lot_divs" (by decide)
  have h3 := h "break_halves" (by decide)
  have h4 := h "qq_depth_min" (by decide)
  have h5 := h "qq_depth_max" (by decide)
  have h6 := h "qq_depth" (by decide)
  unfold effectiveTract getB getOptI
  rw [h1, h2, h3, h4, h5, h6]

/-- the two config channels agree for EVERY tract-level setting, value and base keyword record -/
theorem C13_tract_config_channels (c0 : Cfg) (pq : Option Bool) (n : String) (v : CV) (kw : TractKw)
    (hn : n ∈ Gen.TRACT_ATTRIBUTES) (hpq : n = "parse_qq" → pq = none) :
    effectiveTract (tractInitAttrs (c0.set n v) pq) kw
      = effectiveTract (applyConfig (tractInitAttrs c0 pq) Gen.TRACT_ATTRIBUTES (Cfg.set [] n v)) kw :=
  effectiveTract_congr _ _ kw (fun m _ => C13_tract_creation_eq_assignment c0 pq n v hn hpq m)

/-- the same, through the model's `tract.config = …` operation -/
theorem C13_tract_config_channels_obj (t0 : TractObj) (c0 : Cfg) (pq : Option Bool) (n : String) (v : CV) (kw : TractKw)
    (hn : n ∈ Gen.TRACT_ATTRIBUTES) (hpq : n = "parse_qq" → pq = none) (ht : t0.attrs = tractInitAttrs c0 pq) :
    ∃ t2, tractSetConfig t0 (.obj (Cfg.set [] n v)) = .ok t2 ∧
      effectiveTract (tractInitAttrs (c0.set n v) pq) kw = effectiveTract t2.attrs kw := by
  refine ⟨_, tractSetConfig_obj t0 _, ?_⟩
  simp only [ht]
  exact C13_tract_config_channels c0 pq n v kw hn hpq

/-- setting a Boolean tract keyword by name -/
def Obj.TractKw.withBool (kw : TractKw) (n : String) (b : Bool) : TractKw :=
  if n = "clean_qq" then { kw with cleanQQ := some b }
  else if n = "suppress_lot_divs" then { kw with suppressLotDivs := some b }
  else if n = "break_halves" then { kw with breakHalves := some b }
  else kw

def Obj.TractKw.boolOf (kw : TractKw) (n : String) : Option Bool :=
  if n = "clean_qq" then kw.cleanQQ
  else if n = "suppress_lot_divs" then kw.suppressLotDivs
  else if n = "break_halves" then kw.breakHalves
  else none

/-- config channel = keyword channel, for a Boolean setting (abstractly: `A1` is `A0` with `n := b`) -/
theorem effectiveTract_bool_kw (A0 A1 : Attrs) (n : String) (b : Bool) (kw : TractKw)
    (hn : n ∈ ["clean_qq", "suppress_lot_divs", "break_halves"]) (hs : SetFrom A0 A1 n (.b b))
    (hk : kw.boolOf n = none) :
    effectiveTract A1 kw = effectiveTract A0 (kw.withBool n b) := by
  obtain ⟨h1, h2⟩ := hs
  simp only [List.mem_cons, List.not_mem_nil, or_false] at hn
  rcases hn with rfl | rfl | rfl
  · have e2 := h2 "suppress_lot_divs" (by decide)
    have e3 := h2 "break_halves" (by decide)
    have e4 := h2 "qq_depth_min" (by decide)
    have e5 := h2 "qq_depth_max" (by decide)
    have e6 := h2 "qq_depth" (by decide)
    have hk' : kw.cleanQQ = none := hk
    unfold effectiveTract getB getOptI
    rw [h1, e2, e3, e4, e5, e6]
    simp [Obj.TractKw.withBool, hk', cvTruthy]
  · have e1 := h2 "clean_qq" (by decide)
    have e3 := h2 "break_halves" (by decide)
    have e4 := h2 "qq_depth_min" (by decide)
    have e5 := h2 "qq_depth_max" (by decide)
    have e6 := h2 "qq_depth" (by decide)
    have hk' : kw.suppressLotDivs = none := hk
    unfold effectiveTract getB getOptI
    rw [h1, e1, e3, e4, e5, e6]
    simp [Obj.TractKw.withBool, hk', cvTruthy]
  · have e1 := h2 "clean_qq" (by decide)
    have e2 := h2 "suppress_lot_divs" (by decide)
    have e4 := h2 "qq_depth_min" (by decide)
    have e5 := h2 "qq_depth_max" (by decide)
    have e6 := h2 "qq_depth" (by decide)
    have hk' : kw.breakHalves = none := hk
    unfold effectiveTract getB getOptI
    rw [h1, e1, e2, e4, e5, e6]
    simp [Obj.TractKw.withBool, hk', cvTruthy]

theorem bool_names_tract : ∀ n ∈ ["clean_qq", "suppress_lot_divs", "break_halves"],
    n ∈ Gen.TRACT_ATTRIBUTES ∧ n ≠ "parse_qq" := by decide

/-- MAIN (a), Boolean settings: the three channels give the same `Tract.ParseArgs` -/
theorem C13_tract_bool_three_channels (n : String) (hn : n ∈ ["clean_qq", "suppress_lot_divs", "break_halves"])
    (c0 : Cfg) (pq : Option Bool) (b : Bool) (kw : TractKw) (hk : kw.boolOf n = none) :
    effectiveTract (tractInitAttrs (c0.set n (.b b)) pq) kw
        = effectiveTract (applyConfig (tractInitAttrs c0 pq) Gen.TRACT_ATTRIBUTES (Cfg.set [] n (.b b))) kw ∧
    effectiveTract (applyConfig (tractInitAttrs c0 pq) Gen.TRACT_ATTRIBUTES (Cfg.set [] n (.b b))) kw
        = effectiveTract (tractInitAttrs c0 pq) (kw.withBool n b) := by
  obtain ⟨hT, hP⟩ := bool_names_tract n hn
  exact ⟨C13_tract_config_channels c0 pq n (.b b) kw hT (fun h => absurd h hP),
    effectiveTract_bool_kw _ _ n b kw hn (tract_assignment_setFrom _ _ n _ hT) hk⟩

/-- the same with the empty keyword record and the record updates written out -/
theorem C13_tract_bool_three_channels_explicit (c0 : Cfg) (pq : Option Bool) (b : Bool) :
    (effectiveTract (tractInitAttrs (c0.set "clean_qq" (.b b)) pq) {}
        = effectiveTract (applyConfig (tractInitAttrs c0 pq) Gen.TRACT_ATTRIBUTES (Cfg.set [] "clean_qq" (.b b))) {} ∧
     effectiveTract (applyConfig (tractInitAttrs c0 pq) Gen.TRACT_ATTRIBUTES (Cfg.set [] "clean_qq" (.b b))) {}
        = effectiveTract (tractInitAttrs c0 pq) { cleanQQ := some b }) ∧
    (effectiveTract (tractInitAttrs (c0.set "suppress_lot_divs" (.b b)) pq) {}
        = effectiveTract (applyConfig (tractInitAttrs c0 pq) Gen.TRACT_ATTRIBUTES (Cfg.set [] "suppress_lot_divs" (.b b))) {} ∧
     effectiveTract (applyConfig (tractInitAttrs c0 pq) Gen.TRACT_ATTRIBUTES (Cfg.set [] "suppress_lot_divs" (.b b))) {}
        = effectiveTract (tractInitAttrs c0 pq) { suppressLotDivs := some b }) ∧
    (effectiveTract (tractInitAttrs (c0.set "break_halves" (.b b)) pq) {}
        = effectiveTract (applyConfig (tractInitAttrs c0 pq) Gen.TRACT_ATTRIBUTES (Cfg.set [] "break_halves" (.b b))) {} ∧
     effectiveTract (applyConfig (tractInitAttrs c0 pq) Gen.TRACT_ATTRIBUTES (Cfg.set [] "break_halves" (.b b))) {}
        = effectiveTract (tractInitAttrs c0 pq) { breakHalves := some b }) :=
  ⟨C13_tract_bool_three_channels "clean_qq" (by decide) c0 pq b {} rfl,
   C13_tract_bool_three_channels "suppress_lot_divs" (by decide) c0 pq b {} rfl,
   C13_tract_bool_three_channels "break_halves" (by decide) c0 pq b {} rfl⟩

example : effectiveTract (tractInitAttrs (Cfg.set [("qq_depth_max", .i 3), ("clean_qq", .b false)] "clean_qq" (.b true)) (some true)) {}
    = effectiveTract (tractInitAttrs [("qq_depth_max", .i 3), ("clean_qq", .b false)] (some true)) { cleanQQ := some true } :=
  ((C13_tract_bool_three_channels_explicit _ _ _).1.1).trans (C13_tract_bool_three_channels_explicit _ _ _).1.2

/-! ### the depth family of `Tract.parse` -/

theorem setFrom_set (A0 : Attrs) (n : String) (v : CV) : SetFrom A0 (A0.set n v) n v :=
  ⟨get_set_eq A0 n v, fun m hm => get_set_ne A0 n m v (fun e => hm e.symm)⟩

theorem setFrom_unique (A0 A1 A2 : Attrs) (n : String) (v : CV) (h1 : SetFrom A0 A1 n v) (h2 : SetFrom A0 A2 n v)
    (m : String) : A1.get m = A2.get m := by
  by_cases h : m = n
  · subst h; rw [h1.1, h2.1]
  · rw [h1.2 m h, h2.2 m h]

theorem tractInitAttrs_get_depth (c0 : Cfg) (pq : Option Bool) :
    (tractInitAttrs c0 pq).get "qq_depth" = c0.get "qq_depth" ∧
    (tractInitAttrs c0 pq).get "qq_depth_max" = c0.get "qq_depth_max" := by
  rw [tractInitAttrs_get, tractInitAttrs_get]
  have h1 : ¬ ("qq_depth" = "parse_qq" ∧ pq.isSome = true) := fun h => absurd h.1 (by decide)
  have h2 : ¬ ("qq_depth_max" = "parse_qq" ∧ pq.isSome = true) := fun h => absurd h.1 (by decide)
  have c1 : Gen.TRACT_ATTRIBUTES.contains "qq_depth" = true := by decide
  have c2 : Gen.TRACT_ATTRIBUTES.contains "qq_depth_max" = true := by decide
  simp only [h1, h2, if_false, c1, c2, if_true]
  constructor
  · cases c0.get "qq_depth" <;> rfl
  · cases c0.get "qq_depth_max" <;> rfl

/-- setting an integer (depth) keyword by name -/
def Obj.TractKw.withInt (kw : TractKw) (n : String) (v : Int) : TractKw :=
  if n = "qq_depth_min" then { kw with qqDepthMin := some v }
  else if n = "qq_depth_max" then { kw with qqDepthMax := some v }
  else if n = "qq_depth" then { kw with qqDepth := some v }
  else kw

/-- the keyword channel, seen as an attribute update: `qq_depth_min` / `qq_depth_max`, when the object holds no `qq_depth` -/
theorem effectiveTract_minmax_kw (A0 : Attrs) (v : Int) (kw : TractKw) (hq : getOptI A0 "qq_depth" = none) :
    (kw.qqDepthMin = none →
      effectiveTract (A0.set "qq_depth_min" (.i v)) kw = effectiveTract A0 { kw with qqDepthMin := some v }) ∧
    (kw.qqDepthMax = none →
      effectiveTract (A0.set "qq_depth_max" (.i v)) kw = effectiveTract A0 { kw with qqDepthMax := some v }) := by
  unfold getOptI at hq
  constructor <;> intro hk <;> unfold effectiveTract getB getOptI <;>
    simp [get_set_eq, get_set_ne, hk, hq]

/-- MAIN (a), `qq_depth_min` and `qq_depth_max`: the three channels agree provided the base configuration holds no
    `qq_depth` (the other member of the family that an explicit min/max keyword would switch off) -/
theorem C13_tract_minmax_three_channels (n : String) (hn : n ∈ ["qq_depth_min", "qq_depth_max"])
    (c0 : Cfg) (pq : Option Bool) (v : Int) (hq : getOptI c0 "qq_depth" = none) :
    effectiveTract (tractInitAttrs (c0.set n (.i v)) pq) {}
        = effectiveTract (applyConfig (tractInitAttrs c0 pq) Gen.TRACT_ATTRIBUTES (Cfg.set [] n (.i v))) {} ∧
    effectiveTract (applyConfig (tractInitAttrs c0 pq) Gen.TRACT_ATTRIBUTES (Cfg.set [] n (.i v))) {}
        = effectiveTract (tractInitAttrs c0 pq) (({} : TractKw).withInt n v) := by
  have hq' : getOptI (tractInitAttrs c0 pq) "qq_depth" = none := by
    unfold getOptI at hq ⊢; rw [(tractInitAttrs_get_depth c0 pq).1]; exact hq
  simp only [List.mem_cons, List.not_mem_nil, or_false] at hn
  rcases hn with rfl | rfl
  · refine ⟨C13_tract_config_channels c0 pq _ _ {} (by decide) (fun h => absurd h (by decide)), ?_⟩
    show _ = effectiveTract _ { qqDepthMin := some v }
    rw [← (effectiveTract_minmax_kw _ v {} hq').1 rfl]
    exact effectiveTract_congr _ _ _ (fun m _ => setFrom_unique _ _ _ _ _
      (tract_assignment_setFrom _ _ _ _ (by decide)) (setFrom_set _ _ _) m)
  · refine ⟨C13_tract_config_channels c0 pq _ _ {} (by decide) (fun h => absurd h (by decide)), ?_⟩
    show _ = effectiveTract _ { qqDepthMax := some v }
    rw [← (effectiveTract_minmax_kw _ v {} hq').2 rfl]
    exact effectiveTract_congr _ _ _ (fun m _ => setFrom_unique _ _ _ _ _
      (tract_assignment_setFrom _ _ _ _ (by decide)) (setFrom_set _ _ _) m)

/-- the code's own rule: a `qq_depth` held by the object is used only when neither `qq_depth_min` nor `qq_depth_max`
    is passed as a keyword; otherwise it is switched off and min/max follow the ordinary precedence -/
theorem C13_depth_family_keyword_switches_qq_depth_off (A : Attrs) (kw : TractKw) (d : Int)
    (hd : getOptI A "qq_depth" = some d) (hk : kw.qqDepth = none) :
    ((effectiveTract A kw).depth.qqMin, (effectiveTract A kw).depth.qqMax) =
      if kw.qqDepthMin.isSome || kw.qqDepthMax.isSome then
        (kw.qqDepthMin.getD ((getOptI A "qq_depth_min").getD 2),
         match kw.qqDepthMax with | some m => some m | none => getOptI A "qq_depth_max")
      else (d, some d) := by
  unfold effectiveTract
  simp only [hk, hd]
  cases kw.qqDepthMin <;> cases kw.qqDepthMax <;> rfl

/-- … hence the exception to channel equivalence, exactly: with a `qq_depth` in the base configuration, configuring
    `qq_depth_min := v` and passing `qq_depth_min=v` as a keyword agree only by coincidence -/
theorem C13_tract_depth_min_channels_iff (c0 : Cfg) (pq : Option Bool) (v : Int) :
    effectiveTract (tractInitAttrs (c0.set "qq_depth_min" (.i v)) pq) {}
        = effectiveTract (tractInitAttrs c0 pq) { qqDepthMin := some v } ↔
      ∀ d, getOptI c0 "qq_depth" = some d → (v = d ∧ getOptI c0 "qq_depth_max" = some d) := by
  have hs := tract_creation_setFrom c0 pq "qq_depth_min" (.i v) (by decide) (fun h => absurd h (by decide))
  have e1 := hs.1
  have e2 := hs.2 "qq_depth" (by decide)
  have e3 := hs.2 "qq_depth_max" (by decide)
  have e4 := hs.2 "clean_qq" (by decide)
  have e5 := hs.2 "suppress_lot_divs" (by decide)
  have e6 := hs.2 "break_halves" (by decide)
  obtain ⟨g1, g2⟩ := tractInitAttrs_get_depth c0 pq
  unfold effectiveTract getB getOptI
  rw [e1, e2, e3, e4, e5, e6, g1, g2]
  cases h1 : c0.get "qq_depth" with
  | none => simp
  | some x =>
    cases x with
    | i d => simp only []; simp; exact ⟨fun h => ⟨h.1.symm, h.2.symm⟩, fun h => ⟨h.1.symm, h.2.symm⟩⟩
    | b d => simp only []; simp; exact ⟨fun h => ⟨h.1.symm, h.2.symm⟩, fun h => ⟨h.1.symm, h.2.symm⟩⟩
    | s t => simp

/-! ### `qq_depth` itself: the channels agree up to the redundant field `DepthArgs.qqDepth` -/

/-- `parse_aliquot` first resolves `qq_depth` into (min, max); this is that resolution, as a normal form -/
def resolveDepth (a : Aliquot.DepthArgs) : Aliquot.DepthArgs :=
  match a.qqDepth with
  | some d => { a with qqMin := d, qqMax := some d, qqDepth := none }
  | none => a

def resolveArgs (a : Tract.ParseArgs) : Tract.ParseArgs := { a with depth := resolveDepth a.depth }

theorem parseComponents_resolve (comps : List Str) (a : Aliquot.DepthArgs) :
    Aliquot.parseComponents comps a = Aliquot.parseComponents comps (resolveDepth a) := by
  obtain ⟨mn, mx, qd, bh⟩ := a
  cases qd <;> rfl

theorem qqsOf_resolve (a : Aliquot.DepthArgs) (blocks : List Str) :
    Tract.qqsOf a blocks = Tract.qqsOf (resolveDepth a) blocks := by
  unfold Tract.qqsOf Aliquot.parseAliquot
  simp only [← parseComponents_resolve]

theorem lotBlocksFold_resolve (a : Tract.ParseArgs) (bls : List (Str × Option Str)) (st : Tract.LotAcc) :
    Tract.lotBlocksFold a st bls = Tract.lotBlocksFold (resolveArgs a) st bls := by
  induction bls generalizing st with
  | nil => rfl
  | cons bl rest ih =>
    simp only [Tract.lotBlocksFold]
    have : Tract.lotBlockStep a st bl = Tract.lotBlockStep (resolveArgs a) st bl := rfl
    rw [← this]
    cases Tract.lotBlockStep a st bl with
    | error e => rfl
    | ok st' => exact ih st'

/-- the parse result does not distinguish `ParseArgs` with the same resolution -/
theorem tractParse_resolve (text : Str) (a : Tract.ParseArgs) (inh : Tract.Flags) :
    Tract.tractParse text a inh = Tract.tractParse text (resolveArgs a) inh := by
  unfold Tract.tractParse Tract.tractParseOwn Tract.tractParseRaw
  simp only [← lotBlocksFold_resolve]
  have hq : ∀ bl, Tract.qqsOf (resolveArgs a).depth bl = Tract.qqsOf a.depth bl := fun bl => (qqsOf_resolve _ _).symm
  simp only [hq]
  rfl

/-- MAIN (a), `qq_depth`: the two config channels agree exactly; the keyword channel agrees with them up to
    `resolveArgs`, hence gives the same parse -/
theorem C13_tract_qq_depth_three_channels (c0 : Cfg) (pq : Option Bool) (d : Int) :
    effectiveTract (tractInitAttrs (c0.set "qq_depth" (.i d)) pq) {}
        = effectiveTract (applyConfig (tractInitAttrs c0 pq) Gen.TRACT_ATTRIBUTES (Cfg.set [] "qq_depth" (.i d))) {} ∧
    resolveArgs (effectiveTract (applyConfig (tractInitAttrs c0 pq) Gen.TRACT_ATTRIBUTES (Cfg.set [] "qq_depth" (.i d))) {})
        = resolveArgs (effectiveTract (tractInitAttrs c0 pq) { qqDepth := some d }) ∧
    ∀ text inh,
      Tract.tractParse text (effectiveTract (tractInitAttrs (c0.set "qq_depth" (.i d)) pq) {}) inh
        = Tract.tractParse text (effectiveTract (tractInitAttrs c0 pq) { qqDepth := some d }) inh := by
  have h12 := C13_tract_config_channels c0 pq "qq_depth" (.i d) {} (by decide) (fun h => absurd h (by decide))
  have h23 : resolveArgs (effectiveTract (applyConfig (tractInitAttrs c0 pq) Gen.TRACT_ATTRIBUTES (Cfg.set [] "qq_depth" (.i d))) {})
        = resolveArgs (effectiveTract (tractInitAttrs c0 pq) { qqDepth := some d }) := by
    have hs := tract_assignment_setFrom (tractInitAttrs c0 pq) Gen.TRACT_ATTRIBUTES "qq_depth" (.i d) (by decide)
    have e1 := hs.1
    have e4 := hs.2 "clean_qq" (by decide)
    have e5 := hs.2 "suppress_lot_divs" (by decide)
    have e6 := hs.2 "break_halves" (by decide)
    unfold effectiveTract getB getOptI
    rw [e1, e4, e5, e6]
    rfl
  refine ⟨h12, h23, fun text inh => ?_⟩
  rw [h12, tractParse_resolve, h23, ← tractParse_resolve]

/-- the keyword channel differs from the config channels in the (redundant) record field only -/
example : (effectiveTract (tractInitAttrs (Cfg.set [] "qq_depth" (.i 3)) none) {}).depth.qqDepth = none ∧
    (effectiveTract (tractInitAttrs [] none) { qqDepth := some 3 }).depth.qqDepth = some 3 := by decide

example : effectiveTract (tractInitAttrs (Cfg.set [("qq_depth_max", .i 3)] "qq_depth_min" (.i 1)) none) {}
    = effectiveTract (tractInitAttrs [("qq_depth_max", .i 3)] none) { qqDepthMin := some 1 } :=
  ((C13_tract_minmax_three_channels "qq_depth_min" (by decide) _ none 1 (by decide)).1).trans
    (C13_tract_minmax_three_channels "qq_depth_min" (by decide) _ none 1 (by decide)).2

/-- the exception, concretely: base config `qq_depth.3`; `qq_depth_min.1` via config keeps depth 3, via keyword gives min 1 -/
example : (effectiveTract (tractInitAttrs (Cfg.set [("qq_depth", .i 3)] "qq_depth_min" (.i 1)) none) {}).depth.qqMin = 3 ∧
    (effectiveTract (tractInitAttrs [("qq_depth", .i 3)] none) { qqDepthMin := some 1 }).depth.qqMin = 1 := by decide

/-! ## PLSSDesc.parse -/

/-- the attributes of a new PLSSDesc, read through `get`: explicit creation arguments beat the config -/
theorem descInitAttrs_get (c : Cfg) (lay : Option Str) (pq wait : Option Bool) (m : String) :
    (descInitAttrs c lay pq wait).get m =
      if m = "layout" ∧ lay.isSome then lay.map CV.s
      else if m = "wait_to_parse" ∧ wait.isSome then wait.map CV.b
      else if m = "parse_qq" ∧ pq.isSome then pq.map CV.b
      else (applyConfig descDefaults Gen.PLSSDESC_ATTRIBUTES c).get m := by
  unfold descInitAttrs
  have hset : ∀ (A : Attrs) (a : String) (v : CV), (A.set a v).get m = if m = a then some v else A.get m := by
    intro A a v
    by_cases h : m = a
    · subst h; simp only [get_set_eq, if_true]
    · have : a ≠ m := fun e => h e.symm
      simp only [get_set_ne _ _ _ _ this, h, if_false]
  cases lay <;> cases wait <;> cases pq <;>
    simp only [hset, Option.isSome_none, Option.isSome_some, Bool.false_eq_true, and_false, and_true, if_false,
      Option.map_some] <;>
    (repeat' split) <;> first | rfl | (exfalso; simp_all (config := { decide := true }))

/-- channel (1) for a PLSSDesc: the config at creation carries `n := v` (and no explicit creation argument overrides it) -/
theorem desc_creation_setFrom (c0 : Cfg) (lay : Option Str) (pq wait : Option Bool) (n : String) (v : CV)
    (hn : n ∈ Gen.PLSSDESC_ATTRIBUTES) (hpq : n = "parse_qq" → pq = none) (hlay : n = "layout" → lay = none)
    (hwait : n = "wait_to_parse" → wait = none) :
    SetFrom (descInitAttrs c0 lay pq wait) (descInitAttrs (c0.set n v) lay pq wait) n v := by
  have hc : Gen.PLSSDESC_ATTRIBUTES.contains n = true := by simpa using hn
  constructor
  · rw [descInitAttrs_get, applyConfig_get, get_set_eq]
    have h1 : ¬ (n = "layout" ∧ lay.isSome = true) := by
      intro ⟨a, b⟩; rw [hlay a] at b; cases b
    have h2 : ¬ (n = "wait_to_parse" ∧ wait.isSome = true) := by
      intro ⟨a, b⟩; rw [hwait a] at b; cases b
    have h3 : ¬ (n = "parse_qq" ∧ pq.isSome = true) := by
      intro ⟨a, b⟩; rw [hpq a] at b; cases b
    simp only [h1, h2, h3, if_false, hc, if_true]
  · intro m hm
    have : n ≠ m := fun e => hm e.symm
    rw [descInitAttrs_get, descInitAttrs_get, applyConfig_get, applyConfig_get, get_set_ne _ _ _ _ this]

/-- the parser arguments without the text of the object's own config (which legitimately differs between channels) -/
def Obj.ParserArgs.core (a : ParserArgs) : ParserArgs := { a with handedDownConfig := [] }

/-- the settings `PLSSDesc.parse` reads from the object -/
def descParseNames : List String :=
  ["sec_colon_required", "sec_colon_cautious", "layout", "segment", "qq_depth", "qq_depth_min", "qq_depth_max",
   "default_ns", "default_ew", "ocr_scrub", "parse_qq", "clean_qq", "break_halves", "sec_within"]

/-- `PLSSDesc.parse` depends on the object only through these attributes, `.source`, and the config text -/
theorem effectiveDesc_core_congr (d1 d2 : DescObj) (kw : DescKw)
    (h : ∀ m ∈ descParseNames, d1.attrs.get m = d2.attrs.get m) (hs : d1.source = d2.source) :
    (effectiveDesc d1 kw).core = (effectiveDesc d2 kw).core := by
  have h1 := h "sec_colon_required" (by decide)
  have h2 := h "sec_colon_cautious" (by decide)
  have h3 := h "layout" (by decide)
  have h4 := h "segment" (by decide)
  have h5 := h "qq_depth" (by decide)
  have h6 := h "qq_depth_min" (by decide)
  have h7 := h "qq_depth_max" (by decide)
  have h8 := h "default_ns" (by decide)
  have h9 := h "default_ew" (by decide)
  have h10 := h "ocr_scrub" (by decide)
  have h11 := h "parse_qq" (by decide)
  have h12 := h "clean_qq" (by decide)
  have h13 := h "break_halves" (by decide)
  have h14 := h "sec_within" (by decide)
  unfold Obj.ParserArgs.core effectiveDesc getB getOptI getOptS
  simp only [h1, h2, h3, h4, h5, h6, h7, h8, h9, h10, h11, h12, h13, h14, hs]

/-- the two config channels agree for EVERY PLSSDesc setting, value and base keyword record -/
theorem C13_desc_config_channels (d0 : DescObj) (c0 : Cfg) (lay : Option Str) (pq wait : Option Bool)
    (n : String) (v : CV) (kw : DescKw)
    (hn : n ∈ Gen.PLSSDESC_ATTRIBUTES) (hpq : n = "parse_qq" → pq = none) (hlay : n = "layout" → lay = none)
    (hwait : n = "wait_to_parse" → wait = none) (hd : d0.attrs = descInitAttrs c0 lay pq wait) :
    ∃ d2, descSetConfig d0 (.obj (Cfg.set [] n v)) = .ok d2 ∧
      (effectiveDesc { d0 with attrs := descInitAttrs (c0.set n v) lay pq wait, config := c0.set n v } kw).core
        = (effectiveDesc d2 kw).core := by
  refine ⟨_, descSetConfig_obj d0 _, ?_⟩
  refine effectiveDesc_core_congr _ _ _ ?_ rfl
  intro m _
  simp only [hd]
  exact setFrom_unique _ _ _ _ _ (desc_creation_setFrom c0 lay pq wait n v hn hpq hlay hwait)
    (tract_assignment_setFrom _ _ _ _ hn) m

/-- setting a Boolean PLSSDesc.parse keyword by name -/
def Obj.DescKw.withBool (kw : DescKw) (n : String) (b : Bool) : DescKw :=
  if n = "parse_qq" then { kw with parseQQ := some b }
  else if n = "clean_qq" then { kw with cleanQQ := some b }
  else if n = "sec_colon_required" then { kw with secColonRequired := some b }
  else if n = "sec_colon_cautious" then { kw with secColonCautious := some b }
  else if n = "segment" then { kw with segment := some b }
  else if n = "ocr_scrub" then { kw with ocrScrub := some b }
  else if n = "sec_within" then { kw with secWithin := some b }
  else if n = "break_halves" then { kw with breakHalves := some b }
  else kw

def Obj.DescKw.boolOf (kw : DescKw) (n : String) : Option Bool :=
  if n = "parse_qq" then kw.parseQQ
  else if n = "clean_qq" then kw.cleanQQ
  else if n = "sec_colon_required" then kw.secColonRequired
  else if n = "sec_colon_cautious" then kw.secColonCautious
  else if n = "segment" then kw.segment
  else if n = "ocr_scrub" then kw.ocrScrub
  else if n = "sec_within" then kw.secWithin
  else if n = "break_halves" then kw.breakHalves
  else none

def descBoolNames : List String :=
  ["parse_qq", "clean_qq", "sec_colon_required", "sec_colon_cautious", "segment", "ocr_scrub", "sec_within", "break_halves"]

/-- a Boolean keyword acts exactly like the attribute set to that value -/
theorem effectiveDesc_bool_kw (d0 : DescObj) (n : String) (b : Bool) (kw : DescKw) (hn : n ∈ descBoolNames)
    (hk : kw.boolOf n = none) :
    effectiveDesc { d0 with attrs := d0.attrs.set n (.b b) } kw = effectiveDesc d0 (kw.withBool n b) := by
  simp only [descBoolNames, List.mem_cons, List.not_mem_nil, or_false] at hn
  rcases hn with rfl | rfl | rfl | rfl | rfl | rfl | rfl | rfl
  all_goals
    simp only [Obj.DescKw.boolOf, String.reduceEq, if_true, if_false] at hk
    unfold effectiveDesc getB getOptI getOptS
    simp [Obj.DescKw.withBool, get_set_eq, get_set_ne, hk, cvTruthy] <;> rfl

theorem desc_bool_names : ∀ n ∈ descBoolNames,
    n ∈ Gen.PLSSDESC_ATTRIBUTES ∧ n ≠ "layout" ∧ n ≠ "wait_to_parse" := by decide

/-- MAIN (b), Boolean settings: the three channels give the same parser arguments.
    `d0` is any PLSSDesc whose attributes were built from the base config `c0` and the creation arguments. -/
theorem C13_desc_bool_three_channels (n : String) (hn : n ∈ descBoolNames) (d0 : DescObj) (c0 : Cfg)
    (lay : Option Str) (pq wait : Option Bool) (b : Bool) (kw : DescKw)
    (hd : d0.attrs = descInitAttrs c0 lay pq wait) (hpq : n = "parse_qq" → pq = none) (hk : kw.boolOf n = none) :
    ∃ d2, descSetConfig d0 (.obj (Cfg.set [] n (.b b))) = .ok d2 ∧
      (effectiveDesc { d0 with attrs := descInitAttrs (c0.set n (.b b)) lay pq wait, config := c0.set n (.b b) } kw).core
        = (effectiveDesc d2 kw).core ∧
      (effectiveDesc d2 kw).core = (effectiveDesc d0 (kw.withBool n b)).core := by
  obtain ⟨hP, hl, hw⟩ := desc_bool_names n hn
  obtain ⟨d2, h2, h12⟩ := C13_desc_config_channels d0 c0 lay pq wait n (.b b) kw hP hpq
    (fun h => absurd h hl) (fun h => absurd h hw) hd
  refine ⟨d2, h2, h12, ?_⟩
  rw [← effectiveDesc_bool_kw d0 n b kw hn hk]
  rw [descSetConfig_obj] at h2
  cases h2
  refine effectiveDesc_core_congr _ _ _ ?_ rfl
  intro m _
  exact setFrom_unique _ _ _ _ _ (tract_assignment_setFrom _ _ _ _ hP) (setFrom_set _ _ _) m

example : (effectiveDesc { origDesc := S "T154N-R97W Sec 14: NE/4", source := none, ppDesc := [],
                           attrs := descInitAttrs (Cfg.set [("default_ns", .s (S "s"))] "segment" (.b true)) none none none,
                           config := Cfg.set [("default_ns", .s (S "s"))] "segment" (.b true) } {}).core
    = (effectiveDesc { origDesc := S "T154N-R97W Sec 14: NE/4", source := none, ppDesc := [],
                       attrs := descInitAttrs [("default_ns", .s (S "s"))] none none none,
                       config := [("default_ns", .s (S "s"))] } { segment := some true }).core := by
  obtain ⟨d2, _, h12, h23⟩ := C13_desc_bool_three_channels "segment" (by decide)
    { origDesc := S "T154N-R97W Sec 14: NE/4", source := none, ppDesc := [],
      attrs := descInitAttrs [("default_ns", .s (S "s"))] none none none, config := [("default_ns", .s (S "s"))] }
    [("default_ns", .s (S "s"))] none none none true {} rfl (fun h => absurd h (by decide)) rfl
  exact h12.trans h23

/-! ### string settings: layout, default_ns, default_ew -/

def Obj.DescKw.withStr (kw : DescKw) (n : String) (v : Str) : DescKw :=
  if n = "layout" then { kw with layout := some v }
  else if n = "default_ns" then { kw with defaultNS := some v }
  else if n = "default_ew" then { kw with defaultEW := some v }
  else kw

def Obj.DescKw.strOf (kw : DescKw) (n : String) : Option Str :=
  if n = "layout" then kw.layout
  else if n = "default_ns" then kw.defaultNS
  else if n = "default_ew" then kw.defaultEW
  else none

def descStrNames : List String := ["layout", "default_ns", "default_ew"]

/-- a string keyword acts like the attribute set to that value; for `default_ns` / `default_ew` the value must be
    non-empty (an empty keyword counts as "not given" in `PLSSDesc.parse`) -/
theorem effectiveDesc_str_kw (d0 : DescObj) (n : String) (v : Str) (kw : DescKw) (hn : n ∈ descStrNames)
    (hk : kw.strOf n = none) (hv : n ≠ "layout" → v ≠ []) :
    effectiveDesc { d0 with attrs := d0.attrs.set n (.s v) } kw = effectiveDesc d0 (kw.withStr n v) := by
  simp only [descStrNames, List.mem_cons, List.not_mem_nil, or_false] at hn
  rcases hn with rfl | rfl | rfl
  · simp only [Obj.DescKw.strOf, if_true] at hk
    unfold effectiveDesc getB getOptI getOptS
    simp [Obj.DescKw.withStr, get_set_eq, get_set_ne, hk]
  · simp only [Obj.DescKw.strOf, String.reduceEq, if_true, if_false] at hk
    cases v with
    | nil => exact absurd rfl (hv (by decide))
    | cons ch t =>
      unfold effectiveDesc getB getOptI getOptS
      simp [Obj.DescKw.withStr, get_set_eq, get_set_ne, hk, nonEmpty]
  · simp only [Obj.DescKw.strOf, String.reduceEq, if_true, if_false] at hk
    cases v with
    | nil => exact absurd rfl (hv (by decide))
    | cons ch t =>
      unfold effectiveDesc getB getOptI getOptS
      simp [Obj.DescKw.withStr, get_set_eq, get_set_ne, hk, nonEmpty]

theorem desc_str_names : ∀ n ∈ descStrNames,
    n ∈ Gen.PLSSDESC_ATTRIBUTES ∧ n ≠ "parse_qq" ∧ n ≠ "wait_to_parse" := by decide

/-- MAIN (b), string settings -/
theorem C13_desc_str_three_channels (n : String) (hn : n ∈ descStrNames) (d0 : DescObj) (c0 : Cfg)
    (lay : Option Str) (pq wait : Option Bool) (v : Str) (kw : DescKw)
    (hd : d0.attrs = descInitAttrs c0 lay pq wait) (hlay : n = "layout" → lay = none) (hk : kw.strOf n = none)
    (hv : n ≠ "layout" → v ≠ []) :
    ∃ d2, descSetConfig d0 (.obj (Cfg.set [] n (.s v))) = .ok d2 ∧
      (effectiveDesc { d0 with attrs := descInitAttrs (c0.set n (.s v)) lay pq wait, config := c0.set n (.s v) } kw).core
        = (effectiveDesc d2 kw).core ∧
      (effectiveDesc d2 kw).core = (effectiveDesc d0 (kw.withStr n v)).core := by
  obtain ⟨hP, hq, hw⟩ := desc_str_names n hn
  obtain ⟨d2, h2, h12⟩ := C13_desc_config_channels d0 c0 lay pq wait n (.s v) kw hP
    (fun h => absurd h hq) hlay (fun h => absurd h hw) hd
  refine ⟨d2, h2, h12, ?_⟩
  rw [← effectiveDesc_str_kw d0 n v kw hn hk hv]
  rw [descSetConfig_obj] at h2
  cases h2
  refine effectiveDesc_core_congr _ _ _ ?_ rfl
  intro m _
  exact setFrom_unique _ _ _ _ _ (tract_assignment_setFrom _ _ _ _ hP) (setFrom_set _ _ _) m

/-! ### the depth family of `PLSSDesc.parse` -/

def Obj.DescKw.withInt (kw : DescKw) (n : String) (v : Int) : DescKw :=
  if n = "qq_depth_min" then { kw with qqDepthMin := some v }
  else if n = "qq_depth_max" then { kw with qqDepthMax := some v }
  else if n = "qq_depth" then { kw with qqDepth := some v }
  else kw

def descIntNames : List String := ["qq_depth_min", "qq_depth_max", "qq_depth"]

/-- an integer keyword acts like the attribute set to that value — for min/max when the object holds no `qq_depth`;
    (a `qq_depth` keyword needs no side condition) -/
theorem effectiveDesc_int_kw (d0 : DescObj) (n : String) (v : Int) (hn : n ∈ descIntNames)
    (hq : n ≠ "qq_depth" → getOptI d0.attrs "qq_depth" = none) :
    effectiveDesc { d0 with attrs := d0.attrs.set n (.i v) } {} = effectiveDesc d0 (({} : DescKw).withInt n v) := by
  simp only [descIntNames, List.mem_cons, List.not_mem_nil, or_false] at hn
  rcases hn with rfl | rfl | rfl
  · have hq := hq (by decide)
    unfold getOptI at hq
    unfold effectiveDesc getB getOptI getOptS
    simp [Obj.DescKw.withInt, get_set_eq, get_set_ne, hq]
  · have hq := hq (by decide)
    unfold getOptI at hq
    unfold effectiveDesc getB getOptI getOptS
    simp [Obj.DescKw.withInt, get_set_eq, get_set_ne, hq]
  · unfold effectiveDesc getB getOptI getOptS
    simp [Obj.DescKw.withInt, get_set_eq, get_set_ne]

theorem desc_int_names : ∀ n ∈ descIntNames,
    n ∈ Gen.PLSSDESC_ATTRIBUTES ∧ n ≠ "parse_qq" ∧ n ≠ "wait_to_parse" ∧ n ≠ "layout" := by decide

theorem descInitAttrs_get_qq_depth (c0 : Cfg) (lay : Option Str) (pq wait : Option Bool) :
    (descInitAttrs c0 lay pq wait).get "qq_depth" = c0.get "qq_depth" := by
  rw [descInitAttrs_get, applyConfig_get]
  have h1 : ¬ ("qq_depth" = "layout" ∧ lay.isSome = true) := fun h => absurd h.1 (by decide)
  have h2 : ¬ ("qq_depth" = "wait_to_parse" ∧ wait.isSome = true) := fun h => absurd h.1 (by decide)
  have h3 : ¬ ("qq_depth" = "parse_qq" ∧ pq.isSome = true) := fun h => absurd h.1 (by decide)
  have c1 : Gen.PLSSDESC_ATTRIBUTES.contains "qq_depth" = true := by decide
  simp only [h1, h2, h3, if_false, c1, if_true]
  cases c0.get "qq_depth" <;> rfl

/-- MAIN (b), depth settings: for `qq_depth_min` / `qq_depth_max` the three channels agree provided the base
    configuration holds no `qq_depth`; for `qq_depth` itself they always agree -/
theorem C13_desc_int_three_channels (n : String) (hn : n ∈ descIntNames) (d0 : DescObj) (c0 : Cfg)
    (lay : Option Str) (pq wait : Option Bool) (v : Int)
    (hd : d0.attrs = descInitAttrs c0 lay pq wait) (hq : n ≠ "qq_depth" → getOptI c0 "qq_depth" = none) :
    ∃ d2, descSetConfig d0 (.obj (Cfg.set [] n (.i v))) = .ok d2 ∧
      (effectiveDesc { d0 with attrs := descInitAttrs (c0.set n (.i v)) lay pq wait, config := c0.set n (.i v) } {}).core
        = (effectiveDesc d2 {}).core ∧
      (effectiveDesc d2 {}).core = (effectiveDesc d0 (({} : DescKw).withInt n v)).core := by
  obtain ⟨hP, hpq, hw, hl⟩ := desc_int_names n hn
  obtain ⟨d2, h2, h12⟩ := C13_desc_config_channels d0 c0 lay pq wait n (.i v) {} hP
    (fun h => absurd h hpq) (fun h => absurd h hl) (fun h => absurd h hw) hd
  refine ⟨d2, h2, h12, ?_⟩
  have hq' : n ≠ "qq_depth" → getOptI d0.attrs "qq_depth" = none := by
    intro h
    have := hq h
    unfold getOptI at this ⊢
    rw [hd, descInitAttrs_get_qq_depth]; exact this
  rw [← effectiveDesc_int_kw d0 n v hn hq']
  rw [descSetConfig_obj] at h2
  cases h2
  refine effectiveDesc_core_congr _ _ _ ?_ rfl
  intro m _
  exact setFrom_unique _ _ _ _ _ (tract_assignment_setFrom _ _ _ _ hP) (setFrom_set _ _ _) m

/-- the exception for PLSSDesc.parse, concretely: base config `qq_depth.3`; `qq_depth_min.1` through the config keeps
    `qq_depth = 3` in force, as a keyword it switches it off -/
example :
    (effectiveDesc { origDesc := [], source := none, ppDesc := [], config := [],
                     attrs := descInitAttrs (Cfg.set [("qq_depth", .i 3)] "qq_depth_min" (.i 1)) none none none } {}).qqDepth = some 3 ∧
    (effectiveDesc { origDesc := [], source := none, ppDesc := [], config := [],
                     attrs := descInitAttrs [("qq_depth", .i 3)] none none none } { qqDepthMin := some 1 }).qqDepth = none := by
  decide

/-! ## What is handed down to the subordinate tracts -/

theorem pyJoin_cons2 (sep a b : Str) (rest : List Str) :
    pyJoin sep (a :: b :: rest) = a ++ sep ++ pyJoin sep (b :: rest) := by
  rw [pyJoin]; simp

theorem pyJoin_snoc (parts : List Str) (x : Str) (hne : parts ≠ []) :
    pyJoin (S ",") (parts ++ [x]) = pyJoin (S ",") parts ++ S "," ++ x := by
  induction parts with
  | nil => exact absurd rfl hne
  | cons a rest ih =>
    cases rest with
    | nil => simp [pyJoin]
    | cons b rest =>
      have ih := ih (by simp)
      simp only [List.cons_append] at ih ⊢
      rw [pyJoin_cons2, ih, pyJoin_cons2]
      simp only [List.append_assoc]

theorem ofTextLines_append (acc : Cfg) (l1 l2 : List Str) :
    ofTextLines acc (l1 ++ l2) = (match ofTextLines acc l1 with | .error e => .error e | .ok a => ofTextLines a l2) := by
  induction l1 generalizing acc with
  | nil => rfl
  | cons x rest ih =>
    simp only [List.cons_append, ofTextLines]
    cases ofTextLine acc x with
    | error e => rfl
    | ok a => exact ih a

/-- a bare Boolean item switches its setting on -/
theorem bool_item (acc : Cfg) (x : String) (hx : x ∈ Gen.CONFIG_ATTRIBUTES) (hb : isBoolAttr x.toList = true) :
    ofTextLine acc x.toList = .ok (acc.set x (.b true)) := by
  have h := item_bool acc x true hx hb
  have hl : attribAndValToStr x (some (.b true)) = x.toList := by simp [attribAndValToStr, hb, cvTruthy]
  rwa [hl] at h

/-- the text `",x1,x2,…"` of extra bare items appended to a config text -/
def extraText (xs : List String) : Str := xs.flatMap (fun x => ',' :: x.toList)

/-- switching on every listed Boolean setting -/
def setAll (c : Cfg) (xs : List String) : Cfg := xs.foldl (fun a x => a.set x (.b true)) c

theorem pyJoin_extras (xs : List String) : ∀ (parts : List Str), parts ≠ [] →
    pyJoin (S ",") parts ++ extraText xs = pyJoin (S ",") (parts ++ xs.map String.toList) := by
  induction xs with
  | nil => intro parts _; simp [extraText]
  | cons x rest ih =>
    intro parts hne
    have h1 : extraText (x :: rest) = S "," ++ x.toList ++ extraText rest := by
      simp [extraText, List.flatMap_cons, S]
    rw [h1, ← List.append_assoc, ← List.append_assoc, ← pyJoin_snoc parts x.toList hne, ih (parts ++ [x.toList]) (by simp)]
    simp

theorem ofTextLines_extras (xs : List String)
    (hx : ∀ x ∈ xs, x ∈ Gen.CONFIG_ATTRIBUTES ∧ isBoolAttr x.toList = true) :
    ∀ acc : Cfg, ofTextLines acc (xs.map String.toList) = .ok (setAll acc xs) := by
  induction xs with
  | nil => intro acc; rfl
  | cons x rest ih =>
    intro acc
    have hx0 := hx x List.mem_cons_self
    simp only [List.map_cons, ofTextLines, bool_item acc x hx0.1 hx0.2]
    exact ih (fun y hy => hx y (List.mem_cons_of_mem _ hy)) _

theorem setAll_get_congr (xs : List String) : ∀ (c c' : Cfg),
    (∀ b ∈ Gen.CONFIG_ATTRIBUTES, c'.get b = c.get b) →
    ∀ b ∈ Gen.CONFIG_ATTRIBUTES, (setAll c' xs).get b = (setAll c xs).get b := by
  induction xs with
  | nil => intro c c' h; exact h
  | cons x rest ih =>
    intro c c' h
    apply ih (c.set x (.b true)) (c'.set x (.b true))
    intro b hb
    by_cases hbx : b = x
    · subst hbx; rw [get_set_eq, get_set_eq]
    · have : x ≠ b := fun e => hbx e.symm
      rw [get_set_ne _ _ _ _ this, get_set_ne _ _ _ _ this, h b hb]

theorem ofText_pyJoin_extras (P : List Str) (hne : P ≠ []) (hch : ∀ w ∈ P, ∀ ch ∈ w, sep0 ch = false)
    (acc' : Cfg) (hl : ofTextLines [] P = .ok acc') (xs : List String)
    (hx : ∀ x ∈ xs, x ∈ Gen.CONFIG_ATTRIBUTES ∧ isBoolAttr x.toList = true) :
    ofText (pyJoin (S ",") P ++ extraText xs) = .ok (setAll acc' xs) := by
  rw [pyJoin_extras xs P hne]
  unfold ofText
  rw [textItems_join _ (by simp [hne])]
  · rw [ofTextLines_append, hl]
    exact ofTextLines_extras xs hx acc'
  · intro w hw
    rcases List.mem_append.1 hw with hw | hw
    · exact hch w hw
    · obtain ⟨x, hxm, rfl⟩ := List.mem_map.1 hw
      intro ch hc
      exact safe_sep0 ch ((T1 x (hx x hxm).1).1 ch hc)

/-- extra bare Boolean items appended to the text of a well-formed config parse as that config with those settings
    switched on -/
theorem ofText_toText_extras (c : Cfg) (h : CfgWF c) (xs : List String)
    (hx : ∀ x ∈ xs, x ∈ Gen.CONFIG_ATTRIBUTES ∧ isBoolAttr x.toList = true) :
    ∃ c', ofText (toText c ++ extraText xs) = .ok c' ∧
      ∀ b ∈ Gen.CONFIG_ATTRIBUTES, c'.get b = (setAll c xs).get b := by
  obtain ⟨acc', h1, h2⟩ := fold_items c h Gen.CONFIG_ATTRIBUTES (fun a ha => ha) []
  have hget : ∀ b ∈ Gen.CONFIG_ATTRIBUTES, acc'.get b = c.get b := by
    intro b hb
    rw [h2 b]
    simp [hb, get_nil]
  refine ⟨setAll acc' xs, ?_, setAll_get_congr xs c acc' hget⟩
  rw [toText_eq]
  by_cases hne : itemsOf c Gen.CONFIG_ATTRIBUTES = []
  · rw [hne] at h1 ⊢
    have hP : pyJoin (S ",") ([] : List Str) = pyJoin (S ",") [[]] := rfl
    rw [hP]
    apply ofText_pyJoin_extras [[]] (by simp) (by intro w hw; simp at hw; subst hw; intro ch hc; cases hc) acc' _ xs hx
    simp only [ofTextLines] at h1 ⊢
    exact h1
  · exact ofText_pyJoin_extras _ hne (itemsOf_chars c h _ (fun a ha => ha)) acc' h1 xs hx

theorem set_wf (c : Cfg) (a : String) (v : CV) (h : CfgWF c) (hv : wellFormedEntry (a, v) = true) : CfgWF (c.set a v) := by
  induction c with
  | nil =>
    intro e he
    simp only [Cfg.set, List.mem_singleton] at he
    rw [he]; exact hv
  | cons e t ih =>
    obtain ⟨k, x⟩ := e
    rw [Cfg.set]
    by_cases hk : (k == a) = true
    · simp only [hk, if_true]
      intro e he
      rcases List.mem_cons.1 he with rfl | he
      · exact hv
      · exact h e (List.mem_cons_of_mem _ he)
    · simp only [hk, Bool.false_eq_true, if_false]
      intro e he
      rcases List.mem_cons.1 he with rfl | he
      · exact h _ List.mem_cons_self
      · exact ih (fun e he => h e (List.mem_cons_of_mem _ he)) e he

theorem unset_wf (c : Cfg) (a : String) (h : CfgWF c) : CfgWF (c.unset a) := by
  intro e he
  exact h e (List.mem_filter.1 he).1

theorem setOpt_wf (c : Cfg) (a : String) (v : Option CV) (h : CfgWF c)
    (hv : ∀ x, v = some x → wellFormedEntry (a, x) = true) : CfgWF (c.setOpt a v) := by
  cases v with
  | none => exact unset_wf c a h
  | some x => exact set_wf c a x h (hv x rfl)

theorem wf_bool (a : String) (b : Bool) (ha : isBoolAttr a.toList = true) : wellFormedEntry (a, .b b) = true := by
  simp [wellFormedEntry, ha]

theorem wf_int (a : String) (n : Int) (ha : a ∈ Gen.INT_TYPE_ATTRIBUTES) : wellFormedEntry (a, .i n) = true := by
  obtain ⟨hb, _⟩ := T6 a ha
  have : Gen.INT_TYPE_ATTRIBUTES.contains a = true := by simpa using ha
  simp [wellFormedEntry, hb, ha]

/-- the object's config with `suppress_lot_divs` switched on when the object's attribute is on
    (what `PLSSDesc.parse` decompiles and appends) -/
def withSld (c : Cfg) (s : Bool) : Cfg := if s then c.set "suppress_lot_divs" (.b true) else c

/-- the text `PLSSDesc.parse` gives to `PLSSParser` as `handed_down_config` -/
def hdText (c : Cfg) (s : Bool) : Str := if s then toText c ++ S ",suppress_lot_divs" else toText c

theorem effectiveDesc_handedDownConfig (d : DescObj) (kw : DescKw) :
    (effectiveDesc d kw).handedDownConfig = hdText d.config (getB d.attrs "suppress_lot_divs") := rfl

theorem withSld_wf (c : Cfg) (s : Bool) (h : CfgWF c) : CfgWF (withSld c s) := by
  unfold withSld
  split
  · exact set_wf _ _ _ h (wf_bool _ _ (by decide))
  · exact h

/-- the configuration that `PLSSParser` hands down, before it is turned into text: the object's own config
    (with `suppress_lot_divs` when the attribute is on), overridden by the locked-down parse parameters -/
def handedCfg (a : ParserArgs) (c0 : Cfg) (s : Bool) : Cfg :=
  (((((if a.parseQQ then (withSld c0 s).set "parse_qq" (.b true) else withSld c0 s).set "clean_qq" (.b a.cleanQQ)).setOpt
      "qq_depth_min" (optI a.qqDepthMin)).setOpt "qq_depth_max" (optI a.qqDepthMax)).setOpt
      "qq_depth" (optI a.qqDepth)).set "break_halves" (.b a.breakHalves)

theorem handedCfg_wf (a : ParserArgs) (c0 : Cfg) (s : Bool) (h : CfgWF c0) : CfgWF (handedCfg a c0 s) := by
  unfold handedCfg
  have h0 : CfgWF (if a.parseQQ then (withSld c0 s).set "parse_qq" (.b true) else withSld c0 s) := by
    split
    · exact set_wf _ _ _ (withSld_wf c0 s h) (wf_bool _ _ (by decide))
    · exact withSld_wf c0 s h
  have hoi : ∀ (n : String) (o : Option Int), n ∈ Gen.INT_TYPE_ATTRIBUTES →
      ∀ x, optI o = some x → wellFormedEntry (n, x) = true := by
    intro n o hn x hx
    cases o with
    | none => cases hx
    | some i => simp only [optI, Option.map_some, Option.some.injEq] at hx; subst hx; exact wf_int n i hn
  exact set_wf _ _ _ (setOpt_wf _ _ _ (setOpt_wf _ _ _ (setOpt_wf _ _ _ (set_wf _ _ _ h0 (wf_bool _ _ (by decide)))
    (hoi _ _ (by decide))) (hoi _ _ (by decide))) (hoi _ _ (by decide))) (wf_bool _ _ (by decide))

theorem handedCfg_get (a : ParserArgs) (c0 : Cfg) (s : Bool) (m : String) :
    (handedCfg a c0 s).get m =
      if m = "break_halves" then some (.b a.breakHalves)
      else if m = "qq_depth" then optI a.qqDepth
      else if m = "qq_depth_max" then optI a.qqDepthMax
      else if m = "qq_depth_min" then optI a.qqDepthMin
      else if m = "clean_qq" then some (.b a.cleanQQ)
      else if m = "parse_qq" ∧ a.parseQQ = true then some (.b true)
      else (withSld c0 s).get m := by
  have hset : ∀ (A : Attrs) (k : String) (v : CV), (A.set k v).get m = if m = k then some v else A.get m := by
    intro A k v
    by_cases h : m = k
    · subst h; simp only [get_set_eq, if_true]
    · have : k ≠ m := fun e => h e.symm
      simp only [get_set_ne _ _ _ _ this, h, if_false]
  unfold handedCfg
  simp only [hset, get_setOpt]
  cases a.parseQQ
  · simp only [Bool.false_eq_true, if_false, and_false]
  · simp only [if_true, and_true, hset]

/-- the hand-down, specified: when the object's config is well-formed, the handed-down text is accepted by `Config`
    and means exactly `handedCfg` -/
theorem handedDownText_spec (a : ParserArgs) (c0 : Cfg) (s : Bool) (hc : a.handedDownConfig = hdText c0 s)
    (hw : CfgWF c0) :
    ∃ hd k, handedDownText a = .ok hd ∧ ofText hd = .ok k ∧
      ∀ m ∈ Gen.CONFIG_ATTRIBUTES, k.get m = (handedCfg a c0 s).get m := by
  have h1 : ∃ c1, ofText (if a.parseQQ then a.handedDownConfig ++ S ",parse_qq" else a.handedDownConfig) = .ok c1 ∧
      ∀ b ∈ Gen.CONFIG_ATTRIBUTES,
        c1.get b = (if a.parseQQ then (withSld c0 s).set "parse_qq" (.b true) else withSld c0 s).get b := by
    rw [hc]
    cases s <;> cases a.parseQQ
    · have := ofText_toText_extras c0 hw [] (by intro x hx; cases hx)
      simpa [hdText, withSld, extraText, setAll] using this
    · have := ofText_toText_extras c0 hw ["parse_qq"] (by decide)
      have ht : extraText ["parse_qq"] = S ",parse_qq" := by decide
      rw [ht] at this
      simpa [hdText, withSld, setAll] using this
    · have := ofText_toText_extras c0 hw ["suppress_lot_divs"] (by decide)
      have ht : extraText ["suppress_lot_divs"] = S ",suppress_lot_divs" := by decide
      rw [ht] at this
      simpa [hdText, withSld, setAll] using this
    · have := ofText_toText_extras c0 hw ["suppress_lot_divs", "parse_qq"] (by decide)
      have ht : extraText ["suppress_lot_divs", "parse_qq"] = S ",suppress_lot_divs" ++ S ",parse_qq" := by decide
      rw [ht, ← List.append_assoc] at this
      simpa [hdText, withSld, setAll] using this
  obtain ⟨c1, h11, h12⟩ := h1
  have hset : ∀ (A : Attrs) (k m : String) (v : CV), (A.set k v).get m = if m = k then some v else A.get m := by
    intro A k m v
    by_cases h : m = k
    · subst h; simp only [get_set_eq, if_true]
    · have : k ≠ m := fun e => h e.symm
      simp only [get_set_ne _ _ _ _ this, h, if_false]
  have htt : toText (((((c1.set "clean_qq" (.b a.cleanQQ)).setOpt "qq_depth_min" (optI a.qqDepthMin)).setOpt
          "qq_depth_max" (optI a.qqDepthMax)).setOpt "qq_depth" (optI a.qqDepth)).set "break_halves" (.b a.breakHalves))
      = toText (handedCfg a c0 s) := by
    apply toText_congr
    intro b hb
    unfold handedCfg
    simp only [hset, get_setOpt, h12 b hb]
  obtain ⟨k, hk1, hk2⟩ := ofText_toText (handedCfg a c0 s) (handedCfg_wf a c0 s hw)
  refine ⟨toText (handedCfg a c0 s), k, ?_, hk1, hk2⟩
  unfold handedDownText
  simp only [h11, htt]

/-- the tract-level settings that `PLSSDesc.parse` dictates to its tracts -/
def handedNames : List String := ["parse_qq", "clean_qq", "qq_depth", "qq_depth_min", "qq_depth_max", "break_halves"]

/-- MAIN (b), second half: two parses whose parser arguments agree (apart from the handed-down config text, which is
    the text of the object's own config, plus `,suppress_lot_divs` when the object's attribute is on) hand down texts
    that configure the subordinate tracts identically in every tract-level setting that `PLSSDesc.parse` controls —
    and in every other setting on which the two (augmented) object configs agree -/
theorem C13_handed_down_agree (a1 a2 : ParserArgs) (c1 c2 : Cfg) (s1 s2 : Bool) (hcore : a1.core = a2.core)
    (h1 : a1.handedDownConfig = hdText c1 s1) (h2 : a2.handedDownConfig = hdText c2 s2)
    (hw1 : CfgWF c1) (hw2 : CfgWF c2) :
    ∃ hd1 hd2 k1 k2, handedDownText a1 = .ok hd1 ∧ handedDownText a2 = .ok hd2 ∧
      ofText hd1 = .ok k1 ∧ ofText hd2 = .ok k2 ∧
      (∀ m ∈ handedNames, (tractInitAttrs k1 (some a1.parseQQ)).get m = (tractInitAttrs k2 (some a2.parseQQ)).get m) ∧
      (∀ m ∈ Gen.CONFIG_ATTRIBUTES, (withSld c1 s1).get m = (withSld c2 s2).get m →
        (tractInitAttrs k1 (some a1.parseQQ)).get m = (tractInitAttrs k2 (some a2.parseQQ)).get m) := by
  obtain ⟨hd1, k1, e1, f1, g1⟩ := handedDownText_spec a1 c1 s1 h1 hw1
  obtain ⟨hd2, k2, e2, f2, g2⟩ := handedDownText_spec a2 c2 s2 h2 hw2
  refine ⟨hd1, hd2, k1, k2, e1, e2, f1, f2, ?_, ?_⟩
  all_goals
    have hcore' : a1.parseQQ = a2.parseQQ ∧ a1.cleanQQ = a2.cleanQQ ∧ a1.qqDepth = a2.qqDepth ∧
        a1.qqDepthMin = a2.qqDepthMin ∧ a1.qqDepthMax = a2.qqDepthMax ∧ a1.breakHalves = a2.breakHalves := by
      unfold Obj.ParserArgs.core at hcore
      injection hcore
      simp_all
    obtain ⟨p1, p2, p3, p4, p5, p6⟩ := hcore'
  · intro m hm
    have hmc : m ∈ Gen.CONFIG_ATTRIBUTES := by revert m; decide
    rw [tractInitAttrs_get, tractInitAttrs_get, g1 m hmc, g2 m hmc, handedCfg_get, handedCfg_get, p1, p2, p3, p4, p5, p6]
    simp only [handedNames, List.mem_cons, List.not_mem_nil, or_false] at hm
    rcases hm with rfl | rfl | rfl | rfl | rfl | rfl <;> simp
  · intro m hmc hm
    rw [tractInitAttrs_get, tractInitAttrs_get, g1 m hmc, g2 m hmc, handedCfg_get, handedCfg_get, p1, p2, p3, p4, p5, p6, hm]

/-- the attributes every subordinate tract starts from: `buildTracts` calls
    `tractInit … (.text handedDown) (some a.parseQQ) …`, i.e. `tractInitAttrs (ofText handedDown) (some a.parseQQ)` -/
def tractAttrsHanded (a : ParserArgs) : Except PyErr Attrs :=
  match handedDownText a with
  | .error e => .error e
  | .ok hd =>
    match ofText hd with
    | .error e => .error e
    | .ok k => .ok (tractInitAttrs k (some a.parseQQ))

theorem tractAttrsHanded_agree (a1 a2 : ParserArgs) (c1 c2 : Cfg) (s1 s2 : Bool) (hcore : a1.core = a2.core)
    (h1 : a1.handedDownConfig = hdText c1 s1) (h2 : a2.handedDownConfig = hdText c2 s2)
    (hw1 : CfgWF c1) (hw2 : CfgWF c2) :
    ∃ A1 A2, tractAttrsHanded a1 = .ok A1 ∧ tractAttrsHanded a2 = .ok A2 ∧
      (∀ m ∈ handedNames, A1.get m = A2.get m) ∧
      (∀ m ∈ Gen.CONFIG_ATTRIBUTES, (withSld c1 s1).get m = (withSld c2 s2).get m → A1.get m = A2.get m) := by
  obtain ⟨hd1, hd2, k1, k2, e1, e2, f1, f2, g, g'⟩ := C13_handed_down_agree a1 a2 c1 c2 s1 s2 hcore h1 h2 hw1 hw2
  refine ⟨_, _, ?_, ?_, g, g'⟩
  · unfold tractAttrsHanded; simp only [e1, f1]
  · unfold tractAttrsHanded; simp only [e2, f2]

/-- what the tracts get for `suppress_lot_divs`: on, iff the object's attribute is on or its stored config says so -/
theorem handed_sld (a : ParserArgs) (c : Cfg) (s : Bool) (hc : a.handedDownConfig = hdText c s) (hw : CfgWF c) :
    ∃ A, tractAttrsHanded a = .ok A ∧
      A.get "suppress_lot_divs" = some (.b (s || getB c "suppress_lot_divs")) := by
  obtain ⟨hd, k, e, f, g⟩ := handedDownText_spec a c s hc hw
  refine ⟨tractInitAttrs k (some a.parseQQ), by unfold tractAttrsHanded; simp only [e, f], ?_⟩
  rw [tractInitAttrs_get, g _ (by decide), handedCfg_get]
  simp only [String.reduceEq, false_and, if_false]
  have hc1 : Gen.TRACT_ATTRIBUTES.contains "suppress_lot_divs" = true := by decide
  simp only [hc1, if_true]
  cases s
  · simp only [withSld, Bool.false_eq_true, if_false, Bool.false_or]
    unfold getB
    cases hg : c.get "suppress_lot_divs" with
    | none => rfl
    | some v =>
      have hwf := get_wf c hw _ _ hg
      cases v with
      | b x => rfl
      | i x => simp [wellFormedEntry] at hwf; exact absurd hwf.1 (by decide)
      | s x => simp [wellFormedEntry] at hwf
  · simp only [withSld, if_true, get_set_eq, Bool.true_or]

/-- THE REPAIRED BEHAVIOUR (formerly the finding `…_replaces_handed_down`): whatever the stored config of a PLSSDesc
    contains — in particular a config assigned later that does not mention the setting — the tracts created by
    `PLSSDesc.parse` start with `suppress_lot_divs` on whenever the PLSSDesc's own attribute is on; and they start with
    it off when the attribute is off and the stored config does not set it.  (Exactly: on iff attribute or stored config.) -/
theorem C13_suppress_lot_divs_survives_reassignment (d : DescObj) (kw : DescKw) (hw : CfgWF d.config) :
    ∃ A, tractAttrsHanded (effectiveDesc d kw) = .ok A ∧
      A.get "suppress_lot_divs" = some (.b (getB d.attrs "suppress_lot_divs" || getB d.config "suppress_lot_divs")) ∧
      (getB d.attrs "suppress_lot_divs" = true → getB A "suppress_lot_divs" = true) ∧
      (getB d.attrs "suppress_lot_divs" = false → d.config.get "suppress_lot_divs" = none →
        getB A "suppress_lot_divs" = false) := by
  obtain ⟨A, hA, hg⟩ := handed_sld (effectiveDesc d kw) d.config (getB d.attrs "suppress_lot_divs")
    (effectiveDesc_handedDownConfig d kw) hw
  refine ⟨A, hA, hg, ?_, ?_⟩
  · intro h
    rw [h] at hg
    unfold getB
    rw [hg]
    rfl
  · intro h hn
    have : getB d.config "suppress_lot_divs" = false := by unfold getB; rw [hn]
    rw [this, h] at hg
    unfold getB
    rw [hg]
    rfl

/-- the scenario of the former finding, through the model's `.config = …` operation: a PLSSDesc with the attribute on
    is assigned ANY well-formed config that does not mention `suppress_lot_divs`; its tracts still get the setting -/
theorem C13_suppress_lot_divs_survives_reassignment_obj (d0 : DescObj) (c : Cfg) (kw : DescKw)
    (hs : getB d0.attrs "suppress_lot_divs" = true) (hc : c.get "suppress_lot_divs" = none) (hw : CfgWF c) :
    ∃ d2 A, descSetConfig d0 (.obj c) = .ok d2 ∧ getB d2.attrs "suppress_lot_divs" = true ∧
      tractAttrsHanded (effectiveDesc d2 kw) = .ok A ∧ getB A "suppress_lot_divs" = true := by
  have hattr : getB (applyConfig d0.attrs Gen.PLSSDESC_ATTRIBUTES c) "suppress_lot_divs" = true := by
    unfold getB at hs ⊢
    rw [applyConfig_get, hc]
    simp only [ite_self]
    exact hs
  obtain ⟨A, hA, _, h1, _⟩ := C13_suppress_lot_divs_survives_reassignment
    { d0 with attrs := applyConfig d0.attrs Gen.PLSSDESC_ATTRIBUTES c, config := c } kw hw
  exact ⟨_, A, descSetConfig_obj d0 c, hattr, hA, h1 hattr⟩

theorem desc_bool_names_wf : ∀ n ∈ descBoolNames, isBoolAttr n.toList = true ∧ n ≠ "suppress_lot_divs" ∧
    n ∈ Gen.CONFIG_ATTRIBUTES := by decide

theorem descInitAttrs_get_sld (c0 : Cfg) (lay : Option Str) (pq wait : Option Bool) :
    (descInitAttrs c0 lay pq wait).get "suppress_lot_divs"
      = (match c0.get "suppress_lot_divs" with | some v => some v | none => some (.b false)) := by
  rw [descInitAttrs_get, applyConfig_get]
  have h1 : ¬ ("suppress_lot_divs" = "layout" ∧ lay.isSome = true) := fun h => absurd h.1 (by decide)
  have h2 : ¬ ("suppress_lot_divs" = "wait_to_parse" ∧ wait.isSome = true) := fun h => absurd h.1 (by decide)
  have h3 : ¬ ("suppress_lot_divs" = "parse_qq" ∧ pq.isSome = true) := fun h => absurd h.1 (by decide)
  have c1 : Gen.PLSSDESC_ATTRIBUTES.contains "suppress_lot_divs" = true := by decide
  simp only [h1, h2, h3, if_false, c1, if_true]
  cases c0.get "suppress_lot_divs" <;> rfl

/-- MAIN (b), hand-down for the three channels of a Boolean setting: the subordinate tracts start from attribute maps
    that agree on suppress_lot_divs, parse_qq, clean_qq, qq_depth, qq_depth_min, qq_depth_max, break_halves in all
    three channels; hence in all three channels the tracts get the same `Tract.parse` parameters altogether -/
theorem C13_desc_bool_handed_down_three_channels (n : String) (hn : n ∈ descBoolNames) (d0 : DescObj) (c0 : Cfg)
    (lay : Option Str) (pq wait : Option Bool) (b : Bool) (kw : DescKw)
    (hd : d0.attrs = descInitAttrs c0 lay pq wait) (hcfg : d0.config = c0) (hw : CfgWF c0)
    (hpq : n = "parse_qq" → pq = none) (hk : kw.boolOf n = none) :
    ∃ d2 A1 A2 A3, descSetConfig d0 (.obj (Cfg.set [] n (.b b))) = .ok d2 ∧
      tractAttrsHanded (effectiveDesc { d0 with attrs := descInitAttrs (c0.set n (.b b)) lay pq wait,
                                                config := c0.set n (.b b) } kw) = .ok A1 ∧
      tractAttrsHanded (effectiveDesc d2 kw) = .ok A2 ∧
      tractAttrsHanded (effectiveDesc d0 (kw.withBool n b)) = .ok A3 ∧
      (∀ m ∈ "suppress_lot_divs" :: handedNames, A1.get m = A2.get m ∧ A2.get m = A3.get m) ∧
      (∀ tkw, effectiveTract A1 tkw = effectiveTract A2 tkw ∧ effectiveTract A2 tkw = effectiveTract A3 tkw) := by
  obtain ⟨d2, hs, h12, h23⟩ := C13_desc_bool_three_channels n hn d0 c0 lay pq wait b kw hd hpq hk
  obtain ⟨hbool, hsld, hcfgattr⟩ := desc_bool_names_wf n hn
  obtain ⟨hP, _, _⟩ := desc_bool_names n hn
  have hw1 : CfgWF (c0.set n (.b b)) := set_wf _ _ _ hw (wf_bool n b hbool)
  have hw2 : CfgWF (Cfg.set [] n (.b b)) := set_wf _ _ _ (fun e he => by cases he) (wf_bool n b hbool)
  have hd2 : d2 = { d0 with attrs := applyConfig d0.attrs Gen.PLSSDESC_ATTRIBUTES (Cfg.set [] n (.b b)),
                            config := Cfg.set [] n (.b b) } := by
    rw [descSetConfig_obj] at hs; cases hs; rfl
  -- the PLSSDesc's own attribute is the same in the three channels
  have hsne : "suppress_lot_divs" ≠ n := fun e => hsld e.symm
  have hs1 : getB (descInitAttrs (c0.set n (.b b)) lay pq wait) "suppress_lot_divs" = getB d0.attrs "suppress_lot_divs" := by
    unfold getB
    rw [hd, descInitAttrs_get_sld, descInitAttrs_get_sld, get_set_ne _ _ _ _ hsld]
  have hs2 : getB d2.attrs "suppress_lot_divs" = getB d0.attrs "suppress_lot_divs" := by
    unfold getB
    rw [hd2]
    simp only []
    rw [(tract_assignment_setFrom d0.attrs Gen.PLSSDESC_ATTRIBUTES n (.b b) hP).2 _ hsne]
  -- a stored `suppress_lot_divs` implies the attribute
  have himp : getB c0 "suppress_lot_divs" = true → getB d0.attrs "suppress_lot_divs" = true := by
    intro h
    unfold getB at h ⊢
    rw [hd, descInitAttrs_get_sld]
    cases hg : c0.get "suppress_lot_divs" with
    | none => rw [hg] at h; cases h
    | some v => rw [hg] at h; exact h
  have hc1 : getB (c0.set n (.b b)) "suppress_lot_divs" = getB c0 "suppress_lot_divs" := by
    unfold getB; rw [get_set_ne _ _ _ _ hsld]
  have hc2 : getB (Cfg.set [] n (.b b)) "suppress_lot_divs" = false := by
    unfold getB; rw [get_single]; simp [hsne]
  obtain ⟨A1, t1, q1⟩ := handed_sld
    (effectiveDesc { d0 with attrs := descInitAttrs (c0.set n (.b b)) lay pq wait, config := c0.set n (.b b) } kw)
    (c0.set n (.b b)) _ (effectiveDesc_handedDownConfig _ kw) hw1
  obtain ⟨A2, t2, q2⟩ := handed_sld (effectiveDesc d2 kw) (Cfg.set [] n (.b b)) (getB d2.attrs "suppress_lot_divs")
    (by rw [effectiveDesc_handedDownConfig, hd2]) hw2
  obtain ⟨A3, t3, q3⟩ := handed_sld (effectiveDesc d0 (kw.withBool n b)) c0 (getB d0.attrs "suppress_lot_divs")
    (by rw [effectiveDesc_handedDownConfig, hcfg]) hw
  simp only [] at q1
  rw [hs1, hc1] at q1
  rw [hs2, hc2] at q2
  have hq : (getB d0.attrs "suppress_lot_divs" || getB c0 "suppress_lot_divs") = getB d0.attrs "suppress_lot_divs" := by
    cases h : getB c0 "suppress_lot_divs"
    · simp
    · simp [himp h]
  rw [hq] at q1 q3
  rw [Bool.or_false] at q2
  obtain ⟨A1', A2', t1', t2', g12, _⟩ := tractAttrsHanded_agree _ _ (c0.set n (.b b)) (Cfg.set [] n (.b b)) _ _ h12
    (effectiveDesc_handedDownConfig _ kw) (by rw [effectiveDesc_handedDownConfig, hd2]) hw1 hw2
  obtain ⟨A2'', A3', t2'', t3', g23, _⟩ := tractAttrsHanded_agree _ _ (Cfg.set [] n (.b b)) c0 _ _ h23
    (by rw [effectiveDesc_handedDownConfig, hd2]) (by rw [effectiveDesc_handedDownConfig, hcfg]) hw2 hw
  rw [t1] at t1'; cases t1'
  rw [t2] at t2' t2''; cases t2'; cases t2''
  rw [t3] at t3'; cases t3'
  have hall : ∀ m ∈ "suppress_lot_divs" :: handedNames, A1.get m = A2.get m ∧ A2.get m = A3.get m := by
    intro m hm
    rcases List.mem_cons.1 hm with rfl | hm
    · exact ⟨by rw [q1, q2], by rw [q2, q3]⟩
    · exact ⟨g12 m hm, g23 m hm⟩
  refine ⟨d2, A1, A2, A3, hs, t1, t2, t3, hall, fun tkw => ⟨?_, ?_⟩⟩
  · exact effectiveTract_congr _ _ _ (fun m hm => (hall m (by revert m; decide)).1)
  · exact effectiveTract_congr _ _ _ (fun m hm => (hall m (by revert m; decide)).2)

/-- a PLSSDesc built (unparsed) from the config `c` -/
def exDesc (c : Cfg) : DescObj :=
  { origDesc := S "T154N-R97W Sec 14: NE/4", source := none, ppDesc := [], attrs := descInitAttrs c none none none, config := c }

example : ∃ A1 A2 A3,
    tractAttrsHanded (effectiveDesc (exDesc (Cfg.set [("suppress_lot_divs", .b true)] "clean_qq" (.b true))) {}) = .ok A1 ∧
    tractAttrsHanded (effectiveDesc { exDesc (Cfg.set [] "clean_qq" (.b true)) with
        attrs := applyConfig (descInitAttrs [("suppress_lot_divs", .b true)] none none none) Gen.PLSSDESC_ATTRIBUTES
                   (Cfg.set [] "clean_qq" (.b true)) } {}) = .ok A2 ∧
    tractAttrsHanded (effectiveDesc (exDesc [("suppress_lot_divs", .b true)]) { cleanQQ := some true }) = .ok A3 ∧
    ∀ tkw, effectiveTract A1 tkw = effectiveTract A2 tkw ∧ effectiveTract A2 tkw = effectiveTract A3 tkw := by
  obtain ⟨d2, A1, A2, A3, hs, t1, t2, t3, _, h⟩ := C13_desc_bool_handed_down_three_channels "clean_qq" (by decide)
    (exDesc [("suppress_lot_divs", .b true)])
    [("suppress_lot_divs", .b true)] none none none true {} rfl rfl (by intro e he; revert e; decide)
    (fun h => absurd h (by decide)) rfl
  rw [descSetConfig_obj] at hs
  cases hs
  exact ⟨A1, A2, A3, t1, t2, t3, h⟩

/-! ## (c) Summary: keyword > attribute (creation argument > config) > class default -/

/-- typed readings of an attribute value, as `getB` / `getOptI` / `getOptS` perform them -/
def optB (o : Option CV) : Option Bool := o.map cvTruthy
def optIv (o : Option CV) : Option Int :=
  match o with | some (.i v) => some v | some (.b v) => some (if v then 1 else 0) | _ => none
def optSv (o : Option CV) : Option Str := match o with | some (.s v) => some v | _ => none

/-- the attribute a new Tract holds: the config's value if the config sets it, else the class default -/
def tractAttr (c : Cfg) (m : String) : Option CV := (c.get m).or (tractDefaults.get m)

/-- the attribute a new PLSSDesc holds: an explicit creation argument (`layout=`, `parse_qq=`), else the config's
    value if the config sets it, else the class default -/
def descAttr (c : Cfg) (lay : Option Str) (pq : Option Bool) (m : String) : Option CV :=
  if m = "layout" ∧ lay.isSome then lay.map CV.s
  else if m = "parse_qq" ∧ pq.isSome then pq.map CV.b
  else (c.get m).or (descDefaults.get m)

theorem tract_attr_layer (c : Cfg) (pq : Option Bool) (m : String) (hm : m ∈ tractParseNames) :
    (tractInitAttrs c pq).get m = tractAttr c m := by
  have h1 : m ≠ "parse_qq" ∧ Gen.TRACT_ATTRIBUTES.contains m = true := by revert m; decide
  rw [tractInitAttrs_get]
  simp only [h1.1, false_and, if_false, h1.2, if_true, tractAttr]
  cases c.get m <;> rfl

theorem desc_attr_layer (c : Cfg) (lay : Option Str) (pq wait : Option Bool) (m : String) (hm : m ∈ descParseNames) :
    (descInitAttrs c lay pq wait).get m = descAttr c lay pq m := by
  have h1 : m ≠ "wait_to_parse" ∧ Gen.PLSSDESC_ATTRIBUTES.contains m = true := by revert m; decide
  rw [descInitAttrs_get, applyConfig_get]
  simp only [h1.1, false_and, if_false, h1.2, if_true, descAttr]
  cases c.get m <;> rfl

/-- SUMMARY for `Tract.parse`: every effective parameter is the keyword if given, else the attribute (the config's
    value if the config sets it, else the class default of `tractDefaults`).  For the depth family the code's own rule
    is part of the statement: the effective `qq_depth` is the keyword, else the attribute UNLESS a min/max keyword is
    given; when there is an effective `qq_depth` it fixes both bounds, otherwise min and max follow the plain order. -/
theorem C13_keyword_beats_attribute_beats_default_tract (c : Cfg) (pq : Option Bool) (kw : TractKw) :
    let e := effectiveTract (tractInitAttrs c pq) kw
    e.cleanQQ = kw.cleanQQ.getD ((optB (tractAttr c "clean_qq")).getD false) ∧
    e.suppressLotDivs = kw.suppressLotDivs.getD ((optB (tractAttr c "suppress_lot_divs")).getD false) ∧
    e.depth.breakHalves = kw.breakHalves.getD ((optB (tractAttr c "break_halves")).getD false) ∧
    (match kw.qqDepth.or (if kw.qqDepthMin.isSome || kw.qqDepthMax.isSome then none else optIv (tractAttr c "qq_depth")) with
     | some d => e.depth.qqMin = d ∧ e.depth.qqMax = some d
     | none => e.depth.qqMin = kw.qqDepthMin.getD ((optIv (tractAttr c "qq_depth_min")).getD 2) ∧
               e.depth.qqMax = kw.qqDepthMax.or (optIv (tractAttr c "qq_depth_max"))) := by
  intro e
  have e1 := tract_attr_layer c pq "clean_qq" (by decide)
  have e2 := tract_attr_layer c pq "suppress_lot_divs" (by decide)
  have e3 := tract_attr_layer c pq "break_halves" (by decide)
  have e4 := tract_attr_layer c pq "qq_depth_min" (by decide)
  have e5 := tract_attr_layer c pq "qq_depth_max" (by decide)
  have e6 := tract_attr_layer c pq "qq_depth" (by decide)
  have he : e = effectiveTract (tractInitAttrs c pq) kw := rfl
  clear_value e
  unfold effectiveTract getB getOptI at he
  rw [e1, e2, e3, e4, e5, e6] at he
  subst he
  refine ⟨?_, ?_, ?_, ?_⟩
  · simp only [optB]; cases tractAttr c "clean_qq" <;> rfl
  · simp only [optB]; cases tractAttr c "suppress_lot_divs" <;> rfl
  · simp only [optB]; cases tractAttr c "break_halves" <;> rfl
  · change (match kw.qqDepth.or (if kw.qqDepthMin.isSome || kw.qqDepthMax.isSome then none else optIv (tractAttr c "qq_depth")) with
      | some d => _ | none => _)
    cases kw.qqDepth <;> cases kw.qqDepthMin <;> cases kw.qqDepthMax <;>
      rcases tractAttr c "qq_depth" with _ | ⟨_ | _ | _⟩ <;> first | exact ⟨rfl, rfl⟩ | rfl

/-- SUMMARY for `PLSSDesc.parse`, over all its settings at once -/
theorem C13_keyword_beats_attribute_beats_default_desc (d : DescObj) (c : Cfg) (lay : Option Str) (pq wait : Option Bool)
    (kw : DescKw) (hd : d.attrs = descInitAttrs c lay pq wait) :
    let e := effectiveDesc d kw
    let A := descAttr c lay pq
    e.parseQQ = kw.parseQQ.getD ((optB (A "parse_qq")).getD false) ∧
    e.cleanQQ = kw.cleanQQ.getD ((optB (A "clean_qq")).getD false) ∧
    e.ocrScrub = kw.ocrScrub.getD ((optB (A "ocr_scrub")).getD false) ∧
    e.secWithin = kw.secWithin.getD ((optB (A "sec_within")).getD false) ∧
    e.breakHalves = kw.breakHalves.getD ((optB (A "break_halves")).getD false) ∧
    e.requireColon = (if kw.secColonRequired.getD ((optB (A "sec_colon_required")).getD false) then ReqColon.yes
                      else if kw.secColonCautious.getD ((optB (A "sec_colon_cautious")).getD false) then ReqColon.cautious
                      else ReqColon.no) ∧
    e.layout = kw.layout.or (optSv (A "layout")) ∧
    e.segment = (if e.layout == some COPY_ALL then false else kw.segment.getD ((optB (A "segment")).getD false)) ∧
    e.defaultNS = (nonEmpty kw.defaultNS).or (optSv (A "default_ns")) ∧
    e.defaultEW = (nonEmpty kw.defaultEW).or (optSv (A "default_ew")) ∧
    e.qqDepthMin = kw.qqDepthMin.or (optIv (A "qq_depth_min")) ∧
    e.qqDepthMax = kw.qqDepthMax.or (optIv (A "qq_depth_max")) ∧
    e.qqDepth = (if kw.qqDepth.isNone && kw.qqDepthMin.isNone && kw.qqDepthMax.isNone then optIv (A "qq_depth")
                 else kw.qqDepth) ∧
    e.cleanUp = kw.cleanUp := by
  intro e A
  have h1 := desc_attr_layer c lay pq wait "sec_colon_required" (by decide)
  have h2 := desc_attr_layer c lay pq wait "sec_colon_cautious" (by decide)
  have h3 := desc_attr_layer c lay pq wait "layout" (by decide)
  have h4 := desc_attr_layer c lay pq wait "segment" (by decide)
  have h5 := desc_attr_layer c lay pq wait "qq_depth" (by decide)
  have h6 := desc_attr_layer c lay pq wait "qq_depth_min" (by decide)
  have h7 := desc_attr_layer c lay pq wait "qq_depth_max" (by decide)
  have h8 := desc_attr_layer c lay pq wait "default_ns" (by decide)
  have h9 := desc_attr_layer c lay pq wait "default_ew" (by decide)
  have h10 := desc_attr_layer c lay pq wait "ocr_scrub" (by decide)
  have h11 := desc_attr_layer c lay pq wait "parse_qq" (by decide)
  have h12 := desc_attr_layer c lay pq wait "clean_qq" (by decide)
  have h13 := desc_attr_layer c lay pq wait "break_halves" (by decide)
  have h14 := desc_attr_layer c lay pq wait "sec_within" (by decide)
  have he : e = effectiveDesc d kw := rfl
  clear_value e
  have gB : ∀ (a : Attrs) (n : String), getB a n = (optB (a.get n)).getD false := by
    intro a n; unfold getB optB; cases a.get n <;> rfl
  have gI : ∀ (a : Attrs) (n : String), getOptI a n = optIv (a.get n) := by
    intro a n; unfold getOptI optIv; rfl
  have gS : ∀ (a : Attrs) (n : String), getOptS a n = optSv (a.get n) := by
    intro a n; unfold getOptS optSv; rfl
  unfold effectiveDesc at he
  simp only [gB, gI, gS, hd, h1, h2, h3, h4, h5, h6, h7, h8, h9, h10, h11, h12, h13, h14] at he
  subst he
  refine ⟨rfl, rfl, rfl, rfl, rfl, rfl, ?_, rfl, ?_, ?_, ?_, ?_, rfl, rfl⟩
  · cases kw.layout <;> rfl
  · cases nonEmpty kw.defaultNS <;> rfl
  · cases nonEmpty kw.defaultEW <;> rfl
  · cases kw.qqDepthMin <;> rfl
  · cases kw.qqDepthMax <;> rfl

/-- SUMMARY (c): one precedence order for every setting of both parse methods -/
theorem C13_keyword_beats_attribute_beats_default :
    (∀ (c : Cfg) (pq : Option Bool) (kw : TractKw),
      let e := effectiveTract (tractInitAttrs c pq) kw
      e.cleanQQ = kw.cleanQQ.getD ((optB (tractAttr c "clean_qq")).getD false) ∧
      e.suppressLotDivs = kw.suppressLotDivs.getD ((optB (tractAttr c "suppress_lot_divs")).getD false) ∧
      e.depth.breakHalves = kw.breakHalves.getD ((optB (tractAttr c "break_halves")).getD false) ∧
      (match kw.qqDepth.or (if kw.qqDepthMin.isSome || kw.qqDepthMax.isSome then none else optIv (tractAttr c "qq_depth")) with
       | some d => e.depth.qqMin = d ∧ e.depth.qqMax = some d
       | none => e.depth.qqMin = kw.qqDepthMin.getD ((optIv (tractAttr c "qq_depth_min")).getD 2) ∧
                 e.depth.qqMax = kw.qqDepthMax.or (optIv (tractAttr c "qq_depth_max")))) ∧
    (∀ (d : DescObj) (c : Cfg) (lay : Option Str) (pq wait : Option Bool) (kw : DescKw),
      d.attrs = descInitAttrs c lay pq wait →
      let e := effectiveDesc d kw
      let A := descAttr c lay pq
      e.parseQQ = kw.parseQQ.getD ((optB (A "parse_qq")).getD false) ∧
      e.cleanQQ = kw.cleanQQ.getD ((optB (A "clean_qq")).getD false) ∧
      e.ocrScrub = kw.ocrScrub.getD ((optB (A "ocr_scrub")).getD false) ∧
      e.secWithin = kw.secWithin.getD ((optB (A "sec_within")).getD false) ∧
      e.breakHalves = kw.breakHalves.getD ((optB (A "break_halves")).getD false) ∧
      e.requireColon = (if kw.secColonRequired.getD ((optB (A "sec_colon_required")).getD false) then ReqColon.yes
                        else if kw.secColonCautious.getD ((optB (A "sec_colon_cautious")).getD false) then ReqColon.cautious
                        else ReqColon.no) ∧
      e.layout = kw.layout.or (optSv (A "layout")) ∧
      e.segment = (if e.layout == some COPY_ALL then false else kw.segment.getD ((optB (A "segment")).getD false)) ∧
      e.defaultNS = (nonEmpty kw.defaultNS).or (optSv (A "default_ns")) ∧
      e.defaultEW = (nonEmpty kw.defaultEW).or (optSv (A "default_ew")) ∧
      e.qqDepthMin = kw.qqDepthMin.or (optIv (A "qq_depth_min")) ∧
      e.qqDepthMax = kw.qqDepthMax.or (optIv (A "qq_depth_max")) ∧
      e.qqDepth = (if kw.qqDepth.isNone && kw.qqDepthMin.isNone && kw.qqDepthMax.isNone then optIv (A "qq_depth")
                   else kw.qqDepth) ∧
      e.cleanUp = kw.cleanUp) :=
  ⟨C13_keyword_beats_attribute_beats_default_tract, C13_keyword_beats_attribute_beats_default_desc⟩

/-- class default, then config, then keyword — on a concrete configuration -/
example : (effectiveTract (tractInitAttrs [] none) {}).depth.qqMin = 2 ∧
    (effectiveTract (tractInitAttrs [("qq_depth_min", .i 1)] none) {}).depth.qqMin = 1 ∧
    (effectiveTract (tractInitAttrs [("qq_depth_min", .i 1)] none) { qqDepthMin := some 3 }).depth.qqMin = 3 := by decide

example := C13_keyword_beats_attribute_beats_default_desc (exDesc [("clean_qq", .b true)]) [("clean_qq", .b true)]
  none none none { cleanQQ := some false } rfl

/-! ## Further concrete instances -/

example (m : String) : (tractInitAttrs (Cfg.set [("qq_depth_max", .i 3)] "ocr_scrub" (.b true)) (some true)).get m
    = (applyConfig (tractInitAttrs [("qq_depth_max", .i 3)] (some true)) Gen.TRACT_ATTRIBUTES (Cfg.set [] "ocr_scrub" (.b true))).get m :=
  C13_tract_creation_eq_assignment _ _ "ocr_scrub" _ (by decide) (fun h => absurd h (by decide)) m

example := C13_tract_config_channels [("clean_qq", .b true)] none "qq_depth" (.i 2) { breakHalves := some true }
  (by decide) (fun h => absurd h (by decide))

example := C13_tract_config_channels_obj
  { uid := 0, trs := TRS.trsToDict (some (S "154n97w14")), desc := S "NE/4", origDesc := none, origIndex := 0,
    source := none, attrs := tractInitAttrs [("clean_qq", .b true)] none, ppDesc := S "NE/4" }
  [("clean_qq", .b true)] none "break_halves" (.b true) {} (by decide) (fun h => absurd h (by decide)) rfl

/-- the depth rule on a concrete object: `qq_depth.3` configured, `qq_depth_max=5` passed: depth 3 is switched off -/
example : ((effectiveTract (tractInitAttrs [("qq_depth", .i 3)] none) { qqDepthMax := some 5 }).depth.qqMin,
           (effectiveTract (tractInitAttrs [("qq_depth", .i 3)] none) { qqDepthMax := some 5 }).depth.qqMax) = (2, some 5) :=
  (C13_depth_family_keyword_switches_qq_depth_off (tractInitAttrs [("qq_depth", .i 3)] none) { qqDepthMax := some 5 } 3
    (by decide) rfl).trans (by decide)

/-- the exactness statement, instantiated in its failing direction: with `qq_depth.3` in the base the channels differ -/
example : effectiveTract (tractInitAttrs (Cfg.set [("qq_depth", .i 3)] "qq_depth_min" (.i 1)) none) {}
    ≠ effectiveTract (tractInitAttrs [("qq_depth", .i 3)] none) { qqDepthMin := some 1 } := by
  intro h
  have := (C13_tract_depth_min_channels_iff [("qq_depth", .i 3)] none 1).1 h 3 (by decide)
  exact absurd this.1 (by decide)

example := C13_tract_qq_depth_three_channels [("qq_depth_min", .i 1), ("qq_depth_max", .i 4)] (some false) 2

example := C13_desc_config_channels (exDesc [("segment", .b true)]) [("segment", .b true)] none none none
  "default_ns" (.s (S "s")) { parseQQ := some true } (by decide) (fun h => absurd h (by decide))
  (fun h => absurd h (by decide)) (fun h => absurd h (by decide)) rfl

example := C13_desc_str_three_channels "layout" (by decide) (exDesc [("segment", .b true)]) [("segment", .b true)]
  none none none (S "copy_all") {} rfl (fun _ => rfl) rfl (fun h => absurd rfl h)

example := C13_desc_str_three_channels "default_ew" (by decide) (exDesc []) [] none none none (S "e") {} rfl
  (fun h => absurd h (by decide)) rfl (fun _ => by decide)

example := C13_desc_int_three_channels "qq_depth_max" (by decide) (exDesc [("qq_depth_min", .i 1)]) [("qq_depth_min", .i 1)]
  none none none 3 rfl (fun _ => by decide)

example := C13_desc_int_three_channels "qq_depth" (by decide) (exDesc [("qq_depth_min", .i 1)]) [("qq_depth_min", .i 1)]
  none none none 2 rfl (fun h => absurd rfl h)

/-- the scenario of the former finding: creation config `suppress_lot_divs,wait_to_parse`, then `.config = "parse_qq"` -/
def exCreated : DescObj :=
  exDesc [("suppress_lot_divs", .b true), ("wait_to_parse", .b true)]

example : ∃ d2 A, descSetConfig exCreated (.obj [("parse_qq", .b true)]) = .ok d2 ∧
    getB d2.attrs "suppress_lot_divs" = true ∧
    tractAttrsHanded (effectiveDesc d2 {}) = .ok A ∧ getB A "suppress_lot_divs" = true :=
  C13_suppress_lot_divs_survives_reassignment_obj exCreated [("parse_qq", .b true)] {} (by decide) (by decide)
    (by intro e he; revert e; decide)

/-- the same scenario evaluated by the kernel on the config TEXTS, in both orders: creation config
    `"suppress_lot_divs,wait_to_parse"` then `.config = "parse_qq"`, versus creation config `"suppress_lot_divs,parse_qq"` -/
def scenarioLater : Except PyErr Attrs :=
  match Config.ofText (S "suppress_lot_divs,wait_to_parse") with
  | .error e => .error e
  | .ok c =>
    match descSetConfig (exDesc c) (.text (S "parse_qq")) with
    | .error e => .error e
    | .ok d2 => tractAttrsHanded (effectiveDesc d2 {})

def scenarioAtCreation : Except PyErr Attrs :=
  match Config.ofText (S "suppress_lot_divs,parse_qq") with
  | .error e => .error e
  | .ok c => tractAttrsHanded (effectiveDesc (exDesc c) {})

/-- (suppress_lot_divs, parse_qq) as the subordinate tracts receive them -/
def sldAndPq (r : Except PyErr Attrs) : Option (Bool × Bool) :=
  match r with | .ok A => some (getB A "suppress_lot_divs", getB A "parse_qq") | .error _ => none

/-- both orders hand `suppress_lot_divs` (and `parse_qq`) down to the tracts -/
example : sldAndPq scenarioLater = some (true, true) ∧ sldAndPq scenarioAtCreation = some (true, true) := by
  decide +kernel

#print axioms C13_tract_creation_eq_assignment
#print axioms C13_tract_config_channels
#print axioms C13_tract_config_channels_obj
#print axioms C13_tract_bool_three_channels
#print axioms C13_tract_bool_three_channels_explicit
#print axioms C13_tract_minmax_three_channels
#print axioms C13_depth_family_keyword_switches_qq_depth_off
#print axioms C13_tract_depth_min_channels_iff
#print axioms C13_tract_qq_depth_three_channels
#print axioms C13_desc_config_channels
#print axioms C13_desc_bool_three_channels
#print axioms C13_desc_str_three_channels
#print axioms C13_desc_int_three_channels
#print axioms C13_handed_down_agree
#print axioms C13_desc_bool_handed_down_three_channels
#print axioms C13_suppress_lot_divs_survives_reassignment
#print axioms C13_suppress_lot_divs_survives_reassignment_obj
#print axioms C13_keyword_beats_attribute_beats_default_tract
#print axioms C13_keyword_beats_attribute_beats_default_desc
#print axioms C13_keyword_beats_attribute_beats_default

end PyTRS
