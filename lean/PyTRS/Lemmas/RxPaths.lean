/-
U8 — Safe patterns have polynomially many backtracking paths (property C16).

`Rx.all r s` lists all the ways `r` can finish from `s` (with multiplicity, in backtracking order), and
`Rx.m_eq_findSome` says the CPS matcher is `findSome?` over it; so `(r.all s).length` is the number of
backtracking paths a failing continuation is made to explore.  Here: an explicit bound `Rx.paths` for Safe
patterns, and an explicit polynomial `coef * (n+1)^deg` dominating `paths`.
-/
import PyTRS.Lemmas.RxAll
import PyTRS.Lemmas.RxBounds
import PyTRS.Gen.Patterns
namespace PyTRS

/-- an upper bound on the number of ways `r` can finish from a state with `n` characters left -/
def Rx.paths : Rx → Nat → Nat
  | .eps, _ => 1
  | .fail, _ => 0
  | .chr _, _ => 1
  | .seq a b, n => a.paths n * b.paths n
  | .alt a b, n => a.paths n + b.paths n
  | .rep _ _ none, n => n + 1                                -- Safe: the body is one character class
  | .rep r lo (some h), n => (r.paths n + 1) ^ (max lo h)
  | .grp _ r, n => r.paths n
  | .ahead _, _ => 1
  | .nahead _, _ => 1
  | .behind _, _ => 1
  | .wordb _, _ => 1
  | .eos, _ => 1
  | .bos, _ => 1

theorem Rx.paths_mono (r : Rx) {m n : Nat} (h : m ≤ n) : r.paths m ≤ r.paths n := by
  induction r with
  | eps => exact Nat.le_refl _
  | fail => exact Nat.le_refl _
  | chr _ => exact Nat.le_refl _
  | seq a b iha ihb => simp only [Rx.paths]; exact Nat.mul_le_mul iha ihb
  | alt a b iha ihb => simp only [Rx.paths]; exact Nat.add_le_add iha ihb
  | rep r lo hi ih =>
    cases hi with
    | none => simp only [Rx.paths]; omega
    | some k => simp only [Rx.paths]; exact Nat.pow_le_pow_left (Nat.succ_le_succ ih) _
  | grp i r ih => simp only [Rx.paths]; exact ih
  | ahead _ _ => exact Nat.le_refl _
  | nahead _ _ => exact Nat.le_refl _
  | behind _ => exact Nat.le_refl _
  | wordb _ => exact Nat.le_refl _
  | eos => exact Nat.le_refl _
  | bos => exact Nat.le_refl _

/-! ### list helpers -/

theorem length_flatMap_le {α β : Type} (l : List α) (f : α → List β) (B : Nat)
    (h : ∀ a ∈ l, (f a).length ≤ B) : (l.flatMap f).length ≤ l.length * B := by
  induction l with
  | nil => simp
  | cons a t ih =>
    rw [List.flatMap_cons, List.length_append, List.length_cons, Nat.succ_mul]
    have h1 := h a (List.mem_cons_self ..)
    have h2 := ih (fun x hx => h x (List.mem_cons_of_mem _ hx))
    omega

theorem sum_map_le {α : Type} (l : List α) (f : α → Nat) (B : Nat)
    (h : ∀ a ∈ l, f a ≤ B) : (l.map f).sum ≤ l.length * B := by
  induction l with
  | nil => simp
  | cons a t ih =>
    rw [List.map_cons, List.sum_cons, List.length_cons, Nat.succ_mul]
    have h1 := h a (List.mem_cons_self ..)
    have h2 := ih (fun x hx => h x (List.mem_cons_of_mem _ hx))
    omega

/-! ### results never have more characters left -/

theorem repAll_rest_le (body : St → List St)
    (hb : ∀ s s', s' ∈ body s → s'.rest.length ≤ s.rest.length) (lo : Nat) (hi : Option Nat) :
    ∀ (fuel count : Nat) (last : Option Nat) (s s' : St),
      s' ∈ repAll body lo hi fuel count last s → s'.rest.length ≤ s.rest.length := by
  intro fuel
  induction fuel with
  | zero => intro count last s s' h; simp [repAll] at h
  | succ n ih =>
    intro count last s s' h
    rw [repAll.eq_def] at h
    simp only [] at h
    split at h
    · rw [List.mem_flatMap] at h
      obtain ⟨s1, h1, h2⟩ := h
      exact Nat.le_trans (ih _ _ _ _ h2) (hb _ _ h1)
    · split at h
      · rw [List.mem_append, List.mem_flatMap] at h
        rcases h with ⟨s1, h1, h2⟩ | h
        · exact Nat.le_trans (ih _ _ _ _ h2) (hb _ _ h1)
        · rw [List.mem_singleton] at h; subst h; exact Nat.le_refl _
      · rw [List.mem_singleton] at h; subst h; exact Nat.le_refl _

/-- every result state has at most as many characters left as the start state -/
theorem Rx.all_rest_le (r : Rx) (s s' : St) (h : s' ∈ r.all s) : s'.rest.length ≤ s.rest.length := by
  induction r generalizing s s' with
  | eps => simp only [Rx.all, List.mem_singleton] at h; subst h; exact Nat.le_refl _
  | fail => simp [Rx.all] at h
  | chr cs =>
    simp only [Rx.all] at h
    split at h
    · rename_i c t hrest
      split at h
      · rw [List.mem_singleton] at h; subst h; rw [hrest]; simp
      · simp at h
    · simp at h
  | seq a b iha ihb =>
    simp only [Rx.all, List.mem_flatMap] at h
    obtain ⟨s1, h1, h2⟩ := h
    exact Nat.le_trans (ihb _ _ h2) (iha _ _ h1)
  | alt a b iha ihb =>
    simp only [Rx.all, List.mem_append] at h
    rcases h with h | h
    · exact iha _ _ h
    · exact ihb _ _ h
  | rep r lo hi ih =>
    simp only [Rx.all] at h
    exact repAll_rest_le r.all ih lo hi _ _ _ _ _ h
  | grp i r ih =>
    simp only [Rx.all, List.mem_map] at h
    obtain ⟨s1, h1, h2⟩ := h
    subst h2
    exact ih s s1 h1
  | ahead r _ =>
    simp only [Rx.all] at h
    split at h
    · rw [List.mem_singleton] at h; subst h; exact Nat.le_refl _
    · simp at h
  | nahead r _ =>
    simp only [Rx.all] at h
    split at h
    · simp at h
    · rw [List.mem_singleton] at h; subst h; exact Nat.le_refl _
  | behind cs =>
    simp only [Rx.all] at h
    split at h
    · split at h
      · rw [List.mem_singleton] at h; subst h; exact Nat.le_refl _
      · simp at h
    · simp at h
  | wordb w =>
    simp only [Rx.all] at h
    split at h
    · rw [List.mem_singleton] at h; subst h; exact Nat.le_refl _
    · simp at h
  | eos =>
    simp only [Rx.all] at h
    split at h
    · rw [List.mem_singleton] at h; subst h; exact Nat.le_refl _
    · split at h
      · rw [List.mem_singleton] at h; subst h; exact Nat.le_refl _
      · simp at h
    · simp at h
  | bos =>
    simp only [Rx.all] at h
    split at h
    · rw [List.mem_singleton] at h; subst h; exact Nat.le_refl _
    · simp at h

/-! ### the unbounded loop over a single character class -/

theorem chr_all_cases (cs : CharSet) (s : St) :
    (Rx.chr cs).all s = [] ∨ ∃ s', (Rx.chr cs).all s = [s'] ∧ s'.rest.length + 1 = s.rest.length := by
  simp only [Rx.all]
  split
  · rename_i c t hrest
    split
    · right; exact ⟨_, rfl, by rw [hrest]; simp⟩
    · left; rfl
  · left; rfl

theorem repAll_chr_length (cs : CharSet) (lo : Nat) :
    ∀ (fuel count : Nat) (last : Option Nat) (s : St),
      (repAll (Rx.chr cs).all lo none fuel count last s).length ≤ s.rest.length + 1 := by
  intro fuel
  induction fuel with
  | zero => intro count last s; simp [repAll]
  | succ n ih =>
    intro count last s
    rw [repAll.eq_def]
    simp only []
    rcases chr_all_cases cs s with h0 | ⟨s1, h1, hlen⟩
    · rw [h0]
      split
      · simp
      · split <;> simp
    · rw [h1]
      split
      · rw [List.flatMap_cons, List.flatMap_nil, List.append_nil]
        have := ih (count + 1) last s1
        omega
      · split
        · rw [List.flatMap_cons, List.flatMap_nil, List.append_nil, List.length_append,
            List.length_singleton]
          have := ih (count + 1) (some s.pos) s1
          omega
        · simp

/-! ### the bounded loop -/

theorem repAll_bounded_length (body : St → List St) (lo h P n : Nat)
    (hrest : ∀ s s', s' ∈ body s → s'.rest.length ≤ s.rest.length)
    (hP : ∀ s : St, s.rest.length ≤ n → (body s).length ≤ P) :
    ∀ (fuel count : Nat) (last : Option Nat) (s : St), s.rest.length ≤ n →
      (repAll body lo (some h) fuel count last s).length ≤ (P + 1) ^ (max lo h - count) := by
  intro fuel
  induction fuel with
  | zero =>
    intro count last s _
    simp only [repAll, List.length_nil]
    exact Nat.zero_le _
  | succ k ih =>
    intro count last s hs
    have hstep : ∀ last', count < max lo h →
        ((body s).flatMap (fun s' => repAll body lo (some h) k (count + 1) last' s')).length + 1
          ≤ (P + 1) ^ (max lo h - count) := by
      intro last' hc
      have hX : 0 < (P + 1) ^ (max lo h - (count + 1)) := Nat.pow_pos (Nat.succ_pos _)
      have h1 := length_flatMap_le (body s)
        (fun s' => repAll body lo (some h) k (count + 1) last' s') _
        (fun a ha => ih (count + 1) last' a (Nat.le_trans (hrest _ _ ha) hs))
      have h2 : (body s).length * (P + 1) ^ (max lo h - (count + 1))
          ≤ P * (P + 1) ^ (max lo h - (count + 1)) := Nat.mul_le_mul_right _ (hP s hs)
      have h3 : max lo h - count = (max lo h - (count + 1)) + 1 := by omega
      rw [h3, Nat.pow_succ, Nat.mul_comm _ (P + 1), Nat.succ_mul]
      omega
    rw [repAll.eq_def]
    simp only []
    split
    · rename_i hc
      have := hstep last (by omega)
      omega
    · split
      · rename_i hc hg
        simp only [canMore, Bool.and_eq_true, decide_eq_true_eq] at hg
        rw [List.length_append, List.length_singleton]
        exact hstep (some s.pos) (by omega)
      · rw [List.length_singleton]
        exact Nat.pow_pos (Nat.succ_pos _)

/-! ### the main bound -/

theorem isChr_eq (r : Rx) (h : r.isChr = true) : ∃ cs, r = .chr cs := by
  cases r <;> simp [Rx.isChr] at h
  exact ⟨_, rfl⟩

/-- MAIN: for a Safe pattern the number of backtracking paths from any state is bounded by `paths` -/
theorem C16_safe_paths_bound (r : Rx) (hs : r.safe = true) (s : St) :
    (r.all s).length ≤ r.paths s.rest.length := by
  induction r generalizing s with
  | eps => simp [Rx.all, Rx.paths]
  | fail => simp [Rx.all, Rx.paths]
  | chr cs =>
    rcases chr_all_cases cs s with h0 | ⟨s1, h1, _⟩
    · rw [h0]; simp [Rx.paths]
    · rw [h1]; simp [Rx.paths]
  | seq a b iha ihb =>
    simp only [Rx.safe, Bool.and_eq_true] at hs
    simp only [Rx.all, Rx.paths]
    have h1 := length_flatMap_le (a.all s) b.all (b.paths s.rest.length)
      (fun x hx => Nat.le_trans (ihb hs.2 x) (b.paths_mono (a.all_rest_le _ _ hx)))
    exact Nat.le_trans h1 (Nat.mul_le_mul_right _ (iha hs.1 s))
  | alt a b iha ihb =>
    simp only [Rx.safe, Bool.and_eq_true] at hs
    simp only [Rx.all, Rx.paths, List.length_append]
    exact Nat.add_le_add (iha hs.1 s) (ihb hs.2 s)
  | rep r lo hi ih =>
    cases hi with
    | none =>
      simp only [Rx.safe] at hs
      obtain ⟨cs, rfl⟩ := isChr_eq r hs
      simp only [Rx.all, Rx.paths]
      exact repAll_chr_length cs lo _ _ _ s
    | some h =>
      simp only [Rx.safe] at hs
      simp only [Rx.all, Rx.paths]
      have := repAll_bounded_length r.all lo h (r.paths s.rest.length) s.rest.length
        (fun a b hab => r.all_rest_le a b hab)
        (fun a ha => Nat.le_trans (ih hs a) (r.paths_mono ha))
        (s.rest.length + lo + 2) 0 none s (Nat.le_refl _)
      simpa using this
  | grp i r ih =>
    simp only [Rx.safe] at hs
    simp only [Rx.all, Rx.paths, List.length_map]
    exact ih hs s
  | ahead r _ =>
    simp only [Rx.all, Rx.paths]
    split <;> simp
  | nahead r _ =>
    simp only [Rx.all, Rx.paths]
    split <;> simp
  | behind cs =>
    simp only [Rx.all, Rx.paths]
    split
    · split <;> simp
    · simp
  | wordb w =>
    simp only [Rx.all, Rx.paths]
    split <;> simp
  | eos =>
    simp only [Rx.all, Rx.paths]
    split
    · simp
    · split <;> simp
    · simp
  | bos =>
    simp only [Rx.all, Rx.paths]
    split <;> simp

/-! ### `paths` is a polynomial -/

/-- `paths` is a polynomial of degree at most `stars`: explicit constant `Rx.coef` -/
def Rx.coef : Rx → Nat
  | .seq a b => a.coef * b.coef
  | .alt a b => a.coef + b.coef
  | .rep _ _ none => 1
  | .rep r lo (some h) => (r.coef + 1) ^ (max lo h)
  | .grp _ r => r.coef
  | .fail => 0
  | _ => 1

/-- degree: like `Rx.stars` but with `max lo h` for bounded repeats -/
def Rx.deg : Rx → Nat
  | .seq a b => a.deg + b.deg
  | .alt a b => max a.deg b.deg
  | .rep _ _ none => 1
  | .rep r lo (some h) => (max lo h) * r.deg
  | .grp _ r => r.deg
  | _ => 0

theorem C16_paths_polynomial (r : Rx) (n : Nat) : r.paths n ≤ r.coef * (n + 1) ^ r.deg := by
  induction r with
  | eps => simp [Rx.paths, Rx.coef, Rx.deg]
  | fail => simp [Rx.paths]
  | chr _ => simp [Rx.paths, Rx.coef, Rx.deg]
  | seq a b iha ihb =>
    simp only [Rx.paths, Rx.coef, Rx.deg]
    calc a.paths n * b.paths n
        ≤ (a.coef * (n + 1) ^ a.deg) * (b.coef * (n + 1) ^ b.deg) := Nat.mul_le_mul iha ihb
      _ = a.coef * b.coef * (n + 1) ^ (a.deg + b.deg) := by
        rw [Nat.pow_add, Nat.mul_mul_mul_comm]
  | alt a b iha ihb =>
    simp only [Rx.paths, Rx.coef, Rx.deg]
    have ha : (n + 1) ^ a.deg ≤ (n + 1) ^ (max a.deg b.deg) :=
      Nat.pow_le_pow_right (Nat.succ_pos _) (Nat.le_max_left _ _)
    have hb : (n + 1) ^ b.deg ≤ (n + 1) ^ (max a.deg b.deg) :=
      Nat.pow_le_pow_right (Nat.succ_pos _) (Nat.le_max_right _ _)
    rw [Nat.add_mul]
    exact Nat.add_le_add (Nat.le_trans iha (Nat.mul_le_mul_left _ ha))
      (Nat.le_trans ihb (Nat.mul_le_mul_left _ hb))
  | rep r lo hi ih =>
    cases hi with
    | none => simp [Rx.paths, Rx.coef, Rx.deg]
    | some h =>
      simp only [Rx.paths, Rx.coef, Rx.deg]
      have hpos : 1 ≤ (n + 1) ^ r.deg := Nat.pow_pos (Nat.succ_pos _)
      have h1 : r.paths n + 1 ≤ (r.coef + 1) * (n + 1) ^ r.deg := by
        rw [Nat.add_mul, Nat.one_mul]
        omega
      calc (r.paths n + 1) ^ (max lo h)
          ≤ ((r.coef + 1) * (n + 1) ^ r.deg) ^ (max lo h) := Nat.pow_le_pow_left h1 _
        _ = (r.coef + 1) ^ (max lo h) * (n + 1) ^ (max lo h * r.deg) := by
          rw [Nat.mul_pow, ← Nat.pow_mul, Nat.mul_comm r.deg]
  | grp i r ih => simp only [Rx.paths, Rx.coef, Rx.deg]; exact ih
  | ahead _ _ => simp [Rx.paths, Rx.coef, Rx.deg]
  | nahead _ _ => simp [Rx.paths, Rx.coef, Rx.deg]
  | behind _ => simp [Rx.paths, Rx.coef, Rx.deg]
  | wordb _ => simp [Rx.paths, Rx.coef, Rx.deg]
  | eos => simp [Rx.paths, Rx.coef, Rx.deg]
  | bos => simp [Rx.paths, Rx.coef, Rx.deg]

/-- consequently a search that fails everywhere tries at most `coef * (n+1)^(deg+1)` paths over all start positions -/
theorem C16_safe_scan_paths (r : Rx) (hs : r.safe = true) (text : List Char) :
    ((List.range (text.length + 1)).map (fun i =>
        (r.all ⟨(if i = 0 then none else text[i-1]?), text.drop i, i, []⟩).length)).sum
      ≤ (text.length + 1) * (r.coef * (text.length + 1) ^ r.deg) := by
  have h := sum_map_le (List.range (text.length + 1))
    (fun i => (r.all ⟨(if i = 0 then none else text[i-1]?), text.drop i, i, []⟩).length)
    (r.coef * (text.length + 1) ^ r.deg)
    (fun i _ => by
      refine Nat.le_trans (C16_safe_paths_bound r hs _) ?_
      refine Nat.le_trans (r.paths_mono (n := text.length) ?_) (C16_paths_polynomial r _)
      simp only [List.length_drop]
      omega)
  rw [List.length_range] at h
  exact h

/-! ### data corollary on the regenerated patterns -/

/-- every Safe regenerated pattern has path-polynomial degree at most 17 -/
theorem C16_safe_pattern_degrees :
    (Gen.patterns.filter (fun p => p.2.1.safe)).all (fun p => p.2.1.deg ≤ 17) = true := by
  decide +kernel

/-- 17 is the smallest such bound; it is attained by `pp_twprge_pm` (and only by it) -/
theorem C16_safe_pattern_degrees_tight :
    ((Gen.patterns.filter (fun p => p.2.1.safe && p.2.1.deg == 17)).map (·.1)) = ["pp_twprge_pm"] := by
  decide +kernel

#print axioms C16_safe_pattern_degrees
#print axioms C16_safe_pattern_degrees_tight
#print axioms Rx.paths_mono
#print axioms Rx.all_rest_le
#print axioms C16_safe_paths_bound
#print axioms C16_paths_polynomial
#print axioms C16_safe_scan_paths

end PyTRS
