/-
W1 — tracts follow the sections (C05); no 'undefined' placeholder unless the text has an underscore (C09).
-/
import PyTRS.Lemmas.Walk
import PyTRS.Lemmas.TrsRound
import PyTRS.Lemmas.FlagPipe
namespace PyTRS
open PyTRS.Obj PyTRS.Plss

/-! ## PART A (C05) -/

namespace TractsOf

/-- the (trs string, description) pairs that `construct_tracts` feeds to `Tract(...)` -/
theorem tractSpecs_pairs (cleanUp : Bool) (comps : List Component) (specs : List (Str × Str × Bool))
    (h : tractSpecs cleanUp comps = .ok specs) :
    specs.map (fun s => (s.2.1, s.1)) =
      comps.flatMap (fun c => (c.sec.getD []).map (fun sec =>
        (optStrPy c.twprge ++ sec, if cleanUp then cleanupDesc c.desc else c.desc))) := by
  induction comps generalizing specs with
  | nil => simp [tractSpecs] at h; subst h; rfl
  | cons c rest ih =>
    rw [tractSpecs] at h
    split at h
    · cases h
    · rename_i secs hs
      split at h
      · cases h
      · rename_i more hm
        cases h
        simp [ih _ hm, hs, Function.comp_def]

theorem buildTracts_pairs (uid0 : Nat) (hd : Str) (pq : Bool) (src : OptStr) (text : Str)
    (look : Option Str → TRS.TrsDict) (specs : List (Str × Str × Bool)) (idx : Nat) (ts : List TractObj)
    (h : buildTracts uid0 hd pq src text look idx specs = .ok ts) :
    ts.map (fun t => (t.trs, t.desc)) = specs.map (fun s => (look (some s.2.1), s.1)) := by
  obtain ⟨hlen, hall⟩ := C09_provenance uid0 hd pq src text look specs idx ts h
  apply List.ext_getElem (by simp [hlen])
  intro i h1 h2
  simp only [List.length_map] at h1 h2
  simp only [List.getElem_map]
  have := hall i h1 h2
  rw [this.2.2.2.2.1, this.2.2.2.2.2]

theorem buildTracts_index (uid0 : Nat) (hd : Str) (pq : Bool) (src : OptStr) (text : Str)
    (look : Option Str → TRS.TrsDict) (specs : List (Str × Str × Bool)) (ts : List TractObj)
    (h : buildTracts uid0 hd pq src text look 0 specs = .ok ts) :
    ts.map (·.origIndex) = (List.range ts.length).map (fun (i : Nat) => (i : Int)) := by
  obtain ⟨hlen, hall⟩ := C09_provenance uid0 hd pq src text look specs 0 ts h
  apply List.ext_getElem (by simp)
  intro i h1 h2
  simp only [List.length_map] at h1
  simp only [List.getElem_map, List.getElem_range]
  have := (hall i h1 (hlen ▸ h1)).1
  rw [this]; simp

theorem buildTracts_origin (uid0 : Nat) (hd : Str) (pq : Bool) (src : OptStr) (text : Str)
    (look : Option Str → TRS.TrsDict) (specs : List (Str × Str × Bool)) (idx : Nat) (ts : List TractObj)
    (h : buildTracts uid0 hd pq src text look idx specs = .ok ts) :
    ∀ t ∈ ts, t.origDesc = some text ∧ t.source = src := by
  obtain ⟨hlen, hall⟩ := C09_provenance uid0 hd pq src text look specs idx ts h
  intro t ht
  obtain ⟨i, hi, rfl⟩ := List.getElem_of_mem ht
  have := hall i hi (hlen ▸ hi)
  exact ⟨this.2.1, this.2.2.1⟩

end TractsOf

open TractsOf in
/-- PART A (C05): one tract per section of every staged component, in order, all sharing the component's description and
    Twp/Rge; numbered in creation order -/
theorem C05_tracts_follow_sections (mc : MC) (uid0 : Nat) (text : Str) (a : ParserArgs) (look : Option Str → TRS.TrsDict)
    (out : ParserOut) (h : plssParser mc uid0 text a look = .ok out) :
    ∃ pp parent, plssPreprocess mc text a.defaultNS a.defaultEW a.ocrScrub = .ok pp ∧
      parseAllBlocks mc pp.text out.layout a (fixedFlags pp.fixed) = .ok parent ∧
      out.tracts.map (fun t => (t.trs, t.desc)) =
        parent.comps.flatMap (fun c => (c.sec.getD []).map (fun sec =>
          (look (some (optStrPy c.twprge ++ sec)),
           if (match a.cleanUp with | some b => b | none => out.layout != COPY_ALL) then cleanupDesc c.desc else c.desc))) ∧
      out.tracts.map (·.origIndex) = (List.range out.tracts.length).map (fun (i : Nat) => (i : Int)) ∧
      (∀ t ∈ out.tracts, t.origDesc = some text ∧ t.source = a.source) := by
  unfold plssParser at h
  split at h
  · cases h
  · rename_i handedDown hhd
    split at h
    · cases h
    · rename_i pp hpp
      simp only [] at h
      split at h
      · cases h
      · rename_i parent hparent
        split at h
        · cases h
        · rename_i specs hspecs
          split at h
          · cases h
          · rename_i tracts htracts
            split at h
            · cases h
            · rename_i fl1 hfl1
              cases h
              refine ⟨pp, parent, hpp, hparent, ?_, ?_, ?_⟩
              · have h1 := buildTracts_pairs _ _ _ _ _ _ _ _ _ htracts
                have h2 := tractSpecs_pairs _ _ _ hspecs
                have h0 : ∀ fl, (handDownFlags fl tracts).map (fun t => (t.trs, t.desc))
                    = tracts.map (fun t => (t.trs, t.desc)) := by
                  intro fl; simp [handDownFlags, Function.comp_def]
                show List.map _ (handDownFlags _ tracts) = _
                rw [h0, h1]
                have h3 : specs.map (fun s => (look (some s.2.1), s.1))
                    = (specs.map (fun s => (s.2.1, s.1))).map (fun p => (look (some p.1), p.2)) := by
                  simp [Function.comp_def]
                rw [h3, h2]
                simp only [List.map_flatMap, List.map_map, Function.comp_def]
                rfl
              · have h1 := buildTracts_index _ _ _ _ _ _ _ _ htracts
                have h0 : ∀ fl, (handDownFlags fl tracts).map (·.origIndex) = tracts.map (·.origIndex) := by
                  intro fl; simp [handDownFlags, Function.comp_def]
                show List.map _ (handDownFlags _ tracts) = List.map _ (List.range (handDownFlags _ tracts).length)
                rw [h0, h1]
                simp [handDownFlags]
              · intro t ht
                change t ∈ handDownFlags _ tracts at ht
                unfold handDownFlags at ht
                obtain ⟨t0, h0, rfl⟩ := List.mem_map.1 ht
                exact buildTracts_origin _ _ _ _ _ _ _ _ _ htracts t0 h0

/-! ## PART B (C09): characters -/

/-- PART B (C09): characters.  `NoUS s` = the text contains no underscore -/
def NoUS (s : Str) : Prop := '_' ∉ s

instance (s : Str) : Decidable (NoUS s) := by unfold NoUS; infer_instance

namespace TractsOf

/-- every character of `a` occurs in `b` -/
def Sub (a b : Str) : Prop := ∀ c ∈ a, c ∈ b

theorem NoUS.of_sub {a b : Str} (h : Sub a b) (hb : NoUS b) : NoUS a := fun hc => hb (h _ hc)

theorem Sub.refl (a : Str) : Sub a a := fun _ h => h
theorem Sub.trans {a b c : Str} (h1 : Sub a b) (h2 : Sub b c) : Sub a c := fun x hx => h2 x (h1 x hx)

theorem noUS_append {a b : Str} : NoUS (a ++ b) ↔ NoUS a ∧ NoUS b := by
  simp [NoUS, List.mem_append, not_or]

theorem noUS_nil : NoUS [] := by simp [NoUS]

theorem noUS_cons {c : Char} {s : Str} : NoUS (c :: s) ↔ c ≠ '_' ∧ NoUS s := by
  simp [NoUS, List.mem_cons, not_or, eq_comm]

theorem sub_take (n : Nat) (s : Str) : Sub (s.take n) s := fun _ h => List.mem_of_mem_take h
theorem sub_drop (n : Nat) (s : Str) : Sub (s.drop n) s := fun _ h => List.mem_of_mem_drop h
theorem sub_slice (t : Str) (a b : Nat) : Sub (slice t a b) t :=
  fun _ h => List.mem_of_mem_take (List.mem_of_mem_drop h)

theorem sub_lstripBy (p : Char → Bool) (s : Str) : Sub (lstripBy p s) s := by
  induction s with
  | nil => exact fun _ h => h
  | cons c t ih =>
    unfold lstripBy
    split
    · exact fun x hx => List.mem_cons_of_mem _ (ih x hx)
    · exact fun _ h => h

theorem sub_rstripBy (p : Char → Bool) (s : Str) : Sub (rstripBy p s) s := by
  intro x hx
  unfold rstripBy at hx
  have := sub_lstripBy p s.reverse x (List.mem_reverse.mp hx)
  exact List.mem_reverse.mp this

theorem sub_stripBy (p : Char → Bool) (s : Str) : Sub (stripBy p s) s :=
  (sub_rstripBy p _).trans (sub_lstripBy p s)

theorem sub_pyStrip (s : Str) : Sub (pyStrip s) s := sub_stripBy _ s

theorem mem_pyReplaceAux (old new : Str) : ∀ (fuel : Nat) (s : Str) (x : Char),
    x ∈ pyReplaceAux old new fuel s → x ∈ s ∨ x ∈ new := by
  intro fuel
  induction fuel with
  | zero => intro s x h; cases s <;> (simp only [pyReplaceAux] at h; exact Or.inl h)
  | succ n ih =>
    intro s x h
    cases s with
    | nil => simp only [pyReplaceAux] at h; exact Or.inl h
    | cons c t =>
      simp only [pyReplaceAux] at h
      split at h
      · rcases List.mem_append.mp h with h | h
        · exact Or.inr h
        · rcases ih _ x h with h | h
          · exact Or.inl (List.mem_of_mem_drop h)
          · exact Or.inr h
      · rcases List.mem_cons.mp h with h | h
        · exact Or.inl (h ▸ List.mem_cons_self)
        · rcases ih _ x h with h | h
          · exact Or.inl (List.mem_cons_of_mem _ h)
          · exact Or.inr h

theorem noUS_pyReplace {s old new : Str} (hs : NoUS s) (hn : NoUS new) : NoUS (pyReplace s old new) := by
  intro h
  rcases mem_pyReplaceAux old new _ s _ h with h | h
  · exact hs h
  · exact hn h

theorem noUS_pyLower {s : Str} (h : NoUS s) : NoUS (pyLower s) := by
  intro hu
  obtain ⟨c, hc, hcu⟩ := TrsRound.mem_pyLower.mp hu
  have := (TrsRound.out_facts hcu).2 rfl
  subst this
  exact h hc

theorem ofNat_us {m : Nat} (h : Char.ofNat m = '_') : m = 95 := by
  have h2 : (Char.ofNat m).toNat = 95 := by rw [h]; rfl
  by_cases hv : m.isValidChar
  · simpa [Char.ofNat, hv, Char.ofNatAux, Char.toNat] using h2
  · simp [Char.ofNat, hv] at h2

/-- no entry of the upper-case table outputs an underscore -/
theorem tbl_upper : Gen.PY_UPPER.all (fun e => e.2.all (fun m => m != 95)) = true := by decide +kernel

theorem upper_facts {c u : Char} (h : u ∈ pyUpperChar c) (hu : u = '_') : c = '_' := by
  unfold pyUpperChar at h
  simp only [] at h
  split at h
  · split at h
    · rename_i h1 h2
      simp only [List.mem_singleton] at h
      have := ofNat_us (h.symm.trans hu)
      simp only [Bool.and_eq_true, decide_eq_true_eq] at h2
      omega
    · simp only [List.mem_singleton] at h
      rw [← h]; exact hu
  · split at h
    · rename_i l hl
      obtain ⟨m, hm, rfl⟩ := List.mem_map.mp h
      have h95 := ofNat_us hu
      have := List.all_eq_true.mp (List.all_eq_true.mp tbl_upper _ (TrsRound.lookupTbl_some hl)) m hm
      simp [h95] at this
    · simp only [List.mem_singleton] at h
      rw [← h]; exact hu

theorem noUS_pyUpper {s : Str} (h : NoUS s) : NoUS (pyUpper s) := by
  intro hu
  unfold pyUpper at hu
  obtain ⟨c, hc, hcu⟩ := List.mem_flatMap.mp hu
  have := upper_facts hcu rfl
  subst this
  exact h hc

theorem noUS_natToStr (n : Nat) : NoUS (natToStr n) := by
  intro h
  have := TrsRound.natToStr_ascii n _ h
  revert this; decide

theorem noUS_intToStr (i : Int) : NoUS (intToStr i) := by
  cases i with
  | ofNat n => rw [intToStr_ofNat]; exact noUS_natToStr n
  | negSucc n =>
    rw [intToStr_negSucc]
    exact noUS_cons.mpr ⟨by decide, noUS_natToStr _⟩

theorem intToStr_ne_nil (i : Int) : intToStr i ≠ [] := by
  cases i with
  | ofNat n => rw [intToStr_ofNat]; exact natToStr_ne_nil n
  | negSucc n => rw [intToStr_negSucc]; simp

theorem noUS_replicate (n : Nat) (c : Char) (h : c ≠ '_') : NoUS (List.replicate n c) := by
  intro hm
  exact h (List.eq_of_mem_replicate hm).symm

theorem noUS_pad2 (i : Int) : NoUS (Unpack.pad2 i) := by
  unfold Unpack.pad2 pyRJust
  exact noUS_append.mpr ⟨noUS_replicate _ _ (by decide), noUS_intToStr i⟩

theorem pad2_ne_nil (i : Int) : Unpack.pad2 i ≠ [] := by
  unfold Unpack.pad2 pyRJust
  intro h
  exact intToStr_ne_nil i (List.append_eq_nil_iff.mp h).2

/-! ### regex substitution -/

theorem noUS_subWith_go (text : Str) (f : Match → Str) (ht : NoUS text) (hf : ∀ m, NoUS (f m)) :
    ∀ (ms : List Match) (i : Nat) (acc : Str), NoUS acc → NoUS (Rx.subWith.go text f ms i acc) := by
  intro ms
  induction ms with
  | nil =>
    intro i acc ha
    unfold Rx.subWith.go
    exact noUS_append.mpr ⟨ha, NoUS.of_sub (sub_drop _ _) ht⟩
  | cons m rest ih =>
    intro i acc ha
    unfold Rx.subWith.go
    exact ih _ _ (noUS_append.mpr ⟨noUS_append.mpr ⟨ha, NoUS.of_sub (sub_slice _ _ _) ht⟩, hf m⟩)

theorem noUS_subWith (r : Rx) (text : Str) (f : Match → Str) (ht : NoUS text) (hf : ∀ m, NoUS (f m)) :
    NoUS (r.subWith text f) := by
  unfold Rx.subWith
  exact noUS_subWith_go text f ht hf _ _ _ noUS_nil

theorem noUS_sub (r : Rx) (repl text : Str) (ht : NoUS text) (hr : NoUS repl) : NoUS (r.sub repl text) :=
  noUS_subWith r text _ ht (fun _ => hr)

theorem noUS_untilStable (f : Str → Str) (hf : ∀ s, NoUS s → NoUS (f s)) :
    ∀ (fuel : Nat) (s r : Str), Tract.untilStable f fuel s = some r → NoUS s → NoUS r := by
  intro fuel
  induction fuel with
  | zero => intro s r h; simp [Tract.untilStable] at h
  | succ n ih =>
    intro s r h hs
    simp only [Tract.untilStable] at h
    split at h
    · cases h; exact hs
    · exact ih _ _ h (hf s hs)

/-! ### the unpackers -/

theorem sub_group? (m : Match) (t : Str) (g : Nat) (r : Str) (h : m.group? t g = some r) : Sub r t := by
  unfold Match.group? at h
  split at h
  · cases h; exact sub_slice _ _ _
  · cases h

theorem sub_patGroup (p : Unpack.Pat) (m : Match) (t : Str) (name : String) (r : Str)
    (h : p.group m t name = some r) : Sub r t := by
  unfold Unpack.Pat.group at h
  split at h
  · exact sub_group? _ _ _ _ h
  · cases h

theorem noUS_groupGetD (p : Unpack.Pat) (m : Match) (t : Str) (name : String) (ht : NoUS t) :
    NoUS ((p.group m t name).getD []) := by
  cases h : p.group m t name with
  | none => exact noUS_nil
  | some r => exact NoUS.of_sub (sub_patGroup _ _ _ _ _ h) ht

theorem ocr_tbl : ∀ r ∈ Gen.OCR_REPLACEMENTS, NoUS r.2.toList := by decide

theorem noUS_ocrScrub {t : Str} (h : NoUS t) : NoUS (Unpack.ocrScrubAlphaToNum t) := by
  unfold Unpack.ocrScrubAlphaToNum
  have : ∀ (l : List (String × String)), (∀ r ∈ l, NoUS r.2.toList) → ∀ t, NoUS t →
      NoUS (l.foldl (fun acc r => pyReplace acc r.1.toList r.2.toList) t) := by
    intro l
    induction l with
    | nil => intro _ t ht; exact ht
    | cons r rest ih =>
      intro hl t ht
      exact ih (fun r hr => hl r (List.mem_cons_of_mem _ hr)) _
        (noUS_pyReplace ht (hl r List.mem_cons_self))
  exact this _ ocr_tbl t h

theorem noUS_stripZeros {s : Str} (h : NoUS s) : NoUS (Unpack.stripLeadingZerosViaInt s) := by
  unfold Unpack.stripLeadingZerosViaInt
  split
  · exact noUS_intToStr _
  · exact h

theorem noUS_twpPart (p : Unpack.Pat) (mo : Match) (text : Str) (ocr : Bool) (ht : NoUS text) :
    NoUS (Unpack.twpPart p mo text ocr) := by
  unfold Unpack.twpPart
  apply noUS_stripZeros
  have := noUS_groupGetD p mo text "twpnum" ht
  split
  · exact noUS_ocrScrub this
  · exact this

theorem noUS_rgePart (p : Unpack.Pat) (mo : Match) (text : Str) (ocr : Bool) (ht : NoUS text) :
    NoUS (Unpack.rgePart p mo text ocr) := by
  unfold Unpack.rgePart
  apply noUS_stripZeros
  have : NoUS (match p.group mo text "rgenum" with
    | some r => r
    | none => (p.group mo text "rgenum_edgecase_rge2").getD []) := by
    split
    · rename_i r hr; exact NoUS.of_sub (sub_patGroup _ _ _ _ _ hr) ht
    · exact noUS_groupGetD p mo text _ ht
  split
  · exact noUS_ocrScrub this
  · exact this

theorem noUS_dirPart (p : Unpack.Pat) (mo : Match) (text : Str) (grp : String) (dflt : Str)
    (ht : NoUS text) (hd : NoUS dflt) : NoUS (Unpack.dirPart p mo text grp dflt) := by
  unfold Unpack.dirPart
  apply noUS_pyUpper
  split
  · rename_i c t hg
    have := NoUS.of_sub (sub_patGroup _ _ _ _ _ hg) ht
    exact noUS_cons.mpr ⟨(noUS_cons.mp this).1, noUS_nil⟩
  · exact hd

end TractsOf

open TractsOf in
/-- nor does the Twp/Rge the finder reports, if the text has none -/
theorem C09_unpackTwprge_noUS (p : Unpack.Pat) (mo : Match) (text ns ew : Str) (ocr : Bool) (r : Str)
    (ht : NoUS text) (hns : NoUS ns) (hew : NoUS ew) (h : Unpack.unpackTwprge p mo text ns ew ocr = .ok r) : NoUS r := by
  unfold Unpack.unpackTwprge at h
  split at h
  · cases h
  · split at h
    · cases h
    · cases h
      refine noUS_append.mpr ⟨noUS_append.mpr ⟨noUS_append.mpr ⟨noUS_append.mpr ⟨noUS_append.mpr ⟨?_, ?_⟩, ?_⟩, ?_⟩, ?_⟩, ?_⟩
      · decide
      · exact noUS_twpPart _ _ _ _ ht
      · exact noUS_dirPart _ _ _ _ _ ht hns
      · decide
      · exact noUS_rgePart _ _ _ _ ht
      · exact noUS_dirPart _ _ _ _ _ ht hew

namespace TractsOf

theorem noUS_natToShort {t : Str} (h : NoUS t) : NoUS (Unpack.twprgeNaturalToShort t) := by
  unfold Unpack.twprgeNaturalToShort
  exact noUS_sub _ _ _ (noUS_pyLower h) noUS_nil

/-! ### sections -/

/-- a section string: underscore-free and non-empty -/
def SecOK (s : Str) : Prop := NoUS s ∧ s ≠ []

theorem secOK_pad2 (i : Int) : SecOK (Unpack.pad2 i) := ⟨noUS_pad2 i, pad2_ne_nil i⟩

theorem secRangeStep_ok (st : Unpack.SecLoopSt) (n : Int) (h : ∀ s ∈ st.working, SecOK s) :
    ∀ s ∈ (Unpack.secRangeStep st n).working, SecOK s := by
  unfold Unpack.secRangeStep
  split
  · simp only []
    intro s hs
    have hs' : s ∈ st.working ++ (Unpack.elidedRange n ((pyInt? (st.working.getLast?.getD [])).getD 0)).1.map Unpack.pad2 := by
      split at hs <;> exact hs
    rcases List.mem_append.mp hs' with hs' | hs'
    · exact h s hs'
    · obtain ⟨i, _, rfl⟩ := List.mem_map.mp hs'
      exact secOK_pad2 i
  · intro s hs
    rcases List.mem_append.mp hs with hs | hs
    · exact h s hs
    · rw [List.mem_singleton] at hs; subst hs; exact secOK_pad2 n

theorem secLoop_ok (txt : Str) : ∀ (fuel endpos : Nat) (st : Unpack.SecLoopSt),
    (∀ s ∈ st.working, SecOK s) → ∀ s ∈ (Unpack.secLoop txt fuel endpos st).1.working, SecOK s := by
  intro fuel
  induction fuel with
  | zero => intro endpos st h; exact h
  | succ n ih =>
    intro endpos st h
    unfold Unpack.secLoop
    split
    · exact h
    · exact ih _ _ (secRangeStep_ok st _ h)

theorem unpackSections_ok (txt : Str) : ∀ s ∈ (Unpack.unpackSections txt).secList, SecOK s := by
  intro s hs
  unfold Unpack.unpackSections at hs
  simp only [] at hs
  rw [List.mem_reverse] at hs
  exact secLoop_ok txt _ _ _ (by intro s hs; cases hs) s hs

end TractsOf

/-- the section strings the unpacker produces never contain an underscore -/
theorem C09_unpackSections_noUS (txt : Str) : ∀ s ∈ (Unpack.unpackSections txt).secList, NoUS s :=
  fun s hs => (TractsOf.unpackSections_ok txt s hs).1

namespace TractsOf

/-! ### the preprocessor -/

theorem subScrubStep_ok (p : Unpack.Pat) (txt ns ew : Str) (ocr : Bool) (ht : NoUS txt) (hns : NoUS ns) (hew : NoUS ew)
    (st : Str × Nat) (m : Match) (st' : Str × Nat)
    (h : subScrubStep p txt ns ew ocr st m = .ok st') (hst : NoUS st.1) : NoUS st'.1 := by
  unfold subScrubStep at h
  split at h
  · cases h
  · rename_i clean hc
    cases h
    have := C09_unpackTwprge_noUS _ _ _ _ _ _ _ ht hns hew hc
    exact noUS_append.mpr ⟨noUS_append.mpr ⟨noUS_append.mpr ⟨hst, NoUS.of_sub (sub_slice _ _ _) ht⟩, this⟩, by decide⟩

theorem subScrubber_ok (name : String) (txt ns ew : Str) (hns : NoUS ns) (hew : NoUS ew) (r : Str)
    (h : subScrubber name txt ns ew = .ok r) (ht : NoUS txt) : NoUS r := by
  unfold subScrubber at h
  simp only [] at h
  split at h
  · cases h
  · rename_i st hst
    cases h
    have := foldlM_inv (fun s : Str × Nat => NoUS s.1) _
      (subScrubStep_ok (findPat name) txt ns ew _ ht hns hew) _ _ _ hst noUS_nil
    exact noUS_append.mpr ⟨this, NoUS.of_sub (sub_drop _ _) ht⟩

theorem reduceWhitespaceStep_ok (t : Str) (ht : NoUS t) : NoUS (reduceWhitespaceStep t) := by
  unfold reduceWhitespaceStep
  simp only []
  refine noUS_sub _ _ _ (noUS_sub _ _ _ (noUS_sub _ _ _ (noUS_sub _ _ _ (noUS_sub _ _ _ ht ?_) ?_) ?_) ?_) ?_ <;> decide

theorem reduceWhitespace_ok (t r : Str) (h : reduceWhitespace t = some r) (ht : NoUS t) : NoUS r := by
  unfold reduceWhitespace at h
  simp only [] at h
  exact noUS_untilStable _ reduceWhitespaceStep_ok _ _ _ h (NoUS.of_sub (sub_pyStrip t) ht)

theorem plssPreprocess_ok (mc : MC) (txt : Str) (defNS defEW : Option Str) (ocr : Bool) (pp : PPResult)
    (ht : NoUS txt) (hmc : NoUS mc.ns ∧ NoUS mc.ew)
    (hd : (∀ x, defNS = some x → NoUS x) ∧ (∀ x, defEW = some x → NoUS x))
    (h : plssPreprocess mc txt defNS defEW ocr = .ok pp) : NoUS pp.text := by
  have hns : NoUS (resolve defNS mc.ns) := by
    unfold resolve; cases defNS with
    | none => exact hmc.1
    | some x => exact hd.1 x rfl
  have hew : NoUS (resolve defEW mc.ew) := by
    unfold resolve; cases defEW with
    | none => exact hmc.2
    | some x => exact hd.2 x rfl
  unfold plssPreprocess at h
  simp only [] at h
  split at h
  · cases h
  · split at h
    · cases h
    · rename_i t hfold
      have h1 : NoUS t := foldlM_inv NoUS _
        (fun s n s' hs hp => subScrubber_ok n s _ _ hns hew s' hs hp) _ _ _ hfold ht
      split at h
      · cases h; exact h1
      · rename_i t2 hrw
        have h2 := reduceWhitespace_ok _ _ hrw h1
        split at h
        · cases h
        · cases h; exact h2

/-! ### cleanup and chunking -/

theorem cleanupStep_ok (t : Str) (ht : NoUS t) : NoUS (cleanupStep t) := by
  unfold cleanupStep
  simp only []
  apply foldl_inv NoUS
  · intro s a hs
    split
    · exact NoUS.of_sub (sub_take _ _) hs
    · exact hs
  · apply foldl_inv NoUS _ _ _ _ ht
    intro s a hs
    split
    · exact NoUS.of_sub (sub_lstripBy _ _) hs
    · split
      · exact NoUS.of_sub (sub_rstripBy _ _) hs
      · exact NoUS.of_sub (sub_stripBy _ _) hs

theorem cleanupDesc_ok (t : Str) (ht : NoUS t) : NoUS (cleanupDesc t) := by
  unfold cleanupDesc
  cases h : Tract.untilStable cleanupStep (t.length + 3) t with
  | none => exact ht
  | some r => exact noUS_untilStable _ cleanupStep_ok _ _ _ h ht

/-! ### the finders -/

theorem trFindStep_ok (mc : MC) (txt layout : Str) (ht : NoUS txt) (hmc : NoUS mc.ns ∧ NoUS mc.ew)
    (st : TRFindSt) (mo : Match) (st' : TRFindSt)
    (h : trFindStep mc txt layout st mo = .ok st') (hs : ∀ m ∈ st.out, NoUS m.twprge) :
    ∀ m ∈ st'.out, NoUS m.twprge := by
  unfold trFindStep at h
  split at h
  · cases h
  · rename_i nat hnat
    have hshort := noUS_natToShort (C09_unpackTwprge_noUS _ _ _ _ _ _ _ ht hmc.1 hmc.2 hnat)
    have hadd : ∀ a b, ∀ m ∈ st.out ++ [(⟨Unpack.twprgeNaturalToShort nat, a, b⟩ : TRMatch)], NoUS m.twprge := by
      intro a b m hm
      rcases List.mem_append.mp hm with hm | hm
      · exact hs m hm
      · rw [List.mem_singleton] at hm; subst hm; exact hshort
    simp only [] at h
    split at h
    · cases h; exact hadd _ _
    · split at h <;> split at h <;> cases h <;> first | exact hs | exact hadd _ _

theorem twprgeFinder_ok (mc : MC) (txt layout : Str) (ht : NoUS txt) (hmc : NoUS mc.ns ∧ NoUS mc.ew)
    (r : List TRMatch × FinderFlags) (h : twprgeFinder mc txt layout = .ok r) : ∀ m ∈ r.1, NoUS m.twprge := by
  unfold twprgeFinder at h
  split at h
  · cases h
  · rename_i st hst
    cases h
    exact foldlM_inv (fun s : TRFindSt => ∀ m ∈ s.out, NoUS m.twprge) _ (trFindStep_ok mc txt layout ht hmc) _ _ _ hst
      (by intro m hm; cases hm)

def SecsOK (l : List Str) : Prop := ∀ s ∈ l, SecOK s

theorem secFindStep_ok (text layout : Str) (nc : Bool) (st : SecFindSt) (mo : Match) (st' : SecFindSt)
    (h : secFindStep text layout nc st mo = .ok st') (hs : ∀ m ∈ st.out, SecsOK m.secs) :
    ∀ m ∈ st'.out, SecsOK m.secs := by
  unfold secFindStep at h
  simp only [] at h
  split at h
  · split at h
    · cases h; exact hs
    · split at h
      · cases h; exact hs
      · cases h
  · cases h
    intro m hm
    rcases List.mem_append.mp hm with hm | hm
    · exact hs m hm
    · rw [List.mem_singleton] at hm; subst hm; exact unpackSections_ok _

theorem secFinderPass_ok (text layout : Str) (nc : Bool) (r : List SecMatch × FinderFlags × List Str)
    (h : secFinderPass text layout nc = .ok r) : ∀ m ∈ r.1, SecsOK m.secs := by
  unfold secFinderPass at h
  split at h
  · cases h
  · rename_i st hst
    cases h
    exact foldlM_inv (fun s : SecFindSt => ∀ m ∈ s.out, SecsOK m.secs) _ (secFindStep_ok text layout nc) _ _ _ hst
      (by intro m hm; cases hm)

theorem secFinder_ok (text layout : Str) (rc : ReqColon) (r : List SecMatch × FinderFlags)
    (h : secFinder text layout rc = .ok r) : ∀ m ∈ r.1, SecsOK m.secs := by
  unfold secFinder at h
  simp only [] at h
  split at h
  · cases h
  · rename_i ms ff ln h1
    have t1 := secFinderPass_ok _ _ _ _ h1
    split at h
    · cases h; exact t1
    · split at h
      · split at h
        · cases h
        · rename_i ms2 ff2 ln2 h2
          have t2 := secFinderPass_ok _ _ _ _ h2
          split at h
          · cases h; exact t2
          · cases h; exact t2
      · cases h; exact t1

/-! ### the chunk parser: every staged Twp/Rge and section string is underscore-free -/

def CompOK (k : Component) : Prop := (∀ w, k.twprge = some w → NoUS w) ∧ (∀ l, k.sec = some l → SecsOK l)

structure ChunkOK (c : Chunk) : Prop where
  tr : ∀ w, c.workingTR = some w → NoUS w
  sec : ∀ w, c.workingSec = some w → SecsOK w
  trl : ∀ t ∈ c.trList, NoUS t
  secl : ∀ l ∈ c.secList, SecsOK l
  comps : ∀ k ∈ c.comps, CompOK k

theorem errSec_ok : SecsOK [ERR_SEC] := by
  intro s hs
  rw [List.mem_singleton] at hs; subst hs
  exact ⟨by decide, by decide⟩

theorem addE_ok (c : Chunk) (f x : Str) (h : ChunkOK c) : ChunkOK (addE c f x) :=
  ⟨h.tr, h.sec, h.trl, h.secl, h.comps⟩

theorem flagUnusedTR_ok (c : Chunk) (h : ChunkOK c) : ChunkOK (flagUnusedTR c) := by
  unfold flagUnusedTR
  split
  · split
    · exact addE_ok _ _ _ h
    · exact h
  · exact h

theorem flagUnusedSec_ok (c : Chunk) (h : ChunkOK c) : ChunkOK (flagUnusedSec c) := by
  unfold flagUnusedSec
  split
  · split
    · exact addE_ok _ _ _ h
    · exact h
  · exact h

theorem getNextTwprge_ok2 (c : Chunk) (h : ChunkOK c) : ChunkOK (getNextTwprge c) := by
  unfold getNextTwprge
  have h' := flagUnusedTR_ok c h
  generalize flagUnusedTR c = c' at h'
  simp only []
  split
  · rename_i t rest ht
    refine ⟨?_, h'.sec, ?_, h'.secl, h'.comps⟩
    · intro w hw; cases hw; exact h'.trl _ (ht ▸ List.mem_cons_self)
    · intro x hx; exact h'.trl _ (ht ▸ List.mem_cons_of_mem _ hx)
  · rename_i ht
    refine ⟨?_, h'.sec, h'.trl, h'.secl, h'.comps⟩
    intro w hw; cases hw; decide

theorem getNextSec_ok2 (c : Chunk) (h : ChunkOK c) : ChunkOK (getNextSec c) := by
  unfold getNextSec
  have h' := flagUnusedSec_ok c h
  generalize flagUnusedSec c = c' at h'
  simp only []
  split
  · rename_i t rest ht
    refine ⟨h'.tr, ?_, h'.trl, ?_, h'.comps⟩
    · intro w hw; cases hw; exact h'.secl _ (ht ▸ List.mem_cons_self)
    · intro x hx; exact h'.secl _ (ht ▸ List.mem_cons_of_mem _ hx)
  · rename_i ht
    refine ⟨h'.tr, ?_, h'.trl, h'.secl, h'.comps⟩
    intro w hw; cases hw; exact errSec_ok

theorem stage_ok (c : Chunk) (desc : Str) (sec : Option (List Str)) (tr : Option Str) (h : ChunkOK c)
    (hsec : ∀ l, sec = some l → SecsOK l) (htr : ∀ w, tr = some w → NoUS w) : ChunkOK (stage c desc sec tr) := by
  refine ⟨h.tr, h.sec, h.trl, h.secl, ?_⟩
  intro k hk
  unfold stage at hk
  rcases List.mem_append.mp hk with hk | hk
  · exact h.comps k hk
  · rw [List.mem_singleton] at hk; subst hk; exact ⟨htr, hsec⟩

theorem walkStep_ok (txt layout : Str) (markers : List (Nat × Marker)) (c : Chunk) (count : Nat)
    (h : ChunkOK c) : ChunkOK (walkStep txt layout markers c count) := by
  unfold walkStep
  simp only []
  split
  · exact getNextTwprge_ok2 c h
  · split
    · exact getNextSec_ok2 c h
    · split
      · exact h
      · split
        · have h1 := stage_ok c (cleanupDesc (slice txt (markers[count]!).1 (markers[min (markers.length - 1) (count + 1)]!).1))
            c.workingSec c.workingTR h h.sec h.tr
          refine ⟨h1.tr, ?_, h1.trl, h1.secl, h1.comps⟩
          intro w hw; cases hw; exact errSec_ok
        · exact ⟨h.tr, h.sec, h.trl, h.secl, h.comps⟩

theorem parseMeaningful_ok (c : Chunk) (txt layout : Str) (markers : List (Nat × Marker))
    (h : ChunkOK c) : ChunkOK (parseMeaningful c txt layout markers) := by
  unfold parseMeaningful
  simp only []
  apply foldl_inv ChunkOK _ (fun c n hc => walkStep_ok txt layout markers c n hc)
  have h1 : ChunkOK (if !sDescLays layout then getNextSec c else c) := by
    split
    · exact getNextSec_ok2 c h
    · exact h
  split
  · exact getNextTwprge_ok2 _ h1
  · exact h1

theorem parseCopyAll_ok (c : Chunk) (txt : Str) (c' : Chunk) (h : ChunkOK c) (hp : parseCopyAll c txt = .ok c') :
    ChunkOK c' := by
  unfold parseCopyAll at hp
  simp only [] at hp
  have h1 := getNextSec_ok2 c h
  generalize getNextSec c = c1 at h1 hp
  split at hp
  · rename_i s rest hs
    cases hp
    have h2 := getNextTwprge_ok2 c1 h1
    apply stage_ok _ _ _ _ h2 _ h2.tr
    intro l hl; cases hl
    intro x hx
    rw [List.mem_singleton] at hx; subst hx
    exact h1.sec _ hs _ List.mem_cons_self
  · cases hp

theorem rebuildSecWithin_ok (comps : List Component) (unused : List (Nat × Str)) (n : Nat)
    (h : ∀ k ∈ comps, CompOK k) : ∀ k ∈ (rebuildSecWithin comps unused n).1, CompOK k := by
  unfold rebuildSecWithin
  split
  · rename_i t
    simp only []
    have ht := h t List.mem_cons_self
    intro k hk
    split at hk
    · rw [List.mem_singleton] at hk; subst hk; exact ⟨ht.1, ht.2⟩
    · rw [List.mem_singleton] at hk; subst hk; exact ht
  · exact h

theorem reqTR_ok (c : Chunk) (h : ChunkOK c) : ChunkOK (reqTR c) := by
  unfold reqTR
  split
  · rename_i w hw
    split
    · refine ⟨h.tr, h.sec, ?_, h.secl, h.comps⟩
      intro t ht
      rcases List.mem_cons.mp ht with ht | ht
      · subst ht; exact h.tr _ hw
      · exact h.trl t ht
    · exact h
  · exact h

theorem reqSec_ok (c : Chunk) (h : ChunkOK c) : ChunkOK (reqSec c) := by
  unfold reqSec
  split
  · rename_i w hw
    split
    · refine ⟨h.tr, h.sec, h.trl, ?_, h.comps⟩
      intro t ht
      rcases List.mem_cons.mp ht with ht | ht
      · subst ht; exact h.sec _ hw
      · exact h.secl t ht
    · exact h
  · exact h

theorem flagTRs_ok (c : Chunk) (h : ChunkOK c) : ChunkOK (flagTRs c) :=
  foldl_inv ChunkOK _ (fun c _ hc => addE_ok c _ _ hc) c.trList c h

theorem flagSecs_ok (c : Chunk) (h : ChunkOK c) : ChunkOK (flagSecs c) :=
  foldl_inv ChunkOK _ (fun c _ hc => addE_ok c _ _ hc) c.secList c h

theorem swStep_ok (pc : ParserCfg) (c : Chunk) (h : ChunkOK c) : ChunkOK (swStep pc c) := by
  unfold swStep
  split
  · exact ⟨h.tr, h.sec, h.trl, h.secl, rebuildSecWithin_ok _ _ _ h.comps⟩
  · exact h

theorem finishChunk_ok (pc : ParserCfg) (c : Chunk) (h : ChunkOK c) : ChunkOK (finishChunk pc c) := by
  rw [finishChunk_eq]
  exact swStep_ok _ _ (flagSecs_ok _ (flagTRs_ok _ (reqSec_ok _ (reqTR_ok _ h))))

theorem parseChunkCore_ok (mc : MC) (pc : ParserCfg) (text : Str) (copyAll : Bool) (layout : Str) (c : Chunk)
    (ht : NoUS text) (hmc : NoUS mc.ns ∧ NoUS mc.ew)
    (h : parseChunkCore mc pc text copyAll layout = .ok c) : ChunkOK c := by
  unfold parseChunkCore at h
  simp only [] at h
  split at h
  · cases h
  · rename_i trs tff htr
    have t1 := twprgeFinder_ok _ _ _ ht hmc _ htr
    split at h
    · cases h
    · rename_i secs sff hsec
      have t2 := secFinder_ok _ _ _ _ hsec
      have h0 : ChunkOK ({ fl := { w := tff.flags ++ sff.flags, wl := tff.lines ++ sff.lines },
                           secList := secs.map (·.secs), trList := trs.map (·.twprge) } : Chunk) := by
        refine ⟨?_, ?_, ?_, ?_, ?_⟩
        · intro w hw; cases hw
        · intro w hw; cases hw
        · intro t htm
          obtain ⟨m, hm, rfl⟩ := List.mem_map.mp htm
          exact t1 m hm
        · intro l hl
          obtain ⟨m, hm, rfl⟩ := List.mem_map.mp hl
          exact t2 m hm
        · intro k hk; cases hk
      split at h
      · exact parseCopyAll_ok _ _ _ h0 h
      · cases h
        exact finishChunk_ok _ _ (parseMeaningful_ok _ _ _ _ h0)

theorem chunkParser_ok (mc : MC) (pc : ParserCfg) (text : Str) (copyAll : Bool) (layout : Str)
    (parent p : ParentSt) (ht : NoUS text) (hmc : NoUS mc.ns ∧ NoUS mc.ew)
    (h : chunkParser mc pc text copyAll layout parent = .ok p) (hp : ∀ k ∈ parent.comps, CompOK k) :
    ∀ k ∈ p.comps, CompOK k := by
  unfold chunkParser at h
  split at h
  · cases h
  · rename_i c0 h0
    split at h
    · cases h
    · rename_i c hc
      have tc : ChunkOK c := by
        split at hc
        · exact parseChunkCore_ok _ _ _ _ _ _ ht hmc hc
        · cases hc; exact parseChunkCore_ok _ _ _ _ _ _ ht hmc h0
      cases h
      intro k hk
      rcases List.mem_append.mp hk with hk | hk
      · exact hp k hk
      · exact tc.comps k hk

theorem parseBlocks_ok (mc : MC) (pc : ParserCfg) (copyAll : Bool) (layout : Str) (hmc : NoUS mc.ns ∧ NoUS mc.ew) :
    ∀ (l : List Str) (parent p : ParentSt), (∀ b ∈ l, NoUS b) → parseBlocks mc pc copyAll layout l parent = .ok p →
      (∀ k ∈ parent.comps, CompOK k) → ∀ k ∈ p.comps, CompOK k := by
  intro l
  induction l with
  | nil => intro parent p _ h hp; simp only [parseBlocks] at h; cases h; exact hp
  | cons x xs ih =>
    intro parent p hl h hp
    simp only [parseBlocks] at h
    split at h
    · cases h
    · rename_i p1 h1
      exact ih p1 p (fun b hb => hl b (List.mem_cons_of_mem _ hb)) h
        (chunkParser_ok _ _ _ _ _ _ _ (hl x List.mem_cons_self) hmc h1 hp)

theorem plssChunker_ok (mc : MC) (text layout : Str) (ht : NoUS text) (r : List Str × List (Nat × Str))
    (h : plssChunker mc text layout = .ok r) : ∀ b ∈ r.1, NoUS b := by
  unfold plssChunker at h
  split at h
  · cases h
  · rename_i ms ff hms
    split at h
    · cases h
      intro b hb
      rw [List.mem_singleton] at hb; subst hb; exact ht
    · split at h
      · cases h
        intro b hb
        unfold chunkBlocksFirst at hb
        obtain ⟨i, _, rfl⟩ := List.mem_map.mp hb
        exact cleanupDesc_ok _ (NoUS.of_sub (sub_slice _ _ _) ht)
      · cases h
        intro b hb
        unfold chunkBlocksLast at hb
        obtain ⟨i, _, rfl⟩ := List.mem_map.mp hb
        exact cleanupDesc_ok _ (NoUS.of_sub (sub_slice _ _ _) ht)

theorem parseAllBlocks_ok (mc : MC) (ptext layout : Str) (a : ParserArgs) (fl : Tract.Flags) (p : ParentSt)
    (ht : NoUS ptext) (hmc : NoUS mc.ns ∧ NoUS mc.ew)
    (h : parseAllBlocks mc ptext layout a fl = .ok p) : ∀ k ∈ p.comps, CompOK k := by
  unfold parseAllBlocks at h
  simp only [] at h
  split at h
  · cases h
  · rename_i blocks parent hstart
    have hpar : (∀ k ∈ parent.comps, CompOK k) ∧ ∀ b ∈ blocks, NoUS b := by
      split at hstart
      · split at hstart
        · cases hstart
        · rename_i bs un hch
          cases hstart
          exact ⟨(by intro k hk; cases hk), plssChunker_ok _ _ _ ht _ hch⟩
      · cases hstart
        refine ⟨(by intro k hk; cases hk), ?_⟩
        intro b hb
        rw [List.mem_singleton] at hb; subst hb; exact ht
    split at h
    · cases h
    · rename_i p1 h1
      have t1 := parseBlocks_ok _ _ _ _ hmc _ _ _ hpar.2 h1 hpar.1
      split at h
      · cases h; exact rebuildSecWithin_ok _ _ _ t1
      · cases h; exact t1

end TractsOf

open TractsOf in
/-- MAIN (C09): if the original text contains no underscore (and the default directions are the legal single letters), no tract
    produced from it carries the 'undefined' placeholder in its township, range or section -/
theorem C09_no_undefined_tracts (mc : MC) (uid0 : Nat) (text : Str) (a : ParserArgs) (out : ParserOut)
    (ht : NoUS text) (hmc : NoUS mc.ns ∧ NoUS mc.ew)
    (hd : (∀ x, a.defaultNS = some x → NoUS x) ∧ (∀ x, a.defaultEW = some x → NoUS x))
    (h : plssParser mc uid0 text a TRS.trsToDict = .ok out) :
    ∀ t ∈ out.tracts, t.trs.twpUndef = false ∧ t.trs.rgeUndef = false ∧ t.trs.secUndef = false := by
  obtain ⟨pp, parent, hpp, hpar, hmap, _, _⟩ := C05_tracts_follow_sections mc uid0 text a TRS.trsToDict out h
  have hptext := plssPreprocess_ok mc text _ _ _ pp ht hmc hd hpp
  have hcomps := parseAllBlocks_ok mc pp.text out.layout a _ parent hptext hmc hpar
  intro t htm
  have hmem : (t.trs, t.desc) ∈ out.tracts.map (fun t => (t.trs, t.desc)) := List.mem_map.mpr ⟨t, htm, rfl⟩
  rw [hmap] at hmem
  obtain ⟨c, hc, hmem⟩ := List.mem_flatMap.mp hmem
  obtain ⟨sec, hsec, heq⟩ := List.mem_map.mp hmem
  have hcok := hcomps c hc
  have hsecok : SecOK sec := by
    cases hs : c.sec with
    | none => rw [hs] at hsec; cases hsec
    | some l => rw [hs] at hsec; exact hcok.2 l hs sec hsec
  have htr : NoUS (optStrPy c.twprge) := by
    unfold optStrPy
    cases hw : c.twprge with
    | none => decide
    | some w => exact hcok.1 w hw
  have hkey : NoUS (optStrPy c.twprge ++ sec) := noUS_append.mpr ⟨htr, hsecok.1⟩
  have hne : optStrPy c.twprge ++ sec ≠ [] := by
    intro hnil
    exact hsecok.2 (List.append_eq_nil_iff.mp hnil).2
  have htrs : t.trs = TRS.trsToDict (some (optStrPy c.twprge ++ sec)) := (Prod.mk.inj heq).1.symm
  rw [htrs]
  exact C09_no_undef_without_underscore _ hne hkey

#print axioms C05_tracts_follow_sections
#print axioms C09_unpackSections_noUS
#print axioms C09_unpackTwprge_noUS
#print axioms C09_no_undefined_tracts

end PyTRS
